/-
  C13 with a printer that keeps finitely many digits: reading what was printed gives the *quantised* number `q x`
  (`rd (fmt x) = some (q x)`), printing is a projection (`fmt (q x) = fmt x`).  Then the representable numbers
  `q x = x` satisfy the exact law, the exported document does not change when every number of the network is replaced
  by its quantised value, and reading the export gives exactly that quantised network.

  Round 6: the law has a DOMAIN for the second printer.  The sexagesimal text `gon2deg(m, 0, 4)` prints no sign and
  is defined only while `int(gon·0.9)` is (`|g|·0.9 < 2³¹−1`): its two laws are false for some `x`, so
  `Codec.PrinterOn D` requires them only for `x ∈ D`, and the theorems that print an angular value in degrees assume
  the network's angular values lie in `D` (`Net.AngIn D`: gama normalises observed angles to [0, 400) gon; it is
  what `Net.WF C R Rd n` says about them when `Rd ⊆ D`, `Net.WF.angIn`).  `Codec.Printer` is `PrinterOn` with the
  trivial domain (every law for every `x`): C12's record round trips and the toy `decCodec` use that form.
  The decimal printer `%.{p}g` (`fmt`, `rd`) satisfies its laws for every `x`; they stay unrestricted.

  Round 8: the elements of `<cov-mat>` are a THIRD printer (`Codec.fmtCov`: `updated_xml_covmat` prints them with
  `scientific`, `precision(16)`, not through `to_xmlstr`) with its own quantisation `qc`: `rd (fmtCov x) = some (qc x)`,
  `fmtCov (qc x) = fmtCov x`, `qc (neg x) = neg (qc x)`; `quantNet C q qc qd` rounds the covariance elements with `qc`
  and everything else as before.  `Codec.Printer C q qd` asks `qc = q` (one decimal printer: the toys, C12's records).
-/
import Gama.Lemmas.ExportNet
namespace Gama.Export
open Gama.Gen.GkfAttrs Gama.Gen.GkfDoc

variable {K : Type}

structure Codec.PrinterOn (C : Codec K) (D : K → Prop) (q qc qd : K → K) : Prop where
  rd_fmt : ∀ x, C.rd (C.fmt x) = some (q x)         -- defined for every x
  fmt_q : ∀ x, C.fmt (q x) = C.fmt x                -- printing is a projection
  isZero_iff : ∀ x, C.isZero x = true ↔ x = C.zero
  isZero_q : ∀ x, C.isZero (q x) = C.isZero x       -- a non-zero height does not print as zero
  pos_q : ∀ x, C.pos (q x) = C.pos x
  q_neg : ∀ x, q (C.neg x) = C.neg (q x)            -- the sign is printed separately from the digits
  neg_neg : ∀ x, C.neg (C.neg x) = x
  rdI_fmtI : ∀ i : Int, -1 ≤ i → C.rdI (C.fmtI i) = some i
  latIn_latOut : ∀ x, C.latIn (C.latOut x) = x
  latOut_latIn : ∀ x, C.latOut (C.latIn x) = x
  rdDeg_fmt : ∀ x, C.rdDeg (C.fmt x) = none
  fmt_ne : ∀ x, C.fmt x ≠ ""
  -- the elements of `<cov-mat>` have a third printer (`updated_xml_covmat`: `%.16e`), with its own quantisation `qc`;
  -- they are read by the common reader
  rd_fmtCov : ∀ x, C.rd (C.fmtCov x) = some (qc x)
  fmtCov_qc : ∀ x, C.fmtCov (qc x) = C.fmtCov x
  qc_neg : ∀ x, qc (C.neg x) = C.neg (qc x)
  -- the sexagesimal text (gon2deg(m, 0, 4) / deg2gon) is a second printer, with its own quantisation `qd`; its laws
  -- are required on the domain `D` only
  rdDeg_fmtDeg : ∀ x, D x → C.rdDeg (C.fmtDeg x) = some (qd x)
  fmtDeg_qd : ∀ x, D x → C.fmtDeg (qd x) = C.fmtDeg x
  -- 0.324 and 1.0/0.324
  fromSec_toSec : ∀ x, C.fromSec (C.toSec x) = x
  toSec_fromSec : ∀ x, C.toSec (C.fromSec x) = x

/-- the law without a domain and with one decimal printer (`fmtCov` quantises as `fmt`): every field for every `x`
    (C12's records; the toy printers) -/
abbrev Codec.Printer (C : Codec K) (q qd : K → K) : Prop := C.PrinterOn (fun _ => True) q q qd

theorem Codec.PrinterOn.mono {C : Codec K} {D D' : K → Prop} {q qc qd : K → K} (P : C.PrinterOn D q qc qd)
    (h : ∀ x, D' x → D x) : C.PrinterOn D' q qc qd :=
  { P with rdDeg_fmtDeg := fun x hx => P.rdDeg_fmtDeg x (h x hx), fmtDeg_qd := fun x hx => P.fmtDeg_qd x (h x hx) }

/-- a printer without a domain is a printer on every domain -/
theorem Codec.Printer.on {C : Codec K} {q qd : K → K} (P : C.Printer q qd) (D : K → Prop) : C.PrinterOn D q q qd :=
  Codec.PrinterOn.mono (D := fun _ => True) P (fun _ _ => trivial)

theorem Codec.PrinterOn.q_idem {C : Codec K} {D : K → Prop} {q qc qd : K → K} (P : C.PrinterOn D q qc qd) (x : K) : q (q x) = q x := by
  have h1 := P.rd_fmt (q x)
  rw [P.fmt_q, P.rd_fmt] at h1
  exact (Option.some.inj h1).symm

theorem Codec.PrinterOn.qc_idem {C : Codec K} {D : K → Prop} {q qc qd : K → K} (P : C.PrinterOn D q qc qd) (x : K) :
    qc (qc x) = qc x := by
  have h1 := P.rd_fmtCov (qc x)
  rw [P.fmtCov_qc, P.rd_fmtCov] at h1
  exact (Option.some.inj h1).symm

/-- the covariance elements the `<cov-mat>` text gives back exactly are those the printer does not round -/
theorem Codec.PrinterOn.covRep_iff {C : Codec K} {D : K → Prop} {q qc qd : K → K} (P : C.PrinterOn D q qc qd) (x : K) :
    C.CovRep x ↔ qc x = x := by
  unfold Codec.CovRep
  rw [P.rd_fmtCov]
  exact ⟨fun h => Option.some.inj h, fun h => by rw [h]⟩

/-- the sexagesimal quantisation is idempotent where both `x` and `qd x` are in the domain -/
theorem Codec.PrinterOn.qd_idem {C : Codec K} {D : K → Prop} {q qc qd : K → K} (P : C.PrinterOn D q qc qd) (x : K)
    (hx : D x) (hq : D (qd x)) : qd (qd x) = qd x := by
  have h1 := P.rdDeg_fmtDeg (qd x) hq
  rw [P.fmtDeg_qd x hx, P.rdDeg_fmtDeg x hx] at h1
  exact (Option.some.inj h1).symm

/-- the representable angles of the domain satisfy the exact law -/
theorem Codec.PrinterOn.degLawfulOn {C : Codec K} {D : K → Prop} {q qc qd : K → K} (P : C.PrinterOn D q qc qd) :
    C.DegLawfulOn (fun x => D x ∧ qd x = x) :=
  { rdDeg_fmtDeg := fun x hx => by rw [P.rdDeg_fmtDeg x hx.1, hx.2]
    fromSec_toSec := P.fromSec_toSec }

/-- the representable numbers of a printer satisfy the exact law -/
theorem Codec.PrinterOn.lawfulOn {C : Codec K} {D : K → Prop} {q qc qd : K → K} (P : C.PrinterOn D q qc qd) :
    C.LawfulOn (fun x => q x = x) :=
  { num := ⟨fun x hx => by rw [P.rd_fmt, hx], P.isZero_iff⟩
    neg_neg := P.neg_neg
    R_neg := fun x hx => by simp only [P.q_neg, hx]
    rdI_fmtI := P.rdI_fmtI
    latIn_latOut := P.latIn_latOut
    rdDeg_fmt := P.rdDeg_fmt
    fmt_ne := P.fmt_ne
    covRep_neg := fun x hx => by
      rw [P.covRep_iff] at hx ⊢
      rw [P.qc_neg, hx] }

/-- `Net.WFc` depends on `Rc` only through its extension -/
theorem Net.WFc.congr_cov {C : Codec K} {R Rc Rc' Rd : K → Prop} (h : ∀ x, Rc x ↔ Rc' x) (n : Net K) :
    n.WFc C R Rc Rd ↔ n.WFc C R Rc' Rd := by
  have e : Rc = Rc' := funext (fun x => propext (h x))
  rw [e]

/-- for a printer, "the `<cov-mat>` text gives the element back" is "the covariance printer does not round it": the side
    condition `Net.WF` in arithmetic -/
theorem Codec.PrinterOn.wf_iff {C : Codec K} {D : K → Prop} {q qc qd : K → K} (P : C.PrinterOn D q qc qd) (R Rd : K → Prop)
    (n : Net K) : n.WF C R Rd ↔ n.WFc C R (fun x => qc x = x) Rd :=
  Net.WFc.congr_cov (fun x => P.covRep_iff x) n

/-! ## the domain of the angular values -/

/-- the values the export prints as sexagesimal text (angular observations of a file in degrees) lie in `D` -/
def Cluster.AngIn (D : K → Prop) (gons : Bool) : Cluster K → Prop
  | .obs sp _ => ∀ o ∈ sp.obs, (gons || !o.kind.angular) = false → D o.val
  | _ => True

def Net.AngIn (D : K → Prop) (n : Net K) : Prop := ∀ c ∈ n.clusters, c.AngIn D n.par.gons

instance {D : K → Prop} [DecidablePred D] (gons : Bool) (c : Cluster K) : Decidable (c.AngIn D gons) := by
  cases c <;> unfold Cluster.AngIn <;> infer_instance

instance {D : K → Prop} [DecidablePred D] (n : Net K) : Decidable (n.AngIn D) := by
  unfold Net.AngIn; infer_instance

/-- a document in gons prints no sexagesimal text -/
theorem Net.angIn_gons (D : K → Prop) (n : Net K) (h : n.par.gons = true) : n.AngIn D := by
  intro c _
  cases c with
  | obs sp cov => intro o _ ho; simp [h] at ho
  | _ => trivial

/-- `Net.WF` requires the angular values of a file in degrees to be in `Rd`: with `Rd ⊆ D` they are in the domain -/
theorem Net.WF.angIn {C : Codec K} {R Rd D : K → Prop} {n : Net K} (w : n.WF C R Rd) (h : ∀ x, Rd x → D x) : n.AngIn D := by
  intro c hc
  have wc := w.clusters c hc
  cases c with
  | obs sp cov =>
    intro o ho hg
    have hr := (wc.1 o ho).2.1
    unfold Obs.RepU at hr
    rw [hg] at hr
    exact h _ hr.1
  | _ => trivial

/-! ## the quantised network: what the parser stores after reading the export -/

def quantObs (q : K → K) (o : Obs K) : Obs K :=
  { o with val := q o.val, stdev := q o.stdev, fromDh := q o.fromDh, toDh := q o.toDh, fsDh := q o.fsDh }

/-- a height difference: value, distance and standard deviation as printed (since 9f04c51 the standard deviation is always
    written; before, one given with its distance got it recomputed from the printed distance) -/
def quantDh (C : Codec K) (q : K → K) (s0 : K) (h : HDiff K) : HDiff K :=
  { h with val := q h.val, dist := q h.dist, stdev := q h.stdev }

def quantCov (q : K → K) (c : Cov K) : Cov K := { c with data := c.data.map q }
def quantPoint (q : K → K) (p : Point K) : Point K := { p with xy := p.xy.map (fun v => (q v.1, q v.2)), z := p.z.map q }
def quantCPoint (q : K → K) (p : CPoint K) : CPoint K := { p with xy := p.xy.map (fun v => (q v.1, q v.2)), z := p.z.map q }
def quantVec (q : K → K) (v : Vec K) : Vec K := { v with dx := q v.dx, dy := q v.dy, dz := q v.dz }

def quantParams (C : Codec K) (q : K → K) (p : Params K) : Params K :=
  { p with sigmaApr := q p.sigmaApr, confPr := q p.confPr, tolAbs := q p.tolAbs,
           latitude := p.latitude.map (fun l => C.latIn (q (C.latOut l))) }

/-- an angular observation of a file in degrees: the value through the sexagesimal text, the standard deviation
    through its value in seconds -/
def quantObsU (C : Codec K) (q qd : K → K) (gons : Bool) (o : Obs K) : Obs K :=
  if gons || !o.kind.angular then quantObs q o
  else { o with val := qd o.val, stdev := C.fromSec (q (C.toSec o.stdev)), fromDh := q o.fromDh, toDh := q o.toDh, fsDh := q o.fsDh }

/-- the covariance matrix of an `<obs>` cluster: quantised in the unit of the file -/
def quantCovU (C : Codec K) (q : K → K) (gons : Bool) (ang : Nat → Bool) (c : Cov K) : Cov K :=
  if gons then quantCov q c else scaleCov C.fromSec ang (quantCov q (scaleCov C.toSec ang c))

/-- every number of a cluster as read back: the covariance elements through their own printer (`qc`) -/
def quantCluster (C : Codec K) (q qc qd : K → K) (gons : Bool) (s0 : K) : Cluster K → Cluster K
  | .obs sp cov => .obs ⟨sp.station, sp.obs.map (quantObsU C q qd gons)⟩
                     (cov.map (quantCovU C qc gons (flagOf (sp.obs.map (fun o => o.kind.angular)))))
  | .hdiffs dhs cov => .hdiffs (dhs.map (quantDh C q s0)) (cov.map (quantCov qc))
  | .coords ext pts cov => .coords ext (pts.map (quantCPoint q)) (quantCov qc cov)
  | .vectors vecs cov => .vectors (vecs.map (quantVec q)) (quantCov qc cov)

def quantNet (C : Codec K) (q qc qd : K → K) (n : Net K) : Net K :=
  { n with head := { n.head with epoch := n.head.epoch.map q }
           par := quantParams C q n.par
           points := n.points.map (quantPoint q)
           clusters := n.clusters.map (quantCluster C q qc qd n.par.gons n.par.sigmaApr) }

variable {C : Codec K} {D : K → Prop} {q qc qd : K → K}

theorem fmt_sgn_q (P : C.PrinterOn D q qc qd) (b : Bool) (x : K) : C.fmt (sgn C b (q x)) = C.fmt (sgn C b x) := by
  cases b
  · simp [sgn, P.fmt_q]
  · simp only [sgn, if_true]
    rw [← P.q_neg, P.fmt_q]

theorem flipWith_map (P : C.PrinterOn D q qc qd) (bs : List Bool) (xs : List K) :
    flipWith C.neg bs (xs.map qc) = (flipWith C.neg bs xs).map qc := by
  induction bs generalizing xs with
  | nil => cases xs <;> rfl
  | cons b bs ih =>
    cases xs with
    | nil => rfl
    | cons x xs => cases b <;> simp [flipWith, ih, P.qc_neg]

theorem exportCov_quant (P : C.PrinterOn D q qc qd) (c : Cov K) : exportCov C.covFmt (quantCov qc c) = exportCov C.covFmt c := by
  simp [exportCov, quantCov, List.map_map, Function.comp_def, Codec.covFmt, P.fmtCov_qc]

theorem exportCovCall_quant (P : C.PrinterOn D q qc qd) (call : Bool × Bool) (ys degrees : Bool) (mir : Nat → Bool) (c : Cov K) :
    exportCovCall C call ys degrees mir (fun _ => false) (quantCov qc c) = exportCovCall C call ys degrees mir (fun _ => false) c := by
  have hm : mirrorCov C.neg mir (quantCov qc c) = quantCov qc (mirrorCov C.neg mir c) := by
    simp [mirrorCov, quantCov, flipWith_map P]
  unfold exportCovCall
  simp only [scaleCov_false C.toSec (fun _ => false) (fun _ => rfl), ite_self]
  by_cases h1 : (covSkipsDiagonal && !call.1 && c.band == 0) = true
  · have : (covSkipsDiagonal && !call.1 && (quantCov qc c).band == 0) = true := h1
    simp [h1, this]
  · have : ¬ (covSkipsDiagonal && !call.1 && (quantCov qc c).band == 0) = true := h1
    simp only [h1, this, if_false, Bool.and_false, Bool.false_and, Bool.false_eq_true]
    by_cases h2 : (call.2 && ys && covMirrors) = true
    · simp only [h2, if_true, hm, exportCov_quant P]
    · simp [h2, exportCov_quant P]

theorem quantCovU_band (gons : Bool) (ang : Nat → Bool) (c : Cov K) : (quantCovU C qc gons ang c).band = c.band := by
  cases gons <;> rfl

theorem covOut_quantCovU (P : C.PrinterOn D q qc qd) (gons : Bool) (ang : Nat → Bool) (c : Cov K) :
    covOut C gons ang (quantCovU C qc gons ang c) = quantCov qc (covOut C gons ang c) := by
  cases gons
  · simp only [covOut, quantCovU, Bool.false_eq_true, if_false]
    exact scaleCov_inv _ _ P.toSec_fromSec _ _
  · rfl

/-- the `<cov-mat>` of an `<obs>` cluster, gons or degrees -/
theorem exportCovCall_obs_quant (P : C.PrinterOn D q qc qd) (ys gons : Bool) (ang : Nat → Bool) (c : Cov K) :
    exportCovCall C covCall_StandPoint ys (!gons) (fun _ => false) ang (quantCovU C qc gons ang c) =
      exportCovCall C covCall_StandPoint ys (!gons) (fun _ => false) ang c := by
  by_cases hb : c.band = 0
  · have h1 : (c.band == 0) = true := by simpa using hb
    have h2 : ((quantCovU C qc gons ang c).band == 0) = true := by rw [quantCovU_band]; exact h1
    simp [exportCovCall, covCall_StandPoint, covSkipsDiagonal, h1, h2]
  · have hb' : (quantCovU C qc gons ang c).band ≠ 0 := by rw [quantCovU_band]; exact hb
    rw [exportCovCall_obs C ys gons ang _ hb', exportCovCall_obs C ys gons ang c hb, covOut_quantCovU P, exportCov_quant P]

theorem exportObsU_quant (P : C.PrinterOn D q qc qd) (gons : Bool) (cf : String) (o : Obs K)
    (hD : (gons || !o.kind.angular) = false → D o.val) :
    exportObsU C gons cf (quantObsU C q qd gons o) = exportObsU C gons cf o := by
  by_cases hg : (gons || !o.kind.angular) = true
  · have h1 : quantObsU C q qd gons o = quantObs q o := by simp [quantObsU, hg]
    have h2 : (gons || !(quantObs q o).kind.angular) = true := hg
    rw [h1]
    simp only [exportObsU, hg, h2, if_true, exportObs, exportObsV, quantObs, dhAttr, P.fmt_q, P.isZero_q]
    rfl
  · have hg' : (gons || !o.kind.angular) = false := by simpa using hg
    have h1 : quantObsU C q qd gons o =
        { o with val := qd o.val, stdev := C.fromSec (q (C.toSec o.stdev)), fromDh := q o.fromDh, toDh := q o.toDh, fsDh := q o.fsDh } := by
      simp [quantObsU, hg']
    rw [h1]
    simp only [exportObsU, hg', Bool.false_eq_true, if_false, exportObsV, dhAttr, P.fmt_q, P.isZero_q, P.fmtDeg_qd _ (hD hg'),
      P.toSec_fromSec, visStdevScaled, if_true]

theorem exportDh_quant (P : C.PrinterOn D q qc qd) (s0 : K) (h : HDiff K) :
    exportDh C.toNumFmt true C.pos dhStdevAlways (quantDh C q s0 h) = exportDh C.toNumFmt true C.pos dhStdevAlways h := by
  cases hp : C.pos h.dist <;> simp [exportDh, quantDh, P.fmt_q, P.pos_q, hp]

theorem exportPoint_quant (P : C.PrinterOn D q qc qd) (ys : Bool) (p : Point K) :
    exportPoint C ys (quantPoint q p) = exportPoint C ys p := by
  obtain ⟨id, xy, z, s1, s2⟩ := p
  cases xy <;> cases z <;> simp [exportPoint, quantPoint, fixStr, adjStr, P.fmt_q, fmt_sgn_q P]

theorem exportCPoint_quant (P : C.PrinterOn D q qc qd) (ys : Bool) (p : CPoint K) :
    exportCPoint C ys (quantCPoint q p) = exportCPoint C ys p := by
  obtain ⟨id, xy, z⟩ := p
  cases xy <;> cases z <;> simp [exportCPoint, quantCPoint, fmt_sgn_q P]

theorem exportVec_quant (P : C.PrinterOn D q qc qd) (ys : Bool) (v : Vec K) : exportVec C ys (quantVec q v) = exportVec C ys v := by
  simp only [exportVec, quantVec, fmt_sgn_q P]
  rfl

theorem coordFlags_quant (pts : List (CPoint K)) : coordFlags (pts.map (quantCPoint q)) = coordFlags pts := by
  induction pts with
  | nil => rfl
  | cons c pts ih =>
    obtain ⟨cid, cxy, cz⟩ := c
    simp only [coordFlags, List.map_cons, List.flatMap_cons] at ih ⊢
    rw [ih]
    cases cxy <;> cases cz <;> simp [quantCPoint]

theorem map_map_eq {α β : Type} (f : α → β) (g : α → α) (h : ∀ a, f (g a) = f a) (l : List α) : (l.map g).map f = l.map f := by
  rw [List.map_map]
  apply List.map_congr_left
  intro a _
  exact h a

theorem map_map_eq_mem {α β : Type} (f : α → β) (g : α → α) (l : List α) (h : ∀ a ∈ l, f (g a) = f a) : (l.map g).map f = l.map f := by
  rw [List.map_map]
  apply List.map_congr_left
  intro a ha
  exact h a ha

theorem map_angular_quant (gons : Bool) (obs : List (Obs K)) :
    (obs.map (quantObsU C q qd gons)).map (fun o => o.kind.angular) = obs.map (fun o => o.kind.angular) := by
  rw [List.map_map]
  apply List.map_congr_left
  intro o _
  simp only [Function.comp, quantObsU]
  split <;> rfl

theorem exportCluster_quant (P : C.PrinterOn D q qc qd) (ys gons : Bool) (s0 : K) (c : Cluster K) (hD : c.AngIn D gons) :
    exportCluster' C ys gons (quantCluster C q qc qd gons s0 c) = exportCluster' C ys gons c := by
  cases c with
  | obs sp cov =>
    have hobs : (sp.obs.map (quantObsU C q qd gons)).map (exportObsU C gons sp.station) = sp.obs.map (exportObsU C gons sp.station) :=
      map_map_eq_mem _ _ _ (fun o ho => exportObsU_quant P gons sp.station o (hD o ho))
    have hfl : (sp.obs.map (quantObsU C q qd gons)).map (fun o => o.kind.angular) = sp.obs.map (fun o => o.kind.angular) :=
      map_angular_quant gons sp.obs
    cases cov with
    | none =>
      simp only [exportCluster', quantCluster, hobs, Option.map_none, Option.bind_none]
    | some cv =>
      simp only [exportCluster', quantCluster, hobs, Option.map_some, Option.bind_some, hfl, exportCovCall_obs_quant P]
  | hdiffs dhs cov =>
    cases cov <;>
    simp [exportCluster', quantCluster, map_map_eq _ _ (exportDh_quant P s0), exportCovCall_quant P]
  | coords ext pts cov =>
    simp [exportCluster', quantCluster, map_map_eq _ _ (exportCPoint_quant P ys), exportCovCall_quant P, coordFlags_quant]
  | vectors vecs cov =>
    simp [exportCluster', quantCluster, map_map_eq _ _ (exportVec_quant P ys), exportCovCall_quant P, vecFlags_map]

theorem exportParams_quant (P : C.PrinterOn D q qc qd) (p : Params K) : exportParams C (quantParams C q p) = exportParams C p := by
  obtain ⟨sa, cp, ta, ap, g, alg, lat, ell, cb⟩ := p
  cases lat <;> simp only [exportParams, quantParams, Option.map, P.fmt_q, P.latOut_latIn, latitudeInGons, if_true] <;> rfl

theorem filter_active_quant (ps : List (Point K)) :
    (ps.map (quantPoint q)).filter Point.active = (ps.filter Point.active).map (quantPoint q) := by
  induction ps with
  | nil => rfl
  | cons p ps ih =>
    have : (quantPoint q p).active = p.active := rfl
    simp only [List.map_cons, List.filter_cons, this, ih]
    cases p.active <;> simp

/-- the document does not see the difference between a number and its printed-and-read value (gons and degrees) -/
theorem exportNet_quant (P : C.PrinterOn D q qc qd) (n : Net K) (hD : n.AngIn D) :
    exportNet C (quantNet C q qc qd n) = exportNet C n := by
  have hh : exportHead C { n.head with epoch := n.head.epoch.map q } = exportHead C n.head := by
    obtain ⟨ax, la, ep⟩ := n.head
    cases ep <;> simp [exportHead, P.fmt_q]
  have hys : ({ n.head with epoch := n.head.epoch.map q } : Head K).ys = n.head.ys := rfl
  have hg : (quantParams C q n.par).gons = n.par.gons := rfl
  have hp : ((n.points.filter Point.active).map (quantPoint q)).map (fun p => DItem.point (exportPoint C n.head.ys p)) =
      (n.points.filter Point.active).map (fun p => DItem.point (exportPoint C n.head.ys p)) :=
    map_map_eq (fun p => DItem.point (exportPoint C n.head.ys p)) (quantPoint q)
      (fun p => congrArg DItem.point (exportPoint_quant P n.head.ys p)) _
  have hc : (n.clusters.map (quantCluster C q qc qd n.par.gons n.par.sigmaApr)).map (exportCluster' C n.head.ys n.par.gons) =
      n.clusters.map (exportCluster' C n.head.ys n.par.gons) :=
    map_map_eq_mem _ _ _ (fun c hc => exportCluster_quant P n.head.ys n.par.gons n.par.sigmaApr c (hD c hc))
  simp only [exportNet, quantNet, hh, hys, hg, exportParams_quant P, filter_active_quant, hp, hc]

/-- reading the export gives the quantised network (without its unused points; covariance elements rounded by THEIR
    printer, `qc`); `hD`: the angular values a file in degrees prints as sexagesimal text are in the domain of that printer -/
theorem parse_export_net_printer (P : C.PrinterOn D q qc qd) (impl : Kind → K) (par0 : Params K) (n : Net K) (hD : n.AngIn D)
    (hw : (quantNet C q qc qd n).WFc C (fun x => q x = x) (fun x => qc x = x) (fun x => D x ∧ qd x = x)) :
    parseNet C impl par0 (exportNet C n) = .ok (canon (quantNet C q qc qd n)) := by
  rw [← exportNet_quant P n hD]
  exact parse_export_net C P.lawfulOn P.degLawfulOn impl par0 _ ((P.wf_iff _ _ _).mpr hw)

end Gama.Export
