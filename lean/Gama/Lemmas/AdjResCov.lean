/-
  The covariance storage of the adjustment-results reader: every `*tmp_i++ = get_float()` executed by the model
  (Model/AdjResRun.lean) writes inside the storage `adj->cov` has at that moment.
  Needs one fact about the GENERATED handler bodies (`decide`): every store is guarded by `tmp_i != tmp_e`.
-/
import Gama.Lemmas.AdjRes
namespace Gama.AdjRes

/-- `tmp_i` is inside [begin, end], `tmp_e` is the end of the CURRENT storage, every logged write was inside the
    storage of its moment -/
def CovWf (st : St) : Prop :=
  (∀ i, st.iterI = some i → i ≤ st.covSize) ∧ (∀ e, st.iterE = some e → e = st.covSize) ∧
  ∀ w ∈ st.writes, w.1 < w.2

/-- the statement does not touch the storage, the iterators or the log -/
structure CovSame (st st' : St) : Prop where
  i_eq : st'.iterI = st.iterI
  e_eq : st'.iterE = st.iterE
  size_eq : st'.covSize = st.covSize
  w_eq : st'.writes = st.writes

theorem CovSame.refl (st : St) : CovSame st st := ⟨rfl, rfl, rfl, rfl⟩
theorem CovSame.trans {a b c : St} (h1 : CovSame a b) (h2 : CovSame b c) : CovSame a c :=
  ⟨h2.i_eq.trans h1.i_eq, h2.e_eq.trans h1.e_eq, h2.size_eq.trans h1.size_eq, h2.w_eq.trans h1.w_eq⟩

theorem CovWf.same {st st' : St} (h : CovWf st) (hs : CovSame st st') : CovWf st' := by
  unfold CovWf; rw [hs.i_eq, hs.e_eq, hs.size_eq, hs.w_eq]; exact h

theorem CovSame.error (st : St) (k : Err) : CovSame st (st.error k) := by
  unfold St.error; split <;> exact ⟨rfl, rfl, rfl, rfl⟩

theorem CovSame.setState (st : St) (s : State) : CovSame st (st.setState s) := by
  unfold St.setState; split
  · split <;> exact ⟨rfl, rfl, rfl, rfl⟩
  · exact ⟨rfl, rfl, rfl, rfl⟩

theorem CovSame.checkData (st : St) : CovSame st st.checkData := by
  unfold St.checkData; split
  · exact ⟨rfl, rfl, rfl, rfl⟩
  · exact (CovSame.error st _).trans ⟨rfl, rfl, rfl, rfl⟩

theorem CovSame.getIntCheck (st : St) : CovSame st st.getIntCheck := by
  unfold St.getIntCheck; split
  · exact .refl _
  · exact .error _ _

theorem CovSame.getFloatCheck (st : St) : CovSame st st.getFloatCheck := by
  unfold St.getFloatCheck; split
  · exact .refl _
  · exact .error _ _

theorem CovSame.iterErr (st : St) (g : Option State) (w : Bool) (e : Err) : CovSame st (st.iterErr g w e) := by
  unfold St.iterErr; split
  · exact .error _ _
  · split
    · split
      · exact .error _ _
      · exact .refl _
    · simp only; split
      · exact (CovSame.trans (b := { st with uninitCovEnd := true }) ⟨rfl, rfl, rfl, rfl⟩ (.error _ _))
      · exact ⟨rfl, rfl, rfl, rfl⟩

theorem attrLoop_covSame (names : List (String × AttrKind)) (ue : Err) :
    ∀ (as : List (String × String)) (st : St), CovSame st (attrLoop names ue as st).1 := by
  intro as
  induction as with
  | nil => intro st; exact .refl _
  | cons a r ih =>
    intro st
    obtain ⟨a, v⟩ := a
    simp only [attrLoop]
    split
    · exact .error _ _
    · exact ih st
    · exact (CovSame.trans (b := { st with category := v }) ⟨rfl, rfl, rfl, rfl⟩ (ih _))
    · split
      · exact ih st
      · exact .error _ _

/-- statements whose store is guarded by `tmp_i != tmp_e` -/
def storeOk : Op → Bool
  | .store g => g
  | _ => true

theorem CovWf.store {st : St} (h : CovWf st) : CovWf (st.store true) := by
  unfold St.store
  split
  · next i e hi he =>
    split
    · exact h
    · next hne =>
      obtain ⟨h1, h2, h3⟩ := h
      have hie : i ≤ st.covSize := h1 i hi
      have hee : e = st.covSize := h2 e he
      have hlt : i < st.covSize := by
        have : ¬ (i == e) = true := by simpa using hne
        have : i ≠ e := by simpa using this
        omega
      have hs := CovSame.getFloatCheck st
      refine ⟨?_, ?_, ?_⟩
      · intro j hj
        simp only at hj
        have : j = i + 1 := by cases hj; rfl
        simp only [hs.size_eq]; omega
      · intro e' he'
        simp only at he'
        rw [hs.e_eq] at he'
        simp only [hs.size_eq]
        exact h2 e' he'
      · intro w hw
        simp only at hw
        rw [hs.w_eq] at hw
        rcases List.mem_cons.mp hw with rfl | hw
        · exact hlt
        · exact h3 w hw
  · exact h.same ⟨rfl, rfl, rfl, rfl⟩

theorem execOp_covWf (op : Op) (as : List (String × String)) (st : St) (hok : storeOk op = true) (h : CovWf st) :
    CovWf (execOp op as st).1 := by
  cases op with
  | push x => exact h.same ⟨rfl, rfl, rfl, rfl⟩
  | setState s => exact h.same (.setState _ _)
  | assignState s => exact h.same ⟨rfl, rfl, rfl, rfl⟩
  | attrs names ue => exact h.same (attrLoop_covSame names ue as st)
  | needCategory e =>
    simp only [execOp]; split
    · exact h.same (.error _ _)
    · exact h
  | getInt d =>
    simp only [execOp]
    cases d
    · exact h.same (.getIntCheck _)
    · exact h.same ((CovSame.getIntCheck st).trans ⟨rfl, rfl, rfl, rfl⟩)
    · exact h.same ((CovSame.getIntCheck st).trans ⟨rfl, rfl, rfl, rfl⟩)
  | getFloat => exact h.same (.getFloatCheck _)
  | getString d => cases d <;> exact h.same ⟨rfl, rfl, rfl, rfl⟩
  | checkData => exact h.same (.checkData _)
  | clearCategory => exact h.same ⟨rfl, rfl, rfl, rfl⟩
  | stageSet k => exact h.same ⟨rfl, rfl, rfl, rfl⟩
  | stageSwitch cases e =>
    simp only [execOp]; split
    · exact h.same (.getIntCheck _)
    · exact h.same (.error _ _)
  | requireState ss e =>
    simp only [execOp]; split
    · exact h.same (.error _ _)
    · exact h
  | requireFlagEq a b e =>
    simp only [execOp]; split
    · exact h.same (.error _ _)
    · exact h
  | setFlag f v => exact h.same ⟨rfl, rfl, rfl, rfl⟩
  | covGuard e =>
    simp only [execOp]; split
    · exact h.same ((CovSame.error st e).trans ⟨rfl, rfl, rfl, rfl⟩)
    · exact h
  | covReset =>
    refine ⟨fun i hi => ?_, fun e he => ?_, h.2.2⟩
    · simp [execOp] at hi
    · simp [execOp] at he
  | iterBegin =>
    refine ⟨fun i hi => ?_, h.2.1, h.2.2⟩
    simp only [execOp] at hi
    cases hi
    exact Nat.zero_le _
  | iterEnd =>
    refine ⟨h.1, fun e he => ?_, h.2.2⟩
    simp only [execOp] at he
    cases he
    rfl
  | iterErr g w e => exact h.same (.iterErr _ _ _ _)
  | store g =>
    have : g = true := by simpa [storeOk] using hok
    subst this
    exact h.store
  | requireString al e =>
    simp only [execOp]; split
    · exact h
    · exact h.same (.error _ _)
  | error e => exact h.same (.error _ _)
  | data => exact h
  | book b =>
    have hb := book_same st b
    exact h.same ⟨hb.2.2.2.2.1, hb.2.2.2.2.2.1, hb.2.2.2.2.2.2.1, hb.2.2.2.2.2.2.2.1⟩

theorem execOps_covWf (ops : List Op) (as : List (String × String)) (hok : ops.all storeOk = true) :
    ∀ st : St, CovWf st → CovWf (execOps ops as st) := by
  induction ops with
  | nil => intro st h; exact h
  | cons op r ih =>
    intro st h
    simp only [List.all_cons, Bool.and_eq_true] at hok
    have h' := execOp_covWf op as st hok.1 h
    simp only [execOps]
    split
    · next st' heq => rw [heq] at h'; exact ih hok.2 st' h'
    · next st' heq => rw [heq] at h'; exact h'

/-- every `*tmp_i++ = get_float()` of the parser stands under `if (tmp_i != tmp_e)` -/
theorem stores_guarded : ∀ h : Handler, (startOps h).all storeOk = true ∧ (endOps h).all storeOk = true :=
  forall_handler (by decide)

theorem tagOf_covSame (st : St) (name : String) : CovSame st (tagOf st name).1 := by
  unfold tagOf; split
  · exact ⟨rfl, rfl, rfl, rfl⟩
  · exact .refl _
  · exact .error _ _

theorem react_covWf (st : St) (ev : Event) (h : CovWf st) : CovWf (react st ev) := by
  cases ev with
  | start name as =>
    simp only [react]
    exact execOps_covWf _ _ (stores_guarded _).1 _ ((h.same (.checkData _)).same (tagOf_covSame _ name))
  | stop =>
    simp only [react]
    split
    · exact (execOps_covWf _ _ (stores_guarded _).2 _ (h.same (st' := { st with stack := [] }) ⟨rfl, rfl, rfl, rfl⟩)).same ⟨rfl, rfl, rfl, rfl⟩
    · next x r _ =>
      exact (execOps_covWf _ _ (stores_guarded _).2 _ (h.same (st' := { st with stack := r }) ⟨rfl, rfl, rfl, rfl⟩)).same ⟨rfl, rfl, rfl, rfl⟩
  | text s => exact h.same ⟨rfl, rfl, rfl, rfl⟩

theorem run_covWf (evs : List Event) : ∀ st : St, CovWf st → CovWf (run st evs) := by
  induction evs with
  | nil => intro st h; exact h
  | cons ev es ih =>
    intro st h; rw [run_cons]
    exact ih _ ((react_covWf st ev h).same (st' := step st ev) ⟨rfl, rfl, rfl, rfl⟩)

theorem init_covWf : CovWf St.init := by
  refine ⟨fun i hi => ?_, fun e he => ?_, fun w hw => ?_⟩ <;> simp [St.init] at *

end Gama.AdjRes
