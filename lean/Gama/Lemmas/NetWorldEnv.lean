/-
  The observations of an `AdjEnvelope` object (`obsEnv`) meet `SolverObs.Sound` — in the numbering of
  the PROBLEM — from the envelope solver's own theorems, which are stated in PROCESSING order (the
  reverse Cuthill–McKee numbering) on `envCore`'s permuted matrix `ApM`:
    `Df … k = 0 ⇔ column k ∈ span of the columns processed before it`   (`pivot_zero_iff_mem_span`),
    `defect = #zero pivots`, `rank Ã + defect = n`                       (`defectOf_eq_card_zero`, `rank_add_defect`),
    the kernel columns `kerFam` (−1 on their own zero pivot, 0 on the others) span `ker Ap`  (`kerFam_span`),
    `unknowns()` throws ⇔ ¬ Resolves                                     (`envSolve_refusal`).
  The transport is through `OrdOK.equiv` (new number ↦ unknown of the problem) and `ker_orig_iff`
  (kernel of `A` ↔ kernel of the normal matrix in the new numbering; `Ã = W A`, `W` injective).

  `obsEnv p`: `AdjEnvelope` does not throw from the whole object: `envSolve p = .ok a` with
  `a.xErr = some e` when `unknowns()` / `q_xx` throw; `defect()` and `lindep(i)` of the SAME record are
  what the object answers after the throw (the factorisation precedes `solve_x`) — so the observation
  is `obsOfAnswer a a.xErr`, no second run is needed (contrast `obsChol`).  `envSolve p = .error e`
  happens only when `Homogenization::run` rejects a covariance block (`NonPositiveDefinite`,
  `C01_envsolve_throws`): every query of the object throws `e`, nothing was factorised — the
  observation is "refused with `e`, nothing flagged"; `Sound` is stated under `envSolve p` not erring.

  Also here:
    * `env_greedy_orig` / `obsEnv_greedy`: the envelope's flags follow the `Greedy` rule of
      `NetWorldSound.lean` in the order `envPos p` (= `ordering.invp` of the RCM ordering), on the PROBLEM's `A`;
    * `greedy_of_threshold`, `obsChol_greedy`: the Cholesky model flags `invp(i) ≥ N0` and follows `Greedy` in
      the order of its diagonal pivoting `cholPos p`;
    * `obsSvdCert` (observations of the svd model with given factors), `obsSvdCert_counted`: `Counted` and
      `defect + rank A = n` under the certificate — NOT `Sound` (finding F7-svd), see `Props/C20/WorldEnv.lean`;
    * witnesses over ℝ: `pR_envHyp`, `pR_cholHyp` (`Ex.pR`, A = [1 1; 0 0], list {1}, defect 1), the network codes
      `pRPE`, `pRPE1` (constant), `envPE` (`PEWF`; `Ex.pR` on the full configuration, the empty problem otherwise).
-/
import Gama.Lemmas.NetWorldChol
import Gama.Lemmas.NetWorldExamples
import Gama.Lemmas.Ls.ComposeEnvSolve
import Gama.Lemmas.Ls.EnvLindep
import Gama.Lemmas.Ls.EnvRank
import Gama.Lemmas.Ls.SvdProps
import Gama.Lemmas.Ls.ComposeJointEnvSolveExample
import Gama.Lemmas.Ls.ComposeAdj
import Mathlib.LinearAlgebra.Finsupp.LinearCombination
namespace Gama.NetDecision
open Gama Gama.Ls Gama.LS Gama.Ls.Env Matrix Finset

set_option linter.unusedSectionVars false
set_option linter.unusedVariables false

-- ------------------------------------------------------------------ envCore: from processing order to the problem's numbering

section Core
variable {K : Type} [Field K] [LinearOrder K] [IsStrictOrderedRing K] (sq : K → K)
local notation "𝔽" => fieldScalar sq
variable (tol stol : K) (m n : ℕ) (A : DMat K) (b : Array K) (At : DMat K) (bt : Array K)
  (reg : Reg) (o : EnvOrd)

/-- the pivot the repaired `lindep(i)` reads for unknown `i` (0-based) of the problem -/
def envPivot (i : ℕ) : K := Df sq (NF sq tol m n At bt o) tol (o.invp.getD i 0)

/-- `lindep(i+1)` of the answer record is "the pivot at position `invp(i)` is zero" -/
theorem envCore_lindep_iff (hO : OrdOK n o) (i : Fin n) :
    (@envCore K 𝔽 tol stol m n A b At bt reg o).lindepFixed (i.val + 1) = .ok true
      ↔ envPivot sq tol m n At bt o i.val = 0 := by
  have hk : o.invp.getD i.val 0 < n := hO.invp_lt i i.2
  have hi : (Decidable.decide (1 ≤ i.1 + 1) && Decidable.decide (i.1 + 1 ≤ n)) = true := by
    simp
  have e : (@envCore K 𝔽 tol stol m n A b At bt reg o).lindepFixed (i.val + 1)
      = .ok (Decidable.decide (Df sq (NF sq tol m n At bt o) tol (o.invp.getD i.val 0) = 0)) := by
    show (if (Decidable.decide (1 ≤ i.1 + 1) && Decidable.decide (i.1 + 1 ≤ n)) = true then
        Except.ok (@Scalar.beq K 𝔽 (@Dget K 𝔽 (@factor K 𝔽 tol m n At bt o).rows
          (o.invp.getD (i.1 + 1 - 1) 0)) 0)
      else Except.error ErrKind.NotModelled) = _
    rw [if_pos hi, Nat.add_sub_cancel]
    congr 1
    show @Scalar.beq K 𝔽 (@Dget K 𝔽 (@ldl K 𝔽 (NF sq tol m n At bt o) tol n) (o.invp.getD i.val 0)) 0 = _
    rw [Dget_ldl sq _ tol hk, fs_beq]
  rw [e]
  unfold envPivot
  constructor
  · intro h; exact of_decide_eq_true (Except.ok.inj h)
  · intro h; rw [decide_eq_true h]

/-- the position of a flagged unknown is a zero pivot -/
theorem envPivot_mem_Zset (hO : OrdOK n o) (i : Fin n) (h0 : envPivot sq tol m n At bt o i.val = 0) :
    (hO.equiv.symm i).val ∈ Zset sq tol m n At bt o :=
  (mem_Zset sq tol m n At bt o _).2 ⟨(hO.equiv.symm i).2, h0⟩

/-- **#flags = defect**, counted over the unknowns of the problem -/
theorem env_count_orig (hO : OrdOK n o) (hU : FactUnambiguous sq tol m n At bt o) (htol : 0 < tol) :
    (univ.filter fun j : Fin n => envPivot sq tol m n At bt o j.val = 0).card
      = @defectOf K (@factor K 𝔽 tol m n At bt o).rows := by
  have h2 : @defectOf K (@factor K 𝔽 tol m n At bt o).rows = (Zset sq tol m n At bt o).card :=
    defectOf_eq_card_zero sq _ tol hU htol
  rw [h2]
  refine card_bij (fun (j : Fin n) _ => (hO.equiv.symm j).val) ?_ ?_ ?_
  · intro j hj
    exact envPivot_mem_Zset sq tol m n At bt o hO j (mem_filter.1 hj).2
  · intro j _ k _ hjk
    exact hO.equiv.symm.injective (Fin.ext hjk)
  · intro z hz
    obtain ⟨z1, z2⟩ := (mem_Zset sq tol m n At bt o z).1 hz
    refine ⟨hO.equiv ⟨z, z1⟩, mem_filter.2 ⟨mem_univ _, ?_⟩, by simp⟩
    show Df sq (NF sq tol m n At bt o) tol (o.invp.getD (hO.equiv ⟨z, z1⟩).val 0) = 0
    have : o.invp.getD (hO.equiv ⟨z, z1⟩).val 0 = z := hO.left z z1
    rw [this]; exact z2

/-- **a flagged unknown is truly dependent**: the kernel column of its zero pivot, carried back to the
    numbering of the problem, is a kernel vector of `A` with `−1` at that unknown -/
theorem env_dependent_orig (hO : OrdOK n o) (hU : FactUnambiguous sq tol m n At bt o)
    {W : Matrix (Fin m) (Fin m) K} (hWinj : ∀ d, W *ᵥ d = 0 → d = 0)
    (hAt : toMatrix m n At = W * toMatrix m n A) (i : Fin n)
    (h0 : envPivot sq tol m n At bt o i.val = 0) :
    ∃ g : Fin n → K, toMatrix m n A *ᵥ g = 0 ∧ g i = -1 := by
  have hk := envPivot_mem_Zset sq tol m n At bt o hO i h0
  let c : {k // k ∈ Zset sq tol m n At bt o} := ⟨(hO.equiv.symm i).val, hk⟩
  have hv : kerFam sq tol m n At bt o c ∈ kerV sq tol m n At bt o := by
    rw [← kerFam_span sq tol m n At bt o hU]
    exact Submodule.subset_span ⟨c, rfl⟩
  refine ⟨kerFam sq tol m n At bt o c ∘ hO.equiv.symm, ?_, ?_⟩
  · apply (ker_orig_iff sq tol m n A At bt o hO hWinj hAt _).2
    have : (kerFam sq tol m n At bt o c ∘ hO.equiv.symm) ∘ hO.equiv = kerFam sq tol m n At bt o c := by
      ext j; simp
    rw [this]; exact hv
  · have := kerFam_apply sq tol m n At bt o hU c c
    rw [if_pos rfl] at this
    rw [Function.comp_apply, ← this]

/-- **removing the flagged unknowns leaves full column rank**: a kernel vector of `A` that vanishes
    on every flagged unknown is 0 -/
theorem env_fullRank_orig (hO : OrdOK n o) (hU : FactUnambiguous sq tol m n At bt o)
    {W : Matrix (Fin m) (Fin m) K} (hWinj : ∀ d, W *ᵥ d = 0 → d = 0)
    (hAt : toMatrix m n At = W * toMatrix m n A) (g : Fin n → K) (hg : toMatrix m n A *ᵥ g = 0)
    (hz : ∀ i : Fin n, envPivot sq tol m n At bt o i.val = 0 → g i = 0) : g = 0 := by
  have hw := (ker_orig_iff sq tol m n A At bt o hO hWinj hAt g).1 hg
  rw [← kerFam_span sq tol m n At bt o hU] at hw
  obtain ⟨c, hc⟩ := (Submodule.mem_span_range_iff_exists_fun K).1 hw
  have hc0 : ∀ k, c k = 0 := by
    intro k
    have hkn := ((mem_Zset sq tol m n At bt o k.1).1 k.2).1
    have hk0 := ((mem_Zset sq tol m n At bt o k.1).1 k.2).2
    have h1 := congrFun hc ⟨k.1, hkn⟩
    simp only [Finset.sum_apply, Pi.smul_apply, smul_eq_mul, Function.comp_apply] at h1
    rw [Finset.sum_eq_single k] at h1
    · rw [kerFam_apply sq tol m n At bt o hU k k, if_pos rfl] at h1
      have hg0 : g (hO.equiv ⟨k.1, hkn⟩) = 0 := by
        apply hz
        show Df sq (NF sq tol m n At bt o) tol (o.invp.getD (hO.equiv ⟨k.1, hkn⟩).val 0) = 0
        have : o.invp.getD (hO.equiv ⟨k.1, hkn⟩).val 0 = k.1 := hO.left k.1 hkn
        rw [this]; exact hk0
      rw [hg0] at h1
      linarith [h1]
    · intro j _ hjk
      rw [kerFam_apply sq tol m n At bt o hU j k, if_neg (Ne.symm hjk), mul_zero]
    · intro h; exact absurd (Finset.mem_univ k) h
  have hw0 : g ∘ hO.equiv = 0 := by
    rw [← hc]
    exact Finset.sum_eq_zero fun k _ => by rw [hc0 k, zero_smul]
  ext j
  have := congrFun hw0 (hO.equiv.symm j)
  simpa using this

/-- `Ap u` for a coefficient vector supported on the first `k` positions -/
theorem ApM_mulVec_low {k : ℕ} (hk : k ≤ n) (u : ℕ → K) :
    ApM sq tol m n At bt o *ᵥ (fun j : Fin n => if j.val < k then u j.val else 0)
      = ∑ j ∈ range k, u j • colV m (@factor K 𝔽 tol m n At bt o).Ap j := by
  ext r
  simp only [mulVec, dotProduct, Finset.sum_apply, Pi.smul_apply, smul_eq_mul, colV]
  have h1 := Fin.sum_univ_eq_sum_range
    (fun j => (@factor K 𝔽 tol m n At bt o).Ap r j * (if j < k then u j else 0)) n
  have h2 : ∀ j : Fin n, ApM sq tol m n At bt o r j = (@factor K 𝔽 tol m n At bt o).Ap r j.val := fun _ => rfl
  simp only [h2]
  rw [h1]
  rw [← Finset.sum_subset (Finset.range_subset_range.2 hk)]
  · refine Finset.sum_congr rfl fun j hj => ?_
    rw [if_pos (Finset.mem_range.1 hj), mul_comm]
  · intro j _ hj
    rw [if_neg (by simpa using hj), mul_zero]

/-- **the envelope follows the greedy rule in its processing order, stated on the problem's `A`**:
    the pivot read for unknown `i` is zero iff column `i` of `A` is a combination of the columns whose
    position in the ordering is smaller (`Ã = W A` with `W` injective has the same column relations) -/
theorem env_greedy_orig (hO : OrdOK n o) (hU : FactUnambiguous sq tol m n At bt o)
    {W : Matrix (Fin m) (Fin m) K} (hWinj : ∀ d, W *ᵥ d = 0 → d = 0)
    (hAt : toMatrix m n At = W * toMatrix m n A) (i : Fin n) :
    envPivot sq tol m n At bt o i.val = 0 ↔
      ∃ γ : Fin n → K, (∀ j : Fin n, o.invp.getD i.val 0 ≤ o.invp.getD j.val 0 → γ j = 0) ∧
        ∀ r, toMatrix m n A r i = ∑ j, toMatrix m n A r j * γ j := by
  have hk : o.invp.getD i.val 0 < n := hO.invp_lt i i.2
  have hpiv := pivot_zero_iff_mem_span (NF_gram sq tol m n At bt o) (isLDL_model sq hU) hk
  have hs : {j | j < o.invp.getD i.val 0} = (↑(Finset.range (o.invp.getD i.val 0)) : Set ℕ) := by
    ext j; simp
  rw [hs, Submodule.mem_span_image_finset_iff_exists_fun'] at hpiv
  have hsym : hO.equiv.symm i = ⟨o.invp.getD i.val 0, hk⟩ := rfl
  -- column `k` of `Ap` as a product
  have hcol : colV m (@factor K 𝔽 tol m n At bt o).Ap (o.invp.getD i.val 0)
      = ApM sq tol m n At bt o *ᵥ Pi.single ⟨o.invp.getD i.val 0, hk⟩ 1 := by
    rw [mulVec_single_one]; rfl
  -- `A y = 0 ↔ Ap (y ∘ perm) = 0`
  have hker : ∀ y : Fin n → K, toMatrix m n A *ᵥ y = 0 ↔ ApM sq tol m n At bt o *ᵥ (y ∘ hO.equiv) = 0 := by
    intro y
    rw [← At_mulVec sq tol m n At bt o hO, hAt, ← mulVec_mulVec]
    exact ⟨fun h => by rw [h, mulVec_zero], fun h => hWinj _ h⟩
  have hsingle : (Pi.single i (1 : K) : Fin n → K) ∘ hO.equiv = Pi.single ⟨o.invp.getD i.val 0, hk⟩ 1 := by
    ext j
    simp only [Function.comp_apply, Pi.single_apply]
    have : hO.equiv j = i ↔ j = ⟨o.invp.getD i.val 0, hk⟩ := by
      rw [← hsym]; exact (hO.equiv.eq_symm_apply).symm
    simp only [this]
  have hAcol : ∀ (γ : Fin n → K), (∀ r, toMatrix m n A r i = ∑ j, toMatrix m n A r j * γ j)
      ↔ toMatrix m n A *ᵥ (γ - Pi.single i 1) = 0 := by
    intro γ
    rw [mulVec_sub, mulVec_single_one, sub_eq_zero]
    constructor
    · intro h; ext r; simp only [mulVec, dotProduct, col_apply]; exact (h r).symm
    · intro h r; have := congrFun h r; simp only [mulVec, dotProduct, col_apply] at this; exact this.symm
  unfold envPivot
  rw [hpiv]
  constructor
  · rintro ⟨c, hc⟩
    refine ⟨(fun j : Fin n => if j.val < o.invp.getD i.val 0 then c j.val else 0) ∘ hO.equiv.symm, ?_, ?_⟩
    · intro j hj
      show (if (hO.equiv.symm j).val < o.invp.getD i.val 0 then c (hO.equiv.symm j).val else 0) = 0
      rw [if_neg (by show ¬ (o.invp.getD j.val 0 < o.invp.getD i.val 0); omega)]
    · rw [hAcol, hker]
      have e : ((fun j : Fin n => if j.val < o.invp.getD i.val 0 then c j.val else 0) ∘ hO.equiv.symm
          - Pi.single i 1) ∘ hO.equiv
          = (fun j : Fin n => if j.val < o.invp.getD i.val 0 then c j.val else 0)
            - Pi.single ⟨o.invp.getD i.val 0, hk⟩ 1 := by
        rw [← hsingle]
        ext j; simp
      rw [e, mulVec_sub, ApM_mulVec_low sq tol m n At bt o (le_of_lt hk) c, hc, ← hcol, sub_self]
  · rintro ⟨γ, hγ, hcolγ⟩
    refine ⟨ext0 (γ ∘ hO.equiv), ?_⟩
    rw [← ApM_mulVec_low sq tol m n At bt o (le_of_lt hk)]
    have hu : (fun j : Fin n => if j.val < o.invp.getD i.val 0 then ext0 (γ ∘ hO.equiv) j.val else 0)
        = γ ∘ hO.equiv := by
      ext j
      rw [ext0_val]
      by_cases hj : j.val < o.invp.getD i.val 0
      · rw [if_pos hj]
      · rw [if_neg hj]
        symm
        apply hγ
        have : o.invp.getD (hO.equiv j).val 0 = j.val := hO.left j j.2
        rw [this]; omega
    rw [hu, hcol]
    have h0 := (hker _).1 ((hAcol γ).1 hcolγ)
    have e : (γ - Pi.single i 1) ∘ hO.equiv = γ ∘ hO.equiv - Pi.single ⟨o.invp.getD i.val 0, hk⟩ 1 := by
      rw [← hsingle]; rfl
    rw [e, mulVec_sub, sub_eq_zero] at h0
    exact h0

end Core

-- ------------------------------------------------------------------ obsEnv

section Obs
variable {K : Type} [Field K] [LinearOrder K] [IsStrictOrderedRing K] [SqrtFn K]
attribute [local instance 2000] scalarOfField

/-- observations of an `AdjEnvelope` object fed with `p` (see the header) -/
def obsEnv (p : Problem K) : SolverObs K :=
  match envSolve p with
  | .ok a => obsOfAnswer a a.xErr
  | .error e => { refused := some e, defect := 0, lindep := fun _ => false, qxx := fun _ => 0 }

theorem obsEnv_eq (p : Problem K) (a : Answer K) (h : envSolve p = .ok a) :
    obsEnv p = obsOfAnswer a a.xErr := by unfold obsEnv; rw [h]

/-- a rejected covariance block: the object refuses everything with `NonPositiveDefinite` and flags nothing -/
theorem obsEnv_error (p : Problem K) (e : ErrKind) (h : envSolve p = .error e) :
    (obsEnv p).refused = some .NonPositiveDefinite ∧ (obsEnv p).defect = 0 ∧ ∀ i, (obsEnv p).lindep i = false := by
  have he := (envSolve_error_kind p e h).1
  subst he
  unfold obsEnv; rw [h]
  exact ⟨rfl, rfl, fun _ => rfl⟩

/-- position of unknown `j` (0-based) of the problem in the processing order of `envSolve p`:
    `ordering.invp(j)` of the reverse Cuthill–McKee ordering of the homogenised pattern -/
def envPos (p : Problem K) (j : Nat) : Nat :=
  match Env.homogenize p with
  | .ok hh => (Env.rcmOrd p.n hh.pat).invp.getD j 0
  | .error _ => 0

/-- the hypotheses of the envelope model's own theorems on one problem (the square-root law is global) -/
structure EnvHyp (p : Problem K) : Prop where
  input : Env.InputOK p
  reg : Env.RegListOK p
  fact : Env.SolveUnambiguous p
  gs : Env.SolveGSUnambiguous p
  weight : ∃ P : Matrix (Fin p.m) (Fin p.m) K, p.C * P = 1
  /-- no covariance block is rejected by `Homogenization::run` -/
  accepted : ∃ a, envSolve p = .ok a

/-- the flags of the answer record, in the numbering of the problem -/
theorem envSolve_lindep_iff (hsq : IsSqrt (SqrtFn.sq : K → K)) (p : Problem K) (hin : Env.InputOK p)
    (P : Matrix (Fin p.m) (Fin p.m) K) (hP : p.C * P = 1) (a : Answer K) (h : envSolve p = .ok a)
    (hh : Env.Homog K) (hhom : Env.homogenize p = .ok hh) (r : Option ErrKind) (i : Fin p.n) :
    (obsOfAnswer a r).lindep (i.val + 1) = true ↔
      envPivot (SqrtFn.sq : K → K) (Env.sqrtEps : K) p.m p.n hh.At hh.bt (Env.rcmOrd p.n hh.pat) i.val = 0 := by
  obtain ⟨hh', hhom', -, -, -, -, -, -, hlin, -⟩ := envSolve_shape p a h
  rw [hhom] at hhom'
  have := Except.ok.inj hhom'
  subst this
  obtain ⟨hO, -⟩ := Env.solve_setup hsq p hin P hP hh hhom
  rw [obsOfAnswer_lindep, hlin]
  exact envCore_lindep_iff (SqrtFn.sq : K → K) (Env.sqrtEps : K) (Env.sqrtEps : K) p.m p.n p.dense p.rhs
    hh.At hh.bt p.reg _ hO i

/-- **the observations of the envelope solver are sound, in the numbering of the problem**
    (hypotheses of its own theorems; `envSolve p` not erring = no covariance block rejected) -/
theorem obsEnv_sound (hsq : IsSqrt (SqrtFn.sq : K → K)) (p : Problem K) (hin : Env.InputOK p)
    (hreg : Env.RegListOK p) (hU : Env.SolveUnambiguous p) (hGS : Env.SolveGSUnambiguous p)
    (P : Matrix (Fin p.m) (Fin p.m) K) (hP : p.C * P = 1) (a : Answer K) (h : envSolve p = .ok a) :
    (obsEnv p).Sound p.A p.S := by
  obtain ⟨hh, hhom, -, -, hdef, -, -, -, -, -⟩ := envSolve_shape p a h
  obtain ⟨hO, W, hW, hWinj, hAt, hbt, hu⟩ := Env.solve_setup hsq p hin P hP hh hhom
  obtain ⟨r1, r2⟩ := envSolve_refusal hsq p hin hreg hU hGS P hP a h
  have hl := envSolve_lindep_iff hsq p hin P hP a h hh hhom a.xErr
  have hUf := hU hh hhom
  rw [obsEnv_eq p a h]
  refine ⟨?_, ?_, ?_, ?_, ?_, ?_⟩
  · show a.xErr = some .BadRegularization ↔ _
    constructor
    · intro hx hS
      rw [r1.2 hS] at hx; cases hx
    · intro hS
      cases hx : a.xErr with
      | none => exact absurd (r1.1 hx) hS
      | some e => rw [r2 e hx]
  · intro e he
    exact r2 e he
  · rw [flaggedOf_length_eq_card]
    show _ = a.defect
    rw [hdef]
    refine Eq.trans ?_ (env_count_orig (SqrtFn.sq : K → K) (Env.sqrtEps : K) p.m p.n hh.At hh.bt _ hO hUf
      Env.sqrtEps_pos)
    congr 1
    ext j
    simp only [mem_filter, mem_univ, true_and]
    exact hl j
  · intro i hi
    obtain ⟨g, g1, g2⟩ := env_dependent_orig (SqrtFn.sq : K → K) (Env.sqrtEps : K) p.m p.n p.dense hh.At hh.bt _
      hO hUf hWinj hAt i ((hl i).1 hi)
    exact ⟨g, g1, by rw [g2]; simp⟩
  · intro g hg hz
    exact env_fullRank_orig (SqrtFn.sq : K → K) (Env.sqrtEps : K) p.m p.n p.dense hh.At hh.bt _
      hO hUf hWinj hAt g hg (fun i hi => hz i ((hl i).2 hi))
  · show a.defect + p.A.rank = p.n
    have := envSolve_defect_rank hsq p hin hU P hP a h
    omega

/-- `Sound` from the hypothesis bundle -/
theorem obsEnv_sound_of (hsq : IsSqrt (SqrtFn.sq : K → K)) (p : Problem K) (hH : EnvHyp p) :
    (obsEnv p).Sound p.A p.S := by
  obtain ⟨P, hP⟩ := hH.weight
  obtain ⟨a, ha⟩ := hH.accepted
  exact obsEnv_sound hsq p hH.input hH.reg hH.fact hH.gs P hP a ha

/-- **the envelope follows the greedy rule in reverse Cuthill–McKee order**: unknown `i` is flagged iff
    column `i` of `A` is a combination of the columns whose position `envPos` is smaller -/
theorem obsEnv_greedy (hsq : IsSqrt (SqrtFn.sq : K → K)) (p : Problem K) (hin : Env.InputOK p)
    (hU : Env.SolveUnambiguous p) (P : Matrix (Fin p.m) (Fin p.m) K) (hP : p.C * P = 1)
    (a : Answer K) (h : envSolve p = .ok a) :
    Greedy p.A (fun j => envPos p j.val) (fun i => (obsEnv p).lindep (i.val + 1)) := by
  obtain ⟨hh, hhom, -⟩ := envSolve_shape p a h
  obtain ⟨hO, W, hW, hWinj, hAt, hbt, hu⟩ := Env.solve_setup hsq p hin P hP hh hhom
  have hpos : ∀ j, envPos p j = (Env.rcmOrd p.n hh.pat).invp.getD j 0 := by
    intro j; unfold envPos; rw [hhom]
  intro i
  rw [obsEnv_eq p a h, envSolve_lindep_iff hsq p hin P hP a h hh hhom a.xErr i]
  simp only [hpos]
  exact env_greedy_orig (SqrtFn.sq : K → K) (Env.sqrtEps : K) p.m p.n p.dense hh.At hh.bt _ hO (hU hh hhom)
    hWinj hAt i

/-- the processing positions are a permutation of `0..n−1` -/
theorem envPos_perm (p : Problem K) (hin : Env.InputOK p) (a : Answer K) (h : envSolve p = .ok a) :
    (∀ j < p.n, envPos p j < p.n) ∧ ∀ j < p.n, ∀ j' < p.n, envPos p j = envPos p j' → j = j' := by
  obtain ⟨hh, hhom, -⟩ := envSolve_shape p a h
  have hO : OrdOK p.n (Env.rcmOrd p.n hh.pat) :=
    Env.rcmOrd_ok p.n hh.pat (Env.homogenize_pat_range p hin.rows hin.dims hh hhom)
  have hpos : ∀ j, envPos p j = (Env.rcmOrd p.n hh.pat).invp.getD j 0 := by
    intro j; unfold envPos; rw [hhom]
  refine ⟨fun j hj => by rw [hpos]; exact hO.invp_lt j hj, fun j hj j' hj' e => ?_⟩
  rw [hpos, hpos] at e
  exact hO.invp_inj hj hj' e

end Obs

-- ------------------------------------------------------------------ svd (certificate model): `Counted`, not `Sound`

section SvdObs
variable {K : Type} [Scalar K]

/-- observations of an `AdjSVD` object fed with `p`, with the factors `d` the decomposition returned:
    a fresh object answers (`svdSolveCert … = .ok a`) or throws `e` from `svd()` (`min_subset_x`).  After the
    throw `null_space()` reads `defect()` (= `nullity`) and `lindep(i)` (= `inv_W_(i) == 0`) of the same
    object (`decomposed = 1` stays set, SVD.md observation 3): both are fixed by `set_inv_W()`, which
    precedes `min_subset_x` and does not look at the regularisation list; the model exposes that state as
    the answer on the same system with all unknowns regularised (`min_subset_x` is not run: never refuses) -/
def obsSvdCert (fixed : Bool) (tol : K) (d : Svd.Dec K) (p : Problem K) : SolverObs K :=
  match svdSolveCert fixed tol d p with
  | .ok a => obsOfAnswer a none
  | .error e =>
    match svdSolveCert fixed tol d { p with reg := .all } with
    | .ok a => obsOfAnswer a (some e)
    | .error _ => { refused := some e, defect := 0, lindep := fun _ => false, qxx := fun _ => 0 }

/-- with all unknowns in the list `min_subset_x` is not run: the object answers -/
theorem svdSolveCert_all_ok (fixed : Bool) (tol : K) (d : Svd.Dec K) (p : Problem K) :
    ∃ a, svdSolveCert fixed tol d { p with reg := .all } = .ok a := ⟨_, rfl⟩

/-- a refusal happens only with a positive defect (`min_subset_x` runs only then) -/
theorem svdSolveCert_error_defect (fixed : Bool) (tol : K) (d : Svd.Dec K) (p : Problem K) (e : ErrKind)
    (h : svdSolveCert fixed tol d p = .error e) (a : Answer K)
    (ha : svdSolveCert fixed tol d { p with reg := .all } = .ok a) : 0 < a.defect := by
  have hd : a.defect = Svd.defectOf p.n (Svd.invW tol p.n (vget d.W)) := by
    have := Except.ok.inj ha
    rw [← this]
  by_contra hz
  have h0 : Svd.defectOf p.n (Svd.invW tol p.n (vget d.W)) = 0 := by omega
  have hm : Svd.minSubsetX (if fixed then some tol else none) p.n p.reg (Svd.invW tol p.n (vget d.W)) d.V
      = .ok d.V := by
    unfold Svd.minSubsetX
    cases p.reg <;> simp [h0]
  unfold svdSolveCert Svd.answerOf at h
  simp only [hm] at h
  cases h

end SvdObs

section SvdCounted
open Gama.Ls.Svd
variable {K : Type} [Field K] [LinearOrder K] [IsStrictOrderedRing K] {sq : K → K}

/-- `Big` for the scalar signature of an ordered field -/
theorem big_fieldScalar : @Big K (fieldScalar sq) := by
  show ¬ (((10000 : Nat) : K) < 0)
  exact not_lt.2 (Nat.cast_nonneg _)

/-- `count` and `rank` of an answer record of the svd model (`answerOf_defect`) in `SolverObs` form -/
theorem svd_flags_counted (hs : SqrtLaw sq) (fixed : Bool) {tol : K} (htol : 0 ≤ tol) (p : Problem K) (d : Dec K)
    (hc : SvdCert sq tol p.m p.n (@Problem.dense K (fieldScalar sq) p) d) (hreg : Svd.RegOK p.reg) (a : Answer K)
    (h : @svdSolveCert K (fieldScalar sq) fixed tol d p = .ok a) (r : Option ErrKind) :
    (flaggedOf p.n (@obsOfAnswer K (fieldScalar sq) a r).lindep).length = a.defect
      ∧ a.defect + (@Problem.A K (fieldScalar sq) p).rank = p.n := by
  obtain ⟨h1, h2, h3⟩ := answerOf_defect hs fixed htol hc hreg h
  refine ⟨?_, h1⟩
  rw [flaggedOf_length_eq_card, h2]
  congr 1
  ext i
  simp only [mem_filter, mem_univ, true_and]
  rw [@obsOfAnswer_lindep K (fieldScalar sq) a r, h3 i]
  constructor
  · intro hh
    have : Decidable.decide (toVec p.n d.W i = 0) = true := by injection hh
    exact of_decide_eq_true this
  · intro h0; rw [decide_eq_true h0]

/-- **the observations of the svd model are `Counted`** (#flags = defect, refusal ⇒ defect > 0), and
    the defect is `n − rank A` — under the certificate; they are NOT `Sound` (F7-svd) -/
theorem obsSvdCert_counted (hs : SqrtLaw sq) (fixed : Bool) {tol : K} (htol : 0 ≤ tol) (p : Problem K) (d : Dec K)
    (hc : SvdCert sq tol p.m p.n (@Problem.dense K (fieldScalar sq) p) d) (hreg : Svd.RegOK p.reg) :
    (@obsSvdCert K (fieldScalar sq) fixed tol d p).Counted p.n
      ∧ (@obsSvdCert K (fieldScalar sq) fixed tol d p).defect + (@Problem.A K (fieldScalar sq) p).rank = p.n := by
  cases hsv : @svdSolveCert K (fieldScalar sq) fixed tol d p with
  | ok a =>
    have ho : @obsSvdCert K (fieldScalar sq) fixed tol d p = @obsOfAnswer K (fieldScalar sq) a none := by
      unfold obsSvdCert; rw [hsv]
    obtain ⟨c1, c2⟩ := svd_flags_counted hs fixed htol p d hc hreg a hsv none
    rw [ho]
    exact ⟨⟨c1, fun hr => by cases hr⟩, c2⟩
  | error e =>
    obtain ⟨a, ha⟩ := @svdSolveCert_all_ok K (fieldScalar sq) fixed tol d p
    have ho : @obsSvdCert K (fieldScalar sq) fixed tol d p = @obsOfAnswer K (fieldScalar sq) a (some e) := by
      unfold obsSvdCert; rw [hsv]; simp only; rw [ha]
    obtain ⟨c1, c2⟩ := svd_flags_counted hs fixed htol { p with reg := .all } d hc trivial a ha (some e)
    rw [ho]
    exact ⟨⟨c1, fun _ => @svdSolveCert_error_defect K (fieldScalar sq) fixed tol d p e hsv a ha⟩, c2⟩

end SvdCounted

-- ------------------------------------------------------------------ the greedy rule for a threshold flag set; Cholesky

section Threshold
variable {K : Type} [Field K] {m n : Nat}

/-- a flag set of the form "position ≥ N0" whose flagged columns depend on the unflagged ones only and
    whose unflagged columns are independent follows the greedy rule in that order of positions -/
theorem greedy_of_threshold (A : Matrix (Fin m) (Fin n) K) (ord : Fin n → Nat) (flag : Fin n → Bool) (N0 : Nat)
    (hflag : ∀ i, flag i = true ↔ N0 ≤ ord i)
    (hdep : ∀ i, flag i = true → ∃ g : Fin n → K, A *ᵥ g = 0 ∧ g i = -1 ∧ ∀ i', flag i' = true → i' ≠ i → g i' = 0)
    (hfull : ∀ g : Fin n → K, A *ᵥ g = 0 → (∀ i, flag i = true → g i = 0) → g = 0) :
    Greedy A ord flag := by
  intro i
  constructor
  · intro hi
    obtain ⟨g, hg, hgi, hgo⟩ := hdep i hi
    refine ⟨fun j => if j = i then 0 else g j, ?_, ?_⟩
    · intro j hj
      by_cases hji : j = i
      · simp [hji]
      · simp only [hji, if_false]
        exact hgo j ((hflag j).2 (le_trans ((hflag i).1 hi) hj)) hji
    · intro r
      have hr : ∑ j, A r j * g j = 0 := by
        have := congrFun hg r
        simpa [mulVec, dotProduct] using this
      have : ∀ j, A r j * (if j = i then (0 : K) else g j) = A r j * g j + (if j = i then A r i else 0) := by
        intro j
        by_cases hj : j = i
        · subst hj; simp [hgi]
        · simp [hj]
      rw [Finset.sum_congr rfl (fun j _ => this j), Finset.sum_add_distrib, Finset.sum_ite_eq' Finset.univ i, hr]
      simp
  · rintro ⟨γ, hγ, hcol⟩
    by_contra hi
    have hif : flag i = false := by cases h : flag i <;> simp_all
    have hlt : ord i < N0 := by
      by_contra hc
      have := (hflag i).2 (by omega)
      rw [hif] at this; cases this
    have hγi : γ i = 0 := hγ i (le_refl _)
    have hker : A *ᵥ (fun j => if j = i then -1 else γ j) = 0 := by
      funext r
      simp only [mulVec, dotProduct, Pi.zero_apply]
      have : ∀ j, A r j * (if j = i then (-1 : K) else γ j) = A r j * γ j - (if j = i then A r i else 0) := by
        intro j
        by_cases hj : j = i
        · subst hj; simp [hγi]
        · simp [hj]
      rw [Finset.sum_congr rfl (fun j _ => this j), Finset.sum_sub_distrib, Finset.sum_ite_eq' Finset.univ i]
      simp only [Finset.mem_univ, if_true]
      rw [← hcol r]; exact sub_self _
    have h0 := hfull _ hker (fun j hj => by
      have hjN := (hflag j).1 hj
      have hji : j ≠ i := fun e => by subst e; omega
      simp only [hji, if_false]
      exact hγ j (by omega))
    have := congrFun h0 i
    simp at this

end Threshold

section CholGreedy
open Gama.Ls.Chol Gama.Ls.Dn
variable {K : Type} [Field K] [LinearOrder K] [IsStrictOrderedRing K] [SqrtFn K]
attribute [local instance 2000] scalarOfField

/-- position of unknown `j` (0-based) in the diagonal pivoting of `cholFact p` (`invp(j)`) -/
def cholPos (p : Problem K) (j : Nat) : Nat := qq p.n (cholFact p).perm j

/-- the flags of an answer record of the Cholesky model: `lindep(i) ⇔ invp(i) ≥ N0`, and the greedy
    rule in pivot order -/
theorem chol_greedy_of_answer (p : Problem K) (hU : Chol.UnambiguousF (cholFact p)) (a : Answer K)
    (h : cholSolve p = .ok a) (r : Option ErrKind) :
    (∀ i : Fin p.n, (obsOfAnswer a r).lindep (i.val + 1) = true ↔ p.n - (cholFact p).nullity ≤ cholPos p i.val) ∧
    Greedy p.A (fun j => cholPos p j.val) (fun i => (obsOfAnswer a r).lindep (i.val + 1)) := by
  unfold cholSolve at h
  cases hs : Chol.solve p with
  | error e => rw [hs] at h; simp [Except.map] at h
  | ok s =>
    rw [hs] at h
    have ha : a = s.answer := (Except.ok.inj h).symm
    subst ha
    obtain ⟨_, hn, _, hperm, _, _, _, hN0, _⟩ := solve_shape p s hs
    obtain ⟨h1, _, h3, h4⟩ := chol_lindep_spec p hU s hs
    have hl : ∀ i : Fin p.n, (obsOfAnswer s.answer r).lindep (i.val + 1) = true ↔ s.lindep0 i.val = true := by
      intro i
      rw [obsOfAnswer_lindep]
      show (if s.idx (i.val + 1) then Except.ok (s.lindep0 (i.val + 1 - 1)) else Except.error ErrKind.NotModelled) = _ ↔ _
      have hi : s.idx (i.val + 1) = true := by simp [Chol.Solved.idx, hn]
      rw [hi]; simp
    have hfl : ∀ i : Fin p.n, (obsOfAnswer s.answer r).lindep (i.val + 1) = true
        ↔ p.n - (cholFact p).nullity ≤ cholPos p i.val := by
      intro i
      rw [hl i, h1 i.val i.2, hperm, hN0]
      unfold cholPos
      simp
    refine ⟨hfl, ?_⟩
    refine greedy_of_threshold p.A _ _ (p.n - (cholFact p).nullity) hfl ?_ ?_
    · intro i hi
      obtain ⟨g, g1, g2, g3⟩ := h4 i ((hl i).1 hi)
      exact ⟨g, g1, g2, fun i' hi' hne => g3 i' ((hl i').1 hi') hne⟩
    · intro g hg hz
      exact h3 g hg (fun i hi => hz i ((hl i).2 hi))

/-- **Cholesky flags unknown `i` iff its pivot position `invp(i) ≥ N0 = n − nullity`, and follows the
    greedy rule in the order of its diagonal pivoting** (`cholPos p`) — for `obsChol p`, whether the
    object answered or refused (the flags are those of the same factorisation) -/
theorem obsChol_greedy (p : Problem K) (hU : Chol.UnambiguousF (cholFact p))
    (hsq : Chol.GsSqrtExact p) (hun : Chol.GsUnamb p)
    (hsqA : Chol.GsSqrtExact (allReg p)) (hunA : Chol.GsUnamb (allReg p))
    (hrl : Chol.regList p.n p.reg ≠ none) :
    (∀ i : Fin p.n, (obsChol p).lindep (i.val + 1) = true ↔ p.n - (cholFact p).nullity ≤ cholPos p i.val) ∧
    Greedy p.A (fun j => cholPos p j.val) (fun i => (obsChol p).lindep (i.val + 1)) := by
  obtain ⟨hok, herr⟩ := chol_refusal p hU hsq hun
  cases hc : cholSolve p with
  | ok a =>
    have ho : obsChol p = obsOfAnswer a none := by unfold obsChol; rw [hc]
    rw [ho]
    exact chol_greedy_of_answer p hU a hc none
  | error e =>
    have hUA : Chol.UnambiguousF (cholFact (allReg p)) := hU
    obtain ⟨_, herrA⟩ := chol_refusal (allReg p) hUA hsqA hunA
    cases hcA : cholSolve (allReg p) with
    | error e' =>
      exfalso
      rcases herrA e' hcA with ⟨_, h⟩ | ⟨_, h⟩
      · apply h
        intro g _ hz
        funext i
        exact hz i (Finset.mem_univ i)
      · simp [allReg, Chol.regList] at h
    | ok a =>
      have ho : obsChol p = obsOfAnswer a (some e) := by unfold obsChol; rw [hc]; simp only; rw [hcA]
      rw [ho]
      exact chol_greedy_of_answer (allReg p) hUA a hcA (some e)

end CholGreedy

-- ------------------------------------------------------------------ svd: what the refusal field says

section SvdRefused
variable {K : Type} [Scalar K]

theorem obsSvdCert_refused (fixed : Bool) (tol : K) (d : Svd.Dec K) (p : Problem K) :
    (obsSvdCert fixed tol d p).refused = match svdSolveCert fixed tol d p with
      | .ok _ => none
      | .error e => some e := by
  unfold obsSvdCert
  cases svdSolveCert fixed tol d p with
  | ok a => rfl
  | error e =>
    simp only
    cases svdSolveCert fixed tol d { p with reg := .all } <;> rfl

end SvdRefused

-- ------------------------------------------------------------------ witness: `Ex.pR` over ℝ

section Witness
open Gama.Ls.Gso
attribute [local instance] sqrtFnOfSqrtField
set_option linter.unusedSimpArgs false

theorem isSqrt_sqrtField {K : Type} [Field K] [LinearOrder K] [SqrtField K] : IsSqrt (SqrtFn.sq : K → K) :=
  ⟨fun x hx => (SqrtField.sqrt_spec x hx).1, fun x hx => (SqrtField.sqrt_spec x hx).2⟩

/-- the Gram–Schmidt loop of `solve_x` on `Ex.pR`: one kernel column `(1, −1)`, list `[0]`, pivot `√1 = 1 ≥ s_tol` -/
theorem pR_solveGSUnamb : Env.SolveGSUnambiguous Ex.pR := by
  intro hh h
  rw [Ex.pR_homogenize_eq] at h
  have := Except.ok.inj h
  subst this
  show GSUnambiguous (SqrtField.sqrt : ℝ → ℝ) (n := 2) sqrtEps sqrtEps 2 Ex.pR.dense Ex.pR.rhs (rcmOrd 2 #[[1, 2], []])
    (Env.regList 2 (rcmOrd 2 #[[1, 2], []]) Ex.pR.reg)
  rw [Ex.pR_rcm]
  have hS : Env.regList 2 (idOrd 2) Ex.pR.reg = [0] := by decide
  rw [hS, Ex.pR_dense]
  have hr : Ex.pR.rhs = #[1, 1] := rfl
  rw [hr]
  unfold GSUnambiguous kerCols
  rw [Ex.pR_rows]
  have h1 : ¬ (1 : ℝ) < sqrtEps := not_lt.2 (le_of_lt Ex.eps_lt_one)
  have hs : SqrtField.sqrt (1 : ℝ) = 1 := Real.sqrt_one
  intro pv hpv hlt
  simp [gsPivots, depCols, kerCol, upper, upperRev, Ex.build2, Ex.vecOf2, orthAgainst, Env.dotS, Dget, Lget,
      sumTo, List.range_succ, hs, h1] at hpv
  subst hpv
  exact absurd hlt h1

/-- **`Ex.pR` (A = [1 1; 0 0], list {1}, defect 1) meets every hypothesis of `obsEnv_sound`** -/
theorem pR_envHyp : EnvHyp Ex.pR :=
  ⟨Ex.pR_input, Ex.pR_regList, Ex.pR_solveUnamb, pR_solveGSUnamb, ⟨1, by rw [Ex.pR_C, Matrix.mul_one]⟩,
    by obtain ⟨a, ha, -⟩ := Ex.pR_envSolve; exact ⟨a, ha⟩⟩

open Gama.Ls.Chol Gama.Ls.Dn in
/-- the S-norm² the Cholesky model's Gram–Schmidt loop tests on `Ex.pR` with ALL unknowns in the list -/
theorem pR_chol_gsVal_all (x0 : Array ℝ) :
    gsVal [0, 1] (gInit 2 1 1 #[0, 1] #[#[1, 0], #[1, 0]] x0) (pmk 2 id) 0 = 2 := by
  simp [gsVal, gInit, Ex.ofFn1, backSub, sweep, Chol.dotS, Ex.pmk2, Ex.vmk2, Ex.invPerm_id2, pget, Dn.vget, sget, Dn.mget]
  norm_num

open Gama.Ls.Chol Gama.Ls.Dn in
theorem pR_chol_gsUnamb_all : GsUnamb (allReg Ex.pR) := by
  intro S h
  have hS : Chol.regList (allReg Ex.pR).n (allReg Ex.pR).reg = some [0, 1] := rfl
  rw [hS] at h
  rw [← Option.some.inj h, show cholFact (allReg Ex.pR) = cholFact Ex.pR from rfl, Ex.pR_cholFact]
  show gsUnambOK 2 1 [0, 1] 1 0 (pmk 2 id) (gInit 2 1 1 #[0, 1] #[#[1, 0], #[1, 0]] _)
  unfold gsUnambOK
  rw [pR_chol_gsVal_all]
  have h2 : (sTol : ℝ) ≤ 2 := le_trans (le_of_lt Ex.sTol_lt_one) (by norm_num)
  refine ⟨Or.inr h2, ?_⟩
  rw [if_neg (not_lt.2 h2)]
  trivial

open Gama.Ls.Chol in
/-- **`Ex.pR` meets the hypothesis bundle of the Cholesky model** (for the configured list and the full list) -/
theorem pR_cholHyp : CholHyp Ex.pR :=
  haveI := Ex.lawfulSqrt_real
  ⟨Ex.pR_chol_unambiguous, Ex.pR_chol_sqrt, Ex.pR_chol_gsUnamb, GsSqrtExact.of_lawful (allReg Ex.pR),
    pR_chol_gsUnamb_all, by show Chol.regList 2 (.subset [1]) ≠ none; decide⟩

/-- project equations that always produce `Ex.pR` (two heights A, B) -/
noncomputable def pRPE : Net → ProjEq (Problem ℝ) := fun net =>
  { net := net, rm := [], unknowns := [⟨"A", .Z⟩, ⟨"B", .Z⟩], nObs := 2, nPts := 2, prob := Ex.pR }

/-- the same system as the two coordinates of ONE free point P: the kernel (1, −1) lies in one removal class -/
noncomputable def pRPE1 : Net → ProjEq (Problem ℝ) := fun net =>
  { net := net, rm := [], unknowns := [⟨"P", .X⟩, ⟨"P", .Y⟩], nObs := 2, nPts := 1, prob := Ex.pR }

theorem pRPE1_class (net : Net) : ∃ rc : String × Rm, KernelClass (pRPE1 net).prob.A (pRPE1 net).unknowns rc :=
  ⟨("P", .singular_xy), fun g _ i u _ hu => by
    have hi : i.val = 0 ∨ i.val = 1 := by have : i.val < 2 := i.2; omega
    have hu' : ([⟨"P", .X⟩, ⟨"P", .Y⟩] : List Unknown)[i.val]? = some u := hu
    rcases hi with hi | hi <;> (rw [hi] at hu'; simp at hu'; subst hu'; rfl)⟩

-- a `PEWF` network code around `Ex.pR`

/-- the problem of a configuration without unknowns -/
noncomputable def pEmpty : Problem ℝ := { m := 0, n := 0, rows := #[], cov := #[], rhs := #[], reg := .all }

theorem pEmpty_envHyp : EnvHyp pEmpty := by
  have hacc : ∃ a, envSolve pEmpty = .ok a := by
    cases h : envSolve pEmpty with
    | ok a => exact ⟨a, rfl⟩
    | error e =>
      have := (envSolve_error_kind pEmpty e h).2
      have h2 : Env.factorsU pEmpty.cov.toList = some [] := rfl
      rw [h2] at this; cases this
  refine ⟨⟨?_, rfl, ?_⟩, ?_, ?_, ?_, ⟨1, Matrix.ext fun i => Fin.elim0 i⟩, hacc⟩
  · intro b hb; cases hb
  · intro i hi; exact absurd hi (Nat.not_lt_zero i)
  · intro l hl; cases hl
  · intro hh _ i hi; exact absurd hi (Nat.not_lt_zero i)
  · intro hh _ pv hpv; cases hpv
/-- two heights, B constrained -/
def envNet : Net := [⟨"A", .unused, .free⟩, ⟨"B", .unused, .constrained⟩]

/-- project equations: on the full configuration the singular system `Ex.pR` (list {1}); otherwise nothing to adjust -/
noncomputable def envPE : Net → ProjEq (Problem ℝ) := fun net =>
  if net = envNet then
    { net := net, rm := [], unknowns := [⟨"A", .Z⟩, ⟨"B", .Z⟩], nObs := 2, nPts := 2, prob := Ex.pR }
  else { net := net, rm := [], unknowns := [], nObs := 0, nPts := 0, prob := pEmpty }

theorem envPE_wf : PEWF envPE := by
  refine ⟨?_, ?_, ?_⟩
  · intro net; unfold envPE; split <;> exact Nat.le_refl _
  · intro net u hu
    unfold envPE at hu ⊢
    split at hu
    next h =>
      rw [if_pos h]
      subst h
      simp only [List.mem_cons, List.not_mem_nil, or_false] at hu
      rcases hu with rfl | rfl
      · exact ⟨⟨"A", .unused, .free⟩, by simp [envNet], rfl⟩
      · exact ⟨⟨"B", .unused, .constrained⟩, by simp [envNet], rfl⟩
    · simp at hu
  · intro net u hu Q hQ hid
    unfold envPE at hu hQ
    split at hu
    next h =>
      rw [if_pos h] at hQ
      subst h
      simp only [List.mem_cons, List.not_mem_nil, or_false] at hu
      simp only [envNet, List.mem_cons, List.not_mem_nil, or_false] at hQ
      rcases hu with rfl | rfl <;> rcases hQ with rfl | rfl <;> simp_all [CStat.active]
    · simp at hu

theorem envPE_dim (net : Net) : (envPE net).prob.n = (envPE net).unknowns.length := by
  unfold envPE; split <;> rfl

theorem envPE_hyp (net : Net) : EnvHyp (envPE net).prob := by
  unfold envPE; split
  · exact pR_envHyp
  · exact pEmpty_envHyp

/-- the factors handed to the svd model on `envPE`: `Ex.dR` for `Ex.pR`, empty for the empty problem -/
noncomputable def envDec (p : Problem ℝ) : Svd.Dec ℝ := if p.n = 0 then ⟨#[], #[], #[]⟩ else Ex.dR

theorem envPE_cert (net : Net) : Svd.SvdCert (SqrtField.sqrt : ℝ → ℝ) (1 / 1000) (envPE net).prob.m (envPE net).prob.n
    (@Problem.dense ℝ (fieldScalar SqrtField.sqrt) (envPE net).prob) (envDec (envPE net).prob) := by
  unfold envPE; split
  · exact Ex.pR_svdCert
  · refine ⟨Matrix.ext fun i => Fin.elim0 i, Matrix.ext fun i => Fin.elim0 i, fun i => Fin.elim0 i, ?_⟩
    intro i hi; exact absurd hi (Nat.not_lt_zero i)

theorem envPE_list (net : Net) (l : List Nat) (h : (envPE net).prob.reg = .subset l) :
    l.Nodup ∧ ∀ i ∈ l, 1 ≤ i ∧ i ≤ (envPE net).prob.n := by
  unfold envPE at h ⊢; split at h
  next hn =>
    rw [if_pos hn]
    have : l = [1] := by
      have h' : Reg.subset [1] = Reg.subset l := h
      injection h' with h''; exact h''.symm
    subst this
    exact ⟨by decide, fun i hi => by simp at hi; subst hi; exact ⟨le_refl _, (by decide : 1 ≤ 2)⟩⟩
  · cases h

end Witness

end Gama.NetDecision
