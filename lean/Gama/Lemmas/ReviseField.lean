/-
  C14 — the absolute-term test over a linearly ordered field (`Scalar` = the field's operations,
  `sqrt` a parameter): which entry the tree's test reads, with which factor, and when that is the
  positional misclosure of the absolute term.
-/
import Gama.Lemmas.Revise
import Gama.Lemmas.CovField
import Mathlib.Algebra.Order.Field.Basic
import Mathlib.Algebra.Order.AbsoluteValue.Basic
import Mathlib.Tactic.Ring
import Mathlib.Tactic.Linarith
import Mathlib.Tactic.FieldSimp
import Mathlib.Tactic.Positivity
namespace Gama.Rev

set_option linter.unusedSectionVars false

variable {K : Type} [Field K] [LinearOrder K] [IsStrictOrderedRing K] (sq : K → K)

@[reducible] def fsc : Scalar K := Cov.fieldScalar K sq

/-- homogenisation of an uncorrelated observation multiplies its absolute term by `m0 / stdev` -/
theorem homEntry_eq (hsq : ∀ x : K, 0 ≤ x → sq (x * x) = x) (m0 s r : K) (hm : 0 < m0) (hs : 0 < s) :
    @homEntry K (fsc sq) m0 s r = r * @weightFactor K (fsc sq) m0 s := by
  unfold homEntry weightFactor
  show r / sq ((s * s) / (m0 * m0)) = r * (m0 / s)
  have h1 : (s * s) / (m0 * m0) = (s / m0) * (s / m0) := by field_simp
  rw [h1, hsq (s / m0) (by positivity)]
  field_simp

theorem homDiag_eq (hsq : ∀ x : K, 0 ≤ x → sq (x * x) = x) (m0 : K) (hm : 0 < m0) (stdevs rhs : List K)
    (hs : ∀ s ∈ stdevs, 0 < s) :
    @homDiag K (fsc sq) m0 stdevs rhs =
      List.zipWith (fun s r => r * @weightFactor K (fsc sq) m0 s) stdevs rhs := by
  unfold homDiag
  induction stdevs generalizing rhs with
  | nil => rfl
  | cons s ss ih =>
    cases rhs with
    | nil => rfl
    | cons r rs =>
      simp only [List.zipWith_cons_cons]
      rw [homEntry_eq sq hsq m0 s r hm (hs s (by simp)), ih rs (fun s' h' => hs s' (by simp [h']))]

theorem tenR2G_pos : (0 : K) < @Spec.tenR2G K (fsc sq) := by
  unfold Spec.tenR2G
  show (0 : K) < ((10 : ℕ) : K) * (((2000 : ℕ) : K) / 10 ^ 1) / (((314159265358979323846 : ℕ) : K) / 10 ^ 20)
  positivity

/-- the context of the visitor does not depend on the consulted entry, except for its field `b` -/
theorem absCtx_b (pts : List (Pt K)) (o : Obs K) (b b' : K) :
    @absCtx K (fsc sq) pts o b = { @absCtx K (fsc sq) pts o b' with b := b } := rfl

theorem misclosure_angular (t : ObsType) (ht : Spec.angular t = true) (c : AbsCtx K) :
    @Spec.misclosure K (fsc sq) t c = |c.b * @Spec.lever K (fsc sq) t c / @Spec.tenR2G K (fsc sq)| := by
  cases t <;> first | rfl | (simp [Spec.angular] at ht)

theorem lever_b (t : ObsType) (c : AbsCtx K) (b : K) :
    @Spec.lever K (fsc sq) t { c with b := b } = @Spec.lever K (fsc sq) t c := by
  cases t <;> rfl

theorem misclosure_linear (t : ObsType) (ht : Spec.angular t = false) (c : AbsCtx K) (b : K) :
    @Spec.misclosure K (fsc sq) t { c with b := b } = @Spec.misclosure K (fsc sq) t c := by
  cases t <;> first | rfl | (simp [Spec.angular] at ht)

/-- the misclosure the visitor computes from the entry `r·w` is `w` times the positional misclosure
    of the absolute term `r` for the angular types, and the positional misclosure itself for the others -/
theorem misclosure_scaled (pts : List (Pt K)) (o : Obs K) (r w : K) (hw : 0 < w) :
    @Spec.misclosure K (fsc sq) o.ty (@absCtx K (fsc sq) pts o (r * w)) =
      (if Spec.angular o.ty then w else 1) * @Spec.misclosure K (fsc sq) o.ty (@absCtx K (fsc sq) pts o r) := by
  rw [absCtx_b sq pts o (r * w) r]
  cases ht : Spec.angular o.ty
  · rw [misclosure_linear sq o.ty ht]; simp
  · rw [misclosure_angular sq o.ty ht, misclosure_angular sq o.ty ht, lever_b]
    simp only [if_true]
    generalize @Spec.lever K (fsc sq) o.ty (@absCtx K (fsc sq) pts o r) = D
    generalize @Spec.tenR2G K (fsc sq) = T
    show |r * w * D / T| = w * |(@absCtx K (fsc sq) pts o r).b * D / T|
    have hb : (@absCtx K (fsc sq) pts o r).b = r := rfl
    rw [hb]
    have : r * w * D / T = w * (r * D / T) := by ring
    rw [this, abs_mul, abs_of_pos hw]

theorem h0_field : @Scalar.beq K (fsc sq) (@Scalar.ofNat K (fsc sq) 0) (@Scalar.ofNat K (fsc sq) 0) = true := by
  show decide (((0 : ℕ) : K) = ((0 : ℕ) : K)) = true
  simp

theorem beq_zero_false (x : K) : @Scalar.beq K (fsc sq) x (@Scalar.ofNat K (fsc sq) 0) = false ↔ x ≠ 0 := by
  show decide (x = ((0 : ℕ) : K)) = false ↔ x ≠ 0
  simp

/-- **the test of `test_abs_term` on an entry `r·w`** (`r` the absolute term, `w > 0` the factor the
    consulted vector carries): exceeds iff `tol < w · misclosure(r)` for the angular types,
    `tol < misclosure(r)` for the others, and `r ≠ 0` -/
theorem outlying_scaled (pts : List (Pt K)) (tol : K) (o : Obs K) (r w : K) (hw : 0 < w) :
    @outlying K (fsc sq) pts tol o (r * w) = true ↔
      tol < (if Spec.angular o.ty then w else 1) * @Spec.misclosure K (fsc sq) o.ty (@absCtx K (fsc sq) pts o r) ∧ r ≠ 0 := by
  rw [@outlying_iff K (fsc sq) (h0_field sq) pts tol o (r * w), misclosure_scaled sq pts o r w hw, beq_zero_false]
  constructor
  · rintro ⟨h1, h2⟩
    exact ⟨h1, fun h => h2 (by rw [h, zero_mul])⟩
  · rintro ⟨h1, h2⟩
    exact ⟨h1, mul_ne_zero h2 (ne_of_gt hw)⟩

theorem outlying_plain (pts : List (Pt K)) (tol : K) (o : Obs K) (r : K) :
    @outlying K (fsc sq) pts tol o r = true ↔
      tol < @Spec.misclosure K (fsc sq) o.ty (@absCtx K (fsc sq) pts o r) ∧ r ≠ 0 := by
  rw [@outlying_iff K (fsc sq) (h0_field sq) pts tol o r, beq_zero_false]

/-- **C14-F1, exactly.**  For an angular observation with a positive lever: the test on the entry
    scaled by `w` gives the verdict of the positional misclosure for every absolute term and every
    tolerance iff `w = 1`. -/
theorem scaled_test_coincides_iff (pts : List (Pt K)) (o : Obs K) (w : K) (hw : 0 < w)
    (ht : Spec.angular o.ty = true)
    (hl : 0 < @Spec.lever K (fsc sq) o.ty (@absCtx K (fsc sq) pts o 0)) :
    (∀ r tol : K, @outlying K (fsc sq) pts tol o (r * w) = @outlying K (fsc sq) pts tol o r) ↔ w = 1 := by
  constructor
  · intro h
    by_contra hne
    -- positional misclosure of the absolute term 1
    set M := @Spec.misclosure K (fsc sq) o.ty (@absCtx K (fsc sq) pts o 1) with hM
    have hMpos : 0 < M := by
      rw [hM, absCtx_b sq pts o 1 0, misclosure_angular sq o.ty ht, lever_b]
      have hb : ({ @absCtx K (fsc sq) pts o 0 with b := 1 } : AbsCtx K).b = 1 := rfl
      rw [hb, one_mul]
      exact abs_pos.mpr (ne_of_gt (div_pos hl (tenR2G_pos sq)))
    have key : ∀ tol : K, (tol < w * M) ↔ (tol < M) := by
      intro tol
      have h1 := h 1 tol
      have e1 := outlying_scaled sq pts tol o 1 w hw
      have e2 := outlying_plain sq pts tol o 1
      rw [ht] at e1
      simp only [if_true, ne_eq, one_ne_zero, not_false_eq_true, and_true] at e1 e2
      rw [← hM] at e1 e2
      rw [← e1, ← e2, h1]
    rcases lt_or_gt_of_ne hne with hlt | hgt
    · -- w < 1 : tol = w·M is below M but not below w·M
      have := (key (w * M)).mpr (by nlinarith)
      exact lt_irrefl _ this
    · -- w > 1 : tol = M is below w·M but not below M
      have := (key M).mp (by nlinarith)
      exact lt_irrefl _ this
  · intro h r tol
    rw [h, mul_one]

end Gama.Rev
