/-
  C10 "correlated observations are weighted by their full covariance matrix".

  GNU Gama factors every covariance block `C = L Lᵀ` (Cholesky) and replaces the
  weighted problem `(A, b, P = C⁻¹)` by the homogenised ("whitened") problem
  `(A', b')` with `L A' = A`, `L b' = b` (forward substitution) and unit weights.
  This file proves, over an arbitrary field, that the two problems have the same
  normal matrix, right-hand side, objective, normal equations and minimisers,
  that the whitened data are unique, that a diagonal covariance matrix reduces to
  per-observation weights `1/σᵢ²`, that whitening block by block is whitening with
  the block-diagonal matrix, and that restricting to active rows uses the
  sub-matrix of the COVARIANCE matrix (not of the weight matrix).

  Hypotheses are deliberately in the form the executable model guarantees:
  `C = L * Lᵀ`, `C * P = 1`, `L * A' = A`, `L *ᵥ b' = b`.  No symmetry or
  definiteness of `C`/`P` and no triangularity of `L` is needed.
-/
import Mathlib.LinearAlgebra.Matrix.NonsingularInverse
import Mathlib.LinearAlgebra.Matrix.DotProduct
import Mathlib.Data.Matrix.Block
import Mathlib.LinearAlgebra.Matrix.Notation
import Mathlib.Tactic.Ring
import Mathlib.Tactic.Linarith
import Mathlib.Tactic.NormNum
import Mathlib.Tactic.FieldSimp

namespace Gama.Cov.Whiten

open Matrix

set_option linter.unusedSectionVars false

variable {K : Type*} [Field K]
variable {m n : Type*} [Fintype m] [DecidableEq m] [Fintype n] [DecidableEq n]

/-! ### 1. `Lᵀ P L = 1` -/

/-- `L` has the right inverse `Lᵀ P`. -/
theorem L_mul_LtP_eq_one {C L P : Matrix m m K}
    (hC : C = L * Lᵀ) (hP : C * P = 1) : L * (Lᵀ * P) = 1 := by
  rw [← Matrix.mul_assoc, ← hC, hP]

/-- Item 1. -/
theorem LtPL_eq_one {C L P : Matrix m m K}
    (hC : C = L * Lᵀ) (hP : C * P = 1) : Lᵀ * P * L = 1 :=
  mul_eq_one_comm.mp (L_mul_LtP_eq_one hC hP)

/-- `L` is invertible (its determinant is a unit) as soon as `L Lᵀ` has a right inverse. -/
theorem isUnit_det_L {C L P : Matrix m m K}
    (hC : C = L * Lᵀ) (hP : C * P = 1) : IsUnit L.det :=
  Matrix.isUnit_det_of_right_inverse (L_mul_LtP_eq_one hC hP)

theorem isUnit_L {C L P : Matrix m m K}
    (hC : C = L * Lᵀ) (hP : C * P = 1) : IsUnit L :=
  (Matrix.isUnit_iff_isUnit_det L).mpr (isUnit_det_L hC hP)

theorem det_L_ne_zero {C L P : Matrix m m K}
    (hC : C = L * Lᵀ) (hP : C * P = 1) : L.det ≠ 0 :=
  (isUnit_det_L hC hP).ne_zero

/-! ### 2.–3. normal matrix and right-hand side -/

/-- Item 2. -/
theorem normal_matrix {C L P : Matrix m m K} {A A' : Matrix m n K}
    (hC : C = L * Lᵀ) (hP : C * P = 1) (hA : L * A' = A) :
    A'ᵀ * A' = Aᵀ * P * A := by
  have h := LtPL_eq_one hC hP
  calc A'ᵀ * A' = A'ᵀ * (Lᵀ * P * L) * A' := by rw [h, Matrix.mul_one]
    _ = (L * A')ᵀ * P * (L * A') := by
        rw [Matrix.transpose_mul]; simp only [Matrix.mul_assoc]
    _ = Aᵀ * P * A := by rw [hA]

/-- Transforming a homogenised vector back and weighting it:
    `Aᵀ P (L v) = A'ᵀ v` for every `v`. -/
theorem At_P_L_mulVec {C L P : Matrix m m K} {A A' : Matrix m n K}
    (hC : C = L * Lᵀ) (hP : C * P = 1) (hA : L * A' = A) (v : m → K) :
    Aᵀ *ᵥ (P *ᵥ (L *ᵥ v)) = A'ᵀ *ᵥ v := by
  have h := LtPL_eq_one hC hP
  calc Aᵀ *ᵥ (P *ᵥ (L *ᵥ v)) = (A'ᵀ * (Lᵀ * P * L)) *ᵥ v := by
        rw [← hA, Matrix.transpose_mul]
        simp only [Matrix.mulVec_mulVec, Matrix.mul_assoc]
    _ = A'ᵀ *ᵥ v := by rw [h, Matrix.mul_one]

/-- Item 3. -/
theorem normal_rhs {C L P : Matrix m m K} {A A' : Matrix m n K} {b b' : m → K}
    (hC : C = L * Lᵀ) (hP : C * P = 1) (hA : L * A' = A) (hb : L *ᵥ b' = b) :
    A'ᵀ *ᵥ b' = Aᵀ *ᵥ (P *ᵥ b) := by
  rw [← hb, At_P_L_mulVec hC hP hA]

/-! ### 5. residuals -/

/-- Item 5: multiplying the homogenised residuals by `L` gives the original residuals. -/
theorem residual {L : Matrix m m K} {A A' : Matrix m n K} {b b' : m → K}
    (hA : L * A' = A) (hb : L *ᵥ b' = b) (x : n → K) :
    L *ᵥ (A' *ᵥ x - b') = A *ᵥ x - b := by
  rw [Matrix.mulVec_sub, Matrix.mulVec_mulVec, hA, hb]

/-! ### 4. objective -/

/-- The weighted quadratic form of a back-transformed vector is the plain sum of squares. -/
theorem quad_form {C L P : Matrix m m K}
    (hC : C = L * Lᵀ) (hP : C * P = 1) (v w : m → K) :
    (L *ᵥ v) ⬝ᵥ (P *ᵥ (L *ᵥ w)) = v ⬝ᵥ w := by
  have h := LtPL_eq_one hC hP
  rw [← Matrix.vecMul_transpose L v, ← Matrix.dotProduct_mulVec,
    Matrix.mulVec_mulVec, Matrix.mulVec_mulVec, h, Matrix.one_mulVec]

/-- Item 4. -/
theorem objective {C L P : Matrix m m K} {A A' : Matrix m n K} {b b' : m → K}
    (hC : C = L * Lᵀ) (hP : C * P = 1) (hA : L * A' = A) (hb : L *ᵥ b' = b) (x : n → K) :
    (A' *ᵥ x - b') ⬝ᵥ (A' *ᵥ x - b') = (A *ᵥ x - b) ⬝ᵥ (P *ᵥ (A *ᵥ x - b)) := by
  rw [← residual hA hb x, quad_form hC hP]

/-! ### 6. normal equations -/

/-- The gradients of the two objectives coincide (stronger than item 6). -/
theorem normal_residual_eq {C L P : Matrix m m K} {A A' : Matrix m n K} {b b' : m → K}
    (hC : C = L * Lᵀ) (hP : C * P = 1) (hA : L * A' = A) (hb : L *ᵥ b' = b) (x : n → K) :
    A'ᵀ *ᵥ (A' *ᵥ x - b') = Aᵀ *ᵥ (P *ᵥ (A *ᵥ x - b)) := by
  rw [← residual hA hb x, At_P_L_mulVec hC hP hA]

/-- Item 6. -/
theorem normal_equations_iff {C L P : Matrix m m K} {A A' : Matrix m n K} {b b' : m → K}
    (hC : C = L * Lᵀ) (hP : C * P = 1) (hA : L * A' = A) (hb : L *ᵥ b' = b) (x : n → K) :
    A'ᵀ *ᵥ (A' *ᵥ x - b') = 0 ↔ Aᵀ *ᵥ (P *ᵥ (A *ᵥ x - b)) = 0 := by
  rw [normal_residual_eq hC hP hA hb]

/-- Normal equations in matrix form: `(A'ᵀA') x = A'ᵀ b' ↔ (AᵀPA) x = AᵀP b`. -/
theorem normal_system_iff {C L P : Matrix m m K} {A A' : Matrix m n K} {b b' : m → K}
    (hC : C = L * Lᵀ) (hP : C * P = 1) (hA : L * A' = A) (hb : L *ᵥ b' = b) (x : n → K) :
    (A'ᵀ * A') *ᵥ x = A'ᵀ *ᵥ b' ↔ (Aᵀ * P * A) *ᵥ x = Aᵀ *ᵥ (P *ᵥ b) := by
  rw [normal_matrix hC hP hA, normal_rhs hC hP hA hb]

/-! ### 7. minimisers -/

/-- Item 7 (only `≤` is used, so any order on `K` will do). -/
theorem minimiser_iff [LE K] {C L P : Matrix m m K} {A A' : Matrix m n K} {b b' : m → K}
    (hC : C = L * Lᵀ) (hP : C * P = 1) (hA : L * A' = A) (hb : L *ᵥ b' = b) (x : n → K) :
    (∀ y, (A' *ᵥ x - b') ⬝ᵥ (A' *ᵥ x - b') ≤ (A' *ᵥ y - b') ⬝ᵥ (A' *ᵥ y - b')) ↔
    (∀ y, (A *ᵥ x - b) ⬝ᵥ (P *ᵥ (A *ᵥ x - b)) ≤ (A *ᵥ y - b) ⬝ᵥ (P *ᵥ (A *ᵥ y - b))) := by
  simp only [objective hC hP hA hb]

/-! ### 8. uniqueness (and existence) of the whitened data -/

/-- Closed form of the whitened design matrix. -/
theorem whitened_eq {C L P : Matrix m m K} {A A' : Matrix m n K}
    (hC : C = L * Lᵀ) (hP : C * P = 1) (hA : L * A' = A) : A' = Lᵀ * P * A := by
  rw [← hA, ← Matrix.mul_assoc, LtPL_eq_one hC hP, Matrix.one_mul]

/-- Item 8: any two forward substitutions (dense or sparse) give the same matrix. -/
theorem whitened_unique {C L P : Matrix m m K} {A A₁ A₂ : Matrix m n K}
    (hC : C = L * Lᵀ) (hP : C * P = 1) (h₁ : L * A₁ = A) (h₂ : L * A₂ = A) : A₁ = A₂ := by
  rw [whitened_eq hC hP h₁, whitened_eq hC hP h₂]

/-- Closed form of the whitened right-hand side. -/
theorem whitened_vec_eq {C L P : Matrix m m K} {b b' : m → K}
    (hC : C = L * Lᵀ) (hP : C * P = 1) (hb : L *ᵥ b' = b) : b' = (Lᵀ * P) *ᵥ b := by
  rw [← hb, Matrix.mulVec_mulVec, LtPL_eq_one hC hP, Matrix.one_mulVec]

theorem whitened_vec_unique {C L P : Matrix m m K} {b b₁ b₂ : m → K}
    (hC : C = L * Lᵀ) (hP : C * P = 1) (h₁ : L *ᵥ b₁ = b) (h₂ : L *ᵥ b₂ = b) : b₁ = b₂ := by
  rw [whitened_vec_eq hC hP h₁, whitened_vec_eq hC hP h₂]

/-- The whitened data exist. -/
theorem whitened_exists {C L P : Matrix m m K} (A : Matrix m n K) (b : m → K)
    (hC : C = L * Lᵀ) (hP : C * P = 1) :
    L * (Lᵀ * P * A) = A ∧ L *ᵥ ((Lᵀ * P) *ᵥ b) = b := by
  have h := L_mul_LtP_eq_one hC hP
  constructor
  · rw [← Matrix.mul_assoc, h, Matrix.one_mul]
  · rw [Matrix.mulVec_mulVec, h, Matrix.one_mulVec]

/-- The weight matrix is determined by the covariance matrix: `P = C⁻¹`. -/
theorem weight_eq_inv {C P : Matrix m m K} (hP : C * P = 1) : P = C⁻¹ :=
  (Matrix.inv_eq_right_inv hP).symm

/-! ### 9. diagonal covariance matrix = per-observation standard deviations -/

/-- Item 9. -/
theorem diagonal_equals_stdev (σ : m → K) (hσ : ∀ i, σ i ≠ 0) (A : Matrix m n K) (b : m → K) :
    Matrix.diagonal (fun i => σ i ^ 2) = Matrix.diagonal σ * (Matrix.diagonal σ)ᵀ ∧
    Matrix.diagonal (fun i => σ i ^ 2) * Matrix.diagonal (fun i => 1 / σ i ^ 2) = 1 ∧
    Matrix.diagonal σ * Matrix.of (fun i j => A i j / σ i) = A ∧
    Matrix.diagonal σ *ᵥ (fun i => b i / σ i) = b := by
  refine ⟨?_, ?_, ?_, ?_⟩
  · rw [Matrix.diagonal_transpose, Matrix.diagonal_mul_diagonal]
    congr 1; funext i; ring
  · rw [Matrix.diagonal_mul_diagonal, ← Matrix.diagonal_one]
    congr 1; funext i
    have := hσ i
    field_simp
  · ext i j
    rw [Matrix.diagonal_mul, Matrix.of_apply, mul_div_cancel₀ _ (hσ i)]
  · funext i
    rw [Matrix.mulVec_diagonal, mul_div_cancel₀ _ (hσ i)]

/-- With a diagonal covariance matrix the weighted objective is `∑ rᵢ² / σᵢ²`. -/
theorem diagonal_objective (σ : m → K) (r : m → K) :
    r ⬝ᵥ (Matrix.diagonal (fun i => 1 / σ i ^ 2) *ᵥ r) = ∑ i, r i ^ 2 / σ i ^ 2 := by
  simp only [dotProduct, Matrix.mulVec_diagonal]
  refine Finset.sum_congr rfl fun i _ => ?_
  ring

/-! ### 10. block-diagonal covariance matrices: block by block = all at once -/

section Block

variable {o : Type*} [Fintype o] [DecidableEq o]
variable {m' : o → Type*} [∀ k, Fintype (m' k)] [∀ k, DecidableEq (m' k)]

/-- Rows given block by block, stacked into one matrix. -/
def stackRows (Ab : ∀ k, Matrix (m' k) n K) : Matrix (Σ k, m' k) n K :=
  Matrix.of fun ki j => Ab ki.1 ki.2 j

/-- Vectors given block by block, stacked into one vector. -/
def stackVec (bb : ∀ k, m' k → K) : (Σ k, m' k) → K := fun ki => bb ki.1 ki.2

@[simp] theorem stackRows_apply (Ab : ∀ k, Matrix (m' k) n K) (k : o) (i : m' k) (j : n) :
    stackRows Ab ⟨k, i⟩ j = Ab k i j := rfl

@[simp] theorem stackVec_apply (bb : ∀ k, m' k → K) (k : o) (i : m' k) :
    stackVec bb ⟨k, i⟩ = bb k i := rfl

/-- Item 10a: block-wise Cholesky factors form a factor of the block-diagonal matrix. -/
theorem blockwise_factor {Cb Lb : ∀ k, Matrix (m' k) (m' k) K}
    (h : ∀ k, Cb k = Lb k * (Lb k)ᵀ) :
    Matrix.blockDiagonal' Cb = Matrix.blockDiagonal' Lb * (Matrix.blockDiagonal' Lb)ᵀ := by
  rw [Matrix.blockDiagonal'_transpose, ← Matrix.blockDiagonal'_mul]
  congr 1; funext k; exact h k

/-- Block-wise weight matrices form the weight matrix of the block-diagonal matrix. -/
theorem blockwise_weight {Cb Pb : ∀ k, Matrix (m' k) (m' k) K}
    (h : ∀ k, Cb k * Pb k = 1) :
    Matrix.blockDiagonal' Cb * Matrix.blockDiagonal' Pb = 1 := by
  rw [← Matrix.blockDiagonal'_mul, ← Matrix.blockDiagonal'_one]
  congr 1; funext k; exact h k

/-- Block-diagonal times stacked rows = stacked block products. -/
theorem blockDiagonal'_mul_stackRows (Lb : ∀ k, Matrix (m' k) (m' k) K)
    (Ab : ∀ k, Matrix (m' k) n K) :
    Matrix.blockDiagonal' Lb * stackRows Ab = stackRows (fun k => Lb k * Ab k) := by
  ext ⟨k, i⟩ j
  rw [Matrix.mul_apply, Fintype.sum_sigma, stackRows_apply, Matrix.mul_apply]
  rw [Finset.sum_eq_single k]
  · simp only [Matrix.blockDiagonal'_apply_eq, stackRows_apply]
  · intro k' _ hk
    refine Finset.sum_eq_zero fun i' _ => ?_
    rw [Matrix.blockDiagonal'_apply_ne _ _ _ hk.symm, zero_mul]
  · intro hk; exact absurd (Finset.mem_univ k) hk

theorem blockDiagonal'_mulVec_stackVec (Lb : ∀ k, Matrix (m' k) (m' k) K)
    (bb : ∀ k, m' k → K) :
    Matrix.blockDiagonal' Lb *ᵥ stackVec bb = stackVec (fun k => Lb k *ᵥ bb k) := by
  funext ⟨k, i⟩
  rw [Matrix.mulVec, dotProduct, Fintype.sum_sigma, stackVec_apply, Matrix.mulVec, dotProduct]
  rw [Finset.sum_eq_single k]
  · simp only [Matrix.blockDiagonal'_apply_eq, stackVec_apply]
  · intro k' _ hk
    refine Finset.sum_eq_zero fun i' _ => ?_
    rw [Matrix.blockDiagonal'_apply_ne _ _ _ hk.symm, zero_mul]
  · intro hk; exact absurd (Finset.mem_univ k) hk

/-- Item 10b: whitening block by block = whitening with the whole block-diagonal factor. -/
theorem blockwise {Cb Lb : ∀ k, Matrix (m' k) (m' k) K}
    {Ab A'b : ∀ k, Matrix (m' k) n K} {bb b'b : ∀ k, m' k → K}
    (hC : ∀ k, Cb k = Lb k * (Lb k)ᵀ)
    (hA : ∀ k, Lb k * A'b k = Ab k) (hb : ∀ k, Lb k *ᵥ b'b k = bb k) :
    Matrix.blockDiagonal' Cb = Matrix.blockDiagonal' Lb * (Matrix.blockDiagonal' Lb)ᵀ ∧
    Matrix.blockDiagonal' Lb * stackRows A'b = stackRows Ab ∧
    Matrix.blockDiagonal' Lb *ᵥ stackVec b'b = stackVec bb := by
  refine ⟨blockwise_factor hC, ?_, ?_⟩
  · rw [blockDiagonal'_mul_stackRows]; congr 1; funext k; exact hA k
  · rw [blockDiagonal'_mulVec_stackVec]; congr 1; funext k; exact hb k

/-- Consequence: the normal matrix of the whole problem is the sum of the blocks'
    weighted normal matrices, each with its own full covariance block. -/
theorem blockwise_normal_matrix {Cb Lb Pb : ∀ k, Matrix (m' k) (m' k) K}
    {Ab A'b : ∀ k, Matrix (m' k) n K}
    (hC : ∀ k, Cb k = Lb k * (Lb k)ᵀ) (hP : ∀ k, Cb k * Pb k = 1)
    (hA : ∀ k, Lb k * A'b k = Ab k) :
    (stackRows A'b)ᵀ * stackRows A'b
      = (stackRows Ab)ᵀ * Matrix.blockDiagonal' Pb * stackRows Ab :=
  normal_matrix (blockwise_factor hC) (blockwise_weight hP)
    (by rw [blockDiagonal'_mul_stackRows]; congr 1; funext k; exact hA k)

end Block

/-! ### 11. excluded observations: sub-matrix of the covariance matrix -/

section Sub

variable {m₀ : Type*} [Fintype m₀] [DecidableEq m₀]

/-- Item 11: items 2–4 and 6 for the problem restricted to the active rows `e`, whose
    covariance matrix is the sub-matrix `C.submatrix e e`; `P₀` is ITS inverse. -/
theorem submatrix_weight {C : Matrix m m K} (e : m₀ → m)
    {L₀ P₀ : Matrix m₀ m₀ K} {A : Matrix m n K} {A' : Matrix m₀ n K} {b : m → K} {b' : m₀ → K}
    (hC : C.submatrix e e = L₀ * L₀ᵀ) (hP : C.submatrix e e * P₀ = 1)
    (hA : L₀ * A' = A.submatrix e id) (hb : L₀ *ᵥ b' = fun i => b (e i)) :
    A'ᵀ * A' = (A.submatrix e id)ᵀ * P₀ * A.submatrix e id ∧
    A'ᵀ *ᵥ b' = (A.submatrix e id)ᵀ *ᵥ (P₀ *ᵥ fun i => b (e i)) ∧
    (∀ x, (A' *ᵥ x - b') ⬝ᵥ (A' *ᵥ x - b') =
        (A.submatrix e id *ᵥ x - fun i => b (e i)) ⬝ᵥ
          (P₀ *ᵥ (A.submatrix e id *ᵥ x - fun i => b (e i)))) ∧
    (∀ x, A'ᵀ *ᵥ (A' *ᵥ x - b') = 0 ↔
        (A.submatrix e id)ᵀ *ᵥ (P₀ *ᵥ (A.submatrix e id *ᵥ x - fun i => b (e i))) = 0) :=
  ⟨normal_matrix hC hP hA, normal_rhs hC hP hA hb, objective hC hP hA hb,
    normal_equations_iff hC hP hA hb⟩

/-- The residuals of the restricted problem are the active residuals of the full one. -/
theorem submatrix_residual (e : m₀ → m) (A : Matrix m n K) (b : m → K) (x : n → K) :
    (A.submatrix e id *ᵥ x - fun i => b (e i)) = fun i => (A *ᵥ x - b) (e i) := by
  funext i
  simp only [Pi.sub_apply, Matrix.mulVec, dotProduct, Matrix.submatrix_apply, id_eq]

end Sub

/-! ### weighted minimisers are exactly the solutions of the weighted normal equations -/

section Minimum

variable [LinearOrder K] [IsStrictOrderedRing K]

theorem dotProduct_self_nonneg' (v : m → K) : 0 ≤ v ⬝ᵥ v :=
  Finset.sum_nonneg fun i _ => mul_self_nonneg (v i)

/-- Expansion of the unit-weight objective around `x`. -/
theorem objective_expand (A : Matrix m n K) (b : m → K) (x d : n → K) :
    (A *ᵥ (x + d) - b) ⬝ᵥ (A *ᵥ (x + d) - b) =
      (A *ᵥ x - b) ⬝ᵥ (A *ᵥ x - b) + 2 * ((Aᵀ *ᵥ (A *ᵥ x - b)) ⬝ᵥ d)
        + (A *ᵥ d) ⬝ᵥ (A *ᵥ d) := by
  have e : A *ᵥ (x + d) - b = (A *ᵥ x - b) + A *ᵥ d := by
    rw [Matrix.mulVec_add, add_sub_right_comm]
  rw [e, add_dotProduct, dotProduct_add, dotProduct_add, dotProduct_comm (A *ᵥ d) (A *ᵥ x - b),
    Matrix.dotProduct_mulVec, ← Matrix.mulVec_transpose]
  ring

/-- Unit weights: `x` minimises `|A x - b|²` iff it solves the normal equations. -/
theorem unit_minimiser_iff_normal_equations (A : Matrix m n K) (b : m → K) (x : n → K) :
    (∀ y, (A *ᵥ x - b) ⬝ᵥ (A *ᵥ x - b) ≤ (A *ᵥ y - b) ⬝ᵥ (A *ᵥ y - b)) ↔
      Aᵀ *ᵥ (A *ᵥ x - b) = 0 := by
  constructor
  · intro h
    set g := Aᵀ *ᵥ (A *ᵥ x - b) with hg
    set q := g ⬝ᵥ g with hq
    set s := (A *ᵥ g) ⬝ᵥ (A *ᵥ g) with hs
    have key : ∀ t : K, 0 ≤ -(2 * t * q) + t ^ 2 * s := by
      intro t
      have h1 := h (x + (-t) • g)
      rw [objective_expand, ← hg] at h1
      simp only [Matrix.mulVec_smul, dotProduct_smul, smul_dotProduct, smul_eq_mul,
        ← hq, ← hs] at h1
      nlinarith [h1]
    by_contra hne
    have hq0 : 0 < q :=
      lt_of_le_of_ne (dotProduct_self_nonneg' g) (Ne.symm (mt dotProduct_self_eq_zero.mp hne))
    have hs0 : 0 ≤ s := dotProduct_self_nonneg' _
    rcases hs0.eq_or_lt with hs1 | hs1
    · have h1 := key 1
      rw [← hs1] at h1
      linarith
    · have h1 := key (q / s)
      have e : -(2 * (q / s) * q) + (q / s) ^ 2 * s = -(q ^ 2 / s) := by
        field_simp
        ring
      have hpos : 0 < q ^ 2 / s := div_pos (pow_pos hq0 2) hs1
      rw [e] at h1
      linarith
  · intro h y
    have e := objective_expand A b x (y - x)
    rw [add_sub_cancel, h, zero_dotProduct, mul_zero, add_zero] at e
    rw [e]
    exact le_add_of_nonneg_right (dotProduct_self_nonneg' _)

/-- Full-covariance weights: if `C = L Lᵀ` and `P = C⁻¹`, then `x` minimises
    `(A x - b)ᵀ P (A x - b)` iff it solves `Aᵀ P (A x - b) = 0`.
    (Proved THROUGH the whitened problem, which exists by `whitened_exists`.) -/
theorem weighted_minimiser_iff_normal_equations {C L P : Matrix m m K}
    (hC : C = L * Lᵀ) (hP : C * P = 1) (A : Matrix m n K) (b : m → K) (x : n → K) :
    (∀ y, (A *ᵥ x - b) ⬝ᵥ (P *ᵥ (A *ᵥ x - b)) ≤ (A *ᵥ y - b) ⬝ᵥ (P *ᵥ (A *ᵥ y - b))) ↔
      Aᵀ *ᵥ (P *ᵥ (A *ᵥ x - b)) = 0 := by
  obtain ⟨hA, hb⟩ := whitened_exists A b hC hP
  rw [← minimiser_iff hC hP hA hb, ← normal_equations_iff hC hP hA hb]
  exact unit_minimiser_iff_normal_equations _ _ x

/-- The weighted objective is non-negative (`P` is positive semidefinite on residuals). -/
theorem weighted_objective_nonneg {C L P : Matrix m m K}
    (hC : C = L * Lᵀ) (hP : C * P = 1) (r : m → K) : 0 ≤ r ⬝ᵥ (P *ᵥ r) := by
  obtain ⟨-, hr⟩ := whitened_exists (n := m) 0 r hC hP
  rw [← hr, quad_form hC hP]
  exact dotProduct_self_nonneg' _

/-- … and vanishes only for `r = 0` (`P` is positive definite). -/
theorem weighted_objective_eq_zero_iff {C L P : Matrix m m K}
    (hC : C = L * Lᵀ) (hP : C * P = 1) (r : m → K) : r ⬝ᵥ (P *ᵥ r) = 0 ↔ r = 0 := by
  obtain ⟨-, hr⟩ := whitened_exists (n := m) 0 r hC hP
  constructor
  · intro h
    rw [← hr, quad_form hC hP, dotProduct_self_eq_zero] at h
    rw [← hr, h, Matrix.mulVec_zero]
  · rintro rfl
    rw [Matrix.mulVec_zero, dotProduct_zero]

end Minimum

/-! ### non-vacuity and the sub-matrix counterexample -/

section Examples

/-- Concrete 2×2 instance: `C = [[4,2],[2,5]] = L Lᵀ`, `L = [[2,0],[1,2]]`. -/
example :
    let C : Matrix (Fin 2) (Fin 2) ℚ := !![4, 2; 2, 5]
    let L : Matrix (Fin 2) (Fin 2) ℚ := !![2, 0; 1, 2]
    let P : Matrix (Fin 2) (Fin 2) ℚ := !![5/16, -1/8; -1/8, 1/4]
    let A : Matrix (Fin 2) (Fin 2) ℚ := !![2, 4; 3, 4]
    let A' : Matrix (Fin 2) (Fin 2) ℚ := !![1, 2; 1, 1]
    let b : Fin 2 → ℚ := ![6, 7]
    let b' : Fin 2 → ℚ := ![3, 2]
    C = L * Lᵀ ∧ C * P = 1 ∧ L * A' = A ∧ L *ᵥ b' = b := by
  intro C L P A A' b b'
  refine ⟨?_, ?_, ?_, ?_⟩
  · ext i j; fin_cases i <;> fin_cases j <;> simp [C, L, Matrix.mul_apply, Fin.sum_univ_two]
      <;> norm_num
  · ext i j; fin_cases i <;> fin_cases j <;>
      simp [C, P, Matrix.mul_apply, Fin.sum_univ_two] <;> norm_num
  · ext i j; fin_cases i <;> fin_cases j <;> simp [L, A, A', Matrix.mul_apply, Fin.sum_univ_two]
      <;> norm_num
  · funext i; fin_cases i <;> simp [L, b, b', Matrix.mulVec, dotProduct, Fin.sum_univ_two]
      <;> norm_num

/-- The theorems applied to that instance (hypotheses are jointly satisfiable and the
    conclusions are non-trivial: `A'ᵀA' = [[2,3],[3,5]]`). -/
example :
    (!![1, 2; 1, 1] : Matrix (Fin 2) (Fin 2) ℚ)ᵀ * !![1, 2; 1, 1]
      = (!![2, 4; 3, 4] : Matrix (Fin 2) (Fin 2) ℚ)ᵀ * !![5/16, -1/8; -1/8, 1/4] * !![2, 4; 3, 4] :=
  normal_matrix (C := !![4, 2; 2, 5]) (L := !![2, 0; 1, 2])
    (by ext i j; fin_cases i <;> fin_cases j <;> simp [Matrix.mul_apply, Fin.sum_univ_two]
          <;> norm_num)
    (by ext i j; fin_cases i <;> fin_cases j <;> simp [Matrix.mul_apply, Fin.sum_univ_two]
          <;> norm_num)
    (by ext i j; fin_cases i <;> fin_cases j <;> simp [Matrix.mul_apply, Fin.sum_univ_two]
          <;> norm_num)

/-- 3×3 instance with a fully populated covariance matrix:
    `L = [[1,0,0],[2,1,0],[-1,3,2]]`, `C = L Lᵀ`, `P = C⁻¹`. -/
example :
    let L : Matrix (Fin 3) (Fin 3) ℚ := !![1, 0, 0; 2, 1, 0; -1, 3, 2]
    let C : Matrix (Fin 3) (Fin 3) ℚ := !![1, 2, -1; 2, 5, 1; -1, 1, 14]
    let P : Matrix (Fin 3) (Fin 3) ℚ := !![69/4, -29/4, 7/4; -29/4, 13/4, -3/4; 7/4, -3/4, 1/4]
    let A' : Matrix (Fin 3) (Fin 2) ℚ := !![1, 0; 0, 1; 1, 1]
    let A : Matrix (Fin 3) (Fin 2) ℚ := !![1, 0; 2, 1; 1, 5]
    let b' : Fin 3 → ℚ := ![1, 2, 3]
    let b : Fin 3 → ℚ := ![1, 4, 11]
    C = L * Lᵀ ∧ C * P = 1 ∧ L * A' = A ∧ L *ᵥ b' = b := by
  intro L C P A' A b' b
  refine ⟨?_, ?_, ?_, ?_⟩
  · ext i j; fin_cases i <;> fin_cases j <;>
      simp [C, L, Matrix.mul_apply, Fin.sum_univ_three] <;> norm_num
  · ext i j; fin_cases i <;> fin_cases j <;>
      simp [C, P, Matrix.mul_apply, Fin.sum_univ_three] <;> norm_num
  · ext i j; fin_cases i <;> fin_cases j <;>
      simp [L, A, A', Matrix.mul_apply, Fin.sum_univ_three] <;> norm_num
  · funext i; fin_cases i <;>
      simp [L, b, b', Matrix.mulVec, dotProduct, Fin.sum_univ_three] <;> norm_num

/-- Item 9 instance: `σ = (2, 3)`; weights are `1/4`, `1/9`. -/
example :
    Matrix.diagonal (fun i => (![2, 3] : Fin 2 → ℚ) i ^ 2)
        * Matrix.diagonal (fun i => 1 / (![2, 3] : Fin 2 → ℚ) i ^ 2) = 1 ∧
      Matrix.diagonal (![2, 3] : Fin 2 → ℚ) *ᵥ (fun i => (![6, 6] : Fin 2 → ℚ) i / ![2, 3] i)
        = ![6, 6] :=
  have hσ : ∀ i, (![2, 3] : Fin 2 → ℚ) i ≠ 0 := by intro i; fin_cases i <;> simp
  let h := diagonal_equals_stdev (n := Fin 1) (![2, 3] : Fin 2 → ℚ) hσ 0 ![6, 6]
  ⟨h.2.1, h.2.2.2⟩

/-- Item 11 (stretch): the inverse of the sub-matrix of the covariance matrix is NOT the
    sub-matrix of the weight matrix.  `C = [[2,1],[1,2]]`, active row `0` only:
    `(C₀₀)⁻¹ = 1/2` but `(C⁻¹)₀₀ = 2/3`.  So excluding an observation by taking the
    sub-matrix of the WEIGHT matrix would be wrong. -/
example :
    ((!![2, 1; 1, 2] : Matrix (Fin 2) (Fin 2) ℚ).submatrix (fun _ : Fin 1 => 0)
        (fun _ : Fin 1 => 0))⁻¹
      ≠ ((!![2, 1; 1, 2] : Matrix (Fin 2) (Fin 2) ℚ)⁻¹).submatrix (fun _ : Fin 1 => 0)
          (fun _ : Fin 1 => 0) := by
  have h1 : (!![2, 1; 1, 2] : Matrix (Fin 2) (Fin 2) ℚ)⁻¹ = !![2/3, -1/3; -1/3, 2/3] :=
    Matrix.inv_eq_right_inv (by
      ext i j; fin_cases i <;> fin_cases j <;> simp [Matrix.mul_apply, Fin.sum_univ_two]
        <;> norm_num)
  have h2 : ((!![2, 1; 1, 2] : Matrix (Fin 2) (Fin 2) ℚ).submatrix (fun _ : Fin 1 => 0)
      (fun _ : Fin 1 => 0))⁻¹ = Matrix.of (fun _ _ => (1/2 : ℚ)) :=
    Matrix.inv_eq_right_inv (by
      ext i j; fin_cases i; fin_cases j; simp [Matrix.mul_apply])
  intro h
  have h3 := congrFun (congrFun h 0) 0
  rw [h1, h2] at h3
  norm_num [Matrix.submatrix_apply, Matrix.of_apply] at h3

/-- Same counterexample phrased with the model's hypotheses (`C * P = 1`, no `⁻¹`). -/
example : ∃ (C P : Matrix (Fin 2) (Fin 2) ℚ) (P₀ : Matrix (Fin 1) (Fin 1) ℚ),
    C * P = 1 ∧ C.submatrix (fun _ => 0) (fun _ => 0) * P₀ = 1 ∧
      P₀ ≠ P.submatrix (fun _ => 0) (fun _ => 0) := by
  refine ⟨!![2, 1; 1, 2], !![2/3, -1/3; -1/3, 2/3], Matrix.of (fun _ _ => 1/2), ?_, ?_, ?_⟩
  · ext i j; fin_cases i <;> fin_cases j <;> simp [Matrix.mul_apply, Fin.sum_univ_two]
      <;> norm_num
  · ext i j; fin_cases i; fin_cases j; simp [Matrix.mul_apply]
  · intro h
    have h3 := congrFun (congrFun h 0) 0
    norm_num [Matrix.submatrix_apply, Matrix.of_apply] at h3

/-- Block instance for item 10 with genuinely dependent block sizes (1 and 2):
    lower-triangular `Lb k` with non-zero diagonal, `Cb`, `Ab`, `bb` built from them. -/
example :
    let Lb : ∀ k : Fin 2, Matrix (Fin (k.val + 1)) (Fin (k.val + 1)) ℚ :=
      fun _ => Matrix.of fun i j => if j ≤ i then (i.val + j.val + 1 : ℚ) else 0
    let A'b : ∀ k : Fin 2, Matrix (Fin (k.val + 1)) (Fin 2) ℚ :=
      fun k => Matrix.of fun i j => (k.val + i.val + 2 * j.val : ℚ)
    let b'b : ∀ k : Fin 2, Fin (k.val + 1) → ℚ := fun k i => (k.val - i.val : ℚ)
    Matrix.blockDiagonal' (fun k => Lb k * (Lb k)ᵀ)
        = Matrix.blockDiagonal' Lb * (Matrix.blockDiagonal' Lb)ᵀ ∧
      Matrix.blockDiagonal' Lb * stackRows A'b = stackRows (fun k => Lb k * A'b k) ∧
      Matrix.blockDiagonal' Lb *ᵥ stackVec b'b = stackVec (fun k => Lb k *ᵥ b'b k) := by
  intro Lb A'b b'b
  exact blockwise (fun _ => rfl) (fun _ => rfl) (fun _ => rfl)

end Examples

end Gama.Cov.Whiten
