/-
  C06 — "consistent observations reproduce the network": the true coordinates are a fixed point of the
  iterated linearisation, as a COMPOSITION of

    * C05's generated linearisation, one whole pass of `project_equations` (`Lin.passFrom`, Gama/Model/LinPass.lean),
      with the per-type fixed-point lemmas of Gama/Lemmas/C06Fix.lean         ⇒  b = 0 for the whole pass   (§1)
    * C01's specification `LS.IsLSSolution A b P S x v rtr` (what each of the four solver models is proved
      to return)                                                               ⇒  v = 0, rtr = 0, x = 0      (§2)
    * the C06 model of `refine_approx_coordinates` / `TestLinearization` (Gama/Model/GaussNewton.lean)
                                                                               ⇒  nothing moves, no further
                                                                                  iteration is requested     (§3)
    * §4 puts them together, §5 are the non-vacuity examples.

  It replaces the trivial `C06_fixed_point_normal_equations` (`Aᵀ P (A·0 − 0) = 0`): here x = 0 is not *a* solution
  of the normal equations but *the* output of every solver that satisfies C01's specification.
-/
import Gama.Lemmas.C06Fix
import Gama.Lemmas.C06GN
import Gama.Lemmas.LinAssemble
import Gama.Lemmas.LinExamples
import Gama.Lemmas.LS.Solution
namespace Gama.C06FP
open Gama Gama.Lin Gama.LS Gama.GN Gama.C06L Gama.C06R Matrix Finset Real

/-! ## §1 the whole pass: every absolute term is 0 -/

/-- the observation equals its function of the coordinates it reads — per class exactly the hypothesis of the
    matching `fix_*` lemma of Gama/Lemmas/C06Fix.lean (the generated linearisation's own comparison value) -/
def ExactView : Kind → Obs ℝ → Prop
  | .distance, o => ¬ hdist o < CUT ∧ o.value = hdist o
  | .direction, o => ¬ hdist o < CUT ∧ ∃ k : ℤ, o.value + o.orientation = brg (dX o) (dY o) + 2 * π * k
  | .azimuth, o => ¬ hdist o < CUT ∧ ∃ k : ℤ, o.value + o.xNorth = brg (dX o) (dY o) + 2 * π * k
  | .angle, o => ¬ hdist o < CUT ∧ ¬ hdist2 o < CUT ∧ o.value = angleBsFs o
  | .s_distance, o => o.value = sdist o
  | .z_angle, o => o.value = zenithComputed o
  | .h_diff, o => o.value = dZ o
  | .zdiff, o => o.value = dZ o
  | .xdiff, o => o.value = dX o
  | .ydiff, o => o.value = dY o
  | .x, o => o.value = fromX o
  | .y, o => o.value = fromY o
  | .z, o => o.value = fromZ o

/-- the observation `ob` of the network `σ` is exact: `ExactView` of the record the linearisation reads -/
def ExactObs (σ : Net ℝ) (ob : NObs ℝ) : Prop := ExactView ob.kind (σ.view ob)

/-- one class: an exact observation has absolute term 0 (all 13 classes of `LocalLinearization`) -/
theorem lin_rhs_zero (k : Kind) (fuel : Nat) (o : Obs ℝ) (out : LinOut ℝ) (h : ExactView k o)
    (hok : k.lin fuel o = .ok out) : out.rhs = 0 := by
  have lin : ∀ {f : Nat → Obs ℝ → Except LinErr (LinOut ℝ)}, f fuel o = .ok out →
      (∃ out', f fuel o = .ok out' ∧ out'.rhs = 0) → out.rhs = 0 := by
    intro f h1 ⟨out', h2, h3⟩
    rw [h1] at h2; injection h2 with h2; rw [h2]; exact h3
  obtain ⟨l1, l2, l3, l4, l5, l6, l7⟩ := fix_linear fuel o
  cases k with
  | distance => exact fix_distance fuel o out h.1 h.2 hok
  | direction => obtain ⟨hc, k, hk⟩ := h; exact fix_direction fuel o out hc k hk hok
  | azimuth => obtain ⟨hc, k, hk⟩ := h; exact fix_azimuth fuel o out hc k hk hok
  | angle => exact fix_angle fuel o out h.1 h.2.1 h.2.2 hok
  | s_distance => exact fix_s_distance fuel o out h hok
  | z_angle => exact fix_z_angle fuel o out h hok
  | h_diff => exact lin hok (l1 h)
  | zdiff => exact lin hok (l2 h)
  | xdiff => exact lin hok (l3 h)
  | ydiff => exact lin hok (l4 h)
  | x => exact lin hok (l5 h)
  | y => exact lin hok (l6 h)
  | z => exact lin hok (l7 h)

/-- **b = 0 for the WHOLE pass**: if every observation of `revised_obs_` is exact and the pass of
    `project_equations` succeeds, the right-hand side it assembles is the zero vector of length `obs.length`
    (any starting index state, any fuel, any number and mixture of observations) -/
theorem pass_rhs_zero (σ : Net ℝ) (fuel : Nat) (obs : List (NObs ℝ)) :
    ∀ (s : IdxState) (res : PassOut ℝ), (∀ ob ∈ obs, ExactObs σ ob) → passFrom σ fuel obs s = .ok res →
      res.rhs = List.replicate obs.length 0 := by
  induction obs with
  | nil => intro s res _ hp; simp only [passFrom] at hp; injection hp with hp; subst hp; rfl
  | cons ob t ih =>
    intro s res hex hp
    obtain ⟨out, r, ho, hr, rfl⟩ := passFrom_cons hp
    have h0 : out.rhs = 0 := lin_rhs_zero ob.kind fuel (σ.view ob) out (hex ob List.mem_cons_self) ho
    have ht := ih _ r (fun o ho => hex o (List.mem_cons_of_mem _ ho)) hr
    simp [h0, ht, List.replicate_succ]

/-- the same, element-wise -/
theorem pass_rhs_all_zero (σ : Net ℝ) (fuel : Nat) (obs : List (NObs ℝ)) (s : IdxState) (res : PassOut ℝ)
    (hex : ∀ ob ∈ obs, ExactObs σ ob) (hp : passFrom σ fuel obs s = .ok res) : ∀ b ∈ res.rhs, b = 0 := by
  rw [pass_rhs_zero σ fuel obs s res hex hp]
  intro b hb; exact (List.mem_replicate.1 hb).2

/-- the vector `b` the solver receives (row `i` ↦ `rhs(i+1)`) is the zero vector -/
theorem pass_rhs_vec_zero (σ : Net ℝ) (fuel : Nat) (obs : List (NObs ℝ)) (s : IdxState) (res : PassOut ℝ)
    (hex : ∀ ob ∈ obs, ExactObs σ ob) (hp : passFrom σ fuel obs s = .ok res) {m : ℕ} :
    (fun i : Fin m => res.rhs.getD i.val 0) = 0 := by
  funext i
  rw [pass_rhs_zero σ fuel obs s res hex hp]
  simp only [List.getD_eq_getElem?_getD, List.getElem?_replicate, Pi.zero_apply]
  split <;> rfl

/-! ## §2 least squares with b = 0 -/

section LSzero
variable {𝕜 : Type*} [Field 𝕜] [LinearOrder 𝕜] [IsStrictOrderedRing 𝕜]
variable {m n : Type*} [Fintype m] [Fintype n]
variable {A : Matrix m n 𝕜} {P : Matrix m m 𝕜} {S : Finset n} {x : n → 𝕜} {v : m → 𝕜} {rtr : 𝕜}

/-- with `b = 0` and `P` positive definite, ANY `IsLSSolution` (regular or singular, any `S`) has
    `A x = 0`, `v = 0`, `rtr = 0`, and `x` vanishes on the regularised coordinates `S` -/
theorem ls_solution_of_zero_rhs (h : IsLSSolution A 0 P S x v rtr) (hpd : ∀ d, d ≠ 0 → 0 < d ⬝ᵥ P *ᵥ d) :
    A *ᵥ x = 0 ∧ v = 0 ∧ rtr = 0 ∧ ∀ i ∈ S, x i = 0 := by
  have hv : v = A *ᵥ x := by rw [h.res, sub_zero]
  have hAx : A *ᵥ x = 0 := mulVec_eq_zero_of_normal hpd (by rw [← hv]; exact h.normal)
  have hv0 : v = 0 := by rw [hv, hAx]
  refine ⟨hAx, hv0, by rw [h.rtr_eq, hv0, zero_dotProduct], ?_⟩
  exact normS_eq_zero (S := S) (x := x) (h.orth x hAx)

/-- … and if `S` resolves the defect of `A` (a kernel vector vanishing on `S` is zero — what the datum
    of a free network has to do), then `x = 0` -/
theorem ls_solution_of_zero_rhs_resolves (h : IsLSSolution A 0 P S x v rtr)
    (hpd : ∀ d, d ≠ 0 → 0 < d ⬝ᵥ P *ᵥ d) (hS : Resolves A S) : x = 0 ∧ v = 0 ∧ rtr = 0 := by
  obtain ⟨hAx, hv, hr, hx⟩ := ls_solution_of_zero_rhs h hpd
  exact ⟨hS x hAx hx, hv, hr⟩

/-- (a) regular case: `A` has trivial kernel -/
theorem ls_solution_of_zero_rhs_regular (h : IsLSSolution A 0 P S x v rtr)
    (hpd : ∀ d, d ≠ 0 → 0 < d ⬝ᵥ P *ᵥ d) (hker : ∀ g, A *ᵥ g = 0 → g = 0) : x = 0 ∧ v = 0 ∧ rtr = 0 :=
  ls_solution_of_zero_rhs_resolves h hpd (resolves_of_ker_trivial hker S)

/-- (b) singular case, all unknowns regularised -/
theorem ls_solution_of_zero_rhs_univ (h : IsLSSolution A 0 P Finset.univ x v rtr)
    (hpd : ∀ d, d ≠ 0 → 0 < d ⬝ᵥ P *ᵥ d) : x = 0 ∧ v = 0 ∧ rtr = 0 :=
  ls_solution_of_zero_rhs_resolves h hpd resolves_univ

omit [LinearOrder 𝕜] [IsStrictOrderedRing 𝕜] in
/-- existence (so the statements above are not vacuous): `x = 0, v = 0, rtr = 0` IS a solution for `b = 0`,
    whatever `A`, `P`, `S` -/
theorem zero_isLSSolution (A : Matrix m n 𝕜) (P : Matrix m m 𝕜) (S : Finset n) :
    IsLSSolution A 0 P S 0 0 0 where
  res := by simp
  normal := by simp
  rtr_eq := by simp
  orth := by intro g _; simp

end LSzero

/-! ## §3 `refine_approx_coordinates` with a zero solution moves nothing -/

theorem step_zero (x : List ℝ) (hx : ∀ i, xAt x i = 0) (i : ℕ) (u : GN.Unk) (st : St ℝ) : step x i u st = st := by
  have hp := Real.pi_ne_zero
  cases u with
  | X p =>
    simp only [step, hx, thousand_eq, zero_div, add_zero]
    cases st with
    | mk pts ori =>
      congr 1; funext q
      by_cases hq : q = p
      · subst hq; simp
      · simp [hq]
  | Y p => rfl
  | Z p =>
    simp only [step, hx, thousand_eq, zero_div, add_zero]
    cases st with
    | mk pts ori =>
      congr 1; funext q
      by_cases hq : q = p
      · subst hq; simp
      · simp [hq]
  | R s =>
    simp only [step, hx, div_eq, mul_eq, pi_eq, twoHundred_eq, tenThousand_eq, zero_div, add_zero]
    cases st with
    | mk pts ori =>
      congr 1; funext q
      by_cases hq : q = s
      · subst hq; simp only [if_true]; field_simp
      · simp [hq]

theorem refineFrom_zero (x : List ℝ) (hx : ∀ i, xAt x i = 0) (us : List GN.Unk) :
    ∀ (i : ℕ) (st : St ℝ), refineFrom x i us st = st := by
  induction us with
  | nil => intro i st; rfl
  | cons u us ih => intro i st; unfold refineFrom; rw [step_zero x hx, ih]

/-- `refine_approx_coordinates` with the zero solution: the whole state (all coordinates, all orientations)
    is unchanged — including the orientation update `(ori*200/π + 0/10000)*π/200` -/
theorem refine_zero (x : List ℝ) (hx : ∀ i, xAt x i = 0) (unks : List GN.Unk) (st : St ℝ) :
    refine x unks st = st := refineFrom_zero x hx unks 1 st

theorem refine_zero_pts_ori (x : List ℝ) (hx : ∀ i, xAt x i = 0) (unks : List GN.Unk) (st : St ℝ) :
    (∀ p, (refine x unks st).pts p = st.pts p) ∧ (∀ s, (refine x unks st).ori s = st.ori s) := by
  rw [refine_zero x hx]; exact ⟨fun _ => rfl, fun _ => rfl⟩

theorem xAt_replicate_zero (n i : ℕ) : xAt (List.replicate n (0 : ℝ)) i = 0 := by
  simp only [xAt, List.getD_eq_getElem?_getD, List.getElem?_replicate]
  split <;> rfl

/-- the solver's vector as the list `refine` reads -/
theorem xAt_ofFn_zero {n : ℕ} (x : Fin n → ℝ) (hx : x = 0) (i : ℕ) : xAt (List.ofFn x) i = 0 := by
  subst hx
  have : List.ofFn (0 : Fin n → ℝ) = List.replicate n 0 := by
    apply List.ext_getElem <;> simp
  rw [this]; exact xAt_replicate_zero n i

/-- the stopping test on misclosures that are all 0 does not ask for another iteration -/
theorem testLin_all_zero (pols : List ℝ) (h : ∀ p ∈ pols, p = 0) : testLin pols = false := by
  have : pols = List.replicate pols.length 0 := List.eq_replicate_iff.2 ⟨rfl, h⟩
  rw [this]; exact testLin_zeros _

/-! ## §4 composition -/

/-- **the true coordinates are a fixed point of the iteration.**
    Network `σ`, observations all exact, one successful pass of `project_equations` giving `res`;
    ANY design matrix `A` with `m` rows and `n` columns, `b` = the right-hand side of the pass, `P` positive
    definite, and ANY `(x, v, rtr)` that satisfies C01's specification for a regularisation subset `S` that
    resolves the defect of `A` (what envelope / gso / svd / cholesky are proved to return).  Then
    the residuals and their weighted sum of squares are 0, the corrections are 0, the stopping test on
    all-zero misclosures does not ask for another iteration, and `refine_approx_coordinates` leaves every
    coordinate and orientation as it was. -/
theorem true_coordinates_are_a_fixed_point_of_the_iteration
    (σ : Net ℝ) (fuel : Nat) (obs : List (NObs ℝ)) (s : IdxState) (res : PassOut ℝ)
    (hex : ∀ ob ∈ obs, ExactObs σ ob) (hp : passFrom σ fuel obs s = .ok res)
    {m n : ℕ} (A : Matrix (Fin m) (Fin n) ℝ) (P : Matrix (Fin m) (Fin m) ℝ) (S : Finset (Fin n))
    (hpd : ∀ d, d ≠ 0 → 0 < d ⬝ᵥ P *ᵥ d) (hS : Resolves A S)
    (x : Fin n → ℝ) (v : Fin m → ℝ) (rtr : ℝ)
    (hls : IsLSSolution A (fun i : Fin m => res.rhs.getD i.val 0) P S x v rtr)
    (pols : List ℝ) (hpols : ∀ p ∈ pols, p = 0) (unks : List GN.Unk) (st : St ℝ) :
    res.rhs = List.replicate obs.length 0 ∧ x = 0 ∧ v = 0 ∧ rtr = 0 ∧ testLin pols = false ∧
      refine (List.ofFn x) unks st = st ∧
      (∀ p, (refine (List.ofFn x) unks st).pts p = st.pts p) ∧
      (∀ q, (refine (List.ofFn x) unks st).ori q = st.ori q) := by
  rw [pass_rhs_vec_zero σ fuel obs s res hex hp] at hls
  obtain ⟨hx, hv, hr⟩ := ls_solution_of_zero_rhs_resolves hls hpd hS
  have hz := refine_zero (List.ofFn x) (xAt_ofFn_zero x hx) unks st
  exact ⟨pass_rhs_zero σ fuel obs s res hex hp, hx, hv, hr, testLin_all_zero pols hpols, hz,
    by rw [hz]; exact fun _ => rfl, by rw [hz]; exact fun _ => rfl⟩

/-- regular case: the design matrix has trivial kernel (fixed / constrained network) -/
theorem true_coordinates_fixed_point_regular
    (σ : Net ℝ) (fuel : Nat) (obs : List (NObs ℝ)) (s : IdxState) (res : PassOut ℝ)
    (hex : ∀ ob ∈ obs, ExactObs σ ob) (hp : passFrom σ fuel obs s = .ok res)
    {m n : ℕ} (A : Matrix (Fin m) (Fin n) ℝ) (P : Matrix (Fin m) (Fin m) ℝ) (S : Finset (Fin n))
    (hpd : ∀ d, d ≠ 0 → 0 < d ⬝ᵥ P *ᵥ d) (hker : ∀ g, A *ᵥ g = 0 → g = 0)
    (x : Fin n → ℝ) (v : Fin m → ℝ) (rtr : ℝ)
    (hls : IsLSSolution A (fun i : Fin m => res.rhs.getD i.val 0) P S x v rtr)
    (pols : List ℝ) (hpols : ∀ p ∈ pols, p = 0) (unks : List GN.Unk) (st : St ℝ) :
    res.rhs = List.replicate obs.length 0 ∧ x = 0 ∧ v = 0 ∧ rtr = 0 ∧ testLin pols = false ∧
      refine (List.ofFn x) unks st = st ∧
      (∀ p, (refine (List.ofFn x) unks st).pts p = st.pts p) ∧
      (∀ q, (refine (List.ofFn x) unks st).ori q = st.ori q) :=
  true_coordinates_are_a_fixed_point_of_the_iteration σ fuel obs s res hex hp A P S hpd
    (resolves_of_ker_trivial hker S) x v rtr hls pols hpols unks st

/-- singular case (free network), all unknowns regularised -/
theorem true_coordinates_fixed_point_singular
    (σ : Net ℝ) (fuel : Nat) (obs : List (NObs ℝ)) (s : IdxState) (res : PassOut ℝ)
    (hex : ∀ ob ∈ obs, ExactObs σ ob) (hp : passFrom σ fuel obs s = .ok res)
    {m n : ℕ} (A : Matrix (Fin m) (Fin n) ℝ) (P : Matrix (Fin m) (Fin m) ℝ)
    (hpd : ∀ d, d ≠ 0 → 0 < d ⬝ᵥ P *ᵥ d)
    (x : Fin n → ℝ) (v : Fin m → ℝ) (rtr : ℝ)
    (hls : IsLSSolution A (fun i : Fin m => res.rhs.getD i.val 0) P Finset.univ x v rtr)
    (pols : List ℝ) (hpols : ∀ p ∈ pols, p = 0) (unks : List GN.Unk) (st : St ℝ) :
    res.rhs = List.replicate obs.length 0 ∧ x = 0 ∧ v = 0 ∧ rtr = 0 ∧ testLin pols = false ∧
      refine (List.ofFn x) unks st = st ∧
      (∀ p, (refine (List.ofFn x) unks st).pts p = st.pts p) ∧
      (∀ q, (refine (List.ofFn x) unks st).ori q = st.ori q) :=
  true_coordinates_are_a_fixed_point_of_the_iteration σ fuel obs s res hex hp A P Finset.univ hpd
    resolves_univ x v rtr hls pols hpols unks st

/-- singular case, ANY regularisation subset `S` (even one that does not resolve the defect): everything
    except `x = 0` still holds, and `x` vanishes on `S` and lies in the kernel of `A` -/
theorem true_coordinates_fixed_point_any_subset
    (σ : Net ℝ) (fuel : Nat) (obs : List (NObs ℝ)) (s : IdxState) (res : PassOut ℝ)
    (hex : ∀ ob ∈ obs, ExactObs σ ob) (hp : passFrom σ fuel obs s = .ok res)
    {m n : ℕ} (A : Matrix (Fin m) (Fin n) ℝ) (P : Matrix (Fin m) (Fin m) ℝ) (S : Finset (Fin n))
    (hpd : ∀ d, d ≠ 0 → 0 < d ⬝ᵥ P *ᵥ d)
    (x : Fin n → ℝ) (v : Fin m → ℝ) (rtr : ℝ)
    (hls : IsLSSolution A (fun i : Fin m => res.rhs.getD i.val 0) P S x v rtr) :
    res.rhs = List.replicate obs.length 0 ∧ A *ᵥ x = 0 ∧ v = 0 ∧ rtr = 0 ∧ ∀ i ∈ S, x i = 0 := by
  rw [pass_rhs_vec_zero σ fuel obs s res hex hp] at hls
  exact ⟨pass_rhs_zero σ fuel obs s res hex hp, ls_solution_of_zero_rhs hls hpd⟩

/-- the design matrix the code itself assembles from the pass (`codeMatrix`, column `j+1` = unknown `j+1`) -/
noncomputable def passMatrix (res : PassOut ℝ) (m : ℕ) : Matrix (Fin m) (Fin res.idx.maxn) ℝ :=
  Matrix.of fun i j => codeMatrix res.rows i.val (j.val + 1)

/-- the composition instantiated with the matrix and the right-hand side of the SAME pass -/
theorem true_coordinates_fixed_point_codeMatrix
    (σ : Net ℝ) (fuel : Nat) (obs : List (NObs ℝ)) (s : IdxState) (res : PassOut ℝ)
    (hex : ∀ ob ∈ obs, ExactObs σ ob) (hp : passFrom σ fuel obs s = .ok res)
    (P : Matrix (Fin obs.length) (Fin obs.length) ℝ) (S : Finset (Fin res.idx.maxn))
    (hpd : ∀ d, d ≠ 0 → 0 < d ⬝ᵥ P *ᵥ d) (hS : Resolves (passMatrix res obs.length) S)
    (x : Fin res.idx.maxn → ℝ) (v : Fin obs.length → ℝ) (rtr : ℝ)
    (hls : IsLSSolution (passMatrix res obs.length) (fun i : Fin obs.length => res.rhs.getD i.val 0) P S x v rtr)
    (pols : List ℝ) (hpols : ∀ p ∈ pols, p = 0) (unks : List GN.Unk) (st : St ℝ) :
    x = 0 ∧ v = 0 ∧ rtr = 0 ∧ testLin pols = false ∧ refine (List.ofFn x) unks st = st :=
  have h := true_coordinates_are_a_fixed_point_of_the_iteration σ fuel obs s res hex hp
    (passMatrix res obs.length) P S hpd hS x v rtr hls pols hpols unks st
  ⟨h.2.1, h.2.2.1, h.2.2.2.1, h.2.2.2.2.1, h.2.2.2.2.2.1⟩

/-! ## §5 non-vacuity -/

/-- two exact observations on C05's example network (points 7 = (0,0,0) and 8 = (3,4,0)):
    a height difference 0 and the 5 m distance -/
noncomputable def exactObs : List (NObs ℝ) := [⟨.h_diff, 0, 7, 8, 0, 0⟩, ⟨.distance, 0, 7, 8, 0, 5⟩]

theorem ex_not_cut : ¬ hdist (exNet.view ⟨.distance, 0, 7, 8, 0, 5⟩) < CUT := by
  rw [ex_hdist]; unfold CUT; norm_num

theorem exactObs_exact : ∀ ob ∈ exactObs, ExactObs exNet ob := by
  intro ob hob
  simp only [exactObs, List.mem_cons, List.not_mem_nil, or_false] at hob
  rcases hob with rfl | rfl
  · show (exNet.view _).value = dZ (exNet.view _)
    simp [Net.view, exNet, dZ]
  · exact ⟨ex_not_cut, by rw [ex_hdist]; rfl⟩

theorem exactObs_pass_ok : ∃ res, passFrom exNet 0 exactObs IdxState.init = .ok res := by
  simp only [exactObs, passFrom, Kind.lin, h_diff_eq, distance_eq _ _ ex_not_cut]
  exact ⟨_, rfl⟩

/-- §1 is not vacuous: the pass over the two exact observations succeeds and its right-hand side is [0, 0] -/
example : ∃ res, passFrom exNet 0 exactObs IdxState.init = .ok res ∧ res.rhs = [0, 0] := by
  obtain ⟨res, h⟩ := exactObs_pass_ok
  exact ⟨res, h, pass_rhs_zero exNet 0 exactObs _ res exactObs_exact h⟩

/-- an exact direction (k = 0) and an exact direction read one full circle lower (k = -1) -/
example : ExactObs exNet ⟨.direction, 0, 7, 8, 0, brg 3 4⟩ ∧ ExactObs exNet ⟨.direction, 0, 7, 8, 0, brg 3 4 - 2 * π⟩ := by
  have hc : ¬ hdist (exNet.view ⟨.distance, 0, 7, 8, 0, 5⟩) < CUT := ex_not_cut
  refine ⟨⟨hc, 0, ?_⟩, ⟨hc, -1, ?_⟩⟩
  · simp [Net.view, exNet, dX, dY]
  · simp [Net.view, exNet, dX, dY]; ring

/-- the identity weight matrix is positive definite in the sense used here -/
theorem one_posDef {m : ℕ} : ∀ d : Fin m → ℝ, d ≠ 0 → 0 < d ⬝ᵥ (1 : Matrix (Fin m) (Fin m) ℝ) *ᵥ d := by
  intro d hd
  rw [one_mulVec]
  exact lt_of_le_of_ne (Finset.sum_nonneg fun i _ => mul_self_nonneg (d i))
    (Ne.symm (mt dotProduct_self_eq_zero.1 hd))

/-- §2 regular case is not vacuous: a 2×1 matrix with trivial kernel, unit weights, and a solution -/
example : ∃ (A : Matrix (Fin 2) (Fin 1) ℝ) (P : Matrix (Fin 2) (Fin 2) ℝ) (x : Fin 1 → ℝ) (v : Fin 2 → ℝ) (rtr : ℝ),
    (∀ d, d ≠ 0 → 0 < d ⬝ᵥ P *ᵥ d) ∧ (∀ g, A *ᵥ g = 0 → g = 0) ∧ IsLSSolution A 0 P ∅ x v rtr := by
  refine ⟨Matrix.of fun _ _ => 1, 1, 0, 0, 0, one_posDef, ?_, zero_isLSSolution _ _ _⟩
  intro g hg
  have := congrFun hg 0
  simp [mulVec, dotProduct] at this
  funext j; rw [Subsingleton.elim j 0]; exact this

/-- §2 singular case is not vacuous: the zero 2×2 matrix (everything in the kernel), all unknowns regularised -/
example : ∃ (A : Matrix (Fin 2) (Fin 2) ℝ) (P : Matrix (Fin 2) (Fin 2) ℝ) (x : Fin 2 → ℝ) (v : Fin 2 → ℝ) (rtr : ℝ),
    (∀ d, d ≠ 0 → 0 < d ⬝ᵥ P *ᵥ d) ∧ (¬ ∀ g, A *ᵥ g = 0 → g = 0) ∧ IsLSSolution A 0 P Finset.univ x v rtr := by
  refine ⟨0, 1, 0, 0, 0, one_posDef, ?_, zero_isLSSolution _ _ _⟩
  intro h
  have := congrFun (h (fun _ => 1) (by simp)) 0
  simp at this

/-- §3 is not vacuous -/
example (st : St ℝ) : refine (List.replicate 4 (0 : ℝ)) [GN.Unk.X 1, GN.Unk.Y 1, GN.Unk.Z 1, GN.Unk.R 2] st = st :=
  refine_zero _ (xAt_replicate_zero 4) _ st

/-- §4 is not vacuous: all hypotheses of the composition hold together — the two exact observations, their
    successful pass, the design matrix and right-hand side of THAT pass (2 rows, 6 unknowns: a free network,
    singular), unit weights, all unknowns regularised, and a solution in the sense of C01 -/
example : ∃ res, (∀ ob ∈ exactObs, ExactObs exNet ob) ∧ passFrom exNet 0 exactObs IdxState.init = .ok res ∧
    ∃ (P : Matrix (Fin exactObs.length) (Fin exactObs.length) ℝ) (x : Fin res.idx.maxn → ℝ)
      (v : Fin exactObs.length → ℝ) (rtr : ℝ),
      (∀ d, d ≠ 0 → 0 < d ⬝ᵥ P *ᵥ d) ∧ Resolves (passMatrix res exactObs.length) Finset.univ ∧
      IsLSSolution (passMatrix res exactObs.length) (fun i : Fin exactObs.length => res.rhs.getD i.val 0) P
        Finset.univ x v rtr := by
  obtain ⟨res, h⟩ := exactObs_pass_ok
  refine ⟨res, exactObs_exact, h, 1, 0, 0, 0, one_posDef, resolves_univ, ?_⟩
  rw [pass_rhs_vec_zero exNet 0 exactObs _ res exactObs_exact h]
  exact zero_isLSSolution _ _ _

end Gama.C06FP
