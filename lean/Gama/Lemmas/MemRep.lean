/-
  Lemmas about the heap model of `MemRep` (Model/MemRep.lean):
  ownership invariant and refinement of independent values.
-/
import Gama.Model.MemRep
namespace Gama.MemRep

variable {K : Type}

@[simp] theorem upd_same {α : Type} (f : Nat → α) (i : Nat) (v : α) : upd f i v i = v := by simp [upd]
theorem upd_other {α : Type} (f : Nat → α) {i j : Nat} (v : α) (h : j ≠ i) : upd f i v j = f j := by simp [upd, h]

/-- Ownership invariant of the heap model.
    * `owned`: a non-null `rep` points to an allocated block of exactly `sz` elements,
      handed out by `new[]` in the past;
    * `null`:  `rep == nullptr` only with `sz == 0`;
    * `excl`:  no block is owned by two live objects. -/
structure Inv (s : St K) : Prop where
  owned : ∀ i o a, s.objs i = some o → o.rep = some a →
            a < s.next ∧ ∃ b, s.heap a = some b ∧ b.length = o.sz
  null  : ∀ i o, s.objs i = some o → o.rep = none → o.sz = 0
  excl  : ∀ i j oi oj a, s.objs i = some oi → s.objs j = some oj →
            oi.rep = some a → oj.rep = some a → i = j

theorem inv_init : Inv (St.init : St K) :=
  ⟨by intro i o a h; simp [St.init] at h, by intro i o h; simp [St.init] at h,
   by intro i j oi oj a h; simp [St.init] at h⟩

theorem val_none_iff (s : St K) (i : Nat) : val s i = none ↔ s.objs i = none := by
  unfold val; cases s.objs i with
  | none => simp
  | some o => rcases o with ⟨_ | a, sz⟩ <;> simp

/-- the value of a live object under the invariant -/
theorem val_of_obj {s : St K} (h : Inv s) {i : Nat} {o : Obj} (ho : s.objs i = some o) :
    ∃ l, val s i = some l ∧ l.length = o.sz ∧
      (∀ a, o.rep = some a → s.heap a = some l) ∧ (o.rep = none → l = []) := by
  unfold val; rw [ho]
  rcases o with ⟨_ | a, sz⟩
  · exact ⟨[], by simp, by simpa using (h.null i _ ho rfl).symm, by simp, by simp⟩
  · obtain ⟨_, b, hb, hl⟩ := h.owned i _ a ho rfl
    exact ⟨b, by simp [hb], hl, by intro a' ha'; cases ha'; exact hb, by simp⟩

/-- frame: a slot whose object and whose block are untouched keeps its value -/
theorem val_frame {s s' : St K} {k : Nat} (ho : s'.objs k = s.objs k)
    (hh : ∀ o a, s.objs k = some o → o.rep = some a → s'.heap a = s.heap a) :
    val s' k = val s k := by
  unfold val; rw [ho]
  cases hk : s.objs k with
  | none => rfl
  | some o =>
    rcases o with ⟨_ | a, sz⟩
    · simp
    · simp [hh _ a hk rfl]

theorem take_append_drop_of_length {α : Type} {n : Nat} {l l' : List α}
    (h : l.length = n) : l.take n ++ l'.drop n = l ++ l'.drop n := by
  rw [List.take_of_length_le (by omega)]

theorem take_append_drop_len {α : Type} {n : Nat} {l l' : List α}
    (h : l.length = n) (h' : l'.length = n) : l.take n ++ l'.drop n = l := by
  rw [List.take_of_length_le (by omega), List.drop_of_length_le (by omega)]; simp


theorem val_some_of_obj {s : St K} {i : Nat} {o : Obj} (ho : s.objs i = some o) :
    ∃ l, val s i = some l := by
  cases hv : val s i with
  | none => rw [val_none_iff] at hv; simp [ho] at hv
  | some l => exact ⟨l, rfl⟩

/-- one slot changes: the invariant is kept if the other objects' blocks are untouched
    and the new object (if any) owns an allocated block of the right size that nobody else owns -/
theorem inv_upd {s s' : St K} (h : Inv s) (i : Nat) (o' : Option Obj)
    (hobjs : s'.objs = upd s.objs i o')
    (hnext : s.next ≤ s'.next)
    (hothers : ∀ k o a, k ≠ i → s.objs k = some o → o.rep = some a → s'.heap a = s.heap a)
    (hnew : ∀ o a, o' = some o → o.rep = some a →
        a < s'.next ∧ (∃ b, s'.heap a = some b ∧ b.length = o.sz) ∧
        (∀ k o2, k ≠ i → s.objs k = some o2 → o2.rep ≠ some a))
    (hnull : ∀ o, o' = some o → o.rep = none → o.sz = 0) : Inv s' := by
  refine ⟨?_, ?_, ?_⟩
  · intro k o a hk hr
    rw [hobjs] at hk
    by_cases hki : k = i
    · subst hki; simp at hk
      obtain ⟨h1, h2, _⟩ := hnew o a hk hr
      exact ⟨h1, h2⟩
    · rw [upd_other _ _ hki] at hk
      obtain ⟨h1, b, hb, hl⟩ := h.owned k o a hk hr
      exact ⟨by omega, b, by rw [hothers k o a hki hk hr]; exact hb, hl⟩
  · intro k o hk hr
    rw [hobjs] at hk
    by_cases hki : k = i
    · subst hki; simp at hk; exact hnull o hk hr
    · rw [upd_other _ _ hki] at hk; exact h.null k o hk hr
  · intro k j ok oj a hk hj hrk hrj
    rw [hobjs] at hk hj
    by_cases hki : k = i <;> by_cases hji : j = i
    · omega
    · subst hki; simp at hk
      rw [upd_other _ _ hji] at hj
      exact absurd hrj ((hnew ok a hk hrk).2.2 j oj hji hj)
    · subst hji; simp at hj
      rw [upd_other _ _ hki] at hk
      exact absurd hrk ((hnew oj a hj hrj).2.2 k ok hki hk)
    · rw [upd_other _ _ hki] at hk; rw [upd_other _ _ hji] at hj
      exact h.excl k j ok oj a hk hj hrk hrj

/-- one slot changes: all other slots keep their values -/
theorem val_eq_upd {s s' : St K} (i : Nat) (v : Option (List K))
    (hobjs : ∀ k, k ≠ i → s'.objs k = s.objs k)
    (hothers : ∀ k o a, k ≠ i → s.objs k = some o → o.rep = some a → s'.heap a = s.heap a)
    (hi : val s' i = v) : val s' = upd (val s) i v := by
  funext k
  by_cases hki : k = i
  · subst hki; simp [hi]
  · rw [upd_other _ _ hki]
    exact val_frame (hobjs k hki) (fun o a hk hr => hothers k o a hki hk hr)

/-- blocks of other objects differ from the block of object `i` -/
theorem other_block_ne {s : St K} (h : Inv s) {i k : Nat} {oi ok : Obj} {a b : Nat}
    (hki : k ≠ i) (hi : s.objs i = some oi) (hk : s.objs k = some ok)
    (ha : oi.rep = some a) (hb : ok.rep = some b) : b ≠ a := by
  intro e; subst e; exact hki (h.excl k i ok oi b hk hi hb ha)

end Gama.MemRep
