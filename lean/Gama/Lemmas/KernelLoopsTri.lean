/-
  Loop facts for `operator*(SymMat,SymMat)` (round 13): the step `l++; if (k > i) l += k-2` walks row `i` of the
  symmetric matrix through the packed triangle (`walk_sym`: after `k` steps the offset is `symWalk i k`), an outer loop
  whose pass `i` appends a chunk of `i` cells (`forE_tchunks`), and the flat reading of such a triangular store through
  `triRow` (`triRow_eq`, `tchunks_flat`).
-/
import Gama.Lemmas.KernelLoopsSym
import Gama.Lemmas.MatVecGuards
namespace Gama.MatVec
variable {K : Type}

/-- `l++; if (k > i) l += k-2;` -/
def symStep (i k l : Nat) : Nat := if i < k then l + 1 + (k - 2) else l + 1

theorem symStep_walk (i k : Nat) (hi : 1 ≤ i) (hk : 1 ≤ k) : symStep i k (symWalk i (k - 1)) = symWalk i k := by
  unfold symStep symWalk
  by_cases h1 : k ≤ i
  · simp only [show ¬ i < k by omega, if_false, show k - 1 ≤ i by omega, if_true, h1]; omega
  · by_cases h2 : k = i + 1
    · subst h2
      have := tri_succ i
      simp only [show i < i + 1 by omega, if_true, Nat.add_sub_cancel, Nat.le_refl, show ¬ (i + 1 ≤ i) by omega, if_false]
      omega
    · have h3 : ¬ (k - 1 ≤ i) := by omega
      have := tri_succ (k - 1)
      rw [show k - 1 + 1 = k by omega] at this
      simp only [show i < k by omega, if_true, h3, if_false, h1, show k - 1 - 1 = k - 2 by omega] at this ⊢
      omega

theorem walk_sym (i j t : Nat) (hi : 1 ≤ i) (hj : 1 ≤ j) :
    walk (fun k (u : Nat × Nat) => (symStep i k u.1, symStep j k u.2)) 1 t (i * (i - 1) / 2, j * (j - 1) / 2)
      = (symWalk i t, symWalk j t) := by
  induction t with
  | zero => simp [walk, symWalk]
  | succ t ih =>
    simp only [walk, ih]
    have a := symStep_walk i (1 + t) hi (by omega)
    have b := symStep_walk j (1 + t) hj (by omega)
    rw [show 1 + t - 1 = t by omega] at a b
    rw [a, b, Nat.add_comm 1 t]

/-- number of cells of the packed triangle of dimension `n` -/
def triN (n : Nat) : Nat := n * (n + 1) / 2

theorem triN_step (n : Nat) : triN (n + 1) = triN n + (n + 1) := by
  unfold triN
  have := tri_succ (n + 1)
  rw [Nat.add_sub_cancel] at this
  rw [show (n + 1) * (n + 1 + 1) = (n + 1 + 1) * (n + 1) from Nat.mul_comm _ _, this, Nat.mul_comm n (n + 1)]

theorem triN_mono {a b : Nat} (h : a ≤ b) : triN a ≤ triN b := by
  induction h with
  | refl => exact Nat.le_refl _
  | step _ ih => rw [triN_step]; omega

/-- the cell at offset `triN i0 + j0`, `j0 ≤ i0 < n`, is `(i0+1, j0+1)` -/
theorem triRow_eq (n i0 j0 : Nat) (hj : j0 ≤ i0) (hi : i0 < n) : triRow n (triN i0 + j0) = (i0 + 1, j0 + 1) := by
  have hT : ∀ x, (x + 1) * x / 2 = triN x := by intro x; unfold triN; rw [Nat.mul_comm]
  obtain ⟨d, hd⟩ : ∃ d, n = i0 + 1 + d := ⟨n - (i0 + 1), by omega⟩
  subst hd
  unfold triRow
  induction d with
  | zero =>
    rw [Nat.add_zero, List.range_succ, List.foldl_append]
    simp only [List.foldl_cons, List.foldl_nil, hT, show triN i0 ≤ triN i0 + j0 by omega, if_true]
    congr 1; omega
  | succ d ih =>
    rw [← Nat.add_assoc, List.range_succ, List.foldl_append]
    simp only [List.foldl_cons, List.foldl_nil, hT]
    have : ¬ triN (i0 + 1 + d) ≤ triN i0 + j0 := by
      have := triN_mono (show i0 + 1 ≤ i0 + 1 + d by omega)
      rw [triN_step] at this; omega
    simp only [this, if_false]
    have ih' := ih (by omega)
    simp only [hT] at ih'
    exact ih'

/-- rows of growing length `1, 2, …, n` appended one after the other -/
def tchunks (f : Nat → Nat → Except Err K) : Nat → Except Err (Array K)
  | 0 => .ok #[]
  | n+1 => tchunks f n >>= fun a => tabulate (n + 1) (f (1 + n)) >>= fun c => pure (a ++ c)

theorem tchunks_size (f : Nat → Nat → Except Err K) (n : Nat) (a : Array K) (h : tchunks f n = .ok a) : a.size = triN n := by
  induction n generalizing a with
  | zero => simp [tchunks] at h; subst h; simp [triN]
  | succ n ih =>
    simp only [tchunks] at h
    cases h1 : tchunks f n with
    | error e => simp [h1, bind, Except.bind] at h
    | ok a1 =>
      cases h2 : tabulate (n + 1) (f (1 + n)) with
      | error e => simp [h1, h2, bind, Except.bind] at h
      | ok c =>
        simp [h1, h2, bind, Except.bind, pure, Except.pure] at h
        subst h
        have hc : c.size = n + 1 := by first | exact tabulate_size h2 | exact tabulate_size _ _ _ h2
        simp [ih a1 h1, hc, triN_step]

theorem tchunks_flat (n : Nat) (G : Nat → Nat → Except Err K) (m : Nat) (hm : m ≤ n) :
    tchunks (fun i j0 => G i (1 + j0)) m = tabulate (triN m) (fun p => G (triRow n p).1 (triRow n p).2) := by
  induction m with
  | zero => simp [tchunks, triN, tabulate]
  | succ m ih =>
    rw [tchunks, ih (by omega), triN_step, tabulate_add (triN m) (m + 1)]
    congr 1
    funext a
    congr 1
    apply tabulate_congr
    intro j hj
    rw [triRow_eq n m j (by omega) (by omega), Nat.add_comm 1 m, Nat.add_comm 1 j]

/-- outer loop whose pass `i = 1, 2, …` appends a chunk of `i` cells (triangular store) -/
theorem forE_tchunks [Zero K] (body : Nat → Array K × Nat → Except Err (Array K × Nat))
    (f : Nat → Nat → Except Err K)
    (hb : ∀ i (done : Array K) r, 1 ≤ i → i ≤ r → body i (done ++ Array.replicate r (0 : K), done.size)
        = tabulate i (f i) >>= fun a => pure (done ++ a ++ Array.replicate (r - i) (0 : K), done.size + i))
    (n r : Nat) (hn : triN n ≤ r) :
    forE 1 n (Array.replicate r (0 : K), 0) body
      = tchunks f n >>= fun a => pure (a ++ Array.replicate (r - triN n) (0 : K), triN n) := by
  induction n with
  | zero => simp [forE, tchunks, triN, bind, Except.bind, pure, Except.pure]
  | succ n ih =>
    have hn' : triN n ≤ r := by rw [triN_step] at hn; omega
    simp only [forE, ih hn', tchunks]
    cases hc : tchunks f n with
    | error e => rfl
    | ok a =>
      have hs := tchunks_size _ _ _ hc
      simp only [bind, Except.bind, pure, Except.pure]
      have := hb (1 + n) a (r - triN n) (by omega) (by rw [triN_step] at hn; omega)
      rw [hs] at this
      rw [this, Nat.add_comm 1 n]
      cases tabulate (n + 1) (f (n + 1)) with
      | error e => rfl
      | ok c =>
        simp only [bind, Except.bind, pure, Except.pure, triN_step]
        rw [Nat.sub_sub]

end Gama.MatVec
