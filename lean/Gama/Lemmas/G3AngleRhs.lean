/-
  C19 (round 4) — the right-hand side of the horizontal-angle row uses the SAME direction angles the
  coefficient theorem (`angle_is_derivative`) differentiates.

  `Model::linearization(Angle*)` computes the coefficients from `sl = atan2(Lneu.e2, Lneu.e1)`,
  `sr = atan2(Rneu.e2, Rneu.e1)` (targets relative to the station in the station's geodetic n-e-u frame,
  initial coordinates) and the right-hand side from `angle(VL, VR)`, the angle between the normals
  `FV × FL`, `FV × FR` of the vertical planes through the two targets.  Here: for a station without
  deflection of the vertical (`FV` is the third column of the frame), targets not raised
  (`left_dh = right_dh = 0`; the instrument height is arbitrary) and zero corrections (`X() = X.init_value()`:
  the single linearisation step gama-g3 does),

      angle(VL, VR) = arccos (cos (θr − θl)),     θ = the polar angle of (Lneu.e1, Lneu.e2) / (Rneu.e1, Rneu.e2),

  i.e. `θr − θl` reduced as coded (`acos` returns a value in [0, π]; equal to `θr − θl` when that lies in [0, π] —
  limitation G4 of the report for the rest).
-/
import Gama.Lemmas.G3LinAngle
namespace Gama
namespace G3Lin
open Neu G3Book Gama.Gen.G3Lin

/-- the rows of an orthonormal frame are orthonormal too (`R Rᵀ = 1` from `Rᵀ R = 1`) -/
theorem orthonormal_rows {R : Rot ℝ} (h : Orthonormal R) :
    R.r11 * R.r11 + R.r12 * R.r12 + R.r13 * R.r13 = 1 ∧ R.r21 * R.r21 + R.r22 * R.r22 + R.r23 * R.r23 = 1 ∧
    R.r31 * R.r31 + R.r32 * R.r32 + R.r33 * R.r33 = 1 ∧ R.r11 * R.r21 + R.r12 * R.r22 + R.r13 * R.r23 = 0 ∧
    R.r11 * R.r31 + R.r12 * R.r32 + R.r13 * R.r33 = 0 ∧ R.r21 * R.r31 + R.r22 * R.r32 + R.r23 * R.r33 = 0 := by
  have h1 := toMatrix_transpose_mul_self h
  have h2 : R.toMatrix * (Matrix.transpose R.toMatrix) = 1 := mul_eq_one_comm.mp h1
  have e := fun i j => congrFun (congrFun h2 i) j
  have e00 := e 0 0
  have e11 := e 1 1
  have e22 := e 2 2
  have e01 := e 0 1
  have e02 := e 0 2
  have e12 := e 1 2
  simp [Rot.toMatrix, Matrix.mul_apply, Fin.sum_univ_three] at e00 e11 e22 e01 e02 e12
  exact ⟨e00, e11, e22, e01, e02, e12⟩

/-- completeness: `a · b = (n·a)(n·b) + (e·a)(e·b) + (u·a)(u·b)` for the columns `n, e, u` of an orthonormal frame -/
theorem inverse_edot {R : Rot ℝ} (h : Orthonormal R) (a b : E3 ℝ) :
    edot (@E3.inverse ℝ realScalar R a) (@E3.inverse ℝ realScalar R b) = edot a b := by
  obtain ⟨r1, r2, r3, r12, r13, r23⟩ := orthonormal_rows h
  simp only [edot, E3.inverse]
  linear_combination (a.e1 * b.e1) * r1 + (a.e2 * b.e2) * r2 + (a.e3 * b.e3) * r3 +
    (a.e1 * b.e2 + a.e2 * b.e1) * r12 + (a.e1 * b.e3 + a.e3 * b.e1) * r13 + (a.e2 * b.e3 + a.e3 * b.e2) * r23

/-- the third column of a frame: the unit vector `u` (up) -/
def upCol (R : Rot ℝ) : E3 ℝ := ⟨R.r13, R.r23, R.r33⟩

theorem edot_upCol (R : Rot ℝ) (a : E3 ℝ) : edot (upCol R) a = (@E3.inverse ℝ realScalar R a).e3 := by
  simp only [edot, upCol, E3.inverse]

/-- Lagrange: `(u × a) · (u × b) = (u·u)(a·b) − (u·a)(u·b)` for the cross product as coded in `E_3::cross` -/
theorem vcross_edot (u a b : E3 ℝ) :
    edot (vcross u a) (vcross u b) = edot u u * edot a b - edot u a * edot u b := by
  simp only [edot, vcross]; ring

/-- **the angle between the vertical planes is the difference of the horizontal directions, reduced by `acos ∘ cos`.**
    `R` an orthonormal frame, `u` its third column, `a`, `b` the sights to the two targets, `la = Rᵀa`, `lb = Rᵀb` the
    sights in the frame, `θa`, `θb` polar angles of their horizontal parts (both non-zero):
    `angle(u × a/|a|, u × b/|b|) = arccos (cos (θb − θa))`. -/
theorem planes_angle {R : Rot ℝ} (h : Orthonormal R) (a b : E3 ℝ) (θa θb : ℝ)
    (ha : (@E3.inverse ℝ realScalar R a).e1 * (@E3.inverse ℝ realScalar R a).e1 +
          (@E3.inverse ℝ realScalar R a).e2 * (@E3.inverse ℝ realScalar R a).e2 ≠ 0)
    (hb : (@E3.inverse ℝ realScalar R b).e1 * (@E3.inverse ℝ realScalar R b).e1 +
          (@E3.inverse ℝ realScalar R b).e2 * (@E3.inverse ℝ realScalar R b).e2 ≠ 0)
    (pa : Gama.Lin.IsPolarAngle (@E3.inverse ℝ realScalar R a).e1 (@E3.inverse ℝ realScalar R a).e2 θa)
    (pb : Gama.Lin.IsPolarAngle (@E3.inverse ℝ realScalar R b).e1 (@E3.inverse ℝ realScalar R b).e2 θb) :
    angle3 (vcross (upCol R) (vunit a)) (vcross (upCol R) (vunit b)) = Real.arccos (Real.cos (θb - θa)) := by
  set la := @E3.inverse ℝ realScalar R a with hla
  set lb := @E3.inverse ℝ realScalar R b with hlb
  have huu : edot (upCol R) (upCol R) = 1 := by simp only [edot, upCol]; exact h.c33
  -- squared lengths
  have haa : edot a a = la.e1 * la.e1 + la.e2 * la.e2 + la.e3 * la.e3 := (inverse_edot h a a).symm
  have hbb : edot b b = lb.e1 * lb.e1 + lb.e2 * lb.e2 + lb.e3 * lb.e3 := (inverse_edot h b b).symm
  have hab : edot a b = la.e1 * lb.e1 + la.e2 * lb.e2 + la.e3 * lb.e3 := (inverse_edot h a b).symm
  have hda : 0 < la.e1 * la.e1 + la.e2 * la.e2 :=
    lt_of_le_of_ne (add_nonneg (mul_self_nonneg _) (mul_self_nonneg _)) (Ne.symm ha)
  have hdb : 0 < lb.e1 * lb.e1 + lb.e2 * lb.e2 :=
    lt_of_le_of_ne (add_nonneg (mul_self_nonneg _) (mul_self_nonneg _)) (Ne.symm hb)
  have hna : 0 < edot a a := by rw [haa]; nlinarith [mul_self_nonneg la.e3]
  have hnb : 0 < edot b b := by rw [hbb]; nlinarith [mul_self_nonneg lb.e3]
  set qa := 1 / Real.sqrt (edot a a) with hqa
  set qb := 1 / Real.sqrt (edot b b) with hqb
  have hqa0 : 0 < qa := by rw [hqa]; exact one_div_pos.mpr (Real.sqrt_pos.mpr hna)
  have hqb0 : 0 < qb := by rw [hqb]; exact one_div_pos.mpr (Real.sqrt_pos.mpr hnb)
  set da := Real.sqrt (la.e1 * la.e1 + la.e2 * la.e2) with hda'
  set db := Real.sqrt (lb.e1 * lb.e1 + lb.e2 * lb.e2) with hdb'
  have hda0 : 0 < da := Real.sqrt_pos.mpr hda
  have hdb0 : 0 < db := Real.sqrt_pos.mpr hdb
  have hda2 : da * da = la.e1 * la.e1 + la.e2 * la.e2 := Real.mul_self_sqrt hda.le
  have hdb2 : db * db = lb.e1 * lb.e1 + lb.e2 * lb.e2 := Real.mul_self_sqrt hdb.le
  -- the two normals
  have hva : vunit a = ⟨a.e1 * qa, a.e2 * qa, a.e3 * qa⟩ := by simp only [vunit, edot, hqa]
  have hvb : vunit b = ⟨b.e1 * qb, b.e2 * qb, b.e3 * qb⟩ := by simp only [vunit, edot, hqb]
  have hua : edot (upCol R) a = la.e3 := edot_upCol R a
  have hub : edot (upCol R) b = lb.e3 := edot_upCol R b
  have hxy : edot (vcross (upCol R) (vunit a)) (vcross (upCol R) (vunit b)) =
      qa * qb * (la.e1 * lb.e1 + la.e2 * lb.e2) := by
    have := vcross_edot (upCol R) a b
    rw [huu, hab, hua, hub] at this
    rw [hva, hvb]
    simp only [edot, vcross] at this ⊢
    linear_combination (qa * qb) * this
  have hxx : edot (vcross (upCol R) (vunit a)) (vcross (upCol R) (vunit a)) = (qa * da) * (qa * da) := by
    have := vcross_edot (upCol R) a a
    rw [huu, haa, hua] at this
    rw [hva]
    simp only [edot, vcross] at this ⊢
    linear_combination (qa * qa) * this - (qa * qa) * hda2
  have hyy : edot (vcross (upCol R) (vunit b)) (vcross (upCol R) (vunit b)) = (qb * db) * (qb * db) := by
    have := vcross_edot (upCol R) b b
    rw [huu, hbb, hub] at this
    rw [hvb]
    simp only [edot, vcross] at this ⊢
    linear_combination (qb * qb) * this - (qb * qb) * hdb2
  have hsq : Real.sqrt ((qa * da) * (qa * da) * ((qb * db) * (qb * db))) = qa * da * (qb * db) := by
    rw [show (qa * da) * (qa * da) * ((qb * db) * (qb * db)) = (qa * da * (qb * db)) * (qa * da * (qb * db)) by ring]
    exact Real.sqrt_mul_self (by positivity)
  have hang : angle3 (vcross (upCol R) (vunit a)) (vcross (upCol R) (vunit b)) =
      Real.arccos (edot (vcross (upCol R) (vunit a)) (vcross (upCol R) (vunit b)) /
        Real.sqrt (edot (vcross (upCol R) (vunit a)) (vcross (upCol R) (vunit a)) *
          edot (vcross (upCol R) (vunit b)) (vcross (upCol R) (vunit b)))) := rfl
  rw [hang, hxy, hxx, hyy, hsq]
  congr 1
  obtain ⟨pa1, pa2⟩ := pa
  obtain ⟨pb1, pb2⟩ := pb
  rw [← hda'] at pa1 pa2
  rw [← hdb'] at pb1 pb2
  rw [Real.cos_sub]
  have hne : qa * da * (qb * db) ≠ 0 := by positivity
  rw [div_eq_iff hne]
  rw [pa1, pa2, pb1, pb2]
  ring


/-- with no deflection of the vertical, `Model::vertical(from)` is the third column of `set_rotation(B, L)` -/
theorem up_eq_upCol (p : GPt ℝ) (hB : p.dB = 0) (hL : p.dL = 0) : up p = upCol (frameOf p) := by
  simp [up, upCol, frameOf, frame_eq, hB, hL]

/-- the sight instrument → (unraised) target of role `r`, as the right-hand side forms it from `X()`, has in the
    station's frame the horizontal components `Lneu.e1, Lneu.e2` the coefficients are formed from (`aLocal`):
    the instrument height moves the instrument along the third axis only -/
theorem sight_horizontal (P : Pts ℝ) (r : Role) (dhf : ℝ) (hB : (P .frm).dB = 0) (hL : (P .frm).dL = 0)
    (hX : ∀ r, (P r).X = (P r).X0 ∧ (P r).Y = (P r).Y0 ∧ (P r).Z = (P r).Z0) :
    (@E3.inverse ℝ realScalar (frameOf (P .frm)) (vsub (raised (P r) 0) (raised (P .frm) dhf))).e1 = (aLocal P r).e1 ∧
    (@E3.inverse ℝ realScalar (frameOf (P .frm)) (vsub (raised (P r) 0) (raised (P .frm) dhf))).e2 = (aLocal P r).e2 := by
  obtain ⟨_, _, _, _, c13, c23⟩ := frame_orthonormal (P .frm).B (P .frm).L
  obtain ⟨x1, x2, x3⟩ := hX r
  obtain ⟨f1, f2, f3⟩ := hX .frm
  simp only [raised, vsub, E3.inverse, aLocal, up_eq_upCol (P .frm) hB hL, upCol, frameOf, x1, x2, x3, f1, f2, f3,
    mul_zero, add_zero]
  constructor
  · linear_combination (-dhf) * c13
  · linear_combination (-dhf) * c23

/-- **`angleFn = θr − θl` reduced by `acos ∘ cos`**: the angle the right-hand side compares the observation with is
    formed from the same two direction angles (any polar angles of `(Lneu.e1, Lneu.e2)`, `(Rneu.e1, Rneu.e2)`) -/
theorem angleFn_eq_directions (P : Pts ℝ) (o : GObs ℝ) (hB : (P .frm).dB = 0) (hL : (P .frm).dL = 0)
    (hX : ∀ r, (P r).X = (P r).X0 ∧ (P r).Y = (P r).Y0 ∧ (P r).Z = (P r).Z0)
    (hdl : o.leftDh = 0) (hdr : o.rightDh = 0)
    (hl : (aLocal P .left).e1 * (aLocal P .left).e1 + (aLocal P .left).e2 * (aLocal P .left).e2 ≠ 0)
    (hr : (aLocal P .right).e1 * (aLocal P .right).e1 + (aLocal P .right).e2 * (aLocal P .right).e2 ≠ 0)
    (θl θr : ℝ) (pl : Gama.Lin.IsPolarAngle (aLocal P .left).e1 (aLocal P .left).e2 θl)
    (pr : Gama.Lin.IsPolarAngle (aLocal P .right).e1 (aLocal P .right).e2 θr) :
    angleFn P o = Real.arccos (Real.cos (θr - θl)) := by
  obtain ⟨l1, l2⟩ := sight_horizontal P .left o.fromDh hB hL hX
  obtain ⟨r1, r2⟩ := sight_horizontal P .right o.fromDh hB hL hX
  unfold angleFn
  rw [hdl, hdr, up_eq_upCol (P .frm) hB hL]
  unfold frameOf at l1 l2 r1 r2
  refine planes_angle (frame_orthonormal _ _) _ _ θl θr ?_ ?_ ?_ ?_
  · rw [l1, l2]; exact hl
  · rw [r1, r2]; exact hr
  · rw [l1, l2]; exact pl
  · rw [r1, r2]; exact pr

/-- **coefficients and right-hand side of the angle row speak about the same `θ`.**  `angle_is_derivative` plus: the
    generated right-hand side is `(observed − arccos (cos (θr 0 − θl 0))) · Angular().scale()` with the very `θl`, `θr`
    whose difference the row differentiates — `observed − (θr − θl)` as long as `θr − θl ∈ [0, π]` (the only range in
    which the input can express the angle: limitation G4).  Hypotheses beyond those of `angle_is_derivative`: station
    without deflection of the vertical, `left_dh = right_dh = 0`, zero corrections (`X() = X.init_value()`). -/
theorem angle_row_and_rhs (P : Pts ℝ) (o : GObs ℝ) (tol : ℝ) (ξf ξl ξr : E3 ℝ)
    (hB : (P .frm).dB = 0) (hL : (P .frm).dL = 0)
    (hX : ∀ r, (P r).X = (P r).X0 ∧ (P r).Y = (P r).Y0 ∧ (P r).Z = (P r).Z0)
    (hdl : o.leftDh = 0) (hdr : o.rightDh = 0)
    (hl : (aLocal P .left).e1 * (aLocal P .left).e1 + (aLocal P .left).e2 * (aLocal P .left).e2 ≠ 0)
    (hr : (aLocal P .right).e1 * (aLocal P .right).e1 + (aLocal P .right).e2 * (aLocal P .right).e2 ≠ 0) :
    ∃ cF cL cR : E3 ℝ,
      (@angle ℝ realTrig P o tol).rows =
        [[⟨[(.frm, .freeN)], [⟨.frm, .N, cF.e1⟩]⟩, ⟨[(.frm, .freeE)], [⟨.frm, .E, cF.e2⟩]⟩,
          ⟨[(.frm, .freeU)], [⟨.frm, .U, cF.e3⟩]⟩,
          ⟨[(.left, .freeN)], [⟨.left, .N, cL.e1⟩]⟩, ⟨[(.left, .freeE)], [⟨.left, .E, cL.e2⟩]⟩,
          ⟨[(.left, .freeU)], [⟨.left, .U, cL.e3⟩]⟩,
          ⟨[(.right, .freeN)], [⟨.right, .N, cR.e1⟩]⟩, ⟨[(.right, .freeE)], [⟨.right, .E, cR.e2⟩]⟩,
          ⟨[(.right, .freeU)], [⟨.right, .U, cR.e3⟩]⟩]] ∧
      ∃ θl θr : ℝ → ℝ,
        θl 0 = Gama.Lin.brg (aLocal P .left).e1 (aLocal P .left).e2 ∧
        θr 0 = Gama.Lin.brg (aLocal P .right).e1 (aLocal P .right).e2 ∧
        (∀ t, Gama.Lin.IsPolarAngle
          ((aLocal P .left).e1 + (relDisp (frameOf (P .frm)) (frameOf (P .left)) ξf ξl).e1 * t)
          ((aLocal P .left).e2 + (relDisp (frameOf (P .frm)) (frameOf (P .left)) ξf ξl).e2 * t) (θl t)) ∧
        (∀ t, Gama.Lin.IsPolarAngle
          ((aLocal P .right).e1 + (relDisp (frameOf (P .frm)) (frameOf (P .right)) ξf ξr).e1 * t)
          ((aLocal P .right).e2 + (relDisp (frameOf (P .frm)) (frameOf (P .right)) ξf ξr).e2 * t) (θr t)) ∧
        HasDerivAt (fun t => angPerLin * (θr t - θl t)) (angleRowDot cF cL cR ξf ξl ξr) 0 ∧
        (@angle ℝ realTrig P o tol).rhs = [(o.v1 - Real.arccos (Real.cos (θr 0 - θl 0))) * angScaleR] ∧
        (0 ≤ θr 0 - θl 0 → θr 0 - θl 0 ≤ Real.pi →
          (@angle ℝ realTrig P o tol).rhs = [(o.v1 - (θr 0 - θl 0)) * angScaleR]) := by
  obtain ⟨cF, cL, cR, hrows, θl, θr, hl0, hr0, hlp, hrp, hd⟩ := angle_is_derivative P o tol ξf ξl ξr hl hr
  refine ⟨cF, cL, cR, hrows, θl, θr, hl0, hr0, hlp, hrp, hd, ?_⟩
  have pl := hlp 0
  have pr := hrp 0
  simp only [mul_zero, add_zero] at pl pr
  have hrhs : (@angle ℝ realTrig P o tol).rhs = [(o.v1 - Real.arccos (Real.cos (θr 0 - θl 0))) * angScaleR] := by
    rw [angle_rhs, angleFn_eq_directions P o hB hL hX hdl hdr hl hr (θl 0) (θr 0) pl pr]
  refine ⟨hrhs, fun h0 hpi => ?_⟩
  rw [hrhs, Real.arccos_cos h0 hpi]

end G3Lin
end Gama
