/-
  What the decision layer really reads (C02 clause 8, C20 clause 5): a SIMULATION between two worlds.

  `Abs.Sim a a'`: the decision data agree on the unknown list, the counts, the defect, the outcomes of
  the huge-covariance tests and of the residual queries, and on the REMOVAL the first flagged unknown
  causes (`removalOf`: point id + code) — NOT on the flagged sets.  `decideA_sim`: two worlds that are
  `Sim` on every configuration remove the same points, in the same order, with the same reasons, and
  reach the same verdict up to the list printed after "network can not be adjusted"
  (`Verdict.core`).  So the flags matter to the decision only through the point of the FIRST flagged
  unknown: that is the exact place where two correct algorithms may diverge (finding F7).
-/
import Gama.Model.NetWorld
import Gama.Lemmas.NetDecision
namespace Gama.NetDecision
open Gama Gama.Ls

/-- the verdict without the list of dependent unknowns printed by "network can not be adjusted" -/
def Verdict.core : Verdict → Verdict
  | .cannot d b _ => .cannot d b []
  | v => v

theorem Verdict.core_exit (v v' : Verdict) (h : v.core = v'.core) : v.exitStatus = v'.exitStatus := by
  cases v <;> cases v' <;> simp [Verdict.core] at h <;> simp [Verdict.exitStatus]

structure Abs.Sim (a a' : Abs) : Prop where
  unknowns : a.unknowns = a'.unknowns
  nObs : a.nObs = a'.nObs
  nPts : a.nPts = a'.nPts
  defect : a.defect = a'.defect
  huge : ∀ P, a.huge P = a'.huge P
  resid : a.resid = a'.resid
  first : (firstUnknown a).map removalOf = (firstUnknown a').map removalOf

def WorldA.Sim (W W' : WorldA) : Prop :=
  ∀ net, (W net).net = (W' net).net ∧ (W net).rm = (W' net).rm ∧ (W net).abs.Sim (W' net).abs

def ProjSim : Option Abs → Option Abs → Prop
  | none, none => True
  | some a, some a' => a.Sim a'
  | _, _ => False

structure StSim (s s' : St) : Prop where
  net : s.net = s'.net
  removed : s.removed = s'.removed
  adj : s.adj = s'.adj
  proj : ProjSim s.proj s'.proj

theorem hugePass_congr {a a' : Abs} (h : ∀ P, a.huge P = a'.huge P) : ∀ net : Net, hugePass a net = hugePass a' net
  | [] => rfl
  | P :: rest => by
    have ih := hugePass_congr h rest
    simp only [hugePass, h P, ih]

variable {W W' : WorldA}

theorem projectEq_sim (hW : W.Sim W') {s s' : St} (h : StSim s s') :
    StSim (vS1 W s) (vS1 W' s') ∧ (vA W s).Sim (vA W' s') := by
  obtain ⟨hn, hr, ha, hp⟩ := h
  unfold vS1 vA projectEq
  cases h1 : s.proj with
  | some a =>
    cases h2 : s'.proj with
    | some a' =>
      rw [h1, h2] at hp
      exact ⟨⟨hn, hr, ha, by simp only [h1, h2]; exact hp⟩, hp⟩
    | none => rw [h1, h2] at hp; exact absurd hp (by simp [ProjSim])
  | none =>
    cases h2 : s'.proj with
    | some a' => rw [h1, h2] at hp; exact absurd hp (by simp [ProjSim])
    | none =>
      obtain ⟨w1, w2, w3⟩ := hW s.net
      simp only
      rw [← hn]
      exact ⟨⟨w1, by rw [hr, w2], ha, w3⟩, w3⟩

theorem vR_sim (hW : W.Sim W') {s s' : St} (h : StSim s s') : vR W s = vR W' s' := by
  obtain ⟨h1, h2⟩ := projectEq_sim hW h
  unfold vR
  rw [h1.net, hugePass_congr h2.huge]

theorem vOutClean_sim (hW : W.Sim W') {s s' : St} (h : StSim s s') : vOutClean W s = vOutClean W' s' := by
  obtain ⟨_, h2⟩ := projectEq_sim hW h
  unfold vOutClean
  rw [vR_sim hW h, h2.resid]

theorem vyrovnani_sim (hW : W.Sim W') : ∀ (f : Nat) (s s' : St), StSim s s' →
    StSim (vyrovnani W f s).1 (vyrovnani W' f s').1 ∧ (vyrovnani W f s).2 = (vyrovnani W' f s').2
  | 0, s, s', h => by
    rw [vyrovnani_zero, vyrovnani_zero, h.adj]; exact ⟨h, rfl⟩
  | f + 1, s, s', h => by
    cases hadj : s.adj with
    | true =>
      rw [vyrovnani_adj W _ s hadj, vyrovnani_adj W' _ s' (h.adj ▸ hadj)]; exact ⟨h, rfl⟩
    | false =>
      have hadj' : s'.adj = false := h.adj ▸ hadj
      rw [vyrovnani_succ W f s hadj, vyrovnani_succ W' f s' hadj']
      obtain ⟨p1, p2⟩ := projectEq_sim hW h
      have hR := vR_sim hW h
      have hO := vOutClean_sim hW h
      rw [← p2.unknowns, ← p2.nObs, ← p2.nPts, ← hR, ← hO]
      have s2c : StSim (vS2c W s) (vS2c W' s') := ⟨p1.net, p1.removed, rfl, p1.proj⟩
      have s2 : StSim (vS2 W s) (vS2 W' s') := by
        refine ⟨?_, ?_, rfl, trivial⟩
        · show (vR W s).1 = (vR W' s').1; rw [hR]
        · show (vS1 W s).removed ++ (vR W s).2.1 = (vS1 W' s').removed ++ (vR W' s').2.1
          rw [hR, p1.removed]
      split
      · exact ⟨p1, rfl⟩
      split
      · exact ⟨p1, rfl⟩
      split
      · exact ⟨p1, rfl⟩
      split
      · refine ⟨?_, rfl⟩
        split
        · exact s2c
        · exact p1
      split
      · exact ⟨s2, rfl⟩
      · exact vyrovnani_sim hW f _ _ s2

theorem removeUnknown_sim {s s' : St} (h : StSim s s') {u u' : Unknown} (hu : removalOf u = removalOf u') :
    StSim (removeUnknown s u) (removeUnknown s' u') := by
  have h1 : u.pid = u'.pid := congrArg Prod.fst hu
  have h2 : rmCode u = rmCode u' := congrArg Prod.snd hu
  rw [removeUnknown_eq, removeUnknown_eq, h.net, h.removed, h1, h2]
  exact ⟨rfl, rfl, rfl, trivial⟩

/-- `null_space` reads the flags only through `firstUnknown` -/
theorem nullSpace_succ' (W : WorldA) (vf f : Nat) (s : St) : nullSpace W vf (f+1) s =
  match (vyrovnani W vf s).2 with
  | .ok => match (vyrovnani W vf s).1.proj with
    | some a => ((vyrovnani W vf s).1, .defect a.defect)
    | none => ((vyrovnani W vf s).1, .exc .fuel)
  | .badReg => match firstUnknown (vA W (vyrovnani W vf s).1) with
     | some u => nullSpace W vf f (removeUnknown (vS1 W (vyrovnani W vf s).1) u)
     | none => (vS1 W (vyrovnani W vf s).1, .defect (vA W (vyrovnani W vf s).1).defect)
  | o => ((vyrovnani W vf s).1, .exc o) := by
  rw [nullSpace_succ]
  cases (vyrovnani W vf s).2 <;> try rfl
  simp only [firstUnknown]
  cases hfl : (vA W (vyrovnani W vf s).1).flagged with
  | nil => rfl
  | cons i t =>
    simp only
    cases (vA W (vyrovnani W vf s).1).unknowns[i - 1]? <;> rfl

theorem nullSpace_sim (hW : W.Sim W') (vf : Nat) : ∀ (f : Nat) (s s' : St), StSim s s' →
    StSim (nullSpace W vf f s).1 (nullSpace W' vf f s').1 ∧ (nullSpace W vf f s).2 = (nullSpace W' vf f s').2
  | 0, s, s', h => by rw [nullSpace_zero, nullSpace_zero]; exact ⟨h, rfl⟩
  | f + 1, s, s', h => by
    rw [nullSpace_succ', nullSpace_succ']
    obtain ⟨v1, v2⟩ := vyrovnani_sim hW vf s s' h
    rw [← v2]
    generalize (vyrovnani W vf s).1 = t at v1 ⊢
    generalize (vyrovnani W' vf s').1 = t' at v1 ⊢
    obtain ⟨p1, p2⟩ := projectEq_sim hW v1
    cases (vyrovnani W vf s).2 with
    | ok =>
      simp only
      have hp := v1.proj
      cases h1 : t.proj with
      | some a =>
        cases h2 : t'.proj with
        | some a' =>
          rw [h1, h2] at hp
          have hd : a.defect = a'.defect := hp.defect
          exact ⟨v1, by simp only [hd]⟩
        | none => rw [h1, h2] at hp; exact absurd hp (by simp [ProjSim])
      | none =>
        cases h2 : t'.proj with
        | some a' => rw [h1, h2] at hp; exact absurd hp (by simp [ProjSim])
        | none => exact ⟨v1, rfl⟩
    | badReg =>
      simp only
      have hf := p2.first
      cases h1 : firstUnknown (vA W t) with
      | some u =>
        cases h2 : firstUnknown (vA W' t') with
        | some u' =>
          rw [h1, h2] at hf
          exact nullSpace_sim hW vf f _ _ (removeUnknown_sim p1 (Option.some.inj hf))
        | none => rw [h1, h2] at hf; cases hf
      | none =>
        cases h2 : firstUnknown (vA W' t') with
        | some u' => rw [h1, h2] at hf; cases hf
        | none => exact ⟨p1, by rw [p2.defect]⟩
    | matvec e => exact ⟨v1, rfl⟩
    | noUnknowns => exact ⟨v1, rfl⟩
    | noObs => exact ⟨v1, rfl⟩
    | noPoints => exact ⟨v1, rfl⟩
    | fuel => exact ⟨v1, rfl⟩

theorem generalParameters_sim (hW : W.Sim W') (vf nf : Nat) (s s' : St) (h : StSim s s') :
    StSim (generalParameters W vf nf s).1 (generalParameters W' vf nf s').1 ∧
      (generalParameters W vf nf s).2.core = (generalParameters W' vf nf s').2.core := by
  rw [generalParameters_eq, generalParameters_eq]
  obtain ⟨n1, n2⟩ := nullSpace_sim hW vf nf s s' h
  rw [← n2]
  generalize (nullSpace W vf nf s).1 = t1 at n1 ⊢
  generalize (nullSpace W' vf nf s').1 = t1' at n1 ⊢
  cases (nullSpace W vf nf s).2 with
  | exc o => exact ⟨n1, rfl⟩
  | defect d0 =>
    simp only
    obtain ⟨m1, m2⟩ := nullSpace_sim hW vf nf t1 t1' n1
    rw [← m2]
    generalize (nullSpace W vf nf t1).1 = t2 at m1 ⊢
    generalize (nullSpace W' vf nf t1').1 = t2' at m1 ⊢
    cases (nullSpace W vf nf t1).2 with
    | exc o => exact ⟨m1, rfl⟩
    | defect d =>
      simp only
      obtain ⟨p1, p2⟩ := projectEq_sim hW m1
      rw [← p2.unknowns, ← p1.net]
      obtain ⟨v1, v2⟩ := vyrovnani_sim hW vf _ _ p1
      rw [← v2]
      split
      · exact ⟨p1, rfl⟩
      · cases (vyrovnani W vf (vS1 W t2)).2 <;> exact ⟨v1, rfl⟩

/-- **the decision depends on the flags only through the removal caused by the first flagged unknown** -/
theorem decideA_sim (hW : W.Sim W') (net : Net) :
    (decideA W net).1 = (decideA W' net).1 ∧ (decideA W net).2.core = (decideA W' net).2.core := by
  have h0 : StSim (St.init net) (St.init net) := ⟨rfl, rfl, rfl, trivial⟩
  obtain ⟨g1, g2⟩ := generalParameters_sim hW (fuelFor net) (fuelFor net) _ _ h0
  exact ⟨g1.removed, g2⟩

end Gama.NetDecision
