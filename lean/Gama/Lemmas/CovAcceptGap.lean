/-
  C10 — the TWO positive-definiteness tests of a cluster's cofactor block, compared.

  * dense  : `CovMat::cholDec` (model `cholDec`; called by `GKFparser::finish_*` at parse time and, through
             `Adj::choldec`, by `LocalNetwork::prepareProjectEquations` on `activeCov()/m0²`):
             rejects when a pivot is `≤ N·ε·max diag`  (RELATIVE tolerance);
  * sparse : `BlockDiagonal::cholDec(1e-14)` inside `Homogenization::run` (model `bdCholBlock tol`):
             rejects when a pivot is `< tol`           (ABSOLUTE tolerance).

  For a block with an exact `L D Lᵀ` factorisation with positive pivots `D r` (a positive definite block):
    dense accepts  ⇔ every `D r >  N·ε·max diag`     (`cholDec_ok_iff_of_ldl`),
    sparse accepts ⇔ every `D r ≥ tol`               (`bdCholBlock_ok_iff_of_ldl`),
  the pivots both loops test are the SAME numbers `D r` (`cholRows_match`, `isCholOf_of_ldl`,
  `accept_common_pivots`), so the verdicts differ exactly in the two regions `tiny_gap`/`reverse_gap`.
  The dense test is invariant under `C ↦ f·C`, `f > 0` (`cholDec_scaleBuf_iff`: parse-time test = `prepare`'s
  test when all observations are active); the sparse test is not (`sparse_not_scale_invariant`).
-/
import Gama.Lemmas.CovBdIff
import Gama.Lemmas.CovCholPD
import Gama.Model.NetFacade
import Gama.Model.Ls.Env.Homog
import Mathlib.Tactic.NormNum
import Mathlib.Tactic.Positivity
namespace Gama.Cov
open Finset Packed CovMat

set_option linter.unusedSectionVars false
set_option linter.unusedVariables false

section Field
variable {K : Type} [Field K] [LinearOrder K] [IsStrictOrderedRing K] [SqrtFn K]

attribute [local instance] scalarOfField

/-! ### dense: the accepted rows are the rows of ANY exact factorisation with positive pivots -/

/-- the row loop, when it accepts (whatever the tolerance), ends with the rows of the given factorisation -/
theorem cholRows_match {C : CovMat K} (tol : K) (D : Nat → K) (L : Nat → Nat → K)
    (hD : ∀ r, 1 ≤ r → r ≤ C.dim → 0 < D r)
    (hLDL : ∀ i j, 1 ≤ i → i ≤ j → j ≤ C.dim →
      C.get i j = (∑ r ∈ Ico 1 i, L i r * D r * L j r) + D i * (if i = j then 1 else L j i)) :
    ∀ (cnt k : Nat) (a F : CovMat K), k + cnt = C.dim → CholInv C a k → MatchLDL C.dim D L a k →
      cholRows tol (k + 1) cnt a = .ok F → MatchLDL C.dim D L F C.dim := by
  intro cnt
  induction cnt with
  | zero =>
    intro k a F hk _ hm h
    simp only [cholRows] at h
    cases h
    have : k = C.dim := by omega
    subst this; exact hm
  | succ cnt ih =>
    intro k a F hk inv hm h
    have hrow := schur_row inv (by omega) hm hLDL
    have hpos : 0 < D (k + 1) := hD (k + 1) (by omega) (by omega)
    simp only [cholRows] at h
    split at h
    · cases h
    · have hp : 0 < a.get (k + 1) (k + 1) := by rw [hrow.1]; exact hpos
      exact ih (k + 1) _ F (by omega) (cholInv_step inv (by omega) hp)
        (matchLDL_step inv (by omega) hm hrow (ne_of_gt hpos)) h

/-- **uniqueness at the dense test**: if `cholDec` accepts, its pivots and multipliers are those of any exact
    `L D Lᵀ` factorisation with positive pivots -/
theorem cholDec_match_ldl {C F : CovMat K} (hC : C.WF) (D : Nat → K) (L : Nat → Nat → K)
    (hD : ∀ r, 1 ≤ r → r ≤ C.dim → 0 < D r)
    (hLDL : ∀ i j, 1 ≤ i → i ≤ j → j ≤ C.dim →
      C.get i j = (∑ r ∈ Ico 1 i, L i r * D r * L j r) + D i * (if i = j then 1 else L j i))
    (h : cholDec C = .ok F) :
    (∀ i, 1 ≤ i → i ≤ C.dim → F.get i i = D i) ∧
    (∀ r j, 1 ≤ r → r < j → j ≤ C.dim → F.get r j = L j r) := by
  unfold cholDec at h
  split at h
  · cases h
  · have hm := cholRows_match (C := C) _ D L hD hLDL C.dim 0 C F (by omega) (cholInv_init hC)
      (fun r h1 h2 => by omega) h
    exact ⟨fun i h1 h2 => (hm i h1 h2).1, fun r j h1 h2 h3 => (hm r h1 (by omega)).2 j h2 h3⟩

/-- accepted pivots are above the relative tolerance -/
theorem cholDec_pivots_gt {C F : CovMat K} (hC : C.WF) (h : cholDec C = .ok F) :
    ∀ i, 1 ≤ i → i ≤ C.dim → tolOf C.dim (maxDiag C) < F.get i i := by
  unfold cholDec at h
  split at h
  · cases h
  · exact cholRows_pivots (C := C) _ (tolOf_nonneg _ _ (maxDiag_nonneg C)) C.dim 0 C F (by omega)
      (cholInv_init hC) (fun i h1 h2 => by omega) h

/-- **dense verdict on a positive definite block**: accepted ⇔ every exact pivot is above `N·ε·max diag` -/
theorem cholDec_ok_iff_of_ldl {C : CovMat K} (hC : C.WF) (hN : 1 ≤ C.dim) (D : Nat → K) (L : Nat → Nat → K)
    (hD : ∀ r, 1 ≤ r → r ≤ C.dim → 0 < D r)
    (hLDL : ∀ i j, 1 ≤ i → i ≤ j → j ≤ C.dim →
      C.get i j = (∑ r ∈ Ico 1 i, L i r * D r * L j r) + D i * (if i = j then 1 else L j i)) :
    (∃ F, cholDec C = .ok F) ↔ ∀ r, 1 ≤ r → r ≤ C.dim → tolOf C.dim (maxDiag C) < D r := by
  constructor
  · rintro ⟨F, h⟩ r h1 h2
    rw [← (cholDec_match_ldl hC D L hD hLDL h).1 r h1 h2]
    exact cholDec_pivots_gt hC h r h1 h2
  · intro h
    obtain ⟨F, hF, _⟩ := cholDec_of_ldl hC hN D L h hLDL
    exact ⟨F, hF⟩

/-- the dense test refuses a non-empty block only with `NonPositiveDefinite` -/
theorem cholDec_reject_kind {C : CovMat K} (hN : 1 ≤ C.dim) (h : ¬ ∃ F, cholDec C = .ok F) :
    cholDec C = .error .NonPositiveDefinite := by
  cases hres : cholDec C with
  | ok F => exact absurd ⟨F, hres⟩ h
  | error e =>
    rcases cholDec_error_kinds C e hres with ⟨_, h0⟩ | he
    · omega
    · rw [he]

theorem adjCholdec_of_cholDec {C F : CovMat K} (h : cholDec C = .ok F) :
    adjCholdec C = .ok (scaleToChol F) := by
  unfold adjCholdec; rw [h]; rfl

/-! ### sparse: the Cholesky factor of an exact `L D Lᵀ` is `√D · Lᵀ`, squared pivots `D` -/

/-- `U = √D · Lᵀ` (upper form) -/
def cholOfLDL (D : Nat → K) (L : Nat → Nat → K) : Nat → Nat → K :=
  fun r j => SqrtFn.sq (D r) * (if r = j then 1 else L j r)

theorem isCholOf_of_ldl (hsq : ∀ x : K, 0 < x → SqrtFn.sq x * SqrtFn.sq x = x ∧ 0 < SqrtFn.sq x)
    {C : CovMat K} (D : Nat → K) (L : Nat → Nat → K)
    (hD : ∀ r, 1 ≤ r → r ≤ C.dim → 0 < D r)
    (hLDL : ∀ i j, 1 ≤ i → i ≤ j → j ≤ C.dim →
      C.get i j = (∑ r ∈ Ico 1 i, L i r * D r * L j r) + D i * (if i = j then 1 else L j i)) :
    IsCholOf C (cholOfLDL D L) ∧
    ∀ i, 1 ≤ i → i ≤ C.dim → cholOfLDL D L i i * cholOfLDL D L i i = D i := by
  have hdiag : ∀ i, cholOfLDL D L i i = SqrtFn.sq (D i) := by
    intro i; unfold cholOfLDL; rw [if_pos rfl, mul_one]
  refine ⟨⟨?_, ?_⟩, ?_⟩
  · intro i h1 h2
    rw [hdiag]; exact (hsq _ (hD i h1 h2)).2
  · intro i j h1 h2 h3
    rw [hLDL i j h1 h2 h3, ← Finset.Ico_add_one_right_eq_Icc, Finset.sum_Ico_succ_top h1]
    congr 1
    · apply Finset.sum_congr rfl
      intro r hr
      rw [Finset.mem_Ico] at hr
      unfold cholOfLDL
      rw [if_neg (by omega), if_neg (by omega)]
      have := (hsq _ (hD r hr.1 (by omega))).1
      calc L i r * D r * L j r
          = L i r * (SqrtFn.sq (D r) * SqrtFn.sq (D r)) * L j r := by rw [this]
        _ = SqrtFn.sq (D r) * L i r * (SqrtFn.sq (D r) * L j r) := by ring
    · rw [hdiag]
      unfold cholOfLDL
      have := (hsq _ (hD i h1 (by omega))).1
      calc D i * (if i = j then 1 else L j i)
          = SqrtFn.sq (D i) * SqrtFn.sq (D i) * (if i = j then 1 else L j i) := by rw [this]
        _ = SqrtFn.sq (D i) * (SqrtFn.sq (D i) * (if i = j then 1 else L j i)) := by ring
  · intro i h1 h2
    rw [hdiag]; exact (hsq _ (hD i h1 h2)).1

/-- **sparse verdict on a positive definite block**: accepted ⇔ every exact pivot is `≥ tol` -/
theorem bdCholBlock_ok_iff_of_ldl
    (hsq : ∀ x : K, 0 < x → SqrtFn.sq x * SqrtFn.sq x = x ∧ 0 < SqrtFn.sq x)
    {C : CovMat K} (hC : C.WF) (tol : K) (htol : 0 < tol) (D : Nat → K) (L : Nat → Nat → K)
    (hD : ∀ r, 1 ≤ r → r ≤ C.dim → 0 < D r)
    (hLDL : ∀ i j, 1 ≤ i → i ≤ j → j ≤ C.dim →
      C.get i j = (∑ r ∈ Ico 1 i, L i r * D r * L j r) + D i * (if i = j then 1 else L j i)) :
    (∃ G, bdCholBlock tol C = .ok G) ↔ ∀ r, 1 ≤ r → r ≤ C.dim → tol ≤ D r := by
  obtain ⟨hU, hUd⟩ := isCholOf_of_ldl hsq D L hD hLDL
  constructor
  · rintro ⟨G, h⟩ r h1 h2
    obtain ⟨hG, hp⟩ := bdCholBlock_pivots hsq hC tol htol h
    have e := isCholOf_unique hG hU r r h1 (le_refl _) h2
    have := hp r h1 h2
    rw [show G.get r r = cholOfLDL D L r r from e, hUd r h1 h2] at this
    exact this
  · intro h
    obtain ⟨G, hG, _⟩ := bdCholBlock_of_chol hsq hC tol htol (cholOfLDL D L) hU
      (fun i h1 h2 => by rw [hUd i h1 h2]; exact h i h1 h2)
    exact ⟨G, hG⟩

theorem bdCholBlock_error_of_not_ok (tol : K) (C : CovMat K) (h : ¬ ∃ G, bdCholBlock tol C = .ok G) :
    ∃ C', bdCholBlock tol C = .error C' := by
  cases hres : bdCholBlock tol C with
  | ok G => exact absurd ⟨G, hres⟩ h
  | error C' => exact ⟨C', rfl⟩

/-! ### both accept: the same pivots -/

/-- if both tests accept, the sparse factor is the dense `L D Lᵀ` scaled: squared sparse pivots = dense pivots,
    and the sparse rows are the dense multipliers times the sparse pivot -/
theorem accept_common_pivots (hsq : ∀ x : K, 0 < x → SqrtFn.sq x * SqrtFn.sq x = x ∧ 0 < SqrtFn.sq x)
    {C F G : CovMat K} (hC : C.WF) (tol : K) (htol : 0 < tol)
    (hd : cholDec C = .ok F) (hs : bdCholBlock tol C = .ok G) :
    (∀ i, 1 ≤ i → i ≤ C.dim → G.get i i * G.get i i = F.get i i) ∧
    (∀ i j, 1 ≤ i → i < j → j ≤ C.dim → G.get i j = F.get i j * G.get i i) ∧
    (∀ i, 1 ≤ i → i ≤ C.dim → tolOf C.dim (maxDiag C) < F.get i i ∧ tol ≤ F.get i i) := by
  obtain ⟨hFw, hFd, _, hpos, _, _⟩ := cholDec_reproduces hC hd
  have hag := (sparse_dense_agree hC hsq tol htol (adjCholdec_of_cholDec hd) hs).1
  have hdiag : ∀ i, 1 ≤ i → i ≤ C.dim → G.get i i = SqrtFn.sq (F.get i i) := by
    intro i h1 h2
    rw [hag i i h1 (le_refl _) h2, scaleToChol_get hFw i i h1 (le_refl _) (by rw [hFd]; exact h2), if_pos rfl]
  have hsqr : ∀ i, 1 ≤ i → i ≤ C.dim → G.get i i * G.get i i = F.get i i := by
    intro i h1 h2
    rw [hdiag i h1 h2]
    exact (hsq _ (hpos i h1 h2)).1
  refine ⟨hsqr, ?_, ?_⟩
  · intro i j h1 h2 h3
    rw [hdiag i h1 (by omega), hag i j h1 (by omega) h3,
      scaleToChol_get hFw i j h1 (by omega) (by rw [hFd]; exact h3), if_neg (by omega)]
  · intro i h1 h2
    refine ⟨cholDec_pivots_gt hC hd i h1 h2, ?_⟩
    rw [← hsqr i h1 h2]
    exact (bdCholBlock_pivots hsq hC tol htol hs).2 i h1 h2

/-! ### the two gaps -/

/-- **C10-TINY**: every exact pivot above the relative tolerance, one below the absolute one:
    dense (parser, `prepare`) ACCEPTS, sparse (`Homogenization::run`) REJECTS -/
theorem tiny_gap (hsq : ∀ x : K, 0 < x → SqrtFn.sq x * SqrtFn.sq x = x ∧ 0 < SqrtFn.sq x)
    {C : CovMat K} (hC : C.WF) (hN : 1 ≤ C.dim) (tol : K) (htol : 0 < tol) (D : Nat → K) (L : Nat → Nat → K)
    (hLDL : ∀ i j, 1 ≤ i → i ≤ j → j ≤ C.dim →
      C.get i j = (∑ r ∈ Ico 1 i, L i r * D r * L j r) + D i * (if i = j then 1 else L j i))
    (hbig : ∀ r, 1 ≤ r → r ≤ C.dim → tolOf C.dim (maxDiag C) < D r)
    (hsmall : ∃ r, 1 ≤ r ∧ r ≤ C.dim ∧ D r < tol) :
    (∃ F, cholDec C = .ok F ∧ adjCholdec C = .ok (scaleToChol F) ∧
      ∀ i, 1 ≤ i → i ≤ C.dim → F.get i i = D i) ∧
    ∃ C', bdCholBlock tol C = .error C' := by
  have hD : ∀ r, 1 ≤ r → r ≤ C.dim → 0 < D r := fun r h1 h2 =>
    lt_of_le_of_lt (tolOf_nonneg _ _ (maxDiag_nonneg C)) (hbig r h1 h2)
  obtain ⟨F, hF, hFd, _⟩ := cholDec_of_ldl hC hN D L hbig hLDL
  refine ⟨⟨F, hF, adjCholdec_of_cholDec hF, hFd⟩, bdCholBlock_error_of_not_ok tol C ?_⟩
  intro hok
  obtain ⟨r, h1, h2, hlt⟩ := hsmall
  exact absurd ((bdCholBlock_ok_iff_of_ldl hsq hC tol htol D L hD hLDL).mp hok r h1 h2) (not_le.mpr hlt)

/-- **the reverse gap** (ill-conditioned block): every exact pivot `≥ tol` but one `≤ N·ε·max diag`:
    sparse accepts, dense rejects with `NonPositiveDefinite` -/
theorem reverse_gap (hsq : ∀ x : K, 0 < x → SqrtFn.sq x * SqrtFn.sq x = x ∧ 0 < SqrtFn.sq x)
    {C : CovMat K} (hC : C.WF) (hN : 1 ≤ C.dim) (tol : K) (htol : 0 < tol) (D : Nat → K) (L : Nat → Nat → K)
    (hLDL : ∀ i j, 1 ≤ i → i ≤ j → j ≤ C.dim →
      C.get i j = (∑ r ∈ Ico 1 i, L i r * D r * L j r) + D i * (if i = j then 1 else L j i))
    (hbig : ∀ r, 1 ≤ r → r ≤ C.dim → tol ≤ D r)
    (hsmall : ∃ r, 1 ≤ r ∧ r ≤ C.dim ∧ D r ≤ tolOf C.dim (maxDiag C)) :
    (∃ G, bdCholBlock tol C = .ok G ∧ ∀ i, 1 ≤ i → i ≤ C.dim → G.get i i * G.get i i = D i) ∧
    cholDec C = .error .NonPositiveDefinite ∧ adjCholdec C = .error .NonPositiveDefinite := by
  have hD : ∀ r, 1 ≤ r → r ≤ C.dim → 0 < D r := fun r h1 h2 => lt_of_lt_of_le htol (hbig r h1 h2)
  obtain ⟨hU, hUd⟩ := isCholOf_of_ldl hsq D L hD hLDL
  obtain ⟨G, hG, hGU⟩ := bdCholBlock_of_chol hsq hC tol htol (cholOfLDL D L) hU
    (fun i h1 h2 => by rw [hUd i h1 h2]; exact hbig i h1 h2)
  have hrej : cholDec C = .error .NonPositiveDefinite := by
    apply cholDec_reject_kind hN
    intro hok
    obtain ⟨r, h1, h2, hle⟩ := hsmall
    exact absurd ((cholDec_ok_iff_of_ldl hC hN D L hD hLDL).mp hok r h1 h2) (not_lt.mpr hle)
  refine ⟨⟨G, hG, ?_⟩, hrej, (adjCholdec_error_iff C _).mpr hrej⟩
  intro i h1 h2
  rw [hGU i i h1 (le_refl _) h2, hUd i h1 h2]

/-! ### scaling `C ↦ f·C` (`C /= m0²` of `prepareProjectEquations`) -/

open Gama.Ls.Net in
theorem scaleBuf_get' (C : CovMat K) (f : K) (i j : Nat) : (scaleBuf C f).get i j = C.get i j * f := by
  unfold CovMat.get
  show (match Packed.idx C.dim C.band i j with
    | none => 0
    | some k => (scaleBuf C f).raw 0 k) = _
  cases Packed.idx C.dim C.band i j with
  | none => simp
  | some k =>
    simp only []
    unfold CovMat.raw CovMat.inBuf scaleBuf
    simp only [Array.size_map]
    split
    · rename_i hk
      simp only [Bool.and_eq_true, decide_eq_true_eq] at hk
      have hlt : k.toNat < C.buf.size := by omega
      simp [Array.getD, hlt]
    · simp

open Gama.Ls.Net in
theorem scaleBuf_WF' (C : CovMat K) (f : K) (h : C.WF) : (scaleBuf C f).WF :=
  ⟨h.band_le, by show ((C.buf.map (· * f)).size : Int) = _; rw [Array.size_map]; exact h.size_eq⟩

theorem foldl_max_scale (g g' : Nat → K) (f : K) (hf : 0 < f) (hg : ∀ r, g' r = g r * f) :
    ∀ (l : List Nat) (q : K), l.foldl (fun q row => Scalar.max (g' row) q) (q * f)
      = l.foldl (fun q row => Scalar.max (g row) q) q * f := by
  intro l
  induction l with
  | nil => intro q; rfl
  | cons a l ih =>
    intro q
    simp only [List.foldl_cons]
    have e : Scalar.max (g' a) (q * f) = Scalar.max (g a) q * f := by
      rw [hg a]
      show (if g a * f < q * f then q * f else g a * f) = (if g a < q then q else g a) * f
      by_cases h : g a < q
      · rw [if_pos h, if_pos (mul_lt_mul_of_pos_right h hf)]
      · rw [if_neg h, if_neg (fun h' => h (lt_of_mul_lt_mul_right h' hf.le))]
    rw [e]
    exact ih _

/-- `max diag` scales with the matrix -/
theorem maxDiag_scaled {C C' : CovMat K} (hdim : C'.dim = C.dim) (f : K) (hf : 0 < f)
    (hget : ∀ i j, C'.get i j = C.get i j * f) : maxDiag C' = maxDiag C * f := by
  unfold maxDiag
  rw [hdim]
  have := foldl_max_scale (fun r => C.get r r) (fun r => C'.get r r) f hf (fun r => hget r r)
    (List.range' 1 C.dim) 0
  rw [zero_mul] at this
  exact this

theorem tolOf_scaled (N : Nat) (q f : K) : tolOf N (q * f) = tolOf N q * f := by
  show (N : K) * epsilon * (q * f) = (N : K) * epsilon * q * f
  ring

/-- the dense test accepts `C' = f·C` if it accepts `C` (`f > 0`): pivots `D·f`, same multipliers, and the
    tolerance `N·ε·max diag` is multiplied by `f` as well -/
theorem cholDec_accept_of_scaled {C C' : CovMat K} (hC : C.WF) (hC' : C'.WF) (hN : 1 ≤ C.dim)
    (hdim : C'.dim = C.dim) (f : K) (hf : 0 < f) (hget : ∀ i j, C'.get i j = C.get i j * f) :
    (∃ F, cholDec C = .ok F) → ∃ F, cholDec C' = .ok F := by
  intro h
  obtain ⟨D, L, hD, hLDL⟩ := (cholDec_ok_iff hC hN).mp h
  refine (cholDec_ok_iff hC' (by omega)).mpr ⟨fun r => D r * f, L, ?_, ?_⟩
  · intro r h1 h2
    rw [hdim, maxDiag_scaled hdim f hf hget, tolOf_scaled]
    exact mul_lt_mul_of_pos_right (hD r h1 (by omega)) hf
  · intro i j h1 h2 h3
    rw [hget, hLDL i j h1 h2 (by omega), add_mul, Finset.sum_mul]
    congr 1
    · apply Finset.sum_congr rfl
      intro r _
      ring
    · ring

open Gama.Ls.Net in
/-- **the dense test is scale invariant**: `CovMat::cholDec` accepts `C·f` iff it accepts `C` (`f > 0`) -/
theorem cholDec_scaleBuf_iff {C : CovMat K} (hC : C.WF) (hN : 1 ≤ C.dim) (f : K) (hf : 0 < f) :
    (∃ F, cholDec (scaleBuf C f) = .ok F) ↔ ∃ F, cholDec C = .ok F := by
  constructor
  · refine cholDec_accept_of_scaled (C := scaleBuf C f) (C' := C) (scaleBuf_WF' C f hC) hC hN rfl (1 / f)
      (by positivity) ?_
    intro i j
    rw [scaleBuf_get']
    field_simp
  · exact cholDec_accept_of_scaled hC (scaleBuf_WF' C f hC) hN rfl f hf (fun i j => scaleBuf_get' C f i j)

/-! ### one-element blocks: concrete witnesses -/

/-- the block `[x]` (`dim = 1`, `band = 0`) -/
def one (x : K) : CovMat K := ⟨1, 0, #[x]⟩

theorem one_WF (x : K) : (one x).WF :=
  ⟨Nat.zero_le 1, by show ((1 : Nat) : Int) = Packed.size 1 0; decide⟩

theorem one_get (x : K) : (one x).get 1 1 = x := by
  simp [one, CovMat.get, Packed.idx, Packed.rowOff, CovMat.raw, CovMat.inBuf]

theorem one_maxDiag (x : K) (hx : 0 ≤ x) : maxDiag (one x) = x := by
  show ((List.range' 1 1).foldl (fun q row => Scalar.max ((one x).get row row) q) (0 : K)) = x
  simp only [List.range', List.foldl_cons, List.foldl_nil]
  rw [one_get]
  show (if x < 0 then 0 else x) = x
  rw [if_neg (not_lt.mpr hx)]

theorem one_ldl (x : K) : ∀ i j, 1 ≤ i → i ≤ j → j ≤ (one x).dim →
    (one x).get i j = (∑ r ∈ Ico 1 i, (fun _ _ => (0 : K)) i r * (fun _ => x) r * (fun _ _ => (0 : K)) j r)
      + (fun _ => x) i * (if i = j then 1 else (fun _ _ => (0 : K)) j i) := by
  intro i j h1 h2 h3
  have h3' : j ≤ 1 := h3
  have hi : i = 1 := by omega
  have hj : j = 1 := by omega
  subst hi; subst hj
  simp [one_get]

theorem one_tolOf_lt (x : K) (hx : 0 < x) : tolOf (one x).dim (maxDiag (one x)) < x := by
  rw [one_maxDiag x hx.le]
  show ((1 : Nat) : K) * ((1 : Nat) / (4503599627370496 : Nat) : K) * x < x
  have : ((1 : Nat) : K) * ((1 : Nat) / (4503599627370496 : Nat) : K) < 1 := by norm_num
  calc ((1 : Nat) : K) * ((1 : Nat) / (4503599627370496 : Nat) : K) * x < 1 * x :=
        mul_lt_mul_of_pos_right this hx
    _ = x := one_mul x

/-- the dense test accepts EVERY positive variance, however small (relative tolerance `ε·x < x`) -/
theorem one_dense_accepts (x : K) (hx : 0 < x) :
    ∃ F, cholDec (one x) = .ok F ∧ adjCholdec (one x) = .ok (scaleToChol F) ∧ F.get 1 1 = x := by
  obtain ⟨F, hF, hd, _⟩ := cholDec_of_ldl (one_WF x) (le_refl _) (fun _ => x) (fun _ _ => 0)
    (fun r _ _ => one_tolOf_lt x hx) (one_ldl x)
  exact ⟨F, hF, adjCholdec_of_cholDec hF, hd 1 (le_refl _) (le_refl _)⟩

/-- the sparse test accepts a positive variance iff it is `≥ tol` -/
theorem one_sparse_iff (hsq : ∀ x : K, 0 < x → SqrtFn.sq x * SqrtFn.sq x = x ∧ 0 < SqrtFn.sq x)
    (tol : K) (htol : 0 < tol) (x : K) (hx : 0 < x) :
    (∃ G, bdCholBlock tol (one x) = .ok G) ↔ tol ≤ x := by
  rw [bdCholBlock_ok_iff_of_ldl hsq (one_WF x) tol htol (fun _ => x) (fun _ _ => 0) (fun _ _ _ => hx) (one_ldl x)]
  exact ⟨fun h => h 1 (le_refl _) (le_refl _), fun h _ _ _ => h⟩

open Gama.Ls.Net in
theorem scaleBuf_one (x f : K) : scaleBuf (one x) f = one (x * f) := by
  simp [scaleBuf, one]

/-- `bdTol` of the model is `1/10^14` -/
theorem bdTol_eq : (bdTol : K) = 1 / 10 ^ 14 := by
  show (if true then ((1 : Nat) : K) / 10 ^ 14 else ((1 : Nat) : K) * 10 ^ 14) = 1 / 10 ^ 14
  rw [if_pos rfl, Nat.cast_one]

/-! ### block lists: `BlockDiagonal::cholDec`, `Net.factors`, `Env.factorsU` on a single block -/

/-- a rejected single block: `BlockDiagonal::cholDec` returns block number 1 (`Homogenization::run` then throws
    `NonPositiveDefinite`, `Hom.run_spec`) -/
theorem bdCholDec_single_error (tol : K) (C C' : CovMat K) (h : bdCholBlock tol C = .error C') :
    (bdCholDec tol [C]).1 = 1 := by
  simp [bdCholDec, bdCholDec.go, h]

theorem bdCholDec_single_ok (tol : K) (C G : CovMat K) (h : bdCholBlock tol C = .ok G) :
    (bdCholDec tol [C]).1 = 0 := by
  simp [bdCholDec, bdCholDec.go, h]

open Gama.Ls.Net in
/-- `prepareProjectEquations`' loop of `Adj::choldec` on a single accepted cofactor block -/
theorem factors_single_ok (C F : CovMat K) (h : cholDec C = .ok F) :
    factors [C] = .ok [scaleToChol F] := by
  simp [factors, adjCholdec_of_cholDec h]

open Gama.Ls.Net in
theorem factors_single_error (C : CovMat K) (e : Err) (h : cholDec C = .error e) :
    factors [C] = .error (errOf e) := by
  simp [factors, (adjCholdec_error_iff C e).mpr h]

/-- `Homogenization::run`'s `BlockDiagonal::cholDec(1e-14)` on a single rejected block -/
theorem factorsU_single_error (d w : Nat) (v : Array K) (C' : CovMat K)
    (h : bdCholBlock (bdTol : K) ⟨d, w, v⟩ = .error C') :
    Gama.Ls.Env.factorsU [(⟨d, w, v⟩ : Gama.Ls.CovBlock K)] = none := by
  have h' : bdCholBlock (Gama.Ls.Env.bdTol : K) (Gama.Ls.Env.blockMat (⟨d, w, v⟩ : Gama.Ls.CovBlock K))
      = .error C' := h
  simp [Gama.Ls.Env.factorsU, h']

theorem factorsU_single_ok (d w : Nat) (v : Array K) (G : CovMat K)
    (h : bdCholBlock (bdTol : K) ⟨d, w, v⟩ = .ok G) :
    Gama.Ls.Env.factorsU [(⟨d, w, v⟩ : Gama.Ls.CovBlock K)] = some [G] := by
  have h' : bdCholBlock (Gama.Ls.Env.bdTol : K) (Gama.Ls.Env.blockMat (⟨d, w, v⟩ : Gama.Ls.CovBlock K))
      = .ok G := h
  simp [Gama.Ls.Env.factorsU, h']

/-! ### diagonal `2 × 2` blocks `diag(x, y)` (`dim = 2`, `band = 0`): witnesses with a RELATIVE tolerance -/

def two (x y : K) : CovMat K := ⟨2, 0, #[x, y]⟩

theorem two_WF (x y : K) : (two x y).WF :=
  ⟨Nat.zero_le 2, by show ((2 : Nat) : Int) = Packed.size 2 0; decide⟩

theorem two_get11 (x y : K) : (two x y).get 1 1 = x := by
  simp [two, CovMat.get, Packed.idx, Packed.rowOff, CovMat.raw, CovMat.inBuf]

theorem two_get22 (x y : K) : (two x y).get 2 2 = y := by
  simp [two, CovMat.get, Packed.idx, Packed.rowOff, CovMat.raw, CovMat.inBuf]

theorem two_get12 (x y : K) : (two x y).get 1 2 = 0 :=
  get_outside (two x y) (by omega) (by show 2 > 1 + 0; omega)

/-- the pivots of `diag(x, y)` -/
def twoD (x y : K) : Nat → K := fun r => if r = 1 then x else y

theorem two_ldl (x y : K) : ∀ i j, 1 ≤ i → i ≤ j → j ≤ (two x y).dim →
    (two x y).get i j = (∑ r ∈ Ico 1 i, (fun _ _ => (0 : K)) i r * twoD x y r * (fun _ _ => (0 : K)) j r)
      + twoD x y i * (if i = j then 1 else (fun _ _ => (0 : K)) j i) := by
  intro i j h1 h2 h3
  have h3' : j ≤ 2 := h3
  have hij : (i = 1 ∧ j = 1) ∨ (i = 1 ∧ j = 2) ∨ (i = 2 ∧ j = 2) := by omega
  rcases hij with ⟨rfl, rfl⟩ | ⟨rfl, rfl⟩ | ⟨rfl, rfl⟩
  · simp [two_get11, twoD]
  · simp [two_get12, twoD]
  · simp [two_get22, twoD]

theorem two_maxDiag (x y : K) (hx : 0 ≤ x) (hyx : y ≤ x) : maxDiag (two x y) = x := by
  show ((List.range' 1 2).foldl (fun q row => Scalar.max ((two x y).get row row) q) (0 : K)) = x
  simp only [List.range', List.foldl_cons, List.foldl_nil]
  rw [two_get11, two_get22]
  show (if y < (if x < 0 then 0 else x) then (if x < 0 then 0 else x) else y) = x
  rw [if_neg (not_lt.mpr hx)]
  by_cases h : y < x
  · rw [if_pos h]
  · rw [if_neg h]; exact le_antisymm hyx (not_lt.mp h)

/-- `N·ε·max diag` of `diag(x, y)`, `0 ≤ y ≤ x`: `2·2⁻⁵²·x = x / 2⁵¹` -/
theorem two_tolOf (x y : K) (hx : 0 ≤ x) (hyx : y ≤ x) :
    tolOf (two x y).dim (maxDiag (two x y)) = x / 2251799813685248 := by
  rw [two_maxDiag x y hx hyx]
  show ((2 : Nat) : K) * ((1 : Nat) / (4503599627370496 : Nat) : K) * x = x / 2251799813685248
  push_cast
  ring

/-! ### the sparse test is not scale invariant -/

open Gama.Ls.Net in
theorem sparse_not_scale_invariant (hsq : ∀ x : K, 0 < x → SqrtFn.sq x * SqrtFn.sq x = x ∧ 0 < SqrtFn.sq x) :
    (∃ G, bdCholBlock (1 / 100 : K) (one 1) = .ok G) ∧
    (∃ C', bdCholBlock (1 / 100 : K) (scaleBuf (one 1) (1 / 1000)) = .error C') := by
  have ht : (0 : K) < 1 / 100 := by norm_num
  refine ⟨(one_sparse_iff hsq _ ht 1 one_pos).mpr (by norm_num), ?_⟩
  rw [scaleBuf_one]
  apply bdCholBlock_error_of_not_ok
  intro hok
  have := (one_sparse_iff hsq _ ht ((1 : K) * (1 / 1000)) (by norm_num)).mp hok
  norm_num at this

end Field
end Gama.Cov
