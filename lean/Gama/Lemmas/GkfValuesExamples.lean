/-
  Concrete documents with real attribute strings for the non-vacuity examples of Props/C11Values.lean (definitions only).
-/
import Gama.Lemmas.GkfValues
namespace Gama.Gkf.ValuesEx
open Gama.Gkf

def c (n v : String) : CAttr := ⟨n, v.toList⟩
def a (n : String) : Attr := ⟨n, true⟩

/-- a document with real strings: floats with sign / exponent / blanks, a direction in degrees `d-m-s`, the three words of
    `distance-stdev`, `from` inherited from `<obs>`, two `<cov-mat>` with text in two pieces -/
def exEvs : List CEvent :=
  [.start .gama_xml [c "xmlns" "http://www.gnu.org/software/gama/gama-local"],
   .start .network [c "axes-xy" "ne", c "epoch" "2020.5"],
   .start .parameters [c "sigma-apr" "10", c "conf-pr" " 0.95", c "latitude" "50", c "algorithm" "svd"], .stop true,
   .start .points_observations [c "distance-stdev" "5 3 1", c "direction-stdev" "10"],
   .start .point_ [c "id" "A", c "x" "1.5", c "y" "-2e1", c "fix" "xy"], .stop true,
   .start .obs [c "from" "A"],
   .start .distance [c "to" "B", c "val" "+100.25"], .stop true,
   .start .direction [c "to" "B", c "val" "10-20-30.5", c "stdev" "3"], .stop true,
   .start .cov_mat [c "dim" "2", c "band" "1"], .text " 4 0.1 ".toList, .text "4".toList, .stop true,
   .stop true,
   .start .coordinates [], .start .point_ [c "id" "A", c "z" "3"], .stop true,
   .start .cov_mat [c "dim" "1", c "band" "0"], .text "1".toList, .stop true, .stop true,
   .stop true, .stop true, .stop true]

def exDoc : Doc :=
  { attrs := [a "xmlns"], netAttrs := [a "axes-xy", a "epoch"],
    items := [.parameters [a "sigma-apr", a "conf-pr", a "latitude", a "algorithm"],
              .pointsObs [a "distance-stdev", a "direction-stdev"]
                [.point ⟨.point_, [a "id", a "x", a "y", a "fix"]⟩,
                 .cluster ⟨.obs, [a "from"], [⟨.distance, [a "to", a "val"]⟩, ⟨.direction, [a "to", a "val", a "stdev"]⟩],
                           some ⟨[a "dim", a "band"], [" 4 0.1 ".toList, "4".toList]⟩⟩,
                 .cluster ⟨.coords, [], [⟨.point_, [a "id", a "z"]⟩], some ⟨[a "dim", a "band"], ["1".toList]⟩⟩]] }

end Gama.Gkf.ValuesEx
