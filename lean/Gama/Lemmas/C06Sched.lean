/-
  C06 — lemmas about the scheduler of the Acord2 strategies (Gama/Model/Acord2.lean: `Acord2::execute`,
  `Acord2::get_medians`) for ANY number of strategies, ANY number of rounds, any fuel:
  invariants and monotone relations carried through a whole `execute`, termination of its do-while,
  the instantiation with the soundness invariant of the four modelled strategies, the precise exception
  (AcordVector overwrites a given xy) and the abstract "more observations" machine.
-/
import Gama.Lemmas.C06Acord
import Gama.Model.Acord2
open Gama Gama.Cogo Gama.Median Gama.C06R Gama.C06L Gama.Acord Gama.C06A

namespace Gama.C06S
open Real

set_option linter.unusedSectionVars false
set_option linter.unusedVariables false

/-! ## generic folds -/

theorem foldl_inv {α β : Type} (I : α → Prop) (f : α → β → α) (l : List β)
    (h : ∀ a b, b ∈ l → I a → I (f a b)) : ∀ a, I a → I (l.foldl f a) := by
  induction l with
  | nil => intro a ha; exact ha
  | cons b bs ih =>
    intro a ha
    simp only [List.foldl_cons]
    exact ih (fun a' b' hb' => h a' b' (by simp [hb'])) _ (h a b (by simp) ha)

/-- a reflexive transitive relation that holds across every step (for states satisfying an invariant the
    steps preserve) holds across the fold -/
theorem foldl_rel {α β : Type} (I : α → Prop) (R : α → α → Prop) (hr : ∀ a, R a a)
    (ht : ∀ a b c, R a b → R b c → R a c) (f : α → β → α) (l : List β)
    (h : ∀ a b, b ∈ l → I a → I (f a b) ∧ R a (f a b)) (a : α) (ha : I a) :
    I (l.foldl f a) ∧ R a (l.foldl f a) :=
  foldl_inv (fun x => I x ∧ R a x) f l
    (fun x b hb hx => ⟨(h x b hb hx.1).1, ht _ _ _ hx.2 (h x b hb hx.1).2⟩) a ⟨ha, hr a⟩

/-! ## Part 1/2 (abstract): invariants and monotone relations through `execute` -/

section abstract
variable {S : Type}

theorem runAll_inv (Inv : S → Prop) (algs : List (Alg S)) (h : ∀ a ∈ algs, ∀ s, Inv s → Inv (a.exec s)) :
    ∀ s, Inv s → Inv (runAll algs s) := by
  intro s hs
  unfold runAll
  exact foldl_inv Inv (fun s a => a.exec s) algs (fun s a ha hs => h a ha s hs) s hs

theorem round_algs_sub (book : S → S) (algs : List (Alg S)) (s : S) :
    ∀ a ∈ (round book algs s).1, a ∈ algs := fun a ha => (List.mem_filter.mp ha).1

theorem round_inv (Inv : S → Prop) (book : S → S) (hb : ∀ s, Inv s → Inv (book s)) (algs : List (Alg S))
    (h : ∀ a ∈ algs, ∀ s, Inv s → Inv (a.exec s)) (s : S) (hs : Inv s) : Inv (round book algs s).2 :=
  hb _ (runAll_inv Inv algs h s hs)

/-- the do-while: any fuel, any number of turns, the list of strategies shrinking on the way -/
theorem loop_inv (measure : S → Nat) (Inv : S → Prop) (book : S → S) (hb : ∀ s, Inv s → Inv (book s)) :
    ∀ (fuel : Nat) (algs : List (Alg S)), (∀ a ∈ algs, ∀ s, Inv s → Inv (a.exec s)) → ∀ s, Inv s →
      Inv (loop measure book fuel algs s).state ∧ ∀ a ∈ (loop measure book fuel algs s).algs, a ∈ algs := by
  intro fuel
  induction fuel with
  | zero => intro algs _ s hs; exact ⟨hs, fun a ha => ha⟩
  | succ n ih =>
    intro algs h s hs
    have h1 := round_inv Inv book hb algs h s hs
    have h2 := round_algs_sub book algs s
    simp only [loop]
    split
    · obtain ⟨a1, a2⟩ := ih (round book algs s).1 (fun a ha => h a (h2 a ha)) (round book algs s).2 h1
      exact ⟨a1, fun a ha => h2 a (a2 a ha)⟩
    · exact ⟨h1, h2⟩

/-- **Part 1 (abstract)** `Acord2::execute` preserves every invariant that every strategy of the list and the
    end-of-round bookkeeping preserve -/
theorem acord_execute_sound_abstract (measure : S → Nat) (Inv : S → Prop) (book : S → S)
    (hb : ∀ s, Inv s → Inv (book s)) (fuel : Nat) (algs : List (Alg S))
    (h : ∀ a ∈ algs, ∀ s, Inv s → Inv (a.exec s)) (s : S) (hs : Inv s) :
    Inv (executeG measure book fuel algs s).state := by
  unfold executeG
  split
  · exact (loop_inv measure Inv book hb fuel algs h s hs).1
  · exact hs

/-- the strategies that are left are strategies of the original list -/
theorem executeG_algs_sub (measure : S → Nat) (book : S → S) (fuel : Nat) (algs : List (Alg S)) (s : S) :
    ∀ a ∈ (executeG measure book fuel algs s).algs, a ∈ algs := by
  unfold executeG
  split
  · exact (loop_inv measure (fun _ => True) book (fun _ _ => trivial) fuel algs (fun _ _ _ _ => trivial) s trivial).2
  · exact fun a ha => ha

/-- **Part 2 (abstract)**, with an invariant: a reflexive transitive relation that holds across every strategy
    step and across the bookkeeping — for states satisfying an invariant all of them preserve — holds between the
    state before and after `execute` -/
theorem acord_execute_monotone_inv (measure : S → Nat) (Inv : S → Prop) (R : S → S → Prop) (hr : ∀ s, R s s)
    (ht : ∀ a b c, R a b → R b c → R a c) (book : S → S)
    (hb : ∀ s, Inv s → Inv (book s) ∧ R s (book s)) (fuel : Nat) (algs : List (Alg S))
    (h : ∀ a ∈ algs, ∀ s, Inv s → Inv (a.exec s) ∧ R s (a.exec s)) (s : S) (hs : Inv s) :
    Inv (executeG measure book fuel algs s).state ∧ R s (executeG measure book fuel algs s).state :=
  acord_execute_sound_abstract measure (fun x => Inv x ∧ R s x) book
    (fun x hx => ⟨(hb x hx.1).1, ht _ _ _ hx.2 (hb x hx.1).2⟩) fuel algs
    (fun a ha x hx => ⟨(h a ha x hx.1).1, ht _ _ _ hx.2 (h a ha x hx.1).2⟩) s ⟨hs, hr s⟩

/-- **Part 2 (abstract)** as stated: no invariant needed -/
theorem acord_execute_monotone_abstract (measure : S → Nat) (R : S → S → Prop) (hr : ∀ s, R s s)
    (ht : ∀ a b c, R a b → R b c → R a c) (book : S → S) (hb : ∀ s, R s (book s)) (fuel : Nat)
    (algs : List (Alg S)) (h : ∀ a ∈ algs, ∀ s, R s (a.exec s)) (s : S) :
    R s (executeG measure book fuel algs s).state :=
  (acord_execute_monotone_inv measure (fun _ => True) R hr ht book (fun s _ => ⟨trivial, hb s⟩) fuel algs
    (fun a ha s _ => ⟨trivial, h a ha s⟩) s trivial).2

/-! ## Part 3 (abstract): termination of the do-while -/

/-- the loop goes on only after a turn that strictly decreased the measure (and left it positive) -/
theorem loop_succ (measure : S → Nat) (book : S → S) (fuel : Nat) (algs : List (Alg S)) (s : S) :
    (measure (round book algs s).2 ≠ 0 ∧ measure (round book algs s).2 < measure s ∧
      loop measure book (fuel + 1) algs s =
        { loop measure book fuel (round book algs s).1 (round book algs s).2 with
          rounds := (loop measure book fuel (round book algs s).1 (round book algs s).2).rounds + 1 }) ∨
    (¬ (measure (round book algs s).2 ≠ 0 ∧ measure (round book algs s).2 < measure s) ∧
      loop measure book (fuel + 1) algs s = ⟨(round book algs s).1, (round book algs s).2, true, 1⟩) := by
  by_cases hc : measure (round book algs s).2 ≠ 0 ∧ measure (round book algs s).2 < measure s
  · left; refine ⟨hc.1, hc.2, ?_⟩; simp only [loop]; rw [if_pos hc]
  · right; refine ⟨hc, ?_⟩; simp only [loop]; rw [if_neg hc]

/-- fuel above the measure is never used up -/
theorem loop_fuel (measure : S → Nat) (book : S → S) :
    ∀ (fuel : Nat) (algs : List (Alg S)) (s : S), measure s < fuel → ∀ k,
      loop measure book (fuel + k) algs s = loop measure book fuel algs s ∧
      (loop measure book fuel algs s).finished = true := by
  intro fuel
  induction fuel with
  | zero => intro algs s h; exact absurd h (Nat.not_lt_zero _)
  | succ n ih =>
    intro algs s h k
    have e : n + 1 + k = (n + k) + 1 := by omega
    rw [e]
    rcases loop_succ measure book (n + k) algs s with ⟨c1, c2, e1⟩ | ⟨c, e1⟩ <;>
      rcases loop_succ measure book n algs s with ⟨d1, d2, e2⟩ | ⟨d, e2⟩
    · obtain ⟨i1, i2⟩ := ih (round book algs s).1 (round book algs s).2 (by omega) k
      rw [e1, e2, i1]; exact ⟨rfl, i2⟩
    · exact absurd ⟨c1, c2⟩ d
    · exact absurd ⟨d1, d2⟩ c
    · rw [e1, e2]; exact ⟨rfl, rfl⟩

/-- the number of turns of the loop is bounded by the measure at entry (by 1 if that is 0) -/
theorem loop_rounds (measure : S → Nat) (book : S → S) :
    ∀ (fuel : Nat) (algs : List (Alg S)) (s : S),
      (loop measure book fuel algs s).rounds ≤ max 1 (measure s) := by
  intro fuel
  induction fuel with
  | zero => intro algs s; simp [loop]
  | succ n ih =>
    intro algs s
    rcases loop_succ measure book n algs s with ⟨c1, c2, e1⟩ | ⟨c, e1⟩
    · have := ih (round book algs s).1 (round book algs s).2
      rw [e1]; simp only; omega
    · rw [e1]; simp only; omega

/-- **Part 3** with `fuel = measure + 1` the loop of `Acord2::execute` is never cut short: more fuel gives the
    same result, the run is `finished`, and it takes at most `measure` turns -/
theorem acord_execute_terminates_abstract (measure : S → Nat) (book : S → S) (algs : List (Alg S)) (s : S) (k : Nat) :
    executeG measure book (measure s + 1 + k) algs s = executeG measure book (measure s + 1) algs s ∧
    (executeG measure book (measure s + 1) algs s).finished = true ∧
    ∀ fuel, (executeG measure book fuel algs s).rounds ≤ measure s := by
  unfold executeG
  by_cases h0 : 0 < measure s
  · simp only [if_pos h0]
    obtain ⟨a, b⟩ := loop_fuel measure book (measure s + 1) algs s (by omega) k
    refine ⟨a, b, fun fuel => ?_⟩
    have := loop_rounds measure book fuel algs s
    omega
  · simp only [if_neg h0]
    exact ⟨by trivial, by trivial, fun _ => Nat.zero_le _⟩

/-- every turn after which the loop goes on strictly decreases the measure: the state after `n + 1` turns of a run
    that takes more than `n + 1` turns -/
theorem loop_continue_decreases (measure : S → Nat) (book : S → S) (fuel : Nat) (algs : List (Alg S)) (s : S)
    (h : 1 < (loop measure book (fuel + 1) algs s).rounds) :
    measure (round book algs s).2 < measure s ∧ measure (round book algs s).2 ≠ 0 := by
  rcases loop_succ measure book fuel algs s with ⟨c1, c2, _⟩ | ⟨_, e1⟩
  · exact ⟨c2, c1⟩
  · rw [e1] at h; simp at h

end abstract

/-! ## single writes to the shared state -/

section writes
variable {ι : Type} [DecidableEq ι]

/-- flags and `missing` sets: "a known point never becomes unknown, the missing sets never grow" -/
structure StFlags (s s' : St ι ℝ) : Prop where
  fxy : ∀ i, (s.pd i).bxy = true → (s'.pd i).bxy = true
  fz : ∀ i, (s.pd i).bz = true → (s'.pd i).bz = true
  mxy : Sub s.missXY s'.missXY
  mz : Sub s.missZ s'.missZ

theorem StFlags.refl (s : St ι ℝ) : StFlags s s := ⟨fun _ h => h, fun _ h => h, Sub.refl _, Sub.refl _⟩
theorem StFlags.trans {a b c : St ι ℝ} (h1 : StFlags a b) (h2 : StFlags b c) : StFlags a c :=
  ⟨fun i h => h2.fxy i (h1.fxy i h), fun i h => h2.fz i (h1.fz i h), h1.mxy.trans h2.mxy, h1.mz.trans h2.mz⟩

/-- `PD_[pt].set_xy(a, b); missing_xy_.erase(pt);` -/
def wrXY (s : St ι ℝ) (pt : ι) (a b : ℝ) : St ι ℝ :=
  { s with pd := s.pd.upd pt ((s.pd pt).setXY a b), missXY := erase s.missXY pt }
/-- `PD_[i].set_z(v); missing_z_.erase(i);` -/
def wrZ (s : St ι ℝ) (i : ι) (v : ℝ) : St ι ℝ :=
  { s with pd := s.pd.upd i ((s.pd i).setZ v), missZ := erase s.missZ i }

theorem mem_erase {l : List ι} {i j : ι} (h : j ∈ erase l i) : j ∈ l ∧ j ≠ i := by
  unfold erase at h
  obtain ⟨h1, h2⟩ := List.mem_filter.mp h
  exact ⟨h1, by simpa using h2⟩

theorem wrXY_sameZ (s : St ι ℝ) (pt : ι) (a b : ℝ) : SameZ s.pd (wrXY s pt a b).pd := by
  intro i
  by_cases h : i = pt
  · subst h; simp [wrXY, upd_same, LP.setXY]
  · simp [wrXY, upd_other _ _ _ _ h]

theorem wrZ_sameXY (s : St ι ℝ) (pt : ι) (v : ℝ) : SameXY s.pd (wrZ s pt v).pd := by
  intro i
  by_cases h : i = pt
  · subst h; simp [wrZ, upd_same, LP.setZ]
  · simp [wrZ, upd_other _ _ _ _ h]

theorem wrXY_flags (s : St ι ℝ) (pt : ι) (a b : ℝ) : StFlags s (wrXY s pt a b) := by
  refine ⟨fun i hi => ?_, fun i hi => ((wrXY_sameZ s pt a b i).1).trans hi, sub_erase _ _, Sub.refl _⟩
  by_cases h : i = pt
  · subst h; simp [wrXY, upd_same, LP.setXY]
  · simpa [wrXY, upd_other _ _ _ _ h] using hi

theorem wrZ_flags (s : St ι ℝ) (pt : ι) (v : ℝ) : StFlags s (wrZ s pt v) := by
  refine ⟨fun i hi => ((wrZ_sameXY s pt v i).1).trans hi, fun i hi => ?_, Sub.refl _, sub_erase _ _⟩
  by_cases h : i = pt
  · subst h; simp [wrZ, upd_same, LP.setZ]
  · simpa [wrZ, upd_other _ _ _ _ h] using hi

theorem wrXY_keep (s : St ι ℝ) (pt : ι) (a b : ℝ) (h : (s.pd pt).bxy = false) : KeepXY s.pd (wrXY s pt a b).pd := by
  intro i hi
  have hne : i ≠ pt := by rintro rfl; rw [h] at hi; exact absurd hi (by simp)
  have e : (wrXY s pt a b).pd i = s.pd i := upd_other _ _ _ _ hne
  rw [e]; exact ⟨hi, rfl, rfl⟩

theorem wrZ_keep (s : St ι ℝ) (pt : ι) (v : ℝ) (h : (s.pd pt).bz = false) : KeepZ s.pd (wrZ s pt v).pd := by
  intro i hi
  have hne : i ≠ pt := by rintro rfl; rw [h] at hi; exact absurd hi (by simp)
  have e : (wrZ s pt v).pd i = s.pd i := upd_other _ _ _ _ hne
  rw [e]; exact ⟨hi, rfl⟩

theorem wrXY_sound (T : Truth ι) (s : St ι ℝ) (pt : ι) (a b : ℝ) (ha : a = T.x pt) (hb : b = T.y pt)
    (hs : SoundXY T s.pd) : SoundXY T (wrXY s pt a b).pd := by
  intro i hi
  by_cases h : i = pt
  · subst h; simp [wrXY, upd_same, LP.setXY, ha, hb]
  · simp only [wrXY, upd_other _ _ _ _ h] at hi ⊢; exact hs i hi

theorem wrZ_sound (T : Truth ι) (s : St ι ℝ) (pt : ι) (v : ℝ) (hv : v = T.z pt)
    (hs : SoundZ T s.pd) : SoundZ T (wrZ s pt v).pd := by
  intro i hi
  by_cases h : i = pt
  · subst h; simp [wrZ, upd_same, LP.setZ, hv]
  · simp only [wrZ, upd_other _ _ _ _ h] at hi ⊢; exact hs i hi

/-- every point of `missing_xy_` has no xy (the constructor of Acord2 inserts exactly the active points with
    `!test_xy()`): preserved by a write that erases the written point -/
def MissUnkXY (s : St ι ℝ) : Prop := ∀ i ∈ s.missXY, (s.pd i).bxy = false
def MissUnkZ (s : St ι ℝ) : Prop := ∀ i ∈ s.missZ, (s.pd i).bz = false

theorem wrXY_missUnk (s : St ι ℝ) (pt : ι) (a b : ℝ) (h : MissUnkXY s) : MissUnkXY (wrXY s pt a b) := by
  intro i hi
  obtain ⟨h1, h2⟩ := mem_erase (show i ∈ erase s.missXY pt from hi)
  simp only [wrXY, upd_other _ _ _ _ h2]; exact h i h1

theorem wrZ_missUnkXY (s : St ι ℝ) (pt : ι) (v : ℝ) (h : MissUnkXY s) : MissUnkXY (wrZ s pt v) := by
  intro i hi
  rw [(wrZ_sameXY s pt v i).1]; exact h i hi

theorem wrZ_missUnk (s : St ι ℝ) (pt : ι) (v : ℝ) (h : MissUnkZ s) : MissUnkZ (wrZ s pt v) := by
  intro i hi
  obtain ⟨h1, h2⟩ := mem_erase (show i ∈ erase s.missZ pt from hi)
  simp only [wrZ, upd_other _ _ _ _ h2]; exact h i h1

theorem wrXY_missUnkZ (s : St ι ℝ) (pt : ι) (a b : ℝ) (h : MissUnkZ s) : MissUnkZ (wrXY s pt a b) := by
  intro i hi
  rw [(wrXY_sameZ s pt a b i).1]; exact h i hi

end writes

/-! ## Acord2::get_medians, get_medians_z -/

section medians
variable {ι : Type} [DecidableEq ι]

/-- a turn of the loop of `get_medians` does nothing or writes the two medians to a point of `missing_xy_` -/
theorem medXYStep_cases (slope : Bool) (cand : List (ι × ℝ × ℝ)) (s : St ι ℝ) (pt : ι) :
    medXYStep slope cand s pt = s ∨
    (pt ∈ s.missXY ∧ cand.filter (fun c => decide (c.1 = pt)) ≠ [] ∧
      medXYStep slope cand s pt =
        wrXY s pt (median ((cand.filter (fun c => decide (c.1 = pt))).map (·.2.1)))
                  (median ((cand.filter (fun c => decide (c.1 = pt))).map (·.2.2)))) := by
  unfold medXYStep
  generalize cand.filter (fun c => decide (c.1 = pt)) = grp
  cases grp with
  | nil => left; rfl
  | cons c0 cs =>
    simp only
    split
    · rename_i h1
      split
      · right
        simp only [Bool.and_eq_true, decide_eq_true_eq] at h1
        exact ⟨h1.2, by simp, rfl⟩
      · left; rfl
    · left; rfl

theorem medZStep_eq (cand : List (ι × ℝ)) (s : St ι ℝ) (i : ι) :
    medZStep cand s i = wrZ s i (median2 ((cand.filter (fun c => decide (c.1 = i))).map (·.2))) := rfl

theorem median_exact (l : List (ι × ℝ × ℝ)) (pt : ι) (f : ι × ℝ × ℝ → ℝ) (c : ℝ)
    (hne : l.filter (fun c => decide (c.1 = pt)) ≠ [])
    (h : ∀ e ∈ l, e.1 = pt → f e = c) : median ((l.filter (fun c => decide (c.1 = pt))).map f) = c := by
  apply median_const
  · intro h0; exact hne (List.map_eq_nil_iff.mp h0)
  · intro x hx
    obtain ⟨e, he, rfl⟩ := List.mem_map.mp hx
    obtain ⟨h1, h2⟩ := List.mem_filter.mp he
    exact h e h1 (by simpa using h2)

theorem medXYStep_sound (T : Truth ι) (slope : Bool) (cand : List (ι × ℝ × ℝ))
    (hc : ∀ c ∈ cand, c.2.1 = T.x c.1 ∧ c.2.2 = T.y c.1) (s : St ι ℝ) (pt : ι)
    (hs : SoundXY T s.pd ∧ SoundZ T s.pd) :
    SoundXY T (medXYStep slope cand s pt).pd ∧ SoundZ T (medXYStep slope cand s pt).pd := by
  rcases medXYStep_cases slope cand s pt with h | ⟨_, hne, h⟩
  · rw [h]; exact hs
  · rw [h]
    refine ⟨wrXY_sound T s pt _ _ ?_ ?_ hs.1, (wrXY_sameZ s pt _ _).sound hs.2⟩
    · exact median_exact cand pt (·.2.1) _ hne (fun e he hp => hp ▸ (hc e he).1)
    · exact median_exact cand pt (·.2.2) _ hne (fun e he hp => hp ▸ (hc e he).2)

/-- what a turn of `get_medians` does for ARBITRARY candidates: flags and sets monotone, heights untouched,
    `missing_z_` and `candidate_z_` untouched; values of defined xy kept if the points of `missing_xy_` have no xy -/
theorem medXYStep_mono (slope : Bool) (cand : List (ι × ℝ × ℝ)) (s : St ι ℝ) (pt : ι) :
    StFlags s (medXYStep slope cand s pt) ∧ SameZ s.pd (medXYStep slope cand s pt).pd ∧
    (medXYStep slope cand s pt).missZ = s.missZ ∧ (medXYStep slope cand s pt).candZ = s.candZ ∧
    (MissUnkXY s → MissUnkXY (medXYStep slope cand s pt) ∧ KeepXY s.pd (medXYStep slope cand s pt).pd) ∧
    (MissUnkZ s → MissUnkZ (medXYStep slope cand s pt)) := by
  rcases medXYStep_cases slope cand s pt with h | ⟨hm, _, h⟩
  · rw [h]; exact ⟨StFlags.refl _, SameZ.refl _, rfl, rfl, fun hu => ⟨hu, KeepXY.refl _⟩, fun hu => hu⟩
  · rw [h]
    exact ⟨wrXY_flags _ _ _ _, wrXY_sameZ _ _ _ _, rfl, rfl,
      fun hu => ⟨wrXY_missUnk _ _ _ _ hu, wrXY_keep _ _ _ _ (hu pt hm)⟩, fun hu => wrXY_missUnkZ _ _ _ _ hu⟩

variable {P : Type}

theorem getMedians_st (slope : Bool) (g : G ι ℝ P) :
    (getMedians slope g).st = (dedup (g.candXY.map (·.1))).foldl (medXYStep slope g.candXY) g.st ∧
    (getMedians slope g).priv = g.priv := ⟨rfl, rfl⟩

/-- `get_medians` with exact candidates keeps the point list sound (the norm check plays no role) -/
theorem getMedians_sound (T : Truth ι) (slope : Bool) (g : G ι ℝ P)
    (hc : ∀ c ∈ g.candXY, c.2.1 = T.x c.1 ∧ c.2.2 = T.y c.1) (hs : SoundXY T g.st.pd ∧ SoundZ T g.st.pd) :
    SoundXY T (getMedians slope g).st.pd ∧ SoundZ T (getMedians slope g).st.pd := by
  rw [(getMedians_st slope g).1]
  exact foldl_inv (fun s => SoundXY T s.pd ∧ SoundZ T s.pd) _ _
    (fun s pt _ h => medXYStep_sound T slope g.candXY hc s pt h) g.st hs

/-- `get_medians` for ARBITRARY candidates -/
theorem getMedians_mono (slope : Bool) (g : G ι ℝ P) :
    StFlags g.st (getMedians slope g).st ∧ SameZ g.st.pd (getMedians slope g).st.pd ∧
    (getMedians slope g).st.missZ = g.st.missZ ∧ (getMedians slope g).st.candZ = g.st.candZ ∧
    (MissUnkXY g.st → MissUnkXY (getMedians slope g).st ∧ KeepXY g.st.pd (getMedians slope g).st.pd) ∧
    (MissUnkZ g.st → MissUnkZ (getMedians slope g).st) := by
  rw [(getMedians_st slope g).1]
  have key := foldl_rel (fun _ : St ι ℝ => True)
    (fun s s' => StFlags s s' ∧ SameZ s.pd s'.pd ∧ s'.missZ = s.missZ ∧ s'.candZ = s.candZ)
    (fun s => ⟨StFlags.refl s, SameZ.refl _, rfl, rfl⟩)
    (fun a b c h1 h2 => ⟨h1.1.trans h2.1, h1.2.1.trans h2.2.1, h2.2.2.1.trans h1.2.2.1, h2.2.2.2.trans h1.2.2.2⟩)
    (medXYStep slope g.candXY) (dedup (g.candXY.map (·.1)))
    (fun s pt _ _ => ⟨trivial, (medXYStep_mono slope g.candXY s pt).1, (medXYStep_mono slope g.candXY s pt).2.1,
      (medXYStep_mono slope g.candXY s pt).2.2.1, (medXYStep_mono slope g.candXY s pt).2.2.2.1⟩) g.st trivial
  refine ⟨key.2.1, key.2.2.1, key.2.2.2.1, key.2.2.2.2, fun hu => ?_, fun hu => ?_⟩
  · exact foldl_rel MissUnkXY (fun s s' => KeepXY s.pd s'.pd) (fun s => KeepXY.refl _)
      (fun a b c h1 h2 => h1.trans h2) (medXYStep slope g.candXY) _
      (fun s pt _ h => (medXYStep_mono slope g.candXY s pt).2.2.2.2.1 h) g.st hu
  · exact foldl_inv MissUnkZ _ _ (fun s pt _ h => (medXYStep_mono slope g.candXY s pt).2.2.2.2.2 h) g.st hu

/-- `get_medians_z` with exact candidates keeps the point list sound — also when a candidate belongs to a point
    that already has a height (no `hunk` hypothesis, cf. `getMediansZ_props`) -/
theorem getMediansZ_sound (T : Truth ι) (st : St ι ℝ) (hc : ∀ c ∈ st.candZ, c.2 = T.z c.1)
    (hs : SoundXY T st.pd ∧ SoundZ T st.pd) :
    SoundXY T (getMediansZ st).pd ∧ SoundZ T (getMediansZ st).pd := by
  unfold getMediansZ
  refine foldl_inv (fun s => SoundXY T s.pd ∧ SoundZ T s.pd) _ _ (fun s i hi h => ?_) st hs
  rw [medZStep_eq]
  refine ⟨(wrZ_sameXY s i _).sound h.1, wrZ_sound T s i _ ?_ h.2⟩
  obtain ⟨ci, hci, hi1⟩ := List.mem_map.mp (mem_dedup _ i hi)
  apply median2_const
  · intro h0
    have : ci ∈ st.candZ.filter (fun c => decide (c.1 = i)) := List.mem_filter.mpr ⟨hci, by simp [hi1]⟩
    rw [List.map_eq_nil_iff.mp h0] at this; simp at this
  · intro x hx
    obtain ⟨e, he, rfl⟩ := List.mem_map.mp hx
    obtain ⟨h1, h2⟩ := List.mem_filter.mp he
    have : e.1 = i := by simpa using h2
    rw [← this]; exact hc e h1

/-- `get_medians_z` for ARBITRARY candidates: flags and sets monotone, xy untouched; note that the HEIGHT of a
    point that has both a height and a candidate is overwritten (`getMediansZ_overwrites_z`) -/
theorem getMediansZ_flags (st : St ι ℝ) :
    StFlags st (getMediansZ st) ∧ SameXY st.pd (getMediansZ st).pd ∧ (getMediansZ st).missXY = st.missXY ∧
    (MissUnkXY st → MissUnkXY (getMediansZ st)) ∧ (MissUnkZ st → MissUnkZ (getMediansZ st)) := by
  unfold getMediansZ
  have key := foldl_rel (fun _ : St ι ℝ => True)
    (fun s s' => StFlags s s' ∧ SameXY s.pd s'.pd ∧ s'.missXY = s.missXY)
    (fun s => ⟨StFlags.refl s, SameXY.refl _, rfl⟩)
    (fun a b c h1 h2 => ⟨h1.1.trans h2.1, h1.2.1.trans h2.2.1, h2.2.2.trans h1.2.2⟩)
    (medZStep st.candZ) (dedup (st.candZ.map (·.1)))
    (fun s i _ _ => ⟨trivial, by rw [medZStep_eq]; exact ⟨wrZ_flags _ _ _, wrZ_sameXY _ _ _, rfl⟩⟩) st trivial
  refine ⟨key.2.1, key.2.2.1, key.2.2.2, fun hu => ?_, fun hu => ?_⟩
  · exact foldl_inv MissUnkXY _ _ (fun s i _ h => by rw [medZStep_eq]; exact wrZ_missUnkXY _ _ _ h) st hu
  · exact foldl_inv MissUnkZ _ _ (fun s i _ h => by rw [medZStep_eq]; exact wrZ_missUnk _ _ _ h) st hu

end medians

/-! ## the modelled strategies and the bookkeeping on the global state over ℝ -/

section concrete
variable {ι : Type} [DecidableEq ι] {Q : Type}

/-- the global state over ℝ: shared state, `candidate_xy_`, private state of the four modelled strategy objects
    and of the rest (`Q`) -/
abbrev GR (ι Q : Type) := G ι ℝ (Priv ι ℝ Q)

/-- the soundness invariant of a whole `Acord2::execute`: every defined coordinate is the true one, every
    candidate is the true value, the private state of the modelled strategies is consistent (`…AlgOK`), the
    private state of the others satisfies `IR` -/
structure SoundInv (T : Truth ι) (xN : ℝ) (IR : Q → Prop) (g : GR ι Q) : Prop where
  sxy : SoundXY T g.st.pd
  sz : SoundZ T g.st.pd
  cxy : ∀ c ∈ g.candXY, c.2.1 = T.x c.1 ∧ c.2.2 = T.y c.1
  cz : ∀ c ∈ g.st.candZ, c.2 = T.z c.1
  az : AzAlgOK T xN g.priv.az
  hd : HdAlgOK T g.priv.hd
  vec : VecAlgOK T g.priv.vec
  rest : IR g.priv.rest

theorem bookkeeping_eq {P : Type} (slope : Bool) (ct : P → P) (g : G ι ℝ P) :
    (bookkeeping slope ct g).st = { getMediansZ (getMedians slope g).st with candZ := [] } ∧
    (bookkeeping slope ct g).candXY = [] ∧ (bookkeeping slope ct g).priv = ct g.priv := ⟨rfl, rfl, rfl⟩

/-- the bookkeeping hypothesis of `acord_execute_sound` is discharged for the soundness invariant -/
theorem bookkeeping_soundInv (T : Truth ι) (xN : ℝ) (IR : Q → Prop) (slope : Bool) (ct : Q → Q)
    (hct : ∀ q, IR q → IR (ct q)) (g : GR ι Q) (h : SoundInv T xN IR g) :
    SoundInv T xN IR (bookkeeping slope (Priv.clearTraverses ct) g) := by
  obtain ⟨e1, e2, e3⟩ := bookkeeping_eq slope (Priv.clearTraverses ct) g
  have m1 := getMedians_sound T slope g h.cxy ⟨h.sxy, h.sz⟩
  have m2 := getMedians_mono slope g
  have m3 := getMediansZ_sound T (getMedians slope g).st (by rw [m2.2.2.2.1]; exact h.cz) m1
  refine ⟨?_, ?_, ?_, ?_, ?_, ?_, ?_, ?_⟩
  · rw [e1]; exact m3.1
  · rw [e1]; exact m3.2
  · rw [e2]; intro c hc; simp at hc
  · rw [e1]; intro c hc; simp at hc
  · rw [e3]; exact h.az
  · rw [e3]; exact h.hd
  · rw [e3]; exact h.vec
  · rw [e3]; exact hct _ h.rest

theorem azAlg_exec (fuel : Nat) (lt : ι → ι → Bool) (xN : ℝ) (od : List (Cluster ι ℝ)) (g : GR ι Q) :
    ((azAlg fuel lt xN od).exec g).st = (azExecute fuel lt xN od g.priv.az g.st).2 ∧
    ((azAlg fuel lt xN od).exec g).candXY = g.candXY ∧
    ((azAlg fuel lt xN od).exec g).priv = { g.priv with az := (azExecute fuel lt xN od g.priv.az g.st).1 } :=
  ⟨rfl, rfl, rfl⟩

theorem hdAlg_exec (fuel : Nat) (od : List (Cluster ι ℝ)) (g : GR ι Q) :
    (hdExecute fuel od g.priv.hd g.st = none ∧ (hdAlg fuel od).exec g = g) ∨
    (∃ alg' st', hdExecute fuel od g.priv.hd g.st = some (alg', st') ∧
      (hdAlg fuel od).exec g = { g with st := st', priv := { g.priv with hd := alg' } }) := by
  cases hex : hdExecute fuel od g.priv.hd g.st with
  | none => left; exact ⟨rfl, by simp [hdAlg, hex]⟩
  | some r => right; exact ⟨r.1, r.2, rfl, by simp [hdAlg, hex]⟩

theorem vecAlg_exec (fuel : Nat) (od : List (Cluster ι ℝ)) (g : GR ι Q) :
    (vecExecute fuel od g.priv.vec g.st = none ∧ (vecAlg fuel od).exec g = g) ∨
    (∃ alg' st', vecExecute fuel od g.priv.vec g.st = some (alg', st') ∧
      (vecAlg fuel od).exec g = { g with st := st', priv := { g.priv with vec := alg' } }) := by
  cases hex : vecExecute fuel od g.priv.vec g.st with
  | none => left; exact ⟨rfl, by simp [vecAlg, hex]⟩
  | some r => right; exact ⟨r.1, r.2, rfl, by simp [vecAlg, hex]⟩

theorem zdExecute_st (od : List (Cluster ι ℝ)) (alg : ZdAlg) (st : St ι ℝ) :
    (zdExecute od alg st).2.pd = st.pd ∧ (zdExecute od alg st).2.missXY = st.missXY ∧
    (zdExecute od alg st).2.missZ = st.missZ ∧
    ∀ c ∈ (zdExecute od alg st).2.candZ, c ∈ st.candZ ∨ c ∈ zdAll st.pd od := by
  unfold zdExecute
  split
  · exact ⟨rfl, rfl, rfl, fun c hc => Or.inl hc⟩
  · exact ⟨rfl, rfl, rfl, fun c hc => List.mem_append.mp hc⟩

theorem zdAlg_exec (od : List (Cluster ι ℝ)) (g : GR ι Q) :
    ((zdAlg od).exec g).st = (zdExecute od g.priv.zd g.st).2 ∧ ((zdAlg od).exec g).candXY = g.candXY ∧
    ((zdAlg od).exec g).priv = { g.priv with zd := (zdExecute od g.priv.zd g.st).1 } := ⟨rfl, rfl, rfl⟩

/-- AcordAzimuth::execute preserves the soundness invariant (exact azimuths in [0, 2π), true distances) -/
theorem azAlg_soundInv {lt : ι → ι → Bool} (htri : Tri lt) (T : Truth ι) (xN : ℝ) (od : List (Cluster ι ℝ)) (n : Nat)
    (hobsA : ∀ f t v, Obs.azimuth f t v ∈ spObs od → AzDir T xN f t v ∧ 0 ≤ v ∧ v < 2 * π)
    (hobsD : ∀ f t v, Obs.distance f t v ∈ spObs od → v = hd T f t)
    (IR : Q → Prop) (g : GR ι Q) (h : SoundInv T xN IR g) :
    SoundInv T xN IR ((azAlg (n + 1) lt xN od).exec g) := by
  obtain ⟨e1, e2, e3⟩ := azAlg_exec (Q := Q) (n + 1) lt xN od g
  obtain ⟨a1, a2⟩ := azExecute_sound htri T xN od g.priv.az g.st n hobsA hobsD h.az h.sxy
  obtain ⟨_, b2, _, _, b5⟩ := azExecute_mono (n + 1) lt xN od g.priv.az g.st
  refine ⟨?_, ?_, ?_, ?_, ?_, ?_, ?_, ?_⟩
  · rw [e1]; exact a1
  · rw [e1]; exact b2.sound h.sz
  · rw [e2]; exact h.cxy
  · rw [e1, b5]; exact h.cz
  · rw [e3]; exact a2
  · rw [e3]; exact h.hd
  · rw [e3]; exact h.vec
  · rw [e3]; exact h.rest

/-- AcordHdiff::execute preserves the soundness invariant (exact height differences; any fuel: an exhausted
    inner loop leaves the state unchanged) -/
theorem hdAlg_soundInv (T : Truth ι) (xN : ℝ) (fuel : Nat) (od : List (Cluster ι ℝ))
    (hobs : ∀ h ∈ hdAll od, HdOK T h) (IR : Q → Prop) (g : GR ι Q) (h : SoundInv T xN IR g) :
    SoundInv T xN IR ((hdAlg fuel od).exec g) := by
  rcases hdAlg_exec (Q := Q) fuel od g with ⟨_, e⟩ | ⟨alg', st', hex, e⟩
  · rw [e]; exact h
  · rw [e]
    obtain ⟨c1, c2, c3, _, _, _, c7⟩ := hdExecute_props T fuel od _ alg' _ st' hobs h.hd h.sz hex
    exact ⟨c3.sound h.sxy, c1, h.cxy, fun c hc => h.cz c (by rw [← c7]; exact hc), h.az, c2, h.vec, h.rest⟩

/-- AcordVector::execute preserves the soundness invariant (exact vectors) -/
theorem vecAlg_soundInv (T : Truth ι) (xN : ℝ) (fuel : Nat) (od : List (Cluster ι ℝ))
    (hobs : ∀ h ∈ vecAll od ⟨0, 0, 0, 0⟩ [], VecOK T h) (IR : Q → Prop) (g : GR ι Q) (h : SoundInv T xN IR g) :
    SoundInv T xN IR ((vecAlg fuel od).exec g) := by
  rcases vecAlg_exec (Q := Q) fuel od g with ⟨_, e⟩ | ⟨alg', st', hex, e⟩
  · rw [e]; exact h
  · rw [e]
    obtain ⟨c, c2⟩ := vecExecute_props T fuel od _ alg' _ st' hobs h.vec h.sxy h.sz hex
    exact ⟨c.sxy, c.sz, h.cxy, fun x hx => h.cz x (by rw [← c.cand]; exact hx), h.az, h.hd, c2, h.rest⟩

/-- AcordZderived::execute (the execute-only half of `zdRound_sound`: the candidates it appends are the true
    heights; they are published by `get_medians_z` in the bookkeeping) preserves the soundness invariant -/
theorem zdAlg_soundInv (T : Truth ι) (xN : ℝ) (od : List (Cluster ι ℝ)) (hok : OdZdOK T od)
    (IR : Q → Prop) (g : GR ι Q) (h : SoundInv T xN IR g) :
    SoundInv T xN IR ((zdAlg od).exec g) := by
  obtain ⟨e1, e2, e3⟩ := zdAlg_exec (Q := Q) od g
  obtain ⟨z1, _, _, z4⟩ := zdExecute_st od g.priv.zd g.st
  refine ⟨?_, ?_, ?_, ?_, ?_, ?_, ?_, ?_⟩
  · rw [e1, z1]; exact h.sxy
  · rw [e1, z1]; exact h.sz
  · rw [e2]; exact h.cxy
  · rw [e1]; intro c hc
    rcases z4 c hc with hc | hc
    · exact h.cz c hc
    · exact zdAll_sound T g.st.pd h.sxy h.sz od hok c hc
  · rw [e3]; exact h.az
  · rw [e3]; exact h.hd
  · rw [e3]; exact h.vec
  · rw [e3]; exact h.rest

/-- **Part 1** `Acord2::execute` preserves every invariant that every strategy of the list and the bookkeeping
    preserve: any number of strategies, any number of rounds, any fuel -/
theorem acord_execute_sound {P : Type} (Inv : G ι ℝ P → Prop) (slope : Bool) (ct : P → P) (fuel : Nat)
    (algs : List (Alg (G ι ℝ P))) (halgs : ∀ a ∈ algs, ∀ g, Inv g → Inv (a.exec g))
    (hbook : ∀ g, Inv g → Inv (bookkeeping slope ct g)) (g : G ι ℝ P) (hg : Inv g) :
    Inv (execute slope ct fuel algs g).state :=
  acord_execute_sound_abstract measure Inv _ hbook fuel algs halgs g hg

/-- a strategy of the list: one of the four modelled ones on exact observations, or any other object (AcordPolar,
    AcordTraverse, AcordWeakChecks, AcordIntersection) that preserves the soundness invariant -/
def ModelledOrSound (lt : ι → ι → Bool) (T : Truth ι) (xN : ℝ) (od : List (Cluster ι ℝ)) (IR : Q → Prop)
    (a : Alg (GR ι Q)) : Prop :=
  (∃ n, a = azAlg (n + 1) lt xN od) ∨ (∃ f, a = hdAlg f od) ∨ (∃ f, a = vecAlg f od) ∨ a = zdAlg od ∨
  (∀ g, SoundInv T xN IR g → SoundInv T xN IR (a.exec g))

/-- exact observations, as the four modelled strategies read them -/
structure ExactObs (T : Truth ι) (xN : ℝ) (od : List (Cluster ι ℝ)) : Prop where
  az : ∀ f t v, Obs.azimuth f t v ∈ spObs od → AzDir T xN f t v ∧ 0 ≤ v ∧ v < 2 * π
  dist : ∀ f t v, Obs.distance f t v ∈ spObs od → v = hd T f t
  hdiff : ∀ h ∈ hdAll od, HdOK T h
  vec : ∀ h ∈ vecAll od ⟨0, 0, 0, 0⟩ [], VecOK T h
  zd : OdZdOK T od

theorem modelledOrSound_step {lt : ι → ι → Bool} (htri : Tri lt) (T : Truth ι) (xN : ℝ) (od : List (Cluster ι ℝ))
    (IR : Q → Prop) (hobs : ExactObs T xN od) (a : Alg (GR ι Q)) (ha : ModelledOrSound lt T xN od IR a)
    (g : GR ι Q) (h : SoundInv T xN IR g) : SoundInv T xN IR (a.exec g) := by
  rcases ha with ⟨n, rfl⟩ | ⟨f, rfl⟩ | ⟨f, rfl⟩ | rfl | ha
  · exact azAlg_soundInv htri T xN od n hobs.az hobs.dist IR g h
  · exact hdAlg_soundInv T xN f od hobs.hdiff IR g h
  · exact vecAlg_soundInv T xN f od hobs.vec IR g h
  · exact zdAlg_soundInv T xN od hobs.zd IR g h
  · exact ha g h

/-- **Part 1, concrete corollary**: `Acord2::execute` over any list of strategies each of which is AcordAzimuth,
    AcordHdiff, AcordVector, AcordZderived (as modelled, on exact observations) or an unmodelled strategy that
    preserves the invariant: every coordinate in the point list afterwards is the true one.  The bookkeeping
    (`get_medians`, `get_medians_z`, the clears) needs no hypothesis. -/
theorem acord_execute_sound_modelled {lt : ι → ι → Bool} (htri : Tri lt) (T : Truth ι) (xN : ℝ)
    (od : List (Cluster ι ℝ)) (IR : Q → Prop) (ct : Q → Q) (hct : ∀ q, IR q → IR (ct q))
    (hobs : ExactObs T xN od) (slope : Bool) (fuel : Nat) (algs : List (Alg (GR ι Q)))
    (halgs : ∀ a ∈ algs, ModelledOrSound lt T xN od IR a) (g : GR ι Q) (hg : SoundInv T xN IR g) :
    SoundInv T xN IR (execute slope (Priv.clearTraverses ct) fuel algs g).state :=
  acord_execute_sound (SoundInv T xN IR) slope _ fuel algs
    (fun a ha g h => modelledOrSound_step htri T xN od IR hobs a (halgs a ha) g h)
    (fun g h => bookkeeping_soundInv T xN IR slope ct hct g h) g hg

end concrete

/-! ## Part 2 (concrete): what `execute` never undoes -/

section monotone
variable {ι : Type} [DecidableEq ι] {Q : Type}

/-- "a known point never becomes unknown, the missing sets never grow" -/
def FlagsKept {P : Type} (g g' : G ι ℝ P) : Prop := StFlags g.st g'.st
/-- … and the values of defined coordinates are kept too -/
def ValuesKept {P : Type} (g g' : G ι ℝ P) : Prop := KeepXY g.st.pd g'.st.pd ∧ KeepZ g.st.pd g'.st.pd

theorem keepXY_flags {a b : PD ι ℝ} (h : KeepXY a b) : ∀ i, (a i).bxy = true → (b i).bxy = true := fun i hi => (h i hi).1
theorem keepZ_flags {a b : PD ι ℝ} (h : KeepZ a b) : ∀ i, (a i).bz = true → (b i).bz = true := fun i hi => (h i hi).1
theorem sub_of_eq {l l' : List ι} (h : l' = l) : Sub l l' := by rw [h]; exact Sub.refl _

/-- **Part 2** a reflexive transitive relation preserved by every strategy step and by the bookkeeping holds
    between the state before and after `Acord2::execute` -/
theorem acord_execute_monotone {P : Type} (R : G ι ℝ P → G ι ℝ P → Prop) (hr : ∀ g, R g g)
    (ht : ∀ a b c, R a b → R b c → R a c) (slope : Bool) (ct : P → P) (fuel : Nat) (algs : List (Alg (G ι ℝ P)))
    (halgs : ∀ a ∈ algs, ∀ g, R g (a.exec g)) (hbook : ∀ g, R g (bookkeeping slope ct g)) (g : G ι ℝ P) :
    R g (execute slope ct fuel algs g).state :=
  acord_execute_monotone_abstract measure R hr ht _ hbook fuel algs halgs g

/-! ### flags and `missing` sets: all four modelled strategies, ARBITRARY data -/

theorem hdCopyStep_eq (lpd : PD ι ℝ) (s : St ι ℝ) (i : ι) :
    hdCopyStep lpd s i = if (lpd i).bz then wrZ s i (lpd i).z else s := rfl
theorem vecCopyXY_eq (lpd : PD ι ℝ) (s : St ι ℝ) (i : ι) :
    vecCopyXY lpd s i = if (lpd i).bxy then wrXY s i (lpd i).x (lpd i).y else s := rfl

theorem hdCopyStep_flags (lpd : PD ι ℝ) (s : St ι ℝ) (i : ι) : StFlags s (hdCopyStep lpd s i) := by
  rw [hdCopyStep_eq]; split
  · exact wrZ_flags _ _ _
  · exact StFlags.refl _

theorem vecCopyStep_flags (lpd : PD ι ℝ) (s : St ι ℝ) (i : ι) : StFlags s (vecCopyStep lpd s i) := by
  unfold vecCopyStep
  refine StFlags.trans ?_ (hdCopyStep_flags lpd _ i)
  rw [vecCopyXY_eq]; split
  · exact wrXY_flags _ _ _ _
  · exact StFlags.refl _

theorem hdExecute_flags (fuel : Nat) (od : List (Cluster ι ℝ)) (alg alg' : HdAlg ι ℝ) (st st' : St ι ℝ)
    (hex : hdExecute fuel od alg st = some (alg', st')) : StFlags st st' := by
  unfold hdExecute at hex
  simp only at hex
  split at hex
  · cases hex
  · cases hex
    exact (foldl_rel (fun _ : St ι ℝ => True) StFlags StFlags.refl (fun _ _ _ h1 h2 => h1.trans h2) _ _
      (fun s i _ _ => ⟨trivial, hdCopyStep_flags _ s i⟩) st trivial).2

theorem vecExecute_flags (fuel : Nat) (od : List (Cluster ι ℝ)) (alg alg' : VecAlg ι ℝ) (st st' : St ι ℝ)
    (hex : vecExecute fuel od alg st = some (alg', st')) : StFlags st st' := by
  unfold vecExecute at hex
  simp only at hex
  split at hex
  · cases hex
  · cases hex
    exact (foldl_rel (fun _ : St ι ℝ => True) StFlags StFlags.refl (fun _ _ _ h1 h2 => h1.trans h2) _ _
      (fun s i _ _ => ⟨trivial, vecCopyStep_flags _ s i⟩) st trivial).2

theorem azAlg_flags (fuel : Nat) (lt : ι → ι → Bool) (xN : ℝ) (od : List (Cluster ι ℝ)) (g : GR ι Q) :
    FlagsKept g ((azAlg fuel lt xN od).exec g) := by
  obtain ⟨a1, a2, a3, a4, _⟩ := azExecute_mono fuel lt xN od g.priv.az g.st
  exact ⟨keepXY_flags a1, keepZ_flags a2.keep, a3, sub_of_eq a4⟩

theorem hdAlg_flags (fuel : Nat) (od : List (Cluster ι ℝ)) (g : GR ι Q) : FlagsKept g ((hdAlg fuel od).exec g) := by
  rcases hdAlg_exec (Q := Q) fuel od g with ⟨_, e⟩ | ⟨alg', st', hex, e⟩
  · rw [e]; exact StFlags.refl _
  · rw [e]; exact hdExecute_flags fuel od _ alg' _ st' hex

theorem vecAlg_flags (fuel : Nat) (od : List (Cluster ι ℝ)) (g : GR ι Q) : FlagsKept g ((vecAlg fuel od).exec g) := by
  rcases vecAlg_exec (Q := Q) fuel od g with ⟨_, e⟩ | ⟨alg', st', hex, e⟩
  · rw [e]; exact StFlags.refl _
  · rw [e]; exact vecExecute_flags fuel od _ alg' _ st' hex

theorem zdAlg_flags (od : List (Cluster ι ℝ)) (g : GR ι Q) : FlagsKept g ((zdAlg od).exec g) := by
  obtain ⟨z1, z2, z3, _⟩ := zdExecute_st od g.priv.zd g.st
  unfold FlagsKept
  rw [(zdAlg_exec (Q := Q) od g).1]
  exact ⟨fun i hi => by rw [z1]; exact hi, fun i hi => by rw [z1]; exact hi, sub_of_eq z2, sub_of_eq z3⟩

/-- `get_medians`, `get_medians_z` and the clears: flags and sets, ARBITRARY candidates -/
theorem bookkeeping_flags {P : Type} (slope : Bool) (ct : P → P) (g : G ι ℝ P) :
    FlagsKept g (bookkeeping slope ct g) := by
  unfold FlagsKept
  rw [(bookkeeping_eq slope ct g).1]
  have h := (getMedians_mono slope g).1.trans (getMediansZ_flags (getMedians slope g).st).1
  exact ⟨h.fxy, h.fz, h.mxy, h.mz⟩

/-- a strategy of the list: one of the four modelled ones (ARBITRARY data) or any other that keeps flags and sets -/
def ModelledOrFlags (a : Alg (GR ι Q)) : Prop :=
  (∃ f lt xN od, a = azAlg f lt xN od) ∨ (∃ f od, a = hdAlg f od) ∨ (∃ f od, a = vecAlg f od) ∨
  (∃ od, a = zdAlg od) ∨ (∀ g, FlagsKept g (a.exec g))

theorem modelledOrFlags_step (a : Alg (GR ι Q)) (ha : ModelledOrFlags a) (g : GR ι Q) : FlagsKept g (a.exec g) := by
  rcases ha with ⟨f, lt, xN, od, rfl⟩ | ⟨f, od, rfl⟩ | ⟨f, od, rfl⟩ | ⟨od, rfl⟩ | ha
  · exact azAlg_flags f lt xN od g
  · exact hdAlg_flags f od g
  · exact vecAlg_flags f od g
  · exact zdAlg_flags od g
  · exact ha g

/-- **Part 2, flags**: through a whole `Acord2::execute` — ARBITRARY (also inconsistent) data, all four
    modelled strategies, `get_medians`, `get_medians_z` — a point that has xy / z keeps having it and the
    `missing` sets never grow -/
theorem acord_execute_flags_modelled (slope : Bool) (ct : Priv ι ℝ Q → Priv ι ℝ Q) (fuel : Nat)
    (algs : List (Alg (GR ι Q))) (halgs : ∀ a ∈ algs, ModelledOrFlags a) (g : GR ι Q) :
    FlagsKept g (execute slope ct fuel algs g).state :=
  acord_execute_monotone FlagsKept (fun g => StFlags.refl _) (fun _ _ _ h1 h2 => StFlags.trans h1 h2) slope ct fuel
    algs (fun a ha g => modelledOrFlags_step a (halgs a ha) g) (fun g => bookkeeping_flags slope ct g) g

/-- a single round never loses knowledge (hypothesis `ext` of `acord_more_obs_monotone` for the real machine) -/
theorem acord_round_flags_modelled (slope : Bool) (ct : Priv ι ℝ Q → Priv ι ℝ Q) (algs : List (Alg (GR ι Q)))
    (halgs : ∀ a ∈ algs, ModelledOrFlags a) (g : GR ι Q) :
    FlagsKept g (Acord.round (bookkeeping slope ct) algs g).2 :=
  round_inv (fun x => FlagsKept g x) _ (fun x hx => StFlags.trans hx (bookkeeping_flags slope ct x)) algs
    (fun a ha x hx => StFlags.trans hx (modelledOrFlags_step a (halgs a ha) x)) g (StFlags.refl _)

/-! ### values: AcordAzimuth, AcordZderived, `get_medians`, `get_medians_z`

`get_medians` writes only points of `missing_xy_` and `get_medians_z` only points with a candidate; for the
VALUES of defined coordinates to be kept these must be points without xy / without a height:
* `MissUnkXY` (every point of `missing_xy_` has `!test_xy()`) holds after the constructor and IS an invariant of
  every modelled step and of the bookkeeping (each write of an xy erases the point from `missing_xy_`);
* `CandUnk` (every point with a z-candidate has `!test_z()`) holds at the start of a round (`candidate_z_` is
  empty) and is kept by AcordAzimuth and AcordZderived (`zdAll_unknown`), but NOT by AcordHdiff / AcordVector,
  which write heights: AcordVector runs after AcordZderived in the constructor's order, so a height it publishes
  in the same round is overwritten by the median of the candidates (`getMediansZ_overwrites_z`; harmless for
  consistent data: `acord_execute_values_sound`). -/

def CandUnk (s : St ι ℝ) : Prop := ∀ c ∈ s.candZ, (s.pd c.1).bz = false

/-- the invariant under which the value-preserving steps preserve values -/
def ValInv {P : Type} (g : G ι ℝ P) : Prop := MissUnkXY g.st ∧ CandUnk g.st

theorem azStep_eq_wr (xN : ℝ) (st : St ι ℝ) (e : AzEntry ι ℝ) :
    azStep xN st e = st ∨ ∃ i a b, azStep xN st e = wrXY st i a b := by
  rcases azStep_cases xN st e with h | ⟨_, _, _, h⟩ | ⟨_, _, _, h⟩
  · exact Or.inl h
  · exact Or.inr ⟨e.b, _, _, h⟩
  · exact Or.inr ⟨e.a, _, _, h⟩

theorem azExecute_missUnk (fuel : Nat) (lt : ι → ι → Bool) (xN : ℝ) (od : List (Cluster ι ℝ)) (alg : AzAlg ι ℝ)
    (st : St ι ℝ) (h : MissUnkXY st) : MissUnkXY (azExecute fuel lt xN od alg st).2 := by
  show MissUnkXY (List.foldl (azStep xN) st _)
  refine foldl_inv MissUnkXY _ _ (fun s e _ hs => ?_) st h
  rcases azStep_eq_wr xN s e with h | ⟨i, a, b, h⟩
  · rw [h]; exact hs
  · rw [h]; exact wrXY_missUnk _ _ _ _ hs

theorem azAlg_values (fuel : Nat) (lt : ι → ι → Bool) (xN : ℝ) (od : List (Cluster ι ℝ)) (g : GR ι Q)
    (h : ValInv g) : ValInv ((azAlg fuel lt xN od).exec g) ∧ ValuesKept g ((azAlg fuel lt xN od).exec g) := by
  obtain ⟨a1, a2, _, _, a5⟩ := azExecute_mono fuel lt xN od g.priv.az g.st
  refine ⟨⟨azExecute_missUnk fuel lt xN od g.priv.az g.st h.1, fun c hc => ?_⟩, a1, a2.keep⟩
  rw [(azAlg_exec (Q := Q) fuel lt xN od g).1] at hc ⊢
  rw [a5] at hc
  rw [(a2 c.1).1]; exact h.2 c hc

theorem zdAlg_values (od : List (Cluster ι ℝ)) (g : GR ι Q) (h : ValInv g) :
    ValInv ((zdAlg od).exec g) ∧ ValuesKept g ((zdAlg od).exec g) := by
  obtain ⟨z1, z2, _, z4⟩ := zdExecute_st od g.priv.zd g.st
  obtain ⟨e1, _, _⟩ := zdAlg_exec (Q := Q) od g
  refine ⟨⟨fun i hi => ?_, fun c hc => ?_⟩, ?_, ?_⟩
  · rw [e1] at hi ⊢; rw [z2] at hi; rw [z1]; exact h.1 i hi
  · rw [e1] at hc ⊢; rw [z1]
    rcases z4 c hc with hc | hc
    · exact h.2 c hc
    · exact zdAll_unknown g.st.pd od c hc
  · rw [e1, z1]; exact KeepXY.refl _
  · rw [e1, z1]; exact KeepZ.refl _

/-- `get_medians`, `get_medians_z` and the clears keep every defined value — under `ValInv` -/
theorem bookkeeping_values {P : Type} (slope : Bool) (ct : P → P) (g : G ι ℝ P) (h : ValInv g) :
    ValInv (bookkeeping slope ct g) ∧ ValuesKept g (bookkeeping slope ct g) := by
  obtain ⟨_, m2, _, m4, m5, _⟩ := getMedians_mono slope g
  obtain ⟨m6, m7⟩ := m5 h.1
  have hcu : ∀ c ∈ (getMedians slope g).st.candZ, ((getMedians slope g).st.pd c.1).bz = false := by
    intro c hc; rw [m4] at hc; rw [(m2 c.1).1]; exact h.2 c hc
  obtain ⟨n1, n2, _, _⟩ := getMediansZ_mono (getMedians slope g).st hcu
  obtain ⟨_, _, _, n5, _⟩ := getMediansZ_flags (getMedians slope g).st
  unfold ValInv ValuesKept
  rw [(bookkeeping_eq slope ct g).1]
  exact ⟨⟨n5 m6, fun c hc => by simp at hc⟩, m7.trans n2.keep, m2.keep.trans n1⟩

/-- a strategy of the list: AcordAzimuth, AcordZderived, or any other that keeps `ValInv` and the values -/
def ModelledOrValues (a : Alg (GR ι Q)) : Prop :=
  (∃ f lt xN od, a = azAlg f lt xN od) ∨ (∃ od, a = zdAlg od) ∨
  (∀ g, ValInv g → ValInv (a.exec g) ∧ ValuesKept g (a.exec g))

/-- **Part 2, values**: ARBITRARY data; strategies AcordAzimuth, AcordZderived (+ any that keeps values); with
    `missing_xy_` as the constructor builds it and `candidate_z_` empty at entry, every defined coordinate keeps
    flag AND value through a whole `Acord2::execute` -/
theorem acord_execute_values_modelled (slope : Bool) (ct : Priv ι ℝ Q → Priv ι ℝ Q) (fuel : Nat)
    (algs : List (Alg (GR ι Q))) (halgs : ∀ a ∈ algs, ModelledOrValues a) (g : GR ι Q) (hg : ValInv g) :
    ValInv (execute slope ct fuel algs g).state ∧ ValuesKept g (execute slope ct fuel algs g).state :=
  acord_execute_monotone_inv measure ValInv ValuesKept (fun g => ⟨KeepXY.refl _, KeepZ.refl _⟩)
    (fun _ _ _ h1 h2 => ⟨h1.1.trans h2.1, h1.2.trans h2.2⟩) _ (fun g h => bookkeeping_values slope ct g h) fuel algs
    (fun a ha g h => by
      rcases halgs a ha with ⟨f, lt, xN, od, rfl⟩ | ⟨od, rfl⟩ | h'
      · exact azAlg_values f lt xN od g h
      · exact zdAlg_values od g h
      · exact h' g h) g hg

/-! ### the exceptions, made precise -/

/-- the positive statement: consistent data cannot exhibit an overwrite — if the point list is sound before and
    after and no flag was cleared, every defined value is kept -/
theorem keep_of_sound (T : Truth ι) (s s' : St ι ℝ) (h1 : SoundXY T s.pd ∧ SoundZ T s.pd)
    (h2 : SoundXY T s'.pd ∧ SoundZ T s'.pd) (hf : StFlags s s') : KeepXY s.pd s'.pd ∧ KeepZ s.pd s'.pd := by
  refine ⟨fun i hi => ?_, fun i hi => ?_⟩
  · have a := h1.1 i hi
    have b := h2.1 i (hf.fxy i hi)
    exact ⟨hf.fxy i hi, b.1.trans a.1.symm, b.2.trans a.2.symm⟩
  · exact ⟨hf.fz i hi, (h2.2 i (hf.fz i hi)).trans (h1.2 i hi).symm⟩

/-- a strategy of the list for the combined statement -/
def ModelledOrSoundFlags (lt : ι → ι → Bool) (T : Truth ι) (xN : ℝ) (od : List (Cluster ι ℝ)) (IR : Q → Prop)
    (a : Alg (GR ι Q)) : Prop :=
  (∃ n, a = azAlg (n + 1) lt xN od) ∨ (∃ f, a = hdAlg f od) ∨ (∃ f, a = vecAlg f od) ∨ a = zdAlg od ∨
  ((∀ g, SoundInv T xN IR g → SoundInv T xN IR (a.exec g)) ∧ ∀ g, FlagsKept g (a.exec g))

/-- **Part 2, values under soundness**: on exact observations ALL four modelled strategies (AcordVector and
    AcordHdiff included), `get_medians` and `get_medians_z` keep every defined coordinate, flag and value,
    through a whole `Acord2::execute` -/
theorem acord_execute_values_sound {lt : ι → ι → Bool} (htri : Tri lt) (T : Truth ι) (xN : ℝ)
    (od : List (Cluster ι ℝ)) (IR : Q → Prop) (ct : Q → Q) (hct : ∀ q, IR q → IR (ct q))
    (hobs : ExactObs T xN od) (slope : Bool) (fuel : Nat) (algs : List (Alg (GR ι Q)))
    (halgs : ∀ a ∈ algs, ModelledOrSoundFlags lt T xN od IR a) (g : GR ι Q) (hg : SoundInv T xN IR g) :
    ValuesKept g (execute slope (Priv.clearTraverses ct) fuel algs g).state := by
  have h1 := acord_execute_sound_modelled htri T xN od IR ct hct hobs slope fuel algs
    (fun a ha => by
      rcases halgs a ha with h | h | h | h | h
      · exact Or.inl h
      · exact Or.inr (Or.inl h)
      · exact Or.inr (Or.inr (Or.inl h))
      · exact Or.inr (Or.inr (Or.inr (Or.inl h)))
      · exact Or.inr (Or.inr (Or.inr (Or.inr h.1)))) g hg
  have h2 := acord_execute_flags_modelled slope (Priv.clearTraverses ct) fuel algs
    (fun a ha => by
      rcases halgs a ha with ⟨n, h⟩ | ⟨f, h⟩ | ⟨f, h⟩ | h | h
      · exact Or.inl ⟨_, _, _, _, h⟩
      · exact Or.inr (Or.inl ⟨_, _, h⟩)
      · exact Or.inr (Or.inr (Or.inl ⟨_, _, h⟩))
      · exact Or.inr (Or.inr (Or.inr (Or.inl ⟨_, h⟩)))
      · exact Or.inr (Or.inr (Or.inr (Or.inr h.2)))) g
  exact keep_of_sound T _ _ ⟨hg.sxy, hg.sz⟩ ⟨h1.sxy, h1.sz⟩ h2

end monotone

/-! ### witnesses of the two exceptions (arbitrary data) -/

section witnesses

/-- point 1: xyz given; point 2: xy given (50, 60), z missing (the state the constructor of Acord2 builds:
    `missing_xy_ = {}`, `missing_z_ = {2}`) -/
noncomputable def wPd : PD ℕ ℝ := fun i =>
  if i = 1 then ⟨0, 0, 100, true, true⟩ else if i = 2 then ⟨50, 60, 0, true, false⟩ else LP.unset
noncomputable def wSt : St ℕ ℝ := ⟨wPd, [], [2], []⟩
/-- one vector 1 → 2 = (100, 0, 10), inconsistent with the given xy of point 2
    (corpus/C06/pending/acord-vector-overwrites-xy.txt) -/
noncomputable def wOd : List (Cluster ℕ ℝ) := [.vectors [.xdiff 1 2 100, .ydiff 1 2 0, .zdiff 1 2 10]]

theorem wOd_vecAll : vecAll wOd (⟨0, 0, 0, 0⟩ : VBuf ℝ) [] = [⟨1, 2, 100, 0, 10⟩] := by
  simp [wOd, vecAll, vecScan, VObs.from', VObs.to']

theorem wSt_vecExecute :
    (vecExecute 2 wOd VecAlg.fresh wSt).map (fun r => ((r.2.pd 2).bxy, (r.2.pd 2).x, (r.2.pd 2).y, r.2.missZ)) =
      some (true, 100, 0, []) := by
  unfold vecExecute
  simp only [VecAlg.fresh, Bool.false_eq_true, if_false, vecPrepare, wOd_vecAll]
  simp [vecLoop, vecPass, vecPassStep, vecRemoveKnown, vecRefresh, dedup, wSt, wPd, refreshXY, refreshZ, LP.setXY,
    LP.setZ, PD.upd, vecCopyBack, vecCopyStep, vecCopyXY, hdCopyStep, LP.unset, Acord.erase]

/-- **the exception**: `AcordVector::execute` changes the xy of a point that HAD xy (`bxy = true`): a point whose z
    is missing is "unknown" to the strategy, its xy is recomputed from the vector and copied back.  The state is
    one the constructor builds (`MissUnkXY`, `MissUnkZ` hold), the flags are kept (`vecAlg_flags`), `KeepXY` fails. -/
theorem acord_vector_overwrites_xy :
    MissUnkXY wSt ∧ MissUnkZ wSt ∧
    ∃ alg' st', vecExecute 2 wOd VecAlg.fresh wSt = some (alg', st') ∧
      (wSt.pd 2).bxy = true ∧ (wSt.pd 2).x = 50 ∧ (wSt.pd 2).y = 60 ∧
      (st'.pd 2).bxy = true ∧ (st'.pd 2).x = 100 ∧ (st'.pd 2).y = 0 ∧ ¬ KeepXY wSt.pd st'.pd := by
  refine ⟨by intro i hi; simp [wSt] at hi, by intro i hi; simp [wSt] at hi; subst hi; simp [wSt, wPd], ?_⟩
  have h := wSt_vecExecute
  cases hex : vecExecute 2 wOd VecAlg.fresh wSt with
  | none => rw [hex] at h; simp at h
  | some r =>
    rw [hex] at h
    simp only [Option.map_some, Option.some.injEq, Prod.mk.injEq] at h
    obtain ⟨h1, h2, h3, _⟩ := h
    have b : (wSt.pd 2).bxy = true := by simp [wSt, wPd]
    have x : (wSt.pd 2).x = 50 := by simp [wSt, wPd]
    have y : (wSt.pd 2).y = 60 := by simp [wSt, wPd]
    refine ⟨r.1, r.2, rfl, b, x, y, h1, h2, h3, fun hk => ?_⟩
    have := (hk 2 b).2.1
    rw [h2, x] at this; norm_num at this

/-- … as a step of the scheduler: the strategy keeps the flags but not the values -/
theorem acord_vector_step_not_values (g : GR ℕ Unit) (hst : g.st = wSt) (hp : g.priv.vec = VecAlg.fresh) :
    FlagsKept g ((vecAlg 2 wOd).exec g) ∧ ¬ ValuesKept g ((vecAlg 2 wOd).exec g) := by
  refine ⟨vecAlg_flags 2 wOd g, fun hv => ?_⟩
  obtain ⟨_, _, alg', st', hex, _, _, _, _, _, _, hk⟩ := acord_vector_overwrites_xy
  rcases vecAlg_exec (Q := Unit) 2 wOd g with ⟨hn, _⟩ | ⟨a, t, hs, e⟩
  · rw [hst, hp, hex] at hn; cases hn
  · rw [hst, hp, hex] at hs; cases hs
    rw [e] at hv
    have hk' : KeepXY g.st.pd st'.pd := hv.1
    rw [hst] at hk'; exact hk hk'

/-- point 1 has the height 7 AND a candidate 5 (reachable inside a round: AcordZderived proposes the candidate
    while the height is unknown, AcordVector — later in the list — publishes a height, `get_medians_z` then runs) -/
noncomputable def zSt : St ℕ ℝ := ⟨fun i => if i = 1 then ⟨0, 0, 7, false, true⟩ else LP.unset, [], [], [(1, 5)]⟩

/-- **second exception**: `get_medians_z` overwrites the height of a point that has a candidate, whether or not it
    already has a height: `KeepZ` needs `CandUnk` (`getMediansZ_mono`) -/
theorem getMediansZ_overwrites_z :
    (zSt.pd 1).bz = true ∧ (zSt.pd 1).z = 7 ∧ ((getMediansZ zSt).pd 1).z = 5 ∧ ¬ KeepZ zSt.pd (getMediansZ zSt).pd := by
  have h : ((getMediansZ zSt).pd 1).z = 5 := by
    simp [getMediansZ, zSt, dedup, medZStep, median2, Median.sort, insertSorted, nth, PD.upd, LP.setZ]
  have b : (zSt.pd 1).bz = true := by simp [zSt]
  have z : (zSt.pd 1).z = 7 := by simp [zSt]
  refine ⟨b, z, h, fun hk => ?_⟩
  have := (hk 1 b).2
  rw [h, z] at this; norm_num at this

end witnesses

/-! ## Part 3 (concrete): termination of `Acord2::execute` -/

section termination
variable {ι : Type} [DecidableEq ι] {P : Type}

/-- **Part 3** the do-while of `Acord2::execute` goes on only while `0 < after < before`: with
    `fuel = missing_xy_.size() + missing_z_.size() + 1` it is never cut short (more fuel: same result), and it takes
    at most `missing_xy_.size() + missing_z_.size()` turns — for any strategies whatsoever -/
theorem acord_execute_terminates (slope : Bool) (ct : P → P) (algs : List (Alg (G ι ℝ P))) (g : G ι ℝ P) (k : Nat) :
    execute slope ct (Acord.measure g + 1 + k) algs g = execute slope ct (Acord.measure g + 1) algs g ∧
    (execute slope ct (Acord.measure g + 1) algs g).finished = true ∧
    ∀ fuel, (execute slope ct fuel algs g).rounds ≤ Acord.measure g :=
  acord_execute_terminates_abstract Acord.measure (bookkeeping slope ct) algs g k

/-- a turn after which the loop goes on has strictly decreased `missing_xy_.size() + missing_z_.size()` -/
theorem acord_execute_round_decreases (slope : Bool) (ct : P → P) (fuel : Nat) (algs : List (Alg (G ι ℝ P)))
    (g : G ι ℝ P) (h : 1 < (loop Acord.measure (bookkeeping slope ct) (fuel + 1) algs g).rounds) :
    Acord.measure (Acord.round (bookkeeping slope ct) algs g).2 < Acord.measure g ∧ Acord.measure (Acord.round (bookkeeping slope ct) algs g).2 ≠ 0 :=
  loop_continue_decreases Acord.measure (bookkeeping slope ct) fuel algs g h

/-- the measure is at most twice the number of points (the `missing` sets are duplicate-free sets of point ids) -/
theorem measure_le (g : G ι ℝ P) (pts : List ι) (h1 : g.st.missXY.Nodup) (h2 : g.st.missZ.Nodup)
    (s1 : g.st.missXY ⊆ pts) (s2 : g.st.missZ ⊆ pts) : Acord.measure g ≤ 2 * pts.length := by
  have a := List.Nodup.length_le_of_subset h1 s1
  have b := List.Nodup.length_le_of_subset h2 s2
  unfold Acord.measure; omega

end termination

/-! ## Part 4: more observations

The abstract machine: strategies read an observation set `o : O` (`exec : O → S → S`); a strategy object that
has been removed from `algorithms_` is modelled as one that idles (its `completed_` flag is part of `S`), so the
list is fixed.  `KL s s'` = "every coordinate group defined in `s` is defined in `s'`" (`KnownLe`, below, on the
real state) — or any finer relation, see the remark after `acord_more_obs_execute_not_monotone`. -/

section moreobs
variable {O S : Type}

/-- the strategy objects for the observation set `o` -/
def oAlgs (algs : List (O → S → S)) (o : O) : List (Alg S) := algs.map (fun a => ⟨a o, fun _ => false⟩)

/-- one turn of the loop of `execute` / `n` turns -/
def roundO (book : S → S) (algs : List (O → S → S)) (o : O) (s : S) : S := (round book (oAlgs algs o) s).2
def roundsO (book : S → S) (algs : List (O → S → S)) (o : O) : Nat → S → S
  | 0, s => s
  | n + 1, s => roundsO book algs o n (roundO book algs o s)

/-- hypotheses (i) and (ii): every strategy step and the bookkeeping are sound, and monotone in the pair
    (observation set, known set) on sound states -/
structure MonoMachine (le : O → O → Prop) (Sound : S → Prop) (KL : S → S → Prop) (book : S → S)
    (algs : List (O → S → S)) : Prop where
  sound : ∀ a ∈ algs, ∀ o s, Sound s → Sound (a o s)
  soundBook : ∀ s, Sound s → Sound (book s)
  mono : ∀ a ∈ algs, ∀ o o' s s', le o o' → Sound s → Sound s' → KL s s' → KL (a o s) (a o' s')
  monoBook : ∀ s s', Sound s → Sound s' → KL s s' → KL (book s) (book s')

theorem round_oAlgs (book : S → S) (algs : List (O → S → S)) (o : O) (s : S) :
    (round book (oAlgs algs o) s).1 = oAlgs algs o := by
  simp only [Acord.round]
  apply List.filter_eq_self.mpr
  intro a ha
  obtain ⟨f, _, rfl⟩ := List.mem_map.mp ha
  rfl

theorem roundO_eq (book : S → S) (algs : List (O → S → S)) (o : O) (s : S) :
    roundO book algs o s = book (algs.foldl (fun s a => a o s) s) := by
  simp [roundO, Acord.round, runAll, oAlgs, List.foldl_map]

theorem roundO_mono {le : O → O → Prop} {Sound : S → Prop} {KL : S → S → Prop} {book : S → S}
    {algs : List (O → S → S)} (m : MonoMachine le Sound KL book algs) (o o' : O) (hle : le o o') (s s' : S)
    (hs : Sound s) (hs' : Sound s') (hk : KL s s') :
    KL (roundO book algs o s) (roundO book algs o' s') ∧ Sound (roundO book algs o s) ∧
    Sound (roundO book algs o' s') := by
  rw [roundO_eq, roundO_eq]
  suffices h : ∀ (l : List (O → S → S)), (∀ a ∈ l, a ∈ algs) → ∀ s s', Sound s → Sound s' → KL s s' →
      KL (l.foldl (fun s a => a o s) s) (l.foldl (fun s a => a o' s) s') ∧ Sound (l.foldl (fun s a => a o s) s) ∧
      Sound (l.foldl (fun s a => a o' s) s') by
    obtain ⟨a, b, c⟩ := h algs (fun _ h => h) s s' hs hs' hk
    exact ⟨m.monoBook _ _ b c a, m.soundBook _ b, m.soundBook _ c⟩
  intro l
  induction l with
  | nil => intro _ s s' a b c; exact ⟨c, a, b⟩
  | cons f fs ih =>
    intro hl s s' a b c
    simp only [List.foldl_cons]
    exact ih (fun x hx => hl x (by simp [hx])) _ _ (m.sound f (hl f (by simp)) o s a)
      (m.sound f (hl f (by simp)) o' s' b) (m.mono f (hl f (by simp)) o o' s s' hle a b c)

/-- **Part 4, unconditional**: with sound and monotone steps, after the SAME number of rounds the run on the larger
    observation set knows at least as much: `KL (rounds n obs s) (rounds n obs' s')` for every `n` -/
theorem acord_more_obs_monotone_rounds {le : O → O → Prop} {Sound : S → Prop} {KL : S → S → Prop} {book : S → S}
    {algs : List (O → S → S)} (m : MonoMachine le Sound KL book algs) (o o' : O) (hle : le o o') :
    ∀ (n : Nat) (s s' : S), Sound s → Sound s' → KL s s' →
      KL (roundsO book algs o n s) (roundsO book algs o' n s') ∧ Sound (roundsO book algs o n s) ∧
      Sound (roundsO book algs o' n s') := by
  intro n
  induction n with
  | zero => intro s s' a b c; exact ⟨c, a, b⟩
  | succ n ih =>
    intro s s' a b c
    obtain ⟨x, y, z⟩ := roundO_mono m o o' hle s s' a b c
    exact ih _ _ y z x

theorem roundsO_succ (book : S → S) (algs : List (O → S → S)) (o : O) :
    ∀ (n : Nat) (s : S), roundsO book algs o (n + 1) s = roundO book algs o (roundsO book algs o n s) := by
  intro n
  induction n with
  | zero => intro s; rfl
  | succ n ih => intro s; rw [roundsO, ih]; rfl

theorem roundsO_add (book : S → S) (algs : List (O → S → S)) (o : O) :
    ∀ (a b : Nat) (s : S), roundsO book algs o (a + b) s = roundsO book algs o b (roundsO book algs o a s) := by
  intro a
  induction a with
  | zero => intro b s; simp [roundsO]
  | succ a ih => intro b s; rw [show a + 1 + b = (a + b) + 1 by omega, roundsO, ih]; rfl

/-- the stopping rule of `Acord2::execute` after a turn `t ↦ t'`: NOT (`after != 0 && after < before`) -/
def Stops (measure : S → Nat) (t t' : S) : Prop := ¬ (measure t' ≠ 0 ∧ measure t' < measure t)

/-- a finished run of the loop is `rounds` turns, the last of which met the stopping rule -/
theorem loop_is_rounds (measure : S → Nat) (book : S → S) (algs : List (O → S → S)) (o : O) :
    ∀ (fuel : Nat) (s : S), (loop measure book fuel (oAlgs algs o) s).finished = true →
      ∃ n, (loop measure book fuel (oAlgs algs o) s).state = roundsO book algs o (n + 1) s ∧
        Stops measure (roundsO book algs o n s) (roundsO book algs o (n + 1) s) := by
  intro fuel
  induction fuel with
  | zero => intro s h; simp [loop] at h
  | succ k ih =>
    intro s h
    rcases loop_succ measure book k (oAlgs algs o) s with ⟨_, _, e⟩ | ⟨c, e⟩
    · rw [e] at h ⊢
      simp only [round_oAlgs] at h ⊢
      obtain ⟨n, h1, h2⟩ := ih (round book (oAlgs algs o) s).2 h
      exact ⟨n + 1, h1, h2⟩
    · rw [e]; exact ⟨0, rfl, c⟩

/-- **Part 4, conditional lift** to `execute`: what is computed from `obs` is computed from every superset `obs'`,
    PROVIDED (a) a round never loses knowledge (`ext`), and (b) a round of the `obs'` run that meets the stopping
    rule is idle: one more round would add nothing (`idle`).  (b) is what the real `Acord2::execute` does not
    guarantee, see `acord_more_obs_execute_not_monotone`. -/
theorem acord_more_obs_monotone {le : O → O → Prop} {Sound : S → Prop} {KL : S → S → Prop} {book : S → S}
    {algs : List (O → S → S)} (m : MonoMachine le Sound KL book algs) (measure : S → Nat)
    (hr : ∀ s, KL s s) (ht : ∀ a b c, KL a b → KL b c → KL a c) (o o' : O) (hle : le o o') (hle' : le o' o')
    (ext : ∀ t, Sound t → KL t (roundO book algs o' t))
    (idle : ∀ t, Sound t → Stops measure t (roundO book algs o' t) →
      KL (roundO book algs o' (roundO book algs o' t)) (roundO book algs o' t))
    (fuel fuel' : Nat) (s : S) (hs : Sound s)
    (hf : (executeG measure book fuel (oAlgs algs o) s).finished = true)
    (hf' : (executeG measure book fuel' (oAlgs algs o') s).finished = true) :
    KL (executeG measure book fuel (oAlgs algs o) s).state (executeG measure book fuel' (oAlgs algs o') s).state := by
  unfold executeG at hf hf' ⊢
  by_cases h0 : 0 < measure s
  · simp only [if_pos h0] at hf hf' ⊢
    obtain ⟨n, e, _⟩ := loop_is_rounds measure book algs o fuel s hf
    obtain ⟨n', e', st⟩ := loop_is_rounds measure book algs o' fuel' s hf'
    rw [e, e']
    have soundO' : ∀ k t, Sound t → Sound (roundsO book algs o' k t) :=
      fun k t h => (acord_more_obs_monotone_rounds m o' o' hle' k t t h h (hr t)).2.1
    -- further rounds of the o' run never lose knowledge
    have extk : ∀ k t, Sound t → KL t (roundsO book algs o' k t) := by
      intro k
      induction k with
      | zero => intro t _; exact hr t
      | succ k ih =>
        intro t h
        rw [roundsO_succ]
        exact ht _ _ _ (ih t h) (ext _ (soundO' k t h))
    have h1 := (acord_more_obs_monotone_rounds m o o' hle (n + 1) s s hs hs (hr s)).1
    by_cases hn : n ≤ n'
    · obtain ⟨d, rfl⟩ := Nat.exists_eq_add_of_le hn
      have e2 : roundsO book algs o' (n + d + 1) s = roundsO book algs o' d (roundsO book algs o' (n + 1) s) := by
        rw [show n + d + 1 = (n + 1) + d by omega]; exact roundsO_add book algs o' (n + 1) d s
      rw [e2]
      exact ht _ _ _ h1 (extk d _ (soundO' (n + 1) s hs))
    · obtain ⟨d, hd⟩ := Nat.exists_eq_add_of_le (show n' + 1 ≤ n + 1 by omega)
      have e2 : roundsO book algs o' (n + 1) s = roundsO book algs o' d (roundsO book algs o' (n' + 1) s) := by
        rw [hd]; exact roundsO_add book algs o' (n' + 1) d s
      rw [e2] at h1
      refine ht _ _ _ h1 ?_
      -- after the stopping round the o' run is idle
      have hst := soundO' n' s hs
      rw [roundsO_succ] at st ⊢
      have hid := idle _ hst st
      have hst' := (roundO_mono m o' o' hle' _ _ hst hst (hr _)).2.1
      generalize roundO book algs o' (roundsO book algs o' n' s) = t' at hid hst' ⊢
      clear h1 e2 hd
      induction d with
      | zero => exact hr t'
      | succ d ihd =>
        rw [roundsO_succ]
        exact ht _ _ _ (roundO_mono m o' o' hle' _ _ (soundO' d t' hst') hst' ihd).1 hid
  · simp only [if_neg h0]; exact hr s

/-! ### why the lift fails for the real `execute`: a toy machine

Three points `x1, x2, c` and a private counter.  `chain` computes one of `x1, x2` per call from the small
observation set and both at once from the large one; `slow` needs two preparatory calls (it only advances its
private counter) before it computes `c` — like a strategy that fills `traverses`, sets `prepared_`, or lets
AcordIntersection's inner loops stop early.  Every step is monotone (in flags AND private counter), every round
is extensive; yet the run on the LARGER observation set stops after its second round (no progress: only the
counter moved) with `c` unknown, while the run on the smaller set makes progress in each of its three rounds and
computes `c`. -/

structure Toy where
  x1 : Bool
  x2 : Bool
  c : Bool
  cnt : Nat
deriving DecidableEq

def Toy.measure (t : Toy) : Nat := (if t.x1 then 0 else 1) + (if t.x2 then 0 else 1) + (if t.c then 0 else 1)
def Toy.chain (o : Bool) (t : Toy) : Toy :=
  if o then { t with x1 := true, x2 := true } else if t.x1 then { t with x2 := true } else { t with x1 := true }
def Toy.slow (_ : Bool) (t : Toy) : Toy := if 2 ≤ t.cnt then { t with c := true } else { t with cnt := t.cnt + 1 }
def Toy.algs : List (Bool → Toy → Toy) := [Toy.chain, Toy.slow]
def Toy.init : Toy := ⟨false, false, false, 0⟩
/-- knowledge order: flags and the private counter -/
def Toy.KL (s s' : Toy) : Prop :=
  (s.x1 = true → s'.x1 = true) ∧ (s.x2 = true → s'.x2 = true) ∧ (s.c = true → s'.c = true) ∧ s.cnt ≤ s'.cnt
/-- `obs ⊆ obs'` -/
def Toy.le (o o' : Bool) : Prop := o = true → o' = true

theorem Toy.monoMachine : MonoMachine Toy.le (fun _ => True) Toy.KL id Toy.algs := by
  refine ⟨fun _ _ _ _ _ => trivial, fun _ _ => trivial, ?_, fun s s' _ _ h => h⟩
  intro a ha o o' s s' hle _ _ hk
  simp only [Toy.algs, List.mem_cons, List.not_mem_nil, or_false] at ha
  obtain ⟨k1, k2, k3, k4⟩ := hk
  rcases ha with rfl | rfl
  · cases o <;> cases o' <;> simp only [Toy.le] at hle
    · unfold Toy.chain Toy.KL
      by_cases a1 : s.x1 = true <;> by_cases a2 : s'.x1 = true <;> simp_all
    · unfold Toy.chain Toy.KL
      by_cases a1 : s.x1 = true <;> simp_all
    · simp at hle
    · unfold Toy.chain Toy.KL; simp_all
  · unfold Toy.slow Toy.KL
    by_cases a1 : 2 ≤ s.cnt <;> by_cases a2 : 2 ≤ s'.cnt
    · simp only [if_pos a1, if_pos a2]; exact ⟨k1, k2, fun _ => trivial, k4⟩
    · omega
    · simp only [if_neg a1, if_pos a2]; exact ⟨k1, k2, fun _ => trivial, show s.cnt + 1 ≤ s'.cnt by omega⟩
    · simp only [if_neg a1, if_neg a2]; exact ⟨k1, k2, k3, show s.cnt + 1 ≤ s'.cnt + 1 by omega⟩

/-- **Part 4, counterexample**: sound + monotone steps (so `acord_more_obs_monotone_rounds` applies), rounds that
    never lose knowledge — and still the real stopping rule ("no progress in ONE round") makes `execute` on the
    larger observation set compute strictly LESS: `c` is computed from `obs` (3 rounds) and not from `obs' ⊇ obs`
    (stops after 2 rounds; a third one would have computed it).  Both runs are `finished` (not a fuel artefact). -/
theorem acord_more_obs_execute_not_monotone :
    MonoMachine Toy.le (fun _ => True) Toy.KL id Toy.algs ∧ Toy.le false true ∧
    (∀ (o : Bool) (t : Toy), Toy.KL t (roundO id Toy.algs o t)) ∧
    (executeG Toy.measure id 4 (oAlgs Toy.algs false) Toy.init).finished = true ∧
    (executeG Toy.measure id 4 (oAlgs Toy.algs true) Toy.init).finished = true ∧
    (executeG Toy.measure id 4 (oAlgs Toy.algs false) Toy.init).state.c = true ∧
    (executeG Toy.measure id 4 (oAlgs Toy.algs true) Toy.init).state.c = false ∧
    (executeG Toy.measure id 4 (oAlgs Toy.algs false) Toy.init).rounds = 3 ∧
    (executeG Toy.measure id 4 (oAlgs Toy.algs true) Toy.init).rounds = 2 ∧
    (roundsO id Toy.algs true 3 Toy.init).c = true := by
  refine ⟨Toy.monoMachine, by simp [Toy.le], ?_, by decide, by decide, by decide, by decide, by decide, by decide,
    by decide⟩
  intro o t
  rw [roundO_eq]
  rcases t with ⟨x1, x2, c, cnt⟩
  simp only [Toy.algs, List.foldl_cons, List.foldl_nil, id]
  by_cases a2 : 2 ≤ cnt <;> cases o <;> cases x1 <;> simp [Toy.slow, Toy.chain, Toy.KL, a2]

/-!  Remarks.
* The number of rounds run for `obs` and `obs'` differs (3 vs 2) and a round without progress in the `missing`
  sets is not a fixed point of the state: the private part moved.  On the real program the private parts are
  `prepared_/completed_`, the local copies `lpd_`, `azimuths_`, `traverses`, the candidate lists of a round, and the
  two inner loops of AcordIntersection.  `acord_more_obs_monotone` shows that this is the ONLY obstruction.
* Hypothesis (ii) cannot be stated on the known set alone: `slow` is monotone only w.r.t. a relation that also
  orders the private counter (`Toy.KL`), which is why `MonoMachine` takes an arbitrary `KL`. -/

variable {ι : Type} [DecidableEq ι] {P : Type}

/-- `Known g ⊆ Known g'` on the real state: every coordinate group defined in `g` is defined in `g'` -/
def KnownLe (g g' : G ι ℝ P) : Prop :=
  (∀ i, (g.st.pd i).bxy = true → (g'.st.pd i).bxy = true) ∧ (∀ i, (g.st.pd i).bz = true → (g'.st.pd i).bz = true)

theorem KnownLe.refl (g : G ι ℝ P) : KnownLe g g := ⟨fun _ h => h, fun _ h => h⟩
theorem KnownLe.trans {a b c : G ι ℝ P} (h1 : KnownLe a b) (h2 : KnownLe b c) : KnownLe a c :=
  ⟨fun i h => h2.1 i (h1.1 i h), fun i h => h2.2 i (h1.2 i h)⟩
theorem FlagsKept.knownLe {g g' : G ι ℝ P} (h : FlagsKept g g') : KnownLe g g' := ⟨h.fxy, h.fz⟩

end moreobs

/-! ## non-vacuity: concrete instances of every implication -/

section examples

/-- a tiny machine: the state is the number of missing points, one strategy solves one point per call -/
def exAlg : Alg Nat := ⟨Nat.pred, fun _ => false⟩

-- `acord_execute_sound_abstract`, `acord_execute_monotone_abstract`, `acord_execute_monotone_inv`,
-- `acord_execute_terminates_abstract`, `loop_continue_decreases`: hypotheses met, five rounds run
example : (∀ a ∈ [exAlg], ∀ s, s ≤ 5 → a.exec s ≤ 5) ∧ (∀ s : Nat, s ≤ 5 → id s ≤ 5) ∧ (5 : Nat) ≤ 5 ∧
    (∀ a ∈ [exAlg], ∀ s, a.exec s ≤ s) ∧
    (executeG id id 6 [exAlg] 5).state = 0 ∧ (executeG id id 6 [exAlg] 5).rounds = 5 ∧
    (executeG id id 6 [exAlg] 5).finished = true ∧ (executeG id id 3 [exAlg] 5).finished = false ∧
    1 < (loop id id (5 + 1) [exAlg] 5).rounds := by
  refine ⟨?_, fun _ h => h, Nat.le_refl _, ?_, by decide, by decide, by decide, by decide, by decide⟩
  · intro a ha s hs; simp at ha; subst ha; exact Nat.le_trans (Nat.pred_le s) hs
  · intro a ha s; simp at ha; subst ha; exact Nat.pred_le s

/-- a levelling line 0 → 1 with the true heights `3 i`; point 0 given, point 1 missing -/
noncomputable def exT : Truth ℕ := ⟨fun _ => 0, fun _ => 0, fun i => 3 * i⟩
noncomputable def exOd : List (Cluster ℕ ℝ) := [.hdiffs [(0, 1, 3)]]
noncomputable def exPd : PD ℕ ℝ := fun i => if i = 0 then ⟨0, 0, 0, true, true⟩ else ⟨0, 0, 0, true, false⟩
noncomputable def exG : GR ℕ Unit :=
  ⟨⟨exPd, [], [1], []⟩, [], ⟨AzAlg.fresh, HdAlg.fresh, VecAlg.fresh, ZdAlg.fresh, ()⟩⟩

theorem exObs : ExactObs exT 0 exOd := by
  refine ⟨?_, ?_, ?_, ?_, ?_⟩
  · intro f t v h; simp [exOd, spObs] at h
  · intro f t v h; simp [exOd, spObs] at h
  · intro h hh; simp [exOd, hdAll] at hh; subst hh; simp [HdOK, exT]
  · intro h hh; simp [exOd, vecAll] at hh
  · simp [exOd, OdZdOK]

theorem exInv : SoundInv exT 0 (fun _ => True) exG := by
  refine ⟨?_, ?_, ?_, ?_, ?_, ?_, ?_, trivial⟩
  · intro i _; by_cases h : i = 0 <;> simp [exG, exPd, exT, h]
  · intro i hi; by_cases h : i = 0
    · simp [exG, exPd, exT, h]
    · simp [exG, exPd, h] at hi
  · intro c hc; simp [exG] at hc
  · intro c hc; simp [exG] at hc
  · intro h; simp [exG, AzAlg.fresh] at h
  · intro h; simp [exG, HdAlg.fresh] at h
  · intro h; simp [exG, VecAlg.fresh] at h

theorem exTri : Tri (fun a b : ℕ => decide (a < b)) := by
  intro a b h1 h2; simp at h1 h2; omega

/-- the run of the instance does something: the missing height is computed -/
theorem exRun : ((execute false (Priv.clearTraverses id) 2 [hdAlg 3 exOd] exG).state.st.pd 1).bz = true := by
  simp [execute, executeG, Acord.measure, exG, loop, Acord.round, runAll, hdAlg, hdExecute, HdAlg.fresh, hdPrepare,
    exOd, hdAll, hdRemoveKnown, exPd, dedup, hdRefresh, hdLoop, hdPass, hdPassStep, hdCopyBack, hdCopyStep, PD.upd,
    LP.setZ, bookkeeping, getMedians, getMediansZ, candXYCleanup, Acord.erase]

-- `acord_execute_sound`, `acord_execute_sound_modelled`, `bookkeeping_soundInv`, `hdAlg_soundInv`: all
-- hypotheses hold, and the conclusion says the computed height of point 1 is the true one, 3
example : ((execute false (Priv.clearTraverses id) 2 [hdAlg 3 exOd] exG).state.st.pd 1).z = 3 := by
  have h := acord_execute_sound_modelled exTri exT 0 exOd (fun _ : Unit => True) id (fun _ h => h) exObs false 2
    [hdAlg 3 exOd] (fun a ha => by simp at ha; subst ha; exact Or.inr (Or.inl ⟨3, rfl⟩)) exG exInv
  have := h.sz 1 exRun
  simpa [exT] using this

-- `acord_execute_values_sound`, `keep_of_sound`
example : ValuesKept exG (execute false (Priv.clearTraverses id) 2 [hdAlg 3 exOd] exG).state :=
  acord_execute_values_sound exTri exT 0 exOd (fun _ : Unit => True) id (fun _ h => h) exObs false 2
    [hdAlg 3 exOd] (fun a ha => by simp at ha; subst ha; exact Or.inr (Or.inl ⟨3, rfl⟩)) exG exInv

-- `acord_execute_monotone`, `acord_execute_flags_modelled`: arbitrary data, here the overwrite witness
example (g : GR ℕ Unit) : FlagsKept g (execute true id 7
    [azAlg 1 (fun a b => decide (a < b)) 0 wOd, hdAlg 2 wOd, zdAlg wOd, vecAlg 2 wOd] g).state :=
  acord_execute_flags_modelled true id 7 _ (fun a ha => by
    simp only [List.mem_cons, List.not_mem_nil, or_false] at ha
    rcases ha with rfl | rfl | rfl | rfl
    · exact Or.inl ⟨_, _, _, _, rfl⟩
    · exact Or.inr (Or.inl ⟨_, _, rfl⟩)
    · exact Or.inr (Or.inr (Or.inr (Or.inl ⟨_, rfl⟩)))
    · exact Or.inr (Or.inr (Or.inl ⟨_, _, rfl⟩))) g

-- `acord_execute_values_modelled`, `bookkeeping_values`, `azAlg_values`, `zdAlg_values`: `ValInv` holds for the state
-- the constructor builds
example : ValInv (P := Priv ℕ ℝ Unit) ⟨wSt, [], ⟨AzAlg.fresh, HdAlg.fresh, VecAlg.fresh, ZdAlg.fresh, ()⟩⟩ :=
  ⟨acord_vector_overwrites_xy.1, fun c hc => by simp [wSt] at hc⟩

-- `measure_le`
example : Acord.measure exG ≤ 2 * [0, 1].length :=
  measure_le exG [0, 1] (by simp [exG]) (by simp [exG]) (by simp [exG]) (by simp [exG])

-- `acord_more_obs_monotone_rounds` on the toy machine (hypotheses: `Toy.monoMachine`)
example (n : Nat) : Toy.KL (roundsO id Toy.algs false n Toy.init) (roundsO id Toy.algs true n Toy.init) :=
  (acord_more_obs_monotone_rounds Toy.monoMachine false true (by simp [Toy.le]) n Toy.init Toy.init trivial trivial
    ⟨fun h => h, fun h => h, fun h => h, Nat.le_refl _⟩).1

theorem Toy.KL_refl (s : Toy) : Toy.KL s s := ⟨fun h => h, fun h => h, fun h => h, Nat.le_refl _⟩
theorem Toy.KL_trans (a b c : Toy) (h1 : Toy.KL a b) (h2 : Toy.KL b c) : Toy.KL a c :=
  ⟨fun h => h2.1 (h1.1 h), fun h => h2.2.1 (h1.2.1 h), fun h => h2.2.2.1 (h1.2.2.1 h), Nat.le_trans h1.2.2.2 h2.2.2.2⟩

/-- the toy machine without the strategy that keeps private state -/
theorem Toy.monoMachine_chain : MonoMachine Toy.le (fun _ => True) Toy.KL id [Toy.chain] :=
  ⟨fun _ _ _ _ _ => trivial, fun _ _ => trivial,
    fun a ha => Toy.monoMachine.mono a (by simp only [List.mem_singleton] at ha; subst ha; simp [Toy.algs]),
    fun s s' _ _ h => h⟩

-- `acord_more_obs_monotone` (the conditional lift): without `slow` a stopping round is idle, and `execute` on the
-- larger observation set knows at least as much
example : Toy.KL (executeG Toy.measure id 4 (oAlgs [Toy.chain] false) Toy.init).state
    (executeG Toy.measure id 4 (oAlgs [Toy.chain] true) Toy.init).state := by
  have hext : ∀ (o : Bool) (t : Toy), Toy.KL t (roundO id [Toy.chain] o t) := by
    intro o t
    rw [roundO_eq]
    rcases t with ⟨x1, x2, c, cnt⟩
    cases o <;> cases x1 <;> simp [Toy.chain, Toy.KL]
  refine acord_more_obs_monotone Toy.monoMachine_chain Toy.measure Toy.KL_refl Toy.KL_trans false true
    (by simp [Toy.le]) (by simp [Toy.le]) (fun t _ => hext true t) (fun t _ _ => ?_) 4 4 Toy.init trivial
    (by decide) (by decide)
  rw [roundO_eq, roundO_eq]
  rcases t with ⟨x1, x2, c, cnt⟩
  simp [Toy.chain, Toy.KL]

end examples

end Gama.C06S
