/-
  PE — lemmas about `Model/ProjectEquations.lean`, part 3: the list `unknowns_` and the world of C20.

    G. every entry of `unknowns_` is what its position says (`EntryOK`): entry `j` of type 'R' belongs to the
       stand-point whose `index_orientation()` is `j+1` (C12's `hori`), entries 'X','Y','Z' to a point of `PD`
       whose group is active and whose `index_x/y/z()` is `j+1`
    H. an orientation unknown is never in the regularisation list (C07's `uOri ∉ S`)
    I. `peWorld base` — `project_equations()` as the function `Net → ProjEq` of `Model/NetWorld.lean` — meets
       `PEWF` (C20)
-/
import Gama.Lemmas.ProjectEquationsFinal
import Gama.Lemmas.NetWorld
namespace Gama.PE
open Gama Gama.Lin Gama.NetDecision

variable {K : Type}

/-! ### G. `unknowns_` -/

/-- what entry `j` (unknown number `j+1`) of `unknowns_` must be -/
def EntryOK [Zero K] (net : Net K) (idx : IdxState) (j : Nat) (e : UEntry) : Prop :=
  match e.type with
  | .R => ∃ k c st o, e.ori = some k ∧ net.clusters[k]? = some c ∧ c.stand = some (st, some o) ∧
      e.pid = idOf net st ∧ (ptAt net st).active_xy = true ∧ idx.get ⟨k, .ori⟩ = j + 1
  | .X => e.ori = none ∧ ∃ i p, net.points[i]? = some p ∧ e.pid = p.id ∧ p.pt.active_xy = true ∧ idx.get ⟨i, .x⟩ = j + 1
  | .Y => e.ori = none ∧ ∃ i p, net.points[i]? = some p ∧ e.pid = p.id ∧ p.pt.active_xy = true ∧ idx.get ⟨i, .y⟩ = j + 1
  | .Z => e.ori = none ∧ ∃ i p, net.points[i]? = some p ∧ e.pid = p.id ∧ p.pt.active_z = true ∧ idx.get ⟨i, .z⟩ = j + 1

def Sound [Zero K] (net : Net K) (idx : IdxState) (l : List (Option UEntry)) : Prop :=
  ∀ j e, l[j]? = some (some e) → EntryOK net idx j e

theorem setU_sound [Zero K] (net : Net K) (idx : IdxState) (l : List (Option UEntry)) (i : Nat) (u : UEntry)
    (hl : Sound net idx l) (hi : i ≠ 0) (hu : EntryOK net idx (i - 1) u) : Sound net idx (setU l i u) := by
  intro j e he
  unfold setU at he
  rw [List.getElem?_set] at he
  split at he
  · rename_i hij
    split at he
    · injection he with he; injection he with he; subst he; subst hij; exact hu
    · cases he
  · exact hl j e he

theorem setU_length (l : List (Option UEntry)) (i : Nat) (u : UEntry) : (setU l i u).length = l.length := by
  simp [setU]

theorem oriLoop_sound [Zero K] (net : Net K) (idx : IdxState) : ∀ (cs : List (Cluster K)) (k : Nat) (l : List (Option UEntry)),
    (∀ i c, cs[i]? = some c → net.clusters[k + i]? = some c) → Sound net idx l →
    Sound net idx (oriLoop net idx k cs l) ∧ (oriLoop net idx k cs l).length = l.length := by
  intro cs
  induction cs with
  | nil => intro k l _ hl; exact ⟨hl, rfl⟩
  | cons c cs ih =>
    intro k l ht hl
    have hk : net.clusters[k]? = some c := by simpa using ht 0 c (by simp)
    have ht' : ∀ i c', cs[i]? = some c' → net.clusters[k + 1 + i]? = some c' := by
      intro i c' hi
      have := ht (i + 1) c' (by simpa using hi)
      rw [show k + 1 + i = k + (i + 1) by omega]; exact this
    simp only [oriLoop]
    rcases hst : c.stand with _ | ⟨st, _ | o⟩
    · exact ih (k + 1) l ht' hl
    · exact ih (k + 1) l ht' hl
    · simp only []
      split
      · rename_i hc
        obtain ⟨I1, I2⟩ := ih (k + 1) (setU l (idx.get ⟨k, .ori⟩) ⟨idOf net st, .R, some k⟩) ht'
          (setU_sound net idx l _ _ hl hc.1
            (show EntryOK net idx _ ⟨idOf net st, .R, some k⟩ from
              ⟨k, c, st, o, rfl, hk, hst, rfl, hc.2, by have := hc.1; omega⟩))
        exact ⟨I1, by rw [I2, setU_length]⟩
      · exact ih (k + 1) l ht' hl

theorem ptLoop_sound [Zero K] (net : Net K) (idx : IdxState) : ∀ (ps : List (Point K)) (k : Nat) (l : List (Option UEntry)),
    (∀ i p, ps[i]? = some p → net.points[k + i]? = some p) → Sound net idx l →
    Sound net idx (ptLoop idx k ps l) ∧ (ptLoop idx k ps l).length = l.length := by
  intro ps
  induction ps with
  | nil => intro k l _ hl; exact ⟨hl, rfl⟩
  | cons p ps ih =>
    intro k l ht hl
    have hk : net.points[k]? = some p := by simpa using ht 0 p (by simp)
    have ht' : ∀ i p', ps[i]? = some p' → net.points[k + 1 + i]? = some p' := by
      intro i p' hi
      have := ht (i + 1) p' (by simpa using hi)
      rw [show k + 1 + i = k + (i + 1) by omega]; exact this
    simp only [ptLoop]
    -- the three conditional writes keep soundness and length
    have s1 : Sound net idx (if p.pt.active_xy = true ∧ idx.get ⟨k, .x⟩ ≠ 0 then setU l (idx.get ⟨k, .x⟩) ⟨p.id, .X, none⟩ else l)
        ∧ (if p.pt.active_xy = true ∧ idx.get ⟨k, .x⟩ ≠ 0 then setU l (idx.get ⟨k, .x⟩) ⟨p.id, .X, none⟩ else l).length = l.length := by
      split
      · rename_i hc
        exact ⟨setU_sound net idx l _ _ hl hc.2 (show EntryOK net idx _ ⟨p.id, .X, none⟩ from
          ⟨rfl, k, p, hk, rfl, hc.1, by have := hc.2; omega⟩), setU_length ..⟩
      · exact ⟨hl, rfl⟩
    generalize (if p.pt.active_xy = true ∧ idx.get ⟨k, .x⟩ ≠ 0 then setU l (idx.get ⟨k, .x⟩) ⟨p.id, .X, none⟩ else l) = l1 at s1 ⊢
    have s2 : Sound net idx (if p.pt.active_xy = true ∧ idx.get ⟨k, .y⟩ ≠ 0 then setU l1 (idx.get ⟨k, .y⟩) ⟨p.id, .Y, none⟩ else l1)
        ∧ (if p.pt.active_xy = true ∧ idx.get ⟨k, .y⟩ ≠ 0 then setU l1 (idx.get ⟨k, .y⟩) ⟨p.id, .Y, none⟩ else l1).length = l.length := by
      split
      · rename_i hc
        exact ⟨setU_sound net idx l1 _ _ s1.1 hc.2 (show EntryOK net idx _ ⟨p.id, .Y, none⟩ from
          ⟨rfl, k, p, hk, rfl, hc.1, by have := hc.2; omega⟩), by rw [setU_length]; exact s1.2⟩
      · exact s1
    generalize (if p.pt.active_xy = true ∧ idx.get ⟨k, .y⟩ ≠ 0 then setU l1 (idx.get ⟨k, .y⟩) ⟨p.id, .Y, none⟩ else l1) = l2 at s2 ⊢
    have s3 : Sound net idx (if p.pt.active_z = true ∧ idx.get ⟨k, .z⟩ ≠ 0 then setU l2 (idx.get ⟨k, .z⟩) ⟨p.id, .Z, none⟩ else l2)
        ∧ (if p.pt.active_z = true ∧ idx.get ⟨k, .z⟩ ≠ 0 then setU l2 (idx.get ⟨k, .z⟩) ⟨p.id, .Z, none⟩ else l2).length = l.length := by
      split
      · rename_i hc
        exact ⟨setU_sound net idx l2 _ _ s2.1 hc.2 (show EntryOK net idx _ ⟨p.id, .Z, none⟩ from
          ⟨rfl, k, p, hk, rfl, hc.1, by have := hc.2; omega⟩), by rw [setU_length]; exact s2.2⟩
      · exact s2
    generalize (if p.pt.active_z = true ∧ idx.get ⟨k, .z⟩ ≠ 0 then setU l2 (idx.get ⟨k, .z⟩) ⟨p.id, .Z, none⟩ else l2) = l3 at s3 ⊢
    obtain ⟨I1, I2⟩ := ih (k + 1) l3 ht' s3.1
    exact ⟨I1, by rw [I2]; exact s3.2⟩

/-- **every entry of `unknowns_` is what its position says**, and the list has `pocet_neznamych_` elements -/
theorem unknownsList_sound [Zero K] (net : Net K) (idx : IdxState) :
    Sound net idx (unknownsList net idx) ∧ (unknownsList net idx).length = idx.maxn := by
  have h0 : Sound net idx (List.replicate idx.maxn none) := by
    intro j e he
    rw [List.getElem?_replicate] at he
    split at he
    · injection he with he; cases he
    · cases he
  obtain ⟨o1, o2⟩ := oriLoop_sound net idx net.clusters 0 _ (fun i c h => by simpa using h) h0
  obtain ⟨p1, p2⟩ := ptLoop_sound net idx net.points 0 _ (fun i p h => by simpa using h) o1
  exact ⟨p1, by unfold unknownsList; rw [p2, o2, List.length_replicate]⟩

/-! ### H. orientation unknowns and the regularisation list -/

/-- **an orientation unknown is never in the regularisation list** -/
theorem ori_not_in_minx [TrigScalar K] {net : Net K} {a : Asm K} {b : PassOut K} (F : Fresh net a b)
    (degen : Nat → Bool) (hns : (MinX.singularCoords degen (idxFn a.idx) (ptsOf net)).1 = false) (k : Nat) :
    a.idx.get ⟨k, .ori⟩ ∉ MinX.fillMin (idxFn a.idx) (ptsOf net) := by
  intro hm
  obtain ⟨hgood, hr, _⟩ := fill_valid' (ptsOf net) (idxFn a.idx) a.np.n F.live_le F.live_inj degen hns
  unfold MinX.fillMin at hm
  rw [MinX.fillFrom_eq_map, List.mem_map] at hm
  obtain ⟨u, hu, hui⟩ := hm
  obtain ⟨hl, h0⟩ := hgood u hu
  have : u = .ori k := F.live_inj u (.ori k) hl rfl hui h0
  exact (MinX.consFrom_pos _ _ _ u hu).2 k this

/-! ### I. the world of C20 -/

def ofC : CStat → Status
  | .unused => .unused | .fixed => .fixed | .free => .free | .constrained => .constrained

theorem cstat_ofC (s : CStat) : cstat (ofC s) = s := by cases s <;> rfl

/-- the statuses of the points as the decision layer carries them -/
def dnetOfPts (ps : List (Point K)) : NetDecision.Net := ps.map fun p => ⟨p.id, cstat p.pt.sxy, cstat p.pt.sz⟩

/-- the points of `base` (coordinates by position) with the ids and statuses of `dnet` -/
def mkPts [Zero K] (base : Net K) : Nat → NetDecision.Net → List (Point K)
  | _, [] => []
  | i, Q :: r => ⟨Q.id, { ptAt base i with sxy := ofC Q.xy, sz := ofC Q.z }⟩ :: mkPts base (i + 1) r

theorem dnetOf_mkPts [Zero K] (base : Net K) : ∀ (dnet : NetDecision.Net) (i : Nat), dnetOfPts (mkPts base i dnet) = dnet := by
  intro dnet
  induction dnet with
  | nil => intro i; rfl
  | cons Q r ih =>
    intro i
    simp only [mkPts, dnetOfPts, List.map_cons, cstat_ofC]
    exact congrArg _ (ih (i + 1))

def withStatuses [Zero K] (base : Net K) (dnet : NetDecision.Net) : Net K :=
  { base with points := mkPts base 0 dnet }

def toUnknown (e : UEntry) : Unknown := ⟨e.pid, e.type⟩

/-- `project_equations()` as the function the decision layer of C20 calls: configuration of the points ↦
    revised points, removal records, `unknowns_`, counts and the problem handed to the solver.
    (`PointData` is a `std::map`: a list with a repeated id is not a `PointData`; a thrown exception has no
    counterpart in `ProjEq` — both give the empty result.) -/
def peWorld [TrigScalar K] (base : Net K) : NetDecision.Net → ProjEq (Option (Ls.Net.NetProblem K)) := fun dnet =>
  if (dnet.map (·.id)).Nodup then
    match projectEquations (withStatuses base dnet) with
    | .ok (np, u) =>
      { net := dnetOfPts u.net.points, rm := u.removed.map fun i => (i, Rm.singular_xy)
        unknowns := u.list.filterMap (·.map toUnknown), nObs := np.m
        nPts := ((dnetOfPts u.net.points).filter fun Q => Q.xy.active || Q.z.active).length, prob := some np }
    | .error _ => ⟨dnet, [], [], 0, 0, none⟩
  else ⟨dnet, [], [], 0, 0, none⟩

theorem actives_le (ps qs : List (Point K)) (h : List.Forall₂ PtLe ps qs) :
    actives (dnetOfPts qs) ≤ actives (dnetOfPts ps) := by
  induction h with
  | nil => exact Nat.le_refl _
  | @cons p q ps qs hpq _ ih =>
    simp only [dnetOfPts, List.map_cons, actives] at ih ⊢
    have : (⟨q.id, cstat q.pt.sxy, cstat q.pt.sz⟩ : NetDecision.Point).actives
        ≤ (⟨p.id, cstat p.pt.sxy, cstat p.pt.sz⟩ : NetDecision.Point).actives := by
      obtain ⟨_, hz, hxy⟩ := hpq
      simp only [NetDecision.Point.actives, hz]
      rcases hxy with hxy | hxy
      · rw [hxy]
      · rw [hxy]; simp [cstat, CStat.active]
    exact Nat.add_le_add this ih

theorem ids_eq (ps qs : List (Point K)) (h : List.Forall₂ PtLe ps qs) :
    (dnetOfPts qs).map (·.id) = (dnetOfPts ps).map (·.id) := by
  induction h with
  | nil => rfl
  | @cons p q ps qs hpq _ ih =>
    simp only [dnetOfPts, List.map_cons, List.map_map] at ih ⊢
    rw [hpq.1]; exact congrArg _ ih

theorem ptAt_active [Zero K] (net : Net K) (i : Nat) (h : (ptAt net i).active_xy = true) :
    ∃ p : Point K, net.points[i]? = some p ∧ p.pt = ptAt net i := by
  unfold ptAt at h ⊢
  cases hp : net.points[i]? with
  | none => simp [hp, Pt.active_xy, Status.isActive] at h
  | some p => exact ⟨p, rfl, rfl⟩

theorem idOf_eq (net : Net K) (i : Nat) (p : Point K) (h : net.points[i]? = some p) : idOf net i = p.id := by
  simp [idOf, h]

/-- the point an entry of `unknowns_` belongs to, with its group active -/
theorem entry_point [Zero K] (net : Net K) (idx : IdxState) (j : Nat) (e : UEntry) (h : EntryOK net idx j e) :
    ∃ (i : Nat) (p : Point K), net.points[i]? = some p ∧ p.id = e.pid ∧
      (if e.type = .Z then p.pt.active_z else p.pt.active_xy) = true := by
  unfold EntryOK at h
  rcases ht : e.type with _ | _ | _ | _ <;> rw [ht] at h <;> simp only at h
  · obtain ⟨_, i, p, hp, hid, hact, _⟩ := h; exact ⟨i, p, hp, hid.symm, by simpa using hact⟩
  · obtain ⟨_, i, p, hp, hid, hact, _⟩ := h; exact ⟨i, p, hp, hid.symm, by simpa using hact⟩
  · obtain ⟨_, i, p, hp, hid, hact, _⟩ := h; exact ⟨i, p, hp, hid.symm, by simpa using hact⟩
  · obtain ⟨k, c, st, o, _, _, _, hid, hact, _⟩ := h
    obtain ⟨p, hp, hpt⟩ := ptAt_active net st hact
    exact ⟨st, p, hp, by rw [hid, idOf_eq net st p hp], by rw [hpt]; simpa using hact⟩

theorem peWorld_wf [TrigScalar K] (base : Net K) : PEWF (peWorld base) := by
  have key : ∀ dnet, (dnet.map (·.id)).Nodup → ∀ np u, projectEquations (withStatuses base dnet) = .ok (np, u) →
      actives (dnetOfPts u.net.points) ≤ actives dnet ∧
      ∀ x ∈ u.list.filterMap (·.map toUnknown),
        (∃ Q ∈ dnetOfPts u.net.points, Q.id = x.pid) ∧
        ∀ Q ∈ dnetOfPts u.net.points, Q.id = x.pid → (if x.type = .Z then Q.z.active else Q.xy.active) = true := by
    intro dnet hnd np u h
    obtain ⟨net, a, F⟩ := pe_final _ np u h
    have hpts : u.net.points = net.points := by rw [F.u_net]
    have hb : List.Forall₂ PtLe (mkPts base 0 dnet) net.points := F.below.pts
    have hd0 : dnetOfPts (mkPts base 0 dnet) = dnet := dnetOf_mkPts base dnet 0
    refine ⟨by rw [hpts, ← hd0]; exact actives_le _ _ hb, ?_⟩
    intro x hx
    obtain ⟨oe, hoe, hox⟩ := List.mem_filterMap.mp hx
    cases oe with
    | none => cases hox
    | some e =>
      simp only [Option.map_some, Option.some.injEq] at hox
      subst hox
      obtain ⟨j, hj⟩ := List.mem_iff_getElem?.mp hoe
      obtain ⟨b, Fr⟩ := assemble_fresh net a F.asm
      have hS := (unknownsList_sound net a.idx).1 j e (by rw [← Fr.list, ← F.u_list]; exact hj)
      obtain ⟨i, p, hp, hid, hact⟩ := entry_point net a.idx j e hS
      have hQ : (⟨p.id, cstat p.pt.sxy, cstat p.pt.sz⟩ : NetDecision.Point) ∈ dnetOfPts net.points :=
        List.mem_map.mpr ⟨p, List.mem_of_getElem? hp, rfl⟩
      rw [hpts]
      refine ⟨⟨_, hQ, hid⟩, ?_⟩
      intro Q hQm hQid
      have hnd' : ((dnetOfPts net.points).map (·.id)).Nodup := by rw [ids_eq _ _ hb, hd0]; exact hnd
      have : Q = ⟨p.id, cstat p.pt.sxy, cstat p.pt.sz⟩ :=
        List.inj_on_of_nodup_map hnd' hQm hQ (by simp only [toUnknown] at hQid; rw [hQid, hid])
      subst this
      simp only [toUnknown]
      by_cases hz : e.type = .Z
      · simp only [hz, if_true, active_cstat] at hact ⊢; exact hact
      · simp only [hz, if_false, active_cstat] at hact ⊢; exact hact
  refine ⟨fun dnet => ?_, fun dnet x hx => ?_, fun dnet x hx => ?_⟩
  · unfold peWorld
    split
    · rename_i hnd
      split
      · rename_i np u h; exact (key dnet hnd np u h).1
      · exact Nat.le_refl _
    · exact Nat.le_refl _
  · unfold peWorld at hx ⊢
    split at hx
    · rename_i hnd
      rw [if_pos hnd]
      split at hx
      · rename_i np u h; exact ((key dnet hnd np u h).2 x hx).1
      · cases hx
    · cases hx
  · unfold peWorld at hx ⊢
    split at hx
    · rename_i hnd
      rw [if_pos hnd]
      split at hx
      · rename_i np u h; exact ((key dnet hnd np u h).2 x hx).2
      · cases hx
    · cases hx

end Gama.PE
