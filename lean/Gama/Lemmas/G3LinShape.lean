/-
  C19 — which unknowns get a coefficient in the generated g3 linearisation
  (`Gama/Gen/G3Linearization.lean`).  Everything here is over an arbitrary scalar type: only the
  guards and the targets of the pushes matter, not the coefficient values.

  * `pattern name` — hand-stated: the unknowns an observation of that type depends on
  * `shape_*`      — by `rfl`: the guard structure the translator read from the C++
  * `only_free_*`  — a coefficient is emitted for exactly the adjusted unknowns of the pattern, once each,
                     provided N and E of every point have the same state (what `Model::update_parameters`
                     establishes, `G3Book.PtS.normalise`)
-/
import Gama.Gen.G3Linearization
namespace Gama
namespace G3Lin
open Neu G3Book Gama.Gen.G3Lin

variable {K : Type}

def neuOf (r : Role) : List (Role × Comp) := [(r, .N), (r, .E), (r, .U)]

/-- the unknowns an observation depends on (n, e, u of its points; heights only on u; an azimuth does
    not depend on the height of its own station: moving it along its vertical leaves the local
    direction to the target unchanged) -/
def patFromTo : List (Role × Comp) := neuOf .frm ++ neuOf .to
def patPoint : List (Role × Comp) := neuOf .pt
def patHeight : List (Role × Comp) := [(.pt, .U)]
def patHdiff : List (Role × Comp) := [(.frm, .U), (.to, .U)]
def patAzimuth : List (Role × Comp) := [(.frm, .N), (.frm, .E)] ++ neuOf .to
def patAngle : List (Role × Comp) := neuOf .frm ++ neuOf .left ++ neuOf .right

/-- N and E of every point are in the same state (after `Model::update_parameters`) -/
def Normal (P : Pts K) : Prop := ∀ r, (P r).sN = (P r).sE

/-- the block pattern `if (p->free_horizontal_position()) {N, E}  if (p->free_height()) {U}` -/
def shPoint (r : Role) : Shape := [([(r, .freeH)], [(r, .N), (r, .E)]), ([(r, .freeU)], [(r, .U)])]
/-- the Angle pattern: `if (p->N.free()) N; if (p->E.free()) E; if (p->U.free()) U` -/
def shPointNEU (r : Role) : Shape := [([(r, .freeN)], [(r, .N)]), ([(r, .freeE)], [(r, .E)]), ([(r, .freeU)], [(r, .U)])]

theorem emittedOf_append (P : Pts K) (a b : Shape) : emittedOf P (a ++ b) = emittedOf P a ++ emittedOf P b := by
  simp [emittedOf, List.flatMap_append]

theorem emittedOf_shPoint (P : Pts K) (h : Normal P) (r : Role) :
    emittedOf P (shPoint r) = (neuOf r).filter (adjusted P) := by
  have hr := h r
  cases h1 : (P r).sN.isFree <;> cases h2 : (P r).sU.isFree <;>
    simp [emittedOf, shPoint, neuOf, adjusted, Guard.holds, GPt.state, ← hr, h1, h2]

theorem emittedOf_shPointNEU (P : Pts K) (r : Role) :
    emittedOf P (shPointNEU r) = (neuOf r).filter (adjusted P) := by
  cases h1 : (P r).sN.isFree <;> cases h2 : (P r).sE.isFree <;> cases h3 : (P r).sU.isFree <;>
    simp [emittedOf, shPointNEU, neuOf, adjusted, Guard.holds, GPt.state, h1, h2, h3]

theorem emittedOf_U (P : Pts K) (r : Role) :
    emittedOf P [([(r, .freeU)], [(r, .U)])] = [(r, Comp.U)].filter (adjusted P) := by
  cases h2 : (P r).sU.isFree <;> simp [emittedOf, adjusted, Guard.holds, GPt.state, h2]

theorem emittedOf_H (P : Pts K) (h : Normal P) (r : Role) :
    emittedOf P [([(r, .freeH)], [(r, .N), (r, .E)])] = [(r, Comp.N), (r, Comp.E)].filter (adjusted P) := by
  have hr := h r
  cases h1 : (P r).sN.isFree <;> simp [emittedOf, adjusted, Guard.holds, GPt.state, ← hr, h1]

/-! ### the guard structure of the generated functions (this is what a moved or merged `if` changes) -/

section shapes
variable [Trig K] (P : Pts K) (o : GObs K) (tol : K)

theorem shape_distance : (distance P o tol).rows.map GRow.shape = [shPoint .frm ++ shPoint .to] := rfl
theorem shape_zenith : (zenith P o tol).rows.map GRow.shape = [shPoint .frm ++ shPoint .to] := rfl
theorem shape_vector : (vector P o tol).rows.map GRow.shape =
    [shPoint .frm ++ shPoint .to, shPoint .frm ++ shPoint .to, shPoint .frm ++ shPoint .to] := rfl
theorem shape_xyz : (xyz P o tol).rows.map GRow.shape = [shPoint .pt, shPoint .pt, shPoint .pt] := rfl
theorem shape_height : (height P o tol).rows.map GRow.shape = [[([(.pt, .freeU)], [(.pt, .U)])]] := rfl
theorem shape_hdiff : (hdiff P o tol).rows.map GRow.shape =
    [[([(.frm, .freeU)], [(.frm, .U)])] ++ [([(.to, .freeU)], [(.to, .U)])]] := rfl
theorem shape_azimuth : (azimuth P o tol).rows.map GRow.shape =
    [[([(.frm, .freeH)], [(.frm, .N), (.frm, .E)])] ++ shPoint .to] := rfl
theorem shape_angle : (angle P o tol).rows.map GRow.shape =
    [shPointNEU .frm ++ shPointNEU .left ++ shPointNEU .right] := rfl

end shapes

/-- from the shapes of all rows to a statement about every row -/
theorem emitted_of_shapes {l : GLin K} {shs : List Shape} (h : l.rows.map GRow.shape = shs) (P : Pts K)
    (pat : List (Role × Comp)) (hs : ∀ sh ∈ shs, emittedOf P sh = pat.filter (adjusted P)) :
    ∀ r ∈ l.rows, emitted P r = pat.filter (adjusted P) := by
  intro r hr
  apply hs
  rw [← h]
  exact List.mem_map_of_mem hr

theorem emittedOf_fromTo (P : Pts K) (h : Normal P) :
    emittedOf P (shPoint .frm ++ shPoint .to) = patFromTo.filter (adjusted P) := by
  rw [emittedOf_append, emittedOf_shPoint P h, emittedOf_shPoint P h, patFromTo, List.filter_append]

set_option linter.unusedSectionVars false
section only_free
variable [Trig K] (P : Pts K) (h : Normal P) (o : GObs K) (tol : K)
include h

theorem only_free_distance : ∀ r ∈ (distance P o tol).rows, emitted P r = patFromTo.filter (adjusted P) :=
  emitted_of_shapes (shape_distance P o tol) P _ (by simp [emittedOf_fromTo P h])

theorem only_free_zenith : ∀ r ∈ (zenith P o tol).rows, emitted P r = patFromTo.filter (adjusted P) :=
  emitted_of_shapes (shape_zenith P o tol) P _ (by simp [emittedOf_fromTo P h])

theorem only_free_vector : ∀ r ∈ (vector P o tol).rows, emitted P r = patFromTo.filter (adjusted P) :=
  emitted_of_shapes (shape_vector P o tol) P _ (by simp [emittedOf_fromTo P h])

theorem only_free_xyz : ∀ r ∈ (xyz P o tol).rows, emitted P r = patPoint.filter (adjusted P) :=
  emitted_of_shapes (shape_xyz P o tol) P _ (by simp [emittedOf_shPoint P h, patPoint])

theorem only_free_height : ∀ r ∈ (height P o tol).rows, emitted P r = patHeight.filter (adjusted P) :=
  emitted_of_shapes (shape_height P o tol) P _ (by simp [emittedOf_U, patHeight])

theorem only_free_hdiff : ∀ r ∈ (hdiff P o tol).rows, emitted P r = patHdiff.filter (adjusted P) :=
  emitted_of_shapes (shape_hdiff P o tol) P _ (by
    simp only [List.mem_singleton, forall_eq]
    rw [emittedOf_append, emittedOf_U, emittedOf_U, patHdiff, ← List.filter_append]; rfl)

theorem only_free_azimuth : ∀ r ∈ (azimuth P o tol).rows, emitted P r = patAzimuth.filter (adjusted P) :=
  emitted_of_shapes (shape_azimuth P o tol) P _ (by
    simp only [List.mem_singleton, forall_eq]
    rw [emittedOf_append, emittedOf_H P h, emittedOf_shPoint P h, patAzimuth, List.filter_append])

omit h in
theorem only_free_angle : ∀ r ∈ (angle P o tol).rows, emitted P r = patAngle.filter (adjusted P) :=
  emitted_of_shapes (shape_angle P o tol) P _ (by
    simp only [List.mem_singleton, forall_eq]
    rw [emittedOf_append, emittedOf_append, emittedOf_shPointNEU, emittedOf_shPointNEU, emittedOf_shPointNEU,
      patAngle, List.filter_append, List.filter_append])

end only_free

/-- what the sparse matrix receives is the emitted unknowns with their column indices -/
theorem evalRow_indices (P : Pts K) (r : GRow K) :
    (evalRow P r).map Prod.snd = (emitted P r).map fun q => (P q.1).index q.2 := by
  simp only [evalRow, emitted, emittedOf, GRow.shape, GBlock.active, List.map_flatMap, List.flatMap_map]
  congr 1
  funext b
  by_cases hb : (b.guards.all fun x => Guard.holds (P x.fst) x.snd) = true <;> simp [hb, Function.comp_def]

end G3Lin
end Gama
