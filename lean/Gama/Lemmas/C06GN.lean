/-
  C06 — lemmas about refine_approx_coordinates, the stopping test and the fixed point, over ℝ.
-/
import Gama.Lemmas.C06Median
import Mathlib.Data.Matrix.Mul
open Gama Gama.Median Gama.C06R Gama.Cogo Gama.GN
namespace Gama.C06L

@[simp] theorem thousand_eq : (thousand : ℝ) = 1000 := by simp [thousand]
@[simp] theorem tenThousand_eq : (tenThousand : ℝ) = 10000 := by simp [tenThousand]
@[simp] theorem twoHundred_eq : (twoHundred : ℝ) = 200 := by simp [twoHundred]

/-- the point p is not updated by the unknown u -/
def Untouched (p : ℕ) (u : Unk) : Prop := u ≠ Unk.X p ∧ u ≠ Unk.Z p

theorem step_pts_untouched (x : List ℝ) (i : ℕ) (u : Unk) (st : St ℝ) (p : ℕ) (h : Untouched p u) :
    (step x i u st).pts p = st.pts p := by
  cases u with
  | X q => have : p ≠ q := fun e => h.1 (by rw [e]); simp [step, this]
  | Y q => rfl
  | Z q => have : p ≠ q := fun e => h.2 (by rw [e]); simp [step, this]
  | R s => rfl

theorem step_ori_untouched (x : List ℝ) (i : ℕ) (u : Unk) (st : St ℝ) (s : ℕ) (h : u ≠ Unk.R s) :
    (step x i u st).ori s = st.ori s := by
  cases u with
  | X q => rfl
  | Y q => rfl
  | Z q => rfl
  | R q => have : s ≠ q := fun e => h (by rw [e]); simp [step, this]

theorem refineFrom_pts_untouched (x : List ℝ) (us : List Unk) (p : ℕ) (h : ∀ u ∈ us, Untouched p u) :
    ∀ (i : ℕ) (st : St ℝ), (refineFrom x i us st).pts p = st.pts p := by
  induction us with
  | nil => intro i st; rfl
  | cons u us ih =>
    intro i st
    unfold refineFrom
    rw [ih (fun v hv => h v (List.mem_cons_of_mem _ hv)), step_pts_untouched x i u st p (h u List.mem_cons_self)]

theorem refineFrom_ori_untouched (x : List ℝ) (us : List Unk) (s : ℕ) (h : ∀ u ∈ us, u ≠ Unk.R s) :
    ∀ (i : ℕ) (st : St ℝ), (refineFrom x i us st).ori s = st.ori s := by
  induction us with
  | nil => intro i st; rfl
  | cons u us ih =>
    intro i st
    unfold refineFrom
    rw [ih (fun v hv => h v (List.mem_cons_of_mem _ hv)), step_ori_untouched x i u st s (h u List.mem_cons_self)]

theorem refineFrom_append (x : List ℝ) (a b : List Unk) :
    ∀ (i : ℕ) (st : St ℝ), refineFrom x i (a ++ b) st = refineFrom x (i + a.length) b (refineFrom x i a st) := by
  induction a with
  | nil => intro i st; simp [refineFrom]
  | cons u a ih =>
    intro i st
    simp only [List.cons_append, refineFrom, ih, List.length_cons]
    congr 1; omega

/-- refine_approx_coordinates adds x(i)/1000, x(i+1)/1000 to the xy of the point whose 'X' unknown has index i
    and leaves its z alone, provided no other unknown names the point's X or Z -/
theorem refine_X (x : List ℝ) (pre post : List Unk) (p : ℕ) (st : St ℝ)
    (hpre : ∀ u ∈ pre, Untouched p u) (hpost : ∀ u ∈ post, Untouched p u) :
    (refine x (pre ++ Unk.X p :: post) st).pts p =
      ⟨(st.pts p).x + xAt x (pre.length + 1) / 1000, (st.pts p).y + xAt x (pre.length + 2) / 1000, (st.pts p).z⟩ := by
  unfold refine
  rw [refineFrom_append]
  unfold refineFrom
  rw [refineFrom_pts_untouched x post p hpost]
  simp only [step, if_true, add_eq, div_eq, thousand_eq]
  rw [refineFrom_pts_untouched x pre p hpre]
  have e1 : 1 + pre.length = pre.length + 1 := by omega
  rw [e1]

theorem refine_Z (x : List ℝ) (pre post : List Unk) (p : ℕ) (st : St ℝ)
    (hpre : ∀ u ∈ pre, Untouched p u) (hpost : ∀ u ∈ post, Untouched p u) :
    (refine x (pre ++ Unk.Z p :: post) st).pts p =
      ⟨(st.pts p).x, (st.pts p).y, (st.pts p).z + xAt x (pre.length + 1) / 1000⟩ := by
  unfold refine
  rw [refineFrom_append]
  unfold refineFrom
  rw [refineFrom_pts_untouched x post p hpost]
  simp only [step, if_true, add_eq, div_eq, thousand_eq]
  rw [refineFrom_pts_untouched x pre p hpre]
  have e1 : 1 + pre.length = pre.length + 1 := by omega
  rw [e1]

/-- orientation unknown: x is in cc (1e-4 gon): new = old + x/10000 gon converted to radians -/
theorem refine_R (x : List ℝ) (pre post : List Unk) (s : ℕ) (st : St ℝ)
    (hpre : ∀ u ∈ pre, u ≠ Unk.R s) (hpost : ∀ u ∈ post, u ≠ Unk.R s) :
    (refine x (pre ++ Unk.R s :: post) st).ori s =
      st.ori s + xAt x (pre.length + 1) / 10000 * (Real.pi / 200) := by
  unfold refine
  rw [refineFrom_append]
  unfold refineFrom
  rw [refineFrom_ori_untouched x post s hpost]
  simp only [step, if_true, add_eq, div_eq, mul_eq, pi_eq, twoHundred_eq, tenThousand_eq]
  rw [refineFrom_ori_untouched x pre s hpre]
  have e1 : 1 + pre.length = pre.length + 1 := by omega
  rw [e1]
  have := Real.pi_ne_zero
  field_simp

theorem refine_pts_other (x : List ℝ) (us : List Unk) (p : ℕ) (st : St ℝ) (h : ∀ u ∈ us, Untouched p u) :
    (refine x us st).pts p = st.pts p := refineFrom_pts_untouched x us p h 1 st

theorem refine_ori_other (x : List ℝ) (us : List Unk) (s : ℕ) (st : St ℝ) (h : ∀ u ∈ us, u ≠ Unk.R s) :
    (refine x us st).ori s = st.ori s := refineFrom_ori_untouched x us s h 1 st

/-! fixed point -/

theorem cc2r_zero : cc2r (0 : ℝ) = 0 := by simp [cc2r]

theorem polDistance_fixed (sx sy cx cy : ℝ) :
    polDistance (bearingDistance sy sx cy cx).2 0 sx sy cx cy = 0 := by
  simp [polDistance]

theorem polSDistance_fixed (dx dy dz : ℝ) :
    polSDistance (Real.sqrt (dx * dx + dy * dy + dz * dz)) 0 dx dy dz = 0 := by
  simp [polSDistance]

/-- direction = bearing − orientation reduced to [0,2π): value + orientation − bearing ∈ {0, 2π} -/
theorem polDirection_fixed (n : ℕ) (val orp sx sy cx cy : ℝ)
    (h : val + orp = (bearingDistance sy sx cy cx).1 ∨ val + orp = (bearingDistance sy sx cy cx).1 + 2 * Real.pi) :
    polDirection (n + 1) val 0 orp 0 sx sy cx cy = 0 := by
  have hp := Real.pi_pos
  unfold polDirection
  simp only [cc2r_zero, add_eq, sub_eq, mul_eq, add_zero]
  rcases h with h | h
  · rw [h, sub_self, wrap_mid _ _ (by linarith) (by linarith)]; simp
  · rw [h]
    have : (bearingDistance sy sx cy cx).1 + 2 * Real.pi - (bearingDistance sy sx cy cx).1 = 2 * Real.pi := by ring
    rw [this, wrap_hi _ _ (by linarith) (by linarith)]; simp

/-- angle = bearing(fs) − bearing(bs) reduced to [0,2π): value − ds2 + ds ∈ {0, 2π} -/
theorem polAngle_fixed (n : ℕ) (val sx sy cx cy cx2 cy2 : ℝ)
    (h : val = (bearingDistance sy sx cy2 cx2).1 - (bearingDistance sy sx cy cx).1 ∨
         val = (bearingDistance sy sx cy2 cx2).1 - (bearingDistance sy sx cy cx).1 + 2 * Real.pi) :
    polAngle (n + 1) val 0 sx sy cx cy cx2 cy2 = 0 := by
  have hp := Real.pi_pos
  unfold polAngle
  simp only [cc2r_zero, add_eq, sub_eq, mul_eq, add_zero]
  rcases h with h | h
  · rw [h]
    have : (bearingDistance sy sx cy2 cx2).1 - (bearingDistance sy sx cy cx).1 - (bearingDistance sy sx cy2 cx2).1
        + (bearingDistance sy sx cy cx).1 = 0 := by ring
    rw [this, wrap_mid _ _ (by linarith) (by linarith)]; simp
  · rw [h]
    have : (bearingDistance sy sx cy2 cx2).1 - (bearingDistance sy sx cy cx).1 + 2 * Real.pi
        - (bearingDistance sy sx cy2 cx2).1 + (bearingDistance sy sx cy cx).1 = 2 * Real.pi := by ring
    rw [this, wrap_hi _ _ (by linarith) (by linarith)]; simp

/-- zenith angle = the value the visitor recomputes (acos(-dz/s), 2π − acos for a second-face reading) -/
theorem polZAngle_fixed (n : ℕ) (val dx dy dz : ℝ)
    (h : val = if Real.pi < val
               then 2 * Real.pi - Real.arccos (-dz / Real.sqrt (dx * dx + dy * dy + dz * dz))
               else Real.arccos (-dz / Real.sqrt (dx * dx + dy * dy + dz * dz))) :
    polZAngle (n + 1) val 0 dx dy dz = 0 := by
  have hp := Real.pi_pos
  unfold polZAngle
  simp only [cc2r_zero, add_eq, sub_eq, mul_eq, div_eq, neg_eq, add_zero, sqrt_eq, acos_eq, pi_eq, lt_eq,
    twoPi_eq, zero_eq]
  split_ifs with h0 h1
  · rfl
  · rw [if_pos h1] at h
    have : val - (2 * Real.pi - Real.arccos (-dz / Real.sqrt (dx * dx + dy * dy + dz * dz))) = 0 := by linarith
    rw [this, wrap_mid _ _ (by linarith) (by linarith)]; simp
  · rw [if_neg h1] at h
    have : val - Real.arccos (-dz / Real.sqrt (dx * dx + dy * dy + dz * dz)) = 0 := by linarith
    rw [this, wrap_mid _ _ (by linarith) (by linarith)]; simp

theorem testLin_zeros (k : ℕ) : testLin (List.replicate k (0 : ℝ)) = false := by
  unfold testLin
  have : (List.replicate k (0 : ℝ)).foldl (fun acc p => if acc < Scalar.abs p then Scalar.abs p else acc) (0 : ℝ) = 0 := by
    induction k with
    | zero => rfl
    | succ k ih => simp only [List.replicate_succ, List.foldl_cons, abs_eq, abs_zero, lt_eq, zero_eq, lt_self_iff_false, if_false]; simpa using ih
  simp only [this, le_eq]
  simp [Scalar.ofSci]

theorem normal_eq_zero {m n : Type} [Fintype m] [Fintype n] (A : Matrix m n ℝ) (P : Matrix m m ℝ) :
    A.transpose.mulVec (P.mulVec (A.mulVec 0 - 0)) = 0 := by simp

/-- adding a row to an injective design matrix keeps it injective -/
theorem more_obs_injective {m n : Type} [Fintype m] [Fintype n] (A : Matrix m n ℝ) (a : n → ℝ)
    (hA : ∀ x, A.mulVec x = 0 → x = 0) :
    ∀ x, (Matrix.of (fun (i : m ⊕ Unit) => Sum.elim A (fun _ => a) i)).mulVec x = 0 → x = 0 := by
  intro x hx
  apply hA
  funext i
  have := congrFun hx (Sum.inl i)
  simp only [Matrix.mulVec, Matrix.of_apply, Sum.elim_inl, Pi.zero_apply] at this ⊢
  exact this

end Gama.C06L
