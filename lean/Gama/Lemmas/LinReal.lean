/-
  C05 — lemmas over ℝ about the generated linearisation (`Gama/Gen/Linearization.lean`).
-/
import Gama.Lemmas.LinSpec
namespace Gama.Lin
open Real

/-! ### the scalar signature at ℝ -/

@[simp] theorem ofNat_real (n : Nat) : (Scalar.ofNat n : ℝ) = (n : ℝ) := rfl
@[simp] theorem ofSci_real (m : Nat) (s : Bool) (e : Nat) :
    (Scalar.ofSci m s e : ℝ) = if s then (m : ℝ) / 10 ^ e else (m : ℝ) * 10 ^ e := rfl
@[simp] theorem sqrt_real (x : ℝ) : (Scalar.sqrt x : ℝ) = Real.sqrt x := rfl
@[simp] theorem beq_real (a b : ℝ) : Scalar.beq a b = true ↔ a = b := by
  show @decide (a = b) (Classical.propDecidable _) = true ↔ _
  simp
@[simp] theorem sin_real (x : ℝ) : (TrigScalar.sin x : ℝ) = Real.sin x := rfl
@[simp] theorem cos_real (x : ℝ) : (TrigScalar.cos x : ℝ) = Real.cos x := rfl
@[simp] theorem acos_real (x : ℝ) : (TrigScalar.acos x : ℝ) = Real.arccos x := rfl
@[simp] theorem atan2_real (y x : ℝ) : (TrigScalar.atan2 y x : ℝ) = Complex.arg ⟨x, y⟩ := rfl
@[simp] theorem pi_real : (TrigScalar.pi : ℝ) = π := rfl

/-! ### `while` loops -/

theorem whileLoop_sub_spec (c : ℝ → Bool) (U P : ℝ) (hc : ∀ v, c v = true ↔ U < v) :
    ∀ (fuel : Nat) (a r : ℝ), whileLoop c (fun v => v - P) fuel a = some r →
      ∃ k : ℕ, r = a - k * P ∧ r ≤ U ∧ (k = 0 ∨ U - P < r) := by
  intro fuel
  induction fuel with
  | zero =>
    intro a r h
    unfold whileLoop at h
    split at h
    · exact absurd h (by simp)
    · rename_i hca
      have : ¬ U < a := fun hh => hca ((hc a).mpr hh)
      injection h with h; subst h
      exact ⟨0, by simp, not_lt.mp this, Or.inl rfl⟩
  | succ n ih =>
    intro a r h
    unfold whileLoop at h
    split at h
    · rename_i hca
      have hUa : U < a := (hc a).mp hca
      obtain ⟨k, hk, hU, hor⟩ := ih (a - P) r h
      refine ⟨k + 1, by rw [hk]; push_cast; ring, hU, Or.inr ?_⟩
      rcases hor with h0 | h1
      · subst h0; simp at hk; rw [hk]; linarith
      · exact h1
    · rename_i hca
      have : ¬ U < a := fun hh => hca ((hc a).mpr hh)
      injection h with h; subst h
      exact ⟨0, by simp, not_lt.mp this, Or.inl rfl⟩

theorem whileLoop_add_spec (c : ℝ → Bool) (L P : ℝ) (hc : ∀ v, c v = true ↔ v < L) :
    ∀ (fuel : Nat) (a r : ℝ), whileLoop c (fun v => v + P) fuel a = some r →
      ∃ k : ℕ, r = a + k * P ∧ L ≤ r ∧ (k = 0 ∨ r < L + P) := by
  intro fuel
  induction fuel with
  | zero =>
    intro a r h
    unfold whileLoop at h
    split at h
    · exact absurd h (by simp)
    · rename_i hca
      have : ¬ a < L := fun hh => hca ((hc a).mpr hh)
      injection h with h; subst h
      exact ⟨0, by simp, not_lt.mp this, Or.inl rfl⟩
  | succ n ih =>
    intro a r h
    unfold whileLoop at h
    split at h
    · rename_i hca
      have hUa : a < L := (hc a).mp hca
      obtain ⟨k, hk, hU, hor⟩ := ih (a + P) r h
      refine ⟨k + 1, by rw [hk]; push_cast; ring, hU, Or.inr ?_⟩
      rcases hor with h0 | h1
      · subst h0; simp at hk; rw [hk]; linarith
      · exact h1
    · rename_i hca
      have : ¬ a < L := fun hh => hca ((hc a).mpr hh)
      injection h with h; subst h
      exact ⟨0, by simp, not_lt.mp this, Or.inl rfl⟩

theorem whileLoop_add_spec_le (c : ℝ → Bool) (L P : ℝ) (hc : ∀ v, c v = true ↔ v ≤ L) :
    ∀ (fuel : Nat) (a r : ℝ), whileLoop c (fun v => v + P) fuel a = some r →
      ∃ k : ℕ, r = a + k * P ∧ L < r ∧ (k = 0 ∨ r ≤ L + P) := by
  intro fuel
  induction fuel with
  | zero =>
    intro a r h
    unfold whileLoop at h
    split at h
    · exact absurd h (by simp)
    · rename_i hca
      have : ¬ a ≤ L := fun hh => hca ((hc a).mpr hh)
      injection h with h; subst h
      exact ⟨0, by simp, not_le.mp this, Or.inl rfl⟩
  | succ n ih =>
    intro a r h
    unfold whileLoop at h
    split at h
    · rename_i hca
      have hUa : a ≤ L := (hc a).mp hca
      obtain ⟨k, hk, hU, hor⟩ := ih (a + P) r h
      refine ⟨k + 1, by rw [hk]; push_cast; ring, hU, Or.inr ?_⟩
      rcases hor with h0 | h1
      · subst h0; simp at hk; rw [hk]; linarith
      · exact h1
    · rename_i hca
      have : ¬ a ≤ L := fun hh => hca ((hc a).mpr hh)
      injection h with h; subst h
      exact ⟨0, by simp, not_le.mp this, Or.inl rfl⟩

theorem whileLoop_add_terminates_le (c : ℝ → Bool) (L P : ℝ) (hc : ∀ v, c v = true ↔ v ≤ L) :
    ∀ (n : Nat) (a : ℝ), L < a + n * P → ∃ r, whileLoop c (fun v => v + P) n a = some r := by
  intro n
  induction n with
  | zero =>
    intro a h
    simp at h
    unfold whileLoop
    have : c a ≠ true := fun hh => absurd ((hc a).mp hh) (not_le.mpr h)
    simp [this]
  | succ n ih =>
    intro a h
    unfold whileLoop
    by_cases hca : c a = true
    · simp only [hca, if_true]
      apply ih
      push_cast at h; linarith
    · simp [hca]

/-- enough fuel always exists over ℝ (Archimedean); at `double` it need not (`a - 400e4 == a`) -/
theorem whileLoop_sub_terminates (c : ℝ → Bool) (U P : ℝ) (hc : ∀ v, c v = true ↔ U < v) :
    ∀ (n : Nat) (a : ℝ), a - n * P ≤ U → ∃ r, whileLoop c (fun v => v - P) n a = some r := by
  intro n
  induction n with
  | zero =>
    intro a h
    simp at h
    unfold whileLoop
    have : c a ≠ true := fun hh => absurd ((hc a).mp hh) (not_lt.mpr h)
    simp [this]
  | succ n ih =>
    intro a h
    unfold whileLoop
    by_cases hca : c a = true
    · simp only [hca, if_true]
      apply ih
      push_cast at h; linarith
    · simp [hca]

theorem whileLoop_add_terminates (c : ℝ → Bool) (L P : ℝ) (hc : ∀ v, c v = true ↔ v < L) :
    ∀ (n : Nat) (a : ℝ), L ≤ a + n * P → ∃ r, whileLoop c (fun v => v + P) n a = some r := by
  intro n
  induction n with
  | zero =>
    intro a h
    simp at h
    unfold whileLoop
    have : c a ≠ true := fun hh => absurd ((hc a).mp hh) (not_lt.mpr h)
    simp [this]
  | succ n ih =>
    intro a h
    unfold whileLoop
    by_cases hca : c a = true
    · simp only [hca, if_true]
      apply ih
      push_cast at h; linarith
    · simp [hca]

/-- more fuel does not change a result -/
theorem whileLoop_mono (c : ℝ → Bool) (f : ℝ → ℝ) :
    ∀ (n : Nat) (a r : ℝ), whileLoop c f n a = some r → whileLoop c f (n + 1) a = some r := by
  intro n
  induction n with
  | zero =>
    intro a r h
    unfold whileLoop at h ⊢
    split at h
    · exact absurd h (by simp)
    · rename_i hca; simp [hca, h]
  | succ n ih =>
    intro a r h
    rw [whileLoop] at h ⊢
    split at h
    · rename_i hca; simp only [hca, if_true]; exact ih _ _ h
    · rename_i hca; simp [hca, h]

/-! ### polar angle -/

theorem norm_mk (x y : ℝ) : ‖(⟨x, y⟩ : ℂ)‖ = Real.sqrt (x * x + y * y) := by
  rw [Complex.norm_eq_sqrt_sq_add_sq]; simp [sq]

theorem isPolarAngle_arg (x y : ℝ) : IsPolarAngle x y (Complex.arg ⟨x, y⟩) := by
  constructor
  · have := Complex.norm_mul_cos_arg ⟨x, y⟩; rw [norm_mk] at this; simpa using this.symm
  · have := Complex.norm_mul_sin_arg ⟨x, y⟩; rw [norm_mk] at this; simpa using this.symm

theorem IsPolarAngle.add_two_pi {x y θ : ℝ} (h : IsPolarAngle x y θ) : IsPolarAngle x y (θ + 2 * π) := by
  unfold IsPolarAngle at *; simpa using h

theorem isPolarAngle_brg (x y : ℝ) : IsPolarAngle x y (brg x y) := by
  unfold brg; split
  · exact isPolarAngle_arg x y
  · exact (isPolarAngle_arg x y).add_two_pi

theorem brg_nonneg (x y : ℝ) : 0 ≤ brg x y := by
  unfold brg; split
  · assumption
  · have := Complex.neg_pi_lt_arg ⟨x, y⟩; linarith [Real.pi_pos]

theorem brg_lt_two_pi (x y : ℝ) : brg x y < 2 * π := by
  unfold brg; split
  · have := Complex.arg_le_pi ⟨x, y⟩; linarith [Real.pi_pos]
  · linarith

theorem line_hasDerivAt (x0 y0 a b : ℝ) :
    HasDerivAt (fun t : ℝ => (⟨x0 + a * t, y0 + b * t⟩ : ℂ)) ⟨a, b⟩ 0 := by
  have h : HasDerivAt (fun t : ℝ => (⟨x0, y0⟩ : ℂ) + (t : ℂ) * ⟨a, b⟩) ⟨a, b⟩ 0 := by
    have := ((hasDerivAt_id (0:ℝ)).ofReal_comp.mul_const (⟨a, b⟩ : ℂ)).const_add (⟨x0, y0⟩ : ℂ)
    simpa using this
  convert h using 1
  funext t
  apply Complex.ext <;> simp [mul_comm]

/-- along a straight line through a point other than the origin there is a differentiable
    choice of polar angle starting at the code's bearing; its derivative is the
    cross product over the squared distance -/
theorem exists_polar_lift (x0 y0 a b : ℝ) (h0 : x0 * x0 + y0 * y0 ≠ 0) :
    ∃ θ : ℝ → ℝ, θ 0 = brg x0 y0 ∧ (∀ t, IsPolarAngle (x0 + a * t) (y0 + b * t) (θ t)) ∧
      HasDerivAt θ ((x0 * b - y0 * a) / (x0 * x0 + y0 * y0)) 0 := by
  set γ : ℝ → ℂ := fun t => ⟨x0 + a * t, y0 + b * t⟩ with hγ
  have hγ' : HasDerivAt γ ⟨a, b⟩ 0 := line_hasDerivAt x0 y0 a b
  have hγ0 : γ 0 = ⟨x0, y0⟩ := by simp [hγ]
  have him : ((⟨a, b⟩ : ℂ) / ⟨x0, y0⟩).im = (x0 * b - y0 * a) / (x0 * x0 + y0 * y0) := by
    simp [Complex.div_im, Complex.normSq_apply]; ring
  by_cases hs : (⟨x0, y0⟩ : ℂ) ∈ Complex.slitPlane
  · refine ⟨fun t => Complex.arg (γ t) + (brg x0 y0 - Complex.arg ⟨x0, y0⟩), by simp [hγ0], ?_, ?_⟩
    · intro t
      have hp := isPolarAngle_arg (x0 + a * t) (y0 + b * t)
      unfold brg; split
      · simpa [hγ] using hp
      · have := hp.add_two_pi
        simpa [hγ, add_sub_cancel_left] using this
    · have h1 := hγ'.clog_real (by rw [hγ0]; exact hs)
      have h2 : HasDerivAt (fun t => (Complex.log (γ t)).im) ((⟨a, b⟩ : ℂ) / γ 0).im 0 :=
        Complex.imCLM.hasFDerivAt.comp_hasDerivAt 0 h1
      rw [hγ0, him] at h2
      simpa [Complex.log_im] using h2.add_const (brg x0 y0 - Complex.arg ⟨x0, y0⟩)
  · -- negative real axis: use the chart `arg (-z) + π`
    have hz : x0 < 0 ∧ y0 = 0 := by
      rw [Complex.mem_slitPlane_iff] at hs
      push Not at hs
      simp at hs
      rcases hs with ⟨h1, h2⟩
      refine ⟨lt_of_le_of_ne h1 ?_, h2⟩
      rintro rfl; simp [h2] at h0
    have harg : Complex.arg ⟨x0, y0⟩ = π := Complex.arg_eq_pi_iff.mpr ⟨hz.1, hz.2⟩
    have hb : brg x0 y0 = π := by unfold brg; rw [harg]; simp [Real.pi_pos.le]
    have hneg : -(γ 0) ∈ Complex.slitPlane := by
      rw [hγ0, Complex.mem_slitPlane_iff]; left; simp; exact hz.1
    refine ⟨fun t => Complex.arg (-(γ t)) + π, ?_, ?_, ?_⟩
    · have : Complex.arg (-(γ 0)) = 0 := by
        rw [Complex.arg_eq_zero_iff, hγ0]; simp [hz.2, hz.1.le]
      simp only [this, hb, zero_add]
    · intro t
      have hp := isPolarAngle_arg (-(x0 + a * t)) (-(y0 + b * t))
      have e : (-(γ t)) = (⟨-(x0 + a * t), -(y0 + b * t)⟩ : ℂ) := by
        apply Complex.ext <;> simp [hγ]
      beta_reduce
      rw [e]
      unfold IsPolarAngle at *
      simp only [Real.cos_add_pi, Real.sin_add_pi, neg_mul_neg] at *
      constructor
      · linarith [hp.1]
      · linarith [hp.2]
    · have h1 := hγ'.neg.clog_real hneg
      have h2 : HasDerivAt (fun t => (Complex.log (-(γ t))).im) ((-(⟨a, b⟩ : ℂ)) / (-(γ 0))).im 0 :=
        Complex.imCLM.hasFDerivAt.comp_hasDerivAt 0 h1
      rw [neg_div_neg_eq, hγ0, him] at h2
      simpa [Complex.log_im] using h2.add_const π
/-! ### bearing_distance, velocities, horizontal distance -/

theorem bearingDistancePt_eq (o : Obs ℝ) :
    Gen.Lin.bearingDistancePt o.pfrom o.pto =
      if hdist o < CUT then (0, 0) else (brg (dX o) (dY o), hdist o) := by
  have e : Real.sqrt ((o.pto.y - o.pfrom.y) * (o.pto.y - o.pfrom.y) + (o.pto.x - o.pfrom.x) * (o.pto.x - o.pfrom.x)) = hdist o := by
    unfold hdist dX dY; rw [add_comm]
  simp only [Gen.Lin.bearingDistancePt, Gen.Lin.bearingDistance, sqrt_real, e, ofSci_real, ofNat_real, atan2_real, pi_real]
  by_cases h : hdist o < CUT
  · have h' : hdist o < (1:ℝ) / 10 ^ 6 := h
    simp [CUT] at h' ⊢
    simp [h']
  · have h' : ¬ hdist o < (1:ℝ) / 10 ^ 6 := h
    simp [CUT] at h' ⊢
    simp [h', brg, dX, dY]

theorem CUT_pos : 0 < CUT := by unfold CUT; positivity

theorem hdist_pos_of_not_cut {o : Obs ℝ} (h : ¬ hdist o < CUT) : 0 < hdist o :=
  lt_of_lt_of_le CUT_pos (not_lt.mp h)

theorem cos_brg {x y : ℝ} (h : Real.sqrt (x * x + y * y) ≠ 0) : Real.cos (brg x y) = x / Real.sqrt (x * x + y * y) := by
  have := (isPolarAngle_brg x y).1
  rw [eq_div_iff h]; linarith
theorem sin_brg {x y : ℝ} (h : Real.sqrt (x * x + y * y) ≠ 0) : Real.sin (brg x y) = y / Real.sqrt (x * x + y * y) := by
  have := (isPolarAngle_brg x y).2
  rw [eq_div_iff h]; linarith

/-! velocities of the difference vectors when unknown (r,c) moves by t (mm / cc) -/
noncomputable def velX : Role → Coord → ℝ | .pto, .x => 1 / 1000 | .pfrom, .x => -(1 / 1000) | _, _ => 0
noncomputable def velY : Role → Coord → ℝ | .pto, .y => 1 / 1000 | .pfrom, .y => -(1 / 1000) | _, _ => 0
noncomputable def velZ : Role → Coord → ℝ | .pto, .z => 1 / 1000 | .pfrom, .z => -(1 / 1000) | _, _ => 0
noncomputable def velX2 : Role → Coord → ℝ | .pfs, .x => 1 / 1000 | .pfrom, .x => -(1 / 1000) | _, _ => 0
noncomputable def velY2 : Role → Coord → ℝ | .pfs, .y => 1 / 1000 | .pfrom, .y => -(1 / 1000) | _, _ => 0
noncomputable def velO : Role → Coord → ℝ | .station, .ori => 1 / R2CC | _, _ => 0

theorem dX_bumpU (o : Obs ℝ) (r c t) : dX (bumpU o r c t) = dX o + velX r c * t := by
  cases r <;> cases c <;> simp [dX, bumpU, bump, bumpPt, velX, unitOf, MM] <;> ring
theorem dY_bumpU (o : Obs ℝ) (r c t) : dY (bumpU o r c t) = dY o + velY r c * t := by
  cases r <;> cases c <;> simp [dY, bumpU, bump, bumpPt, velY, unitOf, MM] <;> ring
theorem dZ_bumpU (o : Obs ℝ) (r c t) : dZ (bumpU o r c t) = dZ o + velZ r c * t := by
  cases r <;> cases c <;> simp [dZ, bumpU, bump, bumpPt, velZ, unitOf, MM] <;> ring
theorem dX2_bumpU (o : Obs ℝ) (r c t) : dX2 (bumpU o r c t) = dX2 o + velX2 r c * t := by
  cases r <;> cases c <;> simp [dX2, bumpU, bump, bumpPt, velX2, unitOf, MM] <;> ring
theorem dY2_bumpU (o : Obs ℝ) (r c t) : dY2 (bumpU o r c t) = dY2 o + velY2 r c * t := by
  cases r <;> cases c <;> simp [dY2, bumpU, bump, bumpPt, velY2, unitOf, MM] <;> ring
theorem ori_bumpU (o : Obs ℝ) (r c t) : (bumpU o r c t).orientation = o.orientation + velO r c * t := by
  cases r <;> cases c <;> simp [bumpU, bump, bumpPt, velO, unitOf, MM] <;> ring
theorem xNorth_bumpU (o : Obs ℝ) (r c t) : (bumpU o r c t).xNorth = o.xNorth := by
  cases r <;> cases c <;> simp [bumpU, bump, bumpPt]
theorem value_bumpU (o : Obs ℝ) (r c t) : (bumpU o r c t).value = o.value := by
  cases r <;> cases c <;> simp [bumpU, bump, bumpPt]

theorem hasDerivAt_line (x0 a : ℝ) : HasDerivAt (fun t : ℝ => x0 + a * t) a 0 := by
  simpa using ((hasDerivAt_id (0:ℝ)).const_mul a).const_add x0

theorem hasDerivAt_norm2 (x0 y0 a b : ℝ) (h : x0 * x0 + y0 * y0 ≠ 0) :
    HasDerivAt (fun t : ℝ => Real.sqrt ((x0 + a * t) * (x0 + a * t) + (y0 + b * t) * (y0 + b * t)))
      ((x0 * a + y0 * b) / Real.sqrt (x0 * x0 + y0 * y0)) 0 := by
  have hx := hasDerivAt_line x0 a
  have hy := hasDerivAt_line y0 b
  have hq : HasDerivAt (fun t : ℝ => (x0 + a * t) * (x0 + a * t) + (y0 + b * t) * (y0 + b * t))
      (2 * (x0 * a + y0 * b)) 0 :=
    (show HasDerivAt (fun t : ℝ => (x0 + a * t) * (x0 + a * t) + (y0 + b * t) * (y0 + b * t)) _ 0 from
      (hx.mul hx).add (hy.mul hy)).congr_deriv (by simp; ring)
  have hs := hq.sqrt (by simpa using h)
  refine hs.congr_deriv ?_
  simp only [mul_zero, add_zero]
  rw [mul_div_mul_left _ _ two_ne_zero]

/-- horizontal distance: partial derivative wrt any unknown -/
theorem hdist_partial (o : Obs ℝ) (r : Role) (c : Coord) (h : hdist o ≠ 0) :
    IsPartial MM hdist o r c (MM * ((dX o * velX r c + dY o * velY r c) / hdist o)) := by
  unfold IsPartial
  have h2 : dX o * dX o + dY o * dY o ≠ 0 := by
    intro h0; apply h; unfold hdist; rw [h0]; simp
  have := (hasDerivAt_norm2 (dX o) (dY o) (velX r c) (velY r c) h2).const_mul MM
  simpa only [hdist, dX_bumpU, dY_bumpU] using this

theorem distance_eq (fuel : Nat) (o : Obs ℝ) (h : ¬ hdist o < CUT) :
    Gen.Lin.distance fuel o = .ok ⟨(o.value - hdist o) * 1000,
      (if o.pfrom.free_xy then [Ev.touch .pfrom .x, Ev.touch .pfrom .y,
          Ev.push .pfrom .y (-(dY o / hdist o)), Ev.push .pfrom .x (-(dX o / hdist o))] else []) ++
      (if o.pto.free_xy then [Ev.touch .pto .x, Ev.touch .pto .y,
          Ev.push .pto .y (dY o / hdist o), Ev.push .pto .x (dX o / hdist o)] else [])⟩ := by
  have hd : Real.sqrt (dX o * dX o + dY o * dY o) ≠ 0 := (hdist_pos_of_not_cut h).ne'
  simp only [Gen.Lin.distance, bearingDistancePt_eq, h, if_false, sin_real, cos_real, sin_brg hd, cos_brg hd,
    ofSci_real]
  simp [hdist]
  norm_num

theorem distance_partials (o : Obs ℝ) (h : hdist o ≠ 0) :
    IsPartial MM hdist o .pfrom .y (-(dY o / hdist o)) ∧ IsPartial MM hdist o .pfrom .x (-(dX o / hdist o)) ∧
    IsPartial MM hdist o .pto .y (dY o / hdist o) ∧ IsPartial MM hdist o .pto .x (dX o / hdist o) := by
  refine ⟨?_, ?_, ?_, ?_⟩ <;>
  · refine (hdist_partial o _ _ h).congr_deriv ?_
    simp [velX, velY, MM]
    try ring

theorem distance_coeff (fuel : Nat) (o : Obs ℝ) (out : LinOut ℝ) (h : ¬ hdist o < CUT)
    (hok : Gen.Lin.distance fuel o = .ok out) :
    ∀ p ∈ out.pushes, IsPartial MM hdist o p.1 p.2.1 p.2.2 := by
  rw [distance_eq fuel o h] at hok
  injection hok with hok; subst hok
  obtain ⟨h1, h2, h3, h4⟩ := distance_partials o (hdist_pos_of_not_cut h).ne'
  cases o.pfrom.free_xy <;> cases o.pto.free_xy <;> simp [LinOut.pushes, pushes, *]

/-! ### wrap loops, direction -/

theorem whileLoop_mono_le (c : ℝ → Bool) (f : ℝ → ℝ) {n m : Nat} (h : n ≤ m) (a r : ℝ)
    (hn : whileLoop c f n a = some r) : whileLoop c f m a = some r := by
  induction h with
  | refl => exact hn
  | step _ ih => exact whileLoop_mono c f _ a r ih

/-- the two wrap loops (`a > 200e4`, `a <= -200e4`), whatever decision procedures implement the
    comparisons: the result is congruent mod 400 gon and lies in the half-open range -/
theorem wrap_spec (c1 c2 : ℝ → Bool) (hc1 : ∀ v, c1 v = true ↔ HALF < v) (hc2 : ∀ v, c2 v = true ↔ v ≤ -HALF)
    (fuel : Nat) (a r1 r : ℝ) (h1 : whileLoop c1 (fun v => v - FULL) fuel a = some r1)
    (h2 : whileLoop c2 (fun v => v + FULL) fuel r1 = some r) : IsWrapOf a r := by
  obtain ⟨k1, e1, u1, o1⟩ := whileLoop_sub_spec c1 HALF FULL hc1 fuel a r1 h1
  obtain ⟨k2, e2, l2, o2⟩ := whileLoop_add_spec_le c2 (-HALF) FULL hc2 fuel r1 r h2
  refine ⟨⟨(k1 : ℤ) - k2, by rw [e2, e1]; push_cast; ring⟩, l2, ?_⟩
  rcases o2 with h0 | h0
  · subst h0; simp at e2; rw [e2]; exact u1
  · unfold HALF FULL at *; linarith

theorem wrap_terminates (c1 c2 : ℝ → Bool) (hc1 : ∀ v, c1 v = true ↔ HALF < v) (hc2 : ∀ v, c2 v = true ↔ v ≤ -HALF)
    (a : ℝ) : ∃ fuel r1 r, whileLoop c1 (fun v => v - FULL) fuel a = some r1 ∧
      whileLoop c2 (fun v => v + FULL) fuel r1 = some r := by
  have hF : (0:ℝ) < FULL := by unfold FULL; norm_num
  obtain ⟨n1, hn1⟩ := exists_nat_ge ((a - HALF) / FULL)
  obtain ⟨r1, hr1⟩ := whileLoop_sub_terminates c1 HALF FULL hc1 n1 a (by
    rw [div_le_iff₀ hF] at hn1; linarith)
  obtain ⟨n2, hn2⟩ := exists_nat_gt ((-HALF - r1) / FULL)
  obtain ⟨r, hr⟩ := whileLoop_add_terminates_le c2 (-HALF) FULL hc2 n2 r1 (by
    rw [div_lt_iff₀ hF] at hn2; linarith)
  exact ⟨max n1 n2, r1, r, whileLoop_mono_le _ _ (le_max_left _ _) _ _ hr1,
    whileLoop_mono_le _ _ (le_max_right _ _) _ _ hr⟩

theorem hc1 : ∀ v : ℝ, decide ((Scalar.ofSci 200 false 4 : ℝ) < v) = true ↔ HALF < v := by
  intro v; simp [HALF]; norm_num
theorem hc2 : ∀ v : ℝ, decide (v ≤ -(Scalar.ofSci 200 false 4 : ℝ)) = true ↔ v ≤ -HALF := by
  intro v; simp [HALF]; norm_num
theorem full_eq : (Scalar.ofSci 400 false 4 : ℝ) = FULL := by simp [FULL]; norm_num

/-- coefficient factor of the angular types: `10*R2G/d` = cc per mm at distance `d` -/
noncomputable def KF (d : ℝ) : ℝ := 2000 / π / d

noncomputable def directionEvs (o : Obs ℝ) : List (Ev ℝ) :=
  [Ev.touch .station .ori] ++ [Ev.push .station .ori (-1)] ++
  (if o.pfrom.free_xy then [Ev.touch .pfrom .x, Ev.touch .pfrom .y,
      Ev.push .pfrom .y (-(KF (hdist o) * (dX o / hdist o))), Ev.push .pfrom .x (KF (hdist o) * (dY o / hdist o))] else []) ++
  (if o.pto.free_xy then [Ev.touch .pto .x, Ev.touch .pto .y,
      Ev.push .pto .y (KF (hdist o) * (dX o / hdist o)), Ev.push .pto .x (-(KF (hdist o) * (dY o / hdist o)))] else [])

theorem direction_ok (fuel : Nat) (o : Obs ℝ) (out : LinOut ℝ) (h : ¬ hdist o < CUT)
    (hok : Gen.Lin.direction fuel o = .ok out) :
    IsWrapOf ((o.value + o.orientation - brg (dX o) (dY o)) * R2CC) out.rhs ∧ out.evs = directionEvs o := by
  have hd : Real.sqrt (dX o * dX o + dY o * dY o) ≠ 0 := (hdist_pos_of_not_cut h).ne'
  simp only [Gen.Lin.direction, bearingDistancePt_eq, h, if_false, sin_real, cos_real, sin_brg hd, cos_brg hd,
    full_eq, pi_real] at hok
  split at hok
  · exact absurd hok (by simp)
  · rename_i r1 h1
    split at hok
    · exact absurd hok (by simp)
    · rename_i r h2
      injection hok with hok; subst hok
      refine ⟨?_, ?_⟩
      · have := wrap_spec _ _ hc1 hc2 fuel _ r1 r h1 h2
        convert this using 1
        simp [R2CC]; ring
      · simp [directionEvs, KF, hdist]
        norm_num

theorem hdist_sq_ne {o : Obs ℝ} (h : hdist o ≠ 0) : dX o * dX o + dY o * dY o ≠ 0 := by
  intro h0; apply h; unfold hdist; rw [h0]; simp

theorem hdist_mul_self (o : Obs ℝ) : hdist o * hdist o = dX o * dX o + dY o * dY o := by
  unfold hdist; exact Real.mul_self_sqrt (add_nonneg (mul_self_nonneg _) (mul_self_nonneg _))

/-- bearing from → to minus an offset that moves with the orientation unknown only -/
theorem bearing_partial (o : Obs ℝ) (r : Role) (c : Coord) (h : hdist o ≠ 0) (off : Obs ℝ → ℝ) (vo : ℝ)
    (hoff : ∀ t, off (bumpU o r c t) = off o + vo * t) :
    IsPartialBearing (fun o => (dX o, dY o)) off o r c
      (R2CC * ((dX o * velY r c - dY o * velX r c) / (hdist o * hdist o) - vo)) := by
  obtain ⟨θ, h0, hp, hd⟩ := exists_polar_lift (dX o) (dY o) (velX r c) (velY r c) (hdist_sq_ne h)
  refine ⟨θ, h0, ?_, ?_⟩
  · intro t; simpa only [dX_bumpU, dY_bumpU] using hp t
  · simp only [hoff]
    rw [hdist_mul_self]
    exact (hd.sub (hasDerivAt_line (off o) vo)).const_mul R2CC

theorem direction_partials (o : Obs ℝ) (h : hdist o ≠ 0) :
    let P := IsPartialBearing (fun o => (dX o, dY o)) (fun o => o.orientation) o
    P .station .ori (-1) ∧
    P .pfrom .y (-(KF (hdist o) * (dX o / hdist o))) ∧ P .pfrom .x (KF (hdist o) * (dY o / hdist o)) ∧
    P .pto .y (KF (hdist o) * (dX o / hdist o)) ∧ P .pto .x (-(KF (hdist o) * (dY o / hdist o))) := by
  have hpi : π ≠ 0 := Real.pi_ne_zero
  intro P
  refine ⟨?_, ?_, ?_, ?_, ?_⟩
  all_goals
    obtain ⟨θ, h0, hp, hd⟩ := bearing_partial o _ _ h (fun o => o.orientation) _ (ori_bumpU o _ _)
    refine ⟨θ, h0, hp, hd.congr_deriv ?_⟩
    simp [velX, velY, velO, KF, R2CC]
    try (field_simp)
    try ring

theorem direction_coeff (fuel : Nat) (o : Obs ℝ) (out : LinOut ℝ) (h : ¬ hdist o < CUT)
    (hok : Gen.Lin.direction fuel o = .ok out) :
    ∀ p ∈ out.pushes, IsPartialBearing (fun o => (dX o, dY o)) (fun o => o.orientation) o p.1 p.2.1 p.2.2 := by
  have he := (direction_ok fuel o out h hok).2
  obtain ⟨h0, h1, h2, h3, h4⟩ := direction_partials o (hdist_pos_of_not_cut h).ne'
  unfold LinOut.pushes; rw [he]; unfold directionEvs
  cases o.pfrom.free_xy <;> cases o.pto.free_xy <;> simp [pushes, *]

/-! ### azimuth -/

noncomputable def azimuthEvs (o : Obs ℝ) : List (Ev ℝ) :=
  (if o.pfrom.free_xy then [Ev.touch .pfrom .x, Ev.touch .pfrom .y,
      Ev.push .pfrom .y (-(KF (hdist o) * (dX o / hdist o))), Ev.push .pfrom .x (KF (hdist o) * (dY o / hdist o))] else []) ++
  (if o.pto.free_xy then [Ev.touch .pto .x, Ev.touch .pto .y,
      Ev.push .pto .y (KF (hdist o) * (dX o / hdist o)), Ev.push .pto .x (-(KF (hdist o) * (dY o / hdist o)))] else [])

theorem azimuth_ok (fuel : Nat) (o : Obs ℝ) (out : LinOut ℝ) (h : ¬ hdist o < CUT)
    (hok : Gen.Lin.azimuth fuel o = .ok out) :
    IsWrapOf ((o.value + o.xNorth - brg (dX o) (dY o)) * R2CC) out.rhs ∧ out.evs = azimuthEvs o := by
  have hd : Real.sqrt (dX o * dX o + dY o * dY o) ≠ 0 := (hdist_pos_of_not_cut h).ne'
  simp only [Gen.Lin.azimuth, bearingDistancePt_eq, h, if_false, sin_real, cos_real, sin_brg hd, cos_brg hd,
    full_eq, pi_real] at hok
  split at hok
  · exact absurd hok (by simp)
  · rename_i r1 h1
    split at hok
    · exact absurd hok (by simp)
    · rename_i r h2
      injection hok with hok; subst hok
      refine ⟨?_, ?_⟩
      · have := wrap_spec _ _ hc1 hc2 fuel _ r1 r h1 h2
        convert this using 1
        simp [R2CC]; ring
      · simp [azimuthEvs, KF, hdist]
        norm_num

theorem azimuth_partials (o : Obs ℝ) (h : hdist o ≠ 0) :
    let P := IsPartialBearing (fun o => (dX o, dY o)) (fun o => o.xNorth) o
    P .pfrom .y (-(KF (hdist o) * (dX o / hdist o))) ∧ P .pfrom .x (KF (hdist o) * (dY o / hdist o)) ∧
    P .pto .y (KF (hdist o) * (dX o / hdist o)) ∧ P .pto .x (-(KF (hdist o) * (dY o / hdist o))) := by
  have hpi : π ≠ 0 := Real.pi_ne_zero
  intro P
  refine ⟨?_, ?_, ?_, ?_⟩
  all_goals
    obtain ⟨θ, h0, hp, hd⟩ := bearing_partial o _ _ h (fun o => o.xNorth) 0 (by intro t; simp [xNorth_bumpU])
    refine ⟨θ, h0, hp, hd.congr_deriv ?_⟩
    simp [velX, velY, KF, R2CC]
    try (field_simp)
    try ring

theorem azimuth_coeff (fuel : Nat) (o : Obs ℝ) (out : LinOut ℝ) (h : ¬ hdist o < CUT)
    (hok : Gen.Lin.azimuth fuel o = .ok out) :
    ∀ p ∈ out.pushes, IsPartialBearing (fun o => (dX o, dY o)) (fun o => o.xNorth) o p.1 p.2.1 p.2.2 := by
  have he := (azimuth_ok fuel o out h hok).2
  obtain ⟨h1, h2, h3, h4⟩ := azimuth_partials o (hdist_pos_of_not_cut h).ne'
  unfold LinOut.pushes; rw [he]; unfold azimuthEvs
  cases o.pfrom.free_xy <;> cases o.pto.free_xy <;> simp [pushes, *]

/-! ### angle -/

theorem bearingDistancePt_eq2 (o : Obs ℝ) :
    Gen.Lin.bearingDistancePt o.pfrom o.pfs =
      if hdist2 o < CUT then (0, 0) else (brg (dX2 o) (dY2 o), hdist2 o) := by
  have := bearingDistancePt_eq { o with pto := o.pfs }
  simp only [hdist, hdist2, dX, dY, dX2, dY2] at this ⊢
  exact this

theorem hdist2_pos_of_not_cut {o : Obs ℝ} (h : ¬ hdist2 o < CUT) : 0 < hdist2 o :=
  lt_of_lt_of_le CUT_pos (not_lt.mp h)

theorem hdist2_sq_ne {o : Obs ℝ} (h : hdist2 o ≠ 0) : dX2 o * dX2 o + dY2 o * dY2 o ≠ 0 := by
  intro h0; apply h; unfold hdist2; rw [h0]; simp

theorem hdist2_mul_self (o : Obs ℝ) : hdist2 o * hdist2 o = dX2 o * dX2 o + dY2 o * dY2 o := by
  unfold hdist2; exact Real.mul_self_sqrt (add_nonneg (mul_self_nonneg _) (mul_self_nonneg _))

noncomputable def angleEvs (o : Obs ℝ) : List (Ev ℝ) :=
  (if o.pfrom.free_xy then [Ev.touch .pfrom .x, Ev.touch .pfrom .y,
      Ev.push .pfrom .y (-(KF (hdist2 o) * (dX2 o / hdist2 o)) + KF (hdist o) * (dX o / hdist o)),
      Ev.push .pfrom .x (KF (hdist2 o) * (dY2 o / hdist2 o) - KF (hdist o) * (dY o / hdist o))] else []) ++
  (if o.pto.free_xy then [Ev.touch .pto .x, Ev.touch .pto .y,
      Ev.push .pto .y (-(KF (hdist o) * (dX o / hdist o))), Ev.push .pto .x (KF (hdist o) * (dY o / hdist o))] else []) ++
  (if o.pfs.free_xy then [Ev.touch .pfs .x, Ev.touch .pfs .y,
      Ev.push .pfs .y (KF (hdist2 o) * (dX2 o / hdist2 o)), Ev.push .pfs .x (-(KF (hdist2 o) * (dY2 o / hdist2 o)))] else [])

theorem angle_ok (fuel : Nat) (o : Obs ℝ) (out : LinOut ℝ) (h : ¬ hdist o < CUT) (h' : ¬ hdist2 o < CUT)
    (hok : Gen.Lin.angle fuel o = .ok out) :
    IsWrapOf ((o.value - angleBsFs o) * R2CC) out.rhs ∧ out.evs = angleEvs o := by
  have hd : Real.sqrt (dX o * dX o + dY o * dY o) ≠ 0 := (hdist_pos_of_not_cut h).ne'
  have hd2 : Real.sqrt (dX2 o * dX2 o + dY2 o * dY2 o) ≠ 0 := (hdist2_pos_of_not_cut h').ne'
  simp only [Gen.Lin.angle, bearingDistancePt_eq, bearingDistancePt_eq2, h, h', if_false, sin_real, cos_real,
    sin_brg hd, cos_brg hd, sin_brg hd2, cos_brg hd2, full_eq, pi_real] at hok
  split at hok
  · exact absurd hok (by simp)
  · rename_i r1 h1
    split at hok
    · exact absurd hok (by simp)
    · rename_i r h2
      injection hok with hok; subst hok
      refine ⟨?_, ?_⟩
      · have := wrap_spec _ _ hc1 hc2 fuel _ r1 r h1 h2
        convert this using 1
        simp [R2CC, angleBsFs]; ring
      · simp [angleEvs, KF, hdist, hdist2]
        norm_num

theorem angle_partial (o : Obs ℝ) (r : Role) (c : Coord) (h : hdist o ≠ 0) (h' : hdist2 o ≠ 0) :
    IsPartialAngle o r c
      (R2CC * ((dX2 o * velY2 r c - dY2 o * velX2 r c) / (hdist2 o * hdist2 o) -
               (dX o * velY r c - dY o * velX r c) / (hdist o * hdist o))) := by
  obtain ⟨θ₁, a0, ap, ad⟩ := exists_polar_lift (dX o) (dY o) (velX r c) (velY r c) (hdist_sq_ne h)
  obtain ⟨θ₂, b0, bp, bd⟩ := exists_polar_lift (dX2 o) (dY2 o) (velX2 r c) (velY2 r c) (hdist2_sq_ne h')
  refine ⟨θ₁, θ₂, a0, b0, ?_, ?_, ?_⟩
  · intro t; simpa only [dX_bumpU, dY_bumpU] using ap t
  · intro t; simpa only [dX2_bumpU, dY2_bumpU] using bp t
  · rw [hdist_mul_self, hdist2_mul_self]
    exact (bd.sub ad).const_mul R2CC

theorem angle_partials (o : Obs ℝ) (h : hdist o ≠ 0) (h' : hdist2 o ≠ 0) :
    let P := IsPartialAngle o
    P .pfrom .y (-(KF (hdist2 o) * (dX2 o / hdist2 o)) + KF (hdist o) * (dX o / hdist o)) ∧
    P .pfrom .x (KF (hdist2 o) * (dY2 o / hdist2 o) - KF (hdist o) * (dY o / hdist o)) ∧
    P .pto .y (-(KF (hdist o) * (dX o / hdist o))) ∧ P .pto .x (KF (hdist o) * (dY o / hdist o)) ∧
    P .pfs .y (KF (hdist2 o) * (dX2 o / hdist2 o)) ∧ P .pfs .x (-(KF (hdist2 o) * (dY2 o / hdist2 o))) := by
  have hpi : π ≠ 0 := Real.pi_ne_zero
  intro P
  refine ⟨?_, ?_, ?_, ?_, ?_, ?_⟩
  all_goals
    obtain ⟨θ₁, θ₂, a0, b0, ap, bp, hd⟩ := angle_partial o _ _ h h'
    refine ⟨θ₁, θ₂, a0, b0, ap, bp, hd.congr_deriv ?_⟩
    simp [velX, velY, velX2, velY2, KF, R2CC]
    try (field_simp)
    try ring

theorem angle_coeff (fuel : Nat) (o : Obs ℝ) (out : LinOut ℝ) (h : ¬ hdist o < CUT) (h' : ¬ hdist2 o < CUT)
    (hok : Gen.Lin.angle fuel o = .ok out) :
    ∀ p ∈ out.pushes, IsPartialAngle o p.1 p.2.1 p.2.2 := by
  have he := (angle_ok fuel o out h h' hok).2
  obtain ⟨h1, h2, h3, h4, h5, h6⟩ := angle_partials o (hdist_pos_of_not_cut h).ne' (hdist2_pos_of_not_cut h').ne'
  unfold LinOut.pushes; rw [he]; unfold angleEvs
  cases o.pfrom.free_xy <;> cases o.pto.free_xy <;> cases o.pfs.free_xy <;> simp [pushes, *]

/-! ### slope distance -/

theorem sdist_mul_self (o : Obs ℝ) : sdist o * sdist o = dX o * dX o + dY o * dY o + dZ o * dZ o := by
  unfold sdist
  exact Real.mul_self_sqrt (add_nonneg (add_nonneg (mul_self_nonneg _) (mul_self_nonneg _)) (mul_self_nonneg _))

theorem sdist_sq_ne {o : Obs ℝ} (h : sdist o ≠ 0) : dX o * dX o + dY o * dY o + dZ o * dZ o ≠ 0 := by
  intro h0; apply h; unfold sdist; rw [h0]; simp

theorem hasDerivAt_norm3 (x0 y0 z0 a b c : ℝ) (h : x0 * x0 + y0 * y0 + z0 * z0 ≠ 0) :
    HasDerivAt (fun t : ℝ => Real.sqrt ((x0 + a * t) * (x0 + a * t) + (y0 + b * t) * (y0 + b * t) +
        (z0 + c * t) * (z0 + c * t)))
      ((x0 * a + y0 * b + z0 * c) / Real.sqrt (x0 * x0 + y0 * y0 + z0 * z0)) 0 := by
  have hx := hasDerivAt_line x0 a
  have hy := hasDerivAt_line y0 b
  have hz := hasDerivAt_line z0 c
  have hq : HasDerivAt (fun t : ℝ => (x0 + a * t) * (x0 + a * t) + (y0 + b * t) * (y0 + b * t) +
      (z0 + c * t) * (z0 + c * t)) (2 * (x0 * a + y0 * b + z0 * c)) 0 :=
    (show HasDerivAt (fun t : ℝ => (x0 + a * t) * (x0 + a * t) + (y0 + b * t) * (y0 + b * t) +
        (z0 + c * t) * (z0 + c * t)) _ 0 from
      ((hx.mul hx).add (hy.mul hy)).add (hz.mul hz)).congr_deriv (by simp; ring)
  have hs := hq.sqrt (by simpa using h)
  refine hs.congr_deriv ?_
  simp only [mul_zero, add_zero]
  rw [mul_div_mul_left _ _ two_ne_zero]

theorem sdist_partial (o : Obs ℝ) (r : Role) (c : Coord) (h : sdist o ≠ 0) :
    IsPartial MM sdist o r c (MM * ((dX o * velX r c + dY o * velY r c + dZ o * velZ r c) / sdist o)) := by
  unfold IsPartial
  have := (hasDerivAt_norm3 (dX o) (dY o) (dZ o) (velX r c) (velY r c) (velZ r c) (sdist_sq_ne h)).const_mul MM
  simpa only [sdist, dX_bumpU, dY_bumpU, dZ_bumpU] using this

noncomputable def sdistEvs (o : Obs ℝ) : List (Ev ℝ) :=
  (if o.pfrom.free_xy then [Ev.touch .pfrom .x, Ev.touch .pfrom .y,
      Ev.push .pfrom .y (-(dY o / sdist o)), Ev.push .pfrom .x (-(dX o / sdist o))] else []) ++
  (if o.pfrom.free_z then [Ev.touch .pfrom .z, Ev.push .pfrom .z (-(dZ o / sdist o))] else []) ++
  (if o.pto.free_xy then [Ev.touch .pto .x, Ev.touch .pto .y,
      Ev.push .pto .y (dY o / sdist o), Ev.push .pto .x (dX o / sdist o)] else []) ++
  (if o.pto.free_z then [Ev.touch .pto .z, Ev.push .pto .z (dZ o / sdist o)] else [])

theorem s_distance_eq (fuel : Nat) (o : Obs ℝ) :
    Gen.Lin.s_distance fuel o =
      if sdist o = 0 then .error .zeroSlopeDistance
      else .ok ⟨(o.value - sdist o) * 1000, sdistEvs o⟩ := by
  by_cases h : sdist o = 0
  · have h' : Real.sqrt (dX o * dX o + dY o * dY o + dZ o * dZ o) = 0 := h
    simp [Gen.Lin.s_distance, h, dX, dY, dZ] at h' ⊢
    simp [h']
  · have h' : ¬ Real.sqrt (dX o * dX o + dY o * dY o + dZ o * dZ o) = 0 := h
    simp [Gen.Lin.s_distance, h, dX, dY, dZ] at h' ⊢
    simp [h', sdistEvs, sdist, dX, dY, dZ]
    norm_num

theorem s_distance_partials (o : Obs ℝ) (h : sdist o ≠ 0) :
    let P := IsPartial MM sdist o
    P .pfrom .y (-(dY o / sdist o)) ∧ P .pfrom .x (-(dX o / sdist o)) ∧ P .pfrom .z (-(dZ o / sdist o)) ∧
    P .pto .y (dY o / sdist o) ∧ P .pto .x (dX o / sdist o) ∧ P .pto .z (dZ o / sdist o) := by
  intro P
  refine ⟨?_, ?_, ?_, ?_, ?_, ?_⟩ <;>
  · refine (sdist_partial o _ _ h).congr_deriv ?_
    simp [velX, velY, velZ, MM]
    try ring

theorem s_distance_coeff (fuel : Nat) (o : Obs ℝ) (out : LinOut ℝ)
    (hok : Gen.Lin.s_distance fuel o = .ok out) :
    ∀ p ∈ out.pushes, IsPartial MM sdist o p.1 p.2.1 p.2.2 := by
  rw [s_distance_eq] at hok
  split at hok
  · exact absurd hok (by simp)
  · rename_i h
    injection hok with hok; subst hok
    obtain ⟨h1, h2, h3, h4, h5, h6⟩ := s_distance_partials o h
    unfold LinOut.pushes sdistEvs
    cases o.pfrom.free_xy <;> cases o.pto.free_xy <;> cases o.pfrom.free_z <;> cases o.pto.free_z <;>
      simp [pushes, *]

/-! ### zenith angle -/

theorem sdist_ne_of_hdist_ne {o : Obs ℝ} (h : hdist o ≠ 0) : sdist o ≠ 0 := by
  intro h0
  have h1 := sdist_mul_self o
  rw [h0] at h1
  have h2 := hdist_sq_ne h
  have : dX o * dX o + dY o * dY o = 0 := by nlinarith [mul_self_nonneg (dX o), mul_self_nonneg (dY o), mul_self_nonneg (dZ o)]
  exact h2 this

theorem sdist_sq_eq (o : Obs ℝ) : sdist o * sdist o = hdist o * hdist o + dZ o * dZ o := by
  rw [sdist_mul_self, hdist_mul_self]

theorem hdist_nonneg (o : Obs ℝ) : 0 ≤ hdist o := Real.sqrt_nonneg _
theorem sdist_nonneg (o : Obs ℝ) : 0 ≤ sdist o := Real.sqrt_nonneg _

theorem zenith_partial (o : Obs ℝ) (r : Role) (c : Coord) (h : hdist o ≠ 0) :
    IsPartial R2CC zenith o r c
      (R2CC * (-(velZ r c) / hdist o +
        dZ o * (dX o * velX r c + dY o * velY r c + dZ o * velZ r c) / (hdist o * (sdist o * sdist o)))) := by
  unfold IsPartial
  have hs : sdist o ≠ 0 := sdist_ne_of_hdist_ne h
  have hdp : 0 < hdist o := lt_of_le_of_ne (hdist_nonneg o) (Ne.symm h)
  have hsp : 0 < sdist o := lt_of_le_of_ne (sdist_nonneg o) (Ne.symm hs)
  have hN := hasDerivAt_norm3 (dX o) (dY o) (dZ o) (velX r c) (velY r c) (velZ r c) (sdist_sq_ne hs)
  have hZ := hasDerivAt_line (dZ o) (velZ r c)
  have hu := hZ.div hN (by simpa [sdist] using hs)
  -- |u| < 1
  have hlt : dZ o * dZ o < sdist o * sdist o := by rw [sdist_sq_eq]; nlinarith [mul_pos hdp hdp]
  have habs : |dZ o| < sdist o := abs_lt_of_sq_lt_sq' (by simpa [sq] using hlt) hsp.le |> fun ⟨a, b⟩ => abs_lt.mpr ⟨a, b⟩
  have hu0 : (dZ o + velZ r c * 0) / Real.sqrt ((dX o + velX r c * 0) * (dX o + velX r c * 0) +
      (dY o + velY r c * 0) * (dY o + velY r c * 0) + (dZ o + velZ r c * 0) * (dZ o + velZ r c * 0)) = dZ o / sdist o := by
    simp [sdist]
  have h1 : dZ o / sdist o ≠ -1 := by
    intro e; rw [div_eq_iff hs] at e; have := abs_lt.mp habs; linarith
  have h2 : dZ o / sdist o ≠ 1 := by
    intro e; rw [div_eq_iff hs] at e; have := abs_lt.mp habs; linarith
  have hac := (Real.hasDerivAt_arccos (x := dZ o / sdist o) h1 h2)
  have hcomp := (hu0 ▸ hac).comp (0:ℝ) hu
  have hsqrt : Real.sqrt (1 - (dZ o / sdist o) ^ 2) = hdist o / sdist o := by
    have : 1 - (dZ o / sdist o) ^ 2 = (hdist o / sdist o) ^ 2 := by
      field_simp
      have := sdist_sq_eq o
      nlinarith
    rw [this, Real.sqrt_sq (div_nonneg hdp.le hsp.le)]
  have hfin := hcomp.const_mul R2CC
  have hfun : (fun t => R2CC * zenith (bumpU o r c t)) =
      fun t => R2CC * (Real.arccos ∘ fun t => (dZ o + velZ r c * t) / Real.sqrt ((dX o + velX r c * t) * (dX o + velX r c * t) +
      (dY o + velY r c * t) * (dY o + velY r c * t) + (dZ o + velZ r c * t) * (dZ o + velZ r c * t))) t := by
    funext t
    simp only [zenith, sdist, dX_bumpU, dY_bumpU, dZ_bumpU, Function.comp]
  rw [hfun]
  refine hfin.congr_deriv ?_
  simp only [mul_zero, add_zero]
  have e3 : Real.sqrt (dX o * dX o + dY o * dY o + dZ o * dZ o) = sdist o := rfl
  rw [e3, hsqrt]
  have hss := sdist_sq_eq o
  field_simp
  nlinarith [hss]

/-- `k = 10*R2G/(d*sd*sd)` -/
noncomputable def KZ (o : Obs ℝ) : ℝ := 2000 / π / (hdist o * sdist o * sdist o)

noncomputable def zangleEvs (o : Obs ℝ) : List (Ev ℝ) :=
  (if o.pfrom.free_xy then [Ev.touch .pfrom .x, Ev.touch .pfrom .y,
      Ev.push .pfrom .y (-(zsign o * (KZ o * dZ o * dY o))), Ev.push .pfrom .x (-(zsign o * (KZ o * dZ o * dX o)))] else []) ++
  (if o.pfrom.free_z then [Ev.touch .pfrom .z, Ev.push .pfrom .z (zsign o * (KZ o * hdist o * hdist o))] else []) ++
  (if o.pto.free_xy then [Ev.touch .pto .x, Ev.touch .pto .y,
      Ev.push .pto .y (zsign o * (KZ o * dZ o * dY o)), Ev.push .pto .x (zsign o * (KZ o * dZ o * dX o))] else []) ++
  (if o.pto.free_z then [Ev.touch .pto .z, Ev.push .pto .z (-(zsign o * (KZ o * hdist o * hdist o)))] else [])

theorem sdist_eq_hd (o : Obs ℝ) :
    Real.sqrt (dX o * dX o + dY o * dY o + dZ o * dZ o) = sdist o := rfl

theorem z_angle_eq (fuel : Nat) (o : Obs ℝ) :
    Gen.Lin.z_angle fuel o =
      if hdist o = 0 ∨ sdist o = 0 then .error .zeroZenithAngle
      else .ok ⟨(o.value - zenithComputed o) * R2CC, zangleEvs o⟩ := by
  have e1 : Real.sqrt (dX o * dX o + dY o * dY o) = hdist o := rfl
  have e2 := sdist_eq_hd o
  have e3 : o.pto.z - o.pfrom.z = dZ o := rfl
  have e4 : o.pto.x - o.pfrom.x = dX o := rfl
  have e5 : o.pto.y - o.pfrom.y = dY o := rfl
  simp only [Gen.Lin.z_angle, sqrt_real, ofNat_real, ofSci_real, pi_real, acos_real, e3, e4, e5, e1, e2]
  by_cases h : hdist o = 0 ∨ sdist o = 0
  · simp only [h, if_true]
    rcases h with h | h <;> simp [h]
  · simp only [h, if_false]
    push Not at h
    by_cases hv : π < o.value
    · simp [h.1, h.2, zangleEvs, KZ, zenithComputed, zenith, R2CC, zsign, hv]
      refine ⟨?_, ?_⟩
      · ring
      · norm_num
    · simp [h.1, h.2, zangleEvs, KZ, zenithComputed, zenith, R2CC, zsign, hv]
      refine ⟨?_, ?_⟩
      · ring
      · norm_num

theorem zenithComputed_partial_face2 (o : Obs ℝ) (r : Role) (c : Coord) (v : ℝ) (hv : π < o.value)
    (h : IsPartial R2CC zenith o r c v) : IsPartial R2CC zenithComputed o r c (-v) := by
  unfold IsPartial at *
  have e : (fun t => R2CC * zenithComputed (bumpU o r c t)) = fun t => R2CC * (2 * π) - R2CC * zenith (bumpU o r c t) := by
    funext t
    simp [zenithComputed, value_bumpU, hv]; ring
  rw [e]
  exact h.const_sub (R2CC * (2 * π))

/-- the computed value of either face: its partial derivative is `zsign` times that of the zenith angle -/
theorem zenithComputed_partial (o : Obs ℝ) (r : Role) (c : Coord) (v : ℝ)
    (h : IsPartial R2CC zenith o r c v) : IsPartial R2CC zenithComputed o r c (zsign o * v) := by
  by_cases hv : π < o.value
  · have := zenithComputed_partial_face2 o r c v hv h
    simpa [zsign, hv] using this
  · unfold IsPartial at *
    simpa [zenithComputed, value_bumpU, hv, zsign] using h

theorem z_angle_partials (o : Obs ℝ) (h : hdist o ≠ 0) :
    let P := IsPartial R2CC zenithComputed o
    P .pfrom .y (-(zsign o * (KZ o * dZ o * dY o))) ∧ P .pfrom .x (-(zsign o * (KZ o * dZ o * dX o))) ∧
    P .pfrom .z (zsign o * (KZ o * hdist o * hdist o)) ∧
    P .pto .y (zsign o * (KZ o * dZ o * dY o)) ∧ P .pto .x (zsign o * (KZ o * dZ o * dX o)) ∧
    P .pto .z (-(zsign o * (KZ o * hdist o * hdist o))) := by
  have hpi : π ≠ 0 := Real.pi_ne_zero
  have hs : sdist o ≠ 0 := sdist_ne_of_hdist_ne h
  have hss := sdist_sq_eq o
  intro P
  refine ⟨?_, ?_, ?_, ?_, ?_, ?_⟩
  all_goals
    refine HasDerivAt.congr_deriv (zenithComputed_partial o _ _ _ (zenith_partial o _ _ h)) ?_
    first | rw [← mul_neg] | skip
    congr 1
    simp [velX, velY, velZ, KZ, R2CC]
    field_simp
    try nlinarith [hss]

theorem z_angle_coeff (fuel : Nat) (o : Obs ℝ) (out : LinOut ℝ)
    (hok : Gen.Lin.z_angle fuel o = .ok out) :
    ∀ p ∈ out.pushes, IsPartial R2CC zenithComputed o p.1 p.2.1 p.2.2 := by
  rw [z_angle_eq] at hok
  split at hok
  · exact absurd hok (by simp)
  · rename_i h
    push Not at h
    injection hok with hok; subst hok
    obtain ⟨h1, h2, h3, h4, h5, h6⟩ := z_angle_partials o h.1
    unfold LinOut.pushes zangleEvs
    cases o.pfrom.free_xy <;> cases o.pto.free_xy <;> cases o.pfrom.free_z <;> cases o.pto.free_z <;>
      simp [pushes, *]

/-! ### linear types -/

theorem affine_partial (F : Obs ℝ → ℝ) (o : Obs ℝ) (r : Role) (c : Coord) (v : ℝ)
    (hF : ∀ t, F (bumpU o r c t) = F o + v * t) : IsPartial MM F o r c (MM * v) := by
  unfold IsPartial
  simp only [hF]
  exact (hasDerivAt_line (F o) v).const_mul MM

theorem fromX_bumpU (o : Obs ℝ) (r c t) : fromX (bumpU o r c t) = fromX o + (if r = .pfrom ∧ c = .x then 1 / 1000 else 0) * t := by
  cases r <;> cases c <;> simp [fromX, bumpU, bump, bumpPt, unitOf, MM] <;> ring
theorem fromY_bumpU (o : Obs ℝ) (r c t) : fromY (bumpU o r c t) = fromY o + (if r = .pfrom ∧ c = .y then 1 / 1000 else 0) * t := by
  cases r <;> cases c <;> simp [fromY, bumpU, bump, bumpPt, unitOf, MM] <;> ring
theorem fromZ_bumpU (o : Obs ℝ) (r c t) : fromZ (bumpU o r c t) = fromZ o + (if r = .pfrom ∧ c = .z then 1 / 1000 else 0) * t := by
  cases r <;> cases c <;> simp [fromZ, bumpU, bump, bumpPt, unitOf, MM] <;> ring

theorem h_diff_eq (fuel : Nat) (o : Obs ℝ) :
    Gen.Lin.h_diff fuel o = .ok ⟨(o.value - dZ o) * 1000,
      (if o.pfrom.free_z then [Ev.touch .pfrom .z, Ev.push .pfrom .z (-1)] else []) ++
      (if o.pto.free_z then [Ev.touch .pto .z, Ev.push .pto .z 1] else [])⟩ := by
  simp [Gen.Lin.h_diff, dZ]; norm_num
theorem zdiff_eq (fuel : Nat) (o : Obs ℝ) :
    Gen.Lin.zdiff fuel o = .ok ⟨(o.value - dZ o) * 1000,
      (if o.pfrom.free_z then [Ev.touch .pfrom .z, Ev.push .pfrom .z (-1)] else []) ++
      (if o.pto.free_z then [Ev.touch .pto .z, Ev.push .pto .z 1] else [])⟩ := by
  simp [Gen.Lin.zdiff, dZ]; norm_num
theorem xdiff_eq (fuel : Nat) (o : Obs ℝ) :
    Gen.Lin.xdiff fuel o = .ok ⟨(o.value - dX o) * 1000,
      (if o.pfrom.free_xy then [Ev.touch .pfrom .x, Ev.push .pfrom .x (-1)] else []) ++
      (if o.pto.free_xy then [Ev.touch .pto .x, Ev.push .pto .x 1] else [])⟩ := by
  simp [Gen.Lin.xdiff, dX]; norm_num
theorem ydiff_eq (fuel : Nat) (o : Obs ℝ) :
    Gen.Lin.ydiff fuel o = .ok ⟨(o.value - dY o) * 1000,
      (if o.pfrom.free_xy then [Ev.touch .pfrom .y, Ev.push .pfrom .y (-1)] else []) ++
      (if o.pto.free_xy then [Ev.touch .pto .y, Ev.push .pto .y 1] else [])⟩ := by
  simp [Gen.Lin.ydiff, dY]; norm_num
theorem x_eq (fuel : Nat) (o : Obs ℝ) :
    Gen.Lin.x fuel o = .ok ⟨(o.value - fromX o) * 1000,
      (if o.pfrom.free_xy then [Ev.touch .pfrom .x, Ev.push .pfrom .x 1] else [])⟩ := by
  simp [Gen.Lin.x, fromX]; norm_num
theorem y_eq (fuel : Nat) (o : Obs ℝ) :
    Gen.Lin.y fuel o = .ok ⟨(o.value - fromY o) * 1000,
      (if o.pfrom.free_xy then [Ev.touch .pfrom .y, Ev.push .pfrom .y 1] else [])⟩ := by
  simp [Gen.Lin.y, fromY]; norm_num
theorem z_eq (fuel : Nat) (o : Obs ℝ) :
    Gen.Lin.z fuel o = .ok ⟨(o.value - fromZ o) * 1000,
      (if o.pfrom.free_z then [Ev.touch .pfrom .z, Ev.push .pfrom .z 1] else [])⟩ := by
  simp [Gen.Lin.z, fromZ]; norm_num

theorem dZ_partials (o : Obs ℝ) : IsPartial MM dZ o .pfrom .z (-1) ∧ IsPartial MM dZ o .pto .z 1 := by
  constructor
  · have := affine_partial dZ o .pfrom .z _ (dZ_bumpU o .pfrom .z); simpa [velZ, MM] using this
  · have := affine_partial dZ o .pto .z _ (dZ_bumpU o .pto .z); simpa [velZ, MM] using this
theorem dX_partials (o : Obs ℝ) : IsPartial MM dX o .pfrom .x (-1) ∧ IsPartial MM dX o .pto .x 1 := by
  constructor
  · have := affine_partial dX o .pfrom .x _ (dX_bumpU o .pfrom .x); simpa [velX, MM] using this
  · have := affine_partial dX o .pto .x _ (dX_bumpU o .pto .x); simpa [velX, MM] using this
theorem dY_partials (o : Obs ℝ) : IsPartial MM dY o .pfrom .y (-1) ∧ IsPartial MM dY o .pto .y 1 := by
  constructor
  · have := affine_partial dY o .pfrom .y _ (dY_bumpU o .pfrom .y); simpa [velY, MM] using this
  · have := affine_partial dY o .pto .y _ (dY_bumpU o .pto .y); simpa [velY, MM] using this
theorem fromX_partial (o : Obs ℝ) : IsPartial MM fromX o .pfrom .x 1 := by
  have := affine_partial fromX o .pfrom .x _ (fromX_bumpU o .pfrom .x); simpa [MM] using this
theorem fromY_partial (o : Obs ℝ) : IsPartial MM fromY o .pfrom .y 1 := by
  have := affine_partial fromY o .pfrom .y _ (fromY_bumpU o .pfrom .y); simpa [MM] using this
theorem fromZ_partial (o : Obs ℝ) : IsPartial MM fromZ o .pfrom .z 1 := by
  have := affine_partial fromZ o .pfrom .z _ (fromZ_bumpU o .pfrom .z); simpa [MM] using this

/-! ### index on first use -/

/-- invariant of the index state: the indices handed out so far are exactly `maxn, …, 2, 1`
    (most recent first) and no unknown occurs twice -/
structure IdxState.WF (s : IdxState) : Prop where
  vals : s.tab.map Prod.snd = (List.range' 1 s.maxn).reverse
  keys : (s.tab.map Prod.fst).Nodup

theorem IdxState.wf_init : IdxState.init.WF := ⟨by simp [IdxState.init], by simp [IdxState.init]⟩

theorem IdxState.val_pos {s : IdxState} (h : s.WF) {e : Unk × Nat} (he : e ∈ s.tab) : 1 ≤ e.2 ∧ e.2 ≤ s.maxn := by
  have : e.2 ∈ s.tab.map Prod.snd := List.mem_map_of_mem he
  rw [h.vals] at this
  simp [List.mem_range'] at this
  omega

theorem IdxState.get_eq_zero_iff {s : IdxState} (h : s.WF) (u : Unk) : s.get u = 0 ↔ u ∉ s.tab.map Prod.fst := by
  unfold IdxState.get
  cases hf : s.tab.find? (fun e => e.1 = u) with
  | none =>
    simp only [true_iff]
    intro hm
    obtain ⟨e, he, rfl⟩ := List.mem_map.mp hm
    have := List.find?_eq_none.mp hf e he
    simp at this
  | some e =>
    have hm := List.mem_of_find?_eq_some hf
    have hk : e.1 = u := by simpa using List.find?_some hf
    constructor
    · intro h0
      have := (IdxState.val_pos h hm).1
      simp at h0; omega
    · intro hn
      exact absurd (hk ▸ List.mem_map_of_mem hm) hn

theorem IdxState.get_pos_le {s : IdxState} (h : s.WF) (u : Unk) : s.get u ≤ s.maxn := by
  unfold IdxState.get
  cases hf : s.tab.find? (fun e => e.1 = u) with
  | none => simp
  | some e => exact (IdxState.val_pos h (List.mem_of_find?_eq_some hf)).2

theorem IdxState.touch_wf {s : IdxState} (h : s.WF) (u : Unk) : (s.touch u).WF := by
  unfold IdxState.touch
  split
  · rename_i h0
    refine ⟨?_, ?_⟩
    · simp [h.vals, List.range'_concat]; omega
    · simp only [List.map_cons, List.nodup_cons]
      exact ⟨(IdxState.get_eq_zero_iff h u).mp h0, h.keys⟩
  · exact h

/-- after `if (!i) i = ++maxn` the unknown has an index in `1..maxn` -/
theorem IdxState.touch_get {s : IdxState} (h : s.WF) (u : Unk) :
    1 ≤ (s.touch u).get u ∧ (s.touch u).get u ≤ (s.touch u).maxn := by
  refine ⟨?_, IdxState.get_pos_le (IdxState.touch_wf h u) u⟩
  unfold IdxState.touch
  split
  · simp [IdxState.get]
  · rename_i h0; omega

/-- first use wins: an index once assigned is never changed by later allocations -/
theorem IdxState.touch_get_of_ne_zero (s : IdxState) (u v : Unk) (hv : s.get v ≠ 0) :
    (s.touch u).get v = s.get v := by
  unfold IdxState.touch
  split
  · rename_i h0
    have : u ≠ v := by rintro rfl; exact hv h0
    simp [IdxState.get, this]
  · rfl

theorem IdxState.touch_maxn_le (s : IdxState) (u : Unk) : s.maxn ≤ (s.touch u).maxn ∧ (s.touch u).maxn ≤ s.maxn + 1 := by
  unfold IdxState.touch; split <;> simp

/-- every push refers to an unknown that an earlier event of the same observation touched -/
def wellTouched {K : Type} : List (Ev K) → List (Role × Coord) → Bool
  | [], _ => true
  | .touch r c :: t, seen => wellTouched t ((r, c) :: seen)
  | .push r c _ :: t, seen => decide ((r, c) ∈ seen) && wellTouched t seen

theorem runEvs_wf {K : Type} (name : Role → Coord → Unk) (evs : List (Ev K)) :
    ∀ s : IdxState, s.WF → (runEvs name evs s).1.WF ∧ s.maxn ≤ (runEvs name evs s).1.maxn ∧
      ∀ v, s.get v ≠ 0 → (runEvs name evs s).1.get v = s.get v := by
  induction evs with
  | nil => intro s h; exact ⟨h, le_refl _, fun _ _ => rfl⟩
  | cons e t ih =>
    intro s h
    cases e with
    | touch r c =>
      obtain ⟨a, b, d⟩ := ih (s.touch (name r c)) (IdxState.touch_wf h _)
      refine ⟨a, le_trans (IdxState.touch_maxn_le s _).1 b, fun v hv => ?_⟩
      have e1 := IdxState.touch_get_of_ne_zero s (name r c) v hv
      rw [show runEvs name (Ev.touch r c :: t) s = runEvs name t (s.touch (name r c)) from rfl, d v (by rw [e1]; exact hv), e1]
    | push r c v =>
      obtain ⟨a, b, d⟩ := ih s h
      exact ⟨a, b, d⟩

/-- the rows handed to `project_equations`: every index lies in `1..maxn` (so `A(row, index)`
    is inside the matrix of `loclin.unknowns()` columns) -/
theorem runEvs_rows_in_range {K : Type} (name : Role → Coord → Unk) (evs : List (Ev K)) :
    ∀ (s : IdxState) (seen : List (Role × Coord)), s.WF → (∀ rc ∈ seen, s.get (name rc.1 rc.2) ≠ 0) →
      wellTouched evs seen = true →
      ∀ row ∈ (runEvs name evs s).2, 1 ≤ row.1 ∧ row.1 ≤ (runEvs name evs s).1.maxn := by
  induction evs with
  | nil => intro s seen _ _ _ row hr; simp [runEvs] at hr
  | cons e t ih =>
    intro s seen h hseen hw row hr
    cases e with
    | touch r c =>
      have hw' : wellTouched t ((r, c) :: seen) = true := hw
      have hs' : ∀ rc ∈ (r, c) :: seen, (s.touch (name r c)).get (name rc.1 rc.2) ≠ 0 := by
        intro rc hrc
        rcases List.mem_cons.mp hrc with rfl | hm
        · have := (IdxState.touch_get h (name r c)).1; intro h0; simp only at h0; omega
        · rw [IdxState.touch_get_of_ne_zero s _ _ (hseen rc hm)]; exact hseen rc hm
      exact ih (s.touch (name r c)) _ (IdxState.touch_wf h _) hs' hw' row hr
    | push r c v =>
      have hw' : ((r, c) ∈ seen) ∧ wellTouched t seen = true := by
        simpa [wellTouched] using hw
      have hrun : runEvs name (Ev.push r c v :: t) s =
          ((runEvs name t s).1, (s.get (name r c), v) :: (runEvs name t s).2) := rfl
      rw [hrun] at hr ⊢
      rcases List.mem_cons.mp hr with rfl | hm
      · have h1 := hseen (r, c) hw'.1
        have h2 := IdxState.get_pos_le h (name r c)
        have h3 := (runEvs_wf name t s h).2.1
        refine ⟨?_, ?_⟩
        · show 1 ≤ s.get (name r c)
          have : s.get (name r c) ≠ 0 := h1
          omega
        · show s.get (name r c) ≤ (runEvs name t s).1.maxn
          omega
      · exact ih s seen h hseen hw'.2 row hm

/-! ### termination of the wrap loops over ℝ -/

theorem direction_terminates (o : Obs ℝ) (h : ¬ hdist o < CUT) : ∃ fuel out, Gen.Lin.direction fuel o = .ok out := by
  obtain ⟨fuel, r1, r, h1, h2⟩ := wrap_terminates _ _ hc1 hc2
    ((o.value + o.orientation - brg (dX o) (dY o)) * (Scalar.ofSci 2000 false 3 : ℝ) / π)
  refine ⟨fuel, ?_⟩
  simp only [Gen.Lin.direction, bearingDistancePt_eq, h, if_false, full_eq, pi_real]
  rw [h1]; simp only []; rw [h2]
  exact ⟨_, rfl⟩

theorem azimuth_terminates (o : Obs ℝ) (h : ¬ hdist o < CUT) : ∃ fuel out, Gen.Lin.azimuth fuel o = .ok out := by
  obtain ⟨fuel, r1, r, h1, h2⟩ := wrap_terminates _ _ hc1 hc2
    ((o.value + o.xNorth - brg (dX o) (dY o)) * (Scalar.ofSci 2000 false 3 : ℝ) / π)
  refine ⟨fuel, ?_⟩
  simp only [Gen.Lin.azimuth, bearingDistancePt_eq, h, if_false, full_eq, pi_real]
  rw [h1]; simp only []; rw [h2]
  exact ⟨_, rfl⟩

theorem angle_terminates (o : Obs ℝ) (h : ¬ hdist o < CUT) (h' : ¬ hdist2 o < CUT) :
    ∃ fuel out, Gen.Lin.angle fuel o = .ok out := by
  obtain ⟨fuel, r1, r, h1, h2⟩ := wrap_terminates _ _ hc1 hc2
    ((o.value - (if decide (brg (dX2 o) (dY2 o) - brg (dX o) (dY o) < (Scalar.ofNat 0 : ℝ)) = true then
        brg (dX2 o) (dY2 o) - brg (dX o) (dY o) + (Scalar.ofNat 2 : ℝ) * π
      else brg (dX2 o) (dY2 o) - brg (dX o) (dY o))) * (Scalar.ofSci 2000 false 3 : ℝ) / π)
  refine ⟨fuel, ?_⟩
  simp only [Gen.Lin.angle, bearingDistancePt_eq, bearingDistancePt_eq2, h, h', if_false, full_eq, pi_real]
  rw [h1]; simp only []; rw [h2]
  exact ⟨_, rfl⟩

/-- a result does not depend on the fuel that was enough to produce it -/
theorem whileLoop_fuel_irrelevant (c : ℝ → Bool) (f : ℝ → ℝ) (n m : Nat) (a r r' : ℝ)
    (hn : whileLoop c f n a = some r) (hm : whileLoop c f m a = some r') : r = r' := by
  rcases le_total n m with h | h
  · have := whileLoop_mono_le c f h a r hn; rw [this] at hm; exact Option.some.inj hm
  · have := whileLoop_mono_le c f h a r' hm; rw [this] at hn; exact (Option.some.inj hn).symm

/-! ### right-hand sides -/

theorem distance_rhs (fuel : Nat) (o : Obs ℝ) (out : LinOut ℝ) (h : ¬ hdist o < CUT)
    (hok : Gen.Lin.distance fuel o = .ok out) : out.rhs = MM * (o.value - hdist o) := by
  rw [distance_eq fuel o h] at hok; injection hok with hok; subst hok; simp [MM]; ring

theorem s_distance_rhs (fuel : Nat) (o : Obs ℝ) (out : LinOut ℝ)
    (hok : Gen.Lin.s_distance fuel o = .ok out) : sdist o ≠ 0 ∧ out.rhs = MM * (o.value - sdist o) := by
  rw [s_distance_eq] at hok
  split at hok
  · exact absurd hok (by simp)
  · rename_i h; injection hok with hok; subst hok; exact ⟨h, by simp [MM]; ring⟩

theorem z_angle_rhs (fuel : Nat) (o : Obs ℝ) (out : LinOut ℝ)
    (hok : Gen.Lin.z_angle fuel o = .ok out) :
    (hdist o ≠ 0 ∧ sdist o ≠ 0) ∧ out.rhs = R2CC * (o.value - zenithComputed o) := by
  rw [z_angle_eq] at hok
  split at hok
  · exact absurd hok (by simp)
  · rename_i h; push Not at h; injection hok with hok; subst hok; exact ⟨h, by ring⟩

/-! ### which unknowns receive a coefficient -/

@[simp] theorem freeAt_station_ori (o : Obs ℝ) : freeAt o (.station, .ori) = true := rfl
@[simp] theorem freeAt_from_x (o : Obs ℝ) : freeAt o (.pfrom, .x) = o.pfrom.free_xy := rfl
@[simp] theorem freeAt_from_y (o : Obs ℝ) : freeAt o (.pfrom, .y) = o.pfrom.free_xy := rfl
@[simp] theorem freeAt_from_z (o : Obs ℝ) : freeAt o (.pfrom, .z) = o.pfrom.free_z := rfl
@[simp] theorem freeAt_to_x (o : Obs ℝ) : freeAt o (.pto, .x) = o.pto.free_xy := rfl
@[simp] theorem freeAt_to_y (o : Obs ℝ) : freeAt o (.pto, .y) = o.pto.free_xy := rfl
@[simp] theorem freeAt_to_z (o : Obs ℝ) : freeAt o (.pto, .z) = o.pto.free_z := rfl
@[simp] theorem freeAt_fs_x (o : Obs ℝ) : freeAt o (.pfs, .x) = o.pfs.free_xy := rfl
@[simp] theorem freeAt_fs_y (o : Obs ℝ) : freeAt o (.pfs, .y) = o.pfs.free_xy := rfl

theorem direction_targets (fuel : Nat) (o : Obs ℝ) (out : LinOut ℝ) (h : ¬ hdist o < CUT)
    (hok : Gen.Lin.direction fuel o = .ok out) :
    targets out.pushes = [(.station, .ori), (.pfrom, .y), (.pfrom, .x), (.pto, .y), (.pto, .x)].filter (freeAt o) ∧
    wellTouched out.evs [] = true := by
  have he := (direction_ok fuel o out h hok).2
  unfold LinOut.pushes; rw [he]; unfold directionEvs
  cases hf : o.pfrom.free_xy <;> cases ht : o.pto.free_xy <;>
    simp [pushes, targets, hf, ht, wellTouched, List.filter]

theorem azimuth_targets (fuel : Nat) (o : Obs ℝ) (out : LinOut ℝ) (h : ¬ hdist o < CUT)
    (hok : Gen.Lin.azimuth fuel o = .ok out) :
    targets out.pushes = [(.pfrom, .y), (.pfrom, .x), (.pto, .y), (.pto, .x)].filter (freeAt o) ∧
    wellTouched out.evs [] = true := by
  have he := (azimuth_ok fuel o out h hok).2
  unfold LinOut.pushes; rw [he]; unfold azimuthEvs
  cases hf : o.pfrom.free_xy <;> cases ht : o.pto.free_xy <;>
    simp [pushes, targets, hf, ht, wellTouched, List.filter]

theorem angle_targets (fuel : Nat) (o : Obs ℝ) (out : LinOut ℝ) (h : ¬ hdist o < CUT) (h' : ¬ hdist2 o < CUT)
    (hok : Gen.Lin.angle fuel o = .ok out) :
    targets out.pushes = [(.pfrom, .y), (.pfrom, .x), (.pto, .y), (.pto, .x), (.pfs, .y), (.pfs, .x)].filter (freeAt o) ∧
    wellTouched out.evs [] = true := by
  have he := (angle_ok fuel o out h h' hok).2
  unfold LinOut.pushes; rw [he]; unfold angleEvs
  cases hf : o.pfrom.free_xy <;> cases ht : o.pto.free_xy <;> cases hs : o.pfs.free_xy <;>
    simp [pushes, targets, hf, ht, hs, wellTouched, List.filter]

theorem distance_targets (fuel : Nat) (o : Obs ℝ) (out : LinOut ℝ) (h : ¬ hdist o < CUT)
    (hok : Gen.Lin.distance fuel o = .ok out) :
    targets out.pushes = [(.pfrom, .y), (.pfrom, .x), (.pto, .y), (.pto, .x)].filter (freeAt o) ∧
    wellTouched out.evs [] = true := by
  rw [distance_eq fuel o h] at hok
  injection hok with hok; subst hok
  cases hf : o.pfrom.free_xy <;> cases ht : o.pto.free_xy <;>
    simp [LinOut.pushes, pushes, targets, hf, ht, wellTouched, List.filter]

theorem s_distance_targets (fuel : Nat) (o : Obs ℝ) (out : LinOut ℝ)
    (hok : Gen.Lin.s_distance fuel o = .ok out) :
    targets out.pushes = [(.pfrom, .y), (.pfrom, .x), (.pfrom, .z), (.pto, .y), (.pto, .x), (.pto, .z)].filter (freeAt o) ∧
    wellTouched out.evs [] = true := by
  rw [s_distance_eq] at hok
  split at hok
  · exact absurd hok (by simp)
  · injection hok with hok; subst hok
    unfold LinOut.pushes sdistEvs
    cases hf : o.pfrom.free_xy <;> cases ht : o.pto.free_xy <;> cases hfz : o.pfrom.free_z <;> cases htz : o.pto.free_z <;>
      simp [pushes, targets, hf, ht, hfz, htz, wellTouched, List.filter]

theorem z_angle_targets (fuel : Nat) (o : Obs ℝ) (out : LinOut ℝ)
    (hok : Gen.Lin.z_angle fuel o = .ok out) :
    targets out.pushes = [(.pfrom, .y), (.pfrom, .x), (.pfrom, .z), (.pto, .y), (.pto, .x), (.pto, .z)].filter (freeAt o) ∧
    wellTouched out.evs [] = true := by
  rw [z_angle_eq] at hok
  split at hok
  · exact absurd hok (by simp)
  · injection hok with hok; subst hok
    unfold LinOut.pushes zangleEvs
    cases hf : o.pfrom.free_xy <;> cases ht : o.pto.free_xy <;> cases hfz : o.pfrom.free_z <;> cases htz : o.pto.free_z <;>
      simp [pushes, targets, hf, ht, hfz, htz, wellTouched, List.filter]

/-! ### a new pass of `project_equations` -/

/-- every adjusted (free or constrained) coordinate group satisfies the reset guard as coded -/
theorem resetGuard_of_free {K : Type} (p : Pt K) :
    (p.free_xy = true → Gen.Lin.resetGuard p = true) ∧ (p.free_z = true → Gen.Lin.resetGuard p = true) := by
  obtain ⟨x, y, z, sxy, sz⟩ := p
  cases sxy <;> cases sz <;>
    simp [Gen.Lin.resetGuard, Pt.free_xy, Pt.free_z, Pt.active_xy, Pt.active_z, Status.isFree, Status.isActive]

theorem IdxState.get_eq_zero_of_not_mem (s : IdxState) (u : Unk) (h : ∀ e ∈ s.tab, e.1 ≠ u) : s.get u = 0 := by
  unfold IdxState.get
  cases hf : s.tab.find? (fun e => e.1 = u) with
  | none => rfl
  | some e =>
    have hm := List.mem_of_find?_eq_some hf
    have hk : e.1 = u := by simpa using List.find?_some hf
    exact absurd hk (h e hm)

/-- after the prologue the counter is 0 and every unknown of a point that satisfies the guard,
    and every orientation, has index 0 -/
theorem IdxState.resetPass_clean (guard : Nat → Bool) (s : IdxState) :
    (s.resetPass guard).maxn = 0 ∧
    (∀ u : Unk, u.c = .ori → (s.resetPass guard).get u = 0) ∧
    (∀ u : Unk, guard u.id = true → (s.resetPass guard).get u = 0) := by
  refine ⟨rfl, ?_, ?_⟩
  · intro u hu
    apply IdxState.get_eq_zero_of_not_mem
    intro e he
    simp only [IdxState.resetPass, List.mem_filter] at he
    rintro rfl
    rw [hu] at he
    simp at he
  · intro u hu
    apply IdxState.get_eq_zero_of_not_mem
    intro e he
    simp only [IdxState.resetPass, List.mem_filter] at he
    rintro rfl
    cases hc : e.1.c <;> simp [hc, hu] at he

theorem IdxState.get_touch (s : IdxState) (u v : Unk) :
    (s.touch u).get v = if s.get u = 0 ∧ v = u then s.maxn + 1 else s.get v := by
  unfold IdxState.touch
  by_cases h0 : s.get u = 0
  · simp only [h0, if_true, true_and]
    by_cases hv : v = u
    · subst hv; simp [IdxState.get]
    · have : ¬ u = v := fun h => hv h.symm
      simp [IdxState.get, hv, this]
  · simp [h0]

/-- two index states that agree on a set `C` of unknowns (and on the counter) -/
def AgreeOn (C : Unk → Prop) (s t : IdxState) : Prop := s.maxn = t.maxn ∧ ∀ u, C u → s.get u = t.get u

theorem AgreeOn.touch {C : Unk → Prop} {s t : IdxState} (h : AgreeOn C s t) (u : Unk) (hu : C u) :
    AgreeOn C (s.touch u) (t.touch u) := by
  refine ⟨?_, ?_⟩
  · unfold IdxState.touch
    rw [h.2 u hu]
    split <;> simp [h.1]
  · intro v hv
    rw [IdxState.get_touch, IdxState.get_touch, h.2 u hu, h.2 v hv, h.1]

def evTarget {K : Type} (name : Role → Coord → Unk) : Ev K → Unk
  | .touch r c => name r c
  | .push r c _ => name r c

/-- a pass only looks at the unknowns its events mention: from two states that agree there the
    rows are the same and the states still agree -/
theorem runEvs_agree {K : Type} (name : Role → Coord → Unk) (C : Unk → Prop) (evs : List (Ev K)) :
    ∀ s t : IdxState, AgreeOn C s t → (∀ e ∈ evs, C (evTarget name e)) →
      (runEvs name evs s).2 = (runEvs name evs t).2 ∧ AgreeOn C (runEvs name evs s).1 (runEvs name evs t).1 := by
  induction evs with
  | nil => intro s t h _; exact ⟨rfl, h⟩
  | cons e l ih =>
    intro s t h hC
    have hl : ∀ e ∈ l, C (evTarget name e) := fun e he => hC e (List.mem_cons_of_mem _ he)
    cases e with
    | touch r c =>
      have hc : C (name r c) := hC (Ev.touch r c) (List.mem_cons_self ..)
      exact ih _ _ (h.touch _ hc) hl
    | push r c v =>
      have hc : C (name r c) := hC (Ev.push r c v) (List.mem_cons_self ..)
      obtain ⟨h1, h2⟩ := ih s t h hl
      refine ⟨?_, h2⟩
      show (s.get (name r c), v) :: (runEvs name l s).2 = (t.get (name r c), v) :: (runEvs name l t).2
      rw [h.2 _ hc, h1]

/-- history independence of a pass: after the prologue of `project_equations`, whatever the
    previous passes left behind, observations that only mention unknowns of points satisfying the
    guard (and orientations) get exactly the rows and the counter of a pass on a brand-new state -/
theorem pass_fresh {K : Type} (name : Role → Coord → Unk) (guard : Nat → Bool) (s : IdxState) (evs : List (Ev K))
    (hC : ∀ e ∈ evs, (evTarget name e).c = .ori ∨ guard (evTarget name e).id = true) :
    (runEvs name evs (s.resetPass guard)).2 = (runEvs name evs IdxState.init).2 ∧
    (runEvs name evs (s.resetPass guard)).1.maxn = (runEvs name evs IdxState.init).1.maxn := by
  have hag : AgreeOn (fun u => u.c = .ori ∨ guard u.id = true) (s.resetPass guard) IdxState.init := by
    obtain ⟨h0, h1, h2⟩ := IdxState.resetPass_clean guard s
    refine ⟨h0, ?_⟩
    intro u hu
    have : IdxState.init.get u = 0 := rfl
    rw [this]
    rcases hu with hu | hu
    · exact h1 u hu
    · exact h2 u hu
  obtain ⟨h1, h2⟩ := runEvs_agree name _ evs _ _ hag hC
  exact ⟨h1, h2.1⟩

/-! ### aliased roles -/

theorem dX_bumpTF (o : Obs ℝ) (c t) : dX (bumpSetU o [.pto, .pfs] c t) = dX o + velX .pto c * t := by
  cases c <;> simp [dX, bumpSetU, bumpSet, bump, bumpPt, velX, unitOf, MM] <;> ring
theorem dY_bumpTF (o : Obs ℝ) (c t) : dY (bumpSetU o [.pto, .pfs] c t) = dY o + velY .pto c * t := by
  cases c <;> simp [dY, bumpSetU, bumpSet, bump, bumpPt, velY, unitOf, MM] <;> ring
theorem dX2_bumpTF (o : Obs ℝ) (c t) : dX2 (bumpSetU o [.pto, .pfs] c t) = dX2 o + velX2 .pfs c * t := by
  cases c <;> simp [dX2, bumpSetU, bumpSet, bump, bumpPt, velX2, unitOf, MM] <;> ring
theorem dY2_bumpTF (o : Obs ℝ) (c t) : dY2 (bumpSetU o [.pto, .pfs] c t) = dY2 o + velY2 .pfs c * t := by
  cases c <;> simp [dY2, bumpSetU, bumpSet, bump, bumpPt, velY2, unitOf, MM] <;> ring

theorem angle_joint_partial (o : Obs ℝ) (c : Coord) (h : hdist o ≠ 0) (h' : hdist2 o ≠ 0) :
    IsPartialAngleSet o [.pto, .pfs] c
      (R2CC * ((dX2 o * velY2 .pfs c - dY2 o * velX2 .pfs c) / (hdist2 o * hdist2 o) -
               (dX o * velY .pto c - dY o * velX .pto c) / (hdist o * hdist o))) := by
  obtain ⟨θ₁, a0, ap, ad⟩ := exists_polar_lift (dX o) (dY o) (velX .pto c) (velY .pto c) (hdist_sq_ne h)
  obtain ⟨θ₂, b0, bp, bd⟩ := exists_polar_lift (dX2 o) (dY2 o) (velX2 .pfs c) (velY2 .pfs c) (hdist2_sq_ne h')
  refine ⟨θ₁, θ₂, a0, b0, ?_, ?_, ?_⟩
  · intro t; simpa only [dX_bumpTF, dY_bumpTF] using ap t
  · intro t; simpa only [dX2_bumpTF, dY2_bumpTF] using bp t
  · rw [hdist_mul_self, hdist2_mul_self]
    exact (bd.sub ad).const_mul R2CC

/-- angle whose two targets are adjusted: the sum of the coefficients pushed for the backsight and
    for the foresight is the derivative of the angle when BOTH targets move together -/
theorem angle_joint (fuel : Nat) (o : Obs ℝ) (out : LinOut ℝ) (h : ¬ hdist o < CUT) (h' : ¬ hdist2 o < CUT)
    (ht : o.pto.free_xy = true) (hs : o.pfs.free_xy = true)
    (hok : Gen.Lin.angle fuel o = .ok out) (c : Coord) :
    IsPartialAngleSet o [.pto, .pfs] c (coeffSum out.pushes [.pto, .pfs] c) := by
  have he := (angle_ok fuel o out h h' hok).2
  have hd := (hdist_pos_of_not_cut h).ne'
  have hd2 := (hdist2_pos_of_not_cut h').ne'
  have hpi : π ≠ 0 := Real.pi_ne_zero
  obtain ⟨θ₁, θ₂, a0, b0, ap, bp, hder⟩ := angle_joint_partial o c hd hd2
  refine ⟨θ₁, θ₂, a0, b0, ap, bp, hder.congr_deriv ?_⟩
  unfold LinOut.pushes; rw [he]; unfold angleEvs
  cases o.pfrom.free_xy <;> cases c <;>
    simp [pushes, coeffSum, ht, hs, velX, velY, velX2, velY2, KF, R2CC] <;> field_simp <;> ring

/-- angle with identical targets (bs = fs, allowed since 1.3.31): the two sets of coefficients
    cancel in the one column they share — the derivative of the constant angle -/
theorem angle_bs_eq_fs_sum_zero (fuel : Nat) (o : Obs ℝ) (out : LinOut ℝ) (hal : o.pto = o.pfs)
    (h : ¬ hdist o < CUT) (hok : Gen.Lin.angle fuel o = .ok out) (c : Coord) :
    coeffSum out.pushes [.pto, .pfs] c = 0 := by
  have h' : ¬ hdist2 o < CUT := by
    have : hdist2 o = hdist o := by simp [hdist, hdist2, dX, dY, dX2, dY2, hal]
    rw [this]; exact h
  have he := (angle_ok fuel o out h h' hok).2
  have e1 : dX2 o = dX o := by simp [dX, dX2, hal]
  have e2 : dY2 o = dY o := by simp [dY, dY2, hal]
  have e3 : hdist2 o = hdist o := by simp [hdist, hdist2, e1, e2]
  unfold LinOut.pushes; rw [he]; unfold angleEvs
  rw [← hal, e1, e2, e3]
  cases o.pfrom.free_xy <;> cases o.pto.free_xy <;> cases c <;> simp [pushes, coeffSum]

theorem dZ_bumpFT (o : Obs ℝ) (c t) : dZ (bumpSetU o [.pfrom, .pto] c t) = dZ o := by
  cases c <;> simp [dZ, bumpSetU, bumpSet, bump, bumpPt, unitOf, MM]
theorem dX_bumpFT (o : Obs ℝ) (c t) : dX (bumpSetU o [.pfrom, .pto] c t) = dX o := by
  cases c <;> simp [dX, bumpSetU, bumpSet, bump, bumpPt, unitOf, MM]
theorem dY_bumpFT (o : Obs ℝ) (c t) : dY (bumpSetU o [.pfrom, .pto] c t) = dY o := by
  cases c <;> simp [dY, bumpSetU, bumpSet, bump, bumpPt, unitOf, MM]

theorem const_partialSet (F : Obs ℝ → ℝ) (o : Obs ℝ) (S : List Role) (c : Coord)
    (hF : ∀ t, F (bumpSetU o S c t) = F o) : IsPartialSet MM F o S c 0 := by
  unfold IsPartialSet; simp only [hF]; exact hasDerivAt_const _ _

/-! ### concrete witnesses (non-vacuity; former defect inputs F12 / F16, now regression inputs) -/

theorem isPartial_unique {u : ℝ} {F : Obs ℝ → ℝ} {o : Obs ℝ} {r : Role} {c : Coord} {v w : ℝ}
    (h1 : IsPartial u F o r c v) (h2 : IsPartial u F o r c w) : v = w := HasDerivAt.unique h1 h2

/-- a concrete second-face zenith observation: horizontal sight of 5 m, reading 300 gon -/
noncomputable def face2Witness : Obs ℝ :=
  { pfrom := ⟨0, 0, 0, .free, .free⟩, pto := ⟨3, 4, 0, .free, .free⟩, pfs := ⟨0, 0, 0, .unused, .unused⟩,
    value := 3 * π / 2, orientation := 0, xNorth := 0 }

theorem face2Witness_hdist : hdist face2Witness = 5 := by
  simp only [hdist, dX, dY, face2Witness]
  rw [show ((3:ℝ) - 0) * (3 - 0) + (4 - 0) * (4 - 0) = 5 * 5 by norm_num, Real.sqrt_mul_self (by norm_num)]

theorem face2Witness_sdist : sdist face2Witness = 5 := by
  simp only [sdist, dX, dY, dZ, face2Witness]
  rw [show ((3:ℝ) - 0) * (3 - 0) + (4 - 0) * (4 - 0) + (0 - 0) * (0 - 0) = 5 * 5 by norm_num,
    Real.sqrt_mul_self (by norm_num)]

/-! ### the half-open interval: +200 gon is attained, -200 gon is mapped to +200 gon -/


noncomputable def westWitness : Obs ℝ :=
  { pfrom := ⟨0, 0, 0, .free, .free⟩, pto := ⟨-100, 0, 0, .free, .free⟩, pfs := ⟨0, 0, 0, .unused, .unused⟩,
    value := 0, orientation := 0, xNorth := 0 }

noncomputable def eastWitness : Obs ℝ :=
  { pfrom := ⟨0, 0, 0, .free, .free⟩, pto := ⟨100, 0, 0, .free, .free⟩, pfs := ⟨0, 0, 0, .unused, .unused⟩,
    value := π, orientation := 0, xNorth := 0 }

theorem westWitness_hdist : hdist westWitness = 100 := by
  simp only [hdist, dX, dY, westWitness]
  rw [show ((-100:ℝ) - 0) * (-100 - 0) + (0 - 0) * (0 - 0) = 100 * 100 by norm_num, Real.sqrt_mul_self (by norm_num)]
theorem eastWitness_hdist : hdist eastWitness = 100 := by
  simp only [hdist, dX, dY, eastWitness]
  rw [show ((100:ℝ) - 0) * (100 - 0) + (0 - 0) * (0 - 0) = 100 * 100 by norm_num, Real.sqrt_mul_self (by norm_num)]

theorem not_cut_100 : ¬ (100:ℝ) < CUT := by unfold CUT; norm_num

theorem brg_west : brg (-100) 0 = π := by
  have : Complex.arg ⟨-100, 0⟩ = π := Complex.arg_eq_pi_iff.mpr ⟨by norm_num, rfl⟩
  unfold brg; rw [this]; simp [Real.pi_pos.le]
theorem brg_east : brg 100 0 = 0 := by
  have : Complex.arg ⟨100, 0⟩ = 0 := Complex.arg_eq_zero_iff.mpr ⟨by norm_num, rfl⟩
  unfold brg; rw [this]; simp

/-- F12 regression input: the misclosure of exactly −200 gon is now returned as +200 gon -/
theorem west_rhs_is_plus_half :
    ∃ out, ¬ hdist westWitness < CUT ∧ Gen.Lin.direction 1 westWitness = .ok out ∧ out.rhs = HALF := by
  have hc : ¬ hdist westWitness < CUT := by rw [westWitness_hdist]; exact not_cut_100
  have hx : dX westWitness = -100 := by simp [dX, westWitness]
  have hy : dY westWitness = 0 := by simp [dY, westWitness]
  have hpi := Real.pi_ne_zero
  have ha : (westWitness.value + westWitness.orientation - π) * (Scalar.ofSci 2000 false 3 : ℝ) / π = -HALF := by
    simp [westWitness, HALF]; field_simp; norm_num
  have c1 : ¬ ((Scalar.ofSci 200 false 4 : ℝ) < -HALF) := by simp [HALF]; norm_num
  have c2 : (-HALF ≤ -(Scalar.ofSci 200 false 4 : ℝ)) := by simp [HALF]; norm_num
  have c3 : ¬ (-HALF + FULL ≤ -(Scalar.ofSci 200 false 4 : ℝ)) := by simp [HALF, FULL]; norm_num
  have e : -HALF + FULL = HALF := by simp [HALF, FULL]; norm_num
  have c4 : ¬ (HALF ≤ -(Scalar.ofSci 200 false 4 : ℝ)) := by simp [HALF]; norm_num
  have key : ∃ evs, Gen.Lin.direction 1 westWitness = .ok ⟨HALF, evs⟩ := by
    simp only [Gen.Lin.direction, bearingDistancePt_eq, hc, if_false, hx, hy, brg_west, pi_real, ha, whileLoop,
      c1, c2, c3, c4, decide_false, decide_true, Bool.false_eq_true, if_true, full_eq, e]
    exact ⟨_, rfl⟩
  obtain ⟨evs, hk⟩ := key
  exact ⟨_, hc, hk, rfl⟩

theorem rhs_attains_plus_half :
    ∃ out, ¬ hdist eastWitness < CUT ∧ Gen.Lin.direction 0 eastWitness = .ok out ∧ out.rhs = HALF := by
  have hc : ¬ hdist eastWitness < CUT := by rw [eastWitness_hdist]; exact not_cut_100
  have hx : dX eastWitness = 100 := by simp [dX, eastWitness]
  have hy : dY eastWitness = 0 := by simp [dY, eastWitness]
  have hpi := Real.pi_ne_zero
  have ha : (eastWitness.value + eastWitness.orientation - 0) * (Scalar.ofSci 2000 false 3 : ℝ) / π = HALF := by
    simp [eastWitness, HALF]; field_simp; norm_num
  have c1 : ¬ ((Scalar.ofSci 200 false 4 : ℝ) < HALF) := by simp [HALF]; norm_num
  have c2 : ¬ (HALF ≤ -(Scalar.ofSci 200 false 4 : ℝ)) := by simp [HALF]; norm_num
  have key : ∃ evs, Gen.Lin.direction 0 eastWitness = .ok ⟨HALF, evs⟩ := by
    simp only [Gen.Lin.direction, bearingDistancePt_eq, hc, if_false, hx, hy, brg_east, pi_real, ha, whileLoop,
      c1, c2, decide_false, Bool.false_eq_true]
    exact ⟨_, rfl⟩
  obtain ⟨evs, hk⟩ := key
  exact ⟨_, hc, hk, rfl⟩

end Gama.Lin
