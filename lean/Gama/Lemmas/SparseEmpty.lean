/-
  C16, clause 10: matrices without columns (`cols = 0`) and without rows (`rows = 0`).

  The build / replicate / transpose / graph / connectivity / ordering theorems of Props/C16.lean carry
  no positivity hypothesis, so they hold for these matrices as they stand; this file says what they
  amount to there, and covers the one place where the C++ (and the model) take a different branch:
  `Envelope::set` with `dim = 0` leaves every pointer null (`Env.empty`), and
  `SparseMatrixGraph::connected()` answers `false` for a graph without nodes (fix fb9ac93; before it the
  code wrote `tag(1)` past a one-cell array).
-/
import Gama.Lemmas.SparseBuild
import Gama.Lemmas.GraphAdj
import Gama.Lemmas.Reach
import Gama.Lemmas.RCMPerm
import Gama.Lemmas.EnvelopeProfile
import Gama.Lemmas.EnvelopeLDL
namespace Gama

theorem SMat.ncnt_zero_of_cols_zero {K : Type} (A : SMat K) (h : A.WF) (h0 : A.cols = 0) : A.ncnt = 0 := by
  by_contra hne
  have := h.cind_range 0 (by omega)
  omega

theorem SMat.ncnt_zero_of_rows_zero {K : Type} (A : SMat K) (h : A.WF) (h0 : A.rows = 0) : A.ncnt = 0 := by
  have h1 := h.rptr_one
  have h2 := h.rptr_last
  rw [h0] at h2
  rw [← h2]; exact h1

/-- a graph without edges: only the start node is reachable -/
theorem reach_of_no_edges (g : Adj) (a : Nat) (hno : ∀ b, Reach g a b → g.nbrs b = []) :
    ∀ v, Reach g a v → v = a := by
  intro v hv
  induction hv with
  | refl => rfl
  | step hab hc ih =>
    have := hno _ hab
    rw [this] at hc
    cases hc

namespace Env
variable {K : Type} [Scalar K]

/-- `cholDec` on the empty envelope: the loop `for (row = 1; row <= 0; …)` does not run -/
theorem empty_cholDec (tol : K) : (empty : Env K).cholDec tol = empty := rfl

/-- `solve` with dimension 0 returns the (empty) right-hand side untouched -/
theorem empty_solve (b : Array K) : (empty : Env K).solve b 0 = b := rfl

/-- `inverse` of the empty factor is empty -/
theorem empty_inverse : (empty : Env K).inverse = empty := rfl

end Env

namespace Dense
variable {K : Type} [Scalar K]

theorem ldl_zero (tol : K) (N : Dense K) : ldl tol N 0 = { L := #[], D := #[], defect := 0 } := rfl

theorem solve_zero (f : LDL K) (b : Array K) : solve f 0 b = #[] := rfl

end Dense

end Gama
