/-
  Soundness of the syntactic guard check of Model/DimCheck.lean:
  `covers e = true` ⇒ for ALL shapes satisfying the class invariants, if the guard of `e` does not
  fire then the operands conform (same shape / inner dimensions / square / same element count).
-/
import Gama.Model.DimCheck
namespace Gama.DimCheck

/-- value of a normalised term -/
def evalN (ka kb : Kind) (sa sb : Shape) (nr : Nat) : NTerm → Nat
  | .rows .a => sa.rows
  | .rows .b => sb.rows
  | .rows .res => nr
  | .cols .a => sa.cols
  | .cols .b => sb.cols
  | .cols .res => nr
  | .size .a => sizeOf ka sa
  | .size .b => sizeOf kb sb
  | .size .res => nr
  | .one => 1

theorem normFn_a (ka kb : Kind) (sa sb : Shape) (nr : Nat) (h : WF ka sa = true) (fn : Fn) :
    evalN ka kb sa sb nr (normFn ka .a fn) = evalFn ka sa fn := by
  cases ka <;> cases fn <;> simp_all [normFn, evalN, evalFn, WF, sizeOf, dimOf]

theorem normFn_b (ka kb : Kind) (sa sb : Shape) (nr : Nat) (h : WF kb sb = true) (fn : Fn) :
    evalN ka kb sa sb nr (normFn kb .b fn) = evalFn kb sb fn := by
  cases kb <;> cases fn <;> simp_all [normFn, evalN, evalFn, WF, sizeOf, dimOf]

theorem norm_eval (ka kb : Kind) (sa sb : Shape) (nr : Nat) (ha : WF ka sa = true) (hb : WF kb sb = true)
    (t : Term) : evalN ka kb sa sb nr (norm ka kb t) = evalTerm ka kb sa sb nr t := by
  obtain ⟨fn, o⟩ := t
  cases o
  · simpa [norm, evalTerm] using normFn_a ka kb sa sb nr ha fn
  · simpa [norm, evalTerm] using normFn_b ka kb sa sb nr hb fn
  · simp [norm, evalTerm, evalN]

theorem given_sound (ka kb : Kind) (sa sb : Shape) (nr : Nat) (ha : WF ka sa = true) (hb : WF kb sb = true)
    (g : List Atom) (hg : g.any (atomFires ka kb sa sb nr) = false) (xy : NTerm × NTerm)
    (h : given ka kb g xy = true) : evalN ka kb sa sb nr xy.1 = evalN ka kb sa sb nr xy.2 := by
  unfold given at h
  rw [Bool.or_eq_true] at h
  rcases h with h | h
  · have : xy.1 = xy.2 := by simpa using h
    rw [this]
  · rw [List.any_eq_true] at h
    obtain ⟨x, hx, hxy⟩ := h
    have hf : atomFires ka kb sa sb nr x = false := by
      rw [List.any_eq_false] at hg
      simpa using hg x hx
    have he : evalTerm ka kb sa sb nr x.l = evalTerm ka kb sa sb nr x.r := by
      simpa [atomFires] using hf
    rw [← norm_eval ka kb sa sb nr ha hb, ← norm_eval ka kb sa sb nr ha hb] at he
    rw [Bool.or_eq_true] at hxy
    rcases hxy with h1 | h1
    · rw [Bool.and_eq_true] at h1
      have e1 : norm ka kb x.l = xy.1 := by simpa using h1.1
      have e2 : norm ka kb x.r = xy.2 := by simpa using h1.2
      rw [← e1, ← e2]; exact he
    · rw [Bool.and_eq_true] at h1
      have e1 : norm ka kb x.l = xy.2 := by simpa using h1.1
      have e2 : norm ka kb x.r = xy.1 := by simpa using h1.2
      rw [← e1, ← e2]; exact he.symm

/-- **soundness**: a covered entry's guard implies conformity, for all shapes -/
theorem covers_sound (e : Entry) (hc : covers e = true) (sa sb : Shape) (nr : Nat)
    (ha : WF e.ka sa = true) (hb : WF e.kb sb = true) (hg : guardFires e sa sb nr = false) :
    conforming e.cls e.ka e.kb sa sb nr := by
  unfold covers at hc
  rw [List.all_eq_true] at hc
  have key : ∀ xy ∈ required e.cls e.ka e.kb,
      evalN e.ka e.kb sa sb nr xy.1 = evalN e.ka e.kb sa sb nr xy.2 :=
    fun xy hxy => given_sound e.ka e.kb sa sb nr ha hb e.guard hg xy (hc xy hxy)
  have ea := normFn_a e.ka e.kb sa sb nr ha
  have eb := normFn_b e.ka e.kb sa sb nr hb
  unfold conforming
  cases hcls : e.cls <;> simp only [hcls, required] at key ⊢
  · -- sum
    have h1 := key _ (List.mem_cons_self ..)
    have h2 := key _ (List.mem_cons_of_mem _ (List.mem_cons_self ..))
    simp only [] at h1 h2
    rw [ea, eb] at h1 h2
    exact ⟨h1, h2⟩
  · have h1 := key _ (List.mem_cons_self ..)
    simp only [] at h1
    rw [ea, eb] at h1
    exact h1
  · have h1 := key _ (List.mem_cons_self ..)
    simp only [] at h1
    rw [ea, ea] at h1
    exact h1
  · have h1 := key _ (List.mem_cons_self ..)
    simp only [] at h1
    rw [ea, eb] at h1
    exact h1
  · have h1 := key _ (List.mem_cons_self ..)
    have h2 := key _ (List.mem_cons_of_mem _ (List.mem_cons_self ..))
    simp only [] at h1 h2
    rw [ea, eb] at h1
    rw [ea] at h2
    exact ⟨h1, h2⟩

/-- the whole table at once -/
theorem table_sound (table : List Entry) (skip : List String)
    (h : (table.filter (fun e => !skip.contains e.name)).all covers = true)
    (e : Entry) (he : e ∈ table) (hs : skip.contains e.name = false) (sa sb : Shape) (nr : Nat)
    (ha : WF e.ka sa = true) (hb : WF e.kb sb = true) (hg : guardFires e sa sb nr = false) :
    conforming e.cls e.ka e.kb sa sb nr := by
  rw [List.all_eq_true] at h
  have : e ∈ table.filter (fun e => !skip.contains e.name) := by
    rw [List.mem_filter]; exact ⟨he, by simpa using hs⟩
  exact covers_sound e (h e this) sa sb nr ha hb hg

end Gama.DimCheck
