/-
  Lemmas for C13: `parseObs ∘ exportObs = id` (given the generated attribute routes), lists, covariance.
-/
import Gama.Model.Export
namespace Gama.Export
open Gama.Gen.GkfAttrs

variable {K : Type}

variable {R : K → Prop}

theorem rdOr_fmt (F : NumFmt K) (hF : F.LawfulOn R) (x d : K) (hx : R x) : rdOr F (some (F.fmt x)) d = .ok x := by
  simp [rdOr, hF.rd_fmt x hx]

theorem rdOr_none (F : NumFmt K) (d : K) : rdOr F none d = .ok d := rfl

set_option maxRecDepth 2000 in
set_option maxHeartbeats 1600000 in
theorem pe_distance (F : NumFmt K) (hF : F.LawfulOn R) (rdVal : String → Option K) (sval : String) (cf : String) (impl : K)
    (from_ to fs : String) (val stdev fromDh toDh fsDh : K) (extern : String)
    (q1 : rdVal sval = some val) (r2 : R stdev) (r3 : R fromDh) (r4 : R toDh) (r5 : R fsDh)
    (h1 : from_ ≠ "") (h2 : to ≠ "") (h4 : fs = "") (h5 : fsDh = F.zero) :
    parseObsV F rdVal cf F.zero impl .distance (exportObsV F true cf ⟨.distance, from_, to, fs, val, stdev, fromDh, toDh, fsDh, extern⟩ sval).2
      = .ok ⟨.distance, from_, to, fs, val, stdev, fromDh, toDh, fsDh, extern⟩ := by
  have iz : ∀ x, F.isZero x = true ↔ x = F.zero := hF.isZero_iff
  have q2 := hF.rd_fmt stdev r2
  have q3 := hF.rd_fmt fromDh r3
  have q4 := hF.rd_fmt toDh r4
  have q5 := hF.rd_fmt fsDh r5
  by_cases e2 : fromDh = F.zero <;> by_cases e3 : toDh = F.zero <;> by_cases e1 : cf = from_ <;> by_cases e5 : extern = "" <;>
  simp [exportObsV, parseObsV, reach, route, dhAttr, Kind.elem, rdOr, q1, q2, q3, q4, q5, bind, Except.bind, pure, Except.pure,
    iz, h1, h2, *]

set_option maxRecDepth 2000 in
set_option maxHeartbeats 1600000 in
theorem pe_sdistance (F : NumFmt K) (hF : F.LawfulOn R) (rdVal : String → Option K) (sval : String) (cf : String) (impl : K)
    (from_ to fs : String) (val stdev fromDh toDh fsDh : K) (extern : String)
    (q1 : rdVal sval = some val) (r2 : R stdev) (r3 : R fromDh) (r4 : R toDh) (r5 : R fsDh)
    (h1 : from_ ≠ "") (h2 : to ≠ "") (h4 : fs = "") (h5 : fsDh = F.zero) :
    parseObsV F rdVal cf F.zero impl .sdistance (exportObsV F true cf ⟨.sdistance, from_, to, fs, val, stdev, fromDh, toDh, fsDh, extern⟩ sval).2
      = .ok ⟨.sdistance, from_, to, fs, val, stdev, fromDh, toDh, fsDh, extern⟩ := by
  have iz : ∀ x, F.isZero x = true ↔ x = F.zero := hF.isZero_iff
  have q2 := hF.rd_fmt stdev r2
  have q3 := hF.rd_fmt fromDh r3
  have q4 := hF.rd_fmt toDh r4
  have q5 := hF.rd_fmt fsDh r5
  by_cases e2 : fromDh = F.zero <;> by_cases e3 : toDh = F.zero <;> by_cases e1 : cf = from_ <;> by_cases e5 : extern = "" <;>
  simp [exportObsV, parseObsV, reach, route, dhAttr, Kind.elem, rdOr, q1, q2, q3, q4, q5, bind, Except.bind, pure, Except.pure,
    iz, h1, h2, *]

set_option maxRecDepth 2000 in
set_option maxHeartbeats 1600000 in
theorem pe_zangle (F : NumFmt K) (hF : F.LawfulOn R) (rdVal : String → Option K) (sval : String) (cf : String) (impl : K)
    (from_ to fs : String) (val stdev fromDh toDh fsDh : K) (extern : String)
    (q1 : rdVal sval = some val) (r2 : R stdev) (r3 : R fromDh) (r4 : R toDh) (r5 : R fsDh)
    (h1 : from_ ≠ "") (h2 : to ≠ "") (h4 : fs = "") (h5 : fsDh = F.zero) :
    parseObsV F rdVal cf F.zero impl .zangle (exportObsV F true cf ⟨.zangle, from_, to, fs, val, stdev, fromDh, toDh, fsDh, extern⟩ sval).2
      = .ok ⟨.zangle, from_, to, fs, val, stdev, fromDh, toDh, fsDh, extern⟩ := by
  have iz : ∀ x, F.isZero x = true ↔ x = F.zero := hF.isZero_iff
  have q2 := hF.rd_fmt stdev r2
  have q3 := hF.rd_fmt fromDh r3
  have q4 := hF.rd_fmt toDh r4
  have q5 := hF.rd_fmt fsDh r5
  by_cases e2 : fromDh = F.zero <;> by_cases e3 : toDh = F.zero <;> by_cases e1 : cf = from_ <;> by_cases e5 : extern = "" <;>
  simp [exportObsV, parseObsV, reach, route, dhAttr, Kind.elem, rdOr, q1, q2, q3, q4, q5, bind, Except.bind, pure, Except.pure,
    iz, h1, h2, *]

set_option maxRecDepth 2000 in
set_option maxHeartbeats 1600000 in
theorem pe_azimuth (F : NumFmt K) (hF : F.LawfulOn R) (rdVal : String → Option K) (sval : String) (cf : String) (impl : K)
    (from_ to fs : String) (val stdev fromDh toDh fsDh : K) (extern : String)
    (q1 : rdVal sval = some val) (r2 : R stdev) (r3 : R fromDh) (r4 : R toDh) (r5 : R fsDh)
    (h1 : from_ ≠ "") (h2 : to ≠ "") (h4 : fs = "") (h5 : fsDh = F.zero) :
    parseObsV F rdVal cf F.zero impl .azimuth (exportObsV F true cf ⟨.azimuth, from_, to, fs, val, stdev, fromDh, toDh, fsDh, extern⟩ sval).2
      = .ok ⟨.azimuth, from_, to, fs, val, stdev, fromDh, toDh, fsDh, extern⟩ := by
  have iz : ∀ x, F.isZero x = true ↔ x = F.zero := hF.isZero_iff
  have q2 := hF.rd_fmt stdev r2
  have q3 := hF.rd_fmt fromDh r3
  have q4 := hF.rd_fmt toDh r4
  have q5 := hF.rd_fmt fsDh r5
  by_cases e2 : fromDh = F.zero <;> by_cases e3 : toDh = F.zero <;> by_cases e1 : cf = from_ <;> by_cases e5 : extern = "" <;>
  simp [exportObsV, parseObsV, reach, route, dhAttr, Kind.elem, rdOr, q1, q2, q3, q4, q5, bind, Except.bind, pure, Except.pure,
    iz, h1, h2, *]

set_option maxRecDepth 2000 in
set_option maxHeartbeats 1600000 in
theorem pe_direction (F : NumFmt K) (hF : F.LawfulOn R) (rdVal : String → Option K) (sval : String) (cf : String) (impl : K)
    (from_ to fs : String) (val stdev fromDh toDh fsDh : K) (extern : String)
    (q1 : rdVal sval = some val) (r2 : R stdev) (r3 : R fromDh) (r4 : R toDh) (r5 : R fsDh)
    (h1 : from_ ≠ "") (h2 : to ≠ "") (h4 : fs = "") (h5 : fsDh = F.zero) (h6 : from_ = cf) :
    parseObsV F rdVal cf F.zero impl .direction (exportObsV F true cf ⟨.direction, from_, to, fs, val, stdev, fromDh, toDh, fsDh, extern⟩ sval).2
      = .ok ⟨.direction, from_, to, fs, val, stdev, fromDh, toDh, fsDh, extern⟩ := by
  have iz : ∀ x, F.isZero x = true ↔ x = F.zero := hF.isZero_iff
  have q2 := hF.rd_fmt stdev r2
  have q3 := hF.rd_fmt fromDh r3
  have q4 := hF.rd_fmt toDh r4
  have q5 := hF.rd_fmt fsDh r5
  subst h6
  by_cases e2 : fromDh = F.zero <;> by_cases e3 : toDh = F.zero <;> by_cases e5 : extern = "" <;>
  simp [exportObsV, parseObsV, reach, route, dhAttr, Kind.elem, rdOr, q1, q2, q3, q4, q5, bind, Except.bind, pure, Except.pure,
    iz, h1, h2, *]

set_option maxRecDepth 2000 in
set_option maxHeartbeats 1600000 in
theorem pe_angle (F : NumFmt K) (hF : F.LawfulOn R) (rdVal : String → Option K) (sval : String) (cf : String) (impl : K)
    (from_ to fs : String) (val stdev fromDh toDh fsDh : K) (extern : String)
    (q1 : rdVal sval = some val) (r2 : R stdev) (r3 : R fromDh) (r4 : R toDh) (r5 : R fsDh)
    (h1 : from_ ≠ "") (h2 : to ≠ "") (h3 : fs ≠ "") :
    parseObsV F rdVal cf F.zero impl .angle (exportObsV F true cf ⟨.angle, from_, to, fs, val, stdev, fromDh, toDh, fsDh, extern⟩ sval).2
      = .ok ⟨.angle, from_, to, fs, val, stdev, fromDh, toDh, fsDh, extern⟩ := by
  have iz : ∀ x, F.isZero x = true ↔ x = F.zero := hF.isZero_iff
  have q2 := hF.rd_fmt stdev r2
  have q3 := hF.rd_fmt fromDh r3
  have q4 := hF.rd_fmt toDh r4
  have q5 := hF.rd_fmt fsDh r5
  by_cases e2 : fromDh = F.zero <;> by_cases e3 : toDh = F.zero <;> by_cases e4 : fsDh = F.zero <;> by_cases e1 : cf = from_ <;> by_cases e5 : extern = "" <;>
  simp [exportObsV, parseObsV, reach, route, dhAttr, Kind.elem, rdOr, q1, q2, q3, q4, q5, bind, Except.bind, pure, Except.pure,
    iz, h1, h2, *]

/-- the numbers of an observation other than its value are representable -/
structure Obs.RepAttrs (R : K → Prop) (o : Obs K) : Prop where
  stdev : R o.stdev
  fromDh : R o.fromDh
  toDh : R o.toDh
  fsDh : R o.fsDh

/-- an observation written with any text `sval` for its value and read with a reader `rdVal` that turns that text into
    the value (gons: `to_xmlstr` / `toDouble`; degrees: `gon2deg` / `deg2gon`) -/
theorem parse_export_obsV (F : NumFmt K) (hF : F.LawfulOn R) (rdVal : String → Option K) (sval : String) (cf : String)
    (impl : K) (o : Obs K) (hw : o.WF F) (hv : rdVal sval = some o.val) (hr : o.RepAttrs R)
    (hdir : o.kind = .direction → o.from_ = cf) :
    parseObsV F rdVal cf F.zero impl o.kind (exportObsV F true cf o sval).2 = .ok o := by
  obtain ⟨kind, from_, to, fs, val, stdev, fromDh, toDh, fsDh, extern⟩ := o
  obtain ⟨h1, h2, h3, h4⟩ := hw
  obtain ⟨r2, r3, r4, r5⟩ := hr
  simp only at h1 h2 h3 h4 hdir hv r2 r3 r4 r5
  cases kind
  · exact pe_distance F hF rdVal sval cf impl _ _ _ _ _ _ _ _ _ hv r2 r3 r4 r5 h1 h2 (h4 (by decide)).1 (h4 (by decide)).2
  · exact pe_direction F hF rdVal sval cf impl _ _ _ _ _ _ _ _ _ hv r2 r3 r4 r5 h1 h2 (h4 (by decide)).1 (h4 (by decide)).2 (hdir rfl)
  · exact pe_angle F hF rdVal sval cf impl _ _ _ _ _ _ _ _ _ hv r2 r3 r4 r5 h1 h2 (h3 rfl)
  · exact pe_sdistance F hF rdVal sval cf impl _ _ _ _ _ _ _ _ _ hv r2 r3 r4 r5 h1 h2 (h4 (by decide)).1 (h4 (by decide)).2
  · exact pe_zangle F hF rdVal sval cf impl _ _ _ _ _ _ _ _ _ hv r2 r3 r4 r5 h1 h2 (h4 (by decide)).1 (h4 (by decide)).2
  · exact pe_azimuth F hF rdVal sval cf impl _ _ _ _ _ _ _ _ _ hv r2 r3 r4 r5 h1 h2 (h4 (by decide)).1 (h4 (by decide)).2

theorem parse_export_obs (F : NumFmt K) (hF : F.LawfulOn R) (cf : String) (impl : K) (o : Obs K)
    (hw : o.WF F) (hr : o.Rep R) (hdir : o.kind = .direction → o.from_ = cf) :
    parseObs F cf F.zero impl o.kind (exportObs F true cf o).2 = .ok o :=
  parse_export_obsV F hF F.rd (F.fmt o.val) cf impl o hw (hF.rd_fmt _ hr.val) ⟨hr.stdev, hr.fromDh, hr.toDh, hr.fsDh⟩ hdir

/-- at the pinned commit `extern` is not exported: the round trip holds only for observations without it -/
theorem parse_export_obs_noext_witness (F : NumFmt K) (hF : F.LawfulOn R) (x : K) (hx : R x) :
    parseObs F "A" F.zero x .distance
      (exportObs F false "A" ⟨.distance, "A", "B", "", x, x, F.zero, F.zero, F.zero, "e1"⟩).2
      = .ok ⟨.distance, "A", "B", "", x, x, F.zero, F.zero, F.zero, ""⟩ := by
  have iz : F.isZero F.zero = true := (hF.isZero_iff _).mpr rfl
  simp [exportObs, parseObs, exportObsV, parseObsV, reach, route, dhAttr, Kind.elem, rdOr, hF.rd_fmt x hx, bind, Except.bind, pure, Except.pure, iz]

theorem parse_export_dh (F : NumFmt K) (hF : F.LawfulOn R) (sd : K → K) (pos : K → Bool) (h : HDiff K)
    (h1 : h.from_ ≠ "") (h2 : h.to ≠ "") (hr : R h.val ∧ (pos h.dist = true → R h.dist) ∧ (pos h.dist = false → R h.stdev))
    (hpos : pos h.dist = false → h.dist = F.zero)          -- `dist > 0` fails only for dist = 0 (parser rejects dist < 0)
    (hsd : pos h.dist = true → h.stdev = sd h.dist) :      -- a distance was given: stdev is the implied one
    parseDh F sd (exportDh F true pos false h).2 = .ok h := by
  obtain ⟨from_, to, val, dist, stdev, extern⟩ := h
  simp only at h1 h2 hpos hsd hr
  have q1 := hF.rd_fmt val hr.1
  cases hp : pos dist <;> by_cases e5 : extern = "" <;>
  simp [exportDh, parseDh, reach, route, rdOr, q1, bind, Except.bind, pure, Except.pure, hp, e5, h1, h2]
  all_goals simp_all [hF.rd_fmt]

/-- the export since 9f04c51 writes the standard deviation always: nothing is assumed about how it relates to `dist` -/
theorem parse_export_dh_always (F : NumFmt K) (hF : F.LawfulOn R) (sd : K → K) (pos : K → Bool) (h : HDiff K)
    (h1 : h.from_ ≠ "") (h2 : h.to ≠ "") (hr : R h.val ∧ (pos h.dist = true → R h.dist) ∧ R h.stdev)
    (hpos : pos h.dist = false → h.dist = F.zero) :
    parseDh F sd (exportDh F true pos true h).2 = .ok h := by
  obtain ⟨from_, to, val, dist, stdev, extern⟩ := h
  simp only at h1 h2 hpos hr
  have q1 := hF.rd_fmt val hr.1
  have q2 := hF.rd_fmt stdev hr.2.2
  cases hp : pos dist <;> by_cases e5 : extern = "" <;>
  simp [exportDh, parseDh, reach, route, rdOr, q1, q2, bind, Except.bind, pure, Except.pure, hp, e5, h1, h2]
  all_goals simp_all [hF.rd_fmt]

theorem mapM_rd_fmt (F : NumFmt K) (hF : F.LawfulOn R) (xs : List K) (hx : ∀ x ∈ xs, R x) :
    (xs.map F.fmt).mapM F.rd = some xs := by
  induction xs with
  | nil => rfl
  | cons x xs ih =>
    have h1 := hF.rd_fmt x (hx x List.mem_cons_self)
    have h2 := ih (fun y hy => hx y (List.mem_cons_of_mem _ hy))
    simp [List.mapM_cons, h1, h2]

theorem parse_export_cov (F : NumFmt K) (hF : F.LawfulOn R) (c : Cov K) (hx : ∀ x ∈ c.data, R x) :
    parseCov F (exportCov F c) = some c := by
  simp [parseCov, exportCov, mapM_rd_fmt F hF c.data hx]

theorem mapM_ok {α β : Type} {ε : Type} (f : α → Except ε β) (g : β → α) (l : List β)
    (h : ∀ b ∈ l, f (g b) = .ok b) : (l.map g).mapM f = .ok l := by
  induction l with
  | nil => rfl
  | cons b l ih =>
    have hb := h b (List.mem_cons_self)
    have hl := ih (fun b' hb' => h b' (List.mem_cons_of_mem _ hb'))
    simp [List.mapM_cons, hb, hl, bind, Except.bind, pure, Except.pure]

theorem kindOf_elem (k : Kind) : kindOf k.elem = some k := by cases k <;> rfl

theorem parse_export_cluster (F : NumFmt K) (hF : F.LawfulOn R) (impl : Kind → K) (c : StandPoint K)
    (hw : ∀ o ∈ c.obs, o.WF F) (hr : ∀ o ∈ c.obs, o.Rep R) (hdir : ∀ o ∈ c.obs, o.kind = .direction → o.from_ = c.station) :
    parseCluster F impl (exportCluster F true c) = .ok c := by
  unfold parseCluster exportCluster
  have h := mapM_ok (parseElem F impl c.station) (exportObs F true c.station) c.obs
    (fun o ho => by
      have : (exportObs F true c.station o).1 = o.kind.elem := rfl
      simp only [parseElem, this, kindOf_elem]
      exact parse_export_obs F hF c.station (impl o.kind) o (hw o ho) (hr o ho) (hdir o ho))
  simp only [h]

theorem flipWith_flipWith (neg : K → K) (hneg : ∀ x, neg (neg x) = x) (bs : List Bool) (xs : List K) :
    flipWith neg bs (flipWith neg bs xs) = xs := by
  induction bs generalizing xs with
  | nil => cases xs <;> rfl
  | cons b bs ih =>
    cases xs with
    | nil => rfl
    | cons x xs => cases b <;> simp [flipWith, ih, hneg]

theorem mirrorCov_mirrorCov (neg : K → K) (hneg : ∀ x, neg (neg x) = x) (mir : Nat → Bool) (c : Cov K) :
    mirrorCov neg mir (mirrorCov neg mir c) = c := by
  simp [mirrorCov, flipWith_flipWith neg hneg]

/-- exporting the internal (mirrored or not) matrix and reading it back with the same axes/angles gives it back -/
theorem flipWith_mem (neg : K → K) (hR : ∀ x, R x → R (neg x)) (bs : List Bool) (xs : List K) (hx : ∀ x ∈ xs, R x) :
    ∀ x ∈ flipWith neg bs xs, R x := by
  induction bs generalizing xs with
  | nil => cases xs <;> simpa [flipWith] using hx
  | cons b bs ih =>
    cases xs with
    | nil => simp [flipWith]
    | cons y ys =>
      intro x hxm
      simp only [flipWith, List.mem_cons] at hxm
      rcases hxm with h | h
      · subst h
        cases b
        · exact hx y List.mem_cons_self
        · exact hR y (hx y List.mem_cons_self)
      · exact ih ys (fun z hz => hx z (List.mem_cons_of_mem _ hz)) x h

theorem parse_export_covY (F : NumFmt K) (hF : F.LawfulOn R) (neg : K → K) (hneg : ∀ x, neg (neg x) = x)
    (hR : ∀ x, R x → R (neg x)) (ysign : Bool) (mir : Nat → Bool) (c : Cov K) (hx : ∀ x ∈ c.data, R x) :
    parseCovY F neg ysign mir (exportCovY F neg ysign mir c) = some c := by
  unfold parseCovY exportCovY
  cases ysign
  · simp [parse_export_cov F hF c hx]
  · have : ∀ x ∈ (mirrorCov neg mir c).data, R x := flipWith_mem neg hR _ _ hx
    simp [parse_export_cov F hF _ this, mirrorCov_mirrorCov neg hneg]

end Gama.Export
