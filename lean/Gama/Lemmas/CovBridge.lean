/-
  Bridge between the executable `CovMat` kernels and the Mathlib `Matrix` statements of whitening:
  `toMatrix C = L̃ L̃ᵀ` for `L̃ = lowerMatrix (Adj::choldec C)`, `L̃ *ᵥ forwardSubst = v`, and the
  end-to-end statement: the homogenised block produced by the modelled code has the normal equations /
  objective of the weighted problem `(A, b, C⁻¹)`.
-/
import Gama.Lemmas.CovChol
import Gama.Lemmas.CovFwd
import Gama.Lemmas.CovWhiten
import Mathlib.Algebra.BigOperators.Fin
namespace Gama.Cov
open Finset Matrix

set_option linter.unusedSectionVars false

variable {K : Type} [Field K] [LinearOrder K] [IsStrictOrderedRing K] [SqrtFn K]

@[reducible] local instance scalarOfFieldB : Scalar K := fieldScalar K SqrtFn.sq

/-- the full symmetric `N × N` matrix a `CovMat` represents -/
def toMatrix (N : Nat) (m : CovMat K) : Matrix (Fin N) (Fin N) K := fun i j => m.get (i.val + 1) (j.val + 1)

/-- the lower-triangular factor `L̃(i,j) = chol(i,j)` (`j ≤ i`) read by `Adj::forwardSubstitution` -/
def lowerMatrix (N : Nat) (m : CovMat K) : Matrix (Fin N) (Fin N) K :=
  fun i j => if j.val ≤ i.val then m.get (i.val + 1) (j.val + 1) else 0

/-- a `Vec<>` (0-based array) as a function on `Fin N` -/
def vecOf (N : Nat) (v : Array K) : Fin N → K := fun i => v.getD i.val 0

theorem sum_fin_le (N i : Nat) (hi : i < N) (f : Nat → K) :
    ∑ k : Fin N, (if k.val ≤ i then f k.val else 0) = ∑ r ∈ Icc 1 (i + 1), f (r - 1) := by
  rw [Fin.sum_univ_eq_sum_range (fun k => if k ≤ i then f k else 0) N, ← Finset.sum_filter]
  have hf : (Finset.range N).filter (fun k => k ≤ i) = Finset.range (i + 1) := by
    ext x; simp only [Finset.mem_filter, Finset.mem_range]; omega
  rw [hf, ← Finset.Ico_add_one_right_eq_Icc, Finset.sum_Ico_eq_sum_range]
  apply Finset.sum_congr (by simp)
  intro k _
  congr 1; omega

/-- **Matrix form of `adjCholdec_LLt`: `C = L̃ L̃ᵀ`.** -/
theorem toMatrix_eq_LLt {C U : CovMat K} (hC : C.WF)
    (hsq : ∀ x : K, 0 < x → SqrtFn.sq x * SqrtFn.sq x = x) (h : adjCholdec C = .ok U) :
    toMatrix C.dim C = lowerMatrix C.dim U * (lowerMatrix C.dim U)ᵀ := by
  obtain ⟨_, _, _, _, hLL, _⟩ := adjCholdec_LLt hC hsq h
  have entry : ∀ i j : Fin C.dim, i.val ≤ j.val →
      C.get (i.val + 1) (j.val + 1) = ∑ k : Fin C.dim, lowerMatrix C.dim U i k * lowerMatrix C.dim U j k := by
    intro i j hij
    have e : ∀ k : Fin C.dim, lowerMatrix C.dim U i k * lowerMatrix C.dim U j k =
        if k.val ≤ i.val then U.get (k.val + 1) (i.val + 1) * U.get (k.val + 1) (j.val + 1) else 0 := by
      intro k
      unfold lowerMatrix
      by_cases hk : k.val ≤ i.val
      · rw [if_pos hk, if_pos (by omega), if_pos hk, CovMat.get_symm U (i.val + 1), CovMat.get_symm U (j.val + 1)]
      · rw [if_neg hk, if_neg hk, zero_mul]
    rw [Finset.sum_congr rfl (fun k _ => e k),
      sum_fin_le C.dim i.val i.isLt (fun k => U.get (k + 1) (i.val + 1) * U.get (k + 1) (j.val + 1)),
      hLL (i.val + 1) (j.val + 1) (by omega) (by omega) (by have := j.isLt; omega)]
    apply Finset.sum_congr rfl
    intro r hr
    rw [Finset.mem_Icc] at hr
    have : r - 1 + 1 = r := by omega
    rw [this]
  ext i j
  rw [Matrix.mul_apply]
  simp only [Matrix.transpose_apply]
  rcases Nat.le_total i.val j.val with hij | hij
  · exact entry i j hij
  · unfold toMatrix
    rw [CovMat.get_symm, entry j i hij]
    apply Finset.sum_congr rfl
    intro k _; rw [mul_comm]

theorem vecOf_ofFn (N : Nat) (f : Fin N → K) : vecOf N (Array.ofFn f) = f := by
  funext i
  unfold vecOf
  simp [Array.getD, i.isLt]

/-- **Matrix form of `forwardSubst_spec`: `L̃ *ᵥ (forwardSubstitution L̃ v) = v`.** -/
theorem lowerMatrix_mulVec_forwardSubst (U : CovMat K) (v : Array K) (hv : v.size = U.dim)
    (hd : ∀ i, 1 ≤ i → i ≤ U.dim → U.get i i ≠ 0) :
    lowerMatrix U.dim U *ᵥ vecOf U.dim (forwardSubst U v) = vecOf U.dim v := by
  obtain ⟨_, hsol⟩ := forwardSubst_spec SqrtFn.sq U v hv hd
  funext i
  unfold Matrix.mulVec dotProduct
  have e : ∀ k : Fin U.dim, lowerMatrix U.dim U i k * vecOf U.dim (forwardSubst U v) k =
      if k.val ≤ i.val then U.get (i.val + 1) (k.val + 1) * (forwardSubst U v).getD k.val 0 else 0 := by
    intro k
    unfold lowerMatrix vecOf
    by_cases hk : k.val ≤ i.val
    · rw [if_pos hk, if_pos hk]
    · rw [if_neg hk, if_neg hk, zero_mul]
  rw [Finset.sum_congr rfl (fun k _ => e k),
    sum_fin_le U.dim i.val i.isLt (fun k => U.get (i.val + 1) (k + 1) * (forwardSubst U v).getD k 0)]
  have := hsol (i.val + 1) (by omega) (by have := i.isLt; omega)
  simp only [Nat.add_sub_cancel] at this
  unfold vecOf
  rw [← this]
  apply Finset.sum_congr rfl
  intro r hr
  rw [Finset.mem_Icc] at hr
  have : r - 1 + 1 = r := by omega
  rw [this]

/-- the homogenised design matrix of one covariance block, column by column
    (`Adj::init_least_squares`, `LocalNetwork::prepareProjectEquations`) -/
def homA {n : Nat} (U : CovMat K) (A : Matrix (Fin U.dim) (Fin n) K) : Matrix (Fin U.dim) (Fin n) K :=
  fun i j => vecOf U.dim (forwardSubst U (Array.ofFn fun r => A r j)) i

/-- the homogenised right-hand side of one covariance block -/
def homB (U : CovMat K) (b : Fin U.dim → K) : Fin U.dim → K := vecOf U.dim (forwardSubst U (Array.ofFn b))

theorem lowerMatrix_mul_homA {n : Nat} (U : CovMat K) (hd : ∀ i, 1 ≤ i → i ≤ U.dim → U.get i i ≠ 0)
    (A : Matrix (Fin U.dim) (Fin n) K) : lowerMatrix U.dim U * homA U A = A := by
  ext i j
  have := congrFun (lowerMatrix_mulVec_forwardSubst U (Array.ofFn fun r => A r j) (by simp) hd) i
  rw [vecOf_ofFn] at this
  rw [Matrix.mul_apply]
  unfold Matrix.mulVec dotProduct at this
  exact this

theorem lowerMatrix_mulVec_homB (U : CovMat K) (hd : ∀ i, 1 ≤ i → i ≤ U.dim → U.get i i ≠ 0)
    (b : Fin U.dim → K) : lowerMatrix U.dim U *ᵥ homB U b = b := by
  have := lowerMatrix_mulVec_forwardSubst U (Array.ofFn b) (by simp) hd
  rw [vecOf_ofFn] at this
  exact this

/-- **End to end for one covariance block**: the code factors `C` with `Adj::choldec` and replaces every
    column of `A` and the right-hand side by their forward substitutions; the result has the normal
    matrix, normal right-hand side and objective of the weighted problem `(A, b, P = C⁻¹)`, and the
    residuals are recovered by multiplying with `L̃`. -/
theorem homogenised_block {n : Nat} {C U : CovMat K} (hC : C.WF)
    (hsq : ∀ x : K, 0 < x → SqrtFn.sq x * SqrtFn.sq x = x) (h : adjCholdec C = .ok U)
    (P : Matrix (Fin U.dim) (Fin U.dim) K) (hP : toMatrix U.dim C * P = 1)
    (A : Matrix (Fin U.dim) (Fin n) K) (b : Fin U.dim → K) :
    (homA U A)ᵀ * homA U A = Aᵀ * P * A ∧
    (homA U A)ᵀ *ᵥ homB U b = Aᵀ *ᵥ (P *ᵥ b) ∧
    (∀ x, (homA U A *ᵥ x - homB U b) ⬝ᵥ (homA U A *ᵥ x - homB U b) = (A *ᵥ x - b) ⬝ᵥ (P *ᵥ (A *ᵥ x - b))) ∧
    (∀ x, (homA U A)ᵀ *ᵥ (homA U A *ᵥ x - homB U b) = Aᵀ *ᵥ (P *ᵥ (A *ᵥ x - b))) ∧
    (∀ x, lowerMatrix U.dim U *ᵥ (homA U A *ᵥ x - homB U b) = A *ᵥ x - b) ∧
    P = (toMatrix U.dim C)⁻¹ := by
  obtain ⟨_, hUd, _, hdiag, _, _⟩ := adjCholdec_LLt hC hsq h
  have hLL : toMatrix U.dim C = lowerMatrix U.dim U * (lowerMatrix U.dim U)ᵀ := by
    have := toMatrix_eq_LLt hC hsq h
    rw [← hUd] at this
    exact this
  have hd : ∀ i, 1 ≤ i → i ≤ U.dim → U.get i i ≠ 0 := by
    intro i h1 h2; exact hdiag i h1 (by rw [← hUd]; exact h2)
  have hA := lowerMatrix_mul_homA U hd A
  have hb := lowerMatrix_mulVec_homB U hd b
  exact ⟨Whiten.normal_matrix hLL hP hA, Whiten.normal_rhs hLL hP hA hb, Whiten.objective hLL hP hA hb,
    Whiten.normal_residual_eq hLL hP hA hb, Whiten.residual hA hb, Whiten.weight_eq_inv hP⟩

end Gama.Cov
