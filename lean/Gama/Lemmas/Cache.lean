/-
  Lemmas about the move-to-front cache model (core Lean only).
-/
import Gama.Model.MoveToFront
namespace Gama.MTF
variable {Key Buf : Type} [DecidableEq Key]

/-- the buffer currently associated with a live key -/
def slotOf (m : MTF Key Buf) (k : Key) : Option Buf := (extract k m.ents).map (·.1)

def keys (m : MTF Key Buf) : List Key := m.ents.map Prod.fst
def bufs (m : MTF Key Buf) : List Buf := m.ents.map Prod.snd ++ m.free

theorem extract_none_iff (k : Key) (l : List (Key × Buf)) :
    extract k l = none ↔ k ∉ l.map Prod.fst := by
  induction l with
  | nil => simp [extract]
  | cons a l ih =>
    obtain ⟨k', b⟩ := a
    simp only [extract, List.map_cons, List.mem_cons, not_or]
    by_cases h : k' = k
    · simp [h]
    · simp only [h, if_false]
      cases he : extract k l with
      | none => simp [he] at ih; simp [ih, Ne.symm h]
      | some p => simp [he] at ih; simp [ih]

theorem extract_some_perm {k : Key} {l rest : List (Key × Buf)} {b : Buf}
    (h : extract k l = some (b, rest)) : l.Perm ((k, b) :: rest) := by
  induction l generalizing rest with
  | nil => simp [extract] at h
  | cons a l ih =>
    obtain ⟨k', b'⟩ := a
    simp only [extract] at h
    by_cases hk : k' = k
    · simp [hk] at h; obtain ⟨rfl, rfl⟩ := h; subst hk; exact List.Perm.refl _
    · simp only [hk, if_false] at h
      cases he : extract k l with
      | none => simp [he] at h
      | some p =>
        obtain ⟨b0, r0⟩ := p
        simp [he] at h; obtain ⟨rfl, rfl⟩ := h
        exact (List.Perm.cons _ (ih he)).trans (List.Perm.swap _ _ _)

end Gama.MTF
