/-
  Lemmas about the move-to-front cache model (core Lean only).
-/
import Gama.Model.MoveToFront
namespace Gama.MTF
variable {Key Buf : Type} [DecidableEq Key]

/-- the buffer currently associated with a live key -/
def slotOf (m : MTF Key Buf) (k : Key) : Option Buf := (extract k m.ents).map (·.1)

def keys (m : MTF Key Buf) : List Key := m.ents.map Prod.fst
def bufs (m : MTF Key Buf) : List Buf := m.ents.map Prod.snd ++ m.free

theorem extract_none_iff (k : Key) (l : List (Key × Buf)) :
    extract k l = none ↔ k ∉ l.map Prod.fst := by
  induction l with
  | nil => simp [extract]
  | cons a l ih =>
    obtain ⟨k', b⟩ := a
    simp only [extract, List.map_cons, List.mem_cons, not_or]
    by_cases h : k' = k
    · simp [h]
    · simp only [h, if_false]
      cases he : extract k l with
      | none => simp [he] at ih; simp [ih, Ne.symm h]
      | some p => simp [he] at ih; simp [ih]

theorem extract_some_perm {k : Key} {l rest : List (Key × Buf)} {b : Buf}
    (h : extract k l = some (b, rest)) : l.Perm ((k, b) :: rest) := by
  induction l generalizing rest with
  | nil => simp [extract] at h
  | cons a l ih =>
    obtain ⟨k', b'⟩ := a
    simp only [extract] at h
    by_cases hk : k' = k
    · simp [hk] at h; obtain ⟨rfl, rfl⟩ := h; subst hk; exact List.Perm.refl _
    · simp only [hk, if_false] at h
      cases he : extract k l with
      | none => simp [he] at h
      | some p =>
        obtain ⟨b0, r0⟩ := p
        simp [he] at h; obtain ⟨rfl, rfl⟩ := h
        exact (List.Perm.cons _ (ih he)).trans (List.Perm.swap _ _ _)

end Gama.MTF

namespace Gama.MTF
variable {Key Buf : Type} [DecidableEq Key]

/-- well-formedness: keys are distinct and no buffer is held twice -/
structure WF (m : MTF Key Buf) : Prop where
  keysNodup : (m.ents.map Prod.fst).Nodup
  bufsNodup : (m.ents.map Prod.snd ++ m.free).Nodup

theorem extract_some_mem {k : Key} {l rest : List (Key × Buf)} {b : Buf}
    (h : extract k l = some (b, rest)) : (k, b) ∈ l :=
  (extract_some_perm h).mem_iff.mpr (List.mem_cons_self ..)

theorem extract_some_sub {k : Key} {l rest : List (Key × Buf)} {b : Buf}
    (h : extract k l = some (b, rest)) : ∀ e ∈ rest, e ∈ l := fun e he =>
  (extract_some_perm h).mem_iff.mpr (List.mem_cons_of_mem _ he)

theorem wf_init (bufs : List Buf) (h : bufs.Nodup) : WF (init bufs : MTF Key Buf) :=
  ⟨by simp [init], by simpa [init] using h⟩

theorem wf_erase {m : MTF Key Buf} (h : WF m) : WF m.erase :=
  ⟨by simp [erase], by simpa [erase] using h.bufsNodup⟩

theorem cap_erase (m : MTF Key Buf) : m.erase.cap = m.cap := by
  simp [erase, cap]

/-- outcome of `get`, case by case, in a form convenient for invariants -/
inductive GetSpec (m : MTF Key Buf) (k : Key) : MTF Key Buf → Buf → Bool → Prop
  | hit (b : Buf) (rest : List (Key × Buf)) (hp : m.ents.Perm ((k, b) :: rest)) :
      GetSpec m k ⟨(k, b) :: rest, m.free⟩ b true
  | missFree (b : Buf) (free' : List Buf) (hf : m.free = b :: free') (hk : k ∉ m.ents.map Prod.fst) :
      GetSpec m k ⟨(k, b) :: m.ents, free'⟩ b false
  | missFull (kl : Key) (b : Buf) (front : List (Key × Buf)) (he : m.ents = front ++ [(kl, b)])
      (hf : m.free = []) (hk : k ∉ m.ents.map Prod.fst) :
      GetSpec m k ⟨(k, b) :: front, []⟩ b false

theorem get_spec (m : MTF Key Buf) (k : Key) (hc : 0 < m.cap) :
    ∃ m' b g, m.get k = some (m', (b, g)) ∧ GetSpec m k m' b g := by
  unfold get
  cases he : extract k m.ents with
  | some p =>
    obtain ⟨b, rest⟩ := p
    exact ⟨_, _, _, rfl, .hit b rest (extract_some_perm he)⟩
  | none =>
    have hk := (extract_none_iff k m.ents).mp he
    cases hf : m.free with
    | cons b free' => exact ⟨_, _, _, rfl, .missFree b free' hf hk⟩
    | nil =>
      have hne : m.ents ≠ [] := by
        intro h; simp [cap, h, hf] at hc
      obtain ⟨front, last, hl⟩ : ∃ front last, m.ents = front ++ [last] :=
        ⟨m.ents.dropLast, m.ents.getLast hne, (List.dropLast_concat_getLast hne).symm⟩
      obtain ⟨kl, bl⟩ := last
      refine ⟨⟨(k, bl) :: front, []⟩, bl, false, ?_, .missFull kl bl front hl hf hk⟩
      simp [hl]

theorem GetSpec.wf {m m' : MTF Key Buf} {k : Key} {b : Buf} {g : Bool}
    (h : GetSpec m k m' b g) (hw : WF m) : WF m' := by
  cases h with
  | hit b rest hp =>
    refine ⟨?_, ?_⟩
    · have := (hp.map Prod.fst).nodup_iff.mp hw.keysNodup; simpa using this
    · have hp2 : (m.ents.map Prod.snd ++ m.free).Perm (((k, b) :: rest).map Prod.snd ++ m.free) :=
        (hp.map Prod.snd).append_right _
      exact hp2.nodup_iff.mp hw.bufsNodup
  | missFree b free' hf hk =>
    refine ⟨?_, ?_⟩
    · exact List.nodup_cons.mpr ⟨hk, hw.keysNodup⟩
    · have := hw.bufsNodup
      rw [hf] at this
      have hp : (m.ents.map Prod.snd ++ b :: free').Perm (b :: (m.ents.map Prod.snd ++ free')) :=
        List.perm_middle
      simpa using hp.nodup_iff.mp this
  | missFull kl b front he hf hk =>
    have hkn := hw.keysNodup
    have hbn := hw.bufsNodup
    rw [he] at hkn hk
    rw [he, hf] at hbn
    simp only [List.map_append, List.map_cons, List.map_nil, List.append_nil] at hkn hbn hk
    refine ⟨?_, ?_⟩
    · have h1 : (front.map Prod.fst).Nodup := (List.nodup_append.mp hkn).1
      have h2 : k ∉ front.map Prod.fst := fun hh => hk (List.mem_append_left _ hh)
      exact List.nodup_cons.mpr ⟨h2, h1⟩
    · have hp : (front.map Prod.snd ++ [b]).Perm (b :: front.map Prod.snd) :=
        List.perm_append_comm
      simpa using hp.nodup_iff.mp hbn

theorem GetSpec.cap {m m' : MTF Key Buf} {k : Key} {b : Buf} {g : Bool}
    (h : GetSpec m k m' b g) : m'.cap = m.cap := by
  cases h with
  | hit b rest hp => simp [MTF.cap, hp.length_eq]
  | missFree b free' hf hk => simp [MTF.cap, hf]; omega
  | missFull kl b front he hf hk => simp [MTF.cap, he, hf]

theorem GetSpec.head {m m' : MTF Key Buf} {k : Key} {b : Buf} {g : Bool}
    (h : GetSpec m k m' b g) : ∃ rest, m'.ents = (k, b) :: rest := by
  cases h <;> exact ⟨_, rfl⟩

/-- on a hit the returned buffer is the one associated with the key -/
theorem GetSpec.hit_mem {m m' : MTF Key Buf} {k : Key} {b : Buf}
    (h : GetSpec m k m' b true) : (k, b) ∈ m.ents := by
  cases h with
  | hit b rest hp => exact hp.mem_iff.mpr (List.mem_cons_self ..)

theorem GetSpec.miss_fresh {m m' : MTF Key Buf} {k : Key} {b : Buf}
    (h : GetSpec m k m' b false) : k ∉ m.ents.map Prod.fst := by
  cases h with
  | missFree b free' hf hk => exact hk
  | missFull kl b front he hf hk => exact hk

/-- entries that survive a `get` were there before -/
theorem GetSpec.old {m m' : MTF Key Buf} {k : Key} {b : Buf} {g : Bool}
    (h : GetSpec m k m' b g) : ∀ k' b', (k', b') ∈ m'.ents → k' ≠ k → (k', b') ∈ m.ents := by
  intro k' b' hm hne
  cases h with
  | hit b rest hp =>
    have : (k', b') ∈ (k, b) :: rest := hm
    exact hp.mem_iff.mpr this
  | missFree b free' hf hk =>
    have : (k', b') ∈ (k, b) :: m.ents := hm
    rcases List.mem_cons.mp this with h1 | h1
    · exact absurd (congrArg Prod.fst h1) hne
    · exact h1
  | missFull kl b front he hf hk =>
    have : (k', b') ∈ (k, b) :: front := hm
    rcases List.mem_cons.mp this with h1 | h1
    · exact absurd (congrArg Prod.fst h1) hne
    · rw [he]; exact List.mem_append_left _ h1

/-- the most recently used entry survives the next `get` when there are at least two buffers -/
theorem GetSpec.keeps_front {m m' : MTF Key Buf} {k : Key} {b : Buf} {g : Bool}
    (h : GetSpec m k m' b g) {k0 : Key} {b0 : Buf} {rest : List (Key × Buf)}
    (hh : m.ents = (k0, b0) :: rest) (hne : k0 ≠ k) (hc : 2 ≤ m.cap) : (k0, b0) ∈ m'.ents := by
  cases h with
  | hit b rest' hp =>
    have : (k0, b0) ∈ m.ents := by rw [hh]; exact List.mem_cons_self ..
    exact hp.mem_iff.mp this
  | missFree b free' hf hk =>
    show (k0, b0) ∈ (k, b) :: m.ents
    rw [hh]; exact List.mem_cons_of_mem _ (List.mem_cons_self ..)
  | missFull kl b front he hf hk =>
    show (k0, b0) ∈ (k, b) :: front
    have hlen : 2 ≤ m.ents.length := by simpa [MTF.cap, hf] using hc
    cases front with
    | nil => rw [he] at hlen; simp at hlen
    | cons f front' =>
      have : f = (k0, b0) := by
        have := he.symm.trans hh
        simp at this; exact this.1
      rw [this]; exact List.mem_cons_of_mem _ (List.mem_cons_self ..)

theorem nodup_fst_inj {α β : Type} {l : List (α × β)} (h : (l.map Prod.fst).Nodup)
    {a : α} {b1 b2 : β} (h1 : (a, b1) ∈ l) (h2 : (a, b2) ∈ l) : b1 = b2 := by
  induction l with
  | nil => cases h1
  | cons e l ih =>
    simp only [List.map_cons, List.nodup_cons] at h
    rcases List.mem_cons.mp h1 with r1 | r1 <;> rcases List.mem_cons.mp h2 with r2 | r2
    · rw [← r1] at r2; exact (Prod.mk.inj r2).2.symm
    · exfalso; apply h.1; rw [← r1]; exact List.mem_map.mpr ⟨_, r2, rfl⟩
    · exfalso; apply h.1; rw [← r2]; exact List.mem_map.mpr ⟨_, r1, rfl⟩
    · exact ih h.2 r1 r2

theorem nodup_snd_inj {α β : Type} {l : List (α × β)} (h : (l.map Prod.snd).Nodup)
    {a1 a2 : α} {b : β} (h1 : (a1, b) ∈ l) (h2 : (a2, b) ∈ l) : a1 = a2 := by
  induction l with
  | nil => cases h1
  | cons e l ih =>
    simp only [List.map_cons, List.nodup_cons] at h
    rcases List.mem_cons.mp h1 with r1 | r1 <;> rcases List.mem_cons.mp h2 with r2 | r2
    · rw [← r1] at r2; exact (Prod.mk.inj r2).1.symm
    · exfalso; apply h.1; rw [← r1]; exact List.mem_map.mpr ⟨_, r2, rfl⟩
    · exfalso; apply h.1; rw [← r2]; exact List.mem_map.mpr ⟨_, r1, rfl⟩
    · exact ih h.2 r1 r2

theorem WF.buf_of_key {m : MTF Key Buf} (h : WF m) {k : Key} {b1 b2 : Buf}
    (h1 : (k, b1) ∈ m.ents) (h2 : (k, b2) ∈ m.ents) : b1 = b2 := nodup_fst_inj h.keysNodup h1 h2

theorem WF.key_of_buf {m : MTF Key Buf} (h : WF m) {k1 k2 : Key} {b : Buf}
    (h1 : (k1, b) ∈ m.ents) (h2 : (k2, b) ∈ m.ents) : k1 = k2 :=
  nodup_snd_inj (List.nodup_append.mp h.bufsNodup).1 h1 h2

end Gama.MTF
