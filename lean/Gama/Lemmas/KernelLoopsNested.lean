/-
  Nested stores and overwritten buffers (round 10), for the matrix-valued regenerated kernels:
  `tabulate_add`, `chunks_flat` (rows of `m` cells appended one after the other ARE one flat `tabulate (n*m)` with
  `/` and `%`), `forE_fill2` (store loop whose state is only (buffer, pointer)), `forE_chunks`/`forE_chunks2`
  (an outer loop around a store loop), `forE_over` (sequential stores over a LIVE buffer: `MatVecBase::mul/add/sub`).
-/
import Gama.Lemmas.KernelLoops
namespace Gama.MatVec
variable {K : Type}


theorem tabulate_congr (n : Nat) (f g : Nat → Except Err K) (h : ∀ p, p < n → f p = g p) :
    tabulate n f = tabulate n g := by
  induction n with
  | zero => rfl
  | succ n ih =>
    simp only [tabulate, ih (fun p hp => h p (by omega)), h n (by omega)]

theorem tabulate_add (p q : Nat) (G : Nat → Except Err K) :
    tabulate (p + q) G = tabulate p G >>= fun a => tabulate q (fun j => G (p + j)) >>= fun c => pure (a ++ c) := by
  induction q with
  | zero =>
    simp only [Nat.add_zero, tabulate]
    cases tabulate p G <;> simp [bind, Except.bind, pure, Except.pure]
  | succ q ih =>
    rw [← Nat.add_assoc]
    simp only [tabulate, ih]
    cases tabulate p G with
    | error e => rfl
    | ok a =>
      simp only [bind, Except.bind, pure, Except.pure]
      cases tabulate q (fun j => G (p + j)) with
      | error e => rfl
      | ok c =>
        simp only []
        cases G (p + q) with
        | error e => rfl
        | ok x => simp [Array.push_append] 

/-- `n` chunks of `m` cells, row by row, are ONE flat `tabulate (n*m)` with `/` and `%` -/
def chunks (m : Nat) (F : Nat → Nat → Except Err K) : Nat → Except Err (Array K)
  | 0 => .ok #[]
  | n+1 => chunks m F n >>= fun a => tabulate m (F n) >>= fun c => pure (a ++ c)

theorem chunks_flat (m : Nat) (F : Nat → Nat → Except Err K) (n : Nat) :
    chunks m F n = tabulate (n * m) (fun p => F (p / m) (p % m)) := by
  induction n with
  | zero => simp [chunks, tabulate]
  | succ n ih =>
    rw [chunks, ih, Nat.succ_mul, tabulate_add]
    congr 1
    funext a
    congr 1
    apply tabulate_congr
    intro j hj
    have := div_mod_idx (i := n) (j := j) (c := m) hj
    rw [this.1, this.2]


theorem chunks_size (m : Nat) (F : Nat → Nat → Except Err K) (n : Nat) (a : Array K)
    (h : chunks m F n = .ok a) : a.size = n * m := by
  induction n generalizing a with
  | zero => simp [chunks] at h; subst h; simp
  | succ n ih =>
    simp only [chunks] at h
    cases h1 : chunks m F n with
    | error e => simp [h1, bind, Except.bind] at h
    | ok a1 =>
      cases h2 : tabulate m (F n) with
      | error e => simp [h1, h2, bind, Except.bind] at h
      | ok c =>
        simp [h1, h2, bind, Except.bind, pure, Except.pure] at h
        subst h
        simp [ih a1 h1, tabulate_size _ _ _ h2, Nat.succ_mul]

/-- stores into a fresh buffer, state = (buffer, store pointer) only -/
theorem forE_fill2 [Zero K] (lo r n : Nat) (hn : n ≤ r) (done : Array K) (g : Nat → Except Err K) :
    forE lo n (done ++ Array.replicate r (0 : K), done.size)
        (fun i st => g i >>= fun x => wr st.1 st.2 x >>= fun t' => pure (t', st.2 + 1))
      = (tabulate n (fun k => g (lo + k))) >>= fun a =>
          pure (done ++ a ++ Array.replicate (r - n) (0 : K), done.size + n) := by
  have := forE_fill (K := K) lo r n hn done () (fun i _ => g i) (fun _ u => u)
  -- transport along (t, c, ()) ↔ (t, c)
  have key : ∀ (n : Nat) (t : Array K) (c : Nat),
      forE lo n (t, c) (fun i st => g i >>= fun x => wr st.1 st.2 x >>= fun t' => pure (t', st.2 + 1))
        = (forE lo n (t, c, ()) (fun i st => (fun i (_ : Unit) => g i) i st.2.2 >>= fun x => wr st.1 st.2.1 x >>= fun t' =>
            pure (t', st.2.1 + 1, (fun _ (u : Unit) => u) i st.2.2))) >>= fun s => pure (s.1, s.2.1) := by
    intro n t c
    induction n with
    | zero => rfl
    | succ n ih =>
      simp only [forE, ih]
      cases forE lo n (t, c, ()) _ with
      | error e => rfl
      | ok s =>
        simp only [bind, Except.bind, pure, Except.pure]
        cases g (lo + n) with
        | error e => rfl
        | ok x =>
          simp only []
          cases wr s.1 s.2.1 x <;> rfl
  rw [key, this]
  cases tabulate n (fun k => g (lo + k)) <;> rfl

/-- outer loop around a loop of sequential stores: pass `i` appends the chunk `tabulate m (f i u)` -/
theorem forE_chunks [Zero K] {υ : Type} (lo m : Nat) (body : Nat → Array K × Nat × υ → Except Err (Array K × Nat × υ))
    (f : Nat → υ → Nat → Except Err K) (h : Nat → υ → υ)
    (hb : ∀ i (done : Array K) r u, m ≤ r → body i (done ++ Array.replicate r (0 : K), done.size, u)
        = tabulate m (f i u) >>= fun a => pure (done ++ a ++ Array.replicate (r - m) (0 : K), done.size + m, h i u))
    (n r : Nat) (hn : n * m ≤ r) (u0 : υ) :
    forE lo n (Array.replicate r (0 : K), 0, u0) body
      = chunks m (fun k => f (lo + k) (walk h lo k u0)) n >>= fun a =>
          pure (a ++ Array.replicate (r - n * m) (0 : K), n * m, walk h lo n u0) := by
  induction n with
  | zero => simp [forE, chunks, walk, bind, Except.bind, pure, Except.pure]
  | succ n ih =>
    have hn' : n * m ≤ r := by rw [Nat.succ_mul] at hn; omega
    simp only [forE, ih hn', chunks, walk]
    cases hc : chunks m (fun k => f (lo + k) (walk h lo k u0)) n with
    | error e => rfl
    | ok a =>
      have hs := chunks_size _ _ _ _ hc
      simp only [bind, Except.bind, pure, Except.pure]
      have := hb (lo + n) a (r - n * m) (walk h lo n u0) (by rw [Nat.succ_mul] at hn; omega)
      rw [hs] at this
      rw [this]
      cases tabulate m (f (lo + n) (walk h lo n u0)) with
      | error e => rfl
      | ok c =>
        simp only [bind, Except.bind, pure, Except.pure, Nat.succ_mul]
        rw [Nat.sub_sub]

/-- outer loop around a store loop, state = (buffer, store pointer) only (`trans(TransMat)`) -/
theorem forE_chunks2 [Zero K] (lo m : Nat) (body : Nat → Array K × Nat → Except Err (Array K × Nat))
    (f : Nat → Nat → Except Err K)
    (hb : ∀ i (done : Array K) r, m ≤ r → body i (done ++ Array.replicate r (0 : K), done.size)
        = tabulate m (f i) >>= fun a => pure (done ++ a ++ Array.replicate (r - m) (0 : K), done.size + m))
    (n r : Nat) (hn : n * m ≤ r) :
    forE lo n (Array.replicate r (0 : K), 0) body
      = chunks m (fun k => f (lo + k)) n >>= fun a => pure (a ++ Array.replicate (r - n * m) (0 : K), n * m) := by
  induction n with
  | zero => simp [forE, chunks, bind, Except.bind, pure, Except.pure]
  | succ n ih =>
    have hn' : n * m ≤ r := by rw [Nat.succ_mul] at hn; omega
    simp only [forE, ih hn', chunks]
    cases hc : chunks m (fun k => f (lo + k)) n with
    | error e => rfl
    | ok a =>
      have hs := chunks_size _ _ _ _ hc
      simp only [bind, Except.bind, pure, Except.pure]
      have := hb (lo + n) a (r - n * m) (by rw [Nat.succ_mul] at hn; omega)
      rw [hs] at this
      rw [this]
      cases tabulate m (f (lo + n)) with
      | error e => rfl
      | ok c =>
        simp only [bind, Except.bind, pure, Except.pure, Nat.succ_mul]
        rw [Nat.sub_sub]

theorem set_live (pre a rest : Array K) (k : Nat) (hk : k < rest.size) (x : K) :
    (pre ++ a ++ rest.extract k rest.size).setIfInBounds (pre.size + a.size) x
      = pre ++ a.push x ++ rest.extract (k + 1) rest.size := by
  apply Array.ext'
  have : rest.toList.drop k = rest[k] :: rest.toList.drop (k + 1) := by
    rw [List.drop_eq_getElem_cons (by simpa using hk)]; simp
  have e : rest.size - k = (rest.size - (k + 1)) + 1 := by omega
  simp [this]
  rw [e, List.take_succ_cons]
  simp

theorem rd_live (pre a rest : Array K) (k : Nat) (hk : k < rest.size) :
    rd (pre ++ a ++ rest.extract k rest.size) (pre.size + a.size) = rd rest k := by
  have h1 : pre.size + a.size < (pre ++ a ++ rest.extract k rest.size).size := by simp; omega
  rw [rd_ok h1, rd_ok hk]
  congr 1
  rw [Array.getElem_append_right (by simp)]
  simp

/-- in-place update `*b++ (op)= f` over the whole live buffer: reads the OLD cell, then overwrites it -/
theorem forE_inplace (F : K → K) (lo n : Nat) (done rest : Array K) (hn : n ≤ rest.size) :
    forE lo n (done ++ rest, done.size)
        (fun _ st => rdMap F st.1 st.2 >>= fun x => wr st.1 st.2 x >>= fun t' => pure (t', st.2 + 1))
      = (tabulate n (fun k => rdMap F rest k)) >>= fun a =>
          pure (done ++ a ++ rest.extract n rest.size, done.size + n) := by
  induction n with
  | zero => simp [forE, tabulate, bind, Except.bind, pure, Except.pure]
  | succ n ih =>
    simp only [forE, ih (by omega), tabulate]
    cases hT : tabulate n (fun k => rdMap F rest k) with
    | error e => rfl
    | ok a =>
      have hsz : a.size = n := tabulate_size _ _ _ hT
      simp only [bind, Except.bind, pure, Except.pure]
      have hr : rdMap F (done ++ a ++ rest.extract n rest.size) (done.size + n) = rdMap F rest n := by
        unfold rdMap; rw [← hsz, rd_live done a rest a.size (by omega)]
      rw [hr]
      cases rdMap F rest n with
      | error e => rfl
      | ok x =>
        have hlt : done.size + n < (done ++ a ++ rest.extract n rest.size).size := by
          simp [hsz]; omega
        simp only [wr, hlt, if_true]
        rw [← hsz, set_live done a rest a.size (by omega) x, hsz]
        rfl

/-- sequential stores `*x++ = g` over a LIVE buffer (content before the store pointer is final, after it untouched) -/
theorem forE_over {υ : Type} (lo n : Nat) (done rest : Array K) (hn : n ≤ rest.size) (u0 : υ)
    (g : Nat → υ → Except Err K) (h : Nat → υ → υ) :
    forE lo n (done ++ rest, done.size, u0)
        (fun i st => g i st.2.2 >>= fun x => wr st.1 st.2.1 x >>= fun t' => pure (t', st.2.1 + 1, h i st.2.2))
      = (tabulate n (fun k => g (lo + k) (walk h lo k u0))) >>= fun a =>
          pure (done ++ a ++ rest.extract n rest.size, done.size + n, walk h lo n u0) := by
  induction n with
  | zero => simp [forE, tabulate, walk, bind, Except.bind, pure, Except.pure]
  | succ n ih =>
    simp only [forE, ih (by omega), tabulate, walk]
    cases hT : tabulate n (fun k => g (lo + k) (walk h lo k u0)) with
    | error e => rfl
    | ok a =>
      simp only [bind, Except.bind, pure, Except.pure]
      cases g (lo + n) (walk h lo n u0) with
      | error e => rfl
      | ok x =>
        have hsz : a.size = n := tabulate_size _ _ _ hT
        have hlt : done.size + n < (done ++ a ++ rest.extract n rest.size).size := by
          simp [hsz]; omega
        simp only [wr, hlt, if_true]
        rw [← hsz, set_live done a rest a.size (by omega) x, hsz]
        rfl

end Gama.MatVec
