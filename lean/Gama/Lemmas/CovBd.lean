/-
  The sparse variant (`BlockDiagonal::cholDec`, one block = `bdCholBlock`, Model/BandChol.lean)
  refines the dense one: same elimination (`elimPtr`), the pivot test is `pivot < tol`, and the
  pivot row is scaled by `sqrt(pivot)`, so that the result is the Cholesky factor `U` itself,
  `Uᵀ U = C`.

  * B1  `bdStep` / `bdStep_spec` / `bdPtrStep_eq` : one iteration on matrix entries, any `[Scalar K]`;
  * B2  `bdCholBlock_reproduces` : over an ordered field with `sq x * sq x = x`, `0 < sq x` (x > 0):
        `C(i,j) = Σ_{r ≤ i} F(r,i) F(r,j)` and `0 < F(i,i)`;
  * B3  `sweep` (column-oriented forward substitution) solves the same lower-triangular system
        as `forwardSubst`, hence agrees with it entrywise.
-/
import Gama.Lemmas.CovChol
import Gama.Lemmas.CovCholPtr
import Gama.Lemmas.CovFwd
namespace Gama.Cov
open Finset Packed CovMat

set_option linter.unusedSectionVars false

/-! ### B1 : one iteration, pure bookkeeping -/

section Step
variable {K : Type} [Scalar K]

/-- one iteration of `BlockDiagonal::cholDec` through `operator()`:
    eliminate with `pivot`, store `s = sqrt(pivot)` on the diagonal, divide the rest of the row by `s` -/
def bdStep (row : Nat) (pivot : K) (a : CovMat K) : CovMat K :=
  let k := min a.band (a.dim - row)
  scaleRow row k (Scalar.sqrt pivot) ((elimRow row k pivot a).setU row row (Scalar.sqrt pivot))

/-- entries after `bdStep row pivot m`, for every in-band upper pair -/
theorem bdStep_spec {m : CovMat K} (hm : m.WF) {row : Nat} (pivot : K) (hrow : 1 ≤ row)
    (hrN : row ≤ m.dim) :
    let k := min m.band (m.dim - row)
    let R := bdStep row pivot m
    Same m R ∧ ∀ i j, InBand m.dim m.band i j →
      R.get i j =
        if i = row ∧ j = row then Scalar.sqrt pivot
        else if i = row ∧ row < j then m.get row j / Scalar.sqrt pivot
        else if row < i ∧ j ≤ row + k then m.get i j - m.get row i / pivot * m.get row j
        else m.get i j := by
  intro k R
  have hk : k ≤ m.band := Nat.min_le_left _ _
  have hkN : row + k ≤ m.dim := by have := Nat.min_le_right m.band (m.dim - row); omega
  have hpp : InBand m.dim m.band row row := ⟨hrow, le_refl _, hrN, by omega⟩
  have e := elimRow_spec hm pivot hrow hk hkN
  have hs' : Same m ((elimRow row k pivot m).setU row row (Scalar.sqrt pivot)) := e.1.setU hpp _
  have s := scaleRow_spec hs' (Scalar.sqrt pivot) hrow hk hkN
  rw [show R = scaleRow row k (Scalar.sqrt pivot)
    ((elimRow row k pivot m).setU row row (Scalar.sqrt pivot)) from rfl]
  refine ⟨s.1, ?_⟩
  intro i j hin
  rw [s.2 i j hin, get_setU e.1 hpp hin, e.2 i j hin]
  by_cases h1 : i = row ∧ j = row
  · rw [if_neg (by omega), if_pos h1, if_pos h1]
  · rw [if_neg h1, if_neg h1]
    by_cases h2 : i = row ∧ row < j
    · have hj : j ≤ row + k := by
        obtain ⟨e1, _⟩ := h2; subst e1
        have := hin.2.2.1; have := hin.2.2.2
        show j ≤ i + min m.band (m.dim - i)
        omega
      rw [if_pos ⟨h2.1, h2.2, hj⟩, if_pos h2, if_neg (by omega), h2.1]
    · have h3 : ¬ (i = row ∧ row < j ∧ j ≤ row + k) := fun e' => h2 ⟨e'.1, e'.2.1⟩
      rw [if_neg h3, if_neg h2]

/-- the pointer version of the iteration is `bdStep` -/
theorem bdPtrStep_eq {m a : CovMat K} (ha : Same m a) {row : Nat} (pivot : K)
    (hrow : 1 ≤ row) (hrN : row ≤ m.dim) :
    scalePtr (min m.band (m.dim - row)) (rowOff m.dim m.band row) (Scalar.sqrt pivot)
        ((elimPtr m.band m.dim row (rowOff m.dim m.band row) pivot a).rawSet
          (rowOff m.dim m.band row) (Scalar.sqrt pivot))
      = bdStep row pivot a := by
  have hk : min m.band (m.dim - row) ≤ m.band := Nat.min_le_left _ _
  have hkN : row + min m.band (m.dim - row) ≤ m.dim := by
    have := Nat.min_le_right m.band (m.dim - row); omega
  have hpp : InBand m.dim m.band row row := ⟨hrow, le_refl _, hrN, by omega⟩
  have hE : Same m (elimRow row (min m.band (m.dim - row)) pivot a) :=
    ha.trans (elimRow_spec ha.1 (row := row) (k := min m.band (m.dim - row)) pivot
      hrow (by rw [ha.2.2]; exact hk) (by rw [ha.2.1]; exact hkN)).1
  have hoff : off m.dim m.band row row = rowOff m.dim m.band row := by unfold off; omega
  rw [elimPtr_eq ha _ hrow hrN, ← hoff, ← hE.setU_raw hpp, hoff,
    scalePtr_eq (hE.setU hpp _) _ hrow hk hkN]
  unfold bdStep
  simp only [ha.2.1, ha.2.2]

/-- one iteration of the outer loop of `bdCholBlock` -/
def bdPtrStep (W N : Nat) (tol : K) (st : CovMat K × Int) (row : Nat) :
    Except (CovMat K) (CovMat K × Int) :=
  let pivot := st.1.raw 0 st.2
  if pivot < tol then (.error st.1 : Except (CovMat K) (CovMat K × Int)) else
  let k := min W (N - row)
  let e := elimPtr W N row st.2 pivot st.1
  let s := Scalar.sqrt pivot
  .ok (scalePtr k st.2 s (e.rawSet st.2 s), st.2 + (k : Int) + 1)

theorem bdCholBlock_unfold (tol : K) (m : CovMat K) :
    bdCholBlock tol m =
      ((List.range' 1 m.dim).foldlM (bdPtrStep m.band m.dim tol) (m, (0 : Int))).map (·.1) := rfl

/-- the pointer step on a state `(a, rowOff row)`, in indexed form -/
theorem bdPtrStep_at {m a : CovMat K} (ha : Same m a) (tol : K) {row : Nat}
    (hrow : 1 ≤ row) (hrN : row ≤ m.dim) :
    bdPtrStep m.band m.dim tol (a, rowOff m.dim m.band row) row =
      if a.get row row < tol then .error a
      else .ok (bdStep row (a.get row row) a, rowOff m.dim m.band (row + 1)) := by
  have hb := ha.band_le
  have hpp : InBand m.dim m.band row row := ⟨hrow, le_refl _, hrN, by omega⟩
  have hpiv : a.raw 0 (rowOff m.dim m.band row) = a.get row row := by
    rw [ha.get_raw hpp]; unfold off; rw [sub_self, add_zero]
  have hnext : rowOff m.dim m.band row + ((min m.band (m.dim - row) : Nat) : Int) + 1
      = rowOff m.dim m.band (row + 1) := by
    rw [rowOff_succ hb hrow hrN]; unfold rowLen; omega
  unfold bdPtrStep
  simp only [hpiv, hnext, bdPtrStep_eq ha _ hrow hrN]

end Step

/-! ### B2 : `Uᵀ U = C` over an ordered field -/

section Field
variable {K : Type} [Field K] [LinearOrder K] [IsStrictOrderedRing K] [SqrtFn K]

attribute [local instance] scalarOfField

/-- entries after one iteration, for EVERY upper pair `1 ≤ i ≤ j ≤ N` -/
theorem bdStep_get {m : CovMat K} (hm : m.WF) {row : Nat} (d : K) (hrow : 1 ≤ row) (hrN : row ≤ m.dim)
    (i j : Nat) (hi : 1 ≤ i) (hij : i ≤ j) (hj : j ≤ m.dim) :
    (bdStep row d m).get i j =
      if i < row then m.get i j
      else if i = row then (if j = row then SqrtFn.sq d else m.get row j / SqrtFn.sq d)
      else m.get i j - m.get row i / d * m.get row j := by
  obtain ⟨hsame, hspec⟩ := bdStep_spec hm d hrow hrN
  by_cases hin : j ≤ i + m.band
  · have hb : InBand m.dim m.band i j := ⟨hi, hij, hj, hin⟩
    rw [hspec i j hb]
    by_cases h1 : i < row
    · rw [if_neg (by omega), if_neg (by omega), if_neg (by omega), if_pos h1]
    · rw [if_neg h1]
      by_cases h2 : i = row
      · subst h2
        rw [if_pos rfl]
        by_cases h3 : j = i
        · subst h3; rw [if_pos ⟨rfl, rfl⟩, if_pos rfl]; rfl
        · rw [if_neg (by omega), if_pos ⟨rfl, by omega⟩, if_neg h3]; rfl
      · rw [if_neg (by omega), if_neg (by omega), if_neg h2]
        by_cases h3 : j ≤ row + min m.band (m.dim - row)
        · rw [if_pos ⟨by omega, h3⟩]
        · rw [if_neg (by omega)]
          have hz : m.get row j = 0 := get_outside m (by omega) (by omega)
          rw [hz]
          show m.get i j = m.get i j - m.get row i / d * 0
          rw [mul_zero, sub_zero]
  · have hz : (bdStep row d m).get i j = 0 :=
      get_outside _ hij (by rw [hsame.2.2]; omega)
    have hz' : m.get i j = 0 := get_outside m hij (by omega)
    rw [hz]
    by_cases h1 : i < row
    · rw [if_pos h1, hz']
    · rw [if_neg h1]
      by_cases h2 : i = row
      · subst h2
        rw [if_pos rfl, if_neg (by omega), hz']
        show (0 : K) = 0 / SqrtFn.sq d
        rw [zero_div]
      · rw [if_neg h2, hz']
        have hz2 : m.get row j = 0 := get_outside m (by omega) (by omega)
        rw [hz2]
        show (0 : K) = 0 - m.get row i / d * 0
        rw [mul_zero, sub_zero]

/-- invariant after `k` rows: rows `≤ k` are final rows of `U` and reproduce `C`;
    rows `> k` hold the Schur complement -/
structure BdInv (C a : CovMat K) (k : Nat) : Prop where
  same : Same C a
  done : ∀ i j, 1 ≤ i → i ≤ k → i ≤ j → j ≤ C.dim →
    C.get i j = ∑ r ∈ Icc 1 i, a.get r i * a.get r j
  rest : ∀ i j, k < i → i ≤ j → j ≤ C.dim →
    C.get i j = (∑ r ∈ Icc 1 k, a.get r i * a.get r j) + a.get i j
  pos  : ∀ i, 1 ≤ i → i ≤ k → 0 < a.get i i

theorem bdInv_init {C : CovMat K} (h : C.WF) : BdInv C C 0 := by
  refine ⟨Same.refl h, ?_, ?_, ?_⟩
  · intro i j h1 h2; omega
  · intro i j _ _ _; simp
  · intro i h1 h2; omega

theorem bdInv_step (hsq : ∀ x : K, 0 < x → SqrtFn.sq x * SqrtFn.sq x = x ∧ 0 < SqrtFn.sq x)
    {C a : CovMat K} {k : Nat} (inv : BdInv C a k) (hk : k < C.dim)
    (hp : 0 < a.get (k + 1) (k + 1)) :
    BdInv C (bdStep (k + 1) (a.get (k + 1) (k + 1)) a) (k + 1) := by
  obtain ⟨⟨hw, hd, hb⟩, hdone, hrest, hpos⟩ := inv
  set d := a.get (k + 1) (k + 1) with hdef
  obtain ⟨hss, hs0⟩ := hsq d hp
  set s := SqrtFn.sq d with hsdef
  have hd0 : d ≠ 0 := ne_of_gt hp
  have hsne : s ≠ 0 := ne_of_gt hs0
  have hk1 : k + 1 ≤ C.dim := by omega
  have hget : ∀ i j, 1 ≤ i → i ≤ j → j ≤ C.dim →
      (bdStep (k + 1) d a).get i j =
        if i < k + 1 then a.get i j
        else if i = k + 1 then (if j = k + 1 then s else a.get (k + 1) j / s)
        else a.get i j - a.get (k + 1) i / d * a.get (k + 1) j := by
    intro i j h1 h2 h3
    exact bdStep_get hw d (row := k + 1) (by omega) (by rw [hd]; omega) i j h1 h2 (by rw [hd]; exact h3)
  obtain ⟨hsame', _⟩ := bdStep_spec hw d (by omega : 1 ≤ k + 1) (by rw [hd]; omega : k + 1 ≤ a.dim)
  have hsame : Same C (bdStep (k + 1) d a) :=
    ⟨hsame'.1, by rw [hsame'.2.1]; exact hd, by rw [hsame'.2.2]; exact hb⟩
  have hup : ∀ r x, 1 ≤ r → r ≤ k → r ≤ x → x ≤ C.dim → (bdStep (k + 1) d a).get r x = a.get r x := by
    intro r x h1 h2 h3 h4
    rw [hget r x h1 h3 h4, if_pos (by omega)]
  have hn : ¬ (k + 1 < k + 1) := by omega
  refine ⟨hsame, ?_, ?_, ?_⟩
  · intro i j h1 h2 h3 h4
    by_cases hik : i ≤ k
    · rw [hdone i j h1 hik h3 h4]
      apply Finset.sum_congr rfl
      intro r hr
      rw [Finset.mem_Icc] at hr
      rw [hup r i hr.1 (by omega) hr.2 (by omega), hup r j hr.1 (by omega) (by omega) h4]
    · have hi : i = k + 1 := by omega
      subst hi
      rw [hrest (k + 1) j (by omega) h3 h4, Finset.sum_Icc_succ_top (by omega)]
      congr 1
      · apply Finset.sum_congr rfl
        intro r hr
        rw [Finset.mem_Icc] at hr
        rw [hup r (k + 1) hr.1 (by omega) (by omega) (by omega), hup r j hr.1 (by omega) (by omega) h4]
      · rw [hget (k + 1) (k + 1) (by omega) (le_refl _) hk1, hget (k + 1) j (by omega) h3 h4]
        by_cases hj : j = k + 1
        · subst hj
          simp only [hn, if_false, if_true]
          rw [hss]
        · simp only [hn, hj, if_false, if_true]
          field_simp
  · intro i j h1 h2 h3
    rw [hrest i j (by omega) h2 h3, Finset.sum_Icc_succ_top (by omega)]
    have e1 : ∑ r ∈ Icc 1 k, (bdStep (k + 1) d a).get r i * (bdStep (k + 1) d a).get r j
        = ∑ r ∈ Icc 1 k, a.get r i * a.get r j := by
      apply Finset.sum_congr rfl
      intro r hr
      rw [Finset.mem_Icc] at hr
      rw [hup r i hr.1 (by omega) (by omega) (by omega), hup r j hr.1 (by omega) (by omega) h3]
    rw [e1, hget (k + 1) i (by omega) (by omega) (by omega),
      hget (k + 1) j (by omega) (by omega) h3, hget i j (by omega) h2 h3]
    have hi1 : ¬ (i = k + 1) := by omega
    have hi2 : ¬ (i < k + 1) := by omega
    have hj1 : ¬ (j = k + 1) := by omega
    simp only [hn, hi1, hi2, hj1, if_false, if_true]
    rw [← hss]
    field_simp
    ring
  · intro i h1 h2
    by_cases hik : i ≤ k
    · rw [hup i i h1 hik (le_refl _) (by omega)]; exact hpos i h1 hik
    · have hi : i = k + 1 := by omega
      subst hi
      rw [hget (k + 1) (k + 1) (by omega) (le_refl _) hk1, if_neg (by omega), if_pos rfl, if_pos rfl]
      exact hs0

/-- the row loop of `bdCholBlock` -/
theorem bdRows_spec (hsq : ∀ x : K, 0 < x → SqrtFn.sq x * SqrtFn.sq x = x ∧ 0 < SqrtFn.sq x)
    {C : CovMat K} (tol : K) (htol : 0 < tol) :
    ∀ (cnt k : Nat) (a : CovMat K) (st : CovMat K × Int), k + cnt = C.dim → BdInv C a k →
      (List.range' (k + 1) cnt).foldlM (bdPtrStep C.band C.dim tol)
          (a, rowOff C.dim C.band (k + 1)) = .ok st →
      BdInv C st.1 C.dim := by
  intro cnt
  induction cnt with
  | zero =>
    intro k a st hk inv h
    have e : st = (a, rowOff C.dim C.band (k + 1)) := by
      have h' : (Except.ok (a, rowOff C.dim C.band (k + 1)) : Except (CovMat K) (CovMat K × Int))
          = .ok st := h
      cases h'; rfl
    have : k = C.dim := by omega
    subst this
    rw [e]; exact inv
  | succ cnt ih =>
    intro k a st hk inv h
    rw [List.range'_succ, List.foldlM_cons,
      bdPtrStep_at inv.same tol (by omega) (by omega)] at h
    by_cases hc : a.get (k + 1) (k + 1) < tol
    · rw [if_pos hc] at h
      exact absurd h (by intro h'; cases h')
    · rw [if_neg hc] at h
      have hp : 0 < a.get (k + 1) (k + 1) := lt_of_lt_of_le htol (not_lt.mp hc)
      exact ih (k + 1) _ st (by omega) (bdInv_step hsq inv (by omega) hp) h

/-- **`BlockDiagonal::cholDec` on one block computes the Cholesky factor.**  If the block is not
    rejected (`tol > 0`), the result `F` has the shape of `C`, a positive diagonal, and
    `C(i,j) = Σ_{r ≤ i} F(r,i) F(r,j)` for all `1 ≤ i ≤ j ≤ N` (`Uᵀ U = C`, no fill). -/
theorem bdCholBlock_reproduces
    (hsq : ∀ x : K, 0 < x → SqrtFn.sq x * SqrtFn.sq x = x ∧ 0 < SqrtFn.sq x)
    {C F : CovMat K} (hC : C.WF) (tol : K) (htol : 0 < tol) (h : bdCholBlock tol C = .ok F) :
    F.WF ∧ F.dim = C.dim ∧ F.band = C.band ∧
    (∀ i, 1 ≤ i → i ≤ C.dim → 0 < F.get i i) ∧
    (∀ i j, 1 ≤ i → i ≤ j → j ≤ C.dim → C.get i j = ∑ r ∈ Icc 1 i, F.get r i * F.get r j) ∧
    (∀ i j, i ≤ j → j > i + C.band → F.get i j = 0) := by
  rw [bdCholBlock_unfold] at h
  by_cases hd : C.dim = 0
  · -- empty block: nothing to do
    rw [hd] at h
    have e : F = C := by
      have h' : (Except.ok C : Except (CovMat K) (CovMat K)) = .ok F := h
      cases h'; rfl
    subst e
    refine ⟨hC, rfl, rfl, ?_, ?_, ?_⟩
    · intro i h1 h2; omega
    · intro i j h1 h2 h3; omega
    · intro i j h1 h2; exact get_outside F h1 h2
  · have hd1 : 1 ≤ C.dim := by omega
    cases hfold : (List.range' 1 C.dim).foldlM (bdPtrStep C.band C.dim tol) (C, (0 : Int)) with
    | error e => rw [hfold] at h; exact absurd h (by intro h'; cases h')
    | ok st =>
      rw [hfold] at h
      have e : st.1 = F := by
        have h' : (Except.ok st.1 : Except (CovMat K) (CovMat K)) = .ok F := h
        cases h'; rfl
      have h0 : rowOff C.dim C.band (0 + 1) = 0 := rowOff_one C.dim C.band hd1 hC.band_le
      have inv := bdRows_spec hsq tol htol C.dim 0 C st (by omega) (bdInv_init hC)
        (by rw [h0]; exact hfold)
      rw [e] at inv
      obtain ⟨⟨hw, hdm, hb⟩, hdone, _, hpos⟩ := inv
      refine ⟨hw, hdm, hb, fun i h1 h2 => hpos i h1 h2,
        fun i j h1 h2 h3 => hdone i j h1 (by omega) h2 h3, ?_⟩
      intro i j h1 h2
      exact get_outside F h1 (by rw [hb]; exact h2)

end Field

/-! ### B3 : the column-oriented forward substitution `sweep` -/

theorem foldl_append_singleton {α β : Type} (g : α → β) (l : List α) (init : List β) :
    l.foldl (fun acc i => acc ++ [g i]) init = init ++ l.map g := by
  induction l generalizing init with
  | nil => simp
  | cons x xs ih => rw [List.foldl_cons, ih, List.map_cons, List.append_assoc]; rfl

/-- `UpperBlockDiagonal`'s row pointers are the packed row starts and row lengths -/
theorem upperRows_eq {d b : Nat} (hb : b ≤ d) :
    upperRows d b = (List.range' 1 d).map (fun i => (rowOff d b i, rowLen d b i)) := by
  rcases Nat.eq_zero_or_pos d with h0 | hd
  · subst h0; rfl
  have e : upperRows d b =
      ((List.range' 1 d).foldl
        (fun (st : List (Int × Nat) × Int) (i : Nat) =>
          ((fun (l : List (Int × Nat)) (p : Int) (i : Nat) =>
              l ++ [(p, if i + (b + 1) > d then d - i + 1 else b + 1)]) st.1 st.2 i,
            (fun (p : Int) (i : Nat) =>
              p + ((if i + (b + 1) > d then d - i + 1 else b + 1 : Nat) : Int)) st.2 i))
        (([] : List (Int × Nat)), rowOff d b 1)).1 := by
    rw [rowOff_one d b hd hb]; rfl
  rw [e, foldl_pair_range'
    (fun (l : List (Int × Nat)) (p : Int) (i : Nat) =>
      l ++ [(p, if i + (b + 1) > d then d - i + 1 else b + 1)])
    (fun (p : Int) (i : Nat) => p + ((if i + (b + 1) > d then d - i + 1 else b + 1 : Nat) : Int))
    (rowOff d b) d 1 []
    (by
      intro n h1 h2
      rw [rowOff_succ hb h1 (by omega)]
      unfold rowLen
      split_ifs <;> omega)]
  show (List.range' 1 d).foldl (fun l i => l ++ [(rowOff d b i, if i + (b + 1) > d then d - i + 1 else b + 1)]) [] = _
  rw [foldl_append_singleton (fun i => (rowOff d b i, if i + (b + 1) > d then d - i + 1 else b + 1)),
    List.nil_append]
  apply List.map_congr_left
  intro i hi
  rw [List.mem_range'_1] at hi
  unfold rowLen
  congr 1
  split_ifs <;> omega

section SweepGen
variable {K : Type} [Field K]

/-- one column of the column-oriented substitution with coefficients `g`, `kf i` sub-diagonal entries -/
def colStepG (g : Nat → Nat → K) (kf : Nat → Nat) (w : Array K) (i : Nat) : Array K :=
  (List.range' 1 (kf i)).foldl
    (fun u t => u.setIfInBounds (i - 1 + t)
      (u.getD (i - 1 + t) 0 - g i (i + t) * (w.getD (i - 1) 0 / g i i)))
    (w.setIfInBounds (i - 1) (w.getD (i - 1) 0 / g i i))

def sweepGen (g : Nat → Nat → K) (kf : Nat → Nat) (d : Nat) (v : Array K) : Array K :=
  (List.range' 1 d).foldl (colStepG g kf) v

theorem sweepGen_succ (g : Nat → Nat → K) (kf : Nat → Nat) (n : Nat) (v : Array K) :
    sweepGen g kf (n + 1) v = colStepG g kf (sweepGen g kf n v) (n + 1) := by
  unfold sweepGen
  rw [List.range'_1_concat, List.foldl_append, List.foldl_cons, List.foldl_nil, Nat.add_comm 1 n]

/-- `for t = 1..n: u[p0+t] -= c t * x` -/
theorem colInner (c : Nat → K) (x : K) (p0 : Nat) (u0 : Array K) :
    ∀ n, p0 + n < u0.size →
      ((List.range' 1 n).foldl
          (fun u t => u.setIfInBounds (p0 + t) (u.getD (p0 + t) 0 - c t * x)) u0).size = u0.size ∧
      ∀ p, ((List.range' 1 n).foldl
          (fun u t => u.setIfInBounds (p0 + t) (u.getD (p0 + t) 0 - c t * x)) u0).getD p 0 =
        if p0 < p ∧ p ≤ p0 + n then u0.getD p 0 - c (p - p0) * x else u0.getD p 0 := by
  intro n
  induction n with
  | zero =>
    intro _
    refine ⟨rfl, fun p => ?_⟩
    rw [if_neg (by omega)]; rfl
  | succ n ih =>
    intro hn
    obtain ⟨hsz, hg⟩ := ih (by omega)
    rw [List.range'_1_concat, List.foldl_append, List.foldl_cons, List.foldl_nil]
    generalize (List.range' 1 n).foldl
      (fun u t => u.setIfInBounds (p0 + t) (u.getD (p0 + t) 0 - c t * x)) u0 = R at hsz hg
    refine ⟨by rw [Array.size_setIfInBounds]; exact hsz, fun p => ?_⟩
    rw [getD_setIfInBounds]
    by_cases e : p = p0 + (1 + n)
    · rw [if_pos ⟨e, by omega⟩, if_pos (by omega), hg, if_neg (by omega), e]
      congr 3
      omega
    · rw [if_neg (fun h => e h.1), hg]
      by_cases h1 : p0 < p ∧ p ≤ p0 + n
      · rw [if_pos h1, if_pos (by omega)]
      · rw [if_neg h1, if_neg (by omega)]

/-- effect of one column (0-based positions) -/
theorem colStepG_spec (g : Nat → Nat → K) (kf : Nat → Nat) (w : Array K) (i : Nat)
    (hi : 1 ≤ i) (hsz : i + kf i ≤ w.size) :
    (colStepG g kf w i).size = w.size ∧
    ∀ p, (colStepG g kf w i).getD p 0 =
      if p = i - 1 then w.getD (i - 1) 0 / g i i
      else if i ≤ p ∧ p ≤ i - 1 + kf i then w.getD p 0 - g i (p + 1) * (w.getD (i - 1) 0 / g i i)
      else w.getD p 0 := by
  unfold colStepG
  have h := colInner (fun t => g i (i + t)) (w.getD (i - 1) 0 / g i i) (i - 1)
    (w.setIfInBounds (i - 1) (w.getD (i - 1) 0 / g i i)) (kf i)
    (by rw [Array.size_setIfInBounds]; omega)
  obtain ⟨h1, h2⟩ := h
  refine ⟨by rw [h1, Array.size_setIfInBounds], fun p => ?_⟩
  have hu : (w.setIfInBounds (i - 1) (w.getD (i - 1) 0 / g i i)).getD p 0 =
      if p = i - 1 ∧ i - 1 < w.size then w.getD (i - 1) 0 / g i i else w.getD p 0 :=
    getD_setIfInBounds _ _ _ _ _
  rw [h2 p, hu]
  by_cases e : p = i - 1
  · rw [if_neg (by omega), if_pos ⟨e, by omega⟩, if_pos e]
  · by_cases h3 : i ≤ p ∧ p ≤ i - 1 + kf i
    · have : i + (p - (i - 1)) = p + 1 := by omega
      rw [if_pos (by omega), if_neg (fun h => e h.1), if_neg e, if_pos h3, this]
    · rw [if_neg (by omega), if_neg (fun h => e h.1), if_neg e, if_neg h3]

/-- invariant after `c` columns -/
theorem sweepGen_inv (g : Nat → Nat → K) (b d : Nat) (v : Array K)
    (hg0 : ∀ i q, i + b < q → g i q = 0)
    (hd : ∀ i, 1 ≤ i → i ≤ d → g i i ≠ 0) (hv : v.size = d) :
    ∀ c, c ≤ d →
      (sweepGen g (fun i => min b (d - i)) c v).size = v.size ∧
      (∀ q, c < q → q ≤ d →
        (sweepGen g (fun i => min b (d - i)) c v).getD (q - 1) 0 =
          v.getD (q - 1) 0 - ∑ j ∈ Icc 1 c, g j q * (sweepGen g (fun i => min b (d - i)) c v).getD (j - 1) 0) ∧
      (∀ q, 1 ≤ q → q ≤ c →
        ∑ j ∈ Icc 1 q, g j q * (sweepGen g (fun i => min b (d - i)) c v).getD (j - 1) 0 = v.getD (q - 1) 0) := by
  intro c
  induction c with
  | zero =>
    intro _
    refine ⟨rfl, ?_, ?_⟩
    · intro q _ _
      simp [sweepGen]
    · intro q h1 h2; omega
  | succ c ih =>
    intro hc
    obtain ⟨hsz, hrest, hdone⟩ := ih (by omega)
    rw [sweepGen_succ]
    generalize sweepGen g (fun i => min b (d - i)) c v = w at hsz hrest hdone
    obtain ⟨hsz', hget⟩ := colStepG_spec g (fun i => min b (d - i)) w (c + 1) (by omega)
      (by rw [hsz, hv]; show c + 1 + min b (d - (c + 1)) ≤ d; omega)
    have hgd := hd (c + 1) (by omega) hc
    -- 1-based reading of the new array
    have hlow : ∀ j, 1 ≤ j → j ≤ c →
        (colStepG g (fun i => min b (d - i)) w (c + 1)).getD (j - 1) 0 = w.getD (j - 1) 0 := by
      intro j h1 h2
      rw [hget, if_neg (by omega), if_neg (by omega)]
    have hpiv : (colStepG g (fun i => min b (d - i)) w (c + 1)).getD (c + 1 - 1) 0
        = w.getD (c + 1 - 1) 0 / g (c + 1) (c + 1) := by
      rw [hget, if_pos rfl]
    have hhigh : ∀ q, c + 1 < q → q ≤ d →
        (colStepG g (fun i => min b (d - i)) w (c + 1)).getD (q - 1) 0
          = w.getD (q - 1) 0 - g (c + 1) q * (w.getD (c + 1 - 1) 0 / g (c + 1) (c + 1)) := by
      intro q h1 h2
      rw [hget, if_neg (by omega)]
      by_cases hin : q - 1 ≤ c + 1 - 1 + min b (d - (c + 1))
      · rw [if_pos ⟨by omega, hin⟩, show q - 1 + 1 = q by omega]
      · rw [if_neg (fun h => hin h.2), hg0 (c + 1) q (by omega), zero_mul, sub_zero]
    have hsum : ∀ q, ∑ j ∈ Icc 1 c, g j q * (colStepG g (fun i => min b (d - i)) w (c + 1)).getD (j - 1) 0
        = ∑ j ∈ Icc 1 c, g j q * w.getD (j - 1) 0 := by
      intro q
      refine Finset.sum_congr rfl fun j hj => ?_
      rw [Finset.mem_Icc] at hj
      rw [hlow j hj.1 hj.2]
    refine ⟨hsz'.trans hsz, ?_, ?_⟩
    · intro q h1 h2
      rw [Finset.sum_Icc_succ_top (by omega), hsum, hpiv, hhigh q h1 h2, hrest q (by omega) h2]
      ring
    · intro q h1 h2
      by_cases hq : q ≤ c
      · rw [← hdone q h1 hq]
        refine Finset.sum_congr rfl fun j hj => ?_
        rw [Finset.mem_Icc] at hj
        rw [hlow j hj.1 (by omega)]
      · have e : q = c + 1 := by omega
        subst e
        rw [Finset.sum_Icc_succ_top (by omega), hsum, hpiv, mul_div_cancel₀ _ hgd,
          hrest (c + 1) (by omega) hc]
        ring

theorem sweepGen_spec (g : Nat → Nat → K) (b d : Nat) (v : Array K)
    (hg0 : ∀ i q, i + b < q → g i q = 0)
    (hd : ∀ i, 1 ≤ i → i ≤ d → g i i ≠ 0) (hv : v.size = d) :
    (sweepGen g (fun i => min b (d - i)) d v).size = v.size ∧
    ∀ q, 1 ≤ q → q ≤ d →
      ∑ j ∈ Icc 1 q, g j q * (sweepGen g (fun i => min b (d - i)) d v).getD (j - 1) 0 = v.getD (q - 1) 0 :=
  let h := sweepGen_inv g b d v hg0 hd hv d (le_refl _)
  ⟨h.1, h.2.2⟩

end SweepGen

/-! ### `sweep` is `sweepGen` with `g = F(·,·)` -/

/-- body of the loop of `sweep` (`cnt` = row counter, `r` = (row start, row length)) -/
def sweepBody {K : Type} [Scalar K] (f : CovMat K) (w : Array K) (cnt : Nat) (r : Int × Nat) : Array K :=
  (List.range' 1 (r.2 - 1)).foldl
    (fun (u : Array K) (t : Nat) =>
      u.setIfInBounds (cnt - 1 + t)
        (u.getD (cnt - 1 + t) 0 - f.raw 0 (r.1 + (t : Int)) * (w.getD (cnt - 1) 0 / f.raw 0 r.1)))
    (w.setIfInBounds (cnt - 1) (w.getD (cnt - 1) 0 / f.raw 0 r.1))

theorem sweep_unfold {K : Type} [Scalar K] (f : CovMat K) (v : Array K) :
    sweep f v =
      ((upperRows f.dim f.band).foldl
        (fun (st : Array K × Nat) r => (sweepBody f st.1 st.2 r, st.2 + 1)) (v, 1)).1 := rfl

section SweepAdj
variable {K : Type} [Field K] [LinearOrder K]

theorem sweep_eq_sweepGen (sqrt : K → K) (F : CovMat K) (hF : F.WF) (v : Array K) :
    letI := fieldScalar K sqrt
    sweep F v = sweepGen (fun i j => F.get i j) (fun i => min F.band (F.dim - i)) F.dim v := by
  let _ : Scalar K := fieldScalar K sqrt
  rw [sweep_unfold, upperRows_eq hF.band_le, List.foldl_map]
  have h := foldl_pair_range'
    (fun (w : Array K) (p : Nat) (i : Nat) =>
      sweepBody F w p (rowOff F.dim F.band i, rowLen F.dim F.band i))
    (fun (p : Nat) (_ : Nat) => p + 1) (fun i => i) F.dim 1 v (by intros; rfl)
  refine (congrArg Prod.fst h).trans ?_
  unfold sweepGen
  refine (foldl_congr_inv _ _ (fun _ => True) _ ?_ v trivial).1
  intro w i hi _
  rw [List.mem_range'_1] at hi
  refine ⟨?_, trivial⟩
  have hb := hF.band_le
  have hdiag : F.raw 0 (rowOff F.dim F.band i) = F.get i i := by
    rw [(Same.refl hF).get_raw ⟨hi.1, le_refl _, by omega, by omega⟩]
    unfold off; rw [sub_self, add_zero]
  have hlen : rowLen F.dim F.band i - 1 = min F.band (F.dim - i) := by unfold rowLen; omega
  show sweepBody F w i (rowOff F.dim F.band i, rowLen F.dim F.band i) = colStepG _ _ w i
  unfold sweepBody colStepG
  dsimp only
  rw [hdiag, hlen]
  refine (foldl_congr_inv _ _ (fun _ => True) _ ?_ _ trivial).1
  intro u t ht _
  rw [List.mem_range'_1] at ht
  refine ⟨?_, trivial⟩
  have hoff : F.raw 0 (rowOff F.dim F.band i + (t : Int)) = F.get i (i + t) := by
    rw [(Same.refl hF).get_raw ⟨hi.1, by omega, by omega, by omega⟩, off_row]
  show u.setIfInBounds _ (_ - F.raw 0 (rowOff F.dim F.band i + (t : Int)) * _) = _
  rw [hoff]

/-- **`sweep` solves the same lower-triangular system as `forwardSubst`** -/
theorem sweep_spec (sqrt : K → K) (F : CovMat K) (hF : F.WF) (v : Array K)
    (hv : v.size = F.dim)
    (hd : ∀ i, 1 ≤ i → i ≤ F.dim → (letI := fieldScalar K sqrt; F.get i i) ≠ 0) :
    letI := fieldScalar K sqrt
    (sweep F v).size = v.size ∧
    ∀ i, 1 ≤ i → i ≤ F.dim →
      (∑ j ∈ Finset.Icc 1 i, F.get i j * (sweep F v).getD (j - 1) 0) = v.getD (i - 1) 0 := by
  let _ : Scalar K := fieldScalar K sqrt
  rw [sweep_eq_sweepGen sqrt F hF v]
  have h := sweepGen_spec (fun i j => F.get i j) F.band F.dim v
    (fun i q hq => CovMat.get_outside F (by omega) (by omega)) hd hv
  refine ⟨h.1, fun i h1 h2 => ?_⟩
  rw [← h.2 i h1 h2]
  refine Finset.sum_congr rfl fun j _ => ?_
  rw [CovMat.get_symm F i j]

/-- … hence it agrees entrywise with `Adj::forwardSubstitution` -/
theorem sweep_eq_forwardSubst (sqrt : K → K) (F : CovMat K) (hF : F.WF) (v : Array K)
    (hv : v.size = F.dim)
    (hd : ∀ i, 1 ≤ i → i ≤ F.dim → (letI := fieldScalar K sqrt; F.get i i) ≠ 0) :
    letI := fieldScalar K sqrt
    sweep F v = forwardSubst F v := by
  let _ : Scalar K := fieldScalar K sqrt
  have hs := sweep_spec sqrt F hF v hv hd
  exact forwardSubst_unique_array sqrt F v hv hd (sweep F v) (hs.1.trans hv) hs.2

end SweepAdj

end Gama.Cov
