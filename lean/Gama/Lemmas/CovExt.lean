/-
  C14 round 8 / C10 — extensionality of the packed band storage of `CovMat`, and its consequence:
  `Cluster::activeCov()` taken of a block all of whose observations are active returns the block
  (band clamp `min(band, N-1)` included).

    * `CovMat.ext_of_get` : two well-formed objects (`band ≤ dim`, buffer of `d(b+1) - b(b+1)/2`
      elements) with the same `dim`, the same `band` and the same in-band entries are THE SAME object
      (same buffer): every cell of the buffer is the image of an in-band pair (`off_surj`).
    * `activeCov_allActive` : `activeCov C obs = C` for well-formed `C` with `dim = #obs`, all of
      dimension 1 and active, and `band ≤ dim - 1` (written `actBand band dim = band`: a `CovMat(d, d)`
      is well formed, `activeCov` returns a `CovMat(d, d-1)` — a different buffer).
    * `activeCov_idem` : `activeCov (activeCov C obs) allTrue = activeCov C obs` for EVERY `C`
      (no hypothesis: what `activeCov` returns is well formed).
-/
import Gama.Lemmas.CovActive
namespace Gama.Cov
open Packed CovMat

variable {K : Type} [Zero K]

/-- **extensionality of the packed band storage** -/
theorem CovMat.ext_of_get {A B : CovMat K} (hA : A.WF) (hB : B.WF) (hd : A.dim = B.dim) (hb : A.band = B.band)
    (h : ∀ i j, InBand A.dim A.band i j → A.get i j = B.get i j) : A = B := by
  obtain ⟨d, b, bufA⟩ := A
  obtain ⟨d', b', bufB⟩ := B
  simp only at hd hb
  subst hd hb
  have hsz : bufA.size = bufB.size := by
    have h1 := hA.size_eq
    have h2 := hB.size_eq
    simp only at h1 h2
    omega
  congr 1
  apply Array.ext hsz
  intro k hk1 hk2
  have hk : ((k : Nat) : Int) < Packed.size d b := by
    have h1 := hA.size_eq
    simp only at h1
    omega
  obtain ⟨i, j, hin, hoff⟩ := off_surj hA.band_le (k : Int) (by omega) hk
  have e := h i j hin
  rw [get_upper (m := ⟨d, b, bufA⟩) hin, get_upper (m := ⟨d, b, bufB⟩) hin] at e
  simp only [hoff] at e
  unfold raw inBuf at e
  simp only [Int.toNat_natCast] at e
  have c1 : (decide ((0 : Int) ≤ (k : Int)) && decide ((k : Int) < (bufA.size : Int))) = true := by
    simp only [Bool.and_eq_true, decide_eq_true_eq]; omega
  have c2 : (decide ((0 : Int) ≤ (k : Int)) && decide ((k : Int) < (bufB.size : Int))) = true := by
    simp only [Bool.and_eq_true, decide_eq_true_eq]; omega
  rw [if_pos c1, if_pos c2] at e
  simpa [Array.getD, hk1, hk2] using e

/-! ### the index list of a block without passive observations -/

theorem activeIdx_allTrue : ∀ (obs : List ObsInfo) (n : Nat), (∀ o ∈ obs, o = ⟨true, 1⟩) →
    activeIdx n obs = List.range' n obs.length
  | [], _, _ => rfl
  | o :: rest, n, h => by
    have ho : o = ⟨true, 1⟩ := h o List.mem_cons_self
    subst ho
    have ih := activeIdx_allTrue rest (n + 1) (fun o ho => h o (List.mem_cons_of_mem _ ho))
    simp only [activeIdx, if_true, List.length_cons]
    rw [ih]
    simp [List.range'_succ]

/-- one-dimensional observations: the index list has one entry per active observation -/
theorem activeIdx_length_dim1 : ∀ (obs : List ObsInfo) (n : Nat), (∀ o ∈ obs, o.dimension = 1) →
    (activeIdx n obs).length = (obs.filter (·.active)).length
  | [], _, _ => rfl
  | o :: rest, n, h => by
    have hd : o.dimension = 1 := h o List.mem_cons_self
    have ih := activeIdx_length_dim1 rest (n + o.dimension) (fun o ho => h o (List.mem_cons_of_mem _ ho))
    simp only [activeIdx, List.length_append, ih, List.filter_cons]
    cases ha : o.active <;> simp [hd] <;> omega

theorem actBand_idem (b N : Nat) : actBand (actBand b N) N = actBand b N := by
  unfold actBand
  split <;> [split; rfl] <;> simp_all

/-- **a block all of whose observations are active is returned as it is** -/
theorem activeCov_allActive (C : CovMat K) (hC : C.WF) (obs : List ObsInfo) (hall : ∀ o ∈ obs, o = ⟨true, 1⟩)
    (hlen : obs.length = C.dim) (hband : actBand C.band C.dim = C.band) : activeCov C obs = C := by
  obtain ⟨hw, hd, hb, hg⟩ := activeCov_submatrix C obs
  have hidx : activeIdx 1 obs = List.range' 1 obs.length := activeIdx_allTrue obs 1 hall
  have hN : (activeIdx 1 obs).toArray.size = C.dim := by rw [hidx]; simp [hlen]
  apply CovMat.ext_of_get hw hC
  · rw [hd, hN]
  · rw [hb, hN, hband]
  · intro i j hin
    rw [hd, hb, hN] at hin
    obtain ⟨h1, h2, h3, h4⟩ := hin
    rw [hg i j h1 (by rw [hN]; omega) (by omega) (by rw [hN]; omega)]
    have gi : ∀ t, 1 ≤ t → t ≤ C.dim → (activeIdx 1 obs).toArray.getD (t - 1) 0 = t := by
      intro t t1 t2
      rw [hidx]
      have : t - 1 < obs.length := by omega
      simp [Array.getD, this, List.getElem_range']
      omega
    rw [gi i h1 (by omega), gi j (by omega) h3]

/-- **`activeCov` of an active block is that block** — for every `C` (what `activeCov` returns is well
    formed), every list of flags, band clamp included:
    `activeCov (activeCov C obs) allTrue = activeCov C obs`. -/
theorem activeCov_idem (C : CovMat K) (obs obs' : List ObsInfo) (hall : ∀ o ∈ obs', o = ⟨true, 1⟩)
    (hlen : obs'.length = (activeIdx 1 obs).length) : activeCov (activeCov C obs) obs' = activeCov C obs := by
  obtain ⟨hw, hd, hb, _⟩ := activeCov_submatrix C obs
  apply activeCov_allActive _ hw obs' hall
  · rw [hd, hlen]
    simp
  · rw [hb, hd]
    exact actBand_idem _ _

end Gama.Cov
