/-
  `latlong` (latlong.cpp: `latitude`, `longitude`) over ℝ: `rad *= 180.0/M_PI` with `M_PI = π`,
  then the sexagesimal field splitting shared with `gon2deg`.
-/
import Gama.Lemmas.GeoDms
namespace Gama.Angles
open Real

/-- the field splitting over ℝ: `x ≥ 0` in degrees; the three fields are in range and denote `x` -/
theorem splitDeg_spec_real (neg : Bool) {x : ℝ} (hx : 0 ≤ x) :
    let f := splitDeg neg x
    f.neg = neg ∧ f.d = ⌊x⌋ ∧ 0 ≤ f.d ∧ 0 ≤ f.m ∧ f.m < 60 ∧ 0 ≤ f.s ∧ f.s < 60 ∧
      x = (f.d : ℝ) + (f.m : ℝ) / 60 + f.s / 3600 := by
  intro f
  have hd : f.d = ⌊x⌋ := trunc_real_nonneg hx
  have h1 := Int.floor_le x
  have h2 := Int.lt_floor_add_one x
  set x2 : ℝ := (x - (⌊x⌋ : ℝ)) * 60 with hx2
  have hx2n : 0 ≤ x2 := by rw [hx2]; nlinarith
  have hx2l : x2 < 60 := by rw [hx2]; nlinarith
  have hm : f.m = ⌊x2⌋ := by
    show Trunc.trunc ((x - Scalar.ofInt (Trunc.trunc x)) * Scalar.ofNat 60) = ⌊x2⌋
    rw [trunc_real_nonneg hx, ofInt_real, scalar_ofNat_real]
    have : ((60 : ℕ) : ℝ) = 60 := by norm_num
    rw [this]
    exact trunc_real_nonneg hx2n
  have h3 := Int.floor_le x2
  have h4 := Int.lt_floor_add_one x2
  have hs : f.s = (x2 - (⌊x2⌋ : ℝ)) * 60 := by
    show ((x - Scalar.ofInt (Trunc.trunc x)) * Scalar.ofNat 60
          - Scalar.ofInt (Trunc.trunc ((x - Scalar.ofInt (Trunc.trunc x)) * Scalar.ofNat 60))) * Scalar.ofNat 60
        = (x2 - (⌊x2⌋ : ℝ)) * 60
    rw [trunc_real_nonneg hx, ofInt_real, scalar_ofNat_real]
    have h60 : ((60 : ℕ) : ℝ) = 60 := by norm_num
    rw [h60]
    have : Trunc.trunc ((x - (⌊x⌋ : ℝ)) * 60) = ⌊x2⌋ := trunc_real_nonneg hx2n
    rw [this, ofInt_real]
  have hm0 : 0 ≤ ⌊x2⌋ := Int.floor_nonneg.mpr hx2n
  have hm60 : ⌊x2⌋ < 60 := Int.floor_lt.mpr (by exact_mod_cast hx2l)
  refine ⟨rfl, hd, hd ▸ Int.floor_nonneg.mpr hx, hm ▸ hm0, hm ▸ hm60, ?_, ?_, ?_⟩
  · rw [hs]; nlinarith
  · rw [hs]; nlinarith
  · rw [hs, hm, hd, hx2]; ring

theorem dropSign_real (absFix : Bool) (r : ℝ) : dropSign absFix (decide (r < 0)) r = |r| := by
  unfold dropSign
  cases absFix
  · simp only [Bool.false_eq_true, if_false, decide_eq_true_eq]
    split_ifs with h
    · exact (abs_of_neg h).symm
    · exact (abs_of_nonneg (not_lt.mp h)).symm
  · simp only [if_true]; rfl

/-- `latlong`'s fields over ℝ: the splitting of `|rad|·180/π` degrees -/
theorem latlongFields_eq (absFix : Bool) (r : ℝ) :
    latlongFields absFix r = splitDeg (decide (r < 0)) (|r| * (180 / π)) := by
  unfold latlongFields
  have h : (decide (r < (0 : ℝ))) = (decide (r < 0)) := rfl
  simp only [dropSign_real, transc_pi_real, scalar_ofNat_real]
  norm_num

/-- sign flag, field ranges and the value identity `|rad|·180/π = d + m/60 + s/3600` -/
theorem latlongFields_spec (absFix : Bool) (r : ℝ) :
    let f := latlongFields absFix r
    f.neg = decide (r < 0) ∧ 0 ≤ f.d ∧ 0 ≤ f.m ∧ f.m < 60 ∧ 0 ≤ f.s ∧ f.s < 60 ∧
      |r| * (180 / π) = (f.d : ℝ) + (f.m : ℝ) / 60 + f.s / 3600 := by
  intro f
  have hx : 0 ≤ |r| * (180 / π) := by have := Real.pi_pos; positivity
  have h := splitDeg_spec_real (decide (r < 0)) hx
  have hf : f = splitDeg (decide (r < 0)) (|r| * (180 / π)) := latlongFields_eq absFix r
  rw [hf]
  exact ⟨h.1, h.2.2.1, h.2.2.2.1, h.2.2.2.2.1, h.2.2.2.2.2.1, h.2.2.2.2.2.2.1, h.2.2.2.2.2.2.2⟩

end Gama.Angles
