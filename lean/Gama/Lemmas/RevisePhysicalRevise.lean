/-
  C14 round 13, last item — item (1) of the physical deletion: the revision is stable on the physically deleted
  network, `PE.revise (physDel net) = physDel net` for every network on which it is stable.

  `MinX.isRevised` under the renaming: the needs test reads `(xyOf pts p).active`, which is the same at the new
  position of a kept point and `false` on both sides for a dropped / absent one; the stand-point rule counts
  `(… .map pto).eraseDups`, whose length does not change under an injective map of the targets.
-/
import Gama.Lemmas.RevisePhysicalFull
import Gama.Lemmas.ReviseLoopCard
import Mathlib.Data.Finset.Image
namespace Gama.RevPE
open Gama Gama.Lin

variable {K : Type}

/-- an entry of the flat list of `OD` with its positions renamed -/
def renM (g gc : Nat → Nat) (fo : Bool × MinX.Obs) : Bool × MinX.Obs :=
  (fo.1, ⟨fo.2.kind, gc fo.2.sp, g fo.2.pfrom, g fo.2.pto, g fo.2.pfs⟩)

/-! ### statuses at the new positions -/

theorem gPt_dropped (net : PE.Net K) (p : Nat) (h : ∀ q, net.points[p]? = some q → keepPt q = false) :
    (net.points.filter keepPt)[gPt net p]? = none := by
  have hg : gPt net p = (net.points.map keepPt).length + p := by
    unfold gPt gmap
    have : ¬ ((net.points.map keepPt).getD p false = true) := by
      cases hp : net.points[p]? with
      | none => simp [List.getD, hp]
      | some q => simp [List.getD, hp, h q hp]
    rw [if_neg this]
  rw [hg, List.getElem?_eq_none]
  have := List.length_filter_le keepPt net.points
  simp only [List.length_map]
  omega

theorem ptAt_dropped [Zero K] (net : PE.Net K) (p : Nat) (h : ∀ q, net.points[p]? = some q → keepPt q = false) :
    (PE.ptAt (physDel net) (gPt net p)).active_xy = false ∧ (PE.ptAt (physDel net) (gPt net p)).active_z = false ∧
    (PE.ptAt net p).active_xy = false ∧ (PE.ptAt net p).active_z = false := by
  have h1 : PE.ptAt (physDel net) (gPt net p) = ⟨0, 0, 0, .unused, .unused⟩ := by
    unfold PE.ptAt physDel
    simp only
    rw [gPt_dropped net p h]
  rw [h1]
  refine ⟨rfl, rfl, ?_⟩
  unfold PE.ptAt
  cases hp : net.points[p]? with
  | none => exact ⟨rfl, rfl⟩
  | some q =>
    have := h q hp
    unfold keepPt at this
    simp only [Bool.or_eq_false_iff] at this
    exact this

theorem active_physDel [Zero K] (net : PE.Net K) (p : Nat) :
    (MinX.xyOf (PE.ptsOf (physDel net)) (gPt net p)).active = (MinX.xyOf (PE.ptsOf net) p).active ∧
    (MinX.zOf (PE.ptsOf (physDel net)) (gPt net p)).active = (MinX.zOf (PE.ptsOf net) p).active := by
  simp only [PE.xyOf_ptsOf, PE.zOf_ptsOf, active_cstat']
  by_cases hk : ∃ q, net.points[p]? = some q ∧ keepPt q = true
  · obtain ⟨q, hq, hkq⟩ := hk
    rw [ptAt_physDel net p q hq hkq]
    exact ⟨rfl, rfl⟩
  · have hd : ∀ q, net.points[p]? = some q → keepPt q = false := by
      intro q hq
      cases hkq : keepPt q with
      | false => rfl
      | true => exact absurd ⟨q, hq, hkq⟩ hk
    obtain ⟨a1, a2, a3, a4⟩ := ptAt_dropped net p hd
    simp only [Lin.Pt.active_xy, Lin.Pt.active_z] at a1 a2 a3 a4
    rw [a1, a2, a3, a4]
    exact ⟨rfl, rfl⟩

theorem activeBasic_physDel [Zero K] (net : PE.Net K) (gc : Nat → Nat) (fo : Bool × MinX.Obs) :
    MinX.activeBasic (PE.ptsOf (physDel net)) (renM (gPt net) gc fo) = MinX.activeBasic (PE.ptsOf net) fo := by
  have hx := fun p => (active_physDel net p).1
  have hz := fun p => (active_physDel net p).2
  obtain ⟨a, kind, sp, pf, pt, ps⟩ := fo
  unfold MinX.activeBasic renM MinX.Obs.needs
  cases kind <;> simp only [List.all_cons, List.all_nil, hx, hz, if_true, Bool.false_eq_true, if_false]

/-! ### the stand-point rule -/

theorem eraseDups_map_length (g : Nat → Nat) (hg : Function.Injective g) (l : List Nat) :
    (l.map g).eraseDups.length = l.eraseDups.length := by
  have e : (l.map g).toFinset = l.toFinset.image g := by ext t; simp
  rw [Rev.eraseDups_length_eq_card, Rev.eraseDups_length_eq_card, e, Finset.card_image_of_injective _ hg]

theorem dirTargets_physDel [Zero K] (net : PE.Net K) (gc : Nat → Nat) (hgc : Function.Injective gc)
    (all : List (Bool × MinX.Obs)) (sp : Nat) :
    (MinX.dirTargets (PE.ptsOf (physDel net)) (all.map (renM (gPt net) gc)) (gc sp)).length =
      (MinX.dirTargets (PE.ptsOf net) all sp).length := by
  unfold MinX.dirTargets
  rw [List.filter_map, List.map_map]
  have e1 : ((fun fo : Bool × MinX.Obs => fo.2.pto) ∘ renM (gPt net) gc) = (gPt net) ∘ fun fo => fo.2.pto := rfl
  rw [e1, ← List.map_map, eraseDups_map_length _ (show Function.Injective (gPt net) from gmap_injective _)]
  congr 3
  apply List.filter_congr
  intro fo _
  simp only [Function.comp, activeBasic_physDel]
  have : (gc fo.2.sp == gc sp) = (fo.2.sp == sp) := by
    by_cases h : fo.2.sp = sp
    · simp [h]
    · have : gc fo.2.sp ≠ gc sp := fun hh => h (hgc hh)
      simp [h, this]
  simp only [renM, this]

theorem isRevised_physDel [Zero K] (net : PE.Net K) (gc : Nat → Nat) (hgc : Function.Injective gc)
    (all : List (Bool × MinX.Obs)) (fo : Bool × MinX.Obs) :
    MinX.isRevised (PE.ptsOf (physDel net)) (all.map (renM (gPt net) gc)) (renM (gPt net) gc fo) =
      MinX.isRevised (PE.ptsOf net) all fo := by
  unfold MinX.isRevised
  rw [activeBasic_physDel]
  have : (renM (gPt net) gc fo).2.sp = gc fo.2.sp := rfl
  rw [this, dirTargets_physDel net gc hgc]
  rfl

/-! ### the flat list and the revision of the physically deleted network -/

theorem flatFrom_physDel (g gc : Nat → Nat) : ∀ (cs : List (PE.Cluster K)) (k k' : Nat),
    (∀ j c, cs[j]? = some c → keepCl c = true → gc (k + j) = k' + rank (cs.map keepCl) j) →
    PE.flatFrom k' ((cs.filter keepCl).map (renCl g)) = (PE.flatFrom k cs).map (renM g gc)
  | [], _, _, _ => rfl
  | c :: cs, k, k', h => by
    by_cases hk : keepCl c = true
    · have h0 : gc k = k' := by simpa [rank] using h 0 c (by simp) hk
      have ih := flatFrom_physDel g gc cs (k + 1) (k' + 1) (by
        intro j c' hj hc'
        have := h (j + 1) c' (by simpa using hj) hc'
        rw [show k + (j + 1) = k + 1 + j by omega] at this
        rw [List.map_cons, rank_cons, hk] at this
        simp only [if_true] at this
        omega)
      simp only [List.filter_cons, hk, if_true, List.map_cons, PE.flatFrom, ih, List.map_append]
      congr 1
      simp only [renCl, List.map_map]
      apply List.map_congr_left
      intro o _
      simp only [Function.comp, PE.Ob.toMinX, renOb, renM, h0]
    · have hemp : c.obs = [] := by
        unfold keepCl at hk
        cases hc : c.obs with
        | nil => rfl
        | cons a t => simp [hc] at hk
      have ih := flatFrom_physDel g gc cs (k + 1) k' (by
        intro j c' hj hc'
        have := h (j + 1) c' (by simpa using hj) hc'
        rw [show k + (j + 1) = k + 1 + j by omega] at this
        rw [List.map_cons, rank_cons] at this
        simp only [Bool.not_eq_true] at hk
        simp only [hk, Bool.false_eq_true, if_false] at this
        omega)
      simp only [Bool.not_eq_true] at hk
      simp only [List.filter_cons, hk, Bool.false_eq_true, if_false, PE.flatFrom, hemp, List.map_nil,
        List.nil_append, ih]

theorem reviseFrom_physDel (pts pts' : List MinX.PtS) (all all' : List (Bool × MinX.Obs)) (g gc : Nat → Nat)
    (hiso : ∀ fo, MinX.isRevised pts' all' (renM g gc fo) = MinX.isRevised pts all fo) :
    ∀ (cs : List (PE.Cluster K)) (k k' : Nat),
    (∀ j c, cs[j]? = some c → keepCl c = true → gc (k + j) = k' + rank (cs.map keepCl) j) →
    (∀ (j : Nat) (c : PE.Cluster K), cs[j]? = some c → ∀ o ∈ c.obs, MinX.isRevised pts all (o.toMinX (k + j)) = o.active) →
    PE.reviseFrom pts' all' k' ((cs.filter keepCl).map (renCl g)) = (cs.filter keepCl).map (renCl g)
  | [], _, _, _, _ => rfl
  | c :: cs, k, k', h, hfix => by
    have hfix' : ∀ (j : Nat) (c' : PE.Cluster K), cs[j]? = some c' → ∀ o ∈ c'.obs,
        MinX.isRevised pts all (o.toMinX (k + 1 + j)) = o.active := by
      intro j c' hj o ho
      have := hfix (j + 1) c' (by simpa using hj) o ho
      rw [show k + (j + 1) = k + 1 + j by omega] at this
      exact this
    by_cases hk : keepCl c = true
    · have h0 : gc k = k' := by simpa [rank] using h 0 c (by simp) hk
      have ih := reviseFrom_physDel pts pts' all all' g gc hiso cs (k + 1) (k' + 1) (by
        intro j c' hj hc'
        have := h (j + 1) c' (by simpa using hj) hc'
        rw [show k + (j + 1) = k + 1 + j by omega] at this
        rw [List.map_cons, rank_cons, hk] at this
        simp only [if_true] at this
        omega) hfix'
      simp only [List.filter_cons, hk, if_true, List.map_cons]
      rw [reviseFrom_eq]
      simp only [ih]
      congr 1
      have hobs : (renCl g c).obs.map (setRev pts' all' k') = (renCl g c).obs := by
        simp only [renCl, List.map_map]
        apply List.map_congr_left
        intro o ho
        have hf := hfix 0 c (by simp) o ho
        simp only [Nat.add_zero] at hf
        have hi := hiso (o.toMinX k)
        rw [hf] at hi
        simp only [Function.comp, setRev, renOb, PE.Ob.toMinX, renM, h0] at hi ⊢
        rw [hi]
      generalize renCl g c = d at hobs ⊢
      obtain ⟨st, cv, ob⟩ := d
      simp only at hobs ⊢
      rw [hobs]
    · have ih := reviseFrom_physDel pts pts' all all' g gc hiso cs (k + 1) k' (by
        intro j c' hj hc'
        have := h (j + 1) c' (by simpa using hj) hc'
        rw [show k + (j + 1) = k + 1 + j by omega] at this
        rw [List.map_cons, rank_cons] at this
        simp only [Bool.not_eq_true] at hk
        simp only [hk, Bool.false_eq_true, if_false] at this
        omega) hfix'
      simp only [Bool.not_eq_true] at hk
      simp only [List.filter_cons, hk, Bool.false_eq_true, if_false, ih]

theorem gCl_shift (net : PE.Net K) : ∀ j c, net.clusters[j]? = some c → keepCl c = true →
    gCl net (0 + j) = 0 + rank (net.clusters.map keepCl) j := by
  intro j c hj hc
  unfold gCl gmap
  have : (net.clusters.map keepCl).getD (0 + j) false = true := by simp [List.getD, hj, hc]
  rw [if_pos this]
  simp

/-- **item (1): the revision is stable on the physically deleted network** -/
theorem revise_physDel [Zero K] (net : PE.Net K) (hst : PE.revise net = net) :
    PE.revise (physDel net) = physDel net := by
  have hfix : PE.reviseFrom (PE.ptsOf net) (PE.flatFrom 0 net.clusters) 0 net.clusters = net.clusters :=
    congrArg PE.Net.clusters hst
  have hflat : PE.flatFrom 0 (physDel net).clusters =
      (PE.flatFrom 0 net.clusters).map (renM (gPt net) (gCl net)) :=
    flatFrom_physDel (gPt net) (gCl net) net.clusters 0 0 (gCl_shift net)
  have key := reviseFrom_physDel (PE.ptsOf net) (PE.ptsOf (physDel net)) (PE.flatFrom 0 net.clusters)
    (PE.flatFrom 0 (physDel net).clusters) (gPt net) (gCl net)
    (by intro fo; rw [hflat]; exact isRevised_physDel net (gCl net) (gmap_injective _) _ fo)
    net.clusters 0 0 (gCl_shift net) (reviseFrom_fix _ _ net.clusters 0 hfix)
  unfold PE.revise
  have hc : (physDel net).clusters = (net.clusters.filter keepCl).map (renCl (gPt net)) := rfl
  rw [hc] at key ⊢
  rw [key]
  rfl


/-! ### from an arbitrary network: position-stable deletion (round 8), then physical deletion -/

open Gama.Ls.Net in
/-- what round 8's `pe_deleted` establishes on the way and `SameCall` does not record: the call on the
    position-stable deleted input is ONE inner call -/
theorem deleted_onecall [TrigScalar K] (net0 : PE.Net K) (np : NetProblem K) (u : PE.Unknowns K)
    (h : PE.projectEquations net0 = .ok (np, u)) (idx0 : IdxState) :
    PE.revise ({ delObs u.net with idx := idx0 } : PE.Net K) = { delObs u.net with idx := idx0 } ∧
    ∃ a2 hh, PE.assemble ({ delObs u.net with idx := idx0 } : PE.Net K) = .ok a2 ∧ prepare a2.np = .ok hh ∧
      (SingularCoords.singularCoords hh.Ad (PE.idxFn a2.idx)
        (PE.ptsOf ({ delObs u.net with idx := idx0 } : PE.Net K))).1 = false := by
  obtain ⟨net, a, F⟩ := PE.pe_final net0 np u h
  obtain ⟨n1, hn1⟩ := F.revised
  obtain ⟨hh, hprep, hsc⟩ := F.nosing
  have hD : ({ delObs u.net with idx := idx0 } : PE.Net K) = { delObs net with idx := idx0 } := by
    rw [F.u_net]; rfl
  rw [hD]
  have hrev : PE.revise ({ delObs net with idx := idx0 } : PE.Net K) = { delObs net with idx := idx0 } := by
    have hc := congrArg PE.Net.clusters (revise_delObs_revise n1)
    rw [← hn1] at hc
    unfold PE.revise at hc ⊢
    simp only at hc ⊢
    congr 1
  have h1 := assemble_delObs net a F.asm
  obtain ⟨a2, h2, hnp2, hag, _⟩ := assemble_idx (delObs net) _ h1 idx0
  have hcof := cofs_asm_delObs net a F.asm
  have hprep2 : prepare a2.np = .ok hh := by
    rw [hnp2, prepare_congr ({ a.np with clusters := PE.npClusters (delObs net) }) a.np rfl rfl rfl rfl hcof]
    exact hprep
  have hagree : MinX.Agree (PE.ptsOf net) (PE.idxFn a.idx) (PE.idxFn a2.idx) := idxFn_agree net _ _ hag
  refine ⟨hrev, a2, hh, h2, hprep2, ?_⟩
  show (SingularCoords.singularCoords hh.Ad (PE.idxFn a2.idx) (PE.ptsOf net)).1 = false
  rw [← singularCoords_agree hh.Ad _ _ _ hagree]; exact hsc

open Gama.Ls.Net in
/-- **the whole call, from an arbitrary network, on the input with the excluded items PHYSICALLY deleted** -/
theorem pe_physically_deleted [TrigScalar K] (net0 : PE.Net K) (np : NetProblem K) (u : PE.Unknowns K)
    (h : PE.projectEquations net0 = .ok (np, u)) (idx0 : IdxState) :
    ∃ np' u', PE.projectEquations (physDel { delObs u.net with idx := idx0 }) = .ok (np', u') ∧
      (∀ alg : Ls.Alg, netSolve alg np' = netSolve alg np) ∧
      np'.m = np.m ∧ np'.n = np.n ∧ np'.rows = np.rows ∧ np'.rhs = np.rhs ∧ np'.minx = np.minx ∧ cofs np' = cofs np ∧
      u'.n = u.n ∧ u'.removed = [] ∧
      u'.net.points = (physDel ({ delObs u.net with idx := idx0 } : PE.Net K)).points ∧
      u'.net.clusters = (physDel ({ delObs u.net with idx := idx0 } : PE.Net K)).clusters := by
  obtain ⟨hrev, a2, hh, h2, hprep2, hsc2⟩ := deleted_onecall net0 np u h idx0
  obtain ⟨npD, uD, hpeD, S⟩ := pe_deleted net0 np u h idx0
  obtain ⟨hfirst, np', u', hpe, hm, hn, hr, hb, hminx, hcofs, hun, hrem, hpts, hcls, hsolve⟩ :=
    pe_physDel _ hrev (revise_physDel _ hrev) a2 h2 hh hprep2 hsc2
  rw [hfirst] at hpeD
  injection hpeD with hpeD
  injection hpeD with e1 e2
  subst e1 e2
  refine ⟨np', u', hpe, fun alg => (hsolve alg).trans (S.solve alg), hm.trans S.m, hn.trans S.n, hr.trans S.rows,
    hb.trans S.rhs, hminx.trans S.minx, hcofs.trans S.cofs, hun.trans S.u_n, hrem, hpts, hcls⟩

end Gama.RevPE
