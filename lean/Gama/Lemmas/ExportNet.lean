/-
  Lemmas for C13, whole document: `parseNet ∘ exportNet` on points, parameters, the `<network>` tag, the four cluster
  kinds and the document fold.
-/
import Gama.Lemmas.Export
import Gama.Model.ExportNet
import Gama.Model.ExportWF
namespace Gama.Export
open Gama.Gen.GkfAttrs Gama.Gen.GkfDoc

variable {K : Type} {R : K → Prop}

/-- the hypotheses about numbers, relative to the representable ones (`R`, see `NumFmt.LawfulOn`) -/
structure Codec.LawfulOn (C : Codec K) (R : K → Prop) : Prop where
  num : C.toNumFmt.LawfulOn R
  neg_neg : ∀ x, C.neg (C.neg x) = x
  R_neg : ∀ x, R x → R (C.neg x)                  -- the printer treats the sign symmetrically
  rdI_fmtI : ∀ i : Int, -1 ≤ i → C.rdI (C.fmtI i) = some i     -- cov-band ≥ −1 (set_adj_covband)
  latIn_latOut : ∀ x, C.latIn (C.latOut x) = x
  rdDeg_fmt : ∀ x, C.rdDeg (C.fmt x) = none       -- a plain number is not a sexagesimal string
  fmt_ne : ∀ x, C.fmt x ≠ ""                      -- the parser's presence test is `s != ""`
  covRep_neg : ∀ x, C.CovRep x → C.CovRep (C.neg x)   -- the `<cov-mat>` printer treats the sign symmetrically too

/-- the sexagesimal branch (`angles="360"`): `deg2gon (gon2deg x) = x` on the angles the sexagesimal text gives back
    exactly (`Rd`; C18 `C18_deg2gon_gon2deg_string` bounds the distance for all others), and the two factors
    0.324 and 1.0/0.324 cancel -/
structure Codec.DegLawfulOn (C : Codec K) (Rd : K → Prop) : Prop where
  rdDeg_fmtDeg : ∀ x, Rd x → C.rdDeg (C.fmtDeg x) = some x
  fromSec_toSec : ∀ x, C.fromSec (C.toSec x) = x

def mirrorIf (C : Codec K) (ys : Bool) (p : Point K) : Point K := if ys then mirrorPoint C p else p
def mirrorCPointIf (C : Codec K) (ys : Bool) (p : CPoint K) : CPoint K := if ys then mirrorCPoint C p else p
def mirrorVecIf (C : Codec K) (ys : Bool) (v : Vec K) : Vec K := if ys then mirrorVec C v else v
def mirrorClusterIf (C : Codec K) (ys : Bool) (c : Cluster K) : Cluster K := if ys then mirrorCluster C c else c

/-! ## points -/

set_option maxRecDepth 4000 in
set_option maxHeartbeats 4000000 in
theorem parse_export_point (C : Codec K) (hC : C.LawfulOn R) (ys : Bool) (pp : String) (p : Point K) (hid : p.id ≠ "")
    (hrep : p.Rep R) :
    (parsePointAttrs C pp (exportPoint C ys p)).map (fun u => (u.id, u.apply ⟨p.id, none, none, .unused, .unused⟩))
      = .ok (p.id, mirrorIf C ys p) := by
  obtain ⟨id, xy, z, sxy, sz⟩ := p
  have hr := hC.num.rd_fmt
  have hne := hC.fmt_ne
  have hn := hC.R_neg
  simp only at hid
  cases xy <;> cases z <;> simp only [Point.Rep] at hrep <;> cases sxy <;> cases sz <;> cases ys <;>
  simp [parsePointAttrs, exportPoint, pvar, fixStr, adjStr, stLetters, statusChainXY, statusChainZ, stHolds, PAttr.role,
    adjCode, fixCode, PointUpd.apply, adjBeforeFix, applySetter, mirrorIf, mirrorPoint, sgn, pointYSigned, hr, hn, hne, hid,
    bind, Except.bind, pure, Except.pure, Except.map, *]

theorem parse_export_point' (C : Codec K) (hC : C.LawfulOn R) (ys : Bool) (pp : String) (p : Point K) (hid : p.id ≠ "")
    (hrep : p.Rep R) :
    ∃ u, parsePointAttrs C pp (exportPoint C ys p) = .ok u ∧ u.id = p.id ∧
         u.apply ⟨p.id, none, none, .unused, .unused⟩ = mirrorIf C ys p := by
  have h := parse_export_point C hC ys pp p hid hrep
  cases hq : parsePointAttrs C pp (exportPoint C ys p) with
  | error e => rw [hq] at h; simp [Except.map] at h
  | ok u =>
    rw [hq] at h
    simp only [Except.map, Except.ok.injEq, Prod.mk.injEq] at h
    exact ⟨u, rfl, h.1, h.2⟩

theorem upsert_fresh (ps : List (Point K)) (id : String) (f : Point K → Point K)
    (h : ∀ p ∈ ps, p.id ≠ id) : upsert ps id f = ps ++ [f ⟨id, none, none, .unused, .unused⟩] := by
  have : ps.any (fun p => p.id == id) = false := by
    simp only [List.any_eq_false, beq_iff_eq]
    exact fun p hp => h p hp
  simp [upsert, this]

theorem upsert_noop (ps : List (Point K)) (id : String) (f : Point K → Point K)
    (hex : ∃ p ∈ ps, p.id = id) (hf : ∀ p ∈ ps, p.id = id → f p = p) : upsert ps id f = ps := by
  have : ps.any (fun p => p.id == id) = true := by
    simp only [List.any_eq_true, beq_iff_eq]
    exact hex
  simp only [upsert, this, if_true]
  conv => rhs; rw [← List.map_id ps]
  apply List.map_congr_left
  intro p hp
  by_cases e : p.id = id
  · simp [e, hf p hp e]
  · simp [e]

/-! ## parameters and the `<network>` tag -/

set_option maxRecDepth 4000 in
theorem parse_export_params (C : Codec K) (hC : C.LawfulOn R) (p0 p : Params K) (hw : p.WF C R)
    (h0 : p0.algorithm = none ∧ p0.latitude = none ∧ p0.ellipsoid = none) :
    parseParams C p0 (exportParams C p) = .ok p := by
  obtain ⟨sa, cp, ta, ap, g, alg, lat, ell, cb⟩ := p
  obtain ⟨a0, b0, c0, d0, e0, alg0, lat0, ell0, cb0⟩ := p0
  obtain ⟨h1, h2, h3, h4, h5, h6, h7⟩ := hw
  simp only at h1 h2 h3 h4 h5 h6 h7 h0
  obtain ⟨rfl, rfl, rfl⟩ := h0
  have hr := hC.num.rd_fmt
  have hb : ¬ cb < -1 := by omega
  have q1 := hr sa h7.1
  have q2 := hr cp h7.2.1
  have q3 := hr ta h7.2.2.1
  have q4 : ∀ l, lat = some l → C.rd (C.fmt (C.latOut l)) = some (C.latOut l) := fun l hl => hr _ (h7.2.2.2 l hl)
  cases alg <;> cases lat <;> cases ell <;> cases ap <;> cases g <;>
  simp [parseParams, exportParams, parseParam, ParAttr.dest, ParAttr.guard, guardOk, sigmaActName, sigmaActCode, angularCode,
    latitudeInGons, q1, q2, q3, q4, hC.rdI_fmtI cb h6, hC.latIn_latOut, hC.rdDeg_fmt, h1, h2, h3, hb, List.foldlM, bind, Except.bind, pure,
    Except.pure, Except.map]
  all_goals simp_all

theorem parse_export_head (C : Codec K) (hC : C.LawfulOn R) (h : Head K) (hrep : ∀ e, h.epoch = some e → R e) :
    parseHead C (exportHead C h) = .ok h := by
  obtain ⟨ax, la, ep⟩ := h
  simp only at hrep
  have hr : ∀ e, ep = some e → C.rd (C.fmt e) = some e := fun e he => hC.num.rd_fmt e (hrep e he)
  cases ax <;> cases la <;> cases ep <;>
  simp [parseHead, exportHead, parseHeadAttr, Axes.xmlName, axesCode, anglesName, anglesCode, hr, List.foldlM, bind,
    Except.bind, pure, Except.pure]

/-! ## covariance matrices -/

theorem flipWith_length (neg : K → K) (bs : List Bool) (xs : List K) : (flipWith neg bs xs).length = xs.length := by
  induction bs generalizing xs with
  | nil => cases xs <;> rfl
  | cons b bs ih => cases xs with
    | nil => rfl
    | cons x xs => simp [flipWith, ih]

theorem flipWith_false (neg : K → K) (bs : List Bool) (xs : List K) (h : ∀ b ∈ bs, b = false) : flipWith neg bs xs = xs := by
  induction bs generalizing xs with
  | nil => cases xs <;> rfl
  | cons b bs ih => cases xs with
    | nil => rfl
    | cons x xs =>
      have hb : b = false := h b List.mem_cons_self
      subst hb
      simp [flipWith, ih xs (fun b' hb' => h b' (List.mem_cons_of_mem _ hb'))]

theorem mirrorCov_false (neg : K → K) (c : Cov K) : mirrorCov neg (fun _ => false) c = c := by
  unfold mirrorCov
  rw [flipWith_false]
  intro b hb
  simp only [entrySigns, List.mem_flatMap, List.mem_map] at hb
  obtain ⟨_, _, _, _, rfl⟩ := hb
  rfl

theorem mirrorCov_WF (neg : K → K) (hR : ∀ x, R x → R (neg x)) (mir : Nat → Bool) (c : Cov K) (n : Nat) (h : c.WF R n) :
    (mirrorCov neg mir c).WF R n := by
  obtain ⟨h1, h2, h3, h4, h5⟩ := h
  exact ⟨h1, h2, h3, by simp [mirrorCov, flipWith_length, h4], flipWith_mem neg hR _ _ h5⟩

theorem parse_export_cov_checked (C : Codec K) (hC : C.LawfulOn R) (n : Nat) (c : Cov K) (h : c.WF C.CovRep n) :
    parseCovChecked C n (exportCov C.covFmt c) = .ok c := by
  obtain ⟨h1, h2, h3, h4, h5⟩ := h
  have hcond : ¬ ((exportCov C.covFmt c).1 < 1 ∨ (exportCov C.covFmt c).2.1 ≥ (exportCov C.covFmt c).1 ∨
      (exportCov C.covFmt c).1 ≠ n ∨ (exportCov C.covFmt c).2.2.length ≠
        (exportCov C.covFmt c).1 * ((exportCov C.covFmt c).2.1 + 1) - (exportCov C.covFmt c).2.1 * ((exportCov C.covFmt c).2.1 + 1) / 2) := by
    simp only [exportCov, List.length_map]
    omega
  unfold parseCovChecked
  rw [if_neg hcond]
  have hp : parseCov C.toNumFmt (exportCov C.covFmt c) = some c :=
    parse_export_cov C.covFmt ⟨fun x hx => hx, hC.num.isZero_iff⟩ c h5
  rw [hp]

/-! ## scaling of the rows of angular observations (sexagesimal seconds) -/

theorem app2_inv (f g : K → K) (h : ∀ x, g (f x) = x) (n : Nat) (x : K) : app2 g n (app2 f n x) = x := by
  match n with
  | 0 => rfl
  | 1 => exact h x
  | n + 2 => simp [app2, h]

theorem scaleWith_inv (f g : K → K) (h : ∀ x, g (f x) = x) (ns : List Nat) (xs : List K) :
    scaleWith g ns (scaleWith f ns xs) = xs := by
  induction ns generalizing xs with
  | nil => cases xs <;> rfl
  | cons n ns ih =>
    cases xs with
    | nil => rfl
    | cons x xs => simp [scaleWith, app2_inv f g h, ih]

theorem scaleWith_length (f : K → K) (ns : List Nat) (xs : List K) : (scaleWith f ns xs).length = xs.length := by
  induction ns generalizing xs with
  | nil => cases xs <;> rfl
  | cons n ns ih =>
    cases xs with
    | nil => rfl
    | cons x xs => simp [scaleWith, ih]

theorem scaleCov_inv (f g : K → K) (h : ∀ x, g (f x) = x) (fl : Nat → Bool) (c : Cov K) :
    scaleCov g fl (scaleCov f fl c) = c := by
  simp [scaleCov, scaleWith_inv f g h]

theorem scaleWith_zero (f : K → K) (ns : List Nat) (h : ∀ n ∈ ns, n = 0) (xs : List K) : scaleWith f ns xs = xs := by
  induction ns generalizing xs with
  | nil => cases xs <;> rfl
  | cons n ns ih =>
    cases xs with
    | nil => rfl
    | cons x xs =>
      have hn : n = 0 := h n List.mem_cons_self
      subst hn
      simp [scaleWith, app2, ih (fun m hm => h m (List.mem_cons_of_mem _ hm))]

theorem scaleCov_false (f : K → K) (fl : Nat → Bool) (h : ∀ i, fl i = false) (c : Cov K) : scaleCov f fl c = c := by
  unfold scaleCov
  rw [scaleWith_zero]
  intro n hn
  simp only [entryCounts, List.mem_flatMap, List.mem_map] at hn
  obtain ⟨_, _, _, _, rfl⟩ := hn
  simp [h]

theorem flagOf_false (l : List Bool) (h : ∀ b ∈ l, b = false) (i : Nat) : flagOf l i = false := by
  unfold flagOf
  rw [List.getD_eq_getElem?_getD]
  cases hq : l[i - 1]? with
  | none => rfl
  | some b => exact h b (List.mem_of_getElem? hq)

/-- the cov-mat of a `<coordinates>` / `<vectors>` cluster as written: the internal matrix mirrored back; no angular rows -/
theorem exportCovCall_always (C : Codec K) (ys degrees : Bool) (mir : Nat → Bool) (c : Cov K) (call : Bool × Bool)
    (hcall : call = (true, true)) :
    exportCovCall C call ys degrees mir (fun _ => false) c = some (exportCov C.covFmt (if ys then mirrorCov C.neg mir c else c)) := by
  subst hcall
  cases ys <;> cases degrees <;> simp [exportCovCall, covMirrors, scaleCov_false]

/-- the cov-mat of an `<obs>` cluster as written (band > 0; the observation list is passed) -/
theorem exportCovCall_obs (C : Codec K) (ys gons : Bool) (ang : Nat → Bool) (c : Cov K) (hb : c.band ≠ 0) :
    exportCovCall C covCall_StandPoint ys (!gons) (fun _ => false) ang c = some (exportCov C.covFmt (covOut C gons ang c)) := by
  have : (c.band == 0) = false := by simpa using hb
  cases ys <;> cases gons <;> simp [exportCovCall, covCall_StandPoint, covScalesSeconds, covOut, this, mirrorCov_false]

/-- the cov-mat of a `<height-differences>` cluster as written (band > 0; no list: neither mirrored nor scaled) -/
theorem exportCovCall_hdiffs (C : Codec K) (ys degrees : Bool) (c : Cov K) (hb : c.band ≠ 0) :
    exportCovCall C covCall_HeightDifferences ys degrees (fun _ => false) (fun _ => false) c = some (exportCov C.covFmt c) := by
  have : (c.band == 0) = false := by simpa using hb
  cases ys <;> cases degrees <;> simp [exportCovCall, covCall_HeightDifferences, this]

/-! ## observations of `<obs>`: gons and degrees -/

theorem route_val_iff (k : Kind) (a : Attr) : (route k.elem a == some (valDest k)) = (a == Attr.val) := by
  cases k <;> cases a <;> rfl

theorem filter_val_export (F : NumFmt K) (cf : String) (o : Obs K) (sval : String) :
    (exportObsV F true cf o sval).2.filter (fun a => a.1 == Attr.val) = [(Attr.val, sval)] := by
  simp only [exportObsV, dhAttr]
  repeat' split
  all_goals simp

/-- the value attribute of an exported observation is the text the visitor made -/
theorem reach_val_export (F : NumFmt K) (cf : String) (o : Obs K) (sval : String) :
    reach o.kind.elem (valDest o.kind) (exportObsV F true cf o sval).2 = some sval := by
  have : (exportObsV F true cf o sval).2.filter (fun a => route o.kind.elem a.1 == some (valDest o.kind)) =
      (exportObsV F true cf o sval).2.filter (fun a => a.1 == Attr.val) := by
    apply List.filter_congr
    intro a _
    exact route_val_iff o.kind a.1
  simp [reach, this, filter_val_export]

/-- the observation with its standard deviation in the unit of the file -/
def obsOut (C : Codec K) (gons : Bool) (o : Obs K) : Obs K :=
  if gons || !o.kind.angular then o else { o with stdev := C.toSec o.stdev }

/-- reading an exported observation: the parser has the observation with its standard deviation still in the unit of
    the file, and the flag "sexagesimal" exactly for the angular observations of a file in degrees -/
theorem parse_export_elemU {Rd : K → Prop} (C : Codec K) (hC : C.LawfulOn R) (hD : C.DegLawfulOn Rd) (impl : Kind → K)
    (gons : Bool) (cf : String) (o : Obs K)
    (hw : o.WF C.toNumFmt) (hr : o.RepU C R Rd gons) (hdir : o.kind = .direction → o.from_ = cf) :
    parseElemU C impl cf C.zero (exportObsU C gons cf o) = .ok (obsOut C gons o, !gons && o.kind.angular) := by
  by_cases hg : (gons || !o.kind.angular) = true
  · -- the value is a plain number
    have hx : exportObsU C gons cf o = exportObsV C.toNumFmt true cf o (C.fmt o.val) := by simp [exportObsU, exportObs, hg]
    have hrep : o.Rep R := by simpa [Obs.RepU, hg] using hr
    have hv : rdValU C o.kind (C.fmt o.val) = some o.val := by
      simp [rdValU, hC.rdDeg_fmt, hC.num.rd_fmt _ hrep.val]
    have hfl : isDegVal C o.kind (exportObsV C.toNumFmt true cf o (C.fmt o.val)).2 = false := by
      simp [isDegVal, reach_val_export, hC.rdDeg_fmt]
    have hflag : (!gons && o.kind.angular) = false := by
      cases gons <;> cases h : o.kind.angular <;> simp_all
    have hk : kindOf (exportObsV C.toNumFmt true cf o (C.fmt o.val)).1 = some o.kind := kindOf_elem _
    have ho : obsOut C gons o = o := by simp [obsOut, hg]
    rw [hx]
    unfold parseElemU
    rw [hk]
    simp only [parse_export_obsV C.toNumFmt hC.num (rdValU C o.kind) (C.fmt o.val) cf (impl o.kind) o hw hv
      ⟨hrep.stdev, hrep.fromDh, hrep.toDh, hrep.fsDh⟩ hdir, hfl, hflag, ho]
    rfl
  · -- degrees, angular: sexagesimal value, standard deviation in seconds
    have hg' : (gons || !o.kind.angular) = false := by simpa using hg
    have hang : o.kind.angular = true := by cases gons <;> cases h : o.kind.angular <;> simp_all
    have hgons : gons = false := by cases gons <;> simp_all
    subst hgons
    have hrep : Rd o.val ∧ R (C.toSec o.stdev) ∧ R o.fromDh ∧ R o.toDh ∧ R o.fsDh := by simpa [Obs.RepU, hg'] using hr
    have hx : exportObsU C false cf o = exportObsV C.toNumFmt true cf { o with stdev := C.toSec o.stdev } (C.fmtDeg o.val) := by
      simp [exportObsU, hang, visStdevScaled]
    have hv : rdValU C o.kind (C.fmtDeg o.val) = some o.val := by
      simp [rdValU, hang, parserTriesDeg2gon, hD.rdDeg_fmtDeg _ hrep.1]
    have hfl : isDegVal C o.kind (exportObsV C.toNumFmt true cf { o with stdev := C.toSec o.stdev } (C.fmtDeg o.val)).2 = true := by
      have := reach_val_export C.toNumFmt cf { o with stdev := C.toSec o.stdev } (C.fmtDeg o.val)
      simp only at this
      simp [isDegVal, this, hang, parserTriesDeg2gon, hD.rdDeg_fmtDeg _ hrep.1]
    have hk : kindOf (exportObsV C.toNumFmt true cf { o with stdev := C.toSec o.stdev } (C.fmtDeg o.val)).1 = some o.kind :=
      kindOf_elem _
    have ho : obsOut C false o = { o with stdev := C.toSec o.stdev } := by simp [obsOut, hang]
    have hw' : ({ o with stdev := C.toSec o.stdev } : Obs K).WF C.toNumFmt := ⟨hw.from_ne, hw.to_ne, hw.fs_angle, hw.fs_other⟩
    have hp := parse_export_obsV C.toNumFmt hC.num (rdValU C o.kind) (C.fmtDeg o.val) cf (impl o.kind)
      { o with stdev := C.toSec o.stdev } hw' hv ⟨hrep.2.1, hrep.2.2.1, hrep.2.2.2.1, hrep.2.2.2.2⟩ hdir
    rw [hx]
    unfold parseElemU
    rw [hk]
    simp only at hp
    simp [hp, hfl, ho, hang, Except.map]

theorem mapM_ok' {α β γ ε : Type} (f : α → Except ε γ) (g : β → α) (h : β → γ) (l : List β)
    (hh : ∀ b ∈ l, f (g b) = .ok (h b)) : (l.map g).mapM f = .ok (l.map h) := by
  induction l with
  | nil => rfl
  | cons b l ih =>
    have hb := hh b List.mem_cons_self
    have hl := ih (fun b' hb' => hh b' (List.mem_cons_of_mem _ hb'))
    simp [List.mapM_cons, hb, hl, bind, Except.bind, pure, Except.pure]

/-! ## vectors and coordinate points -/

set_option maxRecDepth 4000 in
theorem parse_export_vec (C : Codec K) (hC : C.LawfulOn R) (ys : Bool) (v : Vec K) (hw : v.WF C R) :
    parseVec C (exportVec C ys v) = .ok (mirrorVecIf C ys v) := by
  obtain ⟨f, t, dx, dy, dz, fd, td, ex⟩ := v
  obtain ⟨h1, h2, ⟨h3, h4⟩, r1, r2, r3⟩ := hw
  simp only at h1 h2 h3 h4 r1 r2 r3
  subst h3 h4
  have q1 := hC.num.rd_fmt dx r1
  have q2 := hC.num.rd_fmt dy r2
  have q3 := hC.num.rd_fmt dz r3
  have q4 := hC.num.rd_fmt _ (hC.R_neg dy r2)
  by_cases e : ex = "" <;> cases ys <;>
  simp [parseVec, exportVec, reach, route, rdOr, sgn, visSigned_dx, visSigned_dy, visSigned_dz, mirrorVecIf, mirrorVec, q1, q2, q3, q4,
    h1, h2, e, bind, Except.bind, pure, Except.pure]

set_option maxRecDepth 4000 in
theorem parse_export_cpoint (C : Codec K) (hC : C.LawfulOn R) (ys : Bool) (pp : String) (p : CPoint K) (hid : p.id ≠ "")
    (hrep : (match p.xy with | some v => R v.1 ∧ R v.2 | none => True) ∧ (match p.z with | some z => R z | none => True)) :
    parsePointAttrs C pp (exportCPoint C ys p) =
      .ok ⟨p.id, (mirrorCPointIf C ys p).xy, (mirrorCPointIf C ys p).z, [], []⟩ := by
  obtain ⟨id, xy, z⟩ := p
  have hr := hC.num.rd_fmt
  have hne := hC.fmt_ne
  have hn := hC.R_neg
  simp only at hid
  cases xy <;> cases z <;> simp only at hrep <;> cases ys <;>
  simp [parsePointAttrs, exportCPoint, pvar, PAttr.role, mirrorCPointIf, mirrorCPoint, sgn, visSigned_x, visSigned_y, visSigned_z,
    hr, hn, hne, hid, bind, Except.bind, pure, Except.pure, *]

/-- a coordinate observation of a point that already has those coordinate groups changes nothing in PointData
    (6848bc2a: the guarded setters; on a tree without the guards `observedKeepsXY` / `observedKeepsZ` /
    `coordsPointObserved` are false and this fails) -/
theorem apply_noop (id : String) (p : Point K) (c : CPoint K) (h : agrees p c) :
    (⟨id, c.xy, c.z, [], []⟩ : PointUpd K).applyObs p = p := by
  obtain ⟨pid, pxy, pz, s1, s2⟩ := p
  obtain ⟨cid, cxy, cz⟩ := c
  obtain ⟨h1, h2⟩ := h
  simp only at h1 h2
  cases cxy <;> cases cz <;> cases pxy <;> cases pz <;>
    simp_all [PointUpd.applyObs, adjBeforeFix, coordsPointObserved, observedKeepsXY, observedKeepsZ]

theorem parse_export_cpoints (C : Codec K) (hC : C.LawfulOn R) (ys : Bool) (ps : List (Point K)) (pts : List (CPoint K))
    (hw : ∀ c ∈ pts, c.WF R)
    (hag : ∀ c ∈ pts, (∃ p ∈ ps, p.id = c.id) ∧ ∀ p ∈ ps, p.id = c.id → agrees p (mirrorCPointIf C ys c)) (pp : String) :
    ∃ pp', parseCoordPts C ps pp (pts.map (exportCPoint C ys)) = .ok (ps, pp', pts.map (mirrorCPointIf C ys)) := by
  induction pts generalizing pp with
  | nil => exact ⟨pp, rfl⟩
  | cons c pts ih =>
    have hc := hw c List.mem_cons_self
    have hg := hag c List.mem_cons_self
    obtain ⟨pp', hrest⟩ := ih (fun c' h' => hw c' (List.mem_cons_of_mem _ h')) (fun c' h' => hag c' (List.mem_cons_of_mem _ h')) c.id
    refine ⟨pp', ?_⟩
    have hup : upsert ps c.id (⟨c.id, (mirrorCPointIf C ys c).xy, (mirrorCPointIf C ys c).z, [], []⟩ : PointUpd K).applyObs = ps :=
      upsert_noop ps c.id _ hg.1 (fun p hp he => apply_noop c.id p _ (hg.2 p hp he))
    have hsome : ((mirrorCPointIf C ys c).xy.isNone && (mirrorCPointIf C ys c).z.isNone) = false := by
      obtain ⟨cid, cxy, cz⟩ := c
      have := hc.some_coord
      cases cxy <;> cases cz <;> cases ys <;> simp_all [mirrorCPointIf, mirrorCPoint]
    have hcp : (⟨c.id, (mirrorCPointIf C ys c).xy, (mirrorCPointIf C ys c).z⟩ : CPoint K) = mirrorCPointIf C ys c := by
      cases ys <;> simp [mirrorCPointIf, mirrorCPoint]
    simp only [List.map_cons, parseCoordPts, parse_export_cpoint C hC ys pp c hc.id_ne hc.rep, hsome, hup, hrest, hcp]
    rfl

/-! ## clusters -/

theorem agrees_mirror (C : Codec K) (ys : Bool) (p : Point K) (c : CPoint K) (h : agrees p c) :
    agrees (mirrorIf C ys p) (mirrorCPointIf C ys c) := by
  obtain ⟨pid, pxy, pz, s1, s2⟩ := p
  obtain ⟨cid, cxy, cz⟩ := c
  obtain ⟨h1, h2⟩ := h
  simp only at h1 h2
  cases ys
  · exact ⟨h1, h2⟩
  · cases cxy <;> cases cz <;> simp_all [agrees, mirrorIf, mirrorPoint, mirrorCPointIf, mirrorCPoint]

theorem mirrorCPointIf_true (C : Codec K) : mirrorCPointIf C true = mirrorCPoint C := funext fun _ => rfl
theorem mirrorCPointIf_false (C : Codec K) : mirrorCPointIf C false = id := funext fun _ => rfl
theorem mirrorVecIf_true (C : Codec K) : mirrorVecIf C true = mirrorVec C := funext fun _ => rfl
theorem mirrorVecIf_false (C : Codec K) : mirrorVecIf C false = id := funext fun _ => rfl

theorem mirrorIf_id (C : Codec K) (ys : Bool) (p : Point K) : (mirrorIf C ys p).id = p.id := by
  cases ys <;> rfl

theorem coordFlags_mirror (C : Codec K) (ys : Bool) (pts : List (CPoint K)) :
    coordFlags (pts.map (mirrorCPointIf C ys)) = coordFlags pts := by
  induction pts with
  | nil => rfl
  | cons c pts ih =>
    obtain ⟨cid, cxy, cz⟩ := c
    simp only [coordFlags, List.map_cons, List.flatMap_cons] at ih ⊢
    rw [ih]
    cases ys <;> cases cxy <;> cases cz <;> simp [mirrorCPointIf, mirrorCPoint]

theorem vecFlags_map (f : Vec K → Vec K) (vs : List (Vec K)) : vecFlags (vs.map f) = vecFlags vs := by
  induction vs with
  | nil => rfl
  | cons v vs ih =>
    simp only [vecFlags, List.map_cons, List.flatMap_cons] at ih ⊢
    rw [ih]

theorem obs_header (station : String) :
    (if station ≠ "" then [("from", station)] else [] : SAttrs).any (fun a => !obsAttrs.contains a.1) = false ∧
    sattr (if station ≠ "" then [("from", station)] else []) "orientation" = none ∧
    sattr (if station ≠ "" then [("from", station)] else []) "from_dh" = none ∧
    (sattr (if station ≠ "" then [("from", station)] else []) "from").getD "" = station := by
  by_cases h : station = "" <;> simp [h, sattr, obsAttrs]

theorem coords_header (ext : String) :
    (if ext ≠ "" then [("extern", ext)] else [] : SAttrs).any (fun a => !coordsAttrs.contains a.1) = false ∧
    (sattr (if ext ≠ "" then [("extern", ext)] else []) "extern").getD "" = ext := by
  by_cases h : ext = "" <;> simp [h, sattr, coordsAttrs]

/-- `finish_obs` undoes the seconds on the standard deviation of a flagged observation -/
theorem obs_back {Rd : K → Prop} (C : Codec K) (hD : C.DegLawfulOn Rd) (gons : Bool) (obs : List (Obs K)) :
    (obs.map (fun o => (obsOut C gons o, !gons && o.kind.angular))).map
      (fun of => if (of.2 && parserScalesSeconds) = true then { of.1 with stdev := C.fromSec of.1.stdev } else of.1) = obs := by
  rw [List.map_map]
  conv => rhs; rw [← List.map_id obs]
  apply List.map_congr_left
  intro o _
  cases gons <;> cases h : o.kind.angular <;> simp [obsOut, h, parserScalesSeconds, hD.fromSec_toSec]

/-- … and on the rows of the covariance matrix -/
theorem cov_back {Rd : K → Prop} (C : Codec K) (hD : C.DegLawfulOn Rd) (gons : Bool) (obs : List (Obs K)) (cv : Cov K) :
    (if ((obs.map (fun o => (obsOut C gons o, !gons && o.kind.angular))).any (·.2) && parserScalesSeconds) = true then
       scaleCov C.fromSec (flagOf ((obs.map (fun o => (obsOut C gons o, !gons && o.kind.angular))).map (·.2)))
         (covOut C gons (flagOf (obs.map (fun o => o.kind.angular))) cv)
     else covOut C gons (flagOf (obs.map (fun o => o.kind.angular))) cv) = cv := by
  cases gons
  · have hfl : (obs.map (fun o => (obsOut C false o, !false && o.kind.angular))).map (·.2) = obs.map (fun o => o.kind.angular) := by
      simp [List.map_map, Function.comp_def]
    by_cases hany : (obs.map (fun o => (obsOut C false o, !false && o.kind.angular))).any (·.2) = true
    · simp only [hany, parserScalesSeconds, Bool.and_self, if_true, hfl, covOut, Bool.false_eq_true, if_false]
      exact scaleCov_inv _ _ hD.fromSec_toSec _ _
    · have hall : ∀ b ∈ obs.map (fun o => o.kind.angular), b = false := by
        intro b hb
        obtain ⟨o, ho, rfl⟩ := List.mem_map.mp hb
        have : ¬ ((obs.map (fun o => (obsOut C false o, !false && o.kind.angular))).any (·.2) = true) := hany
        simp only [List.any_map, List.any_eq_true, not_exists, not_and] at this
        have := this o ho
        simpa using this
      have hany' : (obs.map (fun o => (obsOut C false o, !false && o.kind.angular))).any (·.2) = false := by simpa using hany
      simp only [hany', Bool.false_and, Bool.false_eq_true, if_false, covOut]
      exact scaleCov_false _ _ (flagOf_false _ hall) _
  · have hany : (obs.map (fun o => (obsOut C true o, !true && o.kind.angular))).any (·.2) = false := by simp
    simp only [hany, Bool.false_and, Bool.false_eq_true, if_false, covOut, if_true]

theorem parse_export_cluster' {Rd : K → Prop} (C : Codec K) (hC : C.LawfulOn R) (hD : C.DegLawfulOn Rd) (impl : Kind → K)
    (par : Params K) (ys gons : Bool)
    (ps0 : List (Point K)) (cl : List (Cluster K)) (pp : String) (c : Cluster K) (hw : c.WF C R Rd gons par.sigmaApr ps0) :
    ∃ pp', parseItem C impl par ⟨ps0.map (mirrorIf C ys), cl, pp⟩ (exportCluster' C ys gons c)
      = .ok ⟨ps0.map (mirrorIf C ys), cl ++ [mirrorClusterIf C ys c], pp'⟩ := by
  cases c with
  | obs sp cov =>
    obtain ⟨station, obs⟩ := sp
    obtain ⟨h1, h2⟩ := hw
    simp only at h1 h2
    refine ⟨pp, ?_⟩
    obtain ⟨g1, g2, g3, g4⟩ := obs_header station
    have hm := mapM_ok' (parseElemU C impl station C.zero) (exportObsU C gons station)
      (fun o => (obsOut C gons o, !gons && o.kind.angular)) obs
      (fun o ho => parse_export_elemU C hC hD impl gons station o (h1 o ho).1 (h1 o ho).2.1 (h1 o ho).2.2)
    have hmir : mirrorClusterIf C ys (.obs ⟨station, obs⟩ cov) = .obs ⟨station, obs⟩ cov := by
      cases ys <;> rfl
    have hobs := obs_back C hD gons obs
    cases cov with
    | none =>
      simp only [exportCluster', parseItem, g1, g2, g3, g4, rdOr, hm, hobs, hmir, Option.bind_none, Bool.false_eq_true, if_false]
    | some cv =>
      obtain ⟨hb, hcw⟩ := h2 cv rfl
      have hbb : ((covOut C gons (flagOf (obs.map (fun o => o.kind.angular))) cv).band == 0) = false := by
        cases gons <;> simpa [covOut, scaleCov] using hb
      have hcb := cov_back C hD gons obs cv
      simp only [exportCluster', parseItem, g1, g2, g3, g4, rdOr, hm, hobs, hmir, Option.bind_some,
        exportCovCall_obs C ys gons _ cv hb, List.length_map, parse_export_cov_checked C hC _ _ hcw, hbb, hcb,
        Bool.false_eq_true, if_false]
  | hdiffs dhs cov =>
    obtain ⟨h1, h2⟩ := hw
    refine ⟨pp, ?_⟩
    have hm := mapM_ok' (fun ea : Elem × Attrs => parseDh C.toNumFmt (C.sdDist par.sigmaApr) ea.2)
      (exportDh C.toNumFmt true C.pos dhStdevAlways) (fun h => h) dhs
      (fun h hh => parse_export_dh_always C.toNumFmt hC.num _ C.pos h (h1 h hh).1 (h1 h hh).2.1 (h1 h hh).2.2.2 (h1 h hh).2.2.1)
    have hel : (dhs.map (exportDh C.toNumFmt true C.pos dhStdevAlways)).any (fun ea => decide (ea.1 ≠ Elem.dh)) = false := by
      simp [exportDh]
    have hmir : mirrorClusterIf C ys (.hdiffs dhs cov) = .hdiffs dhs cov := by
      cases ys <;> rfl
    cases cov with
    | none =>
      simp only [exportCluster', parseItem, hel, hm, hmir, List.map_id', Option.bind_none, Bool.false_eq_true, if_false]
    | some cv =>
      obtain ⟨hb, hcw⟩ := h2 cv rfl
      have hbb : (cv.band == 0) = false := by simpa using hb
      simp only [exportCluster', parseItem, hel, hm, hmir, List.map_id', Option.bind_some,
        exportCovCall_hdiffs C ys _ cv hb, List.length_map, parse_export_cov_checked C hC _ cv hcw, hbb,
        Bool.false_eq_true, if_false]
  | coords ext pts cov =>
    obtain ⟨h1, h2, h3⟩ := hw
    obtain ⟨g1, g2⟩ := coords_header ext
    have hag : ∀ c ∈ pts, (∃ p ∈ ps0.map (mirrorIf C ys), p.id = c.id) ∧
        ∀ p ∈ ps0.map (mirrorIf C ys), p.id = c.id → agrees p (mirrorCPointIf C ys c) := by
      intro c hc
      obtain ⟨⟨p, hp, hpe⟩, hall⟩ := h3 c hc
      refine ⟨⟨mirrorIf C ys p, List.mem_map_of_mem hp, by rw [mirrorIf_id]; exact hpe⟩, ?_⟩
      intro q hq hqe
      obtain ⟨q0, hq0, rfl⟩ := List.mem_map.mp hq
      rw [mirrorIf_id] at hqe
      exact agrees_mirror C ys q0 c (hall q0 hq0 hqe)
    obtain ⟨pp', hpts⟩ := parse_export_cpoints C hC ys (ps0.map (mirrorIf C ys)) pts h1 hag pp
    refine ⟨pp', ?_⟩
    have hcw : (if ys then mirrorCov C.neg (mirOf (coordFlags pts)) cov else cov).WF C.CovRep (coordFlags pts).length := by
      cases ys
      · exact h2
      · exact mirrorCov_WF _ hC.covRep_neg _ _ _ h2
    have hmir : mirrorClusterIf C ys (.coords ext pts cov) =
        .coords ext (pts.map (mirrorCPointIf C ys)) (if ys then mirrorCov C.neg (mirOf (coordFlags pts)) cov else cov) := by
      cases ys <;> simp [mirrorClusterIf, mirrorCluster, mirrorCPointIf_true, mirrorCPointIf_false]
    simp only [exportCluster', parseItem, g1, g2, hpts,
      exportCovCall_always C ys _ _ cov covCall_Coordinates rfl, coordFlags_mirror,
      parse_export_cov_checked C hC _ _ hcw, hmir, Bool.false_eq_true, if_false]
  | vectors vecs cov =>
    obtain ⟨h1, h2⟩ := hw
    refine ⟨pp, ?_⟩
    have hm := mapM_ok' (parseVec C) (exportVec C ys) (mirrorVecIf C ys) vecs
      (fun v hv => parse_export_vec C hC ys v (h1 v hv))
    have hcw : (if ys then mirrorCov C.neg (mirOf (vecFlags vecs)) cov else cov).WF C.CovRep (vecFlags vecs).length := by
      cases ys
      · exact h2
      · exact mirrorCov_WF _ hC.covRep_neg _ _ _ h2
    have hmir : mirrorClusterIf C ys (.vectors vecs cov) =
        .vectors (vecs.map (mirrorVecIf C ys)) (if ys then mirrorCov C.neg (mirOf (vecFlags vecs)) cov else cov) := by
      cases ys <;> simp [mirrorClusterIf, mirrorCluster, mirrorVecIf_true, mirrorVecIf_false]
    simp only [exportCluster', parseItem, hm,
      exportCovCall_always C ys _ _ cov covCall_Vectors rfl, vecFlags_map,
      parse_export_cov_checked C hC _ _ hcw, hmir]

/-! ## the document -/

theorem points_phase (C : Codec K) (hC : C.LawfulOn R) (impl : Kind → K) (par : Params K) (ys : Bool) (cl : List (Cluster K))
    (ps : List (Point K)) (acc : List (Point K)) (pp : String)
    (hid : ∀ p ∈ ps, p.id ≠ "" ∧ p.Rep R) (hnd : (ps.map (·.id)).Nodup) (hdis : ∀ p ∈ ps, ∀ q ∈ acc, q.id ≠ p.id) :
    ∃ pp', (ps.map (fun p => DItem.point (exportPoint C ys p))).foldlM (parseItem C impl par) ⟨acc, cl, pp⟩
      = .ok ⟨acc ++ ps.map (mirrorIf C ys), cl, pp'⟩ := by
  induction ps generalizing acc pp with
  | nil => exact ⟨pp, by simp [pure, Except.pure]⟩
  | cons p ps ih =>
    obtain ⟨u, hu, huid, hua⟩ := parse_export_point' C hC ys pp p (hid p List.mem_cons_self).1 (hid p List.mem_cons_self).2
    have hfresh := upsert_fresh acc p.id u.apply (fun q hq => hdis p List.mem_cons_self q hq)
    rw [hua] at hfresh
    simp only [List.map_cons, List.nodup_cons, List.mem_map, not_exists, not_and] at hnd
    obtain ⟨pp', hrest⟩ := ih (acc ++ [mirrorIf C ys p]) p.id (fun q hq => hid q (List.mem_cons_of_mem _ hq)) hnd.2
      (by
        intro q hq r hr
        rcases List.mem_append.mp hr with h | h
        · exact hdis q (List.mem_cons_of_mem _ hq) r h
        · simp only [List.mem_singleton] at h
          subst h
          rw [mirrorIf_id]
          exact fun e => hnd.1 q hq e.symm)
    refine ⟨pp', ?_⟩
    simp only [List.map_cons, List.foldlM_cons, parseItem, hu, huid, hfresh, bind, Except.bind]
    rw [hrest]
    simp

theorem clusters_phase {Rd : K → Prop} (C : Codec K) (hC : C.LawfulOn R) (hD : C.DegLawfulOn Rd) (impl : Kind → K) (par : Params K)
    (ys gons : Bool) (ps0 : List (Point K))
    (cs : List (Cluster K)) (hw : ∀ c ∈ cs, c.WF C R Rd gons par.sigmaApr ps0) (cl : List (Cluster K)) (pp : String) :
    ∃ pp', (cs.map (exportCluster' C ys gons)).foldlM (parseItem C impl par) ⟨ps0.map (mirrorIf C ys), cl, pp⟩
      = .ok ⟨ps0.map (mirrorIf C ys), cl ++ cs.map (mirrorClusterIf C ys), pp'⟩ := by
  induction cs generalizing cl pp with
  | nil => exact ⟨pp, by simp [pure, Except.pure]⟩
  | cons c cs ih =>
    obtain ⟨pp1, h1⟩ := parse_export_cluster' C hC hD impl par ys gons ps0 cl pp c (hw c List.mem_cons_self)
    obtain ⟨pp2, h2⟩ := ih (fun c' h' => hw c' (List.mem_cons_of_mem _ h')) (cl ++ [mirrorClusterIf C ys c]) pp1
    refine ⟨pp2, ?_⟩
    simp only [List.map_cons, List.foldlM_cons, h1, bind, Except.bind]
    rw [h2]
    simp

theorem parse_export_raw {Rd : K → Prop} (C : Codec K) (hC : C.LawfulOn R) (hD : C.DegLawfulOn Rd) (impl : Kind → K) (par0 : Params K)
    (n : Net K) (hw : n.WF C R Rd) :
    parseRaw C impl par0 (exportNet C n) =
      .ok ⟨n.head, n.descr, n.par, (n.points.filter Point.active).map (mirrorIf C n.head.ys),
           n.clusters.map (mirrorClusterIf C n.head.ys)⟩ := by
  obtain ⟨h1, he, h3, h4, h5⟩ := hw
  have hsub : ∀ p ∈ n.points.filter Point.active, p ∈ n.points := fun p hp => (List.mem_filter.mp hp).1
  obtain ⟨pp1, hp1⟩ := points_phase C hC impl n.par n.head.ys [] (n.points.filter Point.active) [] ""
    (fun p hp => h3 p (hsub p hp)) ((List.filter_sublist.map _).nodup h4) (fun _ _ q hq => by simp at hq)
  obtain ⟨pp2, hp2⟩ := clusters_phase C hC hD impl n.par n.head.ys n.par.gons (n.points.filter Point.active) n.clusters h5 [] pp1
  simp only [parseRaw, exportNet, parse_export_head C hC n.head he,
    parse_export_params C hC { par0 with algorithm := none, latitude := none, ellipsoid := none } n.par h1 ⟨rfl, rfl, rfl⟩,
    List.foldlM_append, bind, Except.bind, List.any_nil, Bool.false_eq_true, if_false]
  simp only [List.nil_append] at hp1 hp2
  rw [hp1]
  simp only [hp2]
  rfl

theorem mirrorPoint_mirrorPoint (C : Codec K) (hC : C.LawfulOn R) (p : Point K) : mirrorPoint C (mirrorPoint C p) = p := by
  obtain ⟨id, xy, z, s1, s2⟩ := p
  cases xy <;> simp [mirrorPoint, hC.neg_neg]

theorem mirrorCPoint_mirrorCPoint (C : Codec K) (hC : C.LawfulOn R) (p : CPoint K) : mirrorCPoint C (mirrorCPoint C p) = p := by
  obtain ⟨id, xy, z⟩ := p
  cases xy <;> simp [mirrorCPoint, hC.neg_neg]

theorem mirrorVec_mirrorVec (C : Codec K) (hC : C.LawfulOn R) (v : Vec K) : mirrorVec C (mirrorVec C v) = v := by
  simp [mirrorVec, hC.neg_neg]

theorem map_invol {α : Type} (f : α → α) (h : ∀ a, f (f a) = a) (l : List α) : (l.map f).map f = l := by
  rw [List.map_map]
  conv => rhs; rw [← List.map_id l]
  apply List.map_congr_left
  intro a _
  exact h a

theorem mirrorCluster_mirrorCluster (C : Codec K) (hC : C.LawfulOn R) (c : Cluster K) : mirrorCluster C (mirrorCluster C c) = c := by
  cases c with
  | obs sp cov => rfl
  | hdiffs dhs cov => rfl
  | coords ext pts cov =>
    have hf := coordFlags_mirror C true pts
    rw [mirrorCPointIf_true] at hf
    simp only [mirrorCluster, hf, map_invol _ (mirrorCPoint_mirrorCPoint C hC), mirrorCov_mirrorCov C.neg hC.neg_neg]
  | vectors vecs cov =>
    simp only [mirrorCluster, vecFlags_map, map_invol _ (mirrorVec_mirrorVec C hC), mirrorCov_mirrorCov C.neg hC.neg_neg]

theorem parse_export_net {Rd : K → Prop} (C : Codec K) (hC : C.LawfulOn R) (hD : C.DegLawfulOn Rd) (impl : Kind → K) (par0 : Params K)
    (n : Net K) (hw : n.WF C R Rd) :
    parseNet C impl par0 (exportNet C n) = .ok (canon n) := by
  unfold parseNet
  rw [parse_export_raw C hC hD impl par0 n hw]
  simp only [Except.map, mirrorNet, canon]
  cases hy : n.head.ys
  · have e1 : mirrorIf C false = id := funext fun _ => rfl
    have e2 : mirrorClusterIf C false = id := funext fun _ => rfl
    simp [e1, e2]
  · have e1 : mirrorIf C true = mirrorPoint C := funext fun _ => rfl
    have e2 : mirrorClusterIf C true = mirrorCluster C := funext fun _ => rfl
    simp only [if_true, e1, e2, map_invol _ (mirrorPoint_mirrorPoint C hC), map_invol _ (mirrorCluster_mirrorCluster C hC)]

theorem exportNet_canon (C : Codec K) (n : Net K) : exportNet C (canon n) = exportNet C n := by
  simp [exportNet, canon, List.filter_filter]

end Gama.Export
