/-
  Lemmas for C13, whole document: `parseNet ∘ exportNet` on points, parameters, the `<network>` tag, the four cluster
  kinds and the document fold.
-/
import Gama.Lemmas.Export
import Gama.Model.ExportNet
namespace Gama.Export
open Gama.Gen.GkfAttrs Gama.Gen.GkfDoc

variable {K : Type} {R : K → Prop}

/-- the hypotheses about numbers, relative to the representable ones (`R`, see `NumFmt.LawfulOn`) -/
structure Codec.LawfulOn (C : Codec K) (R : K → Prop) : Prop where
  num : C.toNumFmt.LawfulOn R
  neg_neg : ∀ x, C.neg (C.neg x) = x
  R_neg : ∀ x, R x → R (C.neg x)                  -- the printer treats the sign symmetrically
  rdI_fmtI : ∀ i : Int, -1 ≤ i → C.rdI (C.fmtI i) = some i     -- cov-band ≥ −1 (set_adj_covband)
  latIn_latOut : ∀ x, C.latIn (C.latOut x) = x
  rdDeg_fmt : ∀ x, C.rdDeg (C.fmt x) = none       -- a plain number is not a sexagesimal string
  fmt_ne : ∀ x, C.fmt x ≠ ""                      -- the parser's presence test is `s != ""`

def mirrorIf (C : Codec K) (ys : Bool) (p : Point K) : Point K := if ys then mirrorPoint C p else p
def mirrorCPointIf (C : Codec K) (ys : Bool) (p : CPoint K) : CPoint K := if ys then mirrorCPoint C p else p
def mirrorVecIf (C : Codec K) (ys : Bool) (v : Vec K) : Vec K := if ys then mirrorVec C v else v
def mirrorClusterIf (C : Codec K) (ys : Bool) (c : Cluster K) : Cluster K := if ys then mirrorCluster C c else c

/-! ## points -/

/-- the coordinates of a point are representable -/
def Point.Rep (R : K → Prop) (p : Point K) : Prop :=
  (match p.xy with | some v => R v.1 ∧ R v.2 | none => True) ∧ (match p.z with | some z => R z | none => True)

set_option maxRecDepth 4000 in
set_option maxHeartbeats 4000000 in
theorem parse_export_point (C : Codec K) (hC : C.LawfulOn R) (ys : Bool) (pp : String) (p : Point K) (hid : p.id ≠ "")
    (hrep : p.Rep R) :
    (parsePointAttrs C pp (exportPoint C ys p)).map (fun u => (u.id, u.apply ⟨p.id, none, none, .unused, .unused⟩))
      = .ok (p.id, mirrorIf C ys p) := by
  obtain ⟨id, xy, z, sxy, sz⟩ := p
  have hr := hC.num.rd_fmt
  have hne := hC.fmt_ne
  have hn := hC.R_neg
  simp only at hid
  cases xy <;> cases z <;> simp only [Point.Rep] at hrep <;> cases sxy <;> cases sz <;> cases ys <;>
  simp [parsePointAttrs, exportPoint, pvar, fixStr, adjStr, stLetters, statusChainXY, statusChainZ, stHolds, PAttr.role,
    adjCode, fixCode, PointUpd.apply, adjBeforeFix, applySetter, mirrorIf, mirrorPoint, sgn, pointYSigned, hr, hn, hne, hid,
    bind, Except.bind, pure, Except.pure, Except.map, *]

theorem parse_export_point' (C : Codec K) (hC : C.LawfulOn R) (ys : Bool) (pp : String) (p : Point K) (hid : p.id ≠ "")
    (hrep : p.Rep R) :
    ∃ u, parsePointAttrs C pp (exportPoint C ys p) = .ok u ∧ u.id = p.id ∧
         u.apply ⟨p.id, none, none, .unused, .unused⟩ = mirrorIf C ys p := by
  have h := parse_export_point C hC ys pp p hid hrep
  cases hq : parsePointAttrs C pp (exportPoint C ys p) with
  | error e => rw [hq] at h; simp [Except.map] at h
  | ok u =>
    rw [hq] at h
    simp only [Except.map, Except.ok.injEq, Prod.mk.injEq] at h
    exact ⟨u, rfl, h.1, h.2⟩

theorem upsert_fresh (ps : List (Point K)) (id : String) (f : Point K → Point K)
    (h : ∀ p ∈ ps, p.id ≠ id) : upsert ps id f = ps ++ [f ⟨id, none, none, .unused, .unused⟩] := by
  have : ps.any (fun p => p.id == id) = false := by
    simp only [List.any_eq_false, beq_iff_eq]
    exact fun p hp => h p hp
  simp [upsert, this]

theorem upsert_noop (ps : List (Point K)) (id : String) (f : Point K → Point K)
    (hex : ∃ p ∈ ps, p.id = id) (hf : ∀ p ∈ ps, p.id = id → f p = p) : upsert ps id f = ps := by
  have : ps.any (fun p => p.id == id) = true := by
    simp only [List.any_eq_true, beq_iff_eq]
    exact hex
  simp only [upsert, this, if_true]
  conv => rhs; rw [← List.map_id ps]
  apply List.map_congr_left
  intro p hp
  by_cases e : p.id = id
  · simp [e, hf p hp e]
  · simp [e]

/-! ## parameters and the `<network>` tag -/

/-- what `process_parameters` and the LocalNetwork setters establish -/
structure Params.WF (C : Codec K) (R : K → Prop) (p : Params K) : Prop where
  sigma : C.pos p.sigmaApr = true
  conf : C.pos p.confPr = true ∧ C.lt1 p.confPr = true
  tol : C.pos p.tolAbs = true
  alg : ∀ a, p.algorithm = some a → a ∈ algNames
  ell : ∀ e, p.ellipsoid = some e → C.ellKnown e = true
  band : -1 ≤ p.covBand
  rep : R p.sigmaApr ∧ R p.confPr ∧ R p.tolAbs ∧ ∀ l, p.latitude = some l → R (C.latOut l)

set_option maxRecDepth 4000 in
theorem parse_export_params (C : Codec K) (hC : C.LawfulOn R) (p0 p : Params K) (hw : p.WF C R)
    (h0 : p0.algorithm = none ∧ p0.latitude = none ∧ p0.ellipsoid = none) :
    parseParams C p0 (exportParams C p) = .ok p := by
  obtain ⟨sa, cp, ta, ap, g, alg, lat, ell, cb⟩ := p
  obtain ⟨a0, b0, c0, d0, e0, alg0, lat0, ell0, cb0⟩ := p0
  obtain ⟨h1, h2, h3, h4, h5, h6, h7⟩ := hw
  simp only at h1 h2 h3 h4 h5 h6 h7 h0
  obtain ⟨rfl, rfl, rfl⟩ := h0
  have hr := hC.num.rd_fmt
  have hb : ¬ cb < -1 := by omega
  have q1 := hr sa h7.1
  have q2 := hr cp h7.2.1
  have q3 := hr ta h7.2.2.1
  have q4 : ∀ l, lat = some l → C.rd (C.fmt (C.latOut l)) = some (C.latOut l) := fun l hl => hr _ (h7.2.2.2 l hl)
  cases alg <;> cases lat <;> cases ell <;> cases ap <;> cases g <;>
  simp [parseParams, exportParams, parseParam, ParAttr.dest, ParAttr.guard, guardOk, sigmaActName, sigmaActCode, angularCode,
    latitudeInGons, q1, q2, q3, q4, hC.rdI_fmtI cb h6, hC.latIn_latOut, hC.rdDeg_fmt, h1, h2, h3, hb, List.foldlM, bind, Except.bind, pure,
    Except.pure, Except.map]
  all_goals simp_all

theorem parse_export_head (C : Codec K) (hC : C.LawfulOn R) (h : Head K) (hrep : ∀ e, h.epoch = some e → R e) :
    parseHead C (exportHead C h) = .ok h := by
  obtain ⟨ax, la, ep⟩ := h
  simp only at hrep
  have hr : ∀ e, ep = some e → C.rd (C.fmt e) = some e := fun e he => hC.num.rd_fmt e (hrep e he)
  cases ax <;> cases la <;> cases ep <;>
  simp [parseHead, exportHead, parseHeadAttr, Axes.xmlName, axesCode, anglesName, anglesCode, hr, List.foldlM, bind,
    Except.bind, pure, Except.pure]

/-! ## covariance matrices -/

/-- what `process_cov` / `finish_cov` / `finish_<cluster>` establish for a cluster of `n` observations -/
structure Cov.WF (R : K → Prop) (c : Cov K) (n : Nat) : Prop where
  dim_pos : 1 ≤ c.dim
  band_lt : c.band < c.dim
  dim_eq : c.dim = n
  len : c.data.length = c.dim * (c.band + 1) - c.band * (c.band + 1) / 2
  rep : ∀ x ∈ c.data, R x

theorem flipWith_length (neg : K → K) (bs : List Bool) (xs : List K) : (flipWith neg bs xs).length = xs.length := by
  induction bs generalizing xs with
  | nil => cases xs <;> rfl
  | cons b bs ih => cases xs with
    | nil => rfl
    | cons x xs => simp [flipWith, ih]

theorem flipWith_false (neg : K → K) (bs : List Bool) (xs : List K) (h : ∀ b ∈ bs, b = false) : flipWith neg bs xs = xs := by
  induction bs generalizing xs with
  | nil => cases xs <;> rfl
  | cons b bs ih => cases xs with
    | nil => rfl
    | cons x xs =>
      have hb : b = false := h b List.mem_cons_self
      subst hb
      simp [flipWith, ih xs (fun b' hb' => h b' (List.mem_cons_of_mem _ hb'))]

theorem mirrorCov_false (neg : K → K) (c : Cov K) : mirrorCov neg (fun _ => false) c = c := by
  unfold mirrorCov
  rw [flipWith_false]
  intro b hb
  simp only [entrySigns, List.mem_flatMap, List.mem_map] at hb
  obtain ⟨_, _, _, _, rfl⟩ := hb
  rfl

theorem mirrorCov_WF (neg : K → K) (hR : ∀ x, R x → R (neg x)) (mir : Nat → Bool) (c : Cov K) (n : Nat) (h : c.WF R n) :
    (mirrorCov neg mir c).WF R n := by
  obtain ⟨h1, h2, h3, h4, h5⟩ := h
  exact ⟨h1, h2, h3, by simp [mirrorCov, flipWith_length, h4], flipWith_mem neg hR _ _ h5⟩

theorem parse_export_cov_checked (C : Codec K) (hC : C.LawfulOn R) (n : Nat) (c : Cov K) (h : c.WF R n) :
    parseCovChecked C n (exportCov C.toNumFmt c) = .ok c := by
  obtain ⟨h1, h2, h3, h4, h5⟩ := h
  have hcond : ¬ ((exportCov C.toNumFmt c).1 < 1 ∨ (exportCov C.toNumFmt c).2.1 ≥ (exportCov C.toNumFmt c).1 ∨
      (exportCov C.toNumFmt c).1 ≠ n ∨ (exportCov C.toNumFmt c).2.2.length ≠
        (exportCov C.toNumFmt c).1 * ((exportCov C.toNumFmt c).2.1 + 1) - (exportCov C.toNumFmt c).2.1 * ((exportCov C.toNumFmt c).2.1 + 1) / 2) := by
    simp only [exportCov, List.length_map]
    omega
  unfold parseCovChecked
  rw [if_neg hcond, parse_export_cov C.toNumFmt hC.num c h5]

/-- the cov-mat of a `<coordinates>` / `<vectors>` cluster as written (gons): the internal matrix mirrored back -/
theorem exportCovCall_always (C : Codec K) (ys : Bool) (mir ang : Nat → Bool) (c : Cov K) (call : Bool × Bool)
    (hcall : call = (true, true)) :
    exportCovCall C call ys false mir ang c = some (exportCov C.toNumFmt (if ys then mirrorCov C.neg mir c else c)) := by
  subst hcall
  cases ys <;> simp [exportCovCall, covMirrors]

/-- the cov-mat of an `<obs>` / `<height-differences>` cluster as written (gons, band > 0) -/
theorem exportCovCall_band (C : Codec K) (ys : Bool) (ang : Nat → Bool) (c : Cov K) (call : Bool × Bool)
    (hcall : call.1 = false) (hb : c.band ≠ 0) :
    exportCovCall C call ys false (fun _ => false) ang c = some (exportCov C.toNumFmt c) := by
  obtain ⟨c1, c2⟩ := call
  simp only at hcall
  subst hcall
  have : (c.band == 0) = false := by simpa using hb
  cases ys <;> cases c2 <;> simp [exportCovCall, this, mirrorCov_false]

/-! ## observations of `<obs>` with the degree check -/

theorem val_of_export (F : NumFmt K) (cf : String) (o : Obs K) (a : Attr × String)
    (ha : a ∈ (exportObs F true cf o).2) (hv : a.1 = Attr.val) : a.2 = F.fmt o.val := by
  obtain ⟨a1, a2⟩ := a
  simp only at hv
  subst hv
  simp only [exportObs, dhAttr] at ha
  repeat' split at ha
  all_goals simp at ha
  all_goals simp_all

theorem route_valDest (k : Kind) (a : Attr) (h : route k.elem a = some (valDest k)) : a = Attr.val := by
  cases k <;> cases a <;> simp [route, Kind.elem, valDest] at h <;> rfl

theorem parseElemU_plain (C : Codec K) (impl : Kind → K) (cf : String) (cdh : K) (ea : Elem × Attrs) (k : Kind)
    (hk : kindOf ea.1 = some k) (hdeg : ∀ a ∈ ea.2, degOf C ea.1 k a = none) :
    parseElemU C impl cf cdh ea = (parseObs C.toNumFmt cf cdh (impl k) k ea.2).map (fun o => (o, false)) := by
  have hmap : ea.2.map (degSubst C ea.1 k) = ea.2 := by
    conv => rhs; rw [← List.map_id ea.2]
    apply List.map_congr_left
    intro a ha
    simp [degSubst, hdeg a ha]
  have hany : ea.2.any (fun a => (degOf C ea.1 k a).isSome) = false := by
    simp only [List.any_eq_false]
    intro a ha
    simp [hdeg a ha]
  unfold parseElemU
  rw [hk]
  simp only [hmap, hany]

theorem parse_export_elemU (C : Codec K) (hC : C.LawfulOn R) (impl : Kind → K) (cf : String) (o : Obs K)
    (hw : o.WF C.toNumFmt) (hr : o.Rep R) (hdir : o.kind = .direction → o.from_ = cf) :
    parseElemU C impl cf C.zero (exportObsU C true cf o) = .ok (o, false) := by
  have hx : exportObsU C true cf o = exportObs C.toNumFmt true cf o := by simp [exportObsU]
  have he : (exportObs C.toNumFmt true cf o).1 = o.kind.elem := rfl
  have hdeg : ∀ a ∈ (exportObs C.toNumFmt true cf o).2, degOf C (exportObs C.toNumFmt true cf o).1 o.kind a = none := by
    intro a ha
    unfold degOf
    by_cases hc : (o.kind.angular && route (exportObs C.toNumFmt true cf o).1 a.1 == some (valDest o.kind)) = true
    · have hr : route o.kind.elem a.1 = some (valDest o.kind) := by
        simp only [Bool.and_eq_true, beq_iff_eq] at hc
        exact hc.2
      have hv := val_of_export C.toNumFmt cf o a ha (route_valDest o.kind a.1 hr)
      rw [if_pos hc, hv]
      exact hC.rdDeg_fmt _
    · rw [if_neg hc]
  rw [hx, parseElemU_plain C impl cf C.zero _ o.kind (by rw [he]; exact kindOf_elem _) hdeg,
    parse_export_obs C.toNumFmt hC.num cf (impl o.kind) o hw hr hdir]
  rfl

theorem mapM_ok' {α β γ ε : Type} (f : α → Except ε γ) (g : β → α) (h : β → γ) (l : List β)
    (hh : ∀ b ∈ l, f (g b) = .ok (h b)) : (l.map g).mapM f = .ok (l.map h) := by
  induction l with
  | nil => rfl
  | cons b l ih =>
    have hb := hh b List.mem_cons_self
    have hl := ih (fun b' hb' => hh b' (List.mem_cons_of_mem _ hb'))
    simp [List.mapM_cons, hb, hl, bind, Except.bind, pure, Except.pure]

/-! ## vectors and coordinate points -/

structure Vec.WF (C : Codec K) (R : K → Prop) (v : Vec K) : Prop where
  from_ne : v.from_ ≠ ""
  to_ne : v.to ≠ ""
  dh : v.fromDh = C.zero ∧ v.toDh = C.zero        -- from_dh / to_dh of a vector are not exported (and not used)
  rep : R v.dx ∧ R v.dy ∧ R v.dz

set_option maxRecDepth 4000 in
theorem parse_export_vec (C : Codec K) (hC : C.LawfulOn R) (ys : Bool) (v : Vec K) (hw : v.WF C R) :
    parseVec C (exportVec C ys v) = .ok (mirrorVecIf C ys v) := by
  obtain ⟨f, t, dx, dy, dz, fd, td, ex⟩ := v
  obtain ⟨h1, h2, ⟨h3, h4⟩, r1, r2, r3⟩ := hw
  simp only at h1 h2 h3 h4 r1 r2 r3
  subst h3 h4
  have q1 := hC.num.rd_fmt dx r1
  have q2 := hC.num.rd_fmt dy r2
  have q3 := hC.num.rd_fmt dz r3
  have q4 := hC.num.rd_fmt _ (hC.R_neg dy r2)
  by_cases e : ex = "" <;> cases ys <;>
  simp [parseVec, exportVec, reach, route, rdOr, sgn, visSigned_dx, visSigned_dy, visSigned_dz, mirrorVecIf, mirrorVec, q1, q2, q3, q4,
    h1, h2, e, bind, Except.bind, pure, Except.pure]

structure CPoint.WF (R : K → Prop) (p : CPoint K) : Prop where
  id_ne : p.id ≠ ""
  some_coord : p.xy.isSome = true ∨ p.z.isSome = true
  rep : (match p.xy with | some v => R v.1 ∧ R v.2 | none => True) ∧ (match p.z with | some z => R z | none => True)

set_option maxRecDepth 4000 in
theorem parse_export_cpoint (C : Codec K) (hC : C.LawfulOn R) (ys : Bool) (pp : String) (p : CPoint K) (hid : p.id ≠ "")
    (hrep : (match p.xy with | some v => R v.1 ∧ R v.2 | none => True) ∧ (match p.z with | some z => R z | none => True)) :
    parsePointAttrs C pp (exportCPoint C ys p) =
      .ok ⟨p.id, (mirrorCPointIf C ys p).xy, (mirrorCPointIf C ys p).z, [], []⟩ := by
  obtain ⟨id, xy, z⟩ := p
  have hr := hC.num.rd_fmt
  have hne := hC.fmt_ne
  have hn := hC.R_neg
  simp only at hid
  cases xy <;> cases z <;> simp only at hrep <;> cases ys <;>
  simp [parsePointAttrs, exportCPoint, pvar, PAttr.role, mirrorCPointIf, mirrorCPoint, sgn, visSigned_x, visSigned_y, visSigned_z,
    hr, hn, hne, hid, bind, Except.bind, pure, Except.pure, *]

/-- a coordinate observation agrees with the point's coordinates: what `process_coords_point → process_point`
    establishes (the observed coordinates overwrite the approximate ones) -/
def agrees (p : Point K) (c : CPoint K) : Prop :=
  (∀ v, c.xy = some v → p.xy = some v) ∧ (∀ v, c.z = some v → p.z = some v)

theorem apply_noop (id : String) (p : Point K) (c : CPoint K) (h : agrees p c) :
    (⟨id, c.xy, c.z, [], []⟩ : PointUpd K).apply p = p := by
  obtain ⟨pid, pxy, pz, s1, s2⟩ := p
  obtain ⟨cid, cxy, cz⟩ := c
  obtain ⟨h1, h2⟩ := h
  simp only at h1 h2
  cases cxy <;> cases cz <;> simp_all [PointUpd.apply, adjBeforeFix]

theorem parse_export_cpoints (C : Codec K) (hC : C.LawfulOn R) (ys : Bool) (ps : List (Point K)) (pts : List (CPoint K))
    (hw : ∀ c ∈ pts, c.WF R)
    (hag : ∀ c ∈ pts, (∃ p ∈ ps, p.id = c.id) ∧ ∀ p ∈ ps, p.id = c.id → agrees p (mirrorCPointIf C ys c)) (pp : String) :
    ∃ pp', parseCoordPts C ps pp (pts.map (exportCPoint C ys)) = .ok (ps, pp', pts.map (mirrorCPointIf C ys)) := by
  induction pts generalizing pp with
  | nil => exact ⟨pp, rfl⟩
  | cons c pts ih =>
    have hc := hw c List.mem_cons_self
    have hg := hag c List.mem_cons_self
    obtain ⟨pp', hrest⟩ := ih (fun c' h' => hw c' (List.mem_cons_of_mem _ h')) (fun c' h' => hag c' (List.mem_cons_of_mem _ h')) c.id
    refine ⟨pp', ?_⟩
    have hup : upsert ps c.id (⟨c.id, (mirrorCPointIf C ys c).xy, (mirrorCPointIf C ys c).z, [], []⟩ : PointUpd K).apply = ps :=
      upsert_noop ps c.id _ hg.1 (fun p hp he => apply_noop c.id p _ (hg.2 p hp he))
    have hsome : ((mirrorCPointIf C ys c).xy.isNone && (mirrorCPointIf C ys c).z.isNone) = false := by
      obtain ⟨cid, cxy, cz⟩ := c
      have := hc.some_coord
      cases cxy <;> cases cz <;> cases ys <;> simp_all [mirrorCPointIf, mirrorCPoint]
    have hcp : (⟨c.id, (mirrorCPointIf C ys c).xy, (mirrorCPointIf C ys c).z⟩ : CPoint K) = mirrorCPointIf C ys c := by
      cases ys <;> simp [mirrorCPointIf, mirrorCPoint]
    simp only [List.map_cons, parseCoordPts, parse_export_cpoint C hC ys pp c hc.id_ne hc.rep, hsome, hup, hrest, hcp]
    rfl

/-! ## clusters -/

theorem agrees_mirror (C : Codec K) (ys : Bool) (p : Point K) (c : CPoint K) (h : agrees p c) :
    agrees (mirrorIf C ys p) (mirrorCPointIf C ys c) := by
  obtain ⟨pid, pxy, pz, s1, s2⟩ := p
  obtain ⟨cid, cxy, cz⟩ := c
  obtain ⟨h1, h2⟩ := h
  simp only at h1 h2
  cases ys
  · exact ⟨h1, h2⟩
  · cases cxy <;> cases cz <;> simp_all [agrees, mirrorIf, mirrorPoint, mirrorCPointIf, mirrorCPoint]

theorem mirrorCPointIf_true (C : Codec K) : mirrorCPointIf C true = mirrorCPoint C := funext fun _ => rfl
theorem mirrorCPointIf_false (C : Codec K) : mirrorCPointIf C false = id := funext fun _ => rfl
theorem mirrorVecIf_true (C : Codec K) : mirrorVecIf C true = mirrorVec C := funext fun _ => rfl
theorem mirrorVecIf_false (C : Codec K) : mirrorVecIf C false = id := funext fun _ => rfl

theorem mirrorIf_id (C : Codec K) (ys : Bool) (p : Point K) : (mirrorIf C ys p).id = p.id := by
  cases ys <;> rfl

theorem coordFlags_mirror (C : Codec K) (ys : Bool) (pts : List (CPoint K)) :
    coordFlags (pts.map (mirrorCPointIf C ys)) = coordFlags pts := by
  induction pts with
  | nil => rfl
  | cons c pts ih =>
    obtain ⟨cid, cxy, cz⟩ := c
    simp only [coordFlags, List.map_cons, List.flatMap_cons] at ih ⊢
    rw [ih]
    cases ys <;> cases cxy <;> cases cz <;> simp [mirrorCPointIf, mirrorCPoint]

theorem vecFlags_map (f : Vec K → Vec K) (vs : List (Vec K)) : vecFlags (vs.map f) = vecFlags vs := by
  induction vs with
  | nil => rfl
  | cons v vs ih =>
    simp only [vecFlags, List.map_cons, List.flatMap_cons] at ih ⊢
    rw [ih]

theorem obs_header (station : String) :
    (if station ≠ "" then [("from", station)] else [] : SAttrs).any (fun a => !obsAttrs.contains a.1) = false ∧
    sattr (if station ≠ "" then [("from", station)] else []) "orientation" = none ∧
    sattr (if station ≠ "" then [("from", station)] else []) "from_dh" = none ∧
    (sattr (if station ≠ "" then [("from", station)] else []) "from").getD "" = station := by
  by_cases h : station = "" <;> simp [h, sattr, obsAttrs]

theorem coords_header (ext : String) :
    (if ext ≠ "" then [("extern", ext)] else [] : SAttrs).any (fun a => !coordsAttrs.contains a.1) = false ∧
    (sattr (if ext ≠ "" then [("extern", ext)] else []) "extern").getD "" = ext := by
  by_cases h : ext = "" <;> simp [h, sattr, coordsAttrs]

/-- invariants of a cluster; `s0` = sigma-apr, `ps` = the active points -/
def Cluster.WF (C : Codec K) (R : K → Prop) (s0 : K) (ps : List (Point K)) : Cluster K → Prop
  | .obs sp cov =>
    (∀ o ∈ sp.obs, o.WF C.toNumFmt ∧ o.Rep R ∧ (o.kind = .direction → o.from_ = sp.station)) ∧
    (∀ c, cov = some c → c.band ≠ 0 ∧ c.WF R sp.obs.length)
  | .hdiffs dhs cov =>
    (∀ h ∈ dhs, h.from_ ≠ "" ∧ h.to ≠ "" ∧ (C.pos h.dist = false → h.dist = C.zero) ∧
                (C.pos h.dist = true → h.stdev = C.sdDist s0 h.dist) ∧
                (R h.val ∧ (C.pos h.dist = true → R h.dist) ∧ (C.pos h.dist = false → R h.stdev))) ∧
    (∀ c, cov = some c → c.band ≠ 0 ∧ c.WF R dhs.length)
  | .coords _ pts cov =>
    (∀ c ∈ pts, c.WF R) ∧ cov.WF R (coordFlags pts).length ∧
    (∀ c ∈ pts, (∃ p ∈ ps, p.id = c.id) ∧ ∀ p ∈ ps, p.id = c.id → agrees p c)
  | .vectors vecs cov => (∀ v ∈ vecs, v.WF C R) ∧ cov.WF R (vecFlags vecs).length

theorem parse_export_cluster' (C : Codec K) (hC : C.LawfulOn R) (impl : Kind → K) (par : Params K) (ys : Bool)
    (ps0 : List (Point K)) (cl : List (Cluster K)) (pp : String) (c : Cluster K) (hw : c.WF C R par.sigmaApr ps0) :
    ∃ pp', parseItem C impl par ⟨ps0.map (mirrorIf C ys), cl, pp⟩ (exportCluster' C ys true c)
      = .ok ⟨ps0.map (mirrorIf C ys), cl ++ [mirrorClusterIf C ys c], pp'⟩ := by
  cases c with
  | obs sp cov =>
    obtain ⟨station, obs⟩ := sp
    obtain ⟨h1, h2⟩ := hw
    simp only at h1 h2
    refine ⟨pp, ?_⟩
    obtain ⟨g1, g2, g3, g4⟩ := obs_header station
    have hm := mapM_ok' (parseElemU C impl station C.zero) (exportObsU C true station) (fun o => (o, false)) obs
      (fun o ho => parse_export_elemU C hC impl station o (h1 o ho).1 (h1 o ho).2.1 (h1 o ho).2.2)
    have hmir : mirrorClusterIf C ys (.obs ⟨station, obs⟩ cov) = .obs ⟨station, obs⟩ cov := by
      cases ys <;> rfl
    have hobs : (obs.map (fun o => (o, false))).map
        (fun of => if of.2 = true then { of.1 with stdev := C.fromSec of.1.stdev } else of.1) = obs := by
      rw [List.map_map]
      conv => rhs; rw [← List.map_id obs]
      apply List.map_congr_left
      intro o _
      simp
    have hany : (obs.map (fun o => ((o, false) : Obs K × Bool))).any (·.2) = false := by
      simp
    cases cov with
    | none =>
      simp only [exportCluster', parseItem, g1, g2, g3, g4, rdOr, hm, hobs, hmir, Option.bind_none, Bool.false_eq_true, if_false]
    | some cv =>
      obtain ⟨hb, hcw⟩ := h2 cv rfl
      have hbb : (cv.band == 0) = false := by simpa using hb
      have hcall : covCall_StandPoint.1 = false := by simp [covCall_StandPoint]
      simp only [exportCluster', parseItem, g1, g2, g3, g4, rdOr, hm, hobs, hany, hmir, Option.bind_some, Bool.not_true,
        exportCovCall_band C ys _ cv _ hcall hb, List.length_map, parse_export_cov_checked C hC _ cv hcw, hbb,
        Bool.false_eq_true, if_false]
  | hdiffs dhs cov =>
    obtain ⟨h1, h2⟩ := hw
    refine ⟨pp, ?_⟩
    have hm := mapM_ok' (fun ea : Elem × Attrs => parseDh C.toNumFmt (C.sdDist par.sigmaApr) ea.2)
      (exportDh C.toNumFmt true C.pos) (fun h => h) dhs
      (fun h hh => parse_export_dh C.toNumFmt hC.num _ C.pos h (h1 h hh).1 (h1 h hh).2.1 (h1 h hh).2.2.2.2 (h1 h hh).2.2.1 (h1 h hh).2.2.2.1)
    have hel : (dhs.map (exportDh C.toNumFmt true C.pos)).any (fun ea => decide (ea.1 ≠ Elem.dh)) = false := by
      simp [exportDh]
    have hmir : mirrorClusterIf C ys (.hdiffs dhs cov) = .hdiffs dhs cov := by
      cases ys <;> rfl
    cases cov with
    | none =>
      simp only [exportCluster', parseItem, hel, hm, hmir, List.map_id', Option.bind_none, Bool.false_eq_true, if_false]
    | some cv =>
      obtain ⟨hb, hcw⟩ := h2 cv rfl
      have hbb : (cv.band == 0) = false := by simpa using hb
      have hcall : covCall_HeightDifferences.1 = false := by simp [covCall_HeightDifferences]
      simp only [exportCluster', parseItem, hel, hm, hmir, List.map_id', Option.bind_some, Bool.not_true,
        exportCovCall_band C ys _ cv _ hcall hb, List.length_map, parse_export_cov_checked C hC _ cv hcw, hbb,
        Bool.false_eq_true, if_false]
  | coords ext pts cov =>
    obtain ⟨h1, h2, h3⟩ := hw
    obtain ⟨g1, g2⟩ := coords_header ext
    have hag : ∀ c ∈ pts, (∃ p ∈ ps0.map (mirrorIf C ys), p.id = c.id) ∧
        ∀ p ∈ ps0.map (mirrorIf C ys), p.id = c.id → agrees p (mirrorCPointIf C ys c) := by
      intro c hc
      obtain ⟨⟨p, hp, hpe⟩, hall⟩ := h3 c hc
      refine ⟨⟨mirrorIf C ys p, List.mem_map_of_mem hp, by rw [mirrorIf_id]; exact hpe⟩, ?_⟩
      intro q hq hqe
      obtain ⟨q0, hq0, rfl⟩ := List.mem_map.mp hq
      rw [mirrorIf_id] at hqe
      exact agrees_mirror C ys q0 c (hall q0 hq0 hqe)
    obtain ⟨pp', hpts⟩ := parse_export_cpoints C hC ys (ps0.map (mirrorIf C ys)) pts h1 hag pp
    refine ⟨pp', ?_⟩
    have hcw : (if ys then mirrorCov C.neg (mirOf (coordFlags pts)) cov else cov).WF R (coordFlags pts).length := by
      cases ys
      · exact h2
      · exact mirrorCov_WF _ hC.R_neg _ _ _ h2
    have hmir : mirrorClusterIf C ys (.coords ext pts cov) =
        .coords ext (pts.map (mirrorCPointIf C ys)) (if ys then mirrorCov C.neg (mirOf (coordFlags pts)) cov else cov) := by
      cases ys <;> simp [mirrorClusterIf, mirrorCluster, mirrorCPointIf_true, mirrorCPointIf_false]
    simp only [exportCluster', parseItem, g1, g2, hpts, Bool.not_true,
      exportCovCall_always C ys _ _ cov covCall_Coordinates rfl, coordFlags_mirror,
      parse_export_cov_checked C hC _ _ hcw, hmir, Bool.false_eq_true, if_false]
  | vectors vecs cov =>
    obtain ⟨h1, h2⟩ := hw
    refine ⟨pp, ?_⟩
    have hm := mapM_ok' (parseVec C) (exportVec C ys) (mirrorVecIf C ys) vecs
      (fun v hv => parse_export_vec C hC ys v (h1 v hv))
    have hcw : (if ys then mirrorCov C.neg (mirOf (vecFlags vecs)) cov else cov).WF R (vecFlags vecs).length := by
      cases ys
      · exact h2
      · exact mirrorCov_WF _ hC.R_neg _ _ _ h2
    have hmir : mirrorClusterIf C ys (.vectors vecs cov) =
        .vectors (vecs.map (mirrorVecIf C ys)) (if ys then mirrorCov C.neg (mirOf (vecFlags vecs)) cov else cov) := by
      cases ys <;> simp [mirrorClusterIf, mirrorCluster, mirrorVecIf_true, mirrorVecIf_false]
    simp only [exportCluster', parseItem, hm, Bool.not_true,
      exportCovCall_always C ys _ _ cov covCall_Vectors rfl, vecFlags_map,
      parse_export_cov_checked C hC _ _ hcw, hmir]

/-! ## the document -/

theorem points_phase (C : Codec K) (hC : C.LawfulOn R) (impl : Kind → K) (par : Params K) (ys : Bool) (cl : List (Cluster K))
    (ps : List (Point K)) (acc : List (Point K)) (pp : String)
    (hid : ∀ p ∈ ps, p.id ≠ "" ∧ p.Rep R) (hnd : (ps.map (·.id)).Nodup) (hdis : ∀ p ∈ ps, ∀ q ∈ acc, q.id ≠ p.id) :
    ∃ pp', (ps.map (fun p => DItem.point (exportPoint C ys p))).foldlM (parseItem C impl par) ⟨acc, cl, pp⟩
      = .ok ⟨acc ++ ps.map (mirrorIf C ys), cl, pp'⟩ := by
  induction ps generalizing acc pp with
  | nil => exact ⟨pp, by simp [pure, Except.pure]⟩
  | cons p ps ih =>
    obtain ⟨u, hu, huid, hua⟩ := parse_export_point' C hC ys pp p (hid p List.mem_cons_self).1 (hid p List.mem_cons_self).2
    have hfresh := upsert_fresh acc p.id u.apply (fun q hq => hdis p List.mem_cons_self q hq)
    rw [hua] at hfresh
    simp only [List.map_cons, List.nodup_cons, List.mem_map, not_exists, not_and] at hnd
    obtain ⟨pp', hrest⟩ := ih (acc ++ [mirrorIf C ys p]) p.id (fun q hq => hid q (List.mem_cons_of_mem _ hq)) hnd.2
      (by
        intro q hq r hr
        rcases List.mem_append.mp hr with h | h
        · exact hdis q (List.mem_cons_of_mem _ hq) r h
        · simp only [List.mem_singleton] at h
          subst h
          rw [mirrorIf_id]
          exact fun e => hnd.1 q hq e.symm)
    refine ⟨pp', ?_⟩
    simp only [List.map_cons, List.foldlM_cons, parseItem, hu, huid, hfresh, bind, Except.bind]
    rw [hrest]
    simp

theorem clusters_phase (C : Codec K) (hC : C.LawfulOn R) (impl : Kind → K) (par : Params K) (ys : Bool) (ps0 : List (Point K))
    (cs : List (Cluster K)) (hw : ∀ c ∈ cs, c.WF C R par.sigmaApr ps0) (cl : List (Cluster K)) (pp : String) :
    ∃ pp', (cs.map (exportCluster' C ys true)).foldlM (parseItem C impl par) ⟨ps0.map (mirrorIf C ys), cl, pp⟩
      = .ok ⟨ps0.map (mirrorIf C ys), cl ++ cs.map (mirrorClusterIf C ys), pp'⟩ := by
  induction cs generalizing cl pp with
  | nil => exact ⟨pp, by simp [pure, Except.pure]⟩
  | cons c cs ih =>
    obtain ⟨pp1, h1⟩ := parse_export_cluster' C hC impl par ys ps0 cl pp c (hw c List.mem_cons_self)
    obtain ⟨pp2, h2⟩ := ih (fun c' h' => hw c' (List.mem_cons_of_mem _ h')) (cl ++ [mirrorClusterIf C ys c]) pp1
    refine ⟨pp2, ?_⟩
    simp only [List.map_cons, List.foldlM_cons, h1, bind, Except.bind]
    rw [h2]
    simp

/-- what GKFparser (+ the setters it calls) establishes, as far as export_xml can write it back:
    parameters within their guards, output in gons, point ids non-empty and distinct, every cluster well-formed
    (`Cluster.WF`).  All components are bounded quantifications over the lists of the network and equalities. -/
structure Net.WF (C : Codec K) (R : K → Prop) (n : Net K) : Prop where
  par : n.par.WF C R
  gons : n.par.gons = true
  epoch : ∀ e, n.head.epoch = some e → R e
  ids : ∀ p ∈ n.points, p.id ≠ "" ∧ p.Rep R
  nodup : (n.points.map (·.id)).Nodup
  clusters : ∀ c ∈ n.clusters, c.WF C R n.par.sigmaApr (n.points.filter Point.active)

/-- export_xml skips the points that are not active (`if (!point.active()) continue;`) -/
def canon (n : Net K) : Net K := { n with points := n.points.filter Point.active }

theorem parse_export_raw (C : Codec K) (hC : C.LawfulOn R) (impl : Kind → K) (par0 : Params K) (n : Net K) (hw : n.WF C R) :
    parseRaw C impl par0 (exportNet C n) =
      .ok ⟨n.head, n.descr, n.par, (n.points.filter Point.active).map (mirrorIf C n.head.ys),
           n.clusters.map (mirrorClusterIf C n.head.ys)⟩ := by
  obtain ⟨h1, h2, he, h3, h4, h5⟩ := hw
  have hsub : ∀ p ∈ n.points.filter Point.active, p ∈ n.points := fun p hp => (List.mem_filter.mp hp).1
  obtain ⟨pp1, hp1⟩ := points_phase C hC impl n.par n.head.ys [] (n.points.filter Point.active) [] ""
    (fun p hp => h3 p (hsub p hp)) ((List.filter_sublist.map _).nodup h4) (fun _ _ q hq => by simp at hq)
  obtain ⟨pp2, hp2⟩ := clusters_phase C hC impl n.par n.head.ys (n.points.filter Point.active) n.clusters h5 [] pp1
  simp only [parseRaw, exportNet, parse_export_head C hC n.head he,
    parse_export_params C hC { par0 with algorithm := none, latitude := none, ellipsoid := none } n.par h1 ⟨rfl, rfl, rfl⟩,
    List.foldlM_append, h2, bind, Except.bind, List.any_nil, Bool.false_eq_true, if_false]
  simp only [List.nil_append] at hp1 hp2
  rw [hp1]
  simp only [hp2]
  rfl

theorem mirrorPoint_mirrorPoint (C : Codec K) (hC : C.LawfulOn R) (p : Point K) : mirrorPoint C (mirrorPoint C p) = p := by
  obtain ⟨id, xy, z, s1, s2⟩ := p
  cases xy <;> simp [mirrorPoint, hC.neg_neg]

theorem mirrorCPoint_mirrorCPoint (C : Codec K) (hC : C.LawfulOn R) (p : CPoint K) : mirrorCPoint C (mirrorCPoint C p) = p := by
  obtain ⟨id, xy, z⟩ := p
  cases xy <;> simp [mirrorCPoint, hC.neg_neg]

theorem mirrorVec_mirrorVec (C : Codec K) (hC : C.LawfulOn R) (v : Vec K) : mirrorVec C (mirrorVec C v) = v := by
  simp [mirrorVec, hC.neg_neg]

theorem map_invol {α : Type} (f : α → α) (h : ∀ a, f (f a) = a) (l : List α) : (l.map f).map f = l := by
  rw [List.map_map]
  conv => rhs; rw [← List.map_id l]
  apply List.map_congr_left
  intro a _
  exact h a

theorem mirrorCluster_mirrorCluster (C : Codec K) (hC : C.LawfulOn R) (c : Cluster K) : mirrorCluster C (mirrorCluster C c) = c := by
  cases c with
  | obs sp cov => rfl
  | hdiffs dhs cov => rfl
  | coords ext pts cov =>
    have hf := coordFlags_mirror C true pts
    rw [mirrorCPointIf_true] at hf
    simp only [mirrorCluster, hf, map_invol _ (mirrorCPoint_mirrorCPoint C hC), mirrorCov_mirrorCov C.neg hC.neg_neg]
  | vectors vecs cov =>
    simp only [mirrorCluster, vecFlags_map, map_invol _ (mirrorVec_mirrorVec C hC), mirrorCov_mirrorCov C.neg hC.neg_neg]

theorem parse_export_net (C : Codec K) (hC : C.LawfulOn R) (impl : Kind → K) (par0 : Params K) (n : Net K) (hw : n.WF C R) :
    parseNet C impl par0 (exportNet C n) = .ok (canon n) := by
  unfold parseNet
  rw [parse_export_raw C hC impl par0 n hw]
  simp only [Except.map, mirrorNet, canon]
  cases hy : n.head.ys
  · have e1 : mirrorIf C false = id := funext fun _ => rfl
    have e2 : mirrorClusterIf C false = id := funext fun _ => rfl
    simp [e1, e2]
  · have e1 : mirrorIf C true = mirrorPoint C := funext fun _ => rfl
    have e2 : mirrorClusterIf C true = mirrorCluster C := funext fun _ => rfl
    simp only [if_true, e1, e2, map_invol _ (mirrorPoint_mirrorPoint C hC), map_invol _ (mirrorCluster_mirrorCluster C hC)]

theorem exportNet_canon (C : Codec K) (n : Net K) : exportNet C (canon n) = exportNet C n := by
  simp [exportNet, canon, List.filter_filter]

end Gama.Export
