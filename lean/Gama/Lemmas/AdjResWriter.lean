/-
  Soundness of the abstract interpretation of the adjustment-results reader over a writer skeleton
  (Model/AdjResWriter.lean): if `absRun (compile sk) c` answers a set of controls, then for every token sequence the
  skeleton generates (operands in the language of their element), from every reader state the control `c` stands for,
  and provided the two numeric tests of `<cov-mat>` pass (`RunDemand`), the run over the events expat delivers records
  no error and ends in a state one of the answered controls stands for.  Generic in the tables: nothing here looks at a
  concrete state, tag or handler.
-/
import Gama.Lemmas.AdjRes
import Gama.Model.AdjResWriter
import Gama.Lemmas.XmlDocMatch
namespace Gama.AdjRes
open Gama.Lit

/-! ### attributes -/

inductive AttrsRel : List (String × Option String) → List (String × String) → Prop
  | nil : AttrsRel [] []
  | skip {x : String × Option String} {ka : List (String × Option String)} {ea : List (String × String)} :
      AttrsRel ka ea → AttrsRel (x :: ka) ea
  | take {a : String} {kv : Option String} {v : String} {ka : List (String × Option String)}
      {ea : List (String × String)} :
      (∀ w, kv = some w → v = w) → AttrsRel ka ea → AttrsRel ((a, kv) :: ka) ((a, v) :: ea)

theorem attrLoop_ok (names : List (String × AttrKind)) (ue : Err) :
    ∀ {ka : List (String × Option String)} {ea : List (String × String)}, AttrsRel ka ea →
      ka.all (absAttr names) = true → ∀ st : St, attrLoop names ue ea st = (st, true) := by
  intro ka ea h
  induction h with
  | nil => intro _ st; rfl
  | skip _ ih =>
    intro hall st
    simp only [List.all_cons, Bool.and_eq_true] at hall
    exact ih hall.2 st
  | @take a kv v ka ea hv _ ih =>
    intro hall st
    simp only [List.all_cons, Bool.and_eq_true] at hall
    obtain ⟨h1, h2⟩ := hall
    unfold absAttr at h1
    unfold attrLoop
    cases hf : names.find? (fun p => p.1 == a) with
    | none => simp [hf] at h1
    | some p =>
      obtain ⟨nm, k⟩ := p
      cases k with
      | plain => simp only []; exact ih h2 st
      | category => simp [hf] at h1
      | equals cst e =>
        simp only [hf] at h1
        have hkv : kv = some cst := by simpa using h1
        have : v = cst := hv cst hkv
        simp only [this, beq_self_eq_true, if_true]
        exact ih h2 st

/-! ### one statement -/

theorem setState_ne (st : St) (s : State) (h : st.state ≠ .error_) : st.setState s = { st with state := s } := by
  unfold St.setState; split <;> simp [h]

theorem flagsAbs_get_set (F : FlagsAbs) (f g : Flag) (v : Option Bool) :
    (F.set f v).get g = if g = f then v else F.get g := by
  cases f <;> cases g <;> rfl

theorem contains_filter_ne (l : List Flag) (f g : Flag) :
    (l.filter (· != f)).contains g = (l.contains g && g != f) := by
  by_cases h : g = f
  · subst h; simp [List.mem_filter]
  · by_cases h2 : g ∈ l <;> simp [List.mem_filter, h, h2]

theorem flag_setFlag (st : St) (f g : Flag) (v : Bool) :
    (st.setFlag f v).flag g = if g = f then v else st.flag g := by
  unfold St.setFlag St.flag
  cases v
  · by_cases h : g = f
    · subst h; simp [contains_filter_ne]
    · simp [contains_filter_ne, h]
  · by_cases h : g = f
    · subst h; simp
    · simp [contains_filter_ne, h]

theorem flags_set_holds (F : FlagsAbs) (st : St) (f : Flag) (v : Bool)
    (hf : ∀ g b, F.get g = some b → st.flag g = b) :
    ∀ g b, (F.set f (some v)).get g = some b → (st.setFlag f v).flag g = b := by
  intro g b hg
  rw [flagsAbs_get_set] at hg
  rw [flag_setFlag]
  by_cases h : g = f
  · simp only [h, if_true, Option.some.injEq] at hg ⊢; exact hg
  · simp only [h, if_false] at hg ⊢; exact hf g b hg

theorem contains_of_all {al allowed : List String} {x : String} (h1 : al.all allowed.contains = true)
    (h2 : al.contains x = true) : allowed.contains x = true := by
  rw [List.all_eq_true] at h1
  exact h1 x (by simpa using h2)

theorem absOp_sound (op : Op) (ka : List (String × Option String)) (ea : List (String × String)) (c c' : Ctl) (st : St)
    (hrel : AttrsRel ka ea) (h : absOp op ka c = some c') (hγ : c.holds st) (hd : opDemand op st = true) :
    (execOp op ea st).2 = true ∧ c'.holds (execOp op ea st).1 := by
  obtain ⟨he, hs, hk, hg, hf, hdat, hstr, hi, hie⟩ := hγ
  cases op with
  | push hh =>
    simp only [absOp, Option.some.injEq] at h; subst h
    exact ⟨(by first | rfl | trivial), he, hs, by simp [execOp, hk], hg, hf, hdat, hstr, hi, hie⟩
  | setState s =>
    simp only [absOp] at h
    split at h
    · cases h
    · rename_i hne
      simp only [Option.some.injEq] at h; subst h
      have : st.state ≠ .error_ := by rw [hs]; exact hne
      simp only [execOp, setState_ne st s this]
      exact ⟨(by first | rfl | trivial), he, rfl, hk, hg, hf, hdat, hstr, hi, hie⟩
  | assignState s =>
    simp only [absOp, Option.some.injEq] at h; subst h
    exact ⟨(by first | rfl | trivial), he, rfl, hk, hg, hf, hdat, hstr, hi, hie⟩
  | attrs names ue =>
    simp only [absOp] at h
    split at h
    · rename_i hall
      simp only [Option.some.injEq] at h; subst h
      simp only [execOp, attrLoop_ok names ue hrel hall st]
      exact ⟨(by first | rfl | trivial), he, hs, hk, hg, hf, hdat, hstr, hi, hie⟩
    · cases h
  | needCategory e => simp [absOp] at h
  | getInt d =>
    simp only [absOp] at h
    split at h
    · rename_i hd'
      simp only [Option.some.injEq] at h; subst h
      have hint : isInteger st.data = true := by rw [hd'] at hdat; exact hdat
      have h1 : st.getIntCheck = st := by simp [St.getIntCheck, hint]
      cases d <;> simp only [execOp, h1] <;> exact ⟨(by first | rfl | trivial), he, hs, hk, hg, hf, hdat, hstr, hi, hie⟩
    · cases h
  | getFloat =>
    simp only [absOp] at h
    split at h
    · rename_i hd'
      simp only [Option.some.injEq] at h; subst h
      have hfl : isFloat st.data = true := by rw [hd'] at hdat; exact hdat
      have h1 : st.getFloatCheck = st := by simp [St.getFloatCheck, hfl]
      simp only [execOp, h1]
      exact ⟨(by first | rfl | trivial), he, hs, hk, hg, hf, hdat, hstr, hi, hie⟩
    · cases h
  | getString d =>
    cases d with
    | none =>
      simp only [absOp, Option.some.injEq] at h; subst h
      exact ⟨(by first | rfl | trivial), he, hs, hk, hg, hf, hdat, hstr, hi, hie⟩
    | s =>
      simp only [absOp] at h
      split at h
      · rename_i al hd'
        simp only [Option.some.injEq] at h; subst h
        refine ⟨(by first | rfl | trivial), he, hs, hk, hg, hf, hdat, ?_, hi, hie⟩
        intro al' hal
        simp only [Option.some.injEq] at hal; subst hal
        rw [hd'] at hdat
        exact hdat
      · cases h
  | checkData =>
    simp only [absOp] at h
    split at h
    · rename_i hd'
      simp only [Option.some.injEq] at h; subst h
      have hb : st.data.all isSpace = true := by
        rcases hd' with hd' | hd' <;> rw [hd'] at hdat
        · have : st.data = [] := hdat
          rw [this]; rfl
        · exact hdat
      have h1 : st.checkData = { st with data := [] } := by simp [St.checkData, hb]
      simp only [execOp, h1]
      exact ⟨(by first | rfl | trivial), he, hs, hk, hg, hf, rfl, hstr, hi, hie⟩
    · cases h
  | clearCategory =>
    simp only [absOp, Option.some.injEq] at h; subst h
    exact ⟨(by first | rfl | trivial), he, hs, hk, hg, hf, hdat, hstr, hi, hie⟩
  | stageSet k =>
    simp only [absOp, Option.some.injEq] at h; subst h
    exact ⟨(by first | rfl | trivial), he, hs, hk, rfl, hf, hdat, hstr, hi, hie⟩
  | stageSwitch cases e =>
    simp only [absOp] at h
    split at h
    · rename_i hd'
      simp only [Option.some.injEq] at h; subst h
      have hint : isInteger st.data = true := by rw [hd'.2] at hdat; exact hdat
      have h1 : st.getIntCheck = st := by simp [St.getIntCheck, hint]
      have h2 : cases.contains st.stage = true := by rw [hg]; exact hd'.1
      simp only [execOp, h2, if_true, h1]
      exact ⟨(by first | rfl | trivial), he, hs, hk, hg, hf, hdat, hstr, hi, hie⟩
    · cases h
  | requireState ss e =>
    simp only [absOp] at h
    split at h
    · cases h
    · rename_i hne
      simp only [Option.some.injEq] at h; subst h
      have : ss.all (fun s => st.state != s) = false := by rw [hs]; simpa using hne
      simp only [execOp, this]
      exact ⟨(by first | rfl | trivial), he, hs, hk, hg, hf, hdat, hstr, hi, hie⟩
  | requireFlagEq a b e =>
    simp only [absOp] at h
    split at h
    · rename_i x y hx hy
      split at h
      · rename_i hxy
        simp only [Option.some.injEq] at h; subst h
        have : (st.flag a != st.flag b) = false := by
          rw [hf a x hx, hf b y hy, hxy]; simp
        simp only [execOp, this]
        exact ⟨(by first | rfl | trivial), he, hs, hk, hg, hf, hdat, hstr, hi, hie⟩
      · cases h
    · cases h
  | setFlag f v =>
    simp only [absOp, Option.some.injEq] at h; subst h
    exact ⟨rfl, he, hs, hk, hg, flags_set_holds c.flags st f v hf, hdat, hstr, hi, hie⟩
  | covGuard e =>
    simp only [absOp, Option.some.injEq] at h; subst h
    have hd' : (st.dim < 0 || st.band < 0 || st.band > max (st.dim - 1) 0 || (st.band + 1) * st.dim > intMax ||
      (covGuardUnknowns && st.dim > st.unknowns)) = false := by
      simp only [opDemand, Bool.not_eq_true'] at hd; exact hd
    simp only [execOp, hd']
    exact ⟨(by first | rfl | trivial), he, hs, hk, hg, hf, hdat, hstr, hi, hie⟩
  | covReset =>
    simp only [absOp, Option.some.injEq] at h; subst h
    exact ⟨(by first | rfl | trivial), he, hs, hk, hg, hf, hdat, hstr, fun h => by simp at h, fun h => by simp at h⟩
  | iterBegin =>
    simp only [absOp, Option.some.injEq] at h; subst h
    exact ⟨(by first | rfl | trivial), he, hs, hk, hg, hf, hdat, hstr, fun _ => rfl, hie⟩
  | iterEnd =>
    simp only [absOp, Option.some.injEq] at h; subst h
    exact ⟨(by first | rfl | trivial), he, hs, hk, hg, hf, hdat, hstr, hi, fun _ => rfl⟩
  | iterErr g w e =>
    have hcmp : st.iterCmp = some (!w) := by simpa [opDemand] using hd
    have hfire : iterGuardFires g st = false := by
      cases g with
      | none => rfl
      | some s =>
        simp only [absOp] at h
        split at h
        · rename_i hc
          simp [iterGuardFires, hs, hc]
        · cases h
    have hc' : c' = c := by
      cases g with
      | none => simp only [absOp, Option.some.injEq] at h; exact h.symm
      | some s =>
        simp only [absOp] at h
        split at h
        · simp only [Option.some.injEq] at h; exact h.symm
        · cases h
    subst hc'
    have : st.iterErr g w e = st := by
      simp only [St.iterErr, hfire, hcmp]
      cases w <;> simp
    simp only [execOp, this]
    exact ⟨(by first | rfl | trivial), he, hs, hk, hg, hf, hdat, hstr, hi, hie⟩
  | store guarded =>
    simp only [absOp] at h
    split at h
    · rename_i hd'
      simp only [Option.some.injEq] at h; subst h
      obtain ⟨hd1, hd2, hd3⟩ := hd'
      have hfl : isFloat st.data = true := by rw [hd1] at hdat; exact hdat
      have h1 : st.getFloatCheck = st := by simp [St.getFloatCheck, hfl]
      have hI := hi hd2
      have hE := hie hd3
      cases hiI : st.iterI with
      | none => rw [hiI] at hI; cases hI
      | some i =>
        cases hiE : st.iterE with
        | none => rw [hiE] at hE; cases hE
        | some e' =>
          simp only [execOp, St.store, hiI, hiE, h1]
          split
          · exact ⟨(by first | rfl | trivial), he, hs, hk, hg, hf, hdat, hstr, fun _ => by rw [hiI]; rfl, fun _ => by rw [hiE]; rfl⟩
          · exact ⟨(by first | rfl | trivial), he, hs, hk, hg, hf, hdat, hstr, fun _ => rfl, fun _ => rfl⟩
    · cases h
  | requireString allowed e =>
    simp only [absOp] at h
    split at h
    · rename_i al hal
      split at h
      · rename_i hsub
        simp only [Option.some.injEq] at h; subst h
        have : allowed.contains (String.ofList st.str) = true := contains_of_all hsub (hstr al hal)
        simp only [execOp, this, if_true]
        exact ⟨(by first | rfl | trivial), he, hs, hk, hg, hf, hdat, hstr, hi, hie⟩
      · cases h
    · cases h
  | error e => simp [absOp] at h
  | data =>
    simp only [absOp, Option.some.injEq] at h; subst h
    exact ⟨(by first | rfl | trivial), he, hs, hk, hg, hf, hdat, hstr, hi, hie⟩
  | book b =>
    simp only [absOp, Option.some.injEq] at h; subst h
    cases b with
    | listAdjusted v => exact ⟨(by first | rfl | trivial), he, hs, hk, hg, hf, hdat, hstr, hi, hie⟩
    | pointAdjusted v => exact ⟨(by first | rfl | trivial), he, hs, hk, hg, hf, hdat, hstr, hi, hie⟩
    | pushPoint =>
      simp only [execOp, St.book]
      split <;> exact ⟨(by first | rfl | trivial), he, hs, hk, hg, hf, hdat, hstr, hi, hie⟩
    | pushOrientation => exact ⟨(by first | rfl | trivial), he, hs, hk, hg, hf, hdat, hstr, hi, hie⟩

/-! ### a handler -/

theorem absOps_sound : ∀ (ops : List Op) (ka : List (String × Option String)) (ea : List (String × String))
    (c c' : Ctl) (st : St), AttrsRel ka ea → absOps ops ka c = some c' → c.holds st → opsDemand ops ea st = true →
    c'.holds (execOps ops ea st)
  | [], _, _, c, c', st, _, h, hγ, _ => by
    simp only [absOps, Option.some.injEq] at h; subst h; exact hγ
  | op :: r, ka, ea, c, c', st, hrel, h, hγ, hd => by
    simp only [absOps] at h
    simp only [opsDemand, Bool.and_eq_true] at hd
    cases h1 : absOp op ka c with
    | none => simp [h1] at h
    | some c1 =>
      simp only [h1] at h
      obtain ⟨h2, h3⟩ := absOp_sound op ka ea c c1 st hrel h1 hγ hd.1
      have ih := absOps_sound r ka ea c1 c' (execOp op ea st).1 hrel h h3 hd.2
      unfold execOps
      cases hx : execOp op ea st with
      | mk st' b =>
        rw [hx] at h2 ih
        simp only at h2 ih
        subst h2
        exact ih

theorem opsDemand_of_noDemand : ∀ (ops : List Op) (ea : List (String × String)) (st : St),
    ops.all noDemand = true → opsDemand ops ea st = true
  | [], _, _, _ => rfl
  | op :: r, ea, st, h => by
    simp only [List.all_cons, Bool.and_eq_true] at h
    simp only [opsDemand, Bool.and_eq_true]
    refine ⟨?_, opsDemand_of_noDemand r ea _ h.2⟩
    cases op <;> first | rfl | (simp [noDemand] at h)

/-! ### one callback -/

theorem absStop_sound (c c' : Ctl) (st : St) (h : absStop c = some c') (hγ : c.holds st) (hd : evDemand st .stop = true) :
    c'.holds (step st .stop) := by
  obtain ⟨he, hs, hk, hg, hf, hdat, hstr, hi, hie⟩ := hγ
  unfold absStop at h
  cases hst : c.stack with
  | nil => simp [hst] at h
  | cons hh rest =>
    simp only [hst] at h
    cases h1 : absOps (endOps hh) [] { c with stack := rest } with
    | none => simp [h1] at h
    | some c1 =>
      simp only [h1, Option.some.injEq] at h; subst h
      have hk' : st.stack = hh :: rest := by rw [hk, hst]
      have hd' : opsDemand (endOps hh) [] { st with stack := rest } = true := by
        simp only [evDemand, hk'] at hd; exact hd
      have hγ1 : ({ c with stack := rest } : Ctl).holds { st with stack := rest } :=
        ⟨he, hs, rfl, hg, hf, hdat, hstr, hi, hie⟩
      obtain ⟨e1, e2, e3, e4, e5, _, _, e8, e9⟩ :=
        absOps_sound (endOps hh) [] [] _ c1 _ AttrsRel.nil h1 hγ1 hd'
      simp only [step, react, hk']
      refine ⟨e1, e2, e3, e4, ?_, rfl, fun al hal => by simp at hal, e8, e9⟩
      intro f b hfb
      simp only at hfb
      split at hfb
      · cases f <;> simp [FlagsAbs.unknown, FlagsAbs.get] at hfb
      · exact e5 f b hfb

theorem absStart_sound (name : String) (ka : List (String × Option String)) (ea : List (String × String))
    (c c' : Ctl) (st : St) (hrel : AttrsRel ka ea)
    (h : absStart ((tagTable.find? (fun p => p.1 == name)).map (·.2)) ka c = some c') (hγ : c.holds st) :
    c'.holds (step st (.start name ea)) := by
  obtain ⟨cs, ck, cg, cf, cd, cstr, ci, ce⟩ := c
  obtain ⟨he, hs, hk, hg, hf, hdat, hstr, hi, hie⟩ := hγ
  simp only at hs hk hg hf hdat hstr hi hie
  subst hs
  unfold absStart at h
  simp only at h
  split at h
  · rename_i hd'
    have hb : st.data.all isSpace = true := by
      rcases hd' with hd' | hd' <;> rw [hd'] at hdat
      · have : st.data = [] := hdat
        rw [this]; rfl
      · exact hdat
    have h1 : st.checkData = { st with data := [] } := by simp [St.checkData, hb]
    cases hfnd : tagTable.find? (fun p => p.1 == name) with
    | none => simp [hfnd] at h
    | some p =>
      obtain ⟨nm, t, fo⟩ := p
      simp only [hfnd, Option.map_some] at h
      split at h
      · rename_i hnd
        cases fo with
        | none =>
          simp only at h hnd
          have hγ1 : (Ctl.mk st.state ck cg cf .empty cstr ci ce).holds { st with data := [] } :=
            ⟨he, rfl, hk, hg, hf, rfl, hstr, hi, hie⟩
          have := absOps_sound _ ka ea _ c' _ hrel h hγ1 (opsDemand_of_noDemand _ ea _ hnd)
          obtain ⟨e1, e2, e3, e4, e5, e6, e7, e8, e9⟩ := this
          simp only [step, react, h1, tagOf, hfnd]
          exact ⟨e1, e2, e3, e4, e5, e6, e7, e8, e9⟩
        | some f =>
          simp only at h hnd
          have hγ1 : (Ctl.mk st.state ck cg (cf.set f (some true)) .empty cstr ci ce).holds
              (St.setFlag { st with data := [] } f true) :=
            ⟨he, rfl, hk, hg, flags_set_holds cf { st with data := [] } f true hf, rfl, hstr, hi, hie⟩
          have := absOps_sound _ ka ea _ c' _ hrel h hγ1 (opsDemand_of_noDemand _ ea _ hnd)
          obtain ⟨e1, e2, e3, e4, e5, e6, e7, e8, e9⟩ := this
          simp only [step, react, h1, tagOf, hfnd]
          have hst2 : (St.setFlag { st with data := [] } f true).state = st.state := rfl
          rw [hst2]
          exact ⟨e1, e2, e3, e4, e5, e6, e7, e8, e9⟩
      · cases h
  · cases h

theorem all_append_isSpace (a b : List Char) : (a ++ b).all isSpace = (a.all isSpace && b.all isSpace) := by
  simp [List.all_append]

theorem absText_sound (k : Option LeafKind) (c : Ctl) (st : St) (s : List Char) (hγ : c.holds st)
    (hk : match k with
      | some k => k.lang s
      | none => s.all isSpace = true) :
    (absText k c).holds (step st (.text s)) := by
  obtain ⟨he, hs, hk', hg, hf, hdat, hstr, hi, hie⟩ := hγ
  unfold absText
  cases k with
  | some k =>
    cases hd : c.data with
    | empty =>
      rw [hd] at hdat
      have : st.data = [] := hdat
      refine ⟨he, hs, hk', hg, hf, ?_, hstr, hi, hie⟩
      show k.lang (st.data ++ s)
      rw [this]; exact hk
    | blank => exact ⟨he, hs, hk', hg, hf, trivial, hstr, hi, hie⟩
    | opnd _ => exact ⟨he, hs, hk', hg, hf, trivial, hstr, hi, hie⟩
    | any => exact ⟨he, hs, hk', hg, hf, trivial, hstr, hi, hie⟩
  | none =>
    cases hd : c.data with
    | empty =>
      rw [hd] at hdat
      have : st.data = [] := hdat
      refine ⟨he, hs, hk', hg, hf, ?_, hstr, hi, hie⟩
      show (st.data ++ s).all isSpace = true
      rw [this]; exact hk
    | blank =>
      rw [hd] at hdat
      have h0 : st.data.all isSpace = true := hdat
      refine ⟨he, hs, hk', hg, hf, ?_, hstr, hi, hie⟩
      rw [hd]
      show (st.data ++ s).all isSpace = true
      rw [all_append_isSpace, h0]; exact hk
    | opnd _ => exact ⟨he, hs, hk', hg, hf, trivial, hstr, hi, hie⟩
    | any => exact ⟨he, hs, hk', hg, hf, trivial, hstr, hi, hie⟩

/-! ### one token -/

theorem attrsRel_of_conc (n : String) : ∀ {as : List XmlDoc.AttrSk} {cs : List (String × XmlEsc.Bytes)},
    XmlDoc.AttrsConc as cs →
    (∀ a ∈ cs, ∀ v, attrReq n a.1 = some v → String.ofList (expatText a.2) = v) →
    AttrsRel (knownAttrs n as) (evAttrs cs) := by
  intro as cs h
  induction h with
  | nil => intro _; exact AttrsRel.nil
  | skip _ _ ih => intro hreq; exact AttrsRel.skip (ih hreq)
  | @take a as cs b hv _ ih =>
    intro hreq
    refine AttrsRel.take ?_ (ih (fun x hx => hreq x (List.mem_cons_of_mem _ hx)))
    intro w hw
    cases hval : a.val with
    | lit s =>
      rw [hval] at hv hw
      simp only [Option.some.injEq] at hw
      have : b = XmlDoc.bytesOf s := hv
      rw [this]; exact hw
    | op k e =>
      rw [hval] at hw
      exact hreq (a.name, b) (List.mem_cons_self) w hw

theorem RunDemand_append : ∀ (a b : List Event) (st : St),
    RunDemand st (a ++ b) = (RunDemand st a && RunDemand (run st a) b)
  | [], b, st => by simp [RunDemand, run_nil]
  | e :: a, b, st => by
    simp only [List.cons_append, RunDemand, run_cons, RunDemand_append a b (step st e), Bool.and_assoc]

theorem absTok_sound (t : XmlDoc.TokSk) (tk : XmlDoc.Tok) (c c' : Ctl) (st : St) (h : absTok t c = some c')
    (hc : ConcD t tk) (hγ : c.holds st) (hd : RunDemand st (tokEvents tk) = true) : c'.holds (run st (tokEvents tk)) := by
  obtain ⟨hconc, hlang, hattr⟩ := hc
  cases hconc with
  | decl => simp only [absTok, resolve, absRTok, Option.some.injEq] at h; subst h; exact hγ
  | comment => simp only [absTok, resolve, absRTok, Option.some.injEq] at h; subst h; exact hγ
  | @stag n as cs e hac =>
    have hrel := attrsRel_of_conc n hac (hattr n cs e rfl)
    simp only [absTok, resolve, absRTok] at h
    cases h1 : absStart ((tagTable.find? (fun p => p.1 == n)).map (·.2)) (knownAttrs n as) c with
    | none => simp [h1] at h
    | some c1 =>
      simp only [h1] at h
      have hs1 := absStart_sound n _ _ c c1 st hrel h1 hγ
      cases e with
      | false =>
        simp only [Bool.false_eq_true, if_false, Option.some.injEq] at h; subst h
        simpa [tokEvents, run_cons, run_nil] using hs1
      | true =>
        simp only [if_true] at h
        have hd2 : evDemand (step st (.start n (evAttrs cs))) .stop = true := by
          simp only [tokEvents, if_true, RunDemand, Bool.and_eq_true] at hd
          exact hd.2.1
        have := absStop_sound c1 c' _ h hs1 hd2
        simpa [tokEvents, run_cons, run_nil] using this
  | etag =>
    simp only [absTok, resolve, absRTok] at h
    have hd2 : evDemand st .stop = true := by
      simp only [tokEvents, RunDemand, Bool.and_eq_true] at hd; exact hd.1
    simpa [tokEvents, run_cons, run_nil] using absStop_sound c c' st h hγ hd2
  | @chars s =>
    simp only [absTok, resolve] at h
    split at h
    · rename_i hb
      simp only [absRTok, Option.some.injEq] at h; subst h
      simpa [tokEvents, run_cons, run_nil] using absText_sound none c st _ hγ hb
    · simp only [absRTok, Option.some.injEq] at h; subst h
      obtain ⟨he, hs, hk', hg, hf, _, hstr, hi, hie⟩ := hγ
      exact ⟨he, hs, hk', hg, hf, trivial, hstr, hi, hie⟩
  | @text tag k e b hop =>
    simp only [absTok, resolve, absRTok, Option.some.injEq] at h; subst h
    simpa [tokEvents, run_cons, run_nil] using
      absText_sound (some (leafKind tag)) c st _ hγ (hlang tag k e b rfl rfl)

/-! ### sets of controls -/

theorem mem_ins (x c : Ctl) (T : List Ctl) : c ∈ ins x T ↔ c = x ∨ c ∈ T := by
  unfold ins
  split
  · rename_i h
    have : x ∈ T := by simpa using h
    constructor
    · intro hc; exact Or.inr hc
    · rintro (rfl | hc)
      · exact this
      · exact hc
  · simp [or_comm]

theorem mem_union : ∀ (B A : List Ctl) (c : Ctl), c ∈ union A B ↔ c ∈ A ∨ c ∈ B
  | [], A, c => by simp [union]
  | b :: B, A, c => by
    have := mem_union B (ins b A) c
    unfold union at this ⊢
    simp only [List.foldl_cons]
    rw [this, mem_ins]
    simp only [List.mem_cons]
    constructor
    · rintro ((rfl | h) | h)
      · exact Or.inr (Or.inl rfl)
      · exact Or.inl h
      · exact Or.inr (Or.inr h)
    · rintro (h | rfl | h)
      · exact Or.inl (Or.inr h)
      · exact Or.inl (Or.inl rfl)
      · exact Or.inr h

theorem mem_of_subset {A B : List Ctl} (h : subset A B = true) {c : Ctl} (hc : c ∈ A) : c ∈ B := by
  unfold subset at h
  rw [List.all_eq_true] at h
  simpa using h c hc

theorem stepAll_spec (f : Ctl → Option (List Ctl)) : ∀ (T R : List Ctl), stepAll f T = some R →
    ∀ c ∈ T, ∃ A, f c = some A ∧ ∀ x ∈ A, x ∈ R
  | [], _, _, c, hc => by cases hc
  | d :: r, R, h, c, hc => by
    unfold stepAll at h
    cases h1 : f d with
    | none => simp [h1] at h
    | some A =>
      cases h2 : stepAll f r with
      | none => simp [h1, h2] at h
      | some B =>
        simp only [h1, h2, Option.some.injEq] at h; subst h
        rcases List.mem_cons.mp hc with rfl | hc'
        · exact ⟨A, h1, fun x hx => (mem_union B A x).mpr (Or.inl hx)⟩
        · obtain ⟨A', hA', hsub⟩ := stepAll_spec f r B h2 c hc'
          exact ⟨A', hA', fun x hx => (mem_union B A x).mpr (Or.inr (hsub x hx))⟩

/-- what `iter` answers contains the start set and is mapped into itself by the loop body -/
theorem iter_spec (f : Ctl → Option (List Ctl)) : ∀ (n : Nat) (T T' : List Ctl), iter f n T = some T' →
    (∀ c ∈ T, c ∈ T') ∧ ∀ c ∈ T', ∃ A, f c = some A ∧ ∀ x ∈ A, x ∈ T'
  | 0, _, _, h => by simp [iter] at h
  | n + 1, T, T', h => by
    unfold iter at h
    cases h1 : stepAll f T with
    | none => simp [h1] at h
    | some R =>
      simp only [h1] at h
      split at h
      · rename_i hsub
        simp only [Option.some.injEq] at h; subst h
        refine ⟨fun c hc => hc, fun c hc => ?_⟩
        obtain ⟨A, hA, hAR⟩ := stepAll_spec f T R h1 c hc
        exact ⟨A, hA, fun x hx => mem_of_subset hsub (hAR x hx)⟩
      · obtain ⟨i1, i2⟩ := iter_spec f n (union T R) T' h
        exact ⟨fun c hc => i1 c ((mem_union R T c).mpr (Or.inl hc)), i2⟩

/-! ### the skeleton -/

theorem readerEvents_append : ∀ (u v : List XmlDoc.Tok), readerEvents (u ++ v) = readerEvents u ++ readerEvents v
  | [], v => rfl
  | t :: u, v => by simp [readerEvents, readerEvents_append u v]

/-- the statement proved by induction on the skeleton -/
def Sound (sk : XmlDoc.Sk) : Prop :=
  ∀ (c : Ctl) (R : List Ctl) (toks : List XmlDoc.Tok) (st : St), absRun (compile sk) c = some R → GenD sk toks →
    c.holds st → RunDemand st (readerEvents toks) = true → ∃ c' ∈ R, c'.holds (run st (readerEvents toks))

theorem star_sound (a : XmlDoc.Sk) (iha : Sound a) (T : List Ctl)
    (hcl : ∀ c ∈ T, ∃ A, absRun (compile a) c = some A ∧ ∀ x ∈ A, x ∈ T) :
    ∀ (sk : XmlDoc.Sk) (toks : List XmlDoc.Tok), GenD sk toks → sk = .star a → ∀ (c : Ctl) (st : St), c ∈ T →
      c.holds st → RunDemand st (readerEvents toks) = true → ∃ c' ∈ T, c'.holds (run st (readerEvents toks)) := by
  intro sk toks hg
  induction hg with
  | eps => intro h; cases h
  | tok _ => intro h; cases h
  | seq _ _ _ _ => intro h; cases h
  | altL _ _ => intro h; cases h
  | altR _ _ => intro h; cases h
  | starNil => intro _ c st hc hγ _; exact ⟨c, hc, hγ⟩
  | @starCons a' u v hu _ _ ihv =>
    intro h c st hc hγ hd
    cases h
    rw [readerEvents_append, RunDemand_append, Bool.and_eq_true] at hd
    obtain ⟨A, hA, hsub⟩ := hcl c hc
    obtain ⟨c1, hc1, hγ1⟩ := iha c A u st hA hu hγ hd.1
    obtain ⟨c2, hc2, hγ2⟩ := ihv rfl c1 _ (hsub c1 hc1) hγ1 hd.2
    exact ⟨c2, hc2, by rw [readerEvents_append, run_append]; exact hγ2⟩

theorem absRun_sound : ∀ sk : XmlDoc.Sk, Sound sk
  | .eps => by
    intro c R toks st h hg hγ _
    cases hg
    simp only [compile, absRun, Option.some.injEq] at h; subst h
    exact ⟨c, List.mem_singleton.mpr rfl, hγ⟩
  | .tok t => by
    intro c R toks st h hg hγ hd
    cases hg with
    | @tok _ tk hc =>
      simp only [compile, absRun] at h
      cases h1 : absRTok (resolve t) c with
      | none => simp [h1] at h
      | some c1 =>
        simp only [h1, Option.map_some, Option.some.injEq] at h; subst h
        refine ⟨c1, List.mem_singleton.mpr rfl, ?_⟩
        have hd' : RunDemand st (tokEvents tk) = true := by simpa [readerEvents] using hd
        have := absTok_sound t tk c c1 st h1 hc hγ hd'
        simpa [readerEvents] using this
  | .seq a b => by
    intro c R toks st h hg hγ hd
    cases hg with
    | @seq _ _ u v hu hv =>
      simp only [compile, absRun] at h
      cases h1 : absRun (compile a) c with
      | none => simp [h1] at h
      | some A =>
        simp only [h1] at h
        rw [readerEvents_append, RunDemand_append, Bool.and_eq_true] at hd
        obtain ⟨c1, hc1, hγ1⟩ := absRun_sound a c A u st h1 hu hγ hd.1
        obtain ⟨B, hB, hsub⟩ := stepAll_spec _ A R h c1 hc1
        obtain ⟨c2, hc2, hγ2⟩ := absRun_sound b c1 B v _ hB hv hγ1 hd.2
        exact ⟨c2, hsub c2 hc2, by rw [readerEvents_append, run_append]; exact hγ2⟩
  | .alt a b => by
    intro c R toks st h hg hγ hd
    simp only [compile, absRun] at h
    cases h1 : absRun (compile a) c with
    | none => simp [h1] at h
    | some A =>
      cases h2 : absRun (compile b) c with
      | none => simp [h1, h2] at h
      | some B =>
        simp only [h1, h2, Option.some.injEq] at h; subst h
        cases hg with
        | altL hu =>
          obtain ⟨c1, hc1, hγ1⟩ := absRun_sound a c A toks st h1 hu hγ hd
          exact ⟨c1, (mem_union B A c1).mpr (Or.inl hc1), hγ1⟩
        | altR hu =>
          obtain ⟨c1, hc1, hγ1⟩ := absRun_sound b c B toks st h2 hu hγ hd
          exact ⟨c1, (mem_union B A c1).mpr (Or.inr hc1), hγ1⟩
  | .star a => by
    intro c R toks st h hg hγ hd
    simp only [compile, absRun] at h
    obtain ⟨i1, i2⟩ := iter_spec _ 8 [c] R h
    exact star_sound a (absRun_sound a) R i2 (.star a) toks hg rfl c st (i1 c (List.mem_singleton.mpr rfl)) hγ hd

theorem genD_gen : ∀ {sk : XmlDoc.Sk} {toks : List XmlDoc.Tok}, GenD sk toks → XmlDoc.Gen sk toks := by
  intro sk toks h
  induction h with
  | eps => exact .eps
  | tok hc => exact .tok hc.1
  | seq _ _ iha ihb => exact .seq iha ihb
  | altL _ ih => exact .altL ih
  | altR _ ih => exact .altR ih
  | starNil => exact .starNil
  | starCons _ _ iha ihb => exact .starCons iha ihb

theorem init_holds : Ctl.init.holds St.init :=
  ⟨rfl, rfl, rfl, rfl, fun f b _ => by cases f <;> simp_all [Ctl.init, FlagsAbs.allFalse, FlagsAbs.get, St.flag, St.init], rfl, fun al h => by simp [Ctl.init] at h, fun h => by simp [Ctl.init] at h,
    fun h => by simp [Ctl.init] at h⟩

end Gama.AdjRes

/-! ### the canonical document is generated -/

namespace Gama.AdjRes
open Gama.Lit

theorem lang_of_langB (k : LeafKind) (d : List Char) (h : k.langB d = true) : k.lang d := by
  cases k <;> first | trivial | exact h

theorem operandOK_of_good (k : Gen.XmlSites.Kind) (e : Bool) (b : XmlEsc.Bytes) (h : operandGood k b = true) :
    XmlDoc.OperandOK k e b := by
  cases k with
  | text =>
    have hb : XmlEsc.str2xml b = b := by simpa [operandGood] using h
    refine ⟨b, ?_⟩
    cases e
    · rfl
    · simp [hb]
  | numeric => exact h
  | const => exact h

theorem canonAttrs_ok (n : String) : ∀ (as : List XmlDoc.AttrSk), as.all (attrGood n) = true →
    XmlDoc.AttrsConc as (as.map (canonAttr n)) ∧
    ∀ a ∈ as.map (canonAttr n), ∀ v, attrReq n a.1 = some v → String.ofList (expatText a.2) = v
  | [], _ => ⟨.nil, fun a ha => by cases ha⟩
  | a :: as, h => by
    simp only [List.all_cons, Bool.and_eq_true] at h
    obtain ⟨ih1, ih2⟩ := canonAttrs_ok n as h.2
    have hg := h.1
    unfold attrGood at hg
    have hval : XmlDoc.ValOK a.val (canonAttr n a).2 ∧
        ∀ v, attrReq n a.name = some v → String.ofList (expatText (canonAttr n a).2) = v := by
      unfold canonAttr
      cases hv : a.val with
      | lit s =>
        rw [hv] at hg
        refine ⟨rfl, fun v hv' => ?_⟩
        simp only [hv'] at hg
        simpa using hg
      | op k e =>
        rw [hv] at hg
        cases hr : attrReq n a.name with
        | none => exact ⟨XmlDoc.operandOK_nil k e, fun v hv' => by cases hv'⟩
        | some w =>
          simp only [hr, Bool.and_eq_true, beq_iff_eq] at hg
          obtain ⟨⟨hk, hc⟩, hw⟩ := hg
          subst hk
          exact ⟨hc, fun v hv' => by cases hv'; exact hw⟩
    refine ⟨?_, ?_⟩
    · exact XmlDoc.AttrsConc.take (a := a) hval.1 ih1
    · intro x hx v hv
      simp only [List.map_cons, List.mem_cons] at hx
      rcases hx with rfl | hx
      · exact hval.2 v hv
      · exact ih2 x hx v hv

theorem concD_canon (t : XmlDoc.TokSk) (h : tokGood t = true) : ConcD t (canonTok t) := by
  cases t with
  | decl => exact ⟨.decl, (by intro _ _ _ _ h; cases h), (by intro _ _ _ h; simp [canonTok] at h)⟩
  | etag n => exact ⟨.etag, (by intro _ _ _ _ h; cases h), (by intro _ _ _ h; simp [canonTok] at h)⟩
  | comment s => exact ⟨.comment, (by intro _ _ _ _ h; cases h), (by intro _ _ _ h; simp [canonTok] at h)⟩
  | chars s => exact ⟨.chars, (by intro _ _ _ _ h; cases h), (by intro _ _ _ h; simp [canonTok] at h)⟩
  | stag n as e =>
    obtain ⟨h1, h2⟩ := canonAttrs_ok n as h
    refine ⟨.stag h1, (by intro _ _ _ _ h; cases h), ?_⟩
    intro n' cs e' heq
    simp only [canonTok, XmlDoc.Tok.stag.injEq] at heq
    obtain ⟨rfl, rfl, rfl⟩ := heq
    exact h2
  | text tag k e =>
    simp only [tokGood, Bool.and_eq_true] at h
    refine ⟨.text (operandOK_of_good k e _ h.1), ?_, (by intro _ _ _ h; simp [canonTok] at h)⟩
    intro tag' k' e' b heq hb
    simp only [XmlDoc.TokSk.text.injEq] at heq
    obtain ⟨rfl, rfl, rfl⟩ := heq
    simp only [canonTok, XmlDoc.Tok.chars.injEq] at hb
    subst hb
    exact lang_of_langB _ _ h.2

theorem genD_canon : ∀ sk : XmlDoc.Sk, skGood sk = true → GenD sk (canonDoc sk)
  | .eps, _ => .eps
  | .tok t, h => .tok (concD_canon t h)
  | .seq a b, h => by
    simp only [skGood, Bool.and_eq_true] at h
    exact .seq (genD_canon a h.1) (genD_canon b h.2)
  | .alt a _, h => .altL (genD_canon a h)
  | .star a, h => by
    have := GenD.starCons (genD_canon a h) (GenD.starNil (a := a))
    simpa [canonDoc] using this

end Gama.AdjRes
