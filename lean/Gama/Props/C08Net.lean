/-
  C08 through `LocalNetwork` (gama-local): the SAME assembled network adjusted with two different lists
  `min_x_` (two choices of the constrained coordinates — what `<point adj="XY"/>` versus `adj="xy"` changes in
  `project_equations()`: C08 `C08_minx_is_constrained`), by any two algorithms.

  `C08_net_datum (alg alg')`: the residuals (original units), `[pvv]`, the adjusted observations `A x`, the
  defect (hence the degrees of freedom) and ALL cofactors `q_bb(i,j)` of the adjusted (homogenised)
  observations — hence `stdev_obs`, `wcoef_res` — are the same; the unknowns differ by a kernel vector of `A`
  (a datum transformation); each `x` is orthogonal over ITS list to every datum transformation and has the
  smallest sum of squares over its list among all solutions of the normal equations.
  Hypotheses: those of the `C01_net_*` theorems, once per list (`Net.SolverHyp`); nothing relates the two lists,
  and neither needs to resolve the defect uniquely for the shared quantities.
  Proof: `C02_net_isLS` twice + `C08_datum_pair`; `C03_net_cofactors` twice: `q_bb = A_hom Q A_homᵀ` is the same
  for every generalised inverse `Q` of the normal matrix (`aqat_invariant`), `A_hom` does not depend on the list;
  `defect + rank A = n` twice.
-/
import Gama.Props.C08Solvers
import Gama.Props.C02Facades
namespace Gama.Props.C08
open Gama Gama.Ls Gama.Ls.Net Gama.LS Gama.Ls.AdjM Matrix

set_option linter.unusedSectionVars false

section sqrtField
variable {K : Type} [Field K] [LinearOrder K] [IsStrictOrderedRing K] [Gso.SqrtField K]
attribute [local instance] sqrtFnOfSqrtField
attribute [local instance 2000] scalarOfField

/-- **choice of datum changes only the datum, through `LocalNetwork`** -/
theorem C08_net_datum (alg alg' : Alg) (np : NetProblem K) (minx' : List Nat)
    (hdim : (dimsN np).sum = np.m) (hrows : RowsOK (toProblem np)) (hm0 : np.m0 ≠ 0)
    (Pc : Matrix (Fin (toProblem np).m) (Fin (toProblem np).m) K) (hPc : Sigma np * Pc = 1)
    (hyp : Net.SolverHyp alg np) (hyp' : Net.SolverHyp alg' { np with minx := minx' })
    (a a' : NetAnswer K) (h : netSolve alg np = .ok a) (h' : netSolve alg' { np with minx := minx' } = .ok a') :
    toVec (toProblem np).m a.r = toVec (toProblem np).m a'.r ∧ a.pvv = a'.pvv ∧
    (toProblem np).A *ᵥ toVec (toProblem np).n a.x = (toProblem np).A *ᵥ toVec (toProblem np).n a'.x ∧
    (toProblem np).A *ᵥ (toVec (toProblem np).n a.x - toVec (toProblem np).n a'.x) = 0 ∧
    a.defect = a'.defect ∧
    (∀ i j : Fin (toProblem np).m, a.qbb (i.val + 1) (j.val + 1) = a'.qbb (i.val + 1) (j.val + 1)) ∧
    (∀ g, (toProblem np).A *ᵥ g = 0 → ∑ i ∈ (toProblem np).S, toVec (toProblem np).n a.x i * g i = 0) ∧
    (∀ g, (toProblem np).A *ᵥ g = 0 →
      ∑ i ∈ (Reg.subset minx').toFinset np.n, toVec (toProblem np).n a'.x i * g i = 0) ∧
    (∀ y, ((toProblem np).A)ᵀ *ᵥ (((np.m0 * np.m0) • Pc) *ᵥ ((toProblem np).A *ᵥ y - (toProblem np).b)) = 0 →
      normS (toProblem np).S (toVec (toProblem np).n a.x) ≤ normS (toProblem np).S y) ∧
    (∀ y, ((toProblem np).A)ᵀ *ᵥ (((np.m0 * np.m0) • Pc) *ᵥ ((toProblem np).A *ᵥ y - (toProblem np).b)) = 0 →
      normS ((Reg.subset minx').toFinset np.n) (toVec (toProblem np).n a'.x)
        ≤ normS ((Reg.subset minx').toFinset np.n) y) := by
  have hP := weight_of_sigma np hdim hm0 Pc hPc
  have hS := Props.C02.C02_net_isLS alg np hdim hrows hm0 Pc hPc hyp a h
  have hS' : IsLSSolution (toProblem np).A (toProblem np).b ((np.m0 * np.m0) • Pc)
      ((Reg.subset minx').toFinset np.n) (toVec (toProblem np).n a'.x) (toVec (toProblem np).m a'.r) a'.pvv :=
    Props.C02.C02_net_isLS alg' { np with minx := minx' } hdim hrows hm0 Pc hPc hyp' a' h'
  obtain ⟨W, Q, B, hW, hinj, hA, -, hf⟩ := net_cofFacts alg np hdim hrows _ hP hyp a h
  obtain ⟨W', Q', B', -, -, hA', -, hf'⟩ :
      ∃ (W' : Matrix (Fin (toProblem np).m) (Fin (toProblem np).m) K)
        (Q' : Matrix (Fin (toProblem np).n) (Fin (toProblem np).n) K)
        (B' : Matrix (Fin (toProblem np).m) (Fin (toProblem np).m) K),
        W'ᵀ * W' = (np.m0 * np.m0) • Pc ∧ (∀ d, W' *ᵥ d = 0 → d = 0) ∧
        toMatrix (toProblem np).m (toProblem np).n a'.Ad = W' * (toProblem np).A ∧
        toVec (toProblem np).m a'.bd = W' *ᵥ (toProblem np).b ∧
        CofFacts a'.qxx a'.qbb a'.defect (toProblem np).A W' ((Reg.subset minx').toFinset np.n) Q' B' :=
    net_cofFacts alg' { np with minx := minx' } hdim hrows ((np.m0 * np.m0) • Pc) hP hyp' a' h'
  have hpd : ∀ d, d ≠ 0 → 0 < d ⬝ᵥ ((np.m0 * np.m0) • Pc) *ᵥ d := hW ▸ gram_pd W hinj
  obtain ⟨h1, h2, h3, h4, h5, h6, h7, h8⟩ := C08_datum_pair hpd hS hS'
  obtain ⟨hh, hp, eA, -⟩ := netSolve_hom alg np a h
  obtain ⟨hh', hp', eA', -⟩ := netSolve_hom alg' { np with minx := minx' } a' h'
  have hp'' : prepare np = .ok hh' := hp'
  have ehh : hh = hh' := Except.ok.inj (hp.symm.trans hp'')
  subst ehh
  have eAd : a.Ad = a'.Ad := eA.trans eA'.symm
  have n1 := hf.nqn
  have n2 := hf'.nqn
  have t1 := hf.hat
  have t2 := hf'.hat
  rw [← hA] at n1 t1
  rw [← hA', ← eAd] at n2 t2
  have eB : B = B' := by
    rw [t1, t2]
    refine aqat_invariant (P := (1 : Matrix (Fin (toProblem np).m) (Fin (toProblem np).m) K)) one_symm one_pd ?_ ?_
    · simpa only [Matrix.mul_one] using n1
    · simpa only [Matrix.mul_one] using n2
  refine ⟨h1, h2, h3, h4, ?_, fun i j => ?_, h5, h6, h7, h8⟩
  · have d1 := hf.defect_rank
    have d2 := hf'.defect_rank
    omega
  · rw [hf.qbb i j, hf'.qbb i j, eB]

end sqrtField

/-! ### non-vacuity -/

section examples
open Gama.Ls.Ex
attribute [local instance 2000] scalarOfField

/-- two lists on `Ex.npQ` (correlated cluster with an excluded observation, `A = [[4,4],[5,5],[4,4]]`, defect 1):
    `min_x_ = [1]` and `min_x_ = [2]`, through the dense path (cholesky) and the sparse path (envelope), evaluated
    by the kernel over ℚ: the unknowns differ — `(0, 1/2)` versus `(1/2, 0)`, difference `(−1/2, 1/2)` in the
    kernel of `A` — residuals, `[pvv]`, defect and every `q_bb(i,j)` coincide -/
example : ∃ a a', netSolve .chol npQ = .ok a ∧ netSolve .env { npQ with minx := [2] } = .ok a'
    ∧ a.x = #[0, 1/2] ∧ a'.x = #[1/2, 0] ∧ a.r = a'.r ∧ a.pvv = a'.pvv ∧ a.defect = a'.defect
    ∧ (cofTable a).2 = (cofTable a').2 := by
  have e1 : (netSolve .chol npQ).toOption.map (fun a => (a.x, a.r, a.pvv, a.defect, (cofTable a).2))
      = some (#[0, 1/2], #[1, 1/2, -1], 1/2, 1, cofTableQ.2) := by decide +kernel
  have e2 : (netSolve .env { npQ with minx := [2] }).toOption.map (fun a => (a.x, a.r, a.pvv, a.defect, (cofTable a).2))
      = some (#[1/2, 0], #[1, 1/2, -1], 1/2, 1, cofTableQ.2) := by decide +kernel
  obtain ⟨a, h1, h2⟩ := ok_of_toOption e1
  obtain ⟨a', h1', h2'⟩ := ok_of_toOption e2
  simp only [Prod.mk.injEq] at h2 h2'
  exact ⟨a, a', h1, h1', h2.1, h2'.1, by rw [h2.2.1, h2'.2.1], by rw [h2.2.2.1, h2'.2.2.1],
    by rw [h2.2.2.2.1, h2'.2.2.2.1], by rw [h2.2.2.2.2, h2'.2.2.2.2]⟩

/-- the hypotheses of the theorem for both lists on that instance (everything but the global square-root law):
    see `Props/C03/Net.lean`, `Props/C02Facades.lean`; ℝ has the law: -/
example : IsSqrt Real.sqrt := ⟨fun _ h => Real.mul_self_sqrt h, fun x _ => Real.sqrt_nonneg x⟩

end examples

end Gama.Props.C08
