/-
  C11 — the round trip writer → reader, DATA side derived (round 11).  `C11_reader_accepts_writer_output`
  (Props/C11AdjResWriter.lean) assumes that every operand is in the language `leafKind tag`, a hand table.  Here:
    * the hand table is checked by `decide` against property C12's REGENERATED per-site format table
      (Gen/XmlFmtSites.lean: the floatfield / precision in force at every numeric operand of `LocalNetworkXML::write`,
      `.int` for `int` operands) — a changed `setf` / `precision`, a new numeric site, an `int` that becomes a `double`
      changes that table and re-checks these theorems;
    * the renderings C12 models for those formats are in the reader's languages, for ALL rationals / precisions /
      rounding modes / integers;
    * hence the operand hypothesis `GenD` is a THEOREM for the writer model `GenM`, and the round trip holds with the
      two `<cov-mat>` count tests (`RunDemand`) as the only remaining hypothesis.
  Property theorems only; lemmas in Gama/Lemmas/AdjResRender.lean.  C12 files are imported read-only.
-/
import Gama.Lemmas.AdjResRender
import Gama.Props.C11AdjResWriter
set_option maxRecDepth 100000
namespace Gama.Props.C11
open Gama Gama.AdjRes Gama.Gen.XmlSkeleton Gama.Gen.XmlFmtSites Gama.Dec

/-- `leafKind` IS the kind of the format at the site, for EVERY element-content site of the regenerated table (159 of
    its 161 entries; the other two are the attributes `epoch`, `latitude`, which the reader does not look at):
    the site streams an `int` ⇔ `leafKind` of its element is the integer language; the site streams a `double` with a
    determined floatfield / precision ⇒ `leafKind` is the float language, except for `err-obs` / `err-adj`, which the
    reader keeps as strings (`.any`: nothing is claimed); `leafKind` is the float language ⇒ the site streams a
    `double`; a site with no determined format ⇒ nothing is claimed.  And the integer elements are exactly C12's own
    list `XmlRec.intNames` (the hand table of the C12 generator's specification). -/
theorem C11_leafKind_is_site_format :
    (∀ s ∈ elemSites,
      (leafKind s.name = .int ↔ s.fmt = .int) ∧
      (leafKind s.name = .float → ∃ f, s.fmt = .num f) ∧
      ((∃ f, s.fmt = .num f) → leafKind s.name = .float ∨ s.name = "err-obs" ∨ s.name = "err-adj") ∧
      (s.fmt = .unknown → leafKind s.name = .any)) ∧
    (∀ t ∈ XmlRec.intNames, leafKind t = .int) ∧
    elemSites.length = 159 := by
  have key : elemSites.all (fun s =>
      (match s.fmt with
       | .int => leafKind s.name == .int
       | .num _ => leafKind s.name == .float || (leafKind s.name == .any && (s.name == "err-obs" || s.name == "err-adj"))
       | .unknown => leafKind s.name == .any)) = true := by decide +kernel
  refine ⟨fun s hs => ?_, by decide +kernel, by decide +kernel⟩
  have h := (List.all_eq_true.mp key) s hs
  cases hf : s.fmt with
  | int =>
    rw [hf] at h
    have hk : leafKind s.name = .int := by simpa using h
    refine ⟨⟨fun _ => rfl, fun _ => hk⟩, ?_, ?_, ?_⟩
    · intro h'; rw [hk] at h'; cases h'
    · rintro ⟨f, h'⟩; cases h'
    · intro h'; cases h'
  | num f =>
    rw [hf] at h
    simp only [Bool.or_eq_true, Bool.and_eq_true, beq_iff_eq] at h
    refine ⟨⟨?_, ?_⟩, fun _ => ⟨f, rfl⟩, ?_, ?_⟩
    · intro h'
      rcases h with h | ⟨h, _⟩ <;> rw [h] at h' <;> cases h'
    · intro h'; cases h'
    · intro _
      rcases h with h | ⟨_, h | h⟩
      · exact Or.inl h
      · exact Or.inr (Or.inl h)
      · exact Or.inr (Or.inr h)
    · intro h'; cases h'
  | unknown =>
    rw [hf] at h
    have hk : leafKind s.name = .any := by simpa using h
    refine ⟨⟨?_, ?_⟩, ?_, ?_, fun _ => hk⟩
    · intro h'; rw [hk] at h'; cases h'
    · intro h'; cases h'
    · intro h'; rw [hk] at h'; cases h'
    · rintro ⟨f, h'⟩; cases h'

/-- nothing is claimed in the void: every element for which `leafKind` names a number language (the two lists of its
    definition) has a site of that name in the regenerated table -/
theorem C11_leafKind_tags_have_sites :
    ∀ t ∈ intTags ++ floatTags, ∃ s ∈ elemSites, s.name = t := by
  have key : (intTags ++ floatTags).all (fun t => elemSites.any (fun s => s.name == t)) = true := by decide +kernel
  intro t ht
  have h := (List.all_eq_true.mp key) t ht
  obtain ⟨s, hs, hn⟩ := List.any_eq_true.mp h
  exact ⟨s, hs, by simpa using hn⟩

/-- `leafKind` is no free-standing table any more: wherever it names a number language it EQUALS `leafKindG`, the kind
    read off the regenerated format table (first site of that name); conversely the table's kind is `leafKind`'s, except
    for `err-obs` / `err-adj` (doubles the reader keeps as strings: `leafKind` claims less).  What `leafKind` says beyond
    the table is only `<used>` (see `C11_nonnumeric_operands_are_source`) and `.any` (no claim). -/
theorem C11_leafKind_is_table_kind (t : String) :
    ((leafKind t = .int ∨ leafKind t = .float) → leafKind t = leafKindG t) ∧
    (leafKindG t = .int → leafKind t = .int) ∧
    (leafKindG t = .float → leafKind t = .float ∨ t = "err-obs" ∨ t = "err-adj") := by
  cases hf : elemSites.find? (fun s => s.name == t) with
  | none =>
    have hG : leafKindG t = .any := by unfold leafKindG; rw [hf]
    rw [hG]
    refine ⟨fun h => ?_, fun h => ?_, fun h => ?_⟩
    · obtain ⟨s, hs, hn⟩ := C11_leafKind_tags_have_sites t (mem_tags_of_leafKind t h)
      have := List.find?_eq_none.mp hf s hs
      simp [hn] at this
    · cases h
    · cases h
  | some s =>
    have hs := List.mem_of_find?_eq_some hf
    have hn : s.name = t := by simpa using List.find?_some hf
    obtain ⟨h1, h2, h3, h4⟩ := C11_leafKind_is_site_format.1 s hs
    rw [hn] at h1 h2 h3 h4
    cases hfm : s.fmt with
    | int =>
      have hG : leafKindG t = .int := by unfold leafKindG; rw [hf]; simp only [hfm]
      rw [hG]
      refine ⟨fun _ => h1.mpr hfm, fun _ => h1.mpr hfm, fun h => ?_⟩
      cases h
    | num f =>
      have hG : leafKindG t = .float := by unfold leafKindG; rw [hf]; simp only [hfm]
      rw [hG]
      refine ⟨fun h => ?_, fun h => ?_, fun _ => h3 ⟨f, hfm⟩⟩
      · rcases h with h | h
        · rw [h1.mp h] at hfm; cases hfm
        · exact h
      · cases h
    | unknown =>
      have hG : leafKindG t = .any := by unfold leafKindG; rw [hf]; simp only [hfm]
      rw [hG]
      refine ⟨fun h => ?_, fun h => ?_, fun h => ?_⟩
      · rw [h4 hfm] at h; rcases h with h | h <;> cases h
      · cases h
      · cases h

/-- the two NON-numeric claims, tied to the regenerated source tables: (1) the operand the writer streams inside
    `<used>` is, in the source, exactly the conditional between the two string literals `leafKind "used"` lists
    (Gen/XmlSites.lean, regenerated from localnetworkxml.cpp); (2) the value the writer streams as `xmlns` is the macro
    `XSD_GAMA_LOCAL_ADJUSTMENT`, and the constant the reader compares `xmlns` with (regenerated reader table; the reader's
    source names the same macro, resolved from xsd.h by tools/gen/c11_adjres.py) is `attrReq`'s value. -/
theorem C11_nonnumeric_operands_are_source :
    ((Gen.XmlSites.sites.find? (fun s => s.tag == "used")).map (fun s => (s.operand, s.kind)) =
      some ("(netinfo->m_0_aposteriori() ? string(\"aposteriori\") : string(\"apriori\") )", .const)) ∧
    leafKind "used" = .str ["apriori", "aposteriori"] ∧
    ((Gen.XmlSites.sites.find? (fun s => s.tag == "xmlns")).map (fun s => (s.operand, s.kind)) =
      some ("XSD_GAMA_LOCAL_ADJUSTMENT", .const)) ∧
    (∃ e1 e2, startOps .gama_local_adjustment =
      [.push .gama_local_adjustment, .setState .gama_local_adjustment,
       .attrs [("xmlns", .equals "http://www.gnu.org/software/gama/gama-local-adjustment" e1)] e2]) ∧
    attrReq "gama-local-adjustment" "xmlns" = some "http://www.gnu.org/software/gama/gama-local-adjustment" := by
  refine ⟨by decide +kernel, by decide +kernel, by decide +kernel, ⟨_, _, rfl⟩, by decide +kernel⟩

/-- the form the soundness lemma uses -/
theorem C11_leafKind_site_table : ∀ s ∈ elemSites, siteOK s.fmt (leafKind s.name) = true := by
  intro s hs
  obtain ⟨h1, h2, _, h4⟩ := C11_leafKind_is_site_format.1 s hs
  cases hf : s.fmt with
  | int => simp [siteOK, h1.mpr hf]
  | num f =>
    cases hk : leafKind s.name with
    | int => rw [h1.mp hk] at hf; cases hf
    | str al =>
      exfalso
      have := C11_leafKind_is_site_format.1 s hs
      have e1 : leafKind "err-obs" = .any := by decide +kernel
      have e2 : leafKind "err-adj" = .any := by decide +kernel
      rcases this.2.2.1 ⟨f, hf⟩ with h | h | h
      · rw [hk] at h; cases h
      · rw [h, e1] at hk; cases hk
      · rw [h, e2] at hk; cases hk
    | float => simp [siteOK]
    | any => simp [siteOK]
  | unknown => simp [siteOK, h4 hf]

/-- RENDERING, all numbers: the text of ANY rational printed with ANY floatfield (fixed / scientific / general), ANY
    precision and ANY rounding mode is accepted by `get_float()` (`Lit.isFloat`, i.e. is in `FloatLang`), and the decimal
    digits of ANY `Int` are accepted by `get_int()` (`Lit.isInteger`).  (Over ℚ: `inf` / `nan` are not renderings of
    a rational — finiteness of the results stays the implicit assumption of the writer model, as in C12.) -/
theorem C11_rendering_in_reader_language (m : RMode) (f : Fmt) (x : ℚ) (i : Int) :
    Lit.isFloat (f.print m x).toList = true ∧ Lit.isInteger (fmtIntL i) = true :=
  ⟨isFloat_print m f x, isInteger_fmtIntL i⟩

/-- the operand hypothesis is a theorem for the writer model: a token sequence of the skeleton whose operands are
    RENDERINGS (at an element with a number language: of some `Int` / some rational with the format of a site of that
    name in the regenerated table) has every operand in the language of its element -/
theorem C11_writer_model_output_meets_GenD (sk : XmlDoc.Sk) (toks : List XmlDoc.Tok) (h : GenM sk toks) :
    GenD sk toks :=
  genD_of_genM C11_leafKind_site_table h

/-- ROUND TRIP for the writer model, all sizes: what remains as hypothesis is `RunDemand` alone — the two numeric tests
    of `<cov-mat>` (`dim` / `band` in range and `dim ≤` unknowns read so far at `</band>`; all elements stored at
    `</cov-mat>`), plus, inside `GenM`, the two non-numeric claims `xmlns` = the namespace URL and `<used>` ∈
    {apriori, aposteriori}. -/
theorem C11_reader_accepts_writer_model_output (toks : List XmlDoc.Tok) (hg : GenM writeSk toks)
    (hd : RunDemand St.init (readerEvents toks) = true) :
    (run St.init (readerEvents toks)).err = none ∧ outcome (run St.init (readerEvents toks)) = .accepted ∧
    (run St.init (readerEvents toks)).state = .stop_ ∧ (run St.init (readerEvents toks)).stack = [] :=
  have hD := C11_writer_model_output_meets_GenD writeSk toks hg
  C11_reader_accepts_writer_output toks (genD_gen hD) ⟨hD, hd⟩

/-! ### non-vacuity -/

/-- the table has the sites the statements talk about, with the kinds claimed -/
example : (elemSites.find? (fun s => s.name == "flt")).map (·.fmt) = some (.num (.sci 7)) ∧ leafKind "flt" = .float ∧
    (elemSites.find? (fun s => s.name == "dim")).map (·.fmt) = some .int ∧ leafKind "dim" = .int ∧
    (elemSites.find? (fun s => s.name == "err-obs")).map (·.fmt) = some (.num (.fixed 3)) ∧ leafKind "err-obs" = .any := by
  decide +kernel

/-- the table check is not idle: an `int` site under a float element, a `double` site under an integer element, or a
    site whose format the translator could not determine under a number element would each fail it -/
example : siteOK .int (leafKind "flt") = false ∧ siteOK (.num (.sci 7)) (leafKind "dim") = false ∧
    siteOK .unknown (leafKind "flt") = false ∧ siteOK (.num (.fixed 3)) (leafKind "err-obs") = true := by decide +kernel

/-- concrete renderings at those sites: `%.7e` of −1/3 and the digits of 12 are what `ModelOperand` admits for `<flt>`
    and `<dim>`, and the reader's tests accept them -/
example : ModelOperand "flt" ((Fmt.sci 7).print .halfEven (-1/3)).toList ∧ ModelOperand "dim" (fmtIntL 12) := by
  have hflt : leafKind "flt" = .float := by decide +kernel
  have hdim : leafKind "dim" = .int := by decide +kernel
  refine ⟨?_, ?_⟩
  · unfold ModelOperand; rw [hflt]
    exact ⟨⟨"coordinates", false, "coordinates/cov-mat", "flt", .num (.sci 7)⟩, by decide +kernel, rfl, .halfEven, -1/3, rfl⟩
  · unfold ModelOperand; rw [hdim]
    exact ⟨⟨"coordinates", false, "coordinates/cov-mat", "dim", .int⟩, by decide +kernel, rfl, 12, rfl⟩

/-- the canonical document of the writer MODEL (every loop once, first branch of every conditional; every number
    operand the rendering of 0 — of 1 for `<dim>` — with the format of ITS site in the regenerated table, e.g.
    `0.0000000000000000` for an adjusted coordinate, `0.0000000e+00` for `<flt>`) is generated by the model, meets
    `RunDemand`, and the theorem gives its acceptance; the run model computes the same -/
example : GenM writeSk (canonDocM writeSk) ∧ RunDemand St.init (readerEvents (canonDocM writeSk)) = true ∧
    outcome (run St.init (readerEvents (canonDocM writeSk))) = .accepted := by
  have hg : GenM writeSk (canonDocM writeSk) := genM_canon writeSk (by decide +kernel)
  have hd : RunDemand St.init (readerEvents (canonDocM writeSk)) = true := by decide +kernel
  exact ⟨hg, hd, (C11_reader_accepts_writer_model_output _ hg hd).2.1⟩

example : (run St.init (readerEvents (canonDocM writeSk))).state = .stop_ ∧
    (run St.init (readerEvents (canonDocM writeSk))).unknowns = 4 ∧
    (run St.init (readerEvents (canonDocM writeSk))).writes = [(0, 1)] ∧
    canonOperandM "flt" = XmlDoc.bytesOf "0.0000000e+00" ∧ canonOperandM "x" = XmlDoc.bytesOf "0.000000" := by
  decide +kernel

example : (Fmt.sci 7).print .halfEven (-1/3) = "-3.3333333e-01" ∧ fmtIntL 12 = "12".toList ∧
    Lit.isFloat "-3.3333333e-01".toList = true ∧ Lit.isInteger "12".toList = true := by decide +kernel

end Gama.Props.C11
