/-
  C08 clause 6 — "… and all distances and angles between adjusted points are the same for every constraint set that
  resolves the defect" (round 11; notes/CLAUSES.md audit #4, remaining gap 6: "the kernel of the regenerated rows").

  `C08_net_datum` / `C08_pe_datum(_gap)`: two datum choices give `A x = A x'`, i.e. `x' − x ∈ ker A`.  Here:

    C08_rows_annihilate_datum_generators   every row the REGENERATED `LocalLinearization::<type>` produces for a class whose
                                           observation function is invariant under a datum transformation `g`
                                           (`Kind.inv`, 13 classes × 5 generators) has `row · g = 0`; the generators are
                                           explicit vectors on the unknowns in the code's units (rotation: `(−y_i, x_i)` mm per
                                           mrad on the coordinates and `2000/π = R2CC/1000` cc per mrad on EVERY orientation)
    C08_datum_generators_in_kernel         hence `passMatrix res m *ᵥ g = 0` for the executed pass `Lin.passFrom`
    C08_pe_datum_generators_in_kernel      and for the pass inside `PE.projectEquations` (the rows of `np`)
    C08_adjusted_distance_datum_invariant  FIRST-ORDER invariance of the distance between two ADJUSTED points: the gradient
                                           of that distance wrt the unknowns is what the regenerated `distance` pushes for a
                                           (virtual) observation between the two points (`RowDeriv`), and for two solutions
                                           `x`, `x'` of the same pass with `A x = A x'` it takes the same value — on the
                                           linearised coordinates the program reports `X̂ = X⁰ + x/1000`; second-order terms
                                           `O(|x' − x|²/d)` are NOT covered (the oracle `adj_shape` bounds them)
    C08_adjusted_angle_datum_invariant     the same for the angle at a point between two others (all five generators)
    C08_adjusted_datum_invariant_direct    the same directly for `x' − x ∈ span{g}` (no kernel hypothesis)

  Hypothesis `hker` (`ker A ⊆ span{g}`): holds when the network has no configuration defect beyond the datum defect —
  connected, every point determined relative to the others (a triangle of distances; a traverse with directions).  It is
  the converse of `C08_datum_generators_in_kernel`, a property of the INPUT network, not of the program.
-/
import Gama.Lemmas.C08Invariants
import Gama.Lemmas.ProjectEquationsJacobian
namespace Gama.Props.C08Invariants
open Gama Gama.Lin Gama.PE Gama.C06FP Gama.C08Inv Matrix Real

/-- **the regenerated rows annihilate the datum generators.**  `k.lin` is the member function regenerated from
    `local_linearization.cpp`; `pushDot` is `∑ coeff · g(unknown)` over what it pushed.  The unit factor of the orientation
    entry of the rotation is `R2CC/1000` (cc per mrad) because the direction row has `−1` cc/cc on the orientation and
    `KF(d)·(…)/d` cc/mm on the coordinates (`KF(d) = 2000/π/d`). -/
theorem C08_rows_annihilate_datum_generators (σ : Lin.Net ℝ) (ob : NObs ℝ) (k : Kind) (g : Gen) (hinv : k.inv g = true)
    (fuel : Nat) (out : LinOut ℝ) (hreg : Regular k (σ.view ob)) (hfree : AllFree k (σ.view ob))
    (hok : k.lin fuel (σ.view ob) = .ok out) :
    pushDot ob.name (genVec σ g) out.pushes = 0 ∧
    (∀ i, genVec σ .rot ⟨i, .x⟩ = -(σ.pt i).y ∧ genVec σ .rot ⟨i, .y⟩ = (σ.pt i).x ∧
          genVec σ .rot ⟨i, .ori⟩ = R2CC / 1000 ∧ genVec σ .scale ⟨i, .x⟩ = (σ.pt i).x ∧
          genVec σ .scale ⟨i, .y⟩ = (σ.pt i).y ∧ genVec σ .scale ⟨i, .ori⟩ = 0 ∧
          genVec σ .tx ⟨i, .x⟩ = 1 ∧ genVec σ .ty ⟨i, .y⟩ = 1 ∧ genVec σ .tz ⟨i, .z⟩ = 1) :=
  ⟨row_annihilates σ ob k g hinv fuel out hreg hfree hok, fun i =>
    ⟨rfl, rfl, by simp [genVec, R2CC]; ring, rfl, rfl, rfl, rfl, rfl, rfl⟩⟩

/-- **span{g} ⊆ ker A** for the design matrix of the executed pass (from any well-formed index state) -/
theorem C08_datum_generators_in_kernel (σ : Lin.Net ℝ) (fuel : Nat) (obs : List (NObs ℝ)) (s : IdxState) (res : PassOut ℝ)
    (hs : s.WF) (hp : passFrom σ fuel obs s = .ok res) (a : Gen → ℝ)
    (hall : ∀ g, a g ≠ 0 → ∀ ob ∈ obs, ob.kind.inv g = true ∧ Regular ob.kind (σ.view ob) ∧ AllFree ob.kind (σ.view ob)) :
    (∀ g, a g ≠ 0 → passMatrix res obs.length *ᵥ colOf res.idx (genVec σ g) = 0) ∧
    passMatrix res obs.length *ᵥ colOf res.idx (combo σ a) = 0 := by
  have h1 : ∀ g, a g ≠ 0 → passMatrix res obs.length *ᵥ colOf res.idx (genVec σ g) = 0 :=
    fun g hg => generators_in_kernel σ fuel obs s res hs hp g (hall g hg)
  have h2 : ∀ g, a g • (passMatrix res obs.length *ᵥ colOf res.idx (genVec σ g)) = 0 := by
    intro g
    by_cases hg : a g = 0
    · rw [hg, zero_smul]
    · rw [h1 g hg, smul_zero]
  refine ⟨h1, ?_⟩
  rw [colOf_combo]
  simp only [mulVec_add, mulVec_smul, h2, add_zero]

/-- … for what `project_equations()` hands to the solvers: the pass `b` whose rows ARE `np.rows` (`PE.Pass`) -/
theorem C08_pe_datum_generators_in_kernel (net : PE.Net ℝ) (np : Ls.Net.NetProblem ℝ) (u : Unknowns ℝ)
    (h : projectEquations net = .ok (np, u)) (g : Gen)
    (hall : ∀ ob ∈ revisedObs u.net, ob.kind.inv g = true ∧ Regular ob.kind ((sigmaOf u.net).view ob) ∧
      AllFree ob.kind ((sigmaOf u.net).view ob)) :
    ∃ b : PassOut ℝ, Pass np u b ∧
      passMatrix b (revisedObs u.net).length *ᵥ colOf b.idx (genVec (sigmaOf u.net) g) = 0 := by
  obtain ⟨b, P⟩ := pe_pass net np u h
  exact ⟨b, P, generators_in_kernel _ _ _ _ b IdxState.wf_init P.pass g hall⟩

/-- directly for `x' − x ∈ span{g}` (column numbering of the pass): ANY derived quantity whose class is invariant under
    the generators used — distance (translations, rotation), angle (all five) — has the same linearised value -/
theorem C08_adjusted_datum_invariant_direct (σ : Lin.Net ℝ) (res : PassOut ℝ) (hwf : res.idx.WF) (ob : NObs ℝ) (a : Gen → ℝ)
    (ha : ∀ g, ob.kind.inv g = false → a g = 0) (fuel : Nat) (out : LinOut ℝ)
    (hreg : Regular ob.kind (σ.view ob)) (hfree : AllFree ob.kind (σ.view ob))
    (hok : ob.kind.lin fuel (σ.view ob) = .ok out)
    (hidx : ∀ p ∈ out.pushes, res.idx.get (ob.name p.1 p.2.1) ≠ 0)
    (x x' : Fin res.idx.maxn → ℝ) (hx : x' = x + colOf res.idx (combo σ a)) :
    pushDot ob.name (unkFn res.idx x') out.pushes = pushDot ob.name (unkFn res.idx x) out.pushes :=
  derived_invariant σ res hwf ob a ha fuel out hreg hfree hok hidx x x' hx

/-- **distance between two adjusted points, first order.**  `ob` = a distance between the points `i`, `k` of the network
    (not necessarily observed), `out` what the regenerated `distance` returns for it: (1) the coefficients are the partial
    derivatives of the horizontal distance wrt every adjusted unknown (mm per mm), so `pushDot … (unkFn res.idx x) out.pushes`
    is `∇dist · x`, the first-order change of the distance between the ADJUSTED points; (2) for two solutions of the same
    pass with equal adjusted observations (`C08_net_datum`, `C08_pe_datum_gap`: `A x = A x'`) it is the same, when the kernel
    of `A` is spanned by the rigid motions (no scale: a distance fixes it). -/
theorem C08_adjusted_distance_datum_invariant (σ : Lin.Net ℝ) (fuel : Nat) (obs : List (NObs ℝ)) (s : IdxState)
    (res : PassOut ℝ) (hs : s.WF) (hp : passFrom σ fuel obs s = .ok res)
    (hker : ∀ d, passMatrix res obs.length *ᵥ d = 0 →
      ∃ a : Gen → ℝ, a .scale = 0 ∧ d = colOf res.idx (combo σ a))
    (x x' : Fin res.idx.maxn → ℝ) (hAx : passMatrix res obs.length *ᵥ x = passMatrix res obs.length *ᵥ x')
    (i k : Nat) (val : ℝ) (fuel' : Nat) (out : LinOut ℝ)
    (hreg : ¬ hdist (σ.view ⟨.distance, 0, i, k, 0, val⟩) < CUT)
    (hfree : AllFree .distance (σ.view ⟨.distance, 0, i, k, 0, val⟩))
    (hok : Gen.Lin.distance fuel' (σ.view ⟨.distance, 0, i, k, 0, val⟩) = .ok out)
    (hidx : ∀ p ∈ out.pushes, res.idx.get ((⟨.distance, 0, i, k, 0, val⟩ : NObs ℝ).name p.1 p.2.1) ≠ 0) :
    (∀ unk, σ.isFree unk = true →
      NetPartial MM hdist σ ⟨.distance, 0, i, k, 0, val⟩ unk
        (symEntry (⟨.distance, 0, i, k, 0, val⟩ : NObs ℝ).name out.pushes unk)) ∧
    pushDot (⟨.distance, 0, i, k, 0, val⟩ : NObs ℝ).name (unkFn res.idx x') out.pushes =
      pushDot (⟨.distance, 0, i, k, 0, val⟩ : NObs ℝ).name (unkFn res.idx x) out.pushes := by
  refine ⟨fun unk hf => row_deriv .distance σ _ unk fuel' out hf hreg hok, ?_⟩
  obtain ⟨a, ha, hd⟩ := hker (x' - x) (by rw [mulVec_sub, hAx, sub_self])
  have hwf := (passFrom_wf σ fuel obs s res hs hp).1
  refine derived_invariant σ res hwf ⟨.distance, 0, i, k, 0, val⟩ a ?_ fuel' out hreg hfree hok hidx x x' ?_
  · intro g hg
    cases g <;> first | exact ha | simp [Kind.inv] at hg
  · rw [← hd]; abel

/-- **angle at an adjusted point between two others, first order** (`ob` = the angle at `i` from `k` to `l`): the
    coefficients are the partial derivatives of the angle (cc per mm), and for two solutions with equal adjusted
    observations the linearised angle is the same, whatever combination of translations, rotation AND scale the kernel of
    `A` consists of (a network without distances). -/
theorem C08_adjusted_angle_datum_invariant (σ : Lin.Net ℝ) (fuel : Nat) (obs : List (NObs ℝ)) (s : IdxState)
    (res : PassOut ℝ) (hs : s.WF) (hp : passFrom σ fuel obs s = .ok res)
    (hker : ∀ d, passMatrix res obs.length *ᵥ d = 0 → ∃ a : Gen → ℝ, d = colOf res.idx (combo σ a))
    (x x' : Fin res.idx.maxn → ℝ) (hAx : passMatrix res obs.length *ᵥ x = passMatrix res obs.length *ᵥ x')
    (i k l : Nat) (val : ℝ) (fuel' : Nat) (out : LinOut ℝ)
    (hreg : Regular .angle (σ.view ⟨.angle, 0, i, k, l, val⟩))
    (hfree : AllFree .angle (σ.view ⟨.angle, 0, i, k, l, val⟩))
    (hok : Gen.Lin.angle fuel' (σ.view ⟨.angle, 0, i, k, l, val⟩) = .ok out)
    (hidx : ∀ p ∈ out.pushes, res.idx.get ((⟨.angle, 0, i, k, l, val⟩ : NObs ℝ).name p.1 p.2.1) ≠ 0) :
    (∀ unk, σ.isFree unk = true →
      NetPartialAngle σ ⟨.angle, 0, i, k, l, val⟩ unk
        (symEntry (⟨.angle, 0, i, k, l, val⟩ : NObs ℝ).name out.pushes unk)) ∧
    pushDot (⟨.angle, 0, i, k, l, val⟩ : NObs ℝ).name (unkFn res.idx x') out.pushes =
      pushDot (⟨.angle, 0, i, k, l, val⟩ : NObs ℝ).name (unkFn res.idx x) out.pushes := by
  refine ⟨fun unk hf => row_deriv .angle σ _ unk fuel' out hf hreg hok, ?_⟩
  obtain ⟨a, hd⟩ := hker (x' - x) (by rw [mulVec_sub, hAx, sub_self])
  have hwf := (passFrom_wf σ fuel obs s res hs hp).1
  refine derived_invariant σ res hwf ⟨.angle, 0, i, k, l, val⟩ a ?_ fuel' out hreg hfree hok hidx x x' ?_
  · intro g hg; simp [Kind.inv] at hg
  · rw [← hd]; abel

/-! ### non-vacuity: a free triangle (3 points, 3 distances, defect 3) -/

/-- the hypotheses of `C08_datum_generators_in_kernel` hold together on the triangle `triNet` / `triObs` for the two
    translations and the rotation (and NOT for the scale: `Kind.inv .distance .scale = false`) -/
example : ∃ res, passFrom triNet 0 triObs IdxState.init = .ok res ∧
    (∀ g, g = .tx ∨ g = .ty ∨ g = .rot → ∀ ob ∈ triObs,
      ob.kind.inv g = true ∧ Regular ob.kind (triNet.view ob) ∧ AllFree ob.kind (triNet.view ob)) ∧
    (∀ g, g = .tx ∨ g = .ty ∨ g = .rot → passMatrix res triObs.length *ᵥ colOf res.idx (genVec triNet g) = 0) := by
  obtain ⟨res, h⟩ := triObs_pass_ok
  have hall : ∀ g, g = Gen.tx ∨ g = .ty ∨ g = .rot → ∀ ob ∈ triObs,
      ob.kind.inv g = true ∧ Regular ob.kind (triNet.view ob) ∧ AllFree ob.kind (triNet.view ob) := by
    intro g hg ob hob
    refine ⟨?_, triObs_regular ob hob, tri_allFree ob⟩
    simp only [triObs, List.mem_cons, List.not_mem_nil, or_false] at hob
    rcases hob with rfl | rfl | rfl <;> rcases hg with rfl | rfl | rfl <;> rfl
  exact ⟨res, h, hall, fun g hg => generators_in_kernel _ _ _ _ res IdxState.wf_init h g (hall g hg)⟩

/-- **two datum choices on the triangle, both evaluated.**  Corrections (mm) `ξ`: point 1 and `y₃` held
    (`x₂ = 1, y₂ = 1, x₃ = 2`); `ξ'`: point 2 and `x₃` held (`x₁ = −2, y₁ = −¼, y₃ = −1`).  They differ by the datum
    transformation `−2·tx − ¼·ty − ¼·rot`, so every observed side has the same adjusted value (`row · ξ = row · ξ'`); the
    angle at 1 from 2 to 3 is NOT observed, and its linearised value at the two solutions is the same number `80/π` cc —
    by evaluation of the regenerated coefficients, and as the theorem says. -/
example : ∃ (ξ ξ' : Unk → ℝ) (a : Gen → ℝ) (fuel : Nat) (out : LinOut ℝ),
    Gen.Lin.angle fuel (triNet.view triAngle) = .ok out ∧
    Regular .angle (triNet.view triAngle) ∧ AllFree .angle (triNet.view triAngle) ∧
    (∀ u, ξ' u = ξ u + combo triNet a u) ∧ ξ ⟨1, .x⟩ = 0 ∧ ξ ⟨1, .y⟩ = 0 ∧ ξ ⟨3, .y⟩ = 0 ∧
    ξ' ⟨2, .x⟩ = 0 ∧ ξ' ⟨2, .y⟩ = 0 ∧ ξ' ⟨3, .x⟩ = 0 ∧ ξ' ⟨1, .x⟩ = -2 ∧
    pushDot triAngle.name ξ out.pushes = 80 / π ∧ pushDot triAngle.name ξ' out.pushes = 80 / π := by
  have hr1 : ¬ hdist (triNet.view triAngle) < CUT := not_cut_of_eq tri_ha1 (by norm_num)
  have hr2 : ¬ hdist2 (triNet.view triAngle) < CUT := by
    rw [tri_ha2]; unfold CUT; norm_num
  obtain ⟨fuel, out, hok⟩ := angle_terminates (triNet.view triAngle) hr1 hr2
  let ξ : Unk → ℝ := fun u =>
    if u = ⟨2, .x⟩ then 1 else if u = ⟨2, .y⟩ then 1 else if u = ⟨3, .x⟩ then 2 else 0
  let a : Gen → ℝ := fun g => match g with | .tx => -2 | .ty => -(1/4) | .rot => -(1/4) | _ => 0
  have hfree : AllFree .angle (triNet.view triAngle) := tri_allFree triAngle
  have hev := (angle_ok fuel _ out hr1 hr2 hok).2
  have hpi : π ≠ 0 := Real.pi_ne_zero
  have e1 : pushDot triAngle.name ξ out.pushes = 80 / π := by
    unfold LinOut.pushes; rw [hev]; unfold angleEvs
    rw [tri_ha1, tri_ha2]
    simp [KF, dX, dY, dX2, dY2, Net.view, triNet, triAngle, NObs.name, Pt.free_xy, Status.isFree, ξ]
    field_simp; ring
  have e2 : pushDot triAngle.name (fun u => ξ u + combo triNet a u) out.pushes = 80 / π := by
    rw [pushDot_combo triNet triAngle a (by intro g hg; simp [triAngle, Kind.inv] at hg) fuel out ⟨hr1, hr2⟩ hfree hok]
    exact e1
  refine ⟨ξ, fun u => ξ u + combo triNet a u, a, fuel, out, hok, ⟨hr1, hr2⟩, hfree, fun _ => rfl, ?_, ?_, ?_, ?_, ?_, ?_,
    ?_, e1, e2⟩
  all_goals simp [ξ, a, combo, genVec, triNet]
  all_goals norm_num

end Gama.Props.C08Invariants
