/-
  C01 — Every solver returns the weighted least-squares minimiser: envelope solver
  (`AdjEnvelope` + `Envelope`, model `Gama/Model/Ls/Env.lean`).

  Setting of every statement: `K` an ordered field, the model instantiated at
  `fieldScalar sq` (the field's own operations; `Lemmas/Ls/ScalarLaws.lean` shows that every
  lawful `Scalar` structure on `K` IS this one), `tol > 0` the pivot tolerance.
  The ordering `o` is ANY pair of mutually inverse index maps (`OrdOK`) and the homogenised
  system `(At, bt)` is `(W A, W b)` for ANY `W` with `WᵀW = P` — that `Homogenization::run`
  computes such a `W` from the covariance blocks is property C10, that the packed envelope
  profile computes the dense factor is property C16.
-/
import Gama.Lemmas.Ls.EnvAnswer
import Gama.Lemmas.Ls.EnvExamples
namespace Gama.Props.C01
open Gama Gama.Ls Gama.Ls.Env Gama.LS Matrix

variable {K : Type} [Field K] [LinearOrder K] [IsStrictOrderedRing K] (sq : K → K)

/-- **C01 (envelope, defect 0)**: when no pivot fires the zero test the solver returns unknowns
    `x`, residuals `v` and a sum of squares `rtr` with `v = A x − b`, `AᵀP v = 0`,
    `rtr = vᵀP v` (and, the kernel being trivial, the second criterion holds for every `S`). -/
theorem C01_envelope_regular (tol stol : K) (m n : ℕ) (A : DMat K) (b : Array K) (At : DMat K) (bt : Array K)
    (reg : Reg) (o : EnvOrd) (hO : OrdOK n o) (htol : 0 < tol)
    {P W : Matrix (Fin m) (Fin m) K} (hW : Wᵀ * W = P)
    (hAt : toMatrix m n At = W * toMatrix m n A) (hbt : toVec m bt = W *ᵥ toVec m b)
    (hd : (@envCore K (fieldScalar sq) tol stol m n A b At bt reg o).defect = 0) (S : Finset (Fin n)) :
    ∃ x, (@envCore K (fieldScalar sq) tol stol m n A b At bt reg o).x = .ok x ∧
      IsLSSolution (toMatrix m n A) (toVec m b) P S (toVec n x)
        (toVec m (@envCore K (fieldScalar sq) tol stol m n A b At bt reg o).r)
        (@envCore K (fieldScalar sq) tol stol m n A b At bt reg o).rtr :=
  envCore_regular_isLS sq tol stol m n A b At bt reg o hO htol hW hAt hbt hd S

/-- hence `vᵀPv` is minimal and equals the reported sum of squares -/
theorem C01_envelope_regular_minimal (tol stol : K) (m n : ℕ) (A : DMat K) (b : Array K) (At : DMat K)
    (bt : Array K) (reg : Reg) (o : EnvOrd) (hO : OrdOK n o) (htol : 0 < tol)
    {P W : Matrix (Fin m) (Fin m) K} (hW : Wᵀ * W = P)
    (hAt : toMatrix m n At = W * toMatrix m n A) (hbt : toVec m bt = W *ᵥ toVec m b)
    (hd : (@envCore K (fieldScalar sq) tol stol m n A b At bt reg o).defect = 0) :
    ∃ x, (@envCore K (fieldScalar sq) tol stol m n A b At bt reg o).x = .ok x ∧
      (∀ y, Phi (toMatrix m n A) (toVec m b) P (toVec n x) ≤ Phi (toMatrix m n A) (toVec m b) P y) ∧
      (@envCore K (fieldScalar sq) tol stol m n A b At bt reg o).rtr
        = Phi (toMatrix m n A) (toVec m b) P (toVec n x) := by
  obtain ⟨x, hx, h⟩ := envCore_regular_isLS sq tol stol m n A b At bt reg o hO htol hW hAt hbt hd Finset.univ
  exact ⟨x, hx, h.minimal (hW ▸ gram_symm W) (hW ▸ gram_psd W), h.rtr_eq_Phi⟩

/-
  FULL STATEMENT (singular case), not yet proved:

  theorem C01_envelope_singular … (hU : FactUnambiguous sq tol m n At bt o)
      (hS : Resolves (toMatrix m n A) (reg.toFinset n)) :
      ∃ x, (envCore …).x = .ok x ∧
        IsLSSolution (toMatrix m n A) (toVec m b) P (reg.toFinset n) (toVec n x) (toVec m (envCore …).r) (envCore …).rtr

  Proved below (`_partial`): for EVERY unambiguous problem (every tested pivot is exactly 0 or
  ≥ tol), regular or singular, the particular solution `x0` that `solve_x0` computes solves the
  normal equations of the homogenised system in the new numbering, its dependent components
  are 0, and `squares` is `‖Ãx0 − b̃‖²`.  `residuals()` and `sum_of_squares()` are computed
  from `x0`, so they are the true residuals / minimum already.  Missing: the kernel columns
  `kerCol` span `ker N` (`N g = 0` and independence are the same triangular argument as
  `solve_dep_zero`), and the Gram–Schmidt loop `gsCols`/`orthAgainst` returns `x = x0 − G c`
  with `x ⟂_S ker` (LS3 then gives minimal S-norm via `IsLSSolution.orth_of_span`).
-/
theorem C01_envelope_singular_partial (tol : K) (m n : ℕ) (At : DMat K) (bt : Array K) (o : EnvOrd)
    (hU : FactUnambiguous sq tol m n At bt o) :
    (ApM sq tol m n At bt o)ᵀ *ᵥ (ApM sq tol m n At bt o *ᵥ x0V sq tol m n At bt o - btV sq tol m n At bt o) = 0
    ∧ (∀ k : Fin n, Df sq (NF sq tol m n At bt o) tol k = 0 → x0V sq tol m n At bt o k = 0)
    ∧ @squares K (fieldScalar sq) (@factor K (fieldScalar sq) tol m n At bt o)
        = (ApM sq tol m n At bt o *ᵥ x0V sq tol m n At bt o - btV sq tol m n At bt o)
          ⬝ᵥ (ApM sq tol m n At bt o *ᵥ x0V sq tol m n At bt o - btV sq tol m n At bt o) :=
  ⟨x0_normal sq tol m n At bt o hU, x0_dep_zero sq tol m n At bt o hU, squares_eq sq tol m n At bt o⟩

/-- the factorisation itself: `N = L D Lᵀ` entrywise, zero columns of `L` on zero pivots
    (Gram matrix over an ordered field, unambiguous pivots) -/
theorem C01_envelope_factorisation (tol : K) (m n : ℕ) (At : DMat K) (bt : Array K) (o : EnvOrd)
    (hU : FactUnambiguous sq tol m n At bt o) (i j : Fin n) :
    NF sq tol m n At bt o i j
      = ∑ k ∈ Finset.range n, Lu (Lf sq (NF sq tol m n At bt o) tol) i k * Df sq (NF sq tol m n At bt o) tol k
          * Lu (Lf sq (NF sq tol m n At bt o) tol) j k := by
  have hL := isLDL_model sq hU
  have hN : ∀ i < n, ∀ j < n, NF sq tol m n At bt o i j
      = ip m (fun r => (@factor K (fieldScalar sq) tol m n At bt o).Ap r i)
          (fun r => (@factor K (fieldScalar sq) tol m n At bt o).Ap r j) :=
    fun i hi j hj => factor_N sq m At bt o hi hj
  exact hL.factor_entry (gram_zeroCols hN hL) (NF_symm sq tol m n At bt o) i.2 j.2

/-! ### non-vacuity -/

/-- a regular 3 × 2 system with swapped ordering meets every hypothesis of `C01_envelope_regular` -/
example : ∃ x, (@envCore ℚ (fieldScalar id) (1/2) (1/2) 3 2 Ex.rA Ex.rb Ex.rA Ex.rb .all Ex.ro).x = .ok x ∧
    IsLSSolution (toMatrix 3 2 Ex.rA) (toVec 3 Ex.rb) 1 Finset.univ (toVec 2 x)
      (toVec 3 (@envCore ℚ (fieldScalar id) (1/2) (1/2) 3 2 Ex.rA Ex.rb Ex.rA Ex.rb .all Ex.ro).r)
      (@envCore ℚ (fieldScalar id) (1/2) (1/2) 3 2 Ex.rA Ex.rb Ex.rA Ex.rb .all Ex.ro).rtr :=
  C01_envelope_regular id (1/2) (1/2) 3 2 Ex.rA Ex.rb Ex.rA Ex.rb .all Ex.ro Ex.ro_ok (by norm_num)
    (P := 1) (W := 1) (by simp) (by simp) (by simp) (by decide +kernel) Finset.univ

/-- its solution, computed by the model: `x = (0, 3)`, `vᵀv = 3` -/
example : (@envCore ℚ (fieldScalar id) (1/2) (1/2) 3 2 Ex.rA Ex.rb Ex.rA Ex.rb .all Ex.ro).x.toOption.map Array.toList = some [0, 3]
    ∧ (@envCore ℚ (fieldScalar id) (1/2) (1/2) 3 2 Ex.rA Ex.rb Ex.rA Ex.rb .all Ex.ro).rtr = 3 := by
  decide +kernel

/-- a singular system (defect 2, non-identity ordering) meets the hypothesis of the `_partial`
    and factorisation theorems -/
example : FactUnambiguous (K := ℚ) id (1/2) 2 4 Ex.wA Ex.wb Ex.wo
    ∧ (@envCore ℚ (fieldScalar id) (1/2) (1/2) 2 4 Ex.wA Ex.wb Ex.wA Ex.wb .all Ex.wo).defect = 2 := by
  unfold FactUnambiguous Unambiguous; decide +kernel

end Gama.Props.C01
