/-
  C01 — Every solver returns the weighted least-squares minimiser: envelope solver
  (`AdjEnvelope` + `Envelope`, model `Gama/Model/Ls/Env.lean`).

  Setting of every statement: `K` an ordered field, the model instantiated at
  `fieldScalar sq` (the field's own operations; `Lemmas/Ls/ScalarLaws.lean` shows that every
  lawful `Scalar` structure on `K` IS this one), `tol > 0` the pivot tolerance.
  The ordering `o` is ANY pair of mutually inverse index maps (`OrdOK`) and the homogenised
  system `(At, bt)` is `(W A, W b)` for ANY `W` with `WᵀW = P` — that `Homogenization::run`
  computes such a `W` from the covariance blocks is property C10, that the packed envelope
  profile computes the dense factor is property C16.
-/
import Gama.Lemmas.Ls.EnvFinal
import Gama.Lemmas.Ls.EnvRefusalFinal
import Mathlib.Analysis.Real.Sqrt
import Gama.Lemmas.Ls.EnvExamples
namespace Gama.Props.C01
open Gama Gama.Ls Gama.Ls.Env Gama.LS Matrix

variable {K : Type} [Field K] [LinearOrder K] [IsStrictOrderedRing K] (sq : K → K)

/-- **C01 (envelope, defect 0)**: when no pivot fires the zero test the solver returns unknowns
    `x`, residuals `v` and a sum of squares `rtr` with `v = A x − b`, `AᵀP v = 0`,
    `rtr = vᵀP v` (and, the kernel being trivial, the second criterion holds for every `S`). -/
theorem C01_envelope_regular (tol stol : K) (m n : ℕ) (A : DMat K) (b : Array K) (At : DMat K) (bt : Array K)
    (reg : Reg) (o : EnvOrd) (hO : OrdOK n o) (htol : 0 < tol)
    {P W : Matrix (Fin m) (Fin m) K} (hW : Wᵀ * W = P)
    (hAt : toMatrix m n At = W * toMatrix m n A) (hbt : toVec m bt = W *ᵥ toVec m b)
    (hd : (@envCore K (fieldScalar sq) tol stol m n A b At bt reg o).defect = 0) (S : Finset (Fin n)) :
    ∃ x, (@envCore K (fieldScalar sq) tol stol m n A b At bt reg o).x = .ok x ∧
      IsLSSolution (toMatrix m n A) (toVec m b) P S (toVec n x)
        (toVec m (@envCore K (fieldScalar sq) tol stol m n A b At bt reg o).r)
        (@envCore K (fieldScalar sq) tol stol m n A b At bt reg o).rtr :=
  envCore_regular_isLS sq tol stol m n A b At bt reg o hO htol hW hAt hbt hd S

/-- hence `vᵀPv` is minimal and equals the reported sum of squares -/
theorem C01_envelope_regular_minimal (tol stol : K) (m n : ℕ) (A : DMat K) (b : Array K) (At : DMat K)
    (bt : Array K) (reg : Reg) (o : EnvOrd) (hO : OrdOK n o) (htol : 0 < tol)
    {P W : Matrix (Fin m) (Fin m) K} (hW : Wᵀ * W = P)
    (hAt : toMatrix m n At = W * toMatrix m n A) (hbt : toVec m bt = W *ᵥ toVec m b)
    (hd : (@envCore K (fieldScalar sq) tol stol m n A b At bt reg o).defect = 0) :
    ∃ x, (@envCore K (fieldScalar sq) tol stol m n A b At bt reg o).x = .ok x ∧
      (∀ y, Phi (toMatrix m n A) (toVec m b) P (toVec n x) ≤ Phi (toMatrix m n A) (toVec m b) P y) ∧
      (@envCore K (fieldScalar sq) tol stol m n A b At bt reg o).rtr
        = Phi (toMatrix m n A) (toVec m b) P (toVec n x) := by
  obtain ⟨x, hx, h⟩ := envCore_regular_isLS sq tol stol m n A b At bt reg o hO htol hW hAt hbt hd Finset.univ
  exact ⟨x, hx, h.minimal (hW ▸ gram_symm W) (hW ▸ gram_psd W), h.rtr_eq_Phi⟩

/-- **C01 (envelope), regular or singular**: for a problem whose rank is numerically unambiguous
    (`FactUnambiguous`: every pivot the factorisation tests is exactly 0 or at least `tol` in
    absolute value), whenever `unknowns()` returns, the answers `x`, `v = residuals()`,
    `rtr = sum_of_squares()` satisfy `v = A x − b`, `AᵀP v = 0`, `rtr = vᵀP v`, and `x` is
    `S`-orthogonal to the kernel of `A` for the configured regularisation subset `S` — by LS3
    the minimiser with the smallest `Σ_{i∈S} x_i²` (`C01_envelope_min_norm`).
    `sq` is a square root (`IsSqrt`), `s_tol > 0` the Gram–Schmidt threshold; `W` injective
    with `WᵀW = P` is the homogenisation (C10). -/
theorem C01_envelope_singular (hsq : IsSqrt sq) (tol stol : K) (m n : ℕ) (A : DMat K) (b : Array K)
    (At : DMat K) (bt : Array K) (reg : Reg) (o : EnvOrd) (hO : OrdOK n o)
    (hU : FactUnambiguous sq tol m n At bt o) (htol : 0 < tol) (hstol : 0 < stol)
    {P W : Matrix (Fin m) (Fin m) K} (hW : Wᵀ * W = P) (hWinj : ∀ d, W *ᵥ d = 0 → d = 0)
    (hAt : toMatrix m n At = W * toMatrix m n A) (hbt : toVec m bt = W *ᵥ toVec m b)
    (hreg : RegOK n o reg (reg.toFinset n)) {x : Array K}
    (hx : (@envCore K (fieldScalar sq) tol stol m n A b At bt reg o).x = .ok x) :
    IsLSSolution (toMatrix m n A) (toVec m b) P (reg.toFinset n) (toVec n x)
      (toVec m (@envCore K (fieldScalar sq) tol stol m n A b At bt reg o).r)
      (@envCore K (fieldScalar sq) tol stol m n A b At bt reg o).rtr :=
  envCore_isLS sq tol stol m n A b At bt reg o hsq hO hU htol hstol hW hWinj hAt hbt hreg hx

/-- among all minimisers the returned `x` has the smallest sum of squares over `S`, and the
    reported sum of squares is the minimum of the objective -/
theorem C01_envelope_min_norm (hsq : IsSqrt sq) (tol stol : K) (m n : ℕ) (A : DMat K) (b : Array K)
    (At : DMat K) (bt : Array K) (reg : Reg) (o : EnvOrd) (hO : OrdOK n o)
    (hU : FactUnambiguous sq tol m n At bt o) (htol : 0 < tol) (hstol : 0 < stol)
    {P W : Matrix (Fin m) (Fin m) K} (hW : Wᵀ * W = P) (hWinj : ∀ d, W *ᵥ d = 0 → d = 0)
    (hAt : toMatrix m n At = W * toMatrix m n A) (hbt : toVec m bt = W *ᵥ toVec m b)
    (hreg : RegOK n o reg (reg.toFinset n)) {x : Array K}
    (hx : (@envCore K (fieldScalar sq) tol stol m n A b At bt reg o).x = .ok x) :
    (∀ y, Phi (toMatrix m n A) (toVec m b) P (toVec n x) ≤ Phi (toMatrix m n A) (toVec m b) P y)
    ∧ (@envCore K (fieldScalar sq) tol stol m n A b At bt reg o).rtr
        = Phi (toMatrix m n A) (toVec m b) P (toVec n x)
    ∧ ∀ y, (∀ z, Phi (toMatrix m n A) (toVec m b) P y ≤ Phi (toMatrix m n A) (toVec m b) P z) →
        normS (reg.toFinset n) (toVec n x) ≤ normS (reg.toFinset n) y := by
  have h := envCore_isLS sq tol stol m n A b At bt reg o hsq hO hU htol hstol hW hWinj hAt hbt hreg hx
  have hpd : ∀ d : Fin m → K, d ≠ 0 → 0 < d ⬝ᵥ P *ᵥ d := hW ▸ gram_pd W hWinj
  exact ⟨h.minimal (hW ▸ gram_symm W) (hW ▸ gram_psd W), h.rtr_eq_Phi,
    h.min_norm_among_minimisers (hW ▸ gram_symm W) hpd⟩

/-- the same for ANY scalar structure `S` on `K` that computes the field operations
    (`LawfulScalar`), not only the canonical `fieldScalar` -/
theorem C01_envelope_lawful (S : Scalar K) (hS : LawfulScalar S) (hsq : IsSqrt S.sqrt) (tol stol : K) (m n : ℕ)
    (A : DMat K) (b : Array K) (At : DMat K) (bt : Array K) (reg : Reg) (o : EnvOrd) (hO : OrdOK n o)
    (hU : FactUnambiguous S.sqrt tol m n At bt o) (htol : 0 < tol) (hstol : 0 < stol)
    {P W : Matrix (Fin m) (Fin m) K} (hW : Wᵀ * W = P) (hWinj : ∀ d, W *ᵥ d = 0 → d = 0)
    (hAt : toMatrix m n At = W * toMatrix m n A) (hbt : toVec m bt = W *ᵥ toVec m b)
    (hreg : RegOK n o reg (reg.toFinset n)) {x : Array K}
    (hx : (@envCore K S tol stol m n A b At bt reg o).x = .ok x) :
    IsLSSolution (toMatrix m n A) (toVec m b) P (reg.toFinset n) (toVec n x)
      (toVec m (@envCore K S tol stol m n A b At bt reg o).r) (@envCore K S tol stol m n A b At bt reg o).rtr := by
  obtain ⟨sq', rfl⟩ : ∃ sq', S = fieldScalar sq' := ⟨S.sqrt, hS.eq_fieldScalar⟩
  exact envCore_isLS sq' tol stol m n A b At bt reg o hsq hO hU htol hstol hW hWinj hAt hbt hreg hx

/-- **C02_refusal_env**: with unambiguous pivots in the factorisation (`FactUnambiguous`) and in
    the Gram–Schmidt loop (`GSUnambiguous`: every tested `pivot` is 0 or ≥ `s_tol`),
    `unknowns()` answers iff the regularisation subset resolves the defect
    (`Resolves A S`: a kernel vector of `A` that vanishes on `S` is zero), and the only thing
    it ever throws is `BadRegularization` -/
theorem C02_refusal_env (hsq : IsSqrt sq) (tol stol : K) (m n : ℕ) (A : DMat K) (b : Array K)
    (At : DMat K) (bt : Array K) (reg : Reg) (o : EnvOrd) (hO : OrdOK n o)
    (hU : FactUnambiguous sq tol m n At bt o) (htol : 0 < tol) (hstol : 0 < stol)
    {W : Matrix (Fin m) (Fin m) K} (hWinj : ∀ d, W *ᵥ d = 0 → d = 0)
    (hAt : toMatrix m n At = W * toMatrix m n A)
    (hreg : RegOK n o reg (reg.toFinset n))
    (hGS : GSUnambiguous sq (n := n) tol stol m At bt o (regList n o reg)) :
    ((∃ x, (@envCore K (fieldScalar sq) tol stol m n A b At bt reg o).x = .ok x)
        ↔ Resolves (toMatrix m n A) (reg.toFinset n))
    ∧ ∀ e, (@envCore K (fieldScalar sq) tol stol m n A b At bt reg o).x = .error e → e = .BadRegularization :=
  envCore_refusal sq tol stol m n A b At bt reg o hsq hO hU htol hstol hWinj hAt hreg hGS

/-- the hypotheses on the regularisation list hold for `min_x()` (all unknowns) and for every
    list of distinct valid unknown numbers -/
theorem C01_envelope_regOK (n : ℕ) (o : EnvOrd) (hO : OrdOK n o) :
    RegOK n o .all ((Reg.all).toFinset n) ∧ RegOK n o .none ((Reg.none).toFinset n)
    ∧ ∀ l : List ℕ, l.Nodup → (∀ k ∈ l, 1 ≤ k ∧ k ≤ n) → RegOK n o (.subset l) ((Reg.subset l).toFinset n) :=
  ⟨regOK_all hO _ (Or.inl rfl), regOK_all hO _ (Or.inr rfl), fun l h1 h2 => regOK_subset hO l h1 h2⟩

/-- what holds for every unambiguous problem even when the regularisation is refused: the
    particular solution `x0` (from which `residuals()` and `sum_of_squares()` are computed)
    solves the normal equations of the homogenised system, its dependent components are 0,
    and `squares = ‖Ãx0 − b̃‖²` -/
theorem C01_envelope_particular (tol : K) (m n : ℕ) (At : DMat K) (bt : Array K) (o : EnvOrd)
    (hU : FactUnambiguous sq tol m n At bt o) :
    (ApM sq tol m n At bt o)ᵀ *ᵥ (ApM sq tol m n At bt o *ᵥ x0V sq tol m n At bt o - btV sq tol m n At bt o) = 0
    ∧ (∀ k : Fin n, Df sq (NF sq tol m n At bt o) tol k = 0 → x0V sq tol m n At bt o k = 0)
    ∧ @squares K (fieldScalar sq) (@factor K (fieldScalar sq) tol m n At bt o)
        = (ApM sq tol m n At bt o *ᵥ x0V sq tol m n At bt o - btV sq tol m n At bt o)
          ⬝ᵥ (ApM sq tol m n At bt o *ᵥ x0V sq tol m n At bt o - btV sq tol m n At bt o) :=
  ⟨x0_normal sq tol m n At bt o hU, x0_dep_zero sq tol m n At bt o hU, squares_eq sq tol m n At bt o⟩

/-- the factorisation itself: `N = L D Lᵀ` entrywise, zero columns of `L` on zero pivots
    (Gram matrix over an ordered field, unambiguous pivots) -/
theorem C01_envelope_factorisation (tol : K) (m n : ℕ) (At : DMat K) (bt : Array K) (o : EnvOrd)
    (hU : FactUnambiguous sq tol m n At bt o) (i j : Fin n) :
    NF sq tol m n At bt o i j
      = ∑ k ∈ Finset.range n, Lu (Lf sq (NF sq tol m n At bt o) tol) i k * Df sq (NF sq tol m n At bt o) tol k
          * Lu (Lf sq (NF sq tol m n At bt o) tol) j k := by
  have hL := isLDL_model sq hU
  have hN : ∀ i < n, ∀ j < n, NF sq tol m n At bt o i j
      = ip m (fun r => (@factor K (fieldScalar sq) tol m n At bt o).Ap r i)
          (fun r => (@factor K (fieldScalar sq) tol m n At bt o).Ap r j) :=
    fun i hi j hj => factor_N sq m At bt o hi hj
  exact hL.factor_entry (gram_zeroCols hN hL) (NF_symm sq tol m n At bt o) i.2 j.2

/-! ### non-vacuity -/

/-- a regular 3 × 2 system with swapped ordering meets every hypothesis of `C01_envelope_regular` -/
example : ∃ x, (@envCore ℚ (fieldScalar id) (1/2) (1/2) 3 2 Ex.rA Ex.rb Ex.rA Ex.rb .all Ex.ro).x = .ok x ∧
    IsLSSolution (toMatrix 3 2 Ex.rA) (toVec 3 Ex.rb) 1 Finset.univ (toVec 2 x)
      (toVec 3 (@envCore ℚ (fieldScalar id) (1/2) (1/2) 3 2 Ex.rA Ex.rb Ex.rA Ex.rb .all Ex.ro).r)
      (@envCore ℚ (fieldScalar id) (1/2) (1/2) 3 2 Ex.rA Ex.rb Ex.rA Ex.rb .all Ex.ro).rtr :=
  C01_envelope_regular id (1/2) (1/2) 3 2 Ex.rA Ex.rb Ex.rA Ex.rb .all Ex.ro Ex.ro_ok (by norm_num)
    (P := 1) (W := 1) (by simp) (by simp) (by simp) (by decide +kernel) Finset.univ

/-- its solution, computed by the model: `x = (0, 3)`, `vᵀv = 3` -/
example : (@envCore ℚ (fieldScalar id) (1/2) (1/2) 3 2 Ex.rA Ex.rb Ex.rA Ex.rb .all Ex.ro).x.toOption.map Array.toList = some [0, 3]
    ∧ (@envCore ℚ (fieldScalar id) (1/2) (1/2) 3 2 Ex.rA Ex.rb Ex.rA Ex.rb .all Ex.ro).rtr = 3 := by
  decide +kernel

/-- a singular system (defect 2, non-identity ordering) meets the hypotheses `FactUnambiguous`, `OrdOK`,
    `RegOK` of `C01_envelope_singular`; `Real.sqrt` is a square root (`IsSqrt`) -/
example : FactUnambiguous (K := ℚ) id (1/2) 2 4 Ex.wA Ex.wb Ex.wo
    ∧ (@envCore ℚ (fieldScalar id) (1/2) (1/2) 2 4 Ex.wA Ex.wb Ex.wA Ex.wb .all Ex.wo).defect = 2 := by
  unfold FactUnambiguous Unambiguous; decide +kernel

example : OrdOK 4 Ex.wo ∧ RegOK 4 Ex.wo .all ((Reg.all).toFinset 4)
    ∧ RegOK 4 Ex.wo (.subset [1, 2]) ((Reg.subset [1, 2]).toFinset 4) :=
  ⟨Ex.wo_ok, regOK_all Ex.wo_ok _ (Or.inl rfl), regOK_subset Ex.wo_ok [1, 2] (by decide) (by decide)⟩

example : IsSqrt Real.sqrt := ⟨fun _ h => Real.mul_self_sqrt h, fun x _ => Real.sqrt_nonneg x⟩

end Gama.Props.C01
