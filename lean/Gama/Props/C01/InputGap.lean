/-
  C01 — ONE input-side solver hypothesis per theorem at the `LocalNetwork` and `Adj` entry points (round 8,
  follow-up of audit #3 gaps #2/#5/#6).

      `InputGap alg A P S τ` :=  `GapThresholds τ ∧ RankGap A P S τ`   (envelope, cholesky, gso)
                                 `Svd.wTol ≤ τ ∧ SingGap A P τ`        (svd)            (`Lemmas/Ls/InputGap.lean`)

  on the ORIGINAL design matrix, weight matrix `P` (`= m0²·Σ⁻¹` for `LocalNetwork`) and regularisation subset.

    C01_adj_solverhyp_of_gap        `AdjM.SolverHyp alg p` for envelope/cholesky/gso from `RankGap` (the `Adj` twin of
                                    `C01_net_solverhyp_of_gap`, which was missing)
    C01_net_solverhyp_of_inputgap   `Net.SolverHyp alg np`  ⇐ static hypotheses + `InputGap alg …`, ALL FOUR algorithms
    C01_adj_solverhyp_of_inputgap   `AdjM.SolverHyp alg p`  ⇐ the same for class `Adj`
    C01_net_of_inputgap             `netSolve alg np = .ok a` ⇒ `a` is THE weighted least-squares solution; the only
                                    solver hypothesis is `InputGap alg` (so `C01_net_of_gap_all`, which asks `RankGap` AND
                                    `SingGap` whatever `alg` is, becomes a corollary: `InputGap.of_both`)
    C01_adj_of_inputgap             the same for `adjSolve`

  The definitions of `Net.SolverHyp` / `AdjM.SolverHyp` are NOT changed: their `.svd` case spells the certificate
  `SvdCert` of the returned factors, and `C02_net_svd_hyp_decompose` / `C02_adj_svd_hyp_decompose` (round 6) derive it from
  `Svd.Unambiguous` of the RETURNED singular values — a premise on the output from which the input-side `SingGap` cannot
  be recovered when the iteration does not return; redefining the case as `RegOK ∧ SingGap` would make those two
  theorems (and the witness `C02_net_svd_hyp_witness` built on them) unprovable.  The per-property `_gap` forms
  (`C02_same_net_gap`, `C03_net_cofactors_gap`, `C08_net_datum_gap`, `C09_stdev_of_net_gap`,
  `C09_net_sigma_apr_scaling_gap` and the `Adj` twins) are in `Props/C02InputGap.lean`, `Props/C03/InputGap.lean`,
  `Props/C08InputGap.lean`, `Props/C09InputGap.lean`.
-/
import Gama.Lemmas.Ls.InputGap
import Gama.Lemmas.Ls.NetFacadeRealSvd
import Gama.Props.C01.NetWitness
import Gama.Props.C02SvdGap
namespace Gama.Props.C01
open Gama Gama.Ls Gama.Ls.Net Gama.LS Matrix

set_option linter.unusedSectionVars false
set_option linter.unusedVariables false

section general
variable {K : Type} [Field K] [LinearOrder K] [IsStrictOrderedRing K] [Gso.SqrtField K]
attribute [local instance] sqrtFnOfSqrtField
attribute [local instance 2000] scalarOfField

/-- **the per-algorithm premise of every `Adj`-level theorem from the ONE hypothesis on `(A, P, S)`**, envelope,
    cholesky and gso (`AdjM.SolverHyp`: the premise of `C02_same_adj`, `C03_adj_cofactors`) -/
theorem C01_adj_solverhyp_of_gap (p : Problem K) (hin : Env.InputOK p) (hreg : Env.RegListOK p)
    (P : Matrix (Fin p.m) (Fin p.m) K) (hP : p.C * P = 1) {τ : K} (hτ : GapThresholds τ)
    (h : RankGap p.A P p.S τ) (alg : Alg) (halg : alg ≠ .svd) : AdjM.SolverHyp alg p := by
  have _ := lawfulSqrt_of_sqrtField (K := K)
  obtain ⟨-, hdot⟩ := C01_adj_unambiguous_of_gap p hin hreg P hP hτ h
  cases alg with
  | svd => exact absurd rfl halg
  | env =>
    have hin' : Env.InputOK { p with reg := AdjM.regOf p.reg } := ⟨hin.blocks, hin.dims, hin.rows⟩
    have hreg' : Env.RegListOK { p with reg := AdjM.regOf p.reg } := by
      intro l hl
      apply hreg l
      cases hr : p.reg with
      | none => rw [hr] at hl; cases hl
      | all => rw [hr] at hl; cases hl
      | subset l' => rw [hr] at hl; exact hl
    have hS : ({ p with reg := AdjM.regOf p.reg } : Problem K).S = p.S := regOf_toFinset p.n p.reg
    have h' : RankGap ({ p with reg := AdjM.regOf p.reg } : Problem K).A P
        ({ p with reg := AdjM.regOf p.reg } : Problem K).S τ := by rw [hS]; exact h
    exact ⟨hin', hreg', (Env.solve_unambiguous_of_rankGap C01_gap2_isSqrt _ hin' hreg' P hP hτ.env h').1⟩
  | chol =>
    intro Ad bd hh
    refine ⟨(hdot Ad bd hh).1, Chol.GsSqrtExact.of_lawful _, fun S hS => ?_⟩
    cases hr : p.reg with
    | none => rw [hr] at hS; simp only [AdjM.regOf, Chol.regList, Option.some.injEq] at hS; subst hS; exact List.nodup_range
    | all => rw [hr] at hS; simp only [AdjM.regOf, Chol.regList, Option.some.injEq] at hS; subst hS; exact List.nodup_range
    | subset l => rw [hr] at hS; exact C01_gap2_nodup p.n l S (hreg l hr).1 hS
  | gso => exact fun Ad bd hh => (hdot Ad bd hh).2.2

/-- **`Net.SolverHyp alg np` from the input-side hypothesis of `alg`, all four algorithms** -/
theorem C01_net_solverhyp_of_inputgap (np : Net.NetProblem K)
    (hdim : (Net.dimsN np).sum = np.m) (hrows : RowsOK (Net.toProblem np)) (hm0 : np.m0 ≠ 0)
    (Pc : Matrix (Fin (Net.toProblem np).m) (Fin (Net.toProblem np).m) K) (hPc : Net.Sigma np * Pc = 1)
    (hreg : Env.RegListOK (Net.toProblem np)) {τ : K} (alg : Alg)
    (h : InputGap alg (Net.toProblem np).A ((np.m0 * np.m0) • Pc) (Net.toProblem np).S τ) :
    Net.SolverHyp alg np := by
  by_cases halg : alg = .svd
  · subst halg
    exact Props.C02.C02_net_svd_hyp_of_gap np hdim hrows hm0 Pc hPc (hreg np.minx rfl).1 h.1 h.2
  · obtain ⟨hτ, hg⟩ := (InputGap.of_ne_svd halg).1 h
    exact C01_net_solverhyp_of_gap np hdim hrows hm0 Pc hPc hreg hτ hg alg halg

/-- the regularisation list `RegListOK` accepts is one svd accepts -/
theorem C01_svd_regOK_of_regListOK (p : Problem K) (hreg : Env.RegListOK p) : Svd.RegOK p.reg := by
  cases hp : p.reg with
  | none => trivial
  | all => trivial
  | subset l => exact (hreg l hp).1

/-- **`AdjM.SolverHyp alg p` from the input-side hypothesis of `alg`, all four algorithms** -/
theorem C01_adj_solverhyp_of_inputgap (p : Problem K) (hin : Env.InputOK p) (hreg : Env.RegListOK p)
    (P : Matrix (Fin p.m) (Fin p.m) K) (hP : p.C * P = 1) {τ : K} (alg : Alg)
    (h : InputGap alg p.A P p.S τ) : AdjM.SolverHyp alg p := by
  by_cases halg : alg = .svd
  · subst halg
    exact Props.C02.C02_adj_svd_hyp_of_gap p hin.dims P hP (C01_svd_regOK_of_regListOK p hreg) h.1 h.2
  · obtain ⟨hτ, hg⟩ := (InputGap.of_ne_svd halg).1 h
    exact C01_adj_solverhyp_of_gap p hin hreg P hP hτ hg alg halg

/-- **C01 through `LocalNetwork`, any algorithm, ONE solver hypothesis**: what `netSolve alg np` answers is the
    weighted least-squares solution of the assembled system with `‖x_S‖` minimal -/
theorem C01_net_of_inputgap (np : Net.NetProblem K)
    (hdim : (Net.dimsN np).sum = np.m) (hrows : RowsOK (Net.toProblem np)) (hm0 : np.m0 ≠ 0)
    (Pc : Matrix (Fin (Net.toProblem np).m) (Fin (Net.toProblem np).m) K) (hPc : Net.Sigma np * Pc = 1)
    (hreg : Env.RegListOK (Net.toProblem np)) {τ : K} (alg : Alg)
    (h : InputGap alg (Net.toProblem np).A ((np.m0 * np.m0) • Pc) (Net.toProblem np).S τ)
    (a : Net.NetAnswer K) (hs : Net.netSolve alg np = .ok a) :
    IsLSSolution (Net.toProblem np).A (Net.toProblem np).b ((np.m0 * np.m0) • Pc) (Net.toProblem np).S
      (toVec (Net.toProblem np).n a.x) (toVec (Net.toProblem np).m a.r) a.pvv := by
  by_cases halg : alg = .svd
  · subst halg
    exact C01_net_of_gap_svd np hdim hrows hm0 Pc hPc (hreg np.minx rfl).1 h.1 h.2 a hs
  · obtain ⟨hτ, hg⟩ := (InputGap.of_ne_svd halg).1 h
    exact C01_net_of_gap np hdim hrows hm0 Pc hPc hreg hτ hg alg halg a hs

/-- **C01 through `Adj`, any algorithm, ONE solver hypothesis** -/
theorem C01_adj_of_inputgap (p : Problem K) (hin : Env.InputOK p) (hreg : Env.RegListOK p)
    (P : Matrix (Fin p.m) (Fin p.m) K) (hP : p.C * P = 1) {τ : K} (alg : Alg)
    (h : InputGap alg p.A P p.S τ) (a : Answer K) (hs : adjSolve alg p = .ok a) :
    IsLSSolution p.A p.b P p.S (toVec p.n a.x) (toVec p.m a.r) a.rtr := by
  by_cases halg : alg = .svd
  · subst halg
    exact C01_adj_of_gap_svd p hin.dims hin.rows P hP (C01_svd_regOK_of_regListOK p hreg) h.1 h.2 a hs
  · obtain ⟨hτ, hg⟩ := (InputGap.of_ne_svd halg).1 h
    exact C01_adj_of_gap p hin hreg P hP hτ hg alg halg a hs

end general

/-! ### non-vacuity: the hypothesis is MET over ℝ at `LocalNetwork` level, for each of the four algorithms -/

section witness
open Gama.Ls.Ex
attribute [local instance] sqrtFnOfSqrtField
attribute [local instance 2000] scalarOfField

/-- `Ex.npR` (correlated cluster with an excluded observation, defect 1, `min_x_ = [1]`, `m_0_apr_ = 2`) meets
    `InputGap alg` at `τ = ½` for envelope, cholesky and gso (`C01_net_rankgap_witness`) -/
theorem C01_net_inputgap_witness (alg : Alg) (halg : alg ≠ .svd) :
    InputGap alg (toProblem npR).A ((npR.m0 * npR.m0) • PcN) (toProblem npR).S (1 / 2 : ℝ) :=
  (InputGap.of_ne_svd halg).2 ⟨gapThresholds_half, C01_net_rankgap_witness.1⟩

/-- **`SingGap` on an evaluated `NetProblem ℝ`** (`Ex.npV`: the clusters of `npR` with
    `A = [[12,16],[15,20],[12,16]]`, kernel `(4,−3)`): `prepareProjectEquations()` homogenises it to the
    Pythagorean `Ex.pCVdot` (`npV_prepare`, evaluated over ℝ), whose Gram matrix has exactly the eigenvalues
    0 and 225; `SingGap.whiten` carries the hypothesis back to the ORIGINAL `(A, m0²·Σ⁻¹)` — closes
    "`LocalNetwork`: an evaluated `NetProblem ℝ` is still missing" of SVD.md round 7 §5 -/
theorem C01_net_singgap_witness :
    SingGap (toProblem npV).A ((npV.m0 * npV.m0) • PcV) (Svd.wTol : ℝ) := by
  obtain ⟨W, hW, -, hA, -⟩ := C01_net_prepare C01_gap2_isSqrt npV npV_dims npV_rows
    (by show (2 : ℝ) ≠ 0; norm_num) PcV npV_sigma_inv _ npV_prepare
  refine (SingGap.whiten hW).2 ?_
  have eA : (Net.dotProblem npV ⟨[⟨2, 1, #[2, 1, 3]⟩, ⟨1, 0, #[2]⟩], #[#[6, 8], #[3, 4], #[6, 8]],
      #[1 / 2, 1 / 2, 3 / 2]⟩).A = W * (toProblem npV).A := by
    unfold Net.dotProblem; rw [dotProblem_A, hA]
  rw [← eA]
  exact pCVdot_singGap_wTol

/-- hence `InputGap .svd` on `npV` at the model's own tolerance -/
theorem C01_net_inputgap_svd_witness :
    InputGap .svd (toProblem npV).A ((npV.m0 * npV.m0) • PcV) (toProblem npV).S (Svd.wTol : ℝ) :=
  ⟨le_rfl, C01_net_singgap_witness⟩

theorem npV_regListOK : Env.RegListOK (toProblem npV) := by
  intro l hl
  have e : l = [1] := by
    have : (toProblem npV).reg = Reg.subset [1] := rfl
    rw [this] at hl; exact (Reg.subset.inj hl).symm
  subst e
  exact ⟨List.nodup_singleton 1, fun i hi => by
    rw [List.mem_singleton] at hi; subst hi; exact ⟨le_refl 1, by show 1 ≤ 2; norm_num⟩⟩

/-- `C01_net_of_inputgap` APPLIED: envelope, cholesky, gso on `npR`; svd on `npV` — every hypothesis
    discharged, the model answers, and the answer is the least-squares solution -/
example (alg : Alg) (halg : alg ≠ .svd) : ∃ a, netSolve alg npR = .ok a ∧
    IsLSSolution (toProblem npR).A (toProblem npR).b ((npR.m0 * npR.m0) • PcN) (toProblem npR).S
      (toVec (toProblem npR).n a.x) (toVec (toProblem npR).m a.r) a.pvv := by
  obtain ⟨a, ha, -⟩ := C01_net_answers_witness alg halg
  exact ⟨a, ha, C01_net_of_inputgap npR (npW_dims 2 [1]) (npW_rows 2 [1]) (by show (2 : ℝ) ≠ 0; norm_num) PcN
    npR_sigma_inv (npW_regListOK 2 [1] (Or.inl rfl)) alg (C01_net_inputgap_witness alg halg) a ha⟩

example : ∃ a, netSolve .svd npV = .ok a ∧ a.x = #[0, 1 / 8] ∧
    IsLSSolution (toProblem npV).A (toProblem npV).b ((npV.m0 * npV.m0) • PcV) (toProblem npV).S
      (toVec (toProblem npV).n a.x) (toVec (toProblem npV).m a.r) a.pvv := by
  obtain ⟨a, ha, hx, -⟩ := npV_svd
  exact ⟨a, ha, hx, C01_net_of_inputgap npV npV_dims npV_rows (by show (2 : ℝ) ≠ 0; norm_num) PcV
    npV_sigma_inv npV_regListOK .svd C01_net_inputgap_svd_witness a ha⟩

/-- `C01_net_solverhyp_of_inputgap` applied: `Net.SolverHyp .svd npV` WITHOUT inspecting the run (round 7 obtained
    it from the returned singular values, `npV_hun`) -/
example : Net.SolverHyp .svd npV :=
  C01_net_solverhyp_of_inputgap npV npV_dims npV_rows (by show (2 : ℝ) ≠ 0; norm_num) PcV npV_sigma_inv
    npV_regListOK .svd C01_net_inputgap_svd_witness

/-- `Adj`: `Ex.pR` (envelope, cholesky, gso; `τ = ½`) and the weighted `Ex.pCV` (svd; `τ = W_tol`) -/
example (alg : Alg) (halg : alg ≠ .svd) : AdjM.SolverHyp alg Gso.Ex.pR :=
  C01_adj_solverhyp_of_inputgap Gso.Ex.pR Gso.Ex.pR_input Gso.Ex.pR_regList 1
    (by rw [Gso.Ex.pR_C, Matrix.mul_one]) alg
    ((InputGap.of_ne_svd halg).2 ⟨gapThresholds_half, C01_rankgap_witness.1⟩)

example : InputGap .svd pCV.A PCV pCV.S (Svd.wTol : ℝ) := ⟨le_rfl, pCV_singGap wTol_sq_lt_one⟩

end witness

end Gama.Props.C01
