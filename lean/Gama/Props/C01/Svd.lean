/-
  C01 — Every solver returns the weighted least-squares minimiser: svd solver
  (`AdjSVD` + `GNU_gama::SVD`, model `Gama/Model/Ls/Svd.lean`, `Svd/Post.lean`).

  The theorems are about the POST-DECOMPOSITION model `svdSolveCert fixed tol d p` — everything the
  solver does with the factors `d = (U, W, V)`: `set_inv_W`, `min_subset_x`, `solve`, residuals —
  and take the factorisation as a CERTIFICATE hypothesis

      `SvdCert sq tol p.m p.n p.dense d` :  A = U diag(W) Vᵀ,  VᵀV = 1,  the columns of U that belong
        to non-zero singular values are orthonormal,  every singular value is exactly 0 or
        `> tol · max W` (rank numerically unambiguous).

  The algebraic part of the certificate is PROVED for the factors `SVD::svd()` returns
  (Householder bidiagonalisation + implicit-shift QR sweeps, transliterated in
  `Model/Ls/Svd/Decomp.lean`): `Props/C01/SvdDecomp.lean` (`C01_svd_decompose_cert`,
  `C01_svd_decompose_svdcert`) and the certificate-free restatements `C01_svd_decompose`,
  `C01_svd_solve_decompose`, `C01_adj_svd_decompose`, `C01_net_svd_decompose` there — the theorems
  of THIS file are the intermediate step (factors as a parameter).  What remains a hypothesis is
  `Unambiguous tol W` (a property of the returned singular values) and that the run returns
  (convergence of the QR iteration: not proved); rounding is outside: for `double` the factors of
  the real code are checked NUMERICALLY on every run (harness/svd_cert.cpp, tools/props/svd_cert.py:
  ‖A − U W Vᵀ‖, ‖VᵀV − I‖, ‖U₁ᵀU₁ − I‖ ≤ 1e-10·‖A‖, singular values separated from the threshold).

  Setting: `K` a linearly ordered field, the model instantiated at the field's own operations
  (`LS.fieldScalar sq`), `SqrtLaw sq` (`0 ≤ x → sq x · sq x = x ∧ 0 ≤ sq x`), `0 ≤ tol`,
  `RegOK p.reg` (a regularisation list without repeated indices), unit covariance (`P = 1`: a full
  solver is handed the homogenised system; `Props/C01/Adj.lean` lifts to the original one).
  `fixed = true` is the code as it is (refusal test `s ≤ W_tol·‖V_k‖`, repo commit b39e70e),
  `fixed = false` the exact test `s == 0` before it; the theorems hold for both.
-/
import Gama.Lemmas.Ls.SvdProps
import Gama.Lemmas.Ls.SvdExample
namespace Gama.Props.C01
open Gama Gama.Ls Gama.Ls.Svd Gama.LS Matrix

set_option linter.unusedSectionVars false

variable {K : Type} [Field K] [LinearOrder K] [IsStrictOrderedRing K] {sq : K → K}

/-- **C01 (svd, certificate)**: whenever the solver answers (any defect, `min_x()` or a subset),
    its unknowns, residuals and sum of squares form a least-squares solution of `(A, b, 1)`
    regularised over `S`: `v = A x − b`, `Aᵀ v = 0`, `rtr = vᵀ v`, `x ⟂_S ker A`. -/
theorem C01_svd_cert (hs : SqrtLaw sq) (fixed : Bool) {tol : K} (htol : 0 ≤ tol) (p : Problem K) (d : Dec K)
    (hc : SvdCert sq tol p.m p.n (@Problem.dense K (fieldScalar sq) p) d) (hreg : RegOK p.reg) (a : Answer K)
    (h : @svdSolveCert K (fieldScalar sq) fixed tol d p = .ok a) :
    IsLSSolution (@Problem.A K (fieldScalar sq) p) (@Problem.b K (fieldScalar sq) p) 1
      (p.S) (toVec p.n a.x) (toVec p.m a.r) a.rtr :=
  answerOf_isLS hs fixed htol hc hreg h

/-- the property in full: residuals, normal equations, reported sum of squares, minimal `vᵀv`,
    minimal S-norm among all solutions of the normal equations, defect = n − rank A -/
theorem C01_svd_cert_minimal (hs : SqrtLaw sq) (fixed : Bool) {tol : K} (htol : 0 ≤ tol) (p : Problem K) (d : Dec K)
    (hc : SvdCert sq tol p.m p.n (@Problem.dense K (fieldScalar sq) p) d) (hreg : RegOK p.reg) (a : Answer K)
    (h : @svdSolveCert K (fieldScalar sq) fixed tol d p = .ok a) :
    toVec p.m a.r = @Problem.A K (fieldScalar sq) p *ᵥ toVec p.n a.x - @Problem.b K (fieldScalar sq) p
      ∧ (@Problem.A K (fieldScalar sq) p)ᵀ *ᵥ toVec p.m a.r = 0
      ∧ a.rtr = toVec p.m a.r ⬝ᵥ toVec p.m a.r
      ∧ (∀ y, Phi (@Problem.A K (fieldScalar sq) p) (@Problem.b K (fieldScalar sq) p) 1 (toVec p.n a.x)
            ≤ Phi (@Problem.A K (fieldScalar sq) p) (@Problem.b K (fieldScalar sq) p) 1 y)
      ∧ (∀ y, NormalEq (@Problem.A K (fieldScalar sq) p) (@Problem.b K (fieldScalar sq) p) 1 y →
            normS (p.S) (toVec p.n a.x) ≤ normS (p.S) y)
      ∧ a.defect + (@Problem.A K (fieldScalar sq) p).rank = p.n := by
  have hS := C01_svd_cert hs fixed htol p d hc hreg a h
  refine ⟨hS.res, ?_, ?_, hS.minimal one_symm one_psd, hS.min_norm one_pd,
    (answerOf_defect hs fixed htol hc hreg h).1⟩
  · simpa using hS.normal
  · simpa using hS.rtr_eq

/-- uniqueness (C02 premise): for a subset that resolves the defect any other least-squares
    solution (e.g. another algorithm's answer) coincides with the svd answer -/
theorem C01_svd_cert_unique (hs : SqrtLaw sq) (fixed : Bool) {tol : K} (htol : 0 ≤ tol) (p : Problem K) (d : Dec K)
    (hc : SvdCert sq tol p.m p.n (@Problem.dense K (fieldScalar sq) p) d) (hreg : RegOK p.reg) (a : Answer K)
    (h : @svdSolveCert K (fieldScalar sq) fixed tol d p = .ok a)
    (hres : Resolves (@Problem.A K (fieldScalar sq) p) (p.S))
    {x' : Fin p.n → K} {v' : Fin p.m → K} {rtr' : K}
    (h' : IsLSSolution (@Problem.A K (fieldScalar sq) p) (@Problem.b K (fieldScalar sq) p) 1
      (p.S) x' v' rtr') :
    toVec p.n a.x = x' ∧ toVec p.m a.r = v' ∧ a.rtr = rtr' :=
  (C01_svd_cert hs fixed htol p d hc hreg a h).unique h' one_pd hres

/-- non-vacuity over ℝ (`Real.sqrt` satisfies the square-root law): the rank-1 problem
    A = [[0,0,1],[0,0,0],[0,0,0]], b = (1,0,0), `min_x()`, with the factors the real code computes
    (U, W = (0,1,0), V signed permutations) meets every hypothesis and is answered. -/
example : SqrtLaw Real.sqrt ∧ (0 : ℝ) ≤ 1 / 1000 ∧
    SvdCert Real.sqrt (1 / 1000) Ex.pW.m Ex.pW.n (@Problem.dense ℝ (fieldScalar Real.sqrt) Ex.pW) Ex.dW ∧
    RegOK Ex.pW.reg ∧ ∃ a, @svdSolveCert ℝ (fieldScalar Real.sqrt) true (1 / 1000) Ex.dW Ex.pW = .ok a :=
  ⟨Ex.sqrtLaw_real, by norm_num, Ex.pW_cert, trivial, _, rfl⟩

/-- non-vacuity with SUBSET regularisation, evaluated by the kernel over ℚ (`Ex.sqQ` is the square
    root on the values that occur): A = [[9,12],[12,16],[0,0]] = U diag(25,0) Vᵀ with rational
    rotations, b = (1,2,3), S = {1} (resolves the defect): certificate, answer x = (0, 11/100). -/
example : SvdCert Ex.sqQ (1 / 1000) Ex.pE.m Ex.pE.n (@Problem.dense ℚ (fieldScalar Ex.sqQ) Ex.pE) Ex.dE ∧
    RegOK Ex.pE.reg ∧ ∃ a, @svdSolveCert ℚ (fieldScalar Ex.sqQ) true (1 / 1000) Ex.dE Ex.pE = .ok a ∧
      a.x = #[0, 11 / 100] ∧ a.defect = 1 :=
  ⟨Ex.pE_cert, Ex.pE_regOK, Ex.pE_answer⟩

end Gama.Props.C01
