/-
  C01 — the svd solver joins the gap theorems: "rank numerically unambiguous" as ONE hypothesis on
  the INPUT `(A, P)` (CLAUSES.md, audit #3, gap #5; C01 row 7).

  Until now the svd theorems (`C01_svd_decompose`, `C01_adj_svd_decompose`, `C01_net_svd_decompose`, the
  `.svd` case of `Net.SolverHyp` / `AdjM.SolverHyp`) asked `Svd.Unambiguous tol (vget d.W)` of the singular
  values the iteration RETURNED, whereas envelope / cholesky / gso have the single input-side hypothesis
  `RankGap A P S τ` (`Props/C01/Gap2.lean`).  Here (`Lemmas/Ls/SingGap.lean`):

      `SingGap A P τ`  —  every eigenvalue `λ` of `AᵀPA` (`∃ v ≠ 0, AᵀPA v = λ v`) is `0` or `> τ²·μ` for
                          every eigenvalue `μ` of `AᵀPA`: every singular value of the homogenised matrix
                          is `0` or `> τ·σ_max`   (`C01_singgap_sing`: the same with `σ = √λ`).

  * `C01_singgap_unambiguous` — `SingGap A 1 τ`, `tol ≤ τ`, `decompose m n A = .ok d` ⇒
    `Unambiguous tol (vget d.W)`: by `C01_svd_decompose_cert` the returned factors satisfy
    `AᵀA = V diag(W²) Vᵀ`, `VᵀV = 1`, so every `W_i²` is an eigenvalue of `AᵀA` (eigenvector `V_i ≠ 0`), and
    `vmax` of `set_inv_W` is one of the `W_j`.  No diagonalisation is named in the hypothesis and no
    uniqueness of the spectrum is needed (the gap ignores multiplicities).
  * `C01_svd_of_gap`, `C01_adj_of_gap_svd`, `C01_net_of_gap_svd` — `RegOK ∧ SingGap` ⇒ whatever the svd
    solver answers (solver class / `Adj` / `LocalNetwork`) is the least-squares solution, minimum norm on `S`;
    `C01_adj_of_gap_all`, `C01_net_of_gap_all` — `C01_adj_of_gap` / `C01_net_of_gap` for ALL FOUR algorithms
    (the side condition `alg ≠ .svd` is gone: `RankGap` feeds envelope/cholesky/gso, `SingGap` feeds svd).
  * `C01_singgap_vs_rankgap` — for `S` = all columns `RankGap` is its pivot half; NEITHER first-stage
    condition implies the other (the pivot gap is absolute, the singular gap relative:
    `C01_singgap_scale`), with exact witnesses over ℚ — so both are asked.

  The hypothesis on the tolerance is `Svd.wTol ≤ τ` (`Svd.wTol ≤ 1/100`: `Svd.wTol_le`; `τ = 1/2` meets it
  and `GapThresholds`).  NOT proved, as before: that `decompose` returns (convergence of the QR
  iteration), IEEE rounding.
-/
import Gama.Lemmas.Ls.SingGap
import Gama.Lemmas.Ls.SingGapExample
import Gama.Props.C01.SvdDecomp
import Gama.Props.C01.Gap2
namespace Gama.Props.C01
open Gama Gama.Ls Gama.LS Matrix

set_option linter.unusedSectionVars false
set_option linter.unusedVariables false

/-! ### the hypothesis -/

section general
variable {K : Type} [Field K] [LinearOrder K] [IsStrictOrderedRing K] {m n : ℕ}

/-- the input-side hypothesis passes to the homogenised system `W A` of ANY factor `W` with `WᵀW = P` in
    its unweighted form (and back), and is antitone in `τ` -/
theorem C01_singgap_basic (A : Matrix (Fin m) (Fin n) K) (P W : Matrix (Fin m) (Fin m) K) (τ : K)
    (hW : Wᵀ * W = P) :
    (SingGap A P τ ↔ SingGap (W * A) 1 τ) ∧
    (SingGap A P τ → ∀ τ', 0 ≤ τ' → τ' ≤ τ → SingGap A P τ') :=
  ⟨SingGap.whiten hW, fun h τ' h0 hτ => h.mono hW h0 hτ⟩

/-- the hypothesis is RELATIVE: scaling the design matrix does not change it (`RankGap`'s pivot gap
    `GapAllP` is absolute) -/
theorem C01_singgap_scale (A : Matrix (Fin m) (Fin n) K) (P : Matrix (Fin m) (Fin m) K) (τ c : K) (hc : c ≠ 0) :
    SingGap (c • A) P τ ↔ SingGap A P τ := SingGap.smul hc

/-- **`SingGap` in terms of singular values**: with a square root, `P = WᵀW`, `0 ≤ τ`: every `σ ≥ 0` whose
    square is an eigenvalue of `AᵀPA` is `0` or `> τ·ρ` for every such `ρ` (in particular `ρ = σ_max`) -/
theorem C01_singgap_sing {sq : K → K} (hs : Svd.SqrtLaw sq) (A : Matrix (Fin m) (Fin n) K)
    (P W : Matrix (Fin m) (Fin m) K) (τ : K) (hW : Wᵀ * W = P) (hτ : 0 ≤ τ) :
    SingGap A P τ ↔ ∀ σ ρ : K, 0 ≤ σ → 0 ≤ ρ → IsEig (Aᵀ * P * A) (σ * σ) → IsEig (Aᵀ * P * A) (ρ * ρ) →
      σ = 0 ∨ τ * ρ < σ :=
  singGap_iff_sing hs.mul_self hs.nonneg hW hτ

/-- **`singGap_unambiguous`**: under the input-side hypothesis the singular values the model of
    `SVD::svd()` returns — whenever it returns, whatever the iteration did — are unambiguous at every
    tolerance `tol ≤ τ`.  `Unambiguous` is no longer a premise on the output. -/
theorem C01_singgap_unambiguous {sq : K → K} (hs : Svd.SqrtLaw sq) {τ tol : K} (hτ : tol ≤ τ) (m n : Nat)
    (A : DMat K) (h : SingGap (toMatrix m n A) 1 τ) (d : Svd.Dec K)
    (hd : @Svd.decompose K (fieldScalar sq) m n A = .ok d) :
    Svd.Unambiguous sq tol n (@Svd.vget K (fieldScalar sq) d.W) :=
  Svd.singGap_unambiguous sq hs.mul_self hs.nonneg hτ m n A h d hd

/-- **C01 (svd), premise on `A` only**: `C01_svd_decompose` with `Unambiguous` derived -/
theorem C01_svd_decompose_of_gap {sq : K → K} (hs : Svd.SqrtLaw sq) (fixed : Bool) {τ tol : K} (htol : 0 ≤ tol)
    (hτ : tol ≤ τ) (p : Problem K) (h : SingGap (@Problem.A K (fieldScalar sq) p) 1 τ) (d : Svd.Dec K)
    (hd : @Svd.decompose K (fieldScalar sq) p.m p.n (@Problem.dense K (fieldScalar sq) p) = .ok d)
    (hreg : Svd.RegOK p.reg) (a : Answer K) (ha : @svdSolveCert K (fieldScalar sq) fixed tol d p = .ok a) :
    IsLSSolution (@Problem.A K (fieldScalar sq) p) (@Problem.b K (fieldScalar sq) p) 1
      (p.S) (toVec p.n a.x) (toVec p.m a.r) a.rtr :=
  C01_svd_decompose hs fixed htol p d hd (C01_singgap_unambiguous hs hτ p.m p.n _ h d hd) hreg a ha

end general

/-! ### relation to `RankGap` -/

/-- **`SingGap` vs `RankGap`**: (i) with ALL columns in the regularisation subset (`min_x()`) and `τ² < 1` the
    single hypothesis of envelope/cholesky/gso is just its pivot half `GapAllP`; (ii) `SingGap` does NOT imply
    the pivot gap (`A = [1/2]`, `τ = 1/2`: the pivot is `1/4`); (iii) the pivot gap does NOT imply `SingGap`
    (`A = diag(4,1)`, `τ = 1/2`: pivots 16, 1 but `σ_min/σ_max = 1/4`).  Hence for `S` = all columns neither of
    `RankGap A P univ τ`, `SingGap A P τ` implies the other. -/
theorem C01_singgap_vs_rankgap :
    (∀ {K : Type} [Field K] [LinearOrder K] [IsStrictOrderedRing K] {m n : ℕ} (A : Matrix (Fin m) (Fin n) K)
      (P : Matrix (Fin m) (Fin m) K) (τ : K), τ * τ < 1 →
      (RankGap A P (Finset.univ : Finset (Fin n)) τ ↔ GapAllP A P τ))
    ∧ (SingGap (!![1/2] : Matrix (Fin 1) (Fin 1) ℚ) 1 (1/2)
        ∧ ¬ RankGap (!![1/2] : Matrix (Fin 1) (Fin 1) ℚ) 1 Finset.univ (1/2))
    ∧ (RankGap (!![4, 0; 0, 1] : Matrix (Fin 2) (Fin 2) ℚ) 1 Finset.univ (1/2)
        ∧ ¬ SingGap (!![4, 0; 0, 1] : Matrix (Fin 2) (Fin 2) ℚ) 1 (1/2)) :=
  ⟨fun A P τ hτ => rankGap_univ_iff hτ,
   ⟨singGap_not_gapAll.1, fun h => singGap_not_gapAll.2 h.1⟩,
   ⟨(rankGap_univ_iff (by norm_num)).2 gapAll_not_singGap.1, gapAll_not_singGap.2⟩⟩

/-! ### the solver as it runs, `Adj`, `LocalNetwork` -/

section solvers
variable {K : Type} [Field K] [LinearOrder K] [IsStrictOrderedRing K] [Gso.SqrtField K]
attribute [local instance] sqrtFnOfSqrtField
attribute [local instance 2000] scalarOfField

/-- the premise `hun` of `C01_svd_solve_decompose` from the input-side hypothesis -/
theorem C01_svd_unambiguous_of_gap (q : Problem K) {τ : K} (hw : (Svd.wTol : K) ≤ τ) (h : SingGap q.A 1 τ) :
    ∀ d, Svd.decompose q.m q.n q.dense = .ok d →
      Svd.Unambiguous (Gso.SqrtField.sqrt : K → K) Svd.wTol q.n (Svd.vget d.W) :=
  fun d hd => C01_singgap_unambiguous sqrtLaw_of_sqrtField hw q.m q.n q.dense h d hd

/-- **C01 (svd as it runs), premise on `A` only**: `svdSolve` = `Svd.decompose`, `set_inv_W` at `Svd.wTol`,
    `min_subset_x`, `solve` — whatever it answers is the least-squares solution, minimum norm on `S` -/
theorem C01_svd_of_gap (q : Problem K) (hreg : Svd.RegOK q.reg) {τ : K} (hw : (Svd.wTol : K) ≤ τ)
    (h : SingGap q.A 1 τ) (s : Answer K) (hs : svdSolve q = .ok s) :
    IsLSSolution q.A q.b 1 q.S (toVec q.n s.x) (toVec q.m s.r) s.rtr :=
  C01_svd_solve_decompose q hreg (C01_svd_unambiguous_of_gap q hw h) s hs

/-- **entry point `Adj`**: the hypothesis on the ORIGINAL `(A, P)` gives the premise `hun` of
    `C01_adj_svd_decompose` (and of `C02_adj_svd_hyp_decompose`) — `Adj` hands the svd solver `(W A, ·)`
    with `WᵀW = P` -/
theorem C01_adj_svd_unambiguous_of_gap (p : Problem K) (hdim : (dimsOf p).sum = p.m)
    (P : Matrix (Fin p.m) (Fin p.m) K) (hP : p.C * P = 1) {τ : K} (hw : (Svd.wTol : K) ≤ τ)
    (h : SingGap p.A P τ) :
    ∀ Ad bd d, AdjM.homogenise p = .ok (Ad, bd) →
      Svd.decompose p.m p.n (AdjM.dotProblem p Ad bd (AdjM.regOf p.reg)).dense = .ok d →
      Svd.Unambiguous (Gso.SqrtField.sqrt : K → K) Svd.wTol p.n (Svd.vget d.W) := by
  intro Ad bd d hh hd
  obtain ⟨W, hW, -, hA, -⟩ := adj_dot_whitened p (sqrtExactP_of_sqrtField p) hdim P hP Ad bd hh
  have h' : SingGap (AdjM.dotProblem p Ad bd (AdjM.regOf p.reg)).A 1 τ := by
    rw [hA]; exact (SingGap.whiten hW).1 h
  exact C01_svd_unambiguous_of_gap (AdjM.dotProblem p Ad bd (AdjM.regOf p.reg)) hw h' d hd

/-- **C01 through `Adj` for svd from ONE hypothesis on `(A, P)`**: `RegOK ∧ SingGap` ⇒ whatever
    `Adj` + svd answers is the least-squares solution of the original weighted problem -/
theorem C01_adj_of_gap_svd (p : Problem K) (hdim : (dimsOf p).sum = p.m) (hrows : RowsOK p)
    (P : Matrix (Fin p.m) (Fin p.m) K) (hP : p.C * P = 1) (hreg : Svd.RegOK p.reg) {τ : K}
    (hw : (Svd.wTol : K) ≤ τ) (h : SingGap p.A P τ) (a : Answer K) (hs : adjSolve .svd p = .ok a) :
    IsLSSolution p.A p.b P p.S (toVec p.n a.x) (toVec p.m a.r) a.rtr :=
  C01_adj_svd_decompose p hdim hrows P hP hreg (C01_adj_svd_unambiguous_of_gap p hdim P hP hw h) a hs

/-- **C01 through `Adj`, ALL FOUR algorithms**: `C01_adj_of_gap` without `alg ≠ .svd` — the hypotheses on
    the original `(A, P, S)` are `RankGap` (envelope, cholesky, gso) and `SingGap` (svd) -/
theorem C01_adj_of_gap_all (p : Problem K) (hin : Env.InputOK p) (hreg : Env.RegListOK p)
    (P : Matrix (Fin p.m) (Fin p.m) K) (hP : p.C * P = 1) {τ : K} (hτ : GapThresholds τ)
    (hw : (Svd.wTol : K) ≤ τ) (h : RankGap p.A P p.S τ) (hsv : SingGap p.A P τ)
    (alg : Alg) (a : Answer K) (hs : adjSolve alg p = .ok a) :
    IsLSSolution p.A p.b P p.S (toVec p.n a.x) (toVec p.m a.r) a.rtr := by
  by_cases halg : alg = .svd
  · subst halg
    have hr : Svd.RegOK p.reg := by
      cases hp : p.reg with
      | none => trivial
      | all => trivial
      | subset l => exact (hreg l hp).1
    exact C01_adj_of_gap_svd p hin.dims hin.rows P hP hr hw hsv a hs
  · exact C01_adj_of_gap p hin hreg P hP hτ h alg halg a hs

/-- **entry point `LocalNetwork`**: the hypothesis on the assembled `(A, m0²·Σ⁻¹)` gives the premise `hun` of
    `C01_net_svd_decompose` (and of `C02_net_svd_hyp_decompose`) -/
theorem C01_net_svd_unambiguous_of_gap (np : Net.NetProblem K)
    (hdim : (Net.dimsN np).sum = np.m) (hrows : RowsOK (Net.toProblem np)) (hm0 : np.m0 ≠ 0)
    (Pc : Matrix (Fin (Net.toProblem np).m) (Fin (Net.toProblem np).m) K) (hPc : Net.Sigma np * Pc = 1)
    {τ : K} (hw : (Svd.wTol : K) ≤ τ) (h : SingGap (Net.toProblem np).A ((np.m0 * np.m0) • Pc) τ) :
    ∀ hh d, Net.prepare np = .ok hh →
      Svd.decompose np.m np.n (Net.dotProblem np hh).dense = .ok d →
      Svd.Unambiguous (Gso.SqrtField.sqrt : K → K) Svd.wTol np.n (Svd.vget d.W) := by
  intro hh d hp hd
  obtain ⟨W, hW, -, hA, -⟩ := C01_net_prepare C01_gap2_isSqrt np hdim hrows hm0 Pc hPc hh hp
  have eA : (Net.dotProblem np hh).A = W * (Net.toProblem np).A := by
    unfold Net.dotProblem; rw [dotProblem_A, hA]
  have h' : SingGap (Net.dotProblem np hh).A 1 τ := by
    rw [eA]; exact (SingGap.whiten hW).1 h
  exact C01_svd_unambiguous_of_gap (Net.dotProblem np hh) hw h' d hd

/-- **C01 through `LocalNetwork` for svd from ONE hypothesis** on the assembled `(A, P = m0²·Σ⁻¹)` -/
theorem C01_net_of_gap_svd (np : Net.NetProblem K)
    (hdim : (Net.dimsN np).sum = np.m) (hrows : RowsOK (Net.toProblem np)) (hm0 : np.m0 ≠ 0)
    (Pc : Matrix (Fin (Net.toProblem np).m) (Fin (Net.toProblem np).m) K) (hPc : Net.Sigma np * Pc = 1)
    (hreg : np.minx.Nodup) {τ : K} (hw : (Svd.wTol : K) ≤ τ)
    (h : SingGap (Net.toProblem np).A ((np.m0 * np.m0) • Pc) τ)
    (a : Net.NetAnswer K) (hs : Net.netSolve .svd np = .ok a) :
    IsLSSolution (Net.toProblem np).A (Net.toProblem np).b ((np.m0 * np.m0) • Pc) (Net.toProblem np).S
      (toVec (Net.toProblem np).n a.x) (toVec (Net.toProblem np).m a.r) a.pvv :=
  C01_net_svd_decompose np hdim hrows hm0 Pc hPc hreg
    (C01_net_svd_unambiguous_of_gap np hdim hrows hm0 Pc hPc hw h) a hs

/-- **C01 through `LocalNetwork`, ALL FOUR algorithms**: `C01_net_of_gap` without `alg ≠ .svd` -/
theorem C01_net_of_gap_all (np : Net.NetProblem K)
    (hdim : (Net.dimsN np).sum = np.m) (hrows : RowsOK (Net.toProblem np)) (hm0 : np.m0 ≠ 0)
    (Pc : Matrix (Fin (Net.toProblem np).m) (Fin (Net.toProblem np).m) K) (hPc : Net.Sigma np * Pc = 1)
    (hreg : Env.RegListOK (Net.toProblem np)) {τ : K} (hτ : GapThresholds τ) (hw : (Svd.wTol : K) ≤ τ)
    (h : RankGap (Net.toProblem np).A ((np.m0 * np.m0) • Pc) (Net.toProblem np).S τ)
    (hsv : SingGap (Net.toProblem np).A ((np.m0 * np.m0) • Pc) τ)
    (alg : Alg) (a : Net.NetAnswer K) (hs : Net.netSolve alg np = .ok a) :
    IsLSSolution (Net.toProblem np).A (Net.toProblem np).b ((np.m0 * np.m0) • Pc) (Net.toProblem np).S
      (toVec (Net.toProblem np).n a.x) (toVec (Net.toProblem np).m a.r) a.pvv := by
  by_cases halg : alg = .svd
  · subst halg
    exact C01_net_of_gap_svd np hdim hrows hm0 Pc hPc (hreg np.minx rfl).1 hw hsv a hs
  · exact C01_net_of_gap np hdim hrows hm0 Pc hPc hreg hτ h alg halg a hs

end solvers

/-! ### non-vacuity -/

section examples
open Gama.Ls.Ex
attribute [local instance] sqrtFnOfSqrtField
attribute [local instance 2000] scalarOfField

/-- **`Ex.pCVdot` over ℝ (`A = [[6,8],[3,4],[6,8]]`, RANK 1) satisfies `SingGap` at the model's own tolerance
    `Svd.wTol`**: `AᵀA = [[81,108],[108,144]]` has exactly the eigenvalues `0` and `225` (both occur);
    the condition fails on the same matrix for `τ = 1` -/
example : SingGap pCVdot.A (1 : Matrix (Fin pCVdot.m) (Fin pCVdot.m) ℝ) (Svd.wTol : ℝ)
    ∧ (∀ lam, IsEig (pCVdot.Aᵀ * (1 : Matrix (Fin pCVdot.m) (Fin pCVdot.m) ℝ) * pCVdot.A) lam ↔ lam = 0 ∨ lam = 225)
    ∧ ¬ SingGap pCVdot.A (1 : Matrix (Fin pCVdot.m) (Fin pCVdot.m) ℝ) (1 : ℝ) := by
  refine ⟨pCVdot_singGap_wTol, fun lam => ?_, pCVdot_not_singGap_one⟩
  rw [pCVdot_gram]
  refine ⟨pCVdot_eig lam, ?_⟩
  rintro (rfl | rfl)
  · exact pCVdot_eig_both.1
  · exact pCVdot_eig_both.2

/-- `C01_singgap_unambiguous` / `C01_svd_unambiguous_of_gap` applied: the unambiguity of the singular values
    the run on `pCVdot` returns (`W = (0, 15)`) now FOLLOWS from the hypothesis on the matrix — the run is
    not inspected; and the run does return (`pCVdot_decompose`), so the statement is not empty -/
example : (∀ d, Svd.decompose pCVdot.m pCVdot.n pCVdot.dense = .ok d →
      Svd.Unambiguous (Gso.SqrtField.sqrt : ℝ → ℝ) Svd.wTol pCVdot.n (Svd.vget d.W))
    ∧ Svd.decompose pCVdot.m pCVdot.n pCVdot.dense = .ok dCV :=
  ⟨C01_svd_unambiguous_of_gap pCVdot le_rfl pCVdot_singGap_wTol, pCVdot_decompose⟩

/-- `C01_svd_of_gap` on `pCVdot`: every hypothesis holds, `svdSolve` answers x = (0, 1/8), defect 1, and the
    answer is the least-squares solution with minimum norm on `S = {1}` — obtained from the theorem -/
example : Svd.RegOK pCVdot.reg ∧ ∃ s, svdSolve pCVdot = .ok s ∧ s.x = #[0, 1/8] ∧ s.defect = 1
    ∧ IsLSSolution pCVdot.A pCVdot.b 1 pCVdot.S (toVec pCVdot.n s.x) (toVec pCVdot.m s.r) s.rtr := by
  obtain ⟨s, hs, hx, hd⟩ := pCVdot_svdSolve
  exact ⟨List.nodup_singleton 1, s, hs, hx, hd,
    C01_svd_of_gap pCVdot (List.nodup_singleton 1) le_rfl pCVdot_singGap_wTol s hs⟩

/-- `C01_adj_of_gap_svd` on the WEIGHTED problem `Ex.pCV` (correlated block `[[4,2],[2,10]]` + variance 4,
    `A = [[12,16],[15,20],[12,16]]`, defect 1, S = {1}): `SingGap pCV.A PCV τ` for every `τ² < 1`, all other
    hypotheses hold, `Adj` + svd answers x = (0, 1/8) — a least-squares solution of the ORIGINAL weighted
    problem, with NO premise on the run -/
example : (dimsOf pCV).sum = pCV.m ∧ RowsOK pCV ∧ pCV.C * PCV = 1 ∧ Svd.RegOK pCV.reg
    ∧ SingGap pCV.A PCV (Svd.wTol : ℝ)
    ∧ ∃ a, adjSolve .svd pCV = .ok a ∧ a.x = #[0, 1/8] ∧ a.defect = 1
      ∧ IsLSSolution pCV.A pCV.b PCV pCV.S (toVec pCV.n a.x) (toVec pCV.m a.r) a.rtr := by
  obtain ⟨a, h, hx, hd⟩ := pCV_adj_svd pCV_decompose
  exact ⟨by decide, pCV_rows, pCV_weight, List.nodup_singleton 1, pCV_singGap wTol_sq_lt_one, a, h, hx, hd,
    C01_adj_of_gap_svd pCV (by decide) pCV_rows PCV pCV_weight (List.nodup_singleton 1) le_rfl
      (pCV_singGap wTol_sq_lt_one) a h⟩

/-- one `τ` for all four algorithms: `τ = 1/2` dominates every threshold of envelope/cholesky/gso
    (`GapThresholds`) and the svd tolerance `Svd.wTol ≤ 1/100`; and `pCV` satisfies `SingGap` there -/
example : GapThresholds (1 / 2 : ℝ) ∧ (Svd.wTol : ℝ) ≤ 1 / 2 ∧ SingGap pCV.A PCV (1 / 2 : ℝ) :=
  ⟨gapThresholds_half, le_trans Svd.wTol_le (by norm_num), pCV_singGap (by norm_num)⟩

/-- `C01_singgap_scale`, `C01_singgap_basic` on the instance: `1000·A` satisfies the same hypothesis, and
    the hypothesis at `1/2` gives the one at `Svd.wTol` -/
example : SingGap ((1000 : ℝ) • pCV.A) PCV (1 / 2 : ℝ) ∧ SingGap pCV.A PCV (Svd.wTol : ℝ) := by
  obtain ⟨W, hW, -, -, -⟩ := adj_dot_whitened pCV (sqrtExactP_of_sqrtField pCV) (by decide) PCV pCV_weight
    _ _ pCV_homogenise
  exact ⟨(C01_singgap_scale pCV.A PCV (1 / 2) 1000 (by norm_num)).2 (pCV_singGap (by norm_num)),
    (C01_singgap_basic pCV.A PCV W (1 / 2) hW).2 (pCV_singGap (by norm_num)) _ Svd.wTol_nonneg
      (le_trans Svd.wTol_le (by norm_num))⟩

/-- `C01_singgap_sing` over ℝ (`Real.sqrt`): the singular-value reading of the hypothesis for `pCVdot`
    (`σ ∈ {0, 15}`) -/
example : ∀ σ ρ : ℝ, 0 ≤ σ → 0 ≤ ρ →
    IsEig (pCVdot.Aᵀ * (1 : Matrix (Fin pCVdot.m) (Fin pCVdot.m) ℝ) * pCVdot.A) (σ * σ) →
    IsEig (pCVdot.Aᵀ * (1 : Matrix (Fin pCVdot.m) (Fin pCVdot.m) ℝ) * pCVdot.A) (ρ * ρ) →
    σ = 0 ∨ (Svd.wTol : ℝ) * ρ < σ :=
  (C01_singgap_sing Svd.Ex.sqrtLaw_real pCVdot.A 1 1 (Svd.wTol : ℝ) (by simp) Svd.wTol_nonneg).1 pCVdot_singGap_wTol

/-- the hypotheses of `C01_net_of_gap_svd` / `C01_net_of_gap_all` in the shape `LocalNetwork` needs them
    (`P = m0²·Pc`) are satisfiable together: the matrices of `pCV` with `m0 = 1`, `Pc = PCV`.  The
    structural hypotheses (`hdim`, `RowsOK`, `m0 ≠ 0`, `Σ·Pc = 1`, `minx.Nodup`) are those of
    `C01_net_svd_decompose`, witnessed by `Ex.npQ` in `Props/C01/NetFacade.lean` over ℚ; on an evaluated
    `NetProblem ℝ` (`Ex.npV`, `Lemmas/Ls/NetFacadeRealSvd.lean`) the hypothesis is PROVED in this shape and
    `C01_net_of_gap_svd` applied through `C01_net_of_inputgap`: `Props/C01/InputGap.lean`
    (`C01_net_singgap_witness`) -/
example : SingGap pCV.A (((1 : ℝ) * 1) • PCV) (1 / 2 : ℝ) := by
  rw [mul_one, one_smul]
  exact pCV_singGap (by norm_num)

end examples

end Gama.Props.C01
