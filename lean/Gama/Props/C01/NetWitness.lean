/-
  C01 at `LocalNetwork` level — a JOINT witness of the hypotheses of the network theorems in their OWN carrier
  (ℝ with `Real.sqrt`): audit #3, gap #2 of the closing table of `notes/CLAUSES.md`.

  ONE network `Ex.npR : NetProblem ℝ` (`Lemmas/Ls/NetFacadeReal.lean`):
    * a CORRELATED cluster of three observations (`[[16,3,8],[3,25,5],[8,5,40]]`) whose SECOND observation is
      excluded (passive): `activeCov()` = `[[16,8],[8,40]]`, band 1;
    * an all-passive cluster (skipped) and an uncorrelated cluster (one observation, variance 16);
    * `m_0_apr_ = 2`; `A = [[4,4],[5,5],[4,4]]` — rank defect 1, kernel `(1,−1)`; `rhs_ = (1,2,3)`;
      `min_x_ = [1]` (a proper subset that resolves the defect).
  For it:
    * the static hypotheses `hdim`, `RowsOK`, `m0 ≠ 0`, `Σ·Pc = 1` (`Pc = Σ⁻¹` explicit), `RegListOK`;
    * THE single premise `RankGap A (m0²·Pc) S ½` is PROVED (`C01_net_rankgap_witness`; every Schur pivot of
      `AᵀPA` is 0 or `aᵀPa = 9`, the kernel is `t·(1,−1)`) and `GapThresholds ½`;
    * hence `Net.SolverHyp alg npR` for envelope, cholesky and gso (`C01_net_solverhyp_of_gap`, general);
    * `netSolve .gso`, `.chol`, `.env` ANSWER on it over ℝ (the model evaluated: `prepareProjectEquations()` with
      `√4 = 2`, `√9 = 3`; Gram–Schmidt, pivoted Cholesky + Gram–Schmidt of the null space, `Homogenization::run` +
      reverse Cuthill–McKee + envelope `LDLᵀ` + Gram–Schmidt);
    * `C01_net_of_gap` APPLIED: each answer is the weighted least-squares solution; and, by uniqueness
      (`C01_spec_unique`) against the explicit solution, the answers ARE `x = (0, 1/2)`, `r = (1, 1/2, −1)`,
      `[pvv] = 1/2`, defect 1, for all three algorithms.
  The other properties' theorems are applied to the same object in `Props/C02NetWitness.lean`,
  `Props/C03/NetWitness.lean`, `Props/C08NetWitness.lean`, `Props/C09NetWitness.lean`.
-/
import Gama.Lemmas.Ls.NetFacadeReal
import Gama.Props.C01.Gap2
import Gama.Props.C01.Spec
namespace Gama.Props.C01
open Gama Gama.Ls Gama.Ls.Net Gama.LS Gama.Ls.Ex Matrix

set_option linter.unusedSectionVars false
set_option linter.unusedVariables false
set_option linter.unusedSimpArgs false

section general
variable {K : Type} [Field K] [LinearOrder K] [IsStrictOrderedRing K] [Gso.SqrtField K]
attribute [local instance] sqrtFnOfSqrtField
attribute [local instance 2000] scalarOfField

/-- **the per-algorithm premise of every `LocalNetwork`-level theorem from the ONE hypothesis on `(A, P, S)`**:
    `Net.SolverHyp alg np` (the premise of `C02_same_net`, `C03_net_cofactors`, `C08_net_datum`, `C09_*_of_net`,
    `C09_net_sigma_apr_scaling`) for envelope, cholesky and gso -/
theorem C01_net_solverhyp_of_gap (np : Net.NetProblem K)
    (hdim : (Net.dimsN np).sum = np.m) (hrows : RowsOK (Net.toProblem np)) (hm0 : np.m0 ≠ 0)
    (Pc : Matrix (Fin (Net.toProblem np).m) (Fin (Net.toProblem np).m) K) (hPc : Net.Sigma np * Pc = 1)
    (hreg : Env.RegListOK (Net.toProblem np)) {τ : K} (hτ : GapThresholds τ)
    (h : RankGap (Net.toProblem np).A ((np.m0 * np.m0) • Pc) (Net.toProblem np).S τ)
    (alg : Alg) (halg : alg ≠ .svd) : Net.SolverHyp alg np := by
  have _ := lawfulSqrt_of_sqrtField (K := K)
  obtain ⟨henv, hdot⟩ := C01_net_unambiguous_of_gap np hdim hrows hm0 Pc hPc hreg hτ h
  cases alg with
  | svd => exact absurd rfl halg
  | env => exact ⟨hreg, henv.1⟩
  | chol =>
    exact fun hh hp => ⟨(hdot hh hp).1, Chol.GsSqrtExact.of_lawful _,
      fun S hS => C01_gap2_nodup np.n np.minx S (hreg np.minx rfl).1 hS⟩
  | gso => exact fun hh hp => (hdot hh hp).2.2

end general

section witness
attribute [local instance] sqrtFnOfSqrtField
attribute [local instance 2000] scalarOfField

/-- the static hypotheses of every `C01_net_*` theorem on `Ex.npR` (and on the second runs `npW 2 [2]`,
    `npW 4 [1]` of the datum and scaling theorems): `hdim`, `RowsOK`, `m0 ≠ 0`, `Σ·Pc = 1`, `RegListOK` -/
theorem C01_net_static_witness (m0 : ℝ) (hm0 : m0 ≠ 0) (l : List ℕ) (hl : l = [1] ∨ l = [2]) :
    (dimsN (npW m0 l)).sum = (npW m0 l).m ∧ RowsOK (toProblem (npW m0 l)) ∧ (npW m0 l).m0 ≠ 0
    ∧ Sigma (npW m0 l) * PcW m0 l = 1 ∧ Env.RegListOK (toProblem (npW m0 l)) :=
  ⟨npW_dims m0 l, npW_rows m0 l, hm0, npW_sigma_inv m0 l, npW_regListOK m0 l hl⟩

/-- **`RankGap` on a correlated network with an excluded observation, defect 1** (`τ = ½`, which dominates
    every threshold of the three codes) -/
theorem C01_net_rankgap_witness :
    RankGap (toProblem npR).A ((npR.m0 * npR.m0) • PcN) (toProblem npR).S (1 / 2 : ℝ)
    ∧ GapThresholds (1 / 2 : ℝ) :=
  ⟨npR_rankGap, gapThresholds_half⟩

/-- hence the per-algorithm premise on `npR`, for the three algorithms -/
theorem C01_net_solverhyp_witness (alg : Alg) (halg : alg ≠ .svd) : Net.SolverHyp alg npR :=
  C01_net_solverhyp_of_gap npR (npW_dims 2 [1]) (npW_rows 2 [1]) (by show (2 : ℝ) ≠ 0; norm_num) PcN
    npR_sigma_inv (npW_regListOK 2 [1] (Or.inl rfl)) gapThresholds_half C01_net_rankgap_witness.1 alg halg

/-- all three algorithms answer on `npR` over ℝ, with defect 1 -/
theorem C01_net_answers_witness (alg : Alg) (halg : alg ≠ .svd) :
    ∃ a, netSolve alg npR = .ok a ∧ a.defect = 1 := by
  cases alg with
  | svd => exact absurd rfl halg
  | env => exact npW2_env [1] (Or.inl rfl)
  | chol => exact npR_chol
  | gso => obtain ⟨a, h, -, d⟩ := npR_gso; exact ⟨a, h, d⟩

theorem npW_b (m0 : ℝ) (l : List ℕ) : ((toProblem (npW m0 l)).b : Fin 3 → ℝ) = ![1, 2, 3] := by
  funext i; fin_cases i <;> rfl

/-- the explicit weighted least-squares solution, at literal index types -/
theorem C01_net_solution_literal :
    IsLSSolution (!![4, 4; 5, 5; 4, 4] : Matrix (Fin 3) (Fin 2) ℝ) ![1, 2, 3] (((2 : ℝ) * 2) • PcR)
      ({0} : Finset (Fin 2)) ![0, 1 / 2] ![1, 1 / 2, -1] (1 / 2) := by
  have hPv : (((2 : ℝ) * 2) • PcR) *ᵥ (![1, 1 / 2, -1] : Fin 3 → ℝ) = ![1 / 4, 0, -1 / 4] := by
    funext i
    fin_cases i <;> simp [PcR, Matrix.mulVec, dotProduct, Fin.sum_univ_three] <;> norm_num
  refine ⟨?_, ?_, ?_, ?_⟩
  · funext i
    fin_cases i <;> simp [Matrix.mulVec, dotProduct, Fin.sum_univ_two] <;> norm_num
  · rw [hPv]
    funext j
    fin_cases j <;> simp [Matrix.mulVec, dotProduct, Fin.sum_univ_three] <;> norm_num
  · rw [hPv]
    simp [dotProduct, Fin.sum_univ_three]
    norm_num
  · intro g _
    simp

/-- the explicit weighted least-squares solution of `npR` with minimal norm over `min_x_ = [1]`:
    `x = (0, 1/2)`, `v = A x − b = (1, 1/2, −1)`, `vᵀPv = 1/2` with `P = m0²·Σ⁻¹` -/
theorem C01_net_solution_witness :
    IsLSSolution (toProblem npR).A (toProblem npR).b ((npR.m0 * npR.m0) • PcN) (toProblem npR).S
      (![0, 1 / 2] : Fin 2 → ℝ) (![1, 1 / 2, -1] : Fin 3 → ℝ) (1 / 2) := by
  have hA : ((toProblem npR).A : Matrix (Fin 3) (Fin 2) ℝ) = !![4, 4; 5, 5; 4, 4] := npW_A 2 [1]
  have hb : ((toProblem npR).b : Fin 3 → ℝ) = ![1, 2, 3] := npW_b 2 [1]
  have hS : ((toProblem npR).S : Finset (Fin 2)) = ({0} : Finset (Fin 2)) := npW_S1 2
  have key := C01_net_solution_literal
  rw [← hA, ← hb, ← hS] at key
  exact key

/-- **`C01_net_of_gap` APPLIED to `npR`, every hypothesis discharged on the same object**: for envelope, cholesky
    and gso the model answers, the answer is the weighted least-squares solution of the ORIGINAL system
    (`P = m0²·Σ⁻¹` of the active observations, minimal norm over `min_x_`), and it is
    `x = (0, 1/2)`, `r = (1, 1/2, −1)`, `[pvv] = 1/2`, defect 1 -/
theorem C01_net_of_gap_witness (alg : Alg) (halg : alg ≠ .svd) :
    ∃ a, netSolve alg npR = .ok a ∧
      IsLSSolution (toProblem npR).A (toProblem npR).b ((npR.m0 * npR.m0) • PcN) (toProblem npR).S
        (toVec (toProblem npR).n a.x) (toVec (toProblem npR).m a.r) a.pvv ∧
      toVec (toProblem npR).n a.x = (![0, 1 / 2] : Fin 2 → ℝ) ∧
      toVec (toProblem npR).m a.r = (![1, 1 / 2, -1] : Fin 3 → ℝ) ∧ a.pvv = 1 / 2 ∧ a.defect = 1 := by
  obtain ⟨a, ha, hd⟩ := C01_net_answers_witness alg halg
  have hm0 : npR.m0 ≠ 0 := by show (2 : ℝ) ≠ 0; norm_num
  have hls := C01_net_of_gap npR (npW_dims 2 [1]) (npW_rows 2 [1]) hm0 PcN npR_sigma_inv
    (npW_regListOK 2 [1] (Or.inl rfl)) gapThresholds_half C01_net_rankgap_witness.1 alg halg a ha
  obtain ⟨W, hW, hinj, -, -⟩ := C01_net_prepare C01_gap2_isSqrt npR (npW_dims 2 [1]) (npW_rows 2 [1]) hm0
    PcN npR_sigma_inv _ (npR_prepare [1])
  have hpd : ∀ d, d ≠ 0 → 0 < d ⬝ᵥ ((npR.m0 * npR.m0) • PcN) *ᵥ d := hW ▸ gram_pd W hinj
  obtain ⟨ex, er, ep⟩ := C01_spec_unique hpd C01_net_rankgap_witness.1.2.resolves hls C01_net_solution_witness
  exact ⟨a, ha, hls, ex, er, ep, hd⟩

/-- not vacuous the other way either: the defect is real (`(1,−1)` is in the kernel) and `min_x_` is a proper subset -/
example : ∃ g : Fin 2 → ℝ, (!![4, 4; 5, 5; 4, 4] : Matrix (Fin 3) (Fin 2) ℝ) *ᵥ g = 0 ∧ g ≠ 0 := by
  refine ⟨![1, -1], ?_, ?_⟩
  · funext i; fin_cases i <;> simp [Matrix.mulVec, dotProduct, Fin.sum_univ_two]
  · intro h
    have := congrFun h 0
    simp at this

/-- what `prepareProjectEquations()` leaves on `npR` over ℝ: the Cholesky factors `[[2,0],[1,3]]` (band 1), `[2]`
    and the homogenised system `([[2,2],[1,1],[2,2]], (1/2,1/2,3/2))` -/
example : prepare npR = .ok ⟨[⟨2, 1, #[2, 1, 3]⟩, ⟨1, 0, #[2]⟩],
    #[#[2, 2], #[1, 1], #[2, 2]], #[1 / 2, 1 / 2, 3 / 2]⟩ := npR_prepare [1]

end witness

end Gama.Props.C01
