/-
  C01 — the composed theorems on an instance that IS a `projectEquations` output, over ℝ (audit #4, remaining gap 2).
  `Ex.netWobs : PE.Net ℝ` (`Lemmas/PeWitnessReal.lean`): levelling, `A` fixed, `B` constrained, `C` free; a CORRELATED
  cluster of three height differences with its second one SWITCHED OFF, an all-passive cluster, an uncorrelated cluster,
  `m_0_apr_ = 2`; the height differences are NOT consistent (misclosures `(1, 2, 4)` mm).
  `projectEquations netWobs = .ok (npO, uO)` (evaluated), and on THAT output:
    * `C01_net_of_project_equations_gap_pe_witness`: `NoAlias`, `m0 ≠ 0`, `Σ·Pc = 1`, `GapThresholds 2⁻¹³`, `RankGap` proved;
      envelope, cholesky and gso ANSWER; the theorem applied; by uniqueness the answer is `x = (14/11, 42/11)` mm,
      `r = (3/11, 6/11, −2/11)`, `[pvv] = 1/22` — not the zero solution;
    * `C01_pe_matrix_is_jacobian_pe_witness`: every row of the matrix of that least-squares problem is the derivative of its
      height difference (`Regular` holds: levelling rows are always regular).
-/
import Gama.Lemmas.PeWitnessReal
import Gama.Props.C01.ProjectEquationsGap
import Gama.Props.C01.ProjectEquationsMatrix
import Gama.Props.C01.Spec
namespace Gama.Props.C01
open Gama Gama.Lin Gama.PE Gama.Ls Gama.Ls.Net Gama.LS Gama.C06NZ Gama.C06NZ.Ex Gama.Ls.Ex Matrix

set_option linter.unusedVariables false
set_option linter.unusedSimpArgs false

section witness
attribute [local instance] sqrtFnOfSqrtField
attribute [local instance 2000] scalarOfField
attribute [local instance 3000] fieldTrig
attribute [-simp] Gama.C06R.add_eq Gama.C06R.sub_eq Gama.C06R.mul_eq Gama.C06R.div_eq Gama.C06R.neg_eq Gama.C06R.zero_eq
  Gama.C06R.one_eq Gama.C06R.lt_eq Gama.C06R.le_eq

/-- the explicit weighted least-squares solution of the levelling system, at literal index types -/
theorem C01_pe_solution_literal :
    IsLSSolution (!![1, 0; -1, 1; 0, 1] : Matrix (Fin 3) (Fin 2) ℝ) ![1, 2, 4] (((2 : ℝ) * 2) • PcR)
      ({0} : Finset (Fin 2)) ![14 / 11, 42 / 11] ![3 / 11, 6 / 11, -2 / 11] (1 / 22) := by
  have hPv : (((2 : ℝ) * 2) • PcR) *ᵥ (![3 / 11, 6 / 11, -2 / 11] : Fin 3 → ℝ) = ![1 / 22, 1 / 22, -1 / 22] := by
    funext i
    fin_cases i <;> simp [PcR, Matrix.mulVec, dotProduct, Fin.sum_univ_three] <;> norm_num
  refine ⟨?_, ?_, ?_, ?_⟩
  · funext i
    fin_cases i <;> simp [Matrix.mulVec, dotProduct, Fin.sum_univ_two] <;> norm_num
  · rw [hPv]
    funext j
    fin_cases j <;> simp [Matrix.mulVec, dotProduct, Fin.sum_univ_three] <;> norm_num
  · rw [hPv]
    simp [dotProduct, Fin.sum_univ_three]
    norm_num
  · intro g hg
    have := kerLit g hg
    simp [this]

/-- **`C01_net_of_project_equations_gap` applied to an evaluated `projectEquations` output over ℝ** -/
theorem C01_net_of_project_equations_gap_pe_witness (alg : Alg) (halg : alg ≠ .svd) :
    projectEquations netWobs = .ok (npO, uO) ∧
    ∃ a, netSolve alg npO = .ok a ∧
      IsLSSolution (toProblem npO).A (toProblem npO).b ((npO.m0 * npO.m0) • PcG [1]) (toProblem npO).S
        (toVec (toProblem npO).n a.x) (toVec (toProblem npO).m a.r) a.pvv ∧
      toVec (toProblem npO).n a.x = (![14 / 11, 42 / 11] : Fin 2 → ℝ) ∧
      toVec (toProblem npO).m a.r = (![3 / 11, 6 / 11, -2 / 11] : Fin 3 → ℝ) ∧ a.pvv = 1 / 22 := by
  refine ⟨peO, ?_⟩
  obtain ⟨a, ha⟩ := npG_answers [1] (Or.inl rfl) alg halg
  have hls := C01_net_of_project_equations_gap realTrig netWobs npO uO peO (npG_m0 [1]) (PcG [1]) (npG_sigma_inv [1])
    C01_gap_thresholds_default (npG_rankGap [1]) alg halg a ha
  obtain ⟨hh, hp⟩ := npG_prepare [1]
  obtain ⟨W, hW, hinj, -, -⟩ := C01_net_prepare C01_gap2_isSqrt npO (npG_dims [1]) (npG_rows [1]) (npG_m0 [1])
    (PcG [1]) (npG_sigma_inv [1]) hh hp
  have hpd : ∀ d, d ≠ 0 → 0 < d ⬝ᵥ ((npO.m0 * npO.m0) • PcG [1]) *ᵥ d := hW ▸ gram_pd W hinj
  have hS : ((toProblem npO).S : Finset (Fin 2)) = ({0} : Finset (Fin 2)) := by
    show Reg.toFinset 2 (.subset [1]) = _
    decide
  have key := C01_pe_solution_literal
  rw [← npG_A [1], ← npG_b [1], ← hS] at key
  obtain ⟨ex, er, ep⟩ := C01_spec_unique hpd (npG_rankGap [1]).2.resolves hls key
  exact ⟨a, ha, hls, ex, er, ep⟩

/-- **`C01_pe_matrix_is_jacobian` applied to the same output**: for every row `i` and column `j` of the matrix of the
    least-squares problem above -/
theorem C01_pe_matrix_is_jacobian_pe_witness (i : Fin (toProblem npO).m) (j : Fin (toProblem npO).n) :
    ∃ ob, (revisedObs uO.net)[i.val]? = some ob ∧
      (∀ unk, (sigmaOf uO.net).isFree unk = true → uO.net.idx.get unk = j.val + 1 →
        RowDeriv ob.kind (sigmaOf uO.net) ob unk ((toProblem npO).A i j)) ∧
      ((∀ rc ∈ ob.kind.roles, (sigmaOf uO.net).isFree (ob.name rc.1 rc.2) = true →
          uO.net.idx.get (ob.name rc.1 rc.2) ≠ j.val + 1) → (toProblem npO).A i j = 0) := by
  have hpe : @projectEquations ℝ instTrigScalarReal netWobs = .ok (npO, uO) := by rw [← trig_eq]; exact peO
  have hi : i.val < (revisedObs uO.net).length := i.isLt
  refine ⟨(revisedObs uO.net)[i.val], List.getElem?_eq_getElem hi, ?_⟩
  have hk : ((revisedObs uO.net)[i.val]).kind = .h_diff := by
    have : i.val = 0 ∨ i.val = 1 ∨ i.val = 2 := by have : i.val < 3 := i.isLt; omega
    rcases i with ⟨v, hv⟩
    rcases this with h | h | h <;> (simp only at h; subst h; rfl)
  exact C01_pe_matrix_is_jacobian netWobs npO uO hpe i _ (List.getElem?_eq_getElem hi)
    (by rw [hk]; trivial) j

end witness

end Gama.Props.C01
