/-
  C01 / C05 — the matrix of the C01 theorems IS the matrix C05's Jacobian theorem is about (round 8; b-W7a's open
  corollary "`(toProblem np).A i j = Lin.rowSum …`").

  `C05_pe_design_matrix_is_jacobian` (`Props/C05ProjectEquations.lean`) speaks about `Lin.rowSum row col`, the value a
  consumer of the sparse row sees, at THE `Scalar ℝ` instance `Gama.instScalarReal` (`Lemmas/RealScalar.lean`).  The C01
  theorems (`C01_net_of_project_equations_gap`, `IsLSSolution (toProblem np).A …`) speak about the dense matrix
  `(toProblem np).A` at `scalarOfField` — the generic instance of an ordered field with a square root, which at ℝ is
  `LS.fieldScalar Real.sqrt`.  There is ONE declared `Scalar ℝ`; the generic one specialised to ℝ is propositionally equal
  to it (`scalarReal_eq_fieldScalar`; `trig_eq` for the `TrigScalar` on top) and cannot be removed, because the C01
  theorems are for every such field.  The bridge is one rewrite (`Ls.rowSum_real`, `Lemmas/Ls/RowSumEntry.lean`).

    C01_pe_matrix_entry         `(toProblem np).A i j = Lin.rowSum (np.rows[i]) (j+1)` for the output of `project_equations()`
                                (`RowsOK`: `C01_pe_rowsOK`, no `NoAlias` since round 12)
    C01_pe_matrix_is_jacobian   the entry of `(toProblem np).A` in the row of a regular observation and the column
                                `index_*()` of an adjusted unknown is ∂(observation function)/∂(unknown); every other
                                entry of the row is 0
-/
import Gama.Props.C05ProjectEquations
import Gama.Props.C01.ProjectEquations
import Gama.Lemmas.Ls.RowSumEntry
import Gama.Lemmas.C06NetZero
import Gama.Lemmas.ProjectEquationsGapExample
namespace Gama.Props.C01
open Gama Gama.Lin Gama.PE Gama.Ls Gama.Ls.Net Gama.LS Gama.C06NZ Matrix

set_option linter.unusedVariables false

section real
attribute [local instance] sqrtFnOfSqrtField
attribute [local instance 2000] scalarOfField

/-- **entry of the design matrix of the C01 theorems = value of the sparse row in that column**, for what
    `project_equations()` over ℝ (the carrier of C05's theorems) hands to the solver -/
theorem C01_pe_matrix_entry (net : PE.Net ℝ) (np : NetProblem ℝ) (u : Unknowns ℝ)
    (h : @projectEquations ℝ instTrigScalarReal net = .ok (np, u))
    (i : Fin (toProblem np).m) (j : Fin (toProblem np).n) :
    (toProblem np).A i j = @Lin.rowSum ℝ instScalarReal (np.rows.getD i.val #[]).toList (j.val + 1) := by
  have h' : @projectEquations ℝ (trigOfField realTrig) net = .ok (np, u) := by rw [trig_eq]; exact h
  have hrows := @C01_pe_rowsOK ℝ (trigOfField realTrig) net np u h'
  rw [rowSum_real]
  exact A_entry_rowSum (toProblem np) hrows i j

/-- **the matrix whose least-squares solution the C01 theorems describe is the Jacobian**: row `r` of a regular
    revised observation, column of an adjusted unknown (`index_*() = j+1`) holds ∂(observation function)/∂(unknown) at the
    approximate coordinates; a column that is the index of no adjusted unknown named by a role of the row holds 0 -/
theorem C01_pe_matrix_is_jacobian (net : PE.Net ℝ) (np : NetProblem ℝ) (u : Unknowns ℝ)
    (h : @projectEquations ℝ instTrigScalarReal net = .ok (np, u))
    (i : Fin (toProblem np).m) (ob : NObs ℝ) (hr : (revisedObs u.net)[i.val]? = some ob)
    (hreg : Regular ob.kind ((sigmaOf u.net).view ob)) (j : Fin (toProblem np).n) :
    (∀ unk, (sigmaOf u.net).isFree unk = true → u.net.idx.get unk = j.val + 1 →
      RowDeriv ob.kind (sigmaOf u.net) ob unk ((toProblem np).A i j)) ∧
    ((∀ rc ∈ ob.kind.roles, (sigmaOf u.net).isFree (ob.name rc.1 rc.2) = true →
        u.net.idx.get (ob.name rc.1 rc.2) ≠ j.val + 1) → (toProblem np).A i j = 0) := by
  obtain ⟨-, hJ, hZ, -⟩ :=
    Gama.Props.C05ProjectEquations.C05_pe_design_matrix_is_jacobian net np u h i.val ob hr hreg
  rw [C01_pe_matrix_entry net np u h i j]
  refine ⟨fun unk hf hidx => ?_, fun hno => hZ (j.val + 1) hno⟩
  rw [← hidx]
  exact hJ unk hf

end real

/-! ### non-vacuity -/

section examples
open Gama.PE.Ex
attribute [local instance 2000] scalarOfField

/-- the entry statement on the executed call (kernel evaluation over ℚ, the same polymorphic functions): `Ex.netW`
    (levelling, `B` constrained) returns the closed `Ex.npW`, `NoAlias` holds, `RowsOK` follows by `C01_pe_rowsOK`, and
    `Ls.A_entry_rowSum` gives every entry of `(toProblem npW).A` as the value of the sparse row — e.g. row 2 =
    `[(1,−1),(2,1)]`: entries −1 and 1.  (`C01_pe_matrix_is_jacobian` itself is ℝ-only, as `C05_pe_design_matrix_is_jacobian`:
    its hypotheses are witnessed there in two halves.) -/
example : ∃ u, @projectEquations ℚ (trigOfField tQ) netW = .ok (npW, u) ∧ (∀ ob ∈ revisedObs u.net, NoAlias ob) ∧
    (∀ (i : Fin (toProblem npW).m) (j : Fin (toProblem npW).n),
      (toProblem npW).A i j = Lin.rowSum (npW.rows.getD i.val #[]).toList (j.val + 1)) ∧
    Lin.rowSum (npW.rows.getD 1 #[]).toList 1 = (-1 : ℚ) ∧ Lin.rowSum (npW.rows.getD 1 #[]).toList 2 = (1 : ℚ) := by
  obtain ⟨u, hu, hna⟩ := netW_pe
  exact ⟨u, hu, hna, A_entry_rowSum (toProblem npW) (@C01_pe_rowsOK ℚ (trigOfField tQ) netW npW u hu),
    by decide +kernel, by decide +kernel⟩

end examples

end Gama.Props.C01
