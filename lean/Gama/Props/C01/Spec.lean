/-
  C01 — Every solver returns the weighted least-squares minimiser.

  Spec-level statements shared by all algorithms: what follows, for ANY (A, b, P, S), from the
  one predicate `Gama.LS.IsLSSolution A b P S x v rtr` (v = A x − b, Aᵀ P v = 0, rtr = vᵀ P v,
  x ⟂_S ker A) that every solver model is proved to establish for its output
  (per-algorithm theorems: Props/C01/Env.lean, Chol.lean, Gso.lean, Svd.lean, Adj.lean).
  P symmetric (positive semi-)definite is an explicit hypothesis.  Proofs: Lemmas/LS/*.lean
  (LS1, LS3, LS4).  Non-vacuity: the 4×3 rank-2 weighted problem of Lemmas/LS/Example.lean.
-/
import Gama.Lemmas.LS
import Gama.Lemmas.LS.Example
namespace Gama.Props.C01
open Gama Gama.LS Matrix Finset

set_option linter.unusedSectionVars false

variable {𝕜 : Type*} [Field 𝕜] [LinearOrder 𝕜] [IsStrictOrderedRing 𝕜]
variable {m n k : Type*} [Fintype m] [Fintype n] [Fintype k]
variable {A : Matrix m n 𝕜} {b : m → 𝕜} {P : Matrix m m 𝕜} {S : Finset n}
variable {x x' : n → 𝕜} {v v' : m → 𝕜} {rtr rtr' : 𝕜}

/-- LS1: the normal equations characterise the minimisers of `Φ y = (A y − b)ᵀ P (A y − b)` -/
theorem C01_spec_normal_iff_minimal (hP : Pᵀ = P) (hpsd : ∀ d, 0 ≤ d ⬝ᵥ P *ᵥ d) (x : n → 𝕜) :
    Aᵀ *ᵥ (P *ᵥ (A *ᵥ x - b)) = 0 ↔ ∀ y, Phi A b P x ≤ Phi A b P y :=
  normal_eq_iff_min hP hpsd x

/-- a solver output satisfying `IsLSSolution` minimises `vᵀ P v`, and the reported sum of squares
    is that minimum -/
theorem C01_spec_minimal (hP : Pᵀ = P) (hpsd : ∀ d, 0 ≤ d ⬝ᵥ P *ᵥ d)
    (h : IsLSSolution A b P S x v rtr) :
    v = A *ᵥ x - b ∧ Aᵀ *ᵥ (P *ᵥ v) = 0 ∧ rtr = v ⬝ᵥ P *ᵥ v
      ∧ (∀ y, Phi A b P x ≤ Phi A b P y) ∧ rtr = Phi A b P x ∧ ∀ y, rtr ≤ Phi A b P y :=
  ⟨h.res, h.normal, h.rtr_eq, h.minimal hP hpsd, h.rtr_eq_Phi, h.rtr_minimal hP hpsd⟩

example : IsLSSolution Ex.A Ex.b Ex.P Ex.S Ex.x Ex.v (9 / 4) ∧ Ex.Pᵀ = Ex.P
    ∧ (∀ d, 0 ≤ d ⬝ᵥ Ex.P *ᵥ d) ∧ (∃ g, Ex.A *ᵥ g = 0 ∧ g ≠ 0) :=
  ⟨Ex.sol, Ex.P_symm, psd_of_pd Ex.P_pd, Ex.g₀, Ex.g₀_ker⟩

/-- rank-deficient case: among ALL minimisers of the objective (equivalently all solutions of the
    normal equations) the returned x has the smallest sum of squares over the selected unknowns -/
theorem C01_spec_min_norm (hP : Pᵀ = P) (hpd : ∀ d, d ≠ 0 → 0 < d ⬝ᵥ P *ᵥ d)
    (h : IsLSSolution A b P S x v rtr) :
    (∀ y, Aᵀ *ᵥ (P *ᵥ (A *ᵥ y - b)) = 0 → normS S x ≤ normS S y)
      ∧ (∀ y, (∀ z, Phi A b P y ≤ Phi A b P z) → normS S x ≤ normS S y) :=
  ⟨h.min_norm hpd, h.min_norm_among_minimisers hP hpd⟩

/-- LS3: the second criterion is EQUIVALENT to S-orthogonality to the kernel, so `IsLSSolution`
    is not stronger than the property -/
theorem C01_spec_min_norm_iff (hpd : ∀ d, d ≠ 0 → 0 < d ⬝ᵥ P *ᵥ d) (S : Finset n)
    (hx : Aᵀ *ᵥ (P *ᵥ (A *ᵥ x - b)) = 0) :
    (∀ y, Aᵀ *ᵥ (P *ᵥ (A *ᵥ y - b)) = 0 → normS S x ≤ normS S y)
      ↔ ∀ g, A *ᵥ g = 0 → ∑ i ∈ S, x i * g i = 0 :=
  min_norm_iff_sorth hpd S hx

example : (∀ d, d ≠ 0 → 0 < d ⬝ᵥ Ex.P *ᵥ d) ∧ Ex.Aᵀ *ᵥ (Ex.P *ᵥ (Ex.A *ᵥ Ex.x - Ex.b)) = 0
    ∧ normS Ex.S Ex.x < normS Ex.S Ex.x' :=
  ⟨Ex.P_pd, Ex.sol.normalEq, by
    simp [normS, Ex.S, Ex.x, Ex.x', sum_pair (show (0 : Fin 3) ≠ 1 by decide)]; norm_num⟩

/-- if S resolves the defect the answer is unique: any two outputs satisfying `IsLSSolution`
    for the same (A, b, P, S) — e.g. of two different algorithms — coincide -/
theorem C01_spec_unique (hpd : ∀ d, d ≠ 0 → 0 < d ⬝ᵥ P *ᵥ d)
    (hS : ∀ g, A *ᵥ g = 0 → (∀ i ∈ S, g i = 0) → g = 0)
    (h : IsLSSolution A b P S x v rtr) (h' : IsLSSolution A b P S x' v' rtr') :
    x = x' ∧ v = v' ∧ rtr = rtr' :=
  h.unique h' hpd hS

example : Resolves Ex.A Ex.S ∧ Resolves Ex.A Ex.S' := ⟨Ex.S_resolves, Ex.S'_resolves⟩

/-- LS4 whitening: with `C = L Lᵀ`, `L⁻¹ L = 1`, `C P = 1`, a solution of the homogenised problem
    `(L⁻¹A, L⁻¹b, 1)` — what the full solvers are given by `Adj` and `LocalNetwork` — is a solution
    of the weighted problem `(A, b, P)` with the same x and sum of squares; its residuals are the
    whitened residuals; objective and normal equations of the two problems coincide -/
theorem C01_spec_whitening [DecidableEq m] {C L Linv : Matrix m m 𝕜} (hC : C = L * Lᵀ)
    (hL : Linv * L = 1) (hCP : C * P = 1) {vbar : m → 𝕜}
    (h : IsLSSolution (Linv * A) (Linv *ᵥ b) 1 S x vbar rtr) :
    IsLSSolution A b P S x (A *ᵥ x - b) rtr ∧ vbar = Linv *ᵥ (A *ᵥ x - b)
      ∧ (∀ y, Phi (Linv * A) (Linv *ᵥ b) 1 y = Phi A b P y)
      ∧ (∀ y, (Linv * A)ᵀ *ᵥ ((1 : Matrix m m 𝕜) *ᵥ ((Linv * A) *ᵥ y - Linv *ᵥ b))
            = Aᵀ *ᵥ (P *ᵥ (A *ᵥ y - b))) :=
  have hW := whiten_of_chol hC hL hCP
  ⟨h.of_whitened hW, h.whitened_residual, whiten_Phi hW, whiten_gradient hW A b⟩

/-- whitening with a general (possibly rectangular) factor `Wᵀ W = P` -/
theorem C01_spec_whitening_factor [DecidableEq m] [DecidableEq k] {W : Matrix k m 𝕜}
    (hW : Wᵀ * W = P) {vbar : k → 𝕜} (h : IsLSSolution (W * A) (W *ᵥ b) 1 S x vbar rtr) :
    IsLSSolution A b P S x (A *ᵥ x - b) rtr ∧ vbar = W *ᵥ (A *ᵥ x - b) :=
  ⟨h.of_whitened hW, h.whitened_residual⟩

example : Ex.Wᵀ * Ex.W = Ex.P
    ∧ IsLSSolution (Ex.W * Ex.A) (Ex.W *ᵥ Ex.b) 1 Ex.S Ex.x (Ex.W *ᵥ Ex.v) (9 / 4) :=
  ⟨Ex.W_gram, Ex.sol_whitened⟩

/-- the weight matrices the models work with are admissible: `P = Wᵀ W` with injective `W` is
    symmetric positive definite (so the hypotheses above are met by every Cholesky-whitened
    covariance) -/
theorem C01_spec_weight_pd [DecidableEq m] {W : Matrix k m 𝕜} (hW : Wᵀ * W = P)
    (hinj : ∀ d, W *ᵥ d = 0 → d = 0) :
    Pᵀ = P ∧ (∀ d, 0 ≤ d ⬝ᵥ P *ᵥ d) ∧ ∀ d, d ≠ 0 → 0 < d ⬝ᵥ P *ᵥ d := by
  subst hW; exact ⟨gram_symm W, gram_psd W, gram_pd W hinj⟩

example : ∀ d : Fin 4 → ℚ, Ex.W *ᵥ d = 0 → d = 0 := Ex.W_inj

/-- the same in the executable vocabulary: for a `Problem K` (sparse rows, packed covariance blocks,
    1-based regularisation list) and an `Answer K` whose `x`, `r`, `rtr` satisfy `Answer.IsLS`
    w.r.t. a weight matrix `P` (`p.C * P = 1`), the C01 statement holds for the Mathlib reading
    `p.A`, `p.b`, `p.S` of the problem — the form in which each solver theorem is used.  The
    `Scalar` signature is the field's own (`fieldScalar sqrt`, any square-root function). -/
theorem C01_spec_answer {K : Type} [Field K] [LinearOrder K] [IsStrictOrderedRing K]
    (sqrt : K → K) (p : Ls.Problem K) (P : Matrix (Fin p.m) (Fin p.m) K) (hP : Pᵀ = P)
    (hpd : ∀ d, d ≠ 0 → 0 < d ⬝ᵥ P *ᵥ d) (a : Ls.Answer K)
    (h : @Ls.Answer.IsLS K _ (fieldScalar sqrt) p P a) :
    letI : Scalar K := fieldScalar sqrt
    a.rVec p.m = p.A *ᵥ a.xVec p.n - p.b
      ∧ p.Aᵀ *ᵥ (P *ᵥ a.rVec p.m) = 0
      ∧ a.rtr = a.rVec p.m ⬝ᵥ P *ᵥ a.rVec p.m
      ∧ (∀ y, Phi p.A p.b P (a.xVec p.n) ≤ Phi p.A p.b P y)
      ∧ (∀ y, (∀ z, Phi p.A p.b P y ≤ Phi p.A p.b P z) → normS p.S (a.xVec p.n) ≤ normS p.S y) :=
  ⟨h.res, h.normal, h.rtr_eq, h.minimal hP (psd_of_pd hpd), h.min_norm_among_minimisers hP hpd⟩

example : @Ls.Answer.IsLS ℚ _ (fieldScalar id) Ex.pEx Ex.P Ex.aEx
    ∧ @Ls.Problem.IsWeight ℚ _ (fieldScalar id) Ex.pEx Ex.P ∧ Ex.pEx.reg = .subset [1, 2] :=
  ⟨Ex.aEx_isLS, Ex.pEx_weight, rfl⟩

end Gama.Props.C01
