/-
  C01 — Every solver returns the weighted least-squares minimiser.
  Spec-level statements shared by all algorithms (per-algorithm theorems live in
  Props/C01/Env.lean, Chol.lean, Gso.lean, Svd.lean, Adj.lean).
-/
import Gama.Model.Ls.Common
namespace Gama.Props.C01
open Gama Gama.Ls

/-- placeholder obligation replaced by the LS spec-layer corollaries (LS1, LS3) -/
theorem errkind_names_injective : ∀ a b : ErrKind, a.name = b.name → a = b := by
  intro a b; cases a <;> cases b <;> simp [ErrKind.name]

end Gama.Props.C01
