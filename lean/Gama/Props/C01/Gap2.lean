/-
  C01 / C02 — "rank numerically unambiguous" as ONE hypothesis on the ORIGINAL `(A, P, S)`, for BOTH
  stages of envelope, cholesky and gso, at every entry point (CLAUSES.md gap #6; C01 row 9 "Missing 1, 2";
  C02 "Missing 3", acceptance half).

      `RankGap A P S τ  :=  GapAllP A P τ  ∧  SMargin A S τ`      (`Lemmas/Ls/Gap2.lean`)

  * `GapAllP A P τ` — every exact Schur-complement pivot of `AᵀPA`, in any pivot order, is 0 or `> τ`
    (round 3, `Props/C01/Gap.lean`: the factorisation stages);
  * `SMargin A S τ` — `S` resolves the defect with margin: `τ²‖g‖² < ‖g_S‖²` for every `g ∈ ker A ∖ 0`
    (new: the second stages — the Gram–Schmidt of the null-space basis over the regularisation subset and
    the refusal test; the form `C20_svd_subset_refusal` (d) uses for the svd test).

  Why it suffices: every value the three second stages compare with their tolerance is the `S`-norm of a
  non-zero kernel vector with one coordinate `±1` (the bases are triangular), so it exceeds `τ`
  (`Gap2Env.lean`, `Gap2Chol.lean`, `Gap2Gso.lean`).  `τ` has to dominate the codes' thresholds
  (`GapThresholds τ`; `τ = 2⁻¹³` does with the defaults: cholesky compares SQUARED `S`-norms with
  `s_tol = 2⁻²⁶`, hence `s_tol ≤ τ²`).

  What is NOT covered HERE: svd — its first-stage premise is the input-side `SingGap A P τ` (round 7,
  `Lemmas/Ls/SingGap.lean`, `Props/C01/SvdGap.lean`: `C01_net_of_gap_svd`, `C01_adj_of_gap_svd`; the premise on the
  returned singular values `Svd.Unambiguous` is derived from it); `RankGap` resp. `SingGap` as ONE hypothesis indexed by
  the algorithm: `InputGap`, `Props/C01/InputGap.lean` (round 8).  The case "`S` does not resolve" of the second
  stages (there the tested norm is exactly 0 in exact arithmetic, which no gap on `A` alone expresses:
  cholesky/envelope refuse then WITHOUT any second-stage premise) is covered by the dichotomy `SDich A S τ`
  (`Lemmas/Ls/SvdGapRefusal.lean`, `Props/C02SvdGap.lean`: `C02_four_answered_iff_resolves`).
-/
import Gama.Lemmas.Ls.Gap2Facade
import Gama.Lemmas.Ls.ComposeJointEnvSolveExample
import Gama.Props.C01.Gap
import Gama.Props.C01.NetFacade
namespace Gama.Props.C01
open Gama Gama.Ls Gama.LS Matrix

set_option linter.unusedSectionVars false
set_option linter.unusedVariables false

/-! ### the hypothesis -/

section general
variable {K : Type} [Field K] [LinearOrder K] [IsStrictOrderedRing K] {m n : ℕ}

/-- the single hypothesis is antitone in `τ`, implies `Resolves A S`, and passes to the whitened
    system `(W A, S)` of any injective `W` with `WᵀW = P` in its unweighted form -/
theorem C01_rankgap_basic (A : Matrix (Fin m) (Fin n) K) (P : Matrix (Fin m) (Fin m) K) (S : Finset (Fin n))
    (τ : K) (h : RankGap A P S τ) :
    (∀ τ', 0 ≤ τ' → τ' ≤ τ → RankGap A P S τ') ∧ Resolves A S ∧
    (∀ W : Matrix (Fin m) (Fin m) K, Wᵀ * W = P → (∀ d, W *ᵥ d = 0 → d = 0) →
      GapAll (W * A) τ ∧ SMargin (W * A) S τ) :=
  ⟨fun τ' h0 hτ => h.mono h0 hτ, h.2.resolves, fun W hW hWinj => h.whiten hW hWinj⟩

/-- with all unknowns in the subset the margin holds for every `τ < 1` (it is needed for the flags
    `AdjCholDec` answers after a refusal: `obsChol_sound`, hypothesis `hunA`) -/
theorem C01_margin_all (A : Matrix (Fin m) (Fin n) K) (τ : K) (hτ : τ * τ < 1) :
    SMargin A (Finset.univ : Finset (Fin n)) τ := SMargin.univ hτ

end general

section solvers
variable {K : Type} [Field K] [LinearOrder K] [IsStrictOrderedRing K] [Gso.SqrtField K]
attribute [local instance] sqrtFnOfSqrtField
attribute [local instance 2000] scalarOfField

/-- a true square root satisfies the square-root law -/
theorem C01_gap2_isSqrt : IsSqrt (Gso.SqrtField.sqrt : K → K) :=
  ⟨fun x hx => (Gso.SqrtField.sqrt_spec x hx).1, fun x hx => (Gso.SqrtField.sqrt_spec x hx).2⟩

/-- `τ = 2⁻¹³` dominates every threshold of the three codes (defaults) -/
theorem C01_gap_thresholds_default : GapThresholds (1 / 8192 : K) := gapThresholds_default

/-! ### solver classes (unit weights) -/

/-- **`gs_unambiguous_of_gap`, solver classes**: from `GapAll A τ` and the margin of `S`, EVERY trace
    premise of the three solvers — factorisation AND second stage:
    envelope (`envCore` on the system itself, any valid ordering): `FactUnambiguous`, `GSUnambiguous`;
    cholesky: `UnambiguousF (cholFact p)`, `GsUnamb p`;
    gso: `GapCols p`, the second-phase norms `h2`, hence `Gso.Unambiguous p`. -/
theorem C01_gs_unambiguous_of_gap (p : Problem K) {τ : K} (hτ : GapThresholds τ)
    (hG : GapAll p.A τ) (hM : SMargin p.A p.S τ) :
    (∀ o, Env.OrdOK p.n o → Env.RegOK p.n o p.reg p.S →
      Env.FactUnambiguous (Gso.SqrtField.sqrt : K → K) (Env.sqrtEps : K) p.m p.n p.dense p.rhs o ∧
      Env.GSUnambiguous (Gso.SqrtField.sqrt : K → K) (n := p.n) (Env.sqrtEps : K) (Env.sqrtEps : K) p.m
        p.dense p.rhs o (Env.regList p.n o p.reg))
    ∧ Chol.UnambiguousF (cholFact p) ∧ Chol.GsUnamb p
    ∧ Gso.GapCols p ∧ (∀ r ∈ (Gso.runOf p).tested.drop p.n, r = 0 ∨ (Gso.tolerance : K) < r)
    ∧ Gso.Unambiguous p := by
  have _ := lawfulSqrt_of_sqrtField (K := K)
  have hc := chol_unambiguous_of_gap2 p (Chol.GsSqrtExact.of_lawful p) hτ.chol1 hτ.chol hG hM
  have hτ2 : τ * τ ≤ τ := by
    calc τ * τ ≤ τ * 1 := mul_le_mul_of_nonneg_left hτ.le_one hτ.nonneg
      _ = τ := mul_one τ
  have hcols : Gso.GapCols p :=
    Gso.gapCols_of_gapAll p (hG.mono (le_trans (mul_le_mul hτ.gso hτ.gso Gso.tolerance_nonneg hτ.nonneg) hτ2))
  refine ⟨fun o hO hreg => ?_, hc.1, hc.2, hcols,
    Gso.gso_phase2_of_margin p τ hτ.nonneg hτ.gso hcols hM,
    gso_unambiguous_of_gap2 p hτ.nonneg hτ.gso hτ.le_one hG hM⟩
  have hU := Env.factUnambiguous_of_gapAll (Gso.SqrtField.sqrt : K → K) (Env.sqrtEps : K) p.m p.n p.dense p.rhs o hO
    (hG.mono hτ.env)
  exact ⟨hU, Env.gsUnambiguous_of_margin (Gso.SqrtField.sqrt : K → K) (Env.sqrtEps : K) (Env.sqrtEps : K) p.m
    p.dense p.rhs o C01_gap2_isSqrt p.dense p.reg hO hU (W := 1) (fun d hd => by simpa using hd) (by simp) hreg
    hτ.env hM⟩

/-- **C01 (gso), premise on `(A, S)` only** — `C01_gso_of_gapAll_partial` made full: the
    second-phase norms are no longer a hypothesis on the trace -/
theorem C01_gso_of_gap (p : Problem K) {τ : K} (hτ : GapThresholds τ) (hG : GapAll p.A τ) (hM : SMargin p.A p.S τ)
    (a : Answer K) (h : gsoSolve p = .ok a) :
    IsLSSolution p.A p.b 1 p.S (toVec p.n a.x) (toVec p.m a.r) a.rtr :=
  C01_gso p (gso_unambiguous_of_gap2 p hτ.nonneg hτ.gso hτ.le_one hG hM) a h

/-- **gso = cholesky = envelope with ONE hypothesis on `(A, S)`** (unit weights; any valid ordering):
    whenever they answer, the three solvers return the same unknowns, residuals and sum of squares.
    `C02_same_gso_chol_of_gap_partial` / `C02_same_gso_env_of_gap_partial` made full. -/
theorem C02_same_three_of_gap (p : Problem K) {τ : K} (hτ : GapThresholds τ) (hG : GapAll p.A τ)
    (hM : SMargin p.A p.S τ) (hnd : ∀ S, Chol.regList p.n p.reg = some S → S.Nodup)
    (o : EnvOrd) (hO : Env.OrdOK p.n o) (hreg : Env.RegOK p.n o p.reg (p.reg.toFinset p.n))
    (a a' : Answer K) (h : gsoSolve p = .ok a) (h' : cholSolve p = .ok a') {x : Array K}
    (hx : (@envCore K (Gama.LS.fieldScalar Gso.SqrtField.sqrt) (Env.sqrtEps : K) (Env.sqrtEps : K) p.m p.n
      p.dense p.rhs p.dense p.rhs p.reg o).x = .ok x) :
    (toVec p.n a.x = toVec p.n a'.x ∧ toVec p.m a.r = toVec p.m a'.r ∧ a.rtr = a'.rtr) ∧
    (toVec p.n a.x = toVec p.n x
      ∧ toVec p.m a.r = toVec p.m (@envCore K (Gama.LS.fieldScalar Gso.SqrtField.sqrt) (Env.sqrtEps : K)
          (Env.sqrtEps : K) p.m p.n p.dense p.rhs p.dense p.rhs p.reg o).r
      ∧ a.rtr = (@envCore K (Gama.LS.fieldScalar Gso.SqrtField.sqrt) (Env.sqrtEps : K) (Env.sqrtEps : K)
          p.m p.n p.dense p.rhs p.dense p.rhs p.reg o).rtr) := by
  obtain ⟨-, -, -, -, h2, -⟩ := C01_gs_unambiguous_of_gap p hτ hG hM
  have hgg : (Gso.tolerance : K) * Gso.tolerance ≤ τ :=
    le_trans (mul_le_mul hτ.gso hτ.gso Gso.tolerance_nonneg hτ.nonneg)
      (by calc τ * τ ≤ τ * 1 := mul_le_mul_of_nonneg_left hτ.le_one hτ.nonneg
             _ = τ := mul_one τ)
  exact ⟨C02_same_gso_chol_of_gap_partial p τ hG hgg hτ.chol1 h2 hnd hM.resolves a a' h h',
    C02_same_gso_env_of_gap_partial p τ (Env.sqrtEps : K) (Env.sqrtEps : K) hG hgg hτ.env h2 o hO
      Env.sqrtEps_pos Env.sqrtEps_pos hreg hM.resolves a h hx⟩

/-- **acceptance (C02 row 9, "resolves with margin ⇒ every solver answers")**: under the single
    hypothesis none of the three solvers refuses — cholesky errs only on a list outside `1..n`
    (`NotModelled`), gso does not throw `BadRegularization`, the envelope's `unknowns()` answers.
    (The svd counterpart is `C20_svd_subset_refusal` (d).) -/
theorem C02_all_answer_of_gap (p : Problem K) {τ : K} (hτ : GapThresholds τ) (hG : GapAll p.A τ)
    (hM : SMargin p.A p.S τ) (hr : Gso.regInRange p.n p.reg = true)
    (o : EnvOrd) (hO : Env.OrdOK p.n o) (hreg : Env.RegOK p.n o p.reg (p.reg.toFinset p.n)) :
    (∀ e, cholSolve p = .error e → e = .NotModelled ∧ Chol.regList p.n p.reg = none)
    ∧ gsoSolve p ≠ .error .BadRegularization
    ∧ ∃ x, (@envCore K (Gama.LS.fieldScalar Gso.SqrtField.sqrt) (Env.sqrtEps : K) (Env.sqrtEps : K) p.m p.n
        p.dense p.rhs p.dense p.rhs p.reg o).x = .ok x := by
  have _ := lawfulSqrt_of_sqrtField (K := K)
  obtain ⟨he, hc1, hc2, -, -, hg⟩ := C01_gs_unambiguous_of_gap p hτ hG hM
  refine ⟨fun e h => ?_, fun h => ?_, ?_⟩
  · rcases (C02_refusal_chol p hc1 (Chol.GsSqrtExact.of_lawful p) hc2).2 e h with ⟨-, hn⟩ | h'
    · exact absurd hM.resolves hn
    · exact h'
  · exact (C02_refusal_gso p hg hr).1 h hM.resolves
  · obtain ⟨hU, hGS⟩ := he o hO hreg
    exact ((C02_refusal_env (Gso.SqrtField.sqrt : K → K) C01_gap2_isSqrt (Env.sqrtEps : K) (Env.sqrtEps : K) p.m p.n
      p.dense p.rhs p.dense p.rhs p.reg o hO hU Env.sqrtEps_pos Env.sqrtEps_pos (W := 1)
      (fun d hd => by simpa using hd) (by simp) hreg hGS).1).2 hM.resolves

/-! ### envelope as run, and class `Adj` -/

/-- **`gs_unambiguous_of_gap`, entry point `Adj` / `envSolve`**: ONE hypothesis on the original
    `(A, P, S)` gives every trace premise of every `C01_adj_*` / `C01_envsolve*` / `C02_refusal_*`
    theorem: for the envelope as run (`Env.homogenize` + reverse Cuthill–McKee + `envCore`)
    `SolveUnambiguous ∧ SolveGSUnambiguous`; for the system `Adj` hands the full solvers
    (`homogenise`, `dotProblem`): cholesky `UnambiguousF ∧ GsUnamb` and gso `Unambiguous`. -/
theorem C01_adj_unambiguous_of_gap (p : Problem K) (hin : Env.InputOK p) (hreg : Env.RegListOK p)
    (P : Matrix (Fin p.m) (Fin p.m) K) (hP : p.C * P = 1) {τ : K} (hτ : GapThresholds τ)
    (h : RankGap p.A P p.S τ) :
    (Env.SolveUnambiguous p ∧ Env.SolveGSUnambiguous p)
    ∧ ∀ Ad bd, AdjM.homogenise p = .ok (Ad, bd) →
        Chol.UnambiguousF (cholFact (AdjM.dotProblem p Ad bd (AdjM.regOf p.reg)))
        ∧ Chol.GsUnamb (AdjM.dotProblem p Ad bd (AdjM.regOf p.reg))
        ∧ Gso.Unambiguous (AdjM.dotProblem p Ad bd (AdjM.regOf p.reg)) := by
  refine ⟨Env.solve_unambiguous_of_rankGap C01_gap2_isSqrt p hin hreg P hP hτ.env h, fun Ad bd hh => ?_⟩
  obtain ⟨hG, hM⟩ := adj_dot_rankGap p (sqrtExactP_of_sqrtField p) hin.dims P hP h Ad bd hh
  obtain ⟨-, hc1, hc2, -, -, hg⟩ := C01_gs_unambiguous_of_gap _ hτ hG hM
  exact ⟨hc1, hc2, hg⟩

/-- the solver's list is duplicate free when the configured one is -/
theorem C01_gap2_nodup (n : ℕ) (l S : List ℕ) (hl : l.Nodup) (h : Chol.regList n (.subset l) = some S) :
    S.Nodup := by
  obtain ⟨hall, rfl⟩ := regList_subset n l S h
  refine List.Nodup.map_on (fun a ha b hb e => ?_) hl
  have := hall a ha
  have := hall b hb
  omega

/-- **C01 through `Adj` for envelope, cholesky and gso from ONE hypothesis on `(A, P, S)`**
    (`C01_adj_cholesky_of_gap`, `C01_adj_gso_of_gap`, `C01_adj_envelope_of_gap` in one statement) -/
theorem C01_adj_of_gap (p : Problem K) (hin : Env.InputOK p) (hreg : Env.RegListOK p)
    (P : Matrix (Fin p.m) (Fin p.m) K) (hP : p.C * P = 1) {τ : K} (hτ : GapThresholds τ)
    (h : RankGap p.A P p.S τ) (alg : Alg) (halg : alg ≠ .svd) (a : Answer K) (hs : adjSolve alg p = .ok a) :
    IsLSSolution p.A p.b P p.S (toVec p.n a.x) (toVec p.m a.r) a.rtr := by
  have _ := lawfulSqrt_of_sqrtField (K := K)
  obtain ⟨-, hdot⟩ := C01_adj_unambiguous_of_gap p hin hreg P hP hτ h
  cases alg with
  | svd => exact absurd rfl halg
  | env =>
    have hin' : Env.InputOK { p with reg := AdjM.regOf p.reg } := ⟨hin.blocks, hin.dims, hin.rows⟩
    have hreg' : Env.RegListOK { p with reg := AdjM.regOf p.reg } := by
      intro l hl
      apply hreg l
      cases hr : p.reg with
      | none => rw [hr] at hl; cases hl
      | all => rw [hr] at hl; cases hl
      | subset l' => rw [hr] at hl; exact hl
    have hS : ({ p with reg := AdjM.regOf p.reg } : Problem K).S = p.S := regOf_toFinset p.n p.reg
    have h' : RankGap ({ p with reg := AdjM.regOf p.reg } : Problem K).A P
        ({ p with reg := AdjM.regOf p.reg } : Problem K).S τ := by rw [hS]; exact h
    exact C01_adj_envelope C01_gap2_isSqrt p hin' hreg'
      (Env.solve_unambiguous_of_rankGap C01_gap2_isSqrt _ hin' hreg' P hP hτ.env h').1 P hP a hs
  | chol =>
    refine C01_adj_cholesky p (sqrtExactP_of_sqrtField p) hin.dims hin.rows P hP (fun Ad bd hh => ?_) a hs
    refine ⟨(hdot Ad bd hh).1, Chol.GsSqrtExact.of_lawful _, fun S hS => ?_⟩
    cases hr : p.reg with
    | none => rw [hr] at hS; simp only [AdjM.regOf, Chol.regList, Option.some.injEq] at hS; subst hS; exact List.nodup_range
    | all => rw [hr] at hS; simp only [AdjM.regOf, Chol.regList, Option.some.injEq] at hS; subst hS; exact List.nodup_range
    | subset l => rw [hr] at hS; exact C01_gap2_nodup p.n l S (hreg l hr).1 hS
  | gso => exact C01_adj_gso p hin.dims hin.rows P hP (fun Ad bd hh => (hdot Ad bd hh).2.2) a hs

/-- **refusal through the envelope as run, premise on `(A, P, S)`**: `unknowns()` answers -/
theorem C02_envsolve_answers_of_gap (p : Problem K) (hin : Env.InputOK p) (hreg : Env.RegListOK p)
    (P : Matrix (Fin p.m) (Fin p.m) K) (hP : p.C * P = 1) {τ : K} (hτ : GapThresholds τ)
    (h : RankGap p.A P p.S τ) (a : Answer K) (hs : envSolve p = .ok a) : a.xErr = none := by
  obtain ⟨hU, hGS⟩ := Env.solve_unambiguous_of_rankGap C01_gap2_isSqrt p hin hreg P hP hτ.env h
  exact ((envSolve_refusal C01_gap2_isSqrt p hin hreg hU hGS P hP a hs).1).2 h.2.resolves

/-! ### class `LocalNetwork` -/

/-- **`gs_unambiguous_of_gap`, entry point `LocalNetwork`**: ONE hypothesis on the assembled system
    `(A, m0²·Σ⁻¹, min_x)` gives the trace premises of `C01_net_envelope`, `C01_net_cholesky`,
    `C01_net_gso` (`prepareProjectEquations` whitens with an injective `W`, `WᵀW = m0²·Σ⁻¹`) -/
theorem C01_net_unambiguous_of_gap (np : Net.NetProblem K)
    (hdim : (Net.dimsN np).sum = np.m) (hrows : RowsOK (Net.toProblem np)) (hm0 : np.m0 ≠ 0)
    (Pc : Matrix (Fin (Net.toProblem np).m) (Fin (Net.toProblem np).m) K) (hPc : Net.Sigma np * Pc = 1)
    (hreg : Env.RegListOK (Net.toProblem np)) {τ : K} (hτ : GapThresholds τ)
    (h : RankGap (Net.toProblem np).A ((np.m0 * np.m0) • Pc) (Net.toProblem np).S τ) :
    (Env.SolveUnambiguous (Net.toProblem np) ∧ Env.SolveGSUnambiguous (Net.toProblem np))
    ∧ ∀ hh, Net.prepare np = .ok hh →
        Chol.UnambiguousF (cholFact (Net.dotProblem np hh)) ∧ Chol.GsUnamb (Net.dotProblem np hh)
        ∧ Gso.Unambiguous (Net.dotProblem np hh) := by
  refine ⟨Env.solve_unambiguous_of_rankGap C01_gap2_isSqrt _ (Net.inputOK np hdim hrows) hreg _
    (Net.weight_of_sigma np hdim hm0 Pc hPc) hτ.env h, fun hh hp => ?_⟩
  obtain ⟨W, hW, hWinj, hA, -⟩ := C01_net_prepare C01_gap2_isSqrt np hdim hrows hm0 Pc hPc hh hp
  have eA : (Net.dotProblem np hh).A = W * (Net.toProblem np).A := by
    unfold Net.dotProblem; rw [dotProblem_A, hA]
  have eS : (Net.dotProblem np hh).S = (Net.toProblem np).S := rfl
  obtain ⟨hG, hM⟩ := h.whiten hW hWinj
  rw [← eA] at hG hM
  rw [← eS] at hM
  obtain ⟨-, hc1, hc2, -, -, hg⟩ := C01_gs_unambiguous_of_gap _ hτ hG hM
  exact ⟨hc1, hc2, hg⟩

/-- **C01 through `LocalNetwork` for envelope, cholesky and gso from ONE hypothesis** on the
    assembled `(A, P = m0²·Σ⁻¹, S = min_x)` (`C01_net_cholesky_of_gap`, `C01_net_gso_of_gap`,
    `C01_net_envelope_of_gap` in one statement) -/
theorem C01_net_of_gap (np : Net.NetProblem K)
    (hdim : (Net.dimsN np).sum = np.m) (hrows : RowsOK (Net.toProblem np)) (hm0 : np.m0 ≠ 0)
    (Pc : Matrix (Fin (Net.toProblem np).m) (Fin (Net.toProblem np).m) K) (hPc : Net.Sigma np * Pc = 1)
    (hreg : Env.RegListOK (Net.toProblem np)) {τ : K} (hτ : GapThresholds τ)
    (h : RankGap (Net.toProblem np).A ((np.m0 * np.m0) • Pc) (Net.toProblem np).S τ)
    (alg : Alg) (halg : alg ≠ .svd) (a : Net.NetAnswer K) (hs : Net.netSolve alg np = .ok a) :
    IsLSSolution (Net.toProblem np).A (Net.toProblem np).b ((np.m0 * np.m0) • Pc) (Net.toProblem np).S
      (toVec (Net.toProblem np).n a.x) (toVec (Net.toProblem np).m a.r) a.pvv := by
  have _ := lawfulSqrt_of_sqrtField (K := K)
  obtain ⟨henv, hdot⟩ := C01_net_unambiguous_of_gap np hdim hrows hm0 Pc hPc hreg hτ h
  cases alg with
  | svd => exact absurd rfl halg
  | env => exact C01_net_envelope C01_gap2_isSqrt np hdim hrows hm0 Pc hPc hreg henv.1 a hs
  | chol =>
    refine C01_net_cholesky C01_gap2_isSqrt np hdim hrows hm0 Pc hPc (fun hh hp => ?_) a hs
    exact ⟨(hdot hh hp).1, Chol.GsSqrtExact.of_lawful _,
      fun S hS => C01_gap2_nodup np.n np.minx S (hreg np.minx rfl).1 hS⟩
  | gso => exact C01_net_gso np hdim hrows hm0 Pc hPc (fun hh hp => (hdot hh hp).2.2) a hs

end solvers

/-! ### non-vacuity: `Ex.pR` over ℝ satisfies the single hypothesis -/

section examples
open Gama.Ls.Gso.Ex
attribute [local instance] sqrtFnOfSqrtField
attribute [local instance 2000] scalarOfField

/-- `Ex.pR` over ℝ (`A = [1 1; 0 0]`, unit weights, `S = {1}` — the problem that meets the trace
    hypotheses of all four solvers, `Props/C02Joint.lean`) satisfies THE single hypothesis with
    `τ = 1/2` (exact pivots 0 and 1; kernel `t·(1,−1)`: `¼·2t² < t²`), `τ = 1/2` dominates every
    threshold, and the margin is not trivially true: it fails for `τ = 1` -/
theorem C01_rankgap_witness : RankGap pR.A 1 pR.S (1 / 2 : ℝ) ∧ GapThresholds (1 / 2 : ℝ)
    ∧ ¬ SMargin pR.A pR.S (1 : ℝ) := by
  refine ⟨⟨GapAllP.one.2 GapEx.pR_gap, pR_margin⟩, gapThresholds_half, fun h => ?_⟩
  obtain ⟨g, hg, hne⟩ := Gso.Ex.pR_kernel
  have h1 := h g hg hne
  have h2 : ∑ i ∈ pR.S, g i * g i ≤ g ⬝ᵥ g :=
    Finset.sum_le_sum_of_subset_of_nonneg (Finset.subset_univ _) (fun i _ _ => mul_self_nonneg (g i))
  linarith

/-- hence every trace premise of envelope, cholesky and gso on `Ex.pR` — solver classes -/
example : Chol.UnambiguousF (cholFact pR) ∧ Chol.GsUnamb pR ∧ Gso.Unambiguous pR
    ∧ (∀ r ∈ (Gso.runOf pR).tested.drop pR.n, r = 0 ∨ (Gso.tolerance : ℝ) < r) := by
  obtain ⟨-, h1, h2, -, h4, h5⟩ := C01_gs_unambiguous_of_gap pR gapThresholds_half GapEx.pR_gap pR_margin
  exact ⟨h1, h2, h5, h4⟩

/-- … and through `Adj` / the envelope as run: the hypotheses of `C01_adj_unambiguous_of_gap` /
    `C01_adj_of_gap` hold for `Ex.pR` (`Env.InputOK`, `Env.RegListOK`, `C·1 = 1`), so the conclusions do -/
example : Env.InputOK pR ∧ Env.RegListOK pR ∧ pR.C * (1 : Matrix (Fin pR.m) (Fin pR.m) ℝ) = 1
    ∧ Env.SolveUnambiguous pR ∧ Env.SolveGSUnambiguous pR := by
  have hP : pR.C * (1 : Matrix (Fin pR.m) (Fin pR.m) ℝ) = 1 := by rw [Gso.Ex.pR_C, Matrix.mul_one]
  obtain ⟨⟨h1, h2⟩, -⟩ := C01_adj_unambiguous_of_gap pR Gso.Ex.pR_input Gso.Ex.pR_regList 1 hP
    gapThresholds_half C01_rankgap_witness.1
  exact ⟨Gso.Ex.pR_input, Gso.Ex.pR_regList, hP, h1, h2⟩

/-- the envelope as run answers `Ex.pR` (`C02_envsolve_answers_of_gap` applied) -/
example : ∃ a, envSolve pR = .ok a ∧ a.xErr = none := by
  have hP : pR.C * (1 : Matrix (Fin pR.m) (Fin pR.m) ℝ) = 1 := by rw [Gso.Ex.pR_C, Matrix.mul_one]
  obtain ⟨a, ha, -, -⟩ := Gso.Ex.pR_envSolve
  exact ⟨a, ha, C02_envsolve_answers_of_gap pR Gso.Ex.pR_input Gso.Ex.pR_regList 1 hP
    gapThresholds_half C01_rankgap_witness.1 a ha⟩

/-- `C01_adj_of_gap` applied to `Ex.pR`: whatever `Adj` answers with envelope, cholesky or gso is the
    least-squares solution of the original problem — no trace hypothesis anywhere -/
example (alg : Alg) (halg : alg ≠ .svd) (a : Answer ℝ) (hs : adjSolve alg pR = .ok a) :
    IsLSSolution pR.A pR.b 1 pR.S (toVec pR.n a.x) (toVec pR.m a.r) a.rtr :=
  C01_adj_of_gap pR Gso.Ex.pR_input Gso.Ex.pR_regList 1 (by rw [Gso.Ex.pR_C, Matrix.mul_one])
    gapThresholds_half C01_rankgap_witness.1 alg halg a hs

/-- the hypothesis of `C01_net_unambiguous_of_gap` / `C01_net_of_gap` in the shape `LocalNetwork` needs it
    (`P = m0²·Pc`) is satisfiable: the matrices of `Ex.pR` with `m0 = 1`, `Pc = 1`.  The other
    hypotheses (`hdim`, `RowsOK`, `m0 ≠ 0`, `Σ·Pc = 1`, `RegListOK`) are those of `C01_net_cholesky` /
    `C01_net_envelope`, witnessed by `Ex.npQ` in `Props/C01/NetFacade.lean` over ℚ and — since round 7 — by the
    evaluated `Ex.npR : NetProblem ℝ` (`Lemmas/Ls/NetFacadeReal.lean`), on which `RankGap` in this very shape is
    PROVED and `C01_net_of_gap` APPLIED: `Props/C01/NetWitness.lean` (`C01_net_rankgap_witness`,
    `C01_net_of_gap_witness`); one-hypothesis form for all four algorithms: `Props/C01/InputGap.lean`) -/
example : RankGap pR.A (((1 : ℝ) * 1) • (1 : Matrix (Fin pR.m) (Fin pR.m) ℝ)) pR.S (1 / 2 : ℝ) := by
  rw [mul_one, one_smul]
  exact C01_rankgap_witness.1

end examples

end Gama.Props.C01
