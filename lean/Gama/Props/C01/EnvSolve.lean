/-
  C01 — the envelope solver AS THE DRIVER RUNS IT: `envSolve p` = `Homogenization::run`
  (`Ls.Env.homogenize`: `BlockDiagonal::cholDec` per block + the sweep of every column — the kernels
  of property C10, `Model/BandChol.lean`) + reverse Cuthill–McKee on the homogenised pattern
  (`Ls.Env.rcmOrd`, property C16's `Model/RCM.lean`) + `envCore`.

  The theorems of `Props/C01/Env.lean` are about `envCore` with the homogenised system `(Ã, b̃)`, the
  factor `W` (`WᵀW = P`) and the ordering `o` as PARAMETERS; here those hypotheses are discharged:
    (a) `C01_envsolve_homogenize` : `homogenize p = .ok h → ∃ W, WᵀW = P ∧ W injective ∧ Ã = W A ∧ b̃ = W b`
        (from C10's `bdCholBlock_reproduces`, `sweep_spec`);
    (b) `C01_envsolve_ordering`   : the RCM ordering is `OrdOK` (from C16's `rcm_isPerm`);
    (c) `C01_envsolve`, `C01_envsolve_regular`, `C01_envsolve_min_norm`, `C01_adj_envelope` : the C01
        statements for `envSolve p` / `adjSolve .env p` themselves.
  What remains as hypotheses is static data (`Env.InputOK`: the `BlockDiagonal` invariant of every
  covariance block, block dimensions adding up to `m`, sparse rows with distinct columns in `1..n`;
  `Env.RegListOK`: the regularisation list names distinct unknowns), the square-root law, `p.C·P = 1`,
  and the property's own premise "rank numerically unambiguous" in the envelope solver's sense, stated
  for the problem (`Env.SolveUnambiguous p`: the pivots `Envelope::cholDec` tests on the system built
  from `p`).  Scalars: `[SqrtFn K]`, model at `scalarOfField` (= `fieldScalar SqrtFn.sq`), as for
  class `Adj` (`Props/C01/Adj.lean`).  Proofs: `Lemmas/Ls/ComposeHomog.lean`, `ComposeOrd.lean`,
  `ComposeEnvSolve.lean`.
-/
import Gama.Lemmas.Ls.ComposeEnvSolve
import Gama.Lemmas.Ls.ComposeEnvSolveExample
import Gama.Lemmas.Ls.ComposeGapEnvSolve
import Gama.Lemmas.Ls.ComposeGapExample
import Gama.Lemmas.LS.Transform
import Mathlib.Analysis.Real.Sqrt
namespace Gama.Props.C01
open Gama Gama.Ls Gama.Ls.Env Gama.LS Gama.Ls.AdjM Matrix

set_option linter.unusedSectionVars false

variable {K : Type} [Field K] [LinearOrder K] [IsStrictOrderedRing K] [SqrtFn K]
attribute [local instance 2000] scalarOfField

/-- **(a) `Homogenization::run` whitens**: if no covariance block is rejected, the homogenised system
    `envSolve` hands to `Envelope` is `(W A, W b)` with `WᵀW = P` (`P` the inverse of the block
    diagonal covariance matrix `p.C`), `W` injective (indeed invertible) -/
theorem C01_envsolve_homogenize (hsq : IsSqrt (SqrtFn.sq : K → K)) (p : Problem K) (hwf : Env.BlocksWF p)
    (hdim : (dimsOf p).sum = p.m) (h : Env.Homog K) (hh : Env.homogenize p = .ok h)
    (P : Matrix (Fin p.m) (Fin p.m) K) (hP : p.C * P = 1) :
    ∃ W : Matrix (Fin p.m) (Fin p.m) K, Wᵀ * W = P ∧ (∀ d, W *ᵥ d = 0 → d = 0) ∧
      toMatrix p.m p.n h.At = W * p.A ∧ toVec p.m h.bt = W *ᵥ p.b ∧ IsUnit W.det :=
  Env.homogenize_spec hsq p hwf hdim h hh P hP

/-- **(b) the code's ordering is valid**: reverse Cuthill–McKee on the pattern `Homogenization::run`
    leaves behind is a pair of mutually inverse index maps -/
theorem C01_envsolve_ordering (p : Problem K) (hrows : RowsOK p) (hdim : (dimsOf p).sum = p.m)
    (h : Env.Homog K) (hh : Env.homogenize p = .ok h) : OrdOK p.n (Env.rcmOrd p.n h.pat) :=
  Env.rcmOrd_ok p.n h.pat (Env.homogenize_pat_range p hrows hdim h hh)

/-- any valid pattern gives a valid ordering (C16 `rcm_isPerm` in the vocabulary of the envelope theorems) -/
theorem C01_rcm_ordering (n : ℕ) (pat : Array (List ℕ)) (hpat : ∀ cols ∈ pat.toList, ∀ c ∈ cols, 1 ≤ c ∧ c ≤ n) :
    OrdOK n (Env.rcmOrd n pat) := Env.rcmOrd_ok n pat hpat

/-- **(c) C01 for `envSolve`, defect 0**: `unknowns()` answers and `x`, `v`, `rtr` satisfy `v = A x − b`,
    `AᵀP v = 0`, `rtr = vᵀP v` — no unambiguity hypothesis -/
theorem C01_envsolve_regular (hsq : IsSqrt (SqrtFn.sq : K → K)) (p : Problem K) (hin : Env.InputOK p)
    (P : Matrix (Fin p.m) (Fin p.m) K) (hP : p.C * P = 1)
    (a : Answer K) (h : envSolve p = .ok a) (hd : a.defect = 0) (S : Finset (Fin p.n)) :
    a.xErr = none ∧ IsLSSolution p.A p.b P S (toVec p.n a.x) (toVec p.m a.r) a.rtr :=
  envSolve_regular_isLS hsq p hin P hP a h hd S

/-- **(c) C01 for `envSolve`, regular or singular**: whenever `unknowns()` answers (`xErr = none`),
    `x`, `v = residuals()`, `rtr = sum_of_squares()` are the least-squares solution of the ORIGINAL
    weighted problem `(A, b, P)` whose `x` is `S`-orthogonal to the kernel of `A` -/
theorem C01_envsolve (hsq : IsSqrt (SqrtFn.sq : K → K)) (p : Problem K) (hin : Env.InputOK p)
    (hreg : Env.RegListOK p) (hU : Env.SolveUnambiguous p)
    (P : Matrix (Fin p.m) (Fin p.m) K) (hP : p.C * P = 1)
    (a : Answer K) (h : envSolve p = .ok a) (hx : a.xErr = none) :
    IsLSSolution p.A p.b P p.S (toVec p.n a.x) (toVec p.m a.r) a.rtr :=
  envSolve_isLS hsq p hin hreg hU P hP a h hx

/-- hence `vᵀPv` is minimal, equals the reported sum of squares, and `x` has the smallest
    `Σ_{i∈S} x_i²` among all minimisers -/
theorem C01_envsolve_min_norm (hsq : IsSqrt (SqrtFn.sq : K → K)) (p : Problem K) (hin : Env.InputOK p)
    (hreg : Env.RegListOK p) (hU : Env.SolveUnambiguous p)
    (P : Matrix (Fin p.m) (Fin p.m) K) (hP : p.C * P = 1)
    (a : Answer K) (h : envSolve p = .ok a) (hx : a.xErr = none) :
    (∀ y, Phi p.A p.b P (toVec p.n a.x) ≤ Phi p.A p.b P y)
    ∧ a.rtr = Phi p.A p.b P (toVec p.n a.x)
    ∧ ∀ y, (∀ z, Phi p.A p.b P y ≤ Phi p.A p.b P z) → normS p.S (toVec p.n a.x) ≤ normS p.S y := by
  have hls := envSolve_isLS hsq p hin hreg hU P hP a h hx
  obtain ⟨hh, hhom, -⟩ := envSolve_shape p a h
  obtain ⟨W, hW, hWinj, -⟩ := Env.homogenize_spec hsq p hin.blocks hin.dims hh hhom P hP
  exact ⟨hls.minimal (hW ▸ gram_symm W) (hW ▸ gram_psd W), hls.rtr_eq_Phi,
    hls.min_norm_among_minimisers (hW ▸ gram_symm W) (hW ▸ gram_pd W hWinj)⟩

/-- **one hypothesis on the problem data** instead of the solver's trace: the weighted gap condition
    `GapAllP A P sqrt(eps)` — every exact Schur-complement pivot of `AᵀPA`, in any pivot order, is 0 or
    larger than the tolerance of `Envelope::cholDec` — gives `Env.SolveUnambiguous p`, whatever
    ordering RCM picks and whatever factor the homogenisation computes -/
theorem C01_envsolve_unambiguous_of_gap (hsq : IsSqrt (SqrtFn.sq : K → K)) (p : Problem K) (hin : Env.InputOK p)
    (P : Matrix (Fin p.m) (Fin p.m) K) (hP : p.C * P = 1) (hG : GapAllP p.A P (Env.sqrtEps : K)) :
    Env.SolveUnambiguous p :=
  Env.solveUnambiguous_of_gap hsq p hin P hP hG

/-- `C01_envsolve` with the trace hypothesis replaced by the gap condition on `(A, P)` -/
theorem C01_envsolve_of_gap (hsq : IsSqrt (SqrtFn.sq : K → K)) (p : Problem K) (hin : Env.InputOK p)
    (hreg : Env.RegListOK p) (P : Matrix (Fin p.m) (Fin p.m) K) (hP : p.C * P = 1)
    (hG : GapAllP p.A P (Env.sqrtEps : K))
    (a : Answer K) (h : envSolve p = .ok a) (hx : a.xErr = none) :
    IsLSSolution p.A p.b P p.S (toVec p.n a.x) (toVec p.m a.r) a.rtr :=
  envSolve_isLS hsq p hin hreg (Env.solveUnambiguous_of_gap hsq p hin P hP hG) P hP a h hx

/-- `envSolve` as a whole throws only when `BlockDiagonal::cholDec` rejects a covariance block, and
    then it is `NonPositiveDefinite` (`Homogenization::run`, repo commit 7e9fd7d2) -/
theorem C01_envsolve_throws (p : Problem K) (e : ErrKind) (h : envSolve p = .error e) :
    Env.homogenize p = .error e ∧ e = .NonPositiveDefinite ∧ Env.factorsU p.cov.toList = none :=
  ⟨envSolve_error p e h, envSolve_error_kind p e h⟩

/-- **`Adj` + envelope, end to end** (`C01_adj_sparse` with its hypothesis `hsol` discharged): the
    hypotheses are asked of the problem the solver is actually given (`reg := regOf p.reg`) -/
theorem C01_adj_envelope (hsq : IsSqrt (SqrtFn.sq : K → K)) (p : Problem K)
    (hin : Env.InputOK { p with reg := regOf p.reg }) (hreg : Env.RegListOK { p with reg := regOf p.reg })
    (hU : Env.SolveUnambiguous { p with reg := regOf p.reg })
    (P : Matrix (Fin p.m) (Fin p.m) K) (hP : p.C * P = 1)
    (a : Answer K) (h : adjSolve .env p = .ok a) :
    IsLSSolution p.A p.b P p.S (toVec p.n a.x) (toVec p.m a.r) a.rtr := by
  have h' : adjSparse .env p = .ok a := h
  unfold adjSparse at h'
  simp only [] at h'
  cases hs : solverOf .env { p with reg := regOf p.reg } with
  | error e => rw [hs] at h'; cases h'
  | ok s =>
    rw [hs] at h'
    simp only at h'
    cases hx : s.xErr with
    | some e => rw [hx] at h'; cases h'
    | none =>
      rw [hx] at h'
      have ha := (Except.ok.inj h').symm
      subst ha
      have := envSolve_isLS hsq { p with reg := regOf p.reg } hin hreg hU P hP s hs hx
      have hS : (Problem.S { p with reg := regOf p.reg }) = p.S := regOf_toFinset p.n p.reg
      rw [hS] at this
      exact this

/-! ### non-vacuity -/

/-- the problem `Ex.pEnvCorr` (`A = [[1,1],[1,1],[2,2]]`, defect 1, a CORRELATED block `[[4,2],[2,10]]`
    of band width 1, regularisation subset `{1}` — proper, resolving) meets every hypothesis of
    `C01_envsolve`, `C01_envsolve_min_norm`, `C01_envsolve_homogenize`, `C01_envsolve_ordering` except
    the global square-root law (ℚ has none; `Ex.sqQ` is exact on every value whose root is taken: 4, 9,
    1/4, 1), and the model answers: `x = (0, 438/293)`, `vᵀPv = 73/586` (kernel evaluation) -/
example : Env.InputOK Ex.pEnvCorr ∧ Env.RegListOK Ex.pEnvCorr ∧ Env.SolveUnambiguous Ex.pEnvCorr
    ∧ Ex.pEnvCorr.C * Ex.PEnvCorr = 1 ∧ Ex.pEnvCorr.S ≠ Finset.univ
    ∧ ∃ a, envSolve Ex.pEnvCorr = .ok a ∧ a.defect = 1 ∧ a.xErr = none
        ∧ a.x = #[0, 438/293] ∧ a.r = #[145/293, -148/293, -3/293] ∧ a.rtr = 73/586 :=
  ⟨Ex.pEnvCorr_input, Ex.pEnvCorr_reg, Ex.pEnvCorr_unamb.1, Ex.pEnvCorr_weight, Ex.pEnvCorr_S, Ex.pEnvCorr_answer⟩

/-- the same instance through class `Adj` (`C01_adj_envelope`; `regOf (.subset l) = .subset l`) -/
example : Env.InputOK { Ex.pEnvCorr with reg := regOf Ex.pEnvCorr.reg }
    ∧ Env.RegListOK { Ex.pEnvCorr with reg := regOf Ex.pEnvCorr.reg }
    ∧ Env.SolveUnambiguous { Ex.pEnvCorr with reg := regOf Ex.pEnvCorr.reg }
    ∧ ∃ a, adjSolve .env Ex.pEnvCorr = .ok a ∧ a.defect = 1 ∧ a.x = #[0, 438/293] ∧ a.rtr = 73/586 :=
  ⟨Ex.pEnvCorr_input, Ex.pEnvCorr_reg, Ex.pEnvCorr_unamb.1, Ex.pEnvCorr_adj_answer⟩

/-- its homogenisation is not rejected and the RCM ordering of its pattern is computed (hypotheses
    `hh` of `C01_envsolve_homogenize` / `C01_envsolve_ordering`) -/
example : ∃ h, Env.homogenize Ex.pEnvCorr = .ok h ∧ h.bt = #[1/2, 1/2, 6]
    ∧ (Env.rcmOrd Ex.pEnvCorr.n h.pat).perm = #[0, 1] := by
  have e : (Env.homogenize Ex.pEnvCorr).toOption.map (fun h => (h.bt, (Env.rcmOrd Ex.pEnvCorr.n h.pat).perm))
      = some (#[1/2, 1/2, 6], #[0, 1]) := by decide +kernel
  obtain ⟨h, h1, h2⟩ := Ex.ok_of_toOption e
  simp only [Prod.mk.injEq] at h2
  exact ⟨h, h1, h2.1, h2.2⟩

/-- non-vacuity of the gap form: `A = [1 1; 0 0]` (defect 1, exact pivots 0 and 1), unit weights,
    `S = {1}` over ℚ meets `InputOK`, `RegListOK`, `p.C·1 = 1` and `GapAllP A 1 sqrt(eps)`; the model
    answers with defect 1 -/
example : Env.InputOK (GapEx.pGap (.subset [1])) ∧ Env.RegListOK (GapEx.pGap (.subset [1]))
    ∧ (GapEx.pGap (.subset [1])).C * 1 = 1
    ∧ GapAllP (GapEx.pGap (.subset [1])).A 1 (Env.sqrtEps : ℚ)
    ∧ ∃ a, envSolve (GapEx.pGap (.subset [1])) = .ok a ∧ a.defect = 1 ∧ a.xErr = none := by
  refine ⟨⟨?_, by decide, ?_⟩, ?_, ?_, ?_, ?_⟩
  · intro b hb
    have : b = ⟨2, 0, #[1, 1]⟩ := by simpa [GapEx.pGap] using hb
    subst this
    exact ⟨by decide, by decide⟩
  · intro i hi
    have : i = 0 ∨ i = 1 := by have : i < 2 := hi; omega
    rcases this with rfl | rfl <;> simp [GapEx.pGap, Array.getD]
  · intro l hl
    have : l = [1] := by
      have h : Reg.subset [1] = Reg.subset l := hl
      injection h with h'; exact h'.symm
    subst this
    exact ⟨by decide, by decide⟩
  · rw [Matrix.mul_one, ← Cadj_eq_C (GapEx.pGap (.subset [1])) (by decide)]
    show (Cadj (GapEx.pGap (.subset [1])) : Matrix (Fin 2) (Fin 2) ℚ) = 1
    decide +kernel
  · rw [GapAllP.one, GapEx.pGap_A]
    refine (gapAll_example ℚ).mono ?_
    show (1 : ℚ) / ((67108864 : ℕ) : ℚ) ≤ 1 / 2
    norm_num
  · have e : (envSolve (GapEx.pGap (.subset [1]))).toOption.map (fun a => (a.defect, a.xErr)) = some (1, none) := by
      decide +kernel
    obtain ⟨a, h1, h2⟩ := Ex.ok_of_toOption e
    simp only [Prod.mk.injEq] at h2
    exact ⟨a, h1, h2.1, h2.2⟩

/-- the square-root law is satisfiable: `Real.sqrt` -/
example : IsSqrt Real.sqrt := ⟨fun _ h => Real.mul_self_sqrt h, fun x _ => Real.sqrt_nonneg x⟩

end Gama.Props.C01
