/-
  C01 — svd solver: the factorisation certificate DERIVED for the factors `Svd.decompose` returns.

  `Svd.decompose` (Model/Ls/Svd/Decomp.lean) is the statement-by-statement transliteration of
  `SVD::svd()` (lib/matvec/svd.h: Golub–Reinsch — Householder bidiagonalisation, accumulation of the
  right- and left-hand transformations, implicit-shift QR sweeps with splitting / cancellation tests,
  30-sweep limit → `NoConvergence`, sign flip), executed by `drv_ls` next to the C++ on every run.
  Until now every svd theorem (C01/C03/C08/C15/C20) ASSUMED the certificate `SvdCert`
  (`A = U diag(W) Vᵀ`, `VᵀV = 1`, `UᵀU = 1` on the kept columns) for these factors.  Here the
  ALGEBRAIC part of that certificate is PROVED about `decompose` itself, for every `m`, `n`, `A`:

      every step of the algorithm is an orthogonal transformation, so whenever the run returns
      (`decompose m n A = .ok d`, i.e. no `NoConvergence`) the factors satisfy the certificate.

  Setting: `K` a linearly ordered field, the model at `fieldScalar sq`, `sq` a square root on the
  non-negative elements (`SqrtLaw`).  There every `==` of the code is equality in the field: an
  element "tested as negligible" is exactly `0` — the same "numerically unambiguous" reading as in
  the theorems about the other solvers, here not even a hypothesis.  Zero-norm branches are the
  code's (`if (scale)`, `if (g)`, `if (z)`); the unguarded rotation of the sweep divides by a
  `PYTHAG` that is shown non-zero on an unreduced block.

  NOT proved (stays in the trusted base): that the run returns — convergence of the QR iteration; in
  exact arithmetic it reaches an exact zero only for special inputs (witness below) — and anything
  about rounding: for `double` the factors of the REAL code are still checked numerically on every
  run (tools/props/svd_cert.py), which is now a check of convergence/negligibility only.
  What remains a hypothesis of the solver theorems is `Unambiguous tol W` — a property of the
  returned singular values alone (each is exactly 0 or above `tol·max W`).

  Invariants, in the order of the program (pieces of `decompose`: Lemmas/Ls/SvdDecompStruct.lean,
  `decompose_eq_struct` proves that the pieces ARE the program):
    C01_svd_decompose_invariant     the invariant after EVERY Householder step, accumulation step,
                                    Givens rotation pair and pass
    C01_svd_decompose_bidiag        after the reduction:  A = (P₁⋯Pₙ)·bidiag(W, rv1)·(Q₁⋯Qₙ)ᵀ
    C01_svd_decompose_accumulate    the accumulations return V = Q₁⋯Qₙ, U = (P₁⋯P_mn)[I;0]: `QRInv`
    C01_svd_decompose_cert          returned ⇒ A = U diag(W) Vᵀ, VᵀV = 1, U-columns with W ≠ 0
                                    orthonormal, W ≥ 0
    C01_svd_decompose_svdcert       … ⇒ `SvdCert` (given `Unambiguous`)
    C01_svd_decompose, C01_svd_solve_decompose, C01_adj_svd_decompose, C01_net_svd_decompose
                                    `C01_svd_cert` & co. WITHOUT the certificate hypothesis
-/
import Gama.Lemmas.Ls.SvdDecompCert
import Gama.Lemmas.Ls.SvdDecompWitness
import Gama.Props.C01.Svd
import Gama.Props.C01.AdjSolvers
import Gama.Props.C01.NetFacade
namespace Gama.Props.C01
open Gama Gama.Ls Gama.Ls.Svd Gama.Ls.Net Gama.LS Gama.Ls.AdjM Matrix

set_option linter.unusedSectionVars false

section field
variable {K : Type} [Field K] [LinearOrder K] [IsStrictOrderedRing K] {sq : K → K}

/-- **the invariant at every point of `decompose`** — after every Householder step, after every
    step of the two accumulations, after every Givens rotation pair of a QR sweep, after every pass:
    `A = Ũ · B · Ṽᵀ` with `Ũ`, `Ṽ` orthogonal (products of the reflectors / rotations applied so far) and
    `B` the current (bi)diagonal stored in `(W, rv1)` and the scalars of the loop.  The five conjuncts
    (`Svd.decompose_invariant`):
    1. after step `i ≤ n` of the reduction: `Inv1St` — `A = (P₁⋯Pᵢ)·Workᵢ·(Q₁⋯Qᵢ)ᵀ`, `P_j² = Q_j² = 1`;
    2. after `t` steps of the V-accumulation: the trailing block of `V` is `Q_{n-t+1}⋯Qₙ`;
    3. after `t` steps of the U-accumulation: the trailing block of `U` is `P_{mn-t+1}⋯P_mn·[I;0]`;
    4. after every rotation pair of a sweep on an unreduced block: `sw_Inv` — `A = U·M·Vᵀ`, `VᵀV = 1`,
       `UᵀU + ZᵀZ = 1`, `Z·M = 0`, `M` = bidiagonal + bulge;
    5. after every pass for the singular value `k`: `PInv`, or the pass loop is left (`done`). -/
theorem C01_svd_decompose_invariant (hs : SqrtLaw sq) (m n : Nat) (A : DMat K) :
    (∀ i, i ≤ n → ∀ st : St1 K,
      forIn [1:i+1] (init1 sq m n A) (@bidiagBody K (fieldScalar sq) m n) = .ok st → Inv1St sq m n A i st) ∧
    (∀ (U : DMat K) (rv1 : Array K) (g0 s0 : K) (L0 t : Nat), t ≤ n → ∀ st : DMat K × K × K × Nat,
      forIn [0:t] ((Array.replicate n (Array.replicate n (0 : K)), g0, s0, L0) : DMat K × K × K × Nat)
        (@accVBody K (fieldScalar sq) n U rv1) = .ok st →
      MWF n n st.1 ∧ ∀ a b : Fin n, n - t ≤ a.val → n - t ≤ b.val →
        @mg K (fieldScalar sq) st.1 (a.val + 1) (b.val + 1)
          = prodFrom (QRm sq n U (@g1 K (fieldScalar sq) rv1)) (n - t + 1) t a b) ∧
    (∀ (U0 : DMat K) (W : Array K), MWF m n U0 →
      (∀ i, 1 ≤ i → i ≤ n → @g1 K (fieldScalar sq) W i ≠ 0 → @mg K (fieldScalar sq) U0 i i ≠ 0) →
      ∀ (g0 s0 f0 : K) (L0 t : Nat), t ≤ (if m < n then m else n) → ∀ st : DMat K × K × K × K × Nat,
      forIn [0:t] ((U0, g0, s0, f0, L0) : DMat K × K × K × K × Nat)
        (@accUBody K (fieldScalar sq) m n (if m < n then m else n) W) = .ok st →
      accU_Inv sq m n (if m < n then m else n) U0 W t st.1) ∧
    (∀ (W0 rv10 : Array K) (L k i1 : Nat), 1 ≤ L → L ≤ i1 → i1 < k → k ≤ n →
      (∀ j, L < j → j ≤ k → @g1 K (fieldScalar sq) rv10 j ≠ 0 ∧ @g1 K (fieldScalar sq) W0 (j - 1) ≠ 0) →
      ∀ st st' : StQ K, sw_Inv sq m n A W0 rv10 L k i1 st →
      @sweepBody K (fieldScalar sq) m n i1 st = .ok (.yield st') → sw_Inv sq m n A W0 rv10 L k (i1 + 1) st') ∧
    (∀ (k : Nat), 1 ≤ k → k ≤ n → ∀ (sOne : K) (st : StP K), PInv sq m n A k st →
      ∀ r : ForInStep (StP K), @passBody K (fieldScalar sq) m n k (k - 1) sOne st = .ok r →
      r = .done st ∨ ∃ st', r = .yield st' ∧ PInv sq m n A k st') :=
  decompose_invariant sq hs.mul_self hs.nonneg m n A

/-- **after the Householder loop**: `A = (P₁⋯Pₙ) · bidiag(W, rv1) · (Q₁⋯Qₙ)ᵀ`, `P_j² = 1`, `Q_j² = 1` -/
theorem C01_svd_decompose_bidiag (hs : SqrtLaw sq) (m n : Nat) (A : DMat K) (st : St1 K)
    (h : forIn [1:n+1] (init1 sq m n A) (@bidiagBody K (fieldScalar sq) m n) = .ok st) :
    Phase1Post sq m n A st.1 st.2.1 st.2.2.1 :=
  phase1 sq hs.mul_self hs.nonneg m n A st h

/-- **after the two accumulations**: `V = Q₁⋯Qₙ` and `U = (P₁⋯P_mn)·[I;0]` explicitly, hence the
    invariant of the diagonalisation `A = U · bidiag(W, rv1) · Vᵀ`, `VᵀV = 1`, `UᵀU + ZᵀZ = 1`,
    `Z·bidiag = 0` (for `m ≥ n`: `Z = 0`, `UᵀU = 1`) -/
theorem C01_svd_decompose_accumulate (m n : Nat) (A U1 : DMat K) (W rv1 : Array K)
    (h1 : Phase1Post sq m n A U1 W rv1) (g0 s0 : K) (L0 : Nat) (g0' s0' f0' : K) (L0' : Nat)
    (st2 : DMat K × K × K × Nat) (st3 : DMat K × K × K × K × Nat)
    (h2 : forIn [0:n] ((Array.replicate n (Array.replicate n (0 : K)), g0, s0, L0) : DMat K × K × K × Nat)
      (@accVBody K (fieldScalar sq) n U1 rv1) = .ok st2)
    (h3 : forIn [0:(if m < n then m else n)] ((U1, g0', s0', f0', L0') : DMat K × K × K × K × Nat)
      (@accUBody K (fieldScalar sq) m n (if m < n then m else n) W) = .ok st3) :
    QRInv sq m n A st3.1 W st2.1 rv1 :=
  qrInv_init sq m n A U1 W rv1 st2.1 st3.1 h1
    (phase2_stmt sq m n U1 rv1 g0 s0 L0 st2 h1.wfU h1.wfr h2)
    (phase3_stmt sq m n U1 W g0' s0' f0' L0' st3 h1.wfU h1.wfW h1.hL0 h3)

/-- **`decompose` returns a factorisation** (every `m`, `n`, `A`): if the transliterated `SVD::svd()`
    returns `d = (U, W, V)` then `A = U diag(W) Vᵀ`, `VᵀV = 1`, the columns of `U` that belong to
    non-zero singular values are orthonormal, and `W ≥ 0` -/
theorem C01_svd_decompose_cert (hs : SqrtLaw sq) (m n : Nat) (A : DMat K) (d : Dec K)
    (h : @decompose K (fieldScalar sq) m n A = .ok d) :
    toMatrix m n A = toMatrix m n d.U * diagonal (toVec n d.W) * (toMatrix n n d.V)ᵀ
      ∧ (toMatrix n n d.V)ᵀ * toMatrix n n d.V = 1
      ∧ (∀ i j : Fin n, toVec n d.W i ≠ 0 →
          ((toMatrix m n d.U)ᵀ * toMatrix m n d.U) i j = if i = j then 1 else 0)
      ∧ ∀ i : Fin n, 0 ≤ toVec n d.W i :=
  have hp := decompose_cert sq hs.mul_self hs.nonneg m n A d h
  ⟨hp.fact, hp.vtv, hp.utu, hp.nonneg⟩

/-- the certificate of the svd theorems for the factors `decompose` returns; `Unambiguous` is a
    property of the returned singular values alone -/
theorem C01_svd_decompose_svdcert (hs : SqrtLaw sq) (tol : K) (m n : Nat) (A : DMat K) (d : Dec K)
    (h : @decompose K (fieldScalar sq) m n A = .ok d)
    (hun : Unambiguous sq tol n (@vget K (fieldScalar sq) d.W)) : SvdCert sq tol m n A d :=
  decompose_svdCert sq hs.mul_self hs.nonneg tol m n A d h hun

/-- **C01 (svd) without the certificate hypothesis**: `C01_svd_cert` for the factors the model's own
    iteration returned -/
theorem C01_svd_decompose (hs : SqrtLaw sq) (fixed : Bool) {tol : K} (htol : 0 ≤ tol) (p : Problem K) (d : Dec K)
    (hd : @decompose K (fieldScalar sq) p.m p.n (@Problem.dense K (fieldScalar sq) p) = .ok d)
    (hun : Unambiguous sq tol p.n (@vget K (fieldScalar sq) d.W)) (hreg : RegOK p.reg) (a : Answer K)
    (h : @svdSolveCert K (fieldScalar sq) fixed tol d p = .ok a) :
    IsLSSolution (@Problem.A K (fieldScalar sq) p) (@Problem.b K (fieldScalar sq) p) 1
      (p.S) (toVec p.n a.x) (toVec p.m a.r) a.rtr :=
  C01_svd_cert hs fixed htol p d (C01_svd_decompose_svdcert hs tol p.m p.n _ d hd hun) hreg a h

end field

section sqrtField
variable {K : Type} [Field K] [LinearOrder K] [IsStrictOrderedRing K] [Gso.SqrtField K]
attribute [local instance] sqrtFnOfSqrtField
attribute [local instance 2000] scalarOfField

/-- the svd solver as it runs (`svdSolve` = `Svd.decompose`, then `set_inv_W`, `min_subset_x`, `solve`
    at the tolerance `Svd.wTol`): `C01_svd_solve_cert` with the certificate replaced by the unambiguity
    of the singular values the run returned -/
theorem C01_svd_solve_decompose (q : Problem K) (hreg : Svd.RegOK q.reg)
    (hun : ∀ d, Svd.decompose q.m q.n q.dense = .ok d →
      Svd.Unambiguous (Gso.SqrtField.sqrt : K → K) Svd.wTol q.n (Svd.vget d.W))
    (s : Answer K) (hs : svdSolve q = .ok s) :
    IsLSSolution q.A q.b 1 q.S (toVec q.n s.x) (toVec q.m s.r) s.rtr :=
  C01_svd_solve_cert q hreg
    (fun d hd => C01_svd_decompose_svdcert sqrtLaw_of_sqrtField Svd.wTol q.m q.n q.dense d hd (hun d hd)) s hs

/-- **`Adj` + svd, end to end** without the certificate hypothesis -/
theorem C01_adj_svd_decompose (p : Problem K) (hdim : (dimsOf p).sum = p.m) (hrows : RowsOK p)
    (P : Matrix (Fin p.m) (Fin p.m) K) (hP : p.C * P = 1) (hreg : Svd.RegOK p.reg)
    (hun : ∀ Ad bd d, homogenise p = .ok (Ad, bd) →
      Svd.decompose p.m p.n (dotProblem p Ad bd (regOf p.reg)).dense = .ok d →
      Svd.Unambiguous (Gso.SqrtField.sqrt : K → K) Svd.wTol p.n (Svd.vget d.W))
    (a : Answer K) (h : adjSolve .svd p = .ok a) :
    IsLSSolution p.A p.b P p.S (toVec p.n a.x) (toVec p.m a.r) a.rtr :=
  C01_adj_svd_cert p hdim hrows P hP hreg
    (fun Ad bd d hh hd => C01_svd_decompose_svdcert sqrtLaw_of_sqrtField Svd.wTol p.m p.n _ d hd (hun Ad bd d hh hd))
    a h

/-- **`LocalNetwork` + svd, end to end** without the certificate hypothesis -/
theorem C01_net_svd_decompose (np : NetProblem K)
    (hdim : (dimsN np).sum = np.m) (hrows : RowsOK (toProblem np)) (hm0 : np.m0 ≠ 0)
    (Pc : Matrix (Fin (toProblem np).m) (Fin (toProblem np).m) K) (hPc : Sigma np * Pc = 1)
    (hreg : np.minx.Nodup)
    (hun : ∀ hh d, prepare np = .ok hh →
      Svd.decompose np.m np.n (Net.dotProblem np hh).dense = .ok d →
      Svd.Unambiguous (Gso.SqrtField.sqrt : K → K) Svd.wTol np.n (Svd.vget d.W))
    (a : NetAnswer K) (h : netSolve .svd np = .ok a) :
    IsLSSolution (toProblem np).A (toProblem np).b ((np.m0 * np.m0) • Pc) (toProblem np).S
      (toVec (toProblem np).n a.x) (toVec (toProblem np).m a.r) a.pvv :=
  C01_net_svd_cert np hdim hrows hm0 Pc hPc hreg
    (fun hh d hp hd => C01_svd_decompose_svdcert sqrtLaw_of_sqrtField Svd.wTol np.m np.n _ d hd (hun hh d hp hd))
    a h

end sqrtField

/-! ### non-vacuity -/

section examples
open Gama.Ls.Svd.Ex Gama.Ls.Ex
attribute [local instance] sqrtFnOfSqrtField
attribute [local instance 2000] scalarOfField

/-- `Real.sqrt` satisfies the square-root law: the only hypothesis of `C01_svd_decompose_invariant` -/
example : SqrtLaw Real.sqrt := sqrtLaw_real

/-- non-vacuity of `C01_svd_decompose_bidiag` / `_accumulate` and of the pass clause of
    `C01_svd_decompose_invariant` over ℝ, on the run of `decompose` on `A32 = [[12,12],[5,12],[0,0]]`
    (evaluated statement by statement in `Lemmas/Ls/SvdDecompExample.lean`): the Householder loop returns
    `W = (−13, 84/13)`, `rv1 = (0, 204/13)`; the accumulations return `V = diag(1, −1)` and an explicit `U`,
    the invariant `QRInv` holds for them (`e32_qrInv`, obtained from the two theorems), `PInv` holds at
    the start of the pass loop for `k = 2`, and the first pass (no split: a genuine QR sweep) returns. -/
example :
    (∃ st, forIn [1:2+1] (init1 Real.sqrt 3 2 A32) (@bidiagBody ℝ (fieldScalar Real.sqrt) 3 2) = .ok st
      ∧ st.2.1 = #[-13, 84/13] ∧ st.2.2.1 = #[0, 204/13])
    ∧ QRInv Real.sqrt 3 2 A32 #[#[-(12/13), 5/13], #[-(5/13), -(12/13)], #[0, 0]] #[-13, 84/13]
        #[#[1, 0], #[0, -1]] #[0, 204/13]
    ∧ PInv Real.sqrt 3 2 A32 2 (#[#[-(12/13), 5/13], #[-(5/13), -(12/13)], #[0, 0]], #[-13, 84/13],
        #[#[1, 0], #[0, -1]], #[0, 204/13], -13, -5, 1/65, -2, 2, 0, 0, 0, 0, 0, 0, false)
    ∧ ∃ st', @passBody ℝ (fieldScalar Real.sqrt) 3 2 2 (2 - 1) (288/13)
        (#[#[-(12/13), 5/13], #[-(5/13), -(12/13)], #[0, 0]], #[-13, 84/13], #[#[1, 0], #[0, -1]], #[0, 204/13],
          -13, -5, 1/65, -2, 2, 0, 0, 0, 0, 0, 0, false) = .ok (.yield st') :=
  ⟨⟨_, e32_bidiagLoop, rfl, rfl⟩, e32_qrInv, e32_pinv, _, e32_pass_1⟩

/-- non-vacuity of `C01_svd_decompose_cert` / `_svdcert` / `C01_svd_decompose` over ℝ: on
    `A32 = [[12,12],[5,12],[0,0]]` (rank 2) the transliterated `SVD::svd()` RETURNS — Householder steps
    with `√(169/289)`, one QR sweep (`√(625/576)`, `√(25/16)`, `√(4225/3969)`) after which `rv1[2] = 0`
    exactly, one sign flip — the factors `d32`: `U = [[3/5,4/5],[−4/5,3/5],[0,0]]`, `W = (4, 21)`,
    `V = [[4/5,3/5],[−3/5,4/5]]`; the singular values are unambiguous at `tol = 1/1000`, and the
    post-decomposition model answers the unit-weight problem `p32` -/
example : SqrtLaw Real.sqrt
    ∧ @decompose ℝ (fieldScalar Real.sqrt) p32.m p32.n (@Problem.dense ℝ (fieldScalar Real.sqrt) p32) = .ok d32
    ∧ Unambiguous Real.sqrt (1 / 1000) p32.n (@vget ℝ (fieldScalar Real.sqrt) d32.W)
    ∧ (0 : ℝ) ≤ 1 / 1000 ∧ RegOK p32.reg
    ∧ ∃ a, @svdSolveCert ℝ (fieldScalar Real.sqrt) true (1 / 1000) d32 p32 = .ok a :=
  ⟨sqrtLaw_real, p32_decompose, d32_unamb, by norm_num, trivial, p32_answer⟩

/-- the theorem applied to the instance: the certificate holds for the factors of the run, and the
    answer is a least-squares solution -/
example : SvdCert Real.sqrt (1 / 1000) 3 2 A32 d32
    ∧ ∃ a, @svdSolveCert ℝ (fieldScalar Real.sqrt) true (1 / 1000) d32 p32 = .ok a
      ∧ IsLSSolution (@Problem.A ℝ (fieldScalar Real.sqrt) p32) (@Problem.b ℝ (fieldScalar Real.sqrt) p32) 1
          (p32.S) (toVec p32.n a.x) (toVec p32.m a.r) a.rtr := by
  obtain ⟨a, h⟩ := p32_answer
  exact ⟨C01_svd_decompose_svdcert sqrtLaw_real (1 / 1000) 3 2 A32 d32 decompose_A32 d32_unamb, a, h,
    C01_svd_decompose sqrtLaw_real true (by norm_num) p32 d32 p32_decompose d32_unamb trivial a h⟩

/-- non-vacuity of `C01_svd_solve_decompose` over ℝ: the homogenised system of `Ex.pCV`,
    `A_dot = [[6,8],[3,4],[6,8]]` (rank 1, S = {1}); the run of `decompose` over ℝ (one QR sweep, then the
    CANCELLATION loop, `W = (0, 15)`) returns `Ex.dCV` (`Ex.pCV_decompose` — the evaluation that
    `Props/C01/AdjSolvers.lean` had to leave as a hypothesis), the singular values are unambiguous at
    the model's own tolerance `Svd.wTol`, and `svdSolve` answers x = (0, 1/8), defect 1 -/
example : Svd.RegOK Ex.pCVdot.reg
    ∧ (∀ d, Svd.decompose Ex.pCVdot.m Ex.pCVdot.n Ex.pCVdot.dense = .ok d →
        Svd.Unambiguous (Gso.SqrtField.sqrt : ℝ → ℝ) Svd.wTol Ex.pCVdot.n (Svd.vget d.W))
    ∧ Svd.decompose Ex.pCVdot.m Ex.pCVdot.n Ex.pCVdot.dense = .ok Ex.dCV
    ∧ ∃ s, svdSolve Ex.pCVdot = .ok s ∧ s.x = #[0, 1/8] ∧ s.defect = 1 :=
  ⟨List.nodup_singleton 1, Ex.pCVdot_hun, Ex.pCVdot_decompose, Ex.pCVdot_svdSolve⟩

/-- non-vacuity of `C01_adj_svd_decompose` over ℝ, now UNCONDITIONAL: `Ex.pCV` (correlated block
    `[[4,2],[2,10]]` + variance 4, A = [[12,16],[15,20],[12,16]], defect 1, S = {1}) meets every hypothesis
    and `Adj` + svd answers x = (0, 1/8), defect 1 — a least-squares solution of the ORIGINAL weighted
    problem -/
example : (dimsOf Ex.pCV).sum = Ex.pCV.m ∧ RowsOK Ex.pCV ∧ Ex.pCV.C * Ex.PCV = 1 ∧ Svd.RegOK Ex.pCV.reg
    ∧ (∀ Ad bd d, homogenise Ex.pCV = .ok (Ad, bd) →
        Svd.decompose Ex.pCV.m Ex.pCV.n (dotProblem Ex.pCV Ad bd (regOf Ex.pCV.reg)).dense = .ok d →
        Svd.Unambiguous (Gso.SqrtField.sqrt : ℝ → ℝ) Svd.wTol Ex.pCV.n (Svd.vget d.W))
    ∧ ∃ a, adjSolve .svd Ex.pCV = .ok a ∧ a.x = #[0, 1/8] ∧ a.defect = 1
      ∧ IsLSSolution Ex.pCV.A Ex.pCV.b Ex.PCV Ex.pCV.S (toVec Ex.pCV.n a.x) (toVec Ex.pCV.m a.r) a.rtr := by
  obtain ⟨a, h, hx, hd⟩ := Ex.pCV_adj_svd Ex.pCV_decompose
  exact ⟨by decide, Ex.pCV_rows, Ex.pCV_weight, List.nodup_singleton 1, Ex.pCV_hun, a, h, hx, hd,
    C01_adj_svd_decompose Ex.pCV (by decide) Ex.pCV_rows Ex.PCV Ex.pCV_weight (List.nodup_singleton 1)
      Ex.pCV_hun a h⟩

/-- `C01_net_svd_decompose`: its hypothesis `hun` is the `unamb` field of the hypothesis `hc` of
    `C01_net_svd_cert`, i.e. strictly weaker (the algebraic fields are now proved) -/
example {K : Type} [Field K] [LinearOrder K] [IsStrictOrderedRing K] [Gso.SqrtField K] (np : NetProblem K)
    (hc : ∀ hh d, prepare np = .ok hh →
      Svd.decompose np.m np.n (Net.dotProblem np hh).dense = .ok d →
      Svd.SvdCert (Gso.SqrtField.sqrt : K → K) Svd.wTol np.m np.n (Net.dotProblem np hh).dense d) :
    ∀ hh d, prepare np = .ok hh →
      Svd.decompose np.m np.n (Net.dotProblem np hh).dense = .ok d →
      Svd.Unambiguous (Gso.SqrtField.sqrt : K → K) Svd.wTol np.n (Svd.vget d.W) :=
  fun hh d hp hd => (hc hh d hp hd).unamb

end examples

end Gama.Props.C01
