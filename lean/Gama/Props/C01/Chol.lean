/-
  C01 for the Cholesky solver (`AdjCholDec`, model `Gama/Model/Ls/Chol.lean`): the answers of the
  model are a least-squares solution of `(A, b, 1)` in the sense of `Gama.LS.IsLSSolution`
  (v = A x − b, Aᵀ v = 0, rtr = vᵀ v, x ⟂_S ker A); minimality of vᵀv and of the S-norm follow by
  `Props/C01/Spec.lean`.  Scalars: any linearly ordered field; the `Scalar` operations of the
  model are the field's (`scalarOfField`), `sqrt` is a parameter (`SqrtFn`) constrained only by
  `LawfulSqrt` where it is used.  Proofs: `Gama/Lemmas/Ls/Chol*.lean`.
-/
import Gama.Lemmas.Ls.CholIsLS
import Gama.Lemmas.Ls.CholExample
namespace Gama.Props.C01
open Gama Gama.Ls Gama.LS Matrix

set_option linter.unusedSectionVars false

variable {K : Type} [Field K] [LinearOrder K] [IsStrictOrderedRing K] [SqrtFn K]
attribute [local instance 2000] scalarOfField

/-- regular case (every pivot of the pivoted `L D Lᵀ` factorisation of `AᵀA` is accepted, i.e. the
    model reports defect 0): `x, r, rtr` form a least-squares solution of `(A, b, 1)` for ANY
    regularisation subset, and the reported defect is the true one (`ker A = 0`).  No hypothesis
    on the size of the pivots is needed here: a pivot above the tolerance is in particular ≠ 0. -/
theorem C01_cholesky_regular (p : Problem K) (a : Answer K) (h : cholSolve p = .ok a)
    (hd : a.defect = 0) :
    IsLSSolution p.A p.b 1 p.S (toVec p.n a.x) (toVec p.m a.r) a.rtr
      ∧ ∀ g, p.A *ᵥ g = 0 → g = 0 := by
  refine ⟨cholSolve_regular_isLS p a h hd, ?_⟩
  unfold cholSolve at h
  cases hs : Chol.solve p with
  | error e => rw [hs] at h; simp [Except.map] at h
  | ok s =>
    rw [hs] at h
    have ha : a = s.answer := (Except.ok.inj h).symm
    subst ha
    exact cholFact_regular_ker p (solve_regular_shape p s hs hd).1

/-- non-vacuity: the 3×2 problem `A = [[1,0],[1,1],[0,2]]`, `b = (1,2,3)` over ℚ is solved with
    defect 0, `x = (7/9, 13/9)`, `vᵀv = 1/9` (kernel evaluation of the model) -/
example : ∃ a, cholSolve Ex.pReg = .ok a ∧ a.defect = 0 ∧ a.x = #[7/9, 13/9] ∧ a.rtr = 1/9 := by
  have h : (cholSolve Ex.pReg).toOption.map (fun a => (a.defect, a.x, a.rtr))
      = some (0, #[7/9, 13/9], 1/9) := by decide +kernel
  obtain ⟨a, h1, h2⟩ := Ex.ok_of_toOption h
  simp only [Prod.mk.injEq] at h2
  exact ⟨a, h1, h2.1, h2.2.1, h2.2.2⟩

end Gama.Props.C01
