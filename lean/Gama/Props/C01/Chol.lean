/-
  C01 for the Cholesky solver (`AdjCholDec`, model `Gama/Model/Ls/Chol.lean`): the answers of the
  model are a least-squares solution of `(A, b, 1)` in the sense of `Gama.LS.IsLSSolution`
  (v = A x − b, Aᵀ v = 0, rtr = vᵀ v, x ⟂_S ker A); minimality of vᵀv and of the S-norm follow by
  `Props/C01/Spec.lean`.  Scalars: any linearly ordered field; the `Scalar` operations of the
  model are the field's (`scalarOfField`), `sqrt` is a parameter (`SqrtFn`) constrained only by
  `LawfulSqrt` where it is used.  Proofs: `Gama/Lemmas/Ls/Chol*.lean`.
-/
import Gama.Lemmas.Ls.CholSingular
import Gama.Lemmas.Ls.CholExample
namespace Gama.Props.C01
open Gama Gama.Ls Gama.LS Gama.Ls.Chol Matrix

set_option linter.unusedSectionVars false

variable {K : Type} [Field K] [LinearOrder K] [IsStrictOrderedRing K] [SqrtFn K]
attribute [local instance 2000] scalarOfField

/-- regular case (every pivot of the pivoted `L D Lᵀ` factorisation of `AᵀA` is accepted, i.e. the
    model reports defect 0): `x, r, rtr` form a least-squares solution of `(A, b, 1)` for ANY
    regularisation subset, and the reported defect is the true one (`ker A = 0`).  No hypothesis
    on the size of the pivots is needed here: a pivot above the tolerance is in particular ≠ 0. -/
theorem C01_cholesky_regular (p : Problem K) (a : Answer K) (h : cholSolve p = .ok a)
    (hd : a.defect = 0) :
    IsLSSolution p.A p.b 1 p.S (toVec p.n a.x) (toVec p.m a.r) a.rtr
      ∧ ∀ g, p.A *ᵥ g = 0 → g = 0 := by
  refine ⟨cholSolve_regular_isLS p a h hd, ?_⟩
  unfold cholSolve at h
  cases hs : Chol.solve p with
  | error e => rw [hs] at h; simp [Except.map] at h
  | ok s =>
    rw [hs] at h
    have ha : a = s.answer := (Except.ok.inj h).symm
    subst ha
    exact cholFact_regular_ker p (solve_regular_shape p s hs hd).1

/-- non-vacuity: the 3×2 problem `A = [[1,0],[1,1],[0,2]]`, `b = (1,2,3)` over ℚ is solved with
    defect 0, `x = (7/9, 13/9)`, `vᵀv = 1/9` (kernel evaluation of the model) -/
example : ∃ a, cholSolve Ex.pReg = .ok a ∧ a.defect = 0 ∧ a.x = #[7/9, 13/9] ∧ a.rtr = 1/9 := by
  have h : (cholSolve Ex.pReg).toOption.map (fun a => (a.defect, a.x, a.rtr))
      = some (0, #[7/9, 13/9], 1/9) := by decide +kernel
  obtain ⟨a, h1, h2⟩ := Ex.ok_of_toOption h
  simp only [Prod.mk.injEq] at h2
  exact ⟨a, h1, h2.1, h2.2.1, h2.2.2⟩

/-- **general case** (any defect).  Hypotheses — the property's "rank numerically unambiguous" for
    this algorithm and what the code needs of `sqrt`:
    * `UnambiguousF (cholFact p)`: the pivot the Cholesky stage rejects (`≤ s_tol`) is exactly 0;
    * `GsSqrtExact p`: `sqrt` is exact on the pivots the Gram–Schmidt stage normalises with
      (implied by `LawfulSqrt`, see `C01_cholesky_sqrt_of_lawful`);
    * the regularisation list has no duplicate index (`dot` runs over the LIST; with a duplicate the
      code minimises a differently weighted norm).
    Then `x, r, rtr` are a least-squares solution of `(A, b, 1)` with `x ⟂_S ker A`, i.e. `x` has the
    smallest `Σ_{i∈S} x_i²` among all minimisers (`C01_spec_min_norm`).  The proof goes through:
    the Schur complement of a Gram matrix with largest diagonal 0 is 0 (positivity), so
    `nullity = n − rank A` and `N = L D Lᵀ` over the accepted pivots; the columns of `G` are a basis of
    `ker A`; modified Gram–Schmidt over the rows in `S` keeps them a basis, makes them S-orthonormal
    and `x = x0 − Σ (x0·g)_S g` S-orthogonal to all of them. -/
theorem C01_cholesky_singular (p : Problem K) (hU : UnambiguousF (cholFact p)) (hsq : GsSqrtExact p)
    (hnd : ∀ S, regList p.n p.reg = some S → S.Nodup) (a : Answer K) (h : cholSolve p = .ok a) :
    IsLSSolution p.A p.b 1 p.S (toVec p.n a.x) (toVec p.m a.r) a.rtr :=
  cholSolve_isLS p hU hsq hnd a h

/-- the lawful square root of DESIGN §3.1 gives `GsSqrtExact` for every problem -/
theorem C01_cholesky_sqrt_of_lawful [LawfulSqrt K] (p : Problem K) : GsSqrtExact p :=
  GsSqrtExact.of_lawful p

/-- with "none"/"all" configured the list is `1..n`: no duplicates -/
theorem C01_cholesky_nodup_all (p : Problem K) (hr : p.reg = .none ∨ p.reg = .all) :
    ∀ S, regList p.n p.reg = some S → S.Nodup := by
  intro S hS
  rcases hr with hr | hr
  · rw [hr] at hS; simp only [regList, Option.some.injEq] at hS; subst hS; exact List.nodup_range
  · rw [hr] at hS; simp only [regList, Option.some.injEq] at hS; subst hS; exact List.nodup_range

/-- **refusal** (C02): under `Unambiguous` for both stages (`GsUnamb`: every S-norm² the
    Gram–Schmidt loop tests is 0 or ≥ `s_tol`) the model answers only if `S` resolves the defect, and
    when it throws, it throws `BadRegularization` and `S` does NOT resolve the defect (the only
    other error of the model is its own `NotModelled` for an index outside `1..n` in the list) -/
theorem C02_refusal_chol (p : Problem K) (hU : UnambiguousF (cholFact p)) (hsq : GsSqrtExact p)
    (hun : GsUnamb p) :
    (∀ a, cholSolve p = .ok a → Resolves p.A p.S) ∧
    (∀ e, cholSolve p = .error e →
      (e = .BadRegularization ∧ ¬ Resolves p.A p.S) ∨ (e = .NotModelled ∧ regList p.n p.reg = none)) :=
  chol_refusal p hU hsq hun

/-- non-vacuity (singular, all unknowns regularised): the 4-point levelling loop, defect 1; the
    rejected pivot is exactly 0, the Gram–Schmidt pivot is 4 with `sqrt 4 = 2` exact; the model
    returns the minimum-norm solution `x = (−13/8, −7/8, 7/8, 13/8)` (`Σ x = 0`), `vᵀv = 1/4` -/
example : UnambiguousF (cholFact (Ex.pSing4 .none)) ∧ GsSqrtExact (Ex.pSing4 .none) ∧ GsUnamb (Ex.pSing4 .none)
    ∧ (∀ S, regList (Ex.pSing4 .none).n (Ex.pSing4 .none).reg = some S → S.Nodup)
    ∧ ∃ a, cholSolve (Ex.pSing4 .none) = .ok a ∧ a.defect = 1
        ∧ a.x = #[-13/8, -7/8, 7/8, 13/8] ∧ a.rtr = 1/4 := by
  have hr : (cholFact (Ex.pSing4 .none)).rej = some 0 := by decide +kernel
  have hS : ∀ S, regList (Ex.pSing4 .none).n (Ex.pSing4 .none).reg = some S → S = List.range 4 := by
    intro S h
    have : regList (Ex.pSing4 .none).n (Ex.pSing4 .none).reg = some (List.range 4) := rfl
    rw [this] at h
    exact (Option.some.inj h).symm
  have hb := gsOKb_spec (K := ℚ) (Ex.pSing4 .none).n (cholFact (Ex.pSing4 .none)).nullity (List.range 4)
    (cholFact (Ex.pSing4 .none)).nullity 0 _ _ (by decide +kernel :
      gsOKb (Ex.pSing4 .none).n (cholFact (Ex.pSing4 .none)).nullity (List.range 4)
        (cholFact (Ex.pSing4 .none)).nullity 0 (Dn.pmk ((cholFact (Ex.pSing4 .none)).nullity + 1) id)
        (gInit (Ex.pSing4 .none).n ((Ex.pSing4 .none).n - (cholFact (Ex.pSing4 .none)).nullity)
          (cholFact (Ex.pSing4 .none)).nullity (cholFact (Ex.pSing4 .none)).perm (cholFact (Ex.pSing4 .none)).mat
          (solveX0 (Ex.pSing4 .none).n ((Ex.pSing4 .none).n - (cholFact (Ex.pSing4 .none)).nullity)
            (cholFact (Ex.pSing4 .none)).perm (cholFact (Ex.pSing4 .none)).mat
            (normalRhs (Ex.pSing4 .none).m (Ex.pSing4 .none).n (Ex.pSing4 .none).dense (Ex.pSing4 .none).rhs))) = true)
  refine ⟨?_, ?_, ?_, ?_, ?_⟩
  · intro t ht; rw [hr] at ht; left; exact (Option.some.inj ht).symm
  · intro S h; rw [hS S h]; exact hb.1
  · intro S h; rw [hS S h]; exact hb.2
  · intro S h; rw [hS S h]; exact List.nodup_range
  · have h : (cholSolve (Ex.pSing4 .none)).toOption.map (fun a => (a.defect, a.x, a.rtr))
        = some (1, #[-13/8, -7/8, 7/8, 13/8], 1/4) := by decide +kernel
    obtain ⟨a, h1, h2⟩ := Ex.ok_of_toOption h
    simp only [Prod.mk.injEq] at h2
    exact ⟨a, h1, h2.1, h2.2.1, h2.2.2⟩

/-- non-vacuity (refusal): the same network with an EMPTY regularisation list — `S = ∅` does not
    resolve the defect — is refused with `BadRegularization` (kernel evaluation) -/
example : (cholSolve (Ex.pSing4 (.subset []))).map (fun _ => ()) = .error .BadRegularization := by
  decide +kernel

end Gama.Props.C01
