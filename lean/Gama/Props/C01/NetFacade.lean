/-
  C01 for the SECOND entry point: class `LocalNetwork` (gama-local; model `Gama/Model/NetFacade.lean`).

  `project_equations()` assembles the design matrix `A` (sparse rows `Asp`), the right-hand side
  `rhs_` and, per cluster, the covariance matrix with the `active()` flags of its observations.
  `prepareProjectEquations()` whitens the dense `A`, `b` cluster by cluster with the Cholesky factor
  of `activeCov()/m0²` (`CovMat::cholDec` + `Adj::choldec`, `Adj::forwardSubstitution` — the band
  kernels of property C10); full solvers get the whitened system, the envelope solver gets the original
  sparse system with the cofactor blocks; `vyrovnani_()` reports `x`, the residuals transformed back
  with the LOWER factor (`r = L̃ v̄`) and `suma_pvv_ = Σ v̄²` (full) or the solver's own (sparse).

  The statements are about the ORIGINAL system: `A`, `b = rhs_` as assembled, the covariance matrix
  `Σ = Sigma np` of the ACTIVE observations (block diagonal; block `k` = principal sub-matrix of
  cluster `k`'s `covariance_matrix` at its active observations, read straight from the input
  buffers), the a priori `m0`, and the weight matrix `P = m0² · Σ⁻¹` (any `Pc` with `Σ·Pc = 1`):
      r = A x − b,   Aᵀ P r = 0,   [pvv] = rᵀ P r,   x ⟂_S ker A  (S = the `min_x_` list),
  hence `rᵀPr` minimal and `x` the minimum-S-norm minimiser (`C01_net_min_norm`).
  Hypotheses: the square-root law; block dimensions adding up to the number of rows and sparse rows
  with distinct in-range columns (what `revision`/the linearisation produce: C14, C05); `m0 ≠ 0`;
  and, per solver, the property's own premise "rank numerically unambiguous" asked of the system the
  solver is actually given.  Positive definiteness of the clusters is NOT assumed: a cluster the code
  does not reject is all that is used (and a rejected one throws, `C01_net_rejects`).
  Proofs: `Gama/Lemmas/Ls/NetFacade.lean` (per block: C10's `adjCholdec_LLt`, `forwardSubst_spec`,
  `activeCov_submatrix`; assembly: `Env.lgG_*`; whitening: LS4 `of_whitened`).
-/
import Gama.Lemmas.Ls.NetFacade
import Gama.Lemmas.Ls.NetFacadeExample
import Gama.Props.C01.Adj
import Gama.Props.C01.AdjSolvers
import Gama.Props.C01.EnvSolve
namespace Gama.Props.C01
open Gama Gama.Ls Gama.Ls.Net Gama.LS Gama.Ls.AdjM Matrix

set_option linter.unusedSectionVars false

section sqrtFn
variable {K : Type} [Field K] [LinearOrder K] [IsStrictOrderedRing K] [SqrtFn K]
attribute [local instance 2000] scalarOfField

/-- the cofactor matrix `LocalNetwork` works with is `Σ / m0²`: `activeCov()` takes the principal
    sub-matrix of the cluster covariance at the active observations (an excluded observation inside a
    correlated cluster drops its row AND column), `C /= m0*m0` scales every element -/
theorem C01_net_cofactor (np : NetProblem K) (hdim : (dimsN np).sum = np.m) :
    (toProblem np).C = (1 / (np.m0 * np.m0)) • Sigma np :=
  cofactor_matrix np hdim

/-- the block dimensions: `N = cluster->activeObs()` (the loop bounds of `prepareProjectEquations`)
    is the dimension of `activeCov()` — every gama-local observation has `dimension() = 1` -/
theorem C01_net_block_dims (np : NetProblem K) : dimsN np = (activeClusters np).map (·.nAct) := dimsN_eq np

/-- **`prepareProjectEquations()` whitens**: the dense system left in the base class is `(W A, W b)`
    with `WᵀW = m0²·Σ⁻¹`, `W` injective -/
theorem C01_net_prepare (hsq : IsSqrt (SqrtFn.sq : K → K)) (np : NetProblem K)
    (hdim : (dimsN np).sum = np.m) (hrows : RowsOK (toProblem np)) (hm0 : np.m0 ≠ 0)
    (Pc : Matrix (Fin (toProblem np).m) (Fin (toProblem np).m) K) (hPc : Sigma np * Pc = 1)
    (hh : Hom K) (hp : prepare np = .ok hh) :
    ∃ W : Matrix (Fin (toProblem np).m) (Fin (toProblem np).m) K,
      Wᵀ * W = (np.m0 * np.m0) • Pc ∧ (∀ d, W *ᵥ d = 0 → d = 0) ∧
      toMatrix (toProblem np).m (toProblem np).n hh.Ad = W * (toProblem np).A ∧
      toVec (toProblem np).m hh.bd = W *ᵥ (toProblem np).b := by
  have hP := weight_of_sigma np hdim hm0 Pc hPc
  have hdim' : (dimsOf (toProblem np)).sum = (toProblem np).m := by rw [dimsOf_toProblem]; exact hdim
  obtain ⟨hF, _, _⟩ := prepare_ok np hh hp
  have hC : Lgen np hh.Us * (Lgen np hh.Us)ᵀ = (toProblem np).C := by
    rw [← Cadj_eq_C (toProblem np) hdim']; exact Lgen_mul_transpose hsq np hdim hh.Us hF
  obtain ⟨hLA, hLb⟩ := prepare_solve hsq np hdim hh hp
  rw [denseA_eq np hrows] at hLA
  have h1 : Lgen np hh.Us * ((Lgen np hh.Us)ᵀ * ((np.m0 * np.m0) • Pc)) = 1 := by
    rw [← Matrix.mul_assoc, hC, hP]
  have h2 := mul_eq_one_comm.1 h1
  refine ⟨(Lgen np hh.Us)ᵀ * ((np.m0 * np.m0) • Pc), whiten_of_chol hC.symm h2 hP, ?_, ?_, ?_⟩
  · intro d hd
    have : Lgen np hh.Us *ᵥ (((Lgen np hh.Us)ᵀ * ((np.m0 * np.m0) • Pc)) *ᵥ d) = d := by
      rw [mulVec_mulVec, h1, one_mulVec]
    rw [← this, hd, mulVec_zero]
  · rw [← hLA, ← Matrix.mul_assoc, h2, Matrix.one_mul]
  · rw [← hLb, mulVec_mulVec, h2, one_mulVec]

/-- **C01 through `LocalNetwork`, full solvers (gso, svd, cholesky)**: if the solver returns a
    least-squares solution of the whitened unit-weight system it is given, then `solve()`,
    `residuals()`, `trans_VWV()` satisfy, for the ORIGINAL system with `P = m0²·Σ⁻¹`:
    `r = A x − b` (original units), `AᵀP r = 0`, `[pvv] = rᵀP r`, `x ⟂_S ker A` -/
theorem C01_net_facade (hsq : IsSqrt (SqrtFn.sq : K → K)) (alg : Alg) (halg : alg ≠ .env) (np : NetProblem K)
    (hdim : (dimsN np).sum = np.m) (hrows : RowsOK (toProblem np)) (hm0 : np.m0 ≠ 0)
    (Pc : Matrix (Fin (toProblem np).m) (Fin (toProblem np).m) K) (hPc : Sigma np * Pc = 1)
    (hsol : ∀ hh s, prepare np = .ok hh → solverOf alg (Net.dotProblem np hh) = .ok s →
      IsLSSolution (Net.dotProblem np hh).A (Net.dotProblem np hh).b 1 (Net.dotProblem np hh).S
        (toVec np.n s.x) (toVec np.m s.r) s.rtr)
    (a : NetAnswer K) (h : netSolve alg np = .ok a) :
    IsLSSolution (toProblem np).A (toProblem np).b ((np.m0 * np.m0) • Pc) (toProblem np).S
      (toVec (toProblem np).n a.x) (toVec (toProblem np).m a.r) a.pvv := by
  have h' : netFull alg np = .ok a := by
    cases alg with
    | env => exact absurd rfl halg
    | chol => exact h
    | gso => exact h
    | svd => exact h
  exact netFull_isLS hsq alg np hdim hrows _ (weight_of_sigma np hdim hm0 Pc hPc) hsol a h'

/-- **`LocalNetwork` + cholesky, end to end** (any defect): the hypotheses of `C01_cholesky_singular`
    are asked of the whitened system the solver is given -/
theorem C01_net_cholesky (hsq : IsSqrt (SqrtFn.sq : K → K)) (np : NetProblem K)
    (hdim : (dimsN np).sum = np.m) (hrows : RowsOK (toProblem np)) (hm0 : np.m0 ≠ 0)
    (Pc : Matrix (Fin (toProblem np).m) (Fin (toProblem np).m) K) (hPc : Sigma np * Pc = 1)
    (hchol : ∀ hh, prepare np = .ok hh →
      Chol.UnambiguousF (cholFact (Net.dotProblem np hh)) ∧ Chol.GsSqrtExact (Net.dotProblem np hh) ∧
      ∀ S, Chol.regList np.n (.subset np.minx) = some S → S.Nodup)
    (a : NetAnswer K) (h : netSolve .chol np = .ok a) :
    IsLSSolution (toProblem np).A (toProblem np).b ((np.m0 * np.m0) • Pc) (toProblem np).S
      (toVec (toProblem np).n a.x) (toVec (toProblem np).m a.r) a.pvv := by
  refine C01_net_facade hsq .chol (by decide) np hdim hrows hm0 Pc hPc ?_ a h
  intro hh s hp hs
  obtain ⟨h1, h2, h3⟩ := hchol hh hp
  exact cholSolve_isLS _ h1 h2 h3 s hs

/-- **`LocalNetwork` + envelope, end to end** (sparse path: the solver gets the original sparse rows,
    `rhs_` and the cofactor blocks, and homogenises itself): `C01_envsolve` on the system handed over -/
theorem C01_net_envelope (hsq : IsSqrt (SqrtFn.sq : K → K)) (np : NetProblem K)
    (hdim : (dimsN np).sum = np.m) (hrows : RowsOK (toProblem np)) (hm0 : np.m0 ≠ 0)
    (Pc : Matrix (Fin (toProblem np).m) (Fin (toProblem np).m) K) (hPc : Sigma np * Pc = 1)
    (hreg : Env.RegListOK (toProblem np)) (hU : Env.SolveUnambiguous (toProblem np))
    (a : NetAnswer K) (h : netSolve .env np = .ok a) :
    IsLSSolution (toProblem np).A (toProblem np).b ((np.m0 * np.m0) • Pc) (toProblem np).S
      (toVec (toProblem np).n a.x) (toVec (toProblem np).m a.r) a.pvv := by
  obtain ⟨hh, s, _, hs, hx, ex, er, epvv, _, _, _⟩ := netSparse_shape np a h
  rw [ex, er, epvv]
  exact envSolve_isLS hsq (toProblem np) (inputOK np hdim hrows) hreg hU _
    (weight_of_sigma np hdim hm0 Pc hPc) s hs hx

/-- hence, for every algorithm: `rᵀPr` is minimal over all `y`, the reported `[pvv]` is that minimum,
    and `x` has the smallest `Σ_{i∈S} x_i²` among all minimisers (`S` = the constrained unknowns) -/
theorem C01_net_min_norm (hsq : IsSqrt (SqrtFn.sq : K → K)) (alg : Alg) (np : NetProblem K)
    (hdim : (dimsN np).sum = np.m) (hm0 : np.m0 ≠ 0)
    (Pc : Matrix (Fin (toProblem np).m) (Fin (toProblem np).m) K) (hPc : Sigma np * Pc = 1)
    (hh : Hom K) (hp : prepare np = .ok hh) (a : NetAnswer K)
    (hls : IsLSSolution (toProblem np).A (toProblem np).b ((np.m0 * np.m0) • Pc) (toProblem np).S
      (toVec (toProblem np).n a.x) (toVec (toProblem np).m a.r) a.pvv) :
    (∀ y, Phi (toProblem np).A (toProblem np).b ((np.m0 * np.m0) • Pc) (toVec (toProblem np).n a.x)
        ≤ Phi (toProblem np).A (toProblem np).b ((np.m0 * np.m0) • Pc) y)
    ∧ a.pvv = Phi (toProblem np).A (toProblem np).b ((np.m0 * np.m0) • Pc) (toVec (toProblem np).n a.x)
    ∧ ∀ y, (∀ z, Phi (toProblem np).A (toProblem np).b ((np.m0 * np.m0) • Pc) y
          ≤ Phi (toProblem np).A (toProblem np).b ((np.m0 * np.m0) • Pc) z) →
        normS (toProblem np).S (toVec (toProblem np).n a.x) ≤ normS (toProblem np).S y := by
  obtain ⟨W, hW, hWinj⟩ := weight_gram hsq np hdim hh hp _ (weight_of_sigma np hdim hm0 Pc hPc)
  exact ⟨hls.minimal (hW ▸ gram_symm W) (hW ▸ gram_psd W), hls.rtr_eq_Phi,
    hls.min_norm_among_minimisers (hW ▸ gram_symm W) (hW ▸ gram_pd W hWinj)⟩

/-- the only way `prepareProjectEquations()` throws: `Adj::choldec` (`CovMat::cholDec`) rejects the
    cofactor block of some cluster (`NonPositiveDefinite`, or `BadRank` for an empty matrix), and then
    every algorithm throws that error -/
theorem C01_net_rejects (np : NetProblem K) (e : ErrKind) (h : prepare np = .error e) :
    (∃ C ∈ cofs np, ∃ e', Cov.adjCholdec C = .error e' ∧ e = errOf e') ∧
    ∀ alg, netSolve alg np = .error e := by
  constructor
  · unfold prepare at h
    cases hF : factors (cofs np) with
    | error e1 =>
      rw [hF] at h
      have : e1 = e := Except.error.inj h
      subst this
      exact factors_error _ _ hF
    | ok Us => rw [hF] at h; cases h
  · intro alg
    cases alg <;> simp [netSolve, netSparse, netFull, h]

end sqrtFn

section sqrtField
variable {K : Type} [Field K] [LinearOrder K] [IsStrictOrderedRing K] [Gso.SqrtField K]
attribute [local instance] sqrtFnOfSqrtField
attribute [local instance 2000] scalarOfField

/-- a true square root satisfies the square-root law -/
theorem C01_net_isSqrt : IsSqrt (SqrtFn.sq : K → K) :=
  ⟨fun x hx => (Gso.SqrtField.sqrt_spec x hx).1, fun x hx => (Gso.SqrtField.sqrt_spec x hx).2⟩

/-- **`LocalNetwork` + gso, end to end** (any defect, any clusters the code accepts) -/
theorem C01_net_gso (np : NetProblem K)
    (hdim : (dimsN np).sum = np.m) (hrows : RowsOK (toProblem np)) (hm0 : np.m0 ≠ 0)
    (Pc : Matrix (Fin (toProblem np).m) (Fin (toProblem np).m) K) (hPc : Sigma np * Pc = 1)
    (hU : ∀ hh, prepare np = .ok hh → Gso.Unambiguous (Net.dotProblem np hh))
    (a : NetAnswer K) (h : netSolve .gso np = .ok a) :
    IsLSSolution (toProblem np).A (toProblem np).b ((np.m0 * np.m0) • Pc) (toProblem np).S
      (toVec (toProblem np).n a.x) (toVec (toProblem np).m a.r) a.pvv := by
  refine C01_net_facade C01_net_isSqrt .gso (by decide) np hdim hrows hm0 Pc hPc ?_ a h
  intro hh s hp hs
  exact C01_gso _ (hU hh hp) s hs

/-- **`LocalNetwork` + svd, end to end modulo the factorisation certificate** -/
theorem C01_net_svd_cert (np : NetProblem K)
    (hdim : (dimsN np).sum = np.m) (hrows : RowsOK (toProblem np)) (hm0 : np.m0 ≠ 0)
    (Pc : Matrix (Fin (toProblem np).m) (Fin (toProblem np).m) K) (hPc : Sigma np * Pc = 1)
    (hreg : np.minx.Nodup)
    (hc : ∀ hh d, prepare np = .ok hh →
      Svd.decompose np.m np.n (Net.dotProblem np hh).dense = .ok d →
      Svd.SvdCert (Gso.SqrtField.sqrt : K → K) Svd.wTol np.m np.n (Net.dotProblem np hh).dense d)
    (a : NetAnswer K) (h : netSolve .svd np = .ok a) :
    IsLSSolution (toProblem np).A (toProblem np).b ((np.m0 * np.m0) • Pc) (toProblem np).S
      (toVec (toProblem np).n a.x) (toVec (toProblem np).m a.r) a.pvv := by
  refine C01_net_facade C01_net_isSqrt .svd (by decide) np hdim hrows hm0 Pc hPc ?_ a h
  intro hh s hp hs
  exact C01_svd_solve_cert (Net.dotProblem np hh) hreg (fun d hd => hc hh d hp hd) s hs

end sqrtField

/-! ### non-vacuity -/

section examples
open Gama.Ls.Ex
attribute [local instance 2000] scalarOfField

/-- `Ex.npQ` (a CORRELATED cluster of three observations, full covariance `[[16,3,8],[3,25,5],[8,5,40]]`,
    whose second observation is EXCLUDED; an all-passive cluster; a single observation of variance 16;
    `m0 = 2`; `A = [[4,4],[5,5],[4,4]]`: defect 1; `min_x_ = [1]`) meets every hypothesis of
    `C01_net_cholesky` / `C01_net_facade` except the global square-root law (ℚ has none; `Ex.sqQ` is
    exact on every value whose root is taken: 4, 9, 1), and the model answers (kernel evaluation):
    cofactor blocks `[[4,2],[2,10]]` (band 1 > 0: the sub-matrix without the excluded row/column,
    divided by `m0² = 4`) and `[4]`; `x = (0, 1/2)`, residuals `(1, 1/2, −1) = A x − b` in original
    units, `[pvv] = 1/2`, defect 1 -/
example : (dimsN npQ).sum = npQ.m ∧ RowsOK (toProblem npQ) ∧ npQ.m0 ≠ 0 ∧ Sigma npQ * PcQ = 1
    ∧ (cofs npQ).map (fun C => (C.dim, C.band, C.buf)) = [(2, 1, #[4, 2, 10]), (1, 0, #[4])]
    ∧ (∀ hh, prepare npQ = .ok hh →
        Chol.UnambiguousF (cholFact (Net.dotProblem npQ hh)) ∧ Chol.GsSqrtExact (Net.dotProblem npQ hh) ∧
        ∀ S, Chol.regList npQ.n (.subset npQ.minx) = some S → S.Nodup)
    ∧ (toProblem npQ).S ≠ Finset.univ
    ∧ ∃ a, netSolve .chol npQ = .ok a ∧ a.defect = 1 ∧ a.x = #[0, 1/2] ∧ a.r = #[1, 1/2, -1] ∧ a.pvv = 1/2 :=
  ⟨npQ_dims, npQ_rows, npQ_m0, npQ_sigma, npQ_cofs, npQ_hchol, by decide, npQ_chol⟩

/-- the same network through the sparse path: hypotheses of `C01_net_envelope` (except the global
    square-root law) and the model's answer — identical `x`, residuals and `[pvv]` -/
example : Env.RegListOK (toProblem npQ) ∧ Env.SolveUnambiguous (toProblem npQ)
    ∧ ∃ a, netSolve .env npQ = .ok a ∧ a.defect = 1 ∧ a.x = #[0, 1/2] ∧ a.r = #[1, 1/2, -1] ∧ a.pvv = 1/2 :=
  ⟨npQ_reg, npQ_unamb.1, npQ_env⟩

/-- the reported residuals of the instance ARE `A x − b` of the original system and satisfy the
    normal equations with `P = m0²·Σ⁻¹` (checked directly on the numbers, no theorem involved):
    `Aᵀ P r = 0` and `rᵀ P r = 1/2` -/
example : (toProblem npQ).Aᵀ *ᵥ (((npQ.m0 * npQ.m0) • PcQ) *ᵥ ![1, 1/2, -1]) = 0
    ∧ ![1, 1/2, -1] ⬝ᵥ (((npQ.m0 * npQ.m0) • PcQ) *ᵥ ![1, 1/2, -1]) = (1/2 : ℚ)
    ∧ ∀ i : Fin 3, ((toProblem npQ).A *ᵥ ![0, 1/2] - (toProblem npQ).b) i = (![1, 1/2, -1] : Fin 3 → ℚ) i := by
  refine ⟨?_, ?_, ?_⟩ <;> decide +kernel

/-- a cluster that is not positive definite is rejected by `prepareProjectEquations()` for every
    algorithm (hypothesis of `C01_net_rejects`) -/
example : prepare npBad = .error .NonPositiveDefinite := (npBad_rejected .gso).2

/-- the square-root law is satisfiable: `Real.sqrt` -/
example : IsSqrt Real.sqrt := ⟨fun _ h => Real.mul_self_sqrt h, fun x _ => Real.sqrt_nonneg x⟩

end examples

end Gama.Props.C01
