/-
  C01 for class `Adj` (the façade gama-g3 uses; model `Gama/Model/Ls/Adj.lean`).

  Full solvers (gso, svd, cholesky): `Adj` hands the solver the homogenised system
  `(L̃⁻¹A, L̃⁻¹b)` — `L̃` the block diagonal Cholesky factor of the covariance matrix computed by
  `CovMat::cholDec` + `Adj::choldec`, applied by `Adj::forwardSubstitution` — and reports the
  solver's `x`, `rtr = v̄ᵀv̄` of the homogenised residuals and `r = A x − b` recomputed from the
  ORIGINAL sparse rows.  Theorem: if the solver's answer is a least-squares solution of the
  homogenised unit-weight problem, the reported triple is a least-squares solution of the original
  weighted problem `(A, b, C⁻¹)`.  Sparse solver (envelope): pure delegation.

  `p.C` is the dense covariance matrix of the specification (`Problem.covDense`, Bridge); it is
  proved equal to the matrix `Cadj p` that `Adj` reads from the `BlockDiagonal` storage (block
  diagonal; each block the symmetric band matrix of its packed upper band rows): `C01_adj_cov`.
  Hypotheses: block dimensions add up to `m` (`AdjInputData` consistency), sparse rows have distinct
  column indices in `1..n`, the square root is exact on the pivots of the band `L D Lᵀ`
  (`SqrtExactP`, implied by `LawfulSqrt`).  Positive definiteness is NOT assumed: a block the code
  does not reject (`pivot > N·ε·max diag` at every step) is all that is used.
  Proofs: `Gama/Lemmas/Ls/Adj*.lean`, LS4 from `Gama/Lemmas/LS/Transform.lean`.
-/
import Gama.Lemmas.Ls.AdjFacade
import Gama.Lemmas.Ls.AdjCov
import Gama.Lemmas.Ls.AdjExample
import Gama.Lemmas.Ls.CholSingular
namespace Gama.Props.C01
open Gama Gama.Ls Gama.LS Gama.Ls.AdjM Matrix

set_option linter.unusedSectionVars false

variable {K : Type} [Field K] [LinearOrder K] [IsStrictOrderedRing K] [SqrtFn K]
attribute [local instance 2000] scalarOfField

/-- full-solver branch of `Adj::init_least_squares` -/
theorem C01_adj_facade (alg : Alg) (halg : alg ≠ .env) (p : Problem K) (hsq : SqrtExactP p)
    (hdim : (dimsOf p).sum = p.m) (hrows : RowsOK p)
    (P : Matrix (Fin p.m) (Fin p.m) K) (hP : p.C * P = 1)
    (hsol : ∀ Ad bd s, homogenise p = .ok (Ad, bd) →
      solverOf alg (dotProblem p Ad bd (regOf p.reg)) = .ok s →
      IsLSSolution (dotProblem p Ad bd (regOf p.reg)).A (dotProblem p Ad bd (regOf p.reg)).b 1
        (dotProblem p Ad bd (regOf p.reg)).S (toVec p.n s.x) (toVec p.m s.r) s.rtr)
    (a : Answer K) (h : adjSolve alg p = .ok a) :
    IsLSSolution p.A p.b P p.S (toVec p.n a.x) (toVec p.m a.r) a.rtr := by
  have h' : adjFull alg p = .ok a := by
    cases alg with
    | env => exact absurd rfl halg
    | chol => exact h
    | gso => exact h
    | svd => exact h
  exact adjFull_isLS alg p hsq hdim hrows P (by rw [Cadj_eq_C p hdim]; exact hP) hsol a h'

/-- the covariance matrix of the specification is the one `Adj` reads block by block -/
theorem C01_adj_cov (p : Problem K) (hdim : (dimsOf p).sum = p.m) : Cadj p = p.C := Cadj_eq_C p hdim

/-- the lawful square root of DESIGN §3.1 gives `SqrtExactP` for every problem -/
theorem C01_adj_sqrt_of_lawful [LawfulSqrt K] (p : Problem K) : SqrtExactP p := SqrtExactP.of_lawful p

/-- end to end for `Adj` + cholesky, regular case: no hypothesis on the solver is left -/
theorem C01_adj_cholesky_regular (p : Problem K) (hsq : SqrtExactP p)
    (hdim : (dimsOf p).sum = p.m) (hrows : RowsOK p)
    (P : Matrix (Fin p.m) (Fin p.m) K) (hP : p.C * P = 1)
    (a : Answer K) (h : adjSolve .chol p = .ok a) (hd : a.defect = 0) :
    IsLSSolution p.A p.b P p.S (toVec p.n a.x) (toVec p.m a.r) a.rtr := by
  have h' : adjFull .chol p = .ok a := h
  -- the solver's defect is the reported one
  unfold adjFull at h'
  simp only [] at h'
  cases hh : homogenise p with
  | error e => rw [hh] at h'; cases h'
  | ok AB =>
    obtain ⟨Ad, bd⟩ := AB
    rw [hh] at h'
    simp only at h'
    cases hs : solverOf .chol (dotProblem p Ad bd (regOf p.reg)) with
    | error e => rw [hs] at h'; cases h'
    | ok s =>
      rw [hs] at h'
      simp only at h'
      cases hx : s.xErr with
      | some e => rw [hx] at h'; cases h'
      | none =>
        rw [hx] at h'
        have ha := (Except.ok.inj h').symm
        have hds : s.defect = 0 := by rw [ha] at hd; exact hd
        refine C01_adj_facade .chol (by decide) p hsq hdim hrows P hP ?_ a h
        intro Ad' bd' s' hh' hs'
        rw [hh] at hh'
        have e := Except.ok.inj hh'
        obtain ⟨e1, e2⟩ := Prod.mk.inj e
        subst e1; subst e2
        rw [hs] at hs'
        have := Except.ok.inj hs'
        subst this
        exact cholSolve_regular_isLS _ s hs hds

/-- end to end for `Adj` + cholesky, any defect: the hypotheses of `C01_cholesky_singular` are asked
    of the homogenised problem the solver is actually given -/
theorem C01_adj_cholesky (p : Problem K) (hsq : SqrtExactP p)
    (hdim : (dimsOf p).sum = p.m) (hrows : RowsOK p)
    (P : Matrix (Fin p.m) (Fin p.m) K) (hP : p.C * P = 1)
    (hchol : ∀ Ad bd, homogenise p = .ok (Ad, bd) →
      Chol.UnambiguousF (cholFact (dotProblem p Ad bd (regOf p.reg))) ∧
      Chol.GsSqrtExact (dotProblem p Ad bd (regOf p.reg)) ∧
      ∀ S, Chol.regList p.n (regOf p.reg) = some S → S.Nodup)
    (a : Answer K) (h : adjSolve .chol p = .ok a) :
    IsLSSolution p.A p.b P p.S (toVec p.n a.x) (toVec p.m a.r) a.rtr := by
  refine C01_adj_facade .chol (by decide) p hsq hdim hrows P hP ?_ a h
  intro Ad bd s hh hs
  obtain ⟨h1, h2, h3⟩ := hchol Ad bd hh
  exact cholSolve_isLS _ h1 h2 h3 s hs

/-- sparse branch (envelope): `Adj` reports the solver's own `x`, `r`, `rtr` of the original problem -/
theorem C01_adj_sparse (p : Problem K) (P : Matrix (Fin p.m) (Fin p.m) K)
    (hsol : ∀ s, solverOf .env { p with reg := regOf p.reg } = .ok s →
      IsLSSolution p.A p.b P p.S (toVec p.n s.x) (toVec p.m s.r) s.rtr)
    (a : Answer K) (h : adjSolve .env p = .ok a) :
    IsLSSolution p.A p.b P p.S (toVec p.n a.x) (toVec p.m a.r) a.rtr := by
  have h' : adjSparse .env p = .ok a := h
  unfold adjSparse at h'
  simp only [] at h'
  cases hs : solverOf .env { p with reg := regOf p.reg } with
  | error e => rw [hs] at h'; cases h'
  | ok s =>
    rw [hs] at h'
    simp only at h'
    cases hx : s.xErr with
    | some e => rw [hx] at h'; cases h'
    | none =>
      rw [hx] at h'
      have ha := (Except.ok.inj h').symm
      subst ha
      exact hsol s hs

/-- non-vacuity: the 3×2 problem of `Lemmas/Ls/AdjExample.lean` with the correlated block
    `[[4,2],[2,10]]` and a third observation of variance 1/4 meets every hypothesis of
    `C01_adj_cholesky_regular`, and the model evaluates to `x = (145/161, 241/161)`,
    `rtr = 4/161` (kernel evaluation) -/
example : SqrtExactP Ex.pCorr ∧ (dimsOf Ex.pCorr).sum = Ex.pCorr.m ∧ RowsOK Ex.pCorr
    ∧ Ex.pCorr.C * Ex.PCorr = 1
    ∧ ∃ a, adjSolve .chol Ex.pCorr = .ok a ∧ a.defect = 0 ∧ a.x = #[145/161, 241/161]
        ∧ a.r = #[-16/161, 64/161, -1/161] ∧ a.rtr = 4/161 := by
  refine ⟨Ex.pCorr_sqrt, by decide, Ex.pCorr_rows,
    by rw [← Cadj_eq_C Ex.pCorr (by decide)]; exact Ex.pCorr_weight, ?_⟩
  · have h : (adjSolve .chol Ex.pCorr).toOption.map (fun a => (a.defect, a.x, a.r, a.rtr))
        = some (0, #[145/161, 241/161], #[-16/161, 64/161, -1/161], 4/161) := by decide +kernel
    obtain ⟨a, h1, h2⟩ := Ex.ok_of_toOption h
    simp only [Prod.mk.injEq] at h2
    exact ⟨a, h1, h2.1, h2.2.1, h2.2.2.1, h2.2.2.2⟩

end Gama.Props.C01
