/-
  C01 (and the refusal clause of C02) for the Gram–Schmidt solver — `AdjGSO` + `ICGS`,
  model `Gama/Model/Ls/Gso.lean`, `Gama/Model/Ls/Gso/Icgs.lean`.

  Scalars: any linearly ordered field with a square root (`Gso.SqrtField`; ℝ is an instance); the
  model runs at `LS.fieldScalar SqrtField.sqrt`, i.e. on the field's own operations.
  Hypothesis `Gso.Unambiguous p`: every norm the run compares with the tolerance (both
  orthogonalisations) is exactly 0 or greater than the tolerance.
  Proofs: `Gama/Lemmas/Ls/Gso*.lean` (Gram–Schmidt invariant library of DESIGN §5.2).

  Refusal (C02): `gsoSolve` models the code since f703dbb (`AdjGSO::solve` throws
  `BadRegularization` when `icgs.error() != 0`).  Historical note (finding F6): before that
  commit `ICGS::error()` was never read and the refusal clause was false — witness
  A = [1 1 0; 0 0 1; 1 1 1], b = (1,2,3), S = {3} (kernel vector (1,−1,0) vanishes on S, gso
  answered x = (1, 2⁻¹⁰³, 2)), kept as regression input corpus/C02/F6-gso-nonresolving-1.txt;
  `Ex.pW_not_resolves` (Lemmas/Ls/GsoExample.lean) is the Lean side of that witness.
-/
import Gama.Lemmas.Ls.GsoRefuse
import Gama.Lemmas.Ls.GsoExample
import Gama.Lemmas.Ls.GsoReal
import Gama.Lemmas.Ls.GsoGapExample
import Gama.Lemmas.LS
namespace Gama.Props.C01
open Gama Gama.Ls Gama.LS Gama.Ls.Gso Matrix

set_option linter.unusedSectionVars false

variable {K : Type} [Field K] [LinearOrder K] [IsStrictOrderedRing K] [SqrtField K]

/-- the answers of the Gram–Schmidt solver are a least-squares solution of `(A, b, 1)` regularised
    over `S`: v = A x − b, Aᵀ v = 0, rtr = vᵀ v, x ⟂_S ker A — for every defect and every subset
    (resolving or not) -/
theorem C01_gso (p : Problem K) (hU : Unambiguous p) (a : Answer K) (h : gsoSolve p = .ok a) :
    IsLSSolution p.A p.b 1 p.S (toVec p.n a.x) (toVec p.m a.r) a.rtr :=
  gsoSolveWith_isLS p hU h

/-- the property in full: residuals, normal equations, minimal vᵀv, reported sum of squares,
    minimal S-norm among all minimisers, defect = n − rank A -/
theorem C01_gso_minimal (p : Problem K) (hU : Unambiguous p) (a : Answer K)
    (h : gsoSolve p = .ok a) :
    toVec p.m a.r = p.A *ᵥ toVec p.n a.x - p.b
      ∧ (p.A)ᵀ *ᵥ toVec p.m a.r = 0
      ∧ a.rtr = toVec p.m a.r ⬝ᵥ toVec p.m a.r
      ∧ (∀ y, Phi p.A p.b 1 (toVec p.n a.x) ≤ Phi p.A p.b 1 y)
      ∧ (∀ y, (p.A)ᵀ *ᵥ ((1 : Matrix (Fin p.m) (Fin p.m) K) *ᵥ (p.A *ᵥ y - p.b)) = 0 →
            normS p.S (toVec p.n a.x) ≤ normS p.S y)
      ∧ a.defect + p.A.rank = p.n := by
  have hs := C01_gso p hU a h
  refine ⟨hs.res, ?_, ?_, hs.minimal one_symm one_psd, hs.min_norm one_pd, (gso_count p hU h).2⟩
  · simpa using hs.normal
  · simpa using hs.rtr_eq

/-- uniqueness (C02 premise): for a subset that resolves the defect any other least-squares
    solution (e.g. another algorithm's answer) coincides with the Gram–Schmidt answer -/
theorem C01_gso_unique (p : Problem K) (hU : Unambiguous p) (a : Answer K)
    (h : gsoSolve p = .ok a) (hS : Resolves p.A p.S) {x' : Fin p.n → K} {v' : Fin p.m → K} {rtr' : K}
    (h' : IsLSSolution p.A p.b 1 p.S x' v' rtr') :
    toVec p.n a.x = x' ∧ toVec p.m a.r = v' ∧ a.rtr = rtr' :=
  (C01_gso p hU a h).unique h' one_pd hS

/-- non-vacuity: over ℝ the singular 2×2 problem A = [1 1; 0 0], b = (1,1), S = {1} runs
    unambiguously (tested norms 1, 0, 1), is answered with x = (0,1), v = (0,−1), defect 1 -/
example : Unambiguous Ex.pR ∧ ∃ a, gsoSolve Ex.pR = .ok a ∧ a.x = #[0, 1] ∧ a.r = #[0, -1]
    ∧ a.defect = 1 := by
  obtain ⟨a, h2, h3, h4, h5, _⟩ := Ex.pR_answers
  exact ⟨Ex.pR_unambiguous, a, h2, h3, h4, h5⟩

/-- DESIGN (B): the same conclusion with "rank numerically unambiguous" stated on exact quantities
    of the problem for the first orthogonalisation — `GapCols p`: every unnormalised Gram–Schmidt
    vector of the columns of A (the residual of column k after projection on columns 1..k−1) has
    norm 0 or > tolerance — instead of on the model's trace.  The norms of the SECOND
    orthogonalisation (`tested.drop n`; none when the defect is 0, see
    `Gso.gso_unambiguous_of_gap_regular`) are still constrained on the trace.
    FULL (B) NOT PROVED: the exact counterpart for the second orthogonalisation would be
    "for every flagged J, the kernel vector g with g_J = 1, g_i = 0 (i > J), S-orthogonal to all
    kernel vectors supported below J, has S-norm 0 or > tolerance". -/
theorem C01_gso_of_gap_partial (p : Problem K) (hG : GapCols p)
    (h2 : ∀ r ∈ (runOf p).tested.drop p.n, r = 0 ∨ (tolerance : K) < r)
    (a : Answer K) (h : gsoSolve p = .ok a) :
    IsLSSolution p.A p.b 1 p.S (toVec p.n a.x) (toVec p.m a.r) a.rtr :=
  C01_gso p (gso_unambiguous_of_gap p hG h2) a h

/-- non-vacuity: `Ex.pR` satisfies the gap hypothesis (Gram–Schmidt vectors (1,0) and 0) and its
    single second-phase norm is 1 -/
example : GapCols Ex.pR ∧ (∀ r ∈ (runOf Ex.pR).tested.drop Ex.pR.n, r = 0 ∨ (tolerance : ℝ) < r) := by
  refine ⟨Ex.pR_gap, ?_⟩
  rw [Ex.pR_tested]
  intro r hr
  have : r = 1 := by simpa [Ex.pR] using hr
  rw [this]; exact Or.inr Ex.tol_lt_one

-- ------------------------------------------------------------------ refusal clause of C02

/-- `BadRegularization` is thrown exactly when the second orthogonalisation met a zero pivot
    (`error_icgs2_defect ≠ 0`); never on a regular system -/
theorem C02_refusal_gso_counter (p : Problem K) (hreg : regInRange p.n p.reg = true) :
    (gsoSolve p = .error .BadRegularization ↔ (runOf p).err ≠ 0)
      ∧ ((runOf p).dep = [] → gsoSolve p ≠ .error .BadRegularization) := by
  refine ⟨?_, ?_⟩
  · by_cases he : (runOf p).err = 0 <;> simp [gsoSolve, gsoSolveWith, hreg, he]
  · intro hd
    have he : (runOf p).err = 0 := by
      rw [runOf_eq]; unfold icgs2
      rw [runOf_eq] at hd
      have : (stage1 p).dep = [] := by
        unfold icgs2 at hd
        split at hd
        · exact hd
        · exact hd
      simp [this]
    simp [gsoSolve, gsoSolveWith, hreg, he]

/-- **refusal clause of C02**: the solver throws `BadRegularization` exactly when the
    regularisation subset does not resolve the defect (in particular "if the input cannot be
    adjusted, no adjustment is reported", and a well-posed input is never refused) -/
theorem C02_refusal_gso (p : Problem K) (hU : Unambiguous p) (hreg : regInRange p.n p.reg = true) :
    gsoSolve p = .error .BadRegularization ↔ ¬ Resolves p.A p.S := by
  rw [(C02_refusal_gso_counter p hreg).1]
  exact ⟨gso_not_resolves_of_err p hU, fun hS he => hS (gso_resolves_of_err_zero p hU he)⟩

/-- equivalently: whenever the solver answers, the subset resolves the defect, and the answer is
    the unique regularised least-squares solution -/
theorem C02_gso_answers_only_resolving (p : Problem K) (hU : Unambiguous p)
    (hreg : regInRange p.n p.reg = true) (a : Answer K) (h : gsoSolve p = .ok a) :
    Resolves p.A p.S := by
  by_contra hS
  rw [(C02_refusal_gso p hU hreg).2 hS] at h
  exact absurd h (by simp)

/-- non-vacuity: `Ex.pR` (S = {1} resolves its defect) is answered, not refused -/
example : regInRange Ex.pR.n Ex.pR.reg = true ∧ ∃ a, gsoSolve Ex.pR = .ok a ∧ a.x = #[0, 1] := by
  refine ⟨by decide, ?_⟩
  obtain ⟨a, h2, h3, _⟩ := Ex.pR_answers
  exact ⟨a, h2, h3⟩

/-- non-vacuity of the refusing side: over ℝ, A = [1 1 0; 0 0 1], S = {3} runs unambiguously
    (tested norms 1, 0, 1, 0), is refused, and indeed S does not resolve its defect -/
example : Unambiguous Ex.pT ∧ regInRange Ex.pT.n Ex.pT.reg = true
    ∧ gsoSolve Ex.pT = .error .BadRegularization ∧ ¬ Resolves Ex.pT.A Ex.pT.S :=
  ⟨Ex.pT_unambiguous, by decide, Ex.pT_refused,
   (C02_refusal_gso Ex.pT Ex.pT_unambiguous (by decide)).1 Ex.pT_refused⟩

end Gama.Props.C01
