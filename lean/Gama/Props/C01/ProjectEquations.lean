/-
  `LocalNetwork::project_equations()` as ONE function (`Gama/Model/ProjectEquations.lean`,
  `PE.projectEquations : Net → Except Err (NetProblem × Unknowns)`, executed by `drv_pe`), and what it
  guarantees to the consumers that so far took these facts as hypotheses:

    C01 `NetFacade`   `RowsOK (toProblem np)`, `(dimsN np).sum = np.m`   → `C01_pe_rows_in_range`, `C01_pe_rowsOK`,
                                                                          `C01_pe_hdim`, `C01_pe_cluster_ranges_partition`
    C01 / C08         `np.minx` Nodup, within `1..n`, = the constrained coordinates → `C01_pe_minx`
    C20 worlds        `PEWF pe`                                         → `C20_pe_wf`
    C12 / C03         `hori` (orientation unknown `i` has `index_orientation() = i`) → `C01_pe_unknowns`, `C12_pe_hori`
    C07 / C12         the orientation unknown is not in the regularisation set → `C07_pe_ori_not_regularised`,
                      in C07's own form `colOf … ∉ S`                              → `C07_pe_ori_not_regularised_colOf`
    memory safety     every element of `unknowns_` is written, by ONE claimant    → `C01_pe_unknowns_total`
                      (the invariant behind the heap-buffer-overflow fixed by /repo 3fb8708)

  and the hypotheses discharged where they are used: `C01_net_facade_of_project_equations`,
  `C01_net_cholesky_of_project_equations`, `C20_world_of_project_equations`,
  `C12_original_index_of_project_equations`.

  All statements hold for EVERY network and EVERY carrier `[TrigScalar K]` (the coefficients do not matter),
  for the call however deep the recursion through `singular_coords` went: they are about the last inner
  call, run on `u.net` (the network as the call leaves it).
  `RowsOK` asked for distinct columns in a sparse row until round 11: FALSE for an observation two of whose roles
  name one point (`dh` from a point to itself, an angle with `bs = fs`), hence the former hypothesis `NoAlias`.  Since
  rounds 11/12 `RowsOK` is the range condition only (repeated column indices add up in `Problem.dense` as in every C++
  consumer), `C01_pe_rowsOK` holds for every network, and NO theorem of this file has a hypothesis beyond the call.
-/
import Gama.Lemmas.ProjectEquationsExample
import Gama.Lemmas.ProjectEquationsOri
import Gama.Lemmas.ProjectEquationsTotal
import Gama.Lemmas.AssemblyAgree
import Gama.Lemmas.ProjectEquationsGlue
import Gama.Props.C01.NetFacade
import Gama.Props.C20.World
import Gama.Props.C12
namespace Gama.Props.C01
open Gama Gama.Lin Gama.PE Gama.NetDecision

section general
variable {K : Type} [TrigScalar K]

/-- **rows of the assembled system**: as many sparse rows and right-hand sides as `pocmer_`, and every column
    index a row holds lies in `1..pocet_neznamych_` (so `A(row, index)` is inside the dense matrix) -/
theorem C01_pe_rows_in_range (net : PE.Net K) (np : Ls.Net.NetProblem K) (u : Unknowns K)
    (h : projectEquations net = .ok (np, u)) :
    np.rows.size = np.m ∧ np.rhs.size = np.m ∧ u.n = np.n ∧
    ∀ i, i < np.m → ∀ cv ∈ (np.rows.getD i #[]).toList, 1 ≤ cv.1 ∧ cv.1 ≤ np.n := by
  obtain ⟨net', a, F⟩ := pe_final net np u h
  obtain ⟨b, Fr⟩ := assemble_fresh net' a F.asm
  rw [F.np_eq, F.u_n]
  simp only []
  refine ⟨by rw [Fr.rows, Fr.m]; simp [Fr.ok.nrows], by rw [Fr.rhs, Fr.m]; simp [Fr.ok.nrhs], (by first | rfl | trivial), ?_⟩
  intro i hi cv hcv
  rw [Fr.rows, Fr.n] at *
  rw [Fr.m, ← Fr.ok.nrows] at hi
  have : ((b.rows.map List.toArray).toArray.getD i #[]).toList = b.rows[i] := by simp [hi]
  rw [this] at hcv
  exact Fr.ok.range _ (List.getElem_mem hi) cv hcv

/-- the class and the roles of every observation of every cluster are what the input had -/
theorem C01_pe_same_observations (net : PE.Net K) (np : Ls.Net.NetProblem K) (u : Unknowns K)
    (h : projectEquations net = .ok (np, u)) : obsShape u.net = obsShape net := by
  obtain ⟨net', a, F⟩ := pe_final net np u h
  rw [F.u_net]; exact F.below.shape

/-- **`RowsOK`** (the hypothesis of every `C01_net_*` theorem; since round 11 the RANGE condition only: column indices of
    every sparse row inside `1..n`) holds for the output of `project_equations()` for EVERY network.  Until round 11 it
    also said "distinct columns" and needed `NoAlias` (no revised observation names one point in two roles); repeated
    column indices now add up in every consumer of a sparse row (`Problem.dense`), in the model as in the C++ -/
theorem C01_pe_rowsOK (net : PE.Net K) (np : Ls.Net.NetProblem K) (u : Unknowns K)
    (h : projectEquations net = .ok (np, u)) : Ls.RowsOK (Ls.Net.toProblem np) := by
  obtain ⟨_, _, _, hr⟩ := C01_pe_rows_in_range net np u h
  exact fun i hi => hr i hi

/-- the name under which round 11 introduced the `NoAlias`-free form (now the same statement as `C01_pe_rowsOK`) -/
theorem C01_pe_rowsOK_aliased (net : PE.Net K) (np : Ls.Net.NetProblem K) (u : Unknowns K)
    (h : projectEquations net = .ok (np, u)) : Ls.RowsOK (Ls.Net.toProblem np) := C01_pe_rowsOK net np u h

/-- **clusters partition the rows** (`hdim` of the `C01_net_*` theorems, instance-free form): the numbers
    `activeObs()` of the clusters that have active observations add up to `pocmer_` -/
theorem C01_pe_hdim (net : PE.Net K) (np : Ls.Net.NetProblem K) (u : Unknowns K)
    (h : projectEquations net = .ok (np, u)) : ((Ls.Net.activeClusters np).map (·.nAct)).sum = np.m := by
  obtain ⟨net', a, F⟩ := pe_final net np u h
  obtain ⟨b, Fr⟩ := assemble_fresh net' a F.asm
  rw [F.np_eq]
  show (((a.np.clusters.filter fun c => c.nAct != 0)).map (·.nAct)).sum = a.np.m
  rw [sum_active, Fr.clusters, Fr.m]
  exact (revisedFrom_length _ 0).symm

/-- **the cluster row ranges** `(ind_0, N)` of `prepareProjectEquations()` / of the block-diagonal hand-over
    are consecutive, cover exactly the rows `0..m-1` in order, and `N = activeObs()` -/
theorem C01_pe_cluster_ranges_partition (net : PE.Net K) (np : Ls.Net.NetProblem K) (u : Unknowns K)
    (h : projectEquations net = .ok (np, u)) :
    (rowRanges np).flatMap (fun r => List.range' r.1 r.2) = List.range np.m ∧
    (rowRanges np).map (·.2) = (Ls.Net.activeClusters np).map (·.nAct) := by
  refine ⟨?_, ranges_dims _ 0⟩
  rw [rowRanges, ranges_partition, List.range_eq_range', ← C01_pe_hdim net np u h]
  show _ = List.range' 0 (((np.clusters.filter fun c => c.nAct != 0).map (·.nAct)).sum)
  rw [sum_active]

/-- **the regularisation list** handed to `least_squares->min_x`: the `index_y, index_x`, then `index_z` of the
    constrained points of `PD` in order (`MinX.fillMin`); entries distinct, in `1..n`; and `i` is in the list
    exactly when it is the (non-zero) index of a constrained coordinate — in the numbering and with the
    statuses the call ends with -/
theorem C01_pe_minx (net : PE.Net K) (np : Ls.Net.NetProblem K) (u : Unknowns K)
    (h : projectEquations net = .ok (np, u)) :
    np.minx = MinX.fillMin (idxFn u.net.idx) (ptsOf u.net) ∧
    np.minx.Nodup ∧ (∀ i ∈ np.minx, 1 ≤ i ∧ i ≤ np.n) ∧
    ∀ i, i ∈ np.minx ↔ ∃ c, MinX.consCoord (ptsOf u.net) c = true ∧ idxFn u.net.idx c ≠ 0 ∧ idxFn u.net.idx c = i := by
  obtain ⟨net', a, F⟩ := pe_final net np u h
  obtain ⟨b, Fr⟩ := assemble_fresh net' a F.asm
  obtain ⟨hh, _, hns⟩ := F.nosing
  have e1 : np.minx = MinX.fillMin (idxFn a.idx) (ptsOf net') := by rw [F.np_eq]; exact MinX.feed_snd _ _
  have e2 : idxFn u.net.idx = idxFn a.idx := by rw [F.u_net]
  have e3 : ptsOf u.net = ptsOf net' := by rw [F.u_net]; rfl
  have e4 : np.n = a.np.n := by rw [F.np_eq]
  obtain ⟨hgood, hr, hnd⟩ := fill_valid' (ptsOf net') (idxFn a.idx) a.np.n Fr.live_le Fr.live_inj _ hns
  rw [e2, e3, e1, e4]
  exact ⟨rfl, hnd, hr, fun i => fill_mem _ _ _ hns hgood i⟩

/-- **`unknowns_`**: `pocet_neznamych_` elements, and every element that was written is what its position
    says (`EntryOK`): element `j` of type 'R' belongs to a stand-point with an orientation, an `active_xy()`
    station and `index_orientation() = j+1`; elements 'X', 'Y', 'Z' to a point of `PD` whose group is active and
    whose `index_x/y/z()` is `j+1` -/
theorem C01_pe_unknowns (net : PE.Net K) (np : Ls.Net.NetProblem K) (u : Unknowns K)
    (h : projectEquations net = .ok (np, u)) :
    u.list.length = np.n ∧ ∀ j e, u.list[j]? = some (some e) → EntryOK u.net u.net.idx j e := by
  obtain ⟨net', a, F⟩ := pe_final net np u h
  obtain ⟨b, Fr⟩ := assemble_fresh net' a F.asm
  obtain ⟨s1, s2⟩ := unknownsList_sound net' a.idx
  have e : np.n = a.np.n := by rw [F.np_eq]
  refine ⟨by rw [F.u_list, Fr.list, s2, e, Fr.n, Fr.maxn], ?_⟩
  intro j e' hj
  rw [F.u_list, Fr.list] at hj
  have := s1 j e' hj
  rw [F.u_net]; exact this

/-- **`unknowns_` is total**: after `project_equations()` EVERY element `0 … n-1` of `unknowns_` has been assigned
    (no value-initialised element is left), the element is what its position says, and two entries that both are
    what position `j` says are equal — each index `1 … n` is claimed by exactly one (type, point / stand-point).
    This is the invariant whose violation was the heap-buffer-overflow repaired by /repo 3fb8708 (a point with
    `index_y() ≠ 0`, `index_x() = 0`: 'X' was written through `index_x()-1`): the model writes 'X' and 'Y' separately,
    and every index handed out by the linearisation is written by exactly one of the two loops.
    `DirFromStation`: the directions of a `StandPoint` are observed at its station (the C++ constructors guarantee
    it; the model's `Cluster` does not, and without it the 'R' element of a station that is not `active_xy()` stays
    unwritten) — the only hypothesis. -/
theorem C01_pe_unknowns_total (net : PE.Net K) (np : Ls.Net.NetProblem K) (u : Unknowns K)
    (h : projectEquations net = .ok (np, u)) (hds : DirFromStation u.net) :
    (∀ j, j < np.n → ∃ e, u.list[j]? = some (some e) ∧ EntryOK u.net u.net.idx j e) ∧
    (∀ j e e', EntryOK u.net u.net.idx j e → EntryOK u.net u.net.idx j e' → e = e') := by
  obtain ⟨net', a, F⟩ := pe_final net np u h
  obtain ⟨b, Fr⟩ := assemble_fresh net' a F.asm
  have e : np.n = a.np.n := by rw [F.np_eq]
  have hds' : DirFromStation net' := by rw [F.u_net] at hds; exact hds
  refine ⟨fun j hj => ?_, fun j e1 e2 h1 h2 => ?_⟩
  · obtain ⟨e', he'⟩ := unknownsList_total Fr F.revised hds' j (by rw [← e]; exact hj)
    have hl : u.list[j]? = some (some e') := by rw [F.u_list, Fr.list]; exact he'
    exact ⟨e', hl, (C01_pe_unknowns net np u h).2 j e' hl⟩
  · rw [F.u_net] at h1 h2
    exact entryOK_unique Fr j e1 e2 h1 h2

/-- **`hori`** (hypothesis of `C12_original_index`, `C03_xml_cov_is_m0sq_Q`): the orientation unknown number `i`
    (`unknown_type(i) == 'R'`) belongs to the stand-point whose `index_orientation()` is `i` -/
theorem C12_pe_hori (net : PE.Net K) (np : Ls.Net.NetProblem K) (u : Unknowns K)
    (h : projectEquations net = .ok (np, u)) (j : Nat) (pid : String) (k : Nat)
    (hj : u.list[j]? = some (some ⟨pid, .R, some k⟩)) : u.net.idx.get ⟨k, .ori⟩ = j + 1 := by
  obtain ⟨k', c, st, o, hk, _, _, _, _, hi⟩ := (C01_pe_unknowns net np u h).2 j _ hj
  simp only [Option.some.injEq] at hk
  rw [hk]; exact hi

/-- **a registered orientation unknown appears in `unknowns_`** (the converse of `C12_pe_hori`): a stand-point
    `k` with an orientation and an `active_xy()` station whose `index_orientation()` is `i ≠ 0` is element `i` of
    `unknowns_`, with type 'R', the id of its station and itself as `unknown_standpoint(i)` -/
theorem C12_pe_orientation_registered (net : PE.Net K) (np : Ls.Net.NetProblem K) (u : Unknowns K)
    (h : projectEquations net = .ok (np, u)) (k : Nat) (c : PE.Cluster K) (st : Nat) (o : K)
    (hc : u.net.clusters[k]? = some c) (hst : c.stand = some (st, some o))
    (hact : (ptAt u.net st).active_xy = true) (hk0 : u.net.idx.get ⟨k, .ori⟩ ≠ 0) :
    u.list[u.net.idx.get ⟨k, .ori⟩ - 1]? = some (some ⟨idOf u.net st, .R, some k⟩) := by
  obtain ⟨net', a, F⟩ := pe_final net np u h
  obtain ⟨b, Fr⟩ := assemble_fresh net' a F.asm
  rw [F.u_net] at hc hact hk0 ⊢
  rw [F.u_list, Fr.list]
  exact ori_registered Fr k c st o hc hst hact hk0

/-- **the orientation unknown is never in the regularisation set** (hypothesis `colOf … uOri ∉ S` of
    `C07_circle_rotation_assembled`; C12): no `index_orientation()` occurs in `min_x_` -/
theorem C07_pe_ori_not_regularised (net : PE.Net K) (np : Ls.Net.NetProblem K) (u : Unknowns K)
    (h : projectEquations net = .ok (np, u)) (k : Nat) : u.net.idx.get ⟨k, .ori⟩ ∉ np.minx := by
  obtain ⟨net', a, F⟩ := pe_final net np u h
  obtain ⟨b, Fr⟩ := assemble_fresh net' a F.asm
  obtain ⟨hh, _, hns⟩ := F.nosing
  have e1 : np.minx = MinX.fillMin (idxFn a.idx) (ptsOf net') := by rw [F.np_eq]; exact MinX.feed_snd _ _
  rw [e1, F.u_net]
  exact ori_not_in_minx Fr _ hns k

/-- **`PEWF`** (hypothesis of `C20_world_WF`, `C20_removal_terminates_solver`, `C20_huge_*`): for
    `project_equations()` seen as the function `Net → ProjEq` of the decision layer (`PE.peWorld base`: ids and
    statuses from the configuration, everything else from `base`), revision only switches coordinates off,
    every unknown belongs to a point of `PD`, and its coordinate group is active there -/
theorem C20_pe_wf (base : PE.Net K) : PEWF (peWorld base) := peWorld_wf base

/-- `C20_world_WF` / `C20_removal_terminates_solver` without the hypothesis `PEWF` -/
theorem C20_world_of_project_equations {S : Type} [Scalar S] (base : PE.Net K)
    (solver : Option (Ls.Net.NetProblem K) → SolverObs S) (m0 : S) (hB : Big S) (dnet : NetDecision.Net) :
    ((worldOf (peWorld base) solver).abs m0).WF ∧
    (NetDecision.decide m0 (worldOf (peWorld base) solver) dnet).2 ≠ .exception .fuel :=
  ⟨Props.C20.C20_world_WF _ solver m0 (C20_pe_wf base) hB,
   Props.C20.C20_removal_terminates_solver _ solver m0 (C20_pe_wf base) hB dnet⟩

/-- `C12_original_index` without the hypothesis `hori`: `<original-index>` lists the rows of the printed
    matrix in the order of `ind[]` -/
theorem C12_original_index_of_project_equations (net : PE.Net K) (np : Ls.Net.NetProblem K) (u : Unknowns K)
    (h : projectEquations net = .ok (np, u)) (pts : List CovBand.Pt) :
    CovBand.originalIndex pts (orisOf u) = CovBand.indList pts (orisOf u) := by
  refine Props.C12.C12_original_index pts (orisOf u) ?_
  intro o ho
  obtain ⟨ej, hej, hf⟩ := List.mem_filterMap.mp ho
  have hget := List.mem_zipIdx_iff_getElem?.mp hej
  rcases ej with ⟨e, j⟩
  simp only at hf hget
  rcases e with _ | ⟨pid, ty, ori⟩
  · cases hf
  · cases ty <;> rcases ori with _ | k <;> simp only at hf <;> try cases hf
    exact C12_pe_hori net np u h j pid k hget

end general

/-! ### the C01 façade theorems without `RowsOK` / `hdim` -/

section facade
open Gama.Ls Gama.Ls.Net Gama.LS Matrix
variable {K : Type} [Field K] [LinearOrder K] [IsStrictOrderedRing K] [SqrtFn K]
attribute [local instance 2000] scalarOfField

/-- `hdim` in the form the `C01_net_*` theorems take it -/
theorem C01_pe_dimsN (t : TrigFns K) (net : PE.Net K) (np : NetProblem K) (u : Unknowns K)
    (h : @projectEquations K (trigOfField t) net = .ok (np, u)) : (dimsN np).sum = np.m := by
  rw [dimsN_eq]; exact @C01_pe_hdim K (trigOfField t) net np u h

/-- **`C01_net_facade` without `hdim` and `RowsOK`**: whatever `project_equations()` assembled, for a full solver
    that returns a least-squares solution of the whitened system `solve()`, `residuals()`, `trans_VWV()`
    satisfy `r = A x − b`, `AᵀP r = 0`, `[pvv] = rᵀP r`, `x ⟂_S ker A` for the ORIGINAL system, `P = m0²·Σ⁻¹` -/
theorem C01_net_facade_of_project_equations (hsq : IsSqrt (SqrtFn.sq : K → K)) (t : TrigFns K) (alg : Alg)
    (halg : alg ≠ .env) (net : PE.Net K) (np : NetProblem K) (u : Unknowns K)
    (hpe : @projectEquations K (trigOfField t) net = .ok (np, u))
    (hm0 : np.m0 ≠ 0)
    (Pc : Matrix (Fin (toProblem np).m) (Fin (toProblem np).m) K) (hPc : Sigma np * Pc = 1)
    (hsol : ∀ hh s, prepare np = .ok hh → solverOf alg (Net.dotProblem np hh) = .ok s →
      IsLSSolution (Net.dotProblem np hh).A (Net.dotProblem np hh).b 1 (Net.dotProblem np hh).S
        (toVec np.n s.x) (toVec np.m s.r) s.rtr)
    (a : NetAnswer K) (h : netSolve alg np = .ok a) :
    IsLSSolution (toProblem np).A (toProblem np).b ((np.m0 * np.m0) • Pc) (toProblem np).S
      (toVec (toProblem np).n a.x) (toVec (toProblem np).m a.r) a.pvv :=
  C01_net_facade hsq alg halg np (C01_pe_dimsN t net np u hpe)
    (@C01_pe_rowsOK K (trigOfField t) net np u hpe) hm0 Pc hPc hsol a h

/-- **`C01_net_envelope` without `hdim` and `RowsOK`** -/
theorem C01_net_envelope_of_project_equations (hsq : IsSqrt (SqrtFn.sq : K → K)) (t : TrigFns K)
    (net : PE.Net K) (np : NetProblem K) (u : Unknowns K)
    (hpe : @projectEquations K (trigOfField t) net = .ok (np, u))
    (hm0 : np.m0 ≠ 0)
    (Pc : Matrix (Fin (toProblem np).m) (Fin (toProblem np).m) K) (hPc : Sigma np * Pc = 1)
    (hreg : Env.RegListOK (toProblem np)) (hU : Env.SolveUnambiguous (toProblem np))
    (a : NetAnswer K) (h : netSolve .env np = .ok a) :
    IsLSSolution (toProblem np).A (toProblem np).b ((np.m0 * np.m0) • Pc) (toProblem np).S
      (toVec (toProblem np).n a.x) (toVec (toProblem np).m a.r) a.pvv :=
  C01_net_envelope hsq np (C01_pe_dimsN t net np u hpe)
    (@C01_pe_rowsOK K (trigOfField t) net np u hpe) hm0 Pc hPc hreg hU a h

/-- the dense matrix `A` of the base class before homogenisation IS the matrix of the sparse rows (both add up the
    coefficients a row stores with the same column index; no `NoAlias` needed): "dense and sparse forms agree" -/
theorem C01_pe_dense_is_sparse (t : TrigFns K) (net : PE.Net K) (np : NetProblem K) (u : Unknowns K)
    (hpe : @projectEquations K (trigOfField t) net = .ok (np, u)) :
    toMatrix (toProblem np).m (toProblem np).n (denseA np) = (toProblem np).A :=
  denseA_eq np (@C01_pe_rowsOK K (trigOfField t) net np u hpe)

end facade

/-! ### C07's form of "the orientation unknown is not regularised" -/

/-- **`colOf … uOri ∉ S`** (hypothesis of `C07_circle_rotation_assembled`, `Lemmas/C07Assemble.lean::solution_shift`)
    for the C07 object built from the call: the last inner call is a pass `r` of `Lin.passFrom` from the cleared
    state over `revised_obs_` of `u.net` with `r.idx.maxn = np.n` columns; for ANY family `obsF` of C07 observations
    that are those of this pass in its order, and any regularisation subset `S` of C07's column type all of whose
    members are (as 1-based indexes) in `np.minx` — in particular the set of `min_x_` itself — the column of an
    orientation unknown is not in `S`. -/
theorem C07_pe_ori_not_regularised_colOf (net : PE.Net ℝ) (np : Ls.Net.NetProblem ℝ) (u : Unknowns ℝ)
    (h : projectEquations net = .ok (np, u)) :
    ∃ (r : PassOut ℝ) (outs : List (LinOut ℝ)),
      passFrom (sigmaOf u.net) u.net.fuel (revisedObs u.net) IdxState.init = .ok r ∧ r.idx.maxn = np.n ∧
      List.Forall₂ (fun ob out => ob.kind.lin u.net.fuel ((sigmaOf u.net).view ob) = .ok out) (revisedObs u.net) outs ∧
      ∀ {m : Nat} (obsF : Fin m → Lin.Ob ℝ) (hw : ∀ i, wellTouched (obsF i).evs [] = true),
        List.ofFn obsF = obsOfPass (revisedObs u.net) outs →
        ∀ (k : Nat) (hu : (⟨k, .ori⟩ : Unk) ∈ touchedSet obsF)
          (S : Finset (Fin (finalState obsF (Equiv.refl _)).maxn)), (∀ j ∈ S, j.val + 1 ∈ np.minx) →
          colOf obsF hw (Equiv.refl _) ⟨k, .ori⟩ hu ∉ S := by
  obtain ⟨net', a, F⟩ := pe_final net np u h
  obtain ⟨b, Fr⟩ := assemble_fresh net' a F.asm
  have hnot := C07_pe_ori_not_regularised net np u h
  rw [F.u_net] at hnot ⊢
  obtain ⟨outs, h1, _, h3⟩ := codeMatrixOf_eq_codeMatrix (sigmaOf net') net'.fuel (revisedObs net') b Fr.pass
  refine ⟨b, outs, Fr.pass, by rw [F.np_eq]; exact Fr.n.symm, h1, ?_⟩
  intro m obsF hw hF k hu S hS hmem
  have hfs := (h3 obsF hF).1
  have hg := colUnk_get obsF hw (Equiv.refl _) (colOf obsF hw (Equiv.refl _) ⟨k, .ori⟩ hu)
  rw [colUnk_colOf] at hg
  have hb : b.idx.get ⟨k, .ori⟩ = (colOf obsF hw (Equiv.refl _) ⟨k, .ori⟩ hu).val + 1 := by
    rw [← hg]; exact (congrArg (fun s : IdxState => s.get ⟨k, .ori⟩) hfs).symm
  have ha : a.idx.get ⟨k, .ori⟩ = b.idx.get ⟨k, .ori⟩ := Fr.agree _ (Or.inl rfl)
  exact hnot k (by show a.idx.get ⟨k, .ori⟩ ∈ np.minx; rw [ha, hb]; exact hS _ hmem)

/-! ### non-vacuity -/

section examples
open Gama.PE.Ex
set_option warn.classDefReducibility false in
attribute [local instance] trigQ

/-- the hypothesis of every theorem above is met: the model returns on `Ex.net1` (levelling; fixed, constrained
    and free heights; a switched-off observation; a cluster without active observations; stale indexes), with
    2 rows, 2 unknowns, rows `[(1,1)]`, `[(1,−1),(2,1)]`, right-hand sides 10, 10 (mm), `min_x_ = [1]`, one
    cluster range `(0,2)`, `unknowns_ = [Z of B, Z of C]` (kernel evaluation) -/
example : (∃ np u, projectEquations net1 = .ok (np, u)) ∧
    counts (projectEquations net1) = some (2, 2, [1], [(0, 2)]) ∧
    system (projectEquations net1) = some ([[(1, 1)], [(1, -1), (2, 1)]], [10, 10]) ∧
    table (projectEquations net1) = some [some ⟨"B", .Z, none⟩, some ⟨"C", .Z, none⟩] :=
  ⟨net1_ok, net1_counts, net1_system, net1_table⟩

/-- `C01_pe_unknowns_total` on `Ex.net1`: no cluster is a stand-point, so `DirFromStation` holds for whatever the
    call leaves (its clusters keep `stand = none`: `obsShape`-independent, evaluated), and both elements of
    `unknowns_` are written (`table` above: `[Z of B, Z of C]`, no `none`) -/
example : ∀ np u, projectEquations net1 = .ok (np, u) → DirFromStation u.net ∧ ∀ j, j < np.n → ∃ e, u.list[j]? = some (some e) := by
  intro np u h
  have hst : (match projectEquations net1 with
      | .ok (_, u) => u.net.clusters.all (fun c => c.stand.isNone)
      | .error _ => false) = true := by decide +kernel
  rw [h] at hst
  have hds : DirFromStation u.net := by
    intro c hc st o hs
    have := List.all_eq_true.mp hst c hc
    rw [hs] at this; cases this
  exact ⟨hds, fun j hj => by
    obtain ⟨e, he, _⟩ := (C01_pe_unknowns_total net1 np u h hds).1 j hj; exact ⟨e, he⟩⟩

/-- `NoAlias` holds for every observation of `Ex.net1` … -/
example : ∀ c ∈ net1.clusters, ∀ o ∈ c.obs, NoAlias (o.toN 0) := by decide

/-- … and `RowsOK` is FALSE without it: `Ex.net2` has a point levelled to itself (`C→C`), whose row is
    `[(2,−1),(2,1)]` — column 2 twice (`C01_pe_rowsOK_needs_noalias`) -/
example : system (projectEquations net2) = some ([[(1, 1)], [(1, -1), (2, 1)], [(2, -1), (2, 1)]], [10, 10, 3/10]) ∧
    ¬ ([(2, (-1 : ℚ)), (2, 1)].map (·.1)).Nodup := ⟨net2_system, by decide⟩

/-- `PEWF` is about a world that really answers: on the configuration of `Ex.net1` the world returns the two
    unknowns `Z` of `B` and `C` -/
example : ((peWorld net1) (dnetOfPts net1.points)).unknowns = [⟨"B", .Z⟩, ⟨"C", .Z⟩] := by decide +kernel

end examples

end Gama.Props.C01
