/-
  C01 / C02 — "rank numerically unambiguous" as ONE hypothesis on exact quantities of the design
  matrix (CLAUSES.md cross-cutting item 6, C01 row 9, "Missing 3").

  Every C01 theorem of the envelope, cholesky and gso models carries the premise as a hypothesis on
  the MODEL'S OWN TRACE (`FactUnambiguous`, `UnambiguousF (cholFact p)`, `Gso.Unambiguous p`).
  Here those trace hypotheses are DERIVED from

      `GapAll A τ` — every exact Schur-complement pivot of `AᵀA`, in any pivot order, is exactly 0
                     or larger than `τ`        (`Lemmas/Ls/ComposeGap.lean`)

  (or from the weaker `GapOrd A τ σ` — the pivots of the one order `σ` — where the algorithm's order
  is fixed in advance):

    envelope : `GapOrd Ã tol perm → FactUnambiguous`          (`ComposeGapEnv.lean`, induction on rows)
    cholesky : `GapAll A s_tol → UnambiguousF (cholFact p)`    (`ComposeGapChol.lean`; the pivot order
               is data dependent, hence `GapAll`)
    gso      : `GapOrd A tolerance² id → GapCols p`            (`ComposeGapGso.lean`; first
               orthogonalisation only — the second one is still constrained on the trace)

  and the C01 theorems, and the pair theorem cholesky = envelope, are restated with that single
  hypothesis on `A`.  What remains on the trace is said in the comment of each `…_partial` theorem.
-/
import Gama.Lemmas.Ls.ComposeGapEnv
import Gama.Lemmas.Ls.ComposeGapChol
import Gama.Lemmas.Ls.ComposeGapGso
import Gama.Lemmas.Ls.ComposeGapExample
import Gama.Props.C01.Env
import Gama.Props.C01.Chol
import Gama.Props.C01.Gso
namespace Gama.Props.C01
open Gama Gama.Ls Gama.LS Gama.Ls.Env Gama.Ls.Chol Gama.Ls.Gso Matrix

set_option linter.unusedSectionVars false

/-! ### the hypothesis -/

section general
variable {K : Type} [Field K] [LinearOrder K] [IsStrictOrderedRing K]

/-- the order-independent hypothesis implies the one of every pivot order, and both are antitone in
    the threshold -/
theorem C01_gap_all_ord {m n : ℕ} (A : Matrix (Fin m) (Fin n) K) (τ τ' : K) (h : GapAll A τ) (hτ : τ' ≤ τ) :
    GapAll A τ' ∧ ∀ σ : Fin n ≃ Fin n, GapOrd A τ' σ :=
  ⟨h.mono hτ, (h.mono hτ).ord⟩

/-- non-vacuity, and not trivially true: the singular `A = [1 1; 0 0]` over ℚ has the exact pivots
    0 and 1 (all residuals characterised in `gapAll_example`): the hypothesis holds for `τ = 1/2`
    and fails for `τ = 1` -/
example : GapAll (!![1, 1; 0, 0] : Matrix (Fin 2) (Fin 2) ℚ) (1 / 2)
    ∧ ¬ GapAll (!![1, 1; 0, 0] : Matrix (Fin 2) (Fin 2) ℚ) 1 := by
  refine ⟨gapAll_example ℚ, fun h => ?_⟩
  have := h 0 ![1, 0] rfl (fun j hj hβ => by fin_cases j <;> simp at hj hβ)
  have he : ((!![1, 1; 0, 0] : Matrix (Fin 2) (Fin 2) ℚ) *ᵥ ![1, 0])
      ⬝ᵥ ((!![1, 1; 0, 0] : Matrix (Fin 2) (Fin 2) ℚ) *ᵥ ![1, 0]) = 1 := by
    simp [Matrix.mulVec, dotProduct, Fin.sum_univ_two]
  rw [he] at this
  rcases this with h0 | h1
  · exact one_ne_zero h0
  · exact lt_irrefl _ h1

/-- non-vacuity with a genuine projection: the levelling triangle (three columns, defect 1) has the exact
    pivots 2, 3/2, 0 in every order (`gapAll_triangle`, all residuals characterised) -/
example : GapAll (!![-1, 1, 0; 0, -1, 1; 1, 0, -1] : Matrix (Fin 3) (Fin 3) ℚ) 1 := gapAll_triangle ℚ

end general

/-! ### envelope -/

section envelope
variable {K : Type} [Field K] [LinearOrder K] [IsStrictOrderedRing K] (sq : K → K)

/-- **envelope: the trace hypothesis from the gap on `Ã`**, pivot order = the ordering `o`
    (columns `perm 0, perm 1, …` of the homogenised matrix); no hypothesis on `tol` -/
theorem C01_envelope_unambiguous_of_gap (tol : K) (m n : ℕ) (At : DMat K) (bt : Array K) (o : EnvOrd)
    (hO : OrdOK n o) (hG : GapOrd (toMatrix m n At) tol hO.equiv) : FactUnambiguous sq tol m n At bt o :=
  factUnambiguous_of_gap sq tol m n At bt o hO hG

/-- **C01 (envelope), regular or singular, premise on `Ã = W A` only**: `C01_envelope_singular` with
    `FactUnambiguous` replaced by the gap hypothesis.  `GapAll (W A) tol` says: every exact pivot of
    `AᵀPA` (any order — so the statement holds for EVERY ordering `o`) is 0 or `> tol`. -/
theorem C01_envelope_singular_of_gap (hsq : IsSqrt sq) (tol stol : K) (m n : ℕ) (A : DMat K) (b : Array K)
    (At : DMat K) (bt : Array K) (reg : Reg) (o : EnvOrd) (hO : OrdOK n o)
    (hG : GapAll (toMatrix m n At) tol) (htol : 0 < tol) (hstol : 0 < stol)
    {P W : Matrix (Fin m) (Fin m) K} (hW : Wᵀ * W = P) (hWinj : ∀ d, W *ᵥ d = 0 → d = 0)
    (hAt : toMatrix m n At = W * toMatrix m n A) (hbt : toVec m bt = W *ᵥ toVec m b)
    (hreg : Env.RegOK n o reg (reg.toFinset n)) {x : Array K}
    (hx : (@envCore K (fieldScalar sq) tol stol m n A b At bt reg o).x = .ok x) :
    IsLSSolution (toMatrix m n A) (toVec m b) P (reg.toFinset n) (toVec n x)
      (toVec m (@envCore K (fieldScalar sq) tol stol m n A b At bt reg o).r)
      (@envCore K (fieldScalar sq) tol stol m n A b At bt reg o).rtr :=
  C01_envelope_singular sq hsq tol stol m n A b At bt reg o hO
    (factUnambiguous_of_gapAll sq tol m n At bt o hO hG) htol hstol hW hWinj hAt hbt hreg hx

/-- the same with the hypothesis of the one pivot order the ordering `o` prescribes -/
theorem C01_envelope_singular_of_gapOrd (hsq : IsSqrt sq) (tol stol : K) (m n : ℕ) (A : DMat K) (b : Array K)
    (At : DMat K) (bt : Array K) (reg : Reg) (o : EnvOrd) (hO : OrdOK n o)
    (hG : GapOrd (toMatrix m n At) tol hO.equiv) (htol : 0 < tol) (hstol : 0 < stol)
    {P W : Matrix (Fin m) (Fin m) K} (hW : Wᵀ * W = P) (hWinj : ∀ d, W *ᵥ d = 0 → d = 0)
    (hAt : toMatrix m n At = W * toMatrix m n A) (hbt : toVec m bt = W *ᵥ toVec m b)
    (hreg : Env.RegOK n o reg (reg.toFinset n)) {x : Array K}
    (hx : (@envCore K (fieldScalar sq) tol stol m n A b At bt reg o).x = .ok x) :
    IsLSSolution (toMatrix m n A) (toVec m b) P (reg.toFinset n) (toVec n x)
      (toVec m (@envCore K (fieldScalar sq) tol stol m n A b At bt reg o).r)
      (@envCore K (fieldScalar sq) tol stol m n A b At bt reg o).rtr :=
  C01_envelope_singular sq hsq tol stol m n A b At bt reg o hO
    (factUnambiguous_of_gap sq tol m n At bt o hO hG) htol hstol hW hWinj hAt hbt hreg hx

/-- **C02 refusal (envelope)** with the factorisation premise on `Ã`.
    PARTIAL: `GSUnambiguous` (every pivot the Gram–Schmidt loop of `solve_x` tests is 0 or ≥ `s_tol`)
    is still a hypothesis on the trace.  Its exact counterpart would be: for the kernel basis of `Ã`
    with `−1` at the flagged unknowns, every `S`-Gram–Schmidt residual has `S`-norm 0 or ≥ `s_tol`. -/
theorem C02_refusal_env_of_gap_partial (hsq : IsSqrt sq) (tol stol : K) (m n : ℕ) (A : DMat K) (b : Array K)
    (At : DMat K) (bt : Array K) (reg : Reg) (o : EnvOrd) (hO : OrdOK n o)
    (hG : GapAll (toMatrix m n At) tol) (htol : 0 < tol) (hstol : 0 < stol)
    {W : Matrix (Fin m) (Fin m) K} (hWinj : ∀ d, W *ᵥ d = 0 → d = 0)
    (hAt : toMatrix m n At = W * toMatrix m n A)
    (hreg : Env.RegOK n o reg (reg.toFinset n))
    (hGS : GSUnambiguous sq (n := n) tol stol m At bt o (Env.regList n o reg)) :
    ((∃ x, (@envCore K (fieldScalar sq) tol stol m n A b At bt reg o).x = .ok x)
        ↔ Resolves (toMatrix m n A) (reg.toFinset n))
    ∧ ∀ e, (@envCore K (fieldScalar sq) tol stol m n A b At bt reg o).x = .error e → e = .BadRegularization :=
  C02_refusal_env sq hsq tol stol m n A b At bt reg o hO
    (factUnambiguous_of_gapAll sq tol m n At bt o hO hG) htol hstol hWinj hAt hreg hGS

/-- non-vacuity: `Ã = [1 1; 0 0]` over ℚ, the ordering that swaps the two unknowns, `tol = 1/2`:
    the gap hypothesis holds, hence `FactUnambiguous`; the model reports defect 1 -/
example : GapAll (toMatrix 2 2 GapEx.gA) (1 / 2 : ℚ) ∧ OrdOK 2 Env.Ex.ro
    ∧ FactUnambiguous (K := ℚ) id (1 / 2) 2 2 GapEx.gA GapEx.gb Env.Ex.ro
    ∧ (@envCore ℚ (fieldScalar id) (1/2) (1/2) 2 2 GapEx.gA GapEx.gb GapEx.gA GapEx.gb .all Env.Ex.ro).defect = 1 :=
  ⟨GapEx.gA_gap, Env.Ex.ro_ok,
    C01_envelope_unambiguous_of_gap id (1 / 2) 2 2 GapEx.gA GapEx.gb Env.Ex.ro Env.Ex.ro_ok (GapEx.gA_gap.ord _),
    by decide +kernel⟩

end envelope

/-! ### cholesky -/

section cholesky
variable {K : Type} [Field K] [LinearOrder K] [IsStrictOrderedRing K] [SqrtFn K]
attribute [local instance 2000] scalarOfField

/-- **cholesky: the trace hypothesis from the gap on `A`**.  The pivot order of `AdjCholDec` (largest
    remaining diagonal entry first) depends on the data, so the order-independent `GapAll` is the
    hypothesis; the threshold is the code's `s_tol` -/
theorem C01_cholesky_unambiguous_of_gap (p : Problem K) (hG : GapAll p.A (sTol : K)) :
    UnambiguousF (cholFact p) :=
  unambiguousF_of_gap p hG

/-- **C01 (cholesky), any defect, premise on `A` only**: `C01_cholesky_singular` with
    `UnambiguousF (cholFact p)` replaced by the gap hypothesis (`GsSqrtExact`: what the code needs of
    `sqrt`, implied by `LawfulSqrt` — next theorem; `hnd`: a condition on the configured list) -/
theorem C01_cholesky_singular_of_gap (p : Problem K) (hG : GapAll p.A (sTol : K)) (hsq : GsSqrtExact p)
    (hnd : ∀ S, Chol.regList p.n p.reg = some S → S.Nodup) (a : Answer K) (h : cholSolve p = .ok a) :
    IsLSSolution p.A p.b 1 p.S (toVec p.n a.x) (toVec p.m a.r) a.rtr :=
  C01_cholesky_singular p (unambiguousF_of_gap p hG) hsq hnd a h

/-- with a lawful square root no hypothesis about the run is left -/
theorem C01_cholesky_singular_of_gap_lawful [LawfulSqrt K] (p : Problem K) (hG : GapAll p.A (sTol : K))
    (hnd : ∀ S, Chol.regList p.n p.reg = some S → S.Nodup) (a : Answer K) (h : cholSolve p = .ok a) :
    IsLSSolution p.A p.b 1 p.S (toVec p.n a.x) (toVec p.m a.r) a.rtr :=
  C01_cholesky_singular p (unambiguousF_of_gap p hG) (GsSqrtExact.of_lawful p) hnd a h

/-- **C02 refusal (cholesky)** with the factorisation premise on `A`.
    PARTIAL: `GsUnamb p` (every `S`-norm² the Gram–Schmidt loop tests is 0 or ≥ `s_tol`) is still a
    hypothesis on the trace. -/
theorem C02_refusal_chol_of_gap_partial (p : Problem K) (hG : GapAll p.A (sTol : K)) (hsq : GsSqrtExact p)
    (hun : GsUnamb p) :
    (∀ a, cholSolve p = .ok a → Resolves p.A p.S) ∧
    (∀ e, cholSolve p = .error e →
      (e = .BadRegularization ∧ ¬ Resolves p.A p.S) ∨ (e = .NotModelled ∧ Chol.regList p.n p.reg = none)) :=
  C02_refusal_chol p (unambiguousF_of_gap p hG) hsq hun

/-- non-vacuity (cholesky): `A = [1 1; 0 0]`, `b = (1,1)`, `S = {1}` over ℚ satisfies the gap
    hypothesis for `s_tol` (exact pivots 0 and 1), the Gram–Schmidt pivot is 1 (`sqrt` exact), the list
    has no duplicate, and the model answers with defect 1 -/
example : GapAll (GapEx.pGap (.subset [1])).A (sTol : ℚ) ∧ GsSqrtExact (GapEx.pGap (.subset [1]))
    ∧ (∀ S, Chol.regList (GapEx.pGap (.subset [1])).n (GapEx.pGap (.subset [1])).reg = some S → S.Nodup)
    ∧ UnambiguousF (cholFact (GapEx.pGap (.subset [1])))
    ∧ ∃ a, cholSolve (GapEx.pGap (.subset [1])) = .ok a ∧ a.defect = 1 := by
  have hS : ∀ S, Chol.regList (GapEx.pGap (.subset [1])).n (GapEx.pGap (.subset [1])).reg = some S → S = [0] := by
    intro S h
    have : Chol.regList (GapEx.pGap (.subset [1])).n (GapEx.pGap (.subset [1])).reg = some [0] := rfl
    rw [this] at h
    exact (Option.some.inj h).symm
  have hb := gsOKb_spec (K := ℚ) (GapEx.pGap (.subset [1])).n (cholFact (GapEx.pGap (.subset [1]))).nullity [0]
    (cholFact (GapEx.pGap (.subset [1]))).nullity 0 _ _ (by decide +kernel :
      gsOKb (GapEx.pGap (.subset [1])).n (cholFact (GapEx.pGap (.subset [1]))).nullity [0]
        (cholFact (GapEx.pGap (.subset [1]))).nullity 0 (Dn.pmk ((cholFact (GapEx.pGap (.subset [1]))).nullity + 1) id)
        (gInit (GapEx.pGap (.subset [1])).n ((GapEx.pGap (.subset [1])).n - (cholFact (GapEx.pGap (.subset [1]))).nullity)
          (cholFact (GapEx.pGap (.subset [1]))).nullity (cholFact (GapEx.pGap (.subset [1]))).perm
          (cholFact (GapEx.pGap (.subset [1]))).mat
          (solveX0 (GapEx.pGap (.subset [1])).n ((GapEx.pGap (.subset [1])).n - (cholFact (GapEx.pGap (.subset [1]))).nullity)
            (cholFact (GapEx.pGap (.subset [1]))).perm (cholFact (GapEx.pGap (.subset [1]))).mat
            (normalRhs (GapEx.pGap (.subset [1])).m (GapEx.pGap (.subset [1])).n (GapEx.pGap (.subset [1])).dense
              (GapEx.pGap (.subset [1])).rhs))) = true)
  refine ⟨GapEx.pGap_gap _, ?_, ?_, C01_cholesky_unambiguous_of_gap _ (GapEx.pGap_gap _), ?_⟩
  · intro S h; rw [hS S h]; exact hb.1
  · intro S h; rw [hS S h]; decide
  · have h : (cholSolve (GapEx.pGap (.subset [1]))).toOption.map (fun a => a.defect) = some 1 := by
      decide +kernel
    obtain ⟨a, h1, h2⟩ := Ex.ok_of_toOption h
    exact ⟨a, h1, h2⟩

/-- non-vacuity (cholesky, pivoting matters): the levelling triangle `Ex.pSing` (3 unknowns, defect 1):
    the gap hypothesis holds (pivots 2, 3/2, 0), hence the pivot the model rejects is unambiguous — and
    it is exactly 0 (kernel evaluation) -/
example : GapAll (Ex.pSing .none).A (sTol : ℚ) ∧ UnambiguousF (cholFact (Ex.pSing .none))
    ∧ (cholFact (Ex.pSing .none)).rej = some 0 :=
  ⟨GapEx.pSing_gap _, C01_cholesky_unambiguous_of_gap _ (GapEx.pSing_gap _), by decide +kernel⟩

end cholesky

/-! ### gso, and the pairs -/

section pairs
variable {K : Type} [Field K] [LinearOrder K] [IsStrictOrderedRing K] [SqrtField K]
local instance sqrtFnOfSqrtFieldGap : SqrtFn K := ⟨SqrtField.sqrt⟩

/-- **gso: `GapCols` (first orthogonalisation) from the common hypothesis**, threshold `tolerance²`
    (the code compares norms, the hypothesis is on squared norms) -/
theorem C01_gso_gapCols_of_gap (p : Problem K) (hG : GapOrd p.A ((tolerance : K) * tolerance) (Equiv.refl _)) :
    GapCols p :=
  gapCols_of_gapOrd p hG

/-- `C01_gso_of_gap_partial` with the common hypothesis.
    PARTIAL: the norms of the SECOND orthogonalisation (`tested.drop n`; none when the defect is 0)
    are still constrained on the trace (see `C01_gso_of_gap_partial`). -/
theorem C01_gso_of_gapAll_partial (p : Problem K) (hG : GapAll p.A ((tolerance : K) * tolerance))
    (h2 : ∀ r ∈ (runOf p).tested.drop p.n, r = 0 ∨ (tolerance : K) < r)
    (a : Answer K) (h : gsoSolve p = .ok a) :
    IsLSSolution p.A p.b 1 p.S (toVec p.n a.x) (toVec p.m a.r) a.rtr :=
  C01_gso_of_gap_partial p (gapCols_of_gapAll p hG) h2 a h

/-- **cholesky = envelope with ONE hypothesis on `A`** (unit weights; any ordering `o`): if every
    exact Schur pivot of `AᵀA` is 0 or `> τ`, `τ` at least both codes' thresholds (`s_tol` and the
    envelope's `tol`; the defaults are equal, `2⁻²⁶`), and `S` resolves the defect, the two solvers
    return the same unknowns, residuals and sum of squares whenever both answer.
    No hypothesis on either model's trace is left: `sqrt` is lawful (`SqrtField`), `hnd`, `hreg`, `hO`
    are conditions on the configured list and the ordering. -/
theorem C02_same_chol_env_of_gap (p : Problem K) (τ tol stol : K) (hG : GapAll p.A τ)
    (hτc : (sTol : K) ≤ τ) (hτe : tol ≤ τ) (o : EnvOrd) (hO : OrdOK p.n o) (htol : 0 < tol) (hstol : 0 < stol)
    (hnd : ∀ S, Chol.regList p.n p.reg = some S → S.Nodup)
    (hreg : Env.RegOK p.n o p.reg (p.reg.toFinset p.n)) (hS : Resolves p.A p.S)
    (a : Answer K) (h : cholSolve p = .ok a) {x : Array K}
    (hx : (@envCore K (Gama.LS.fieldScalar SqrtField.sqrt) tol stol p.m p.n p.dense p.rhs p.dense p.rhs p.reg o).x = .ok x) :
    toVec p.n a.x = toVec p.n x
      ∧ toVec p.m a.r = toVec p.m (@envCore K (Gama.LS.fieldScalar SqrtField.sqrt) tol stol p.m p.n p.dense p.rhs p.dense p.rhs p.reg o).r
      ∧ a.rtr = (@envCore K (Gama.LS.fieldScalar SqrtField.sqrt) tol stol p.m p.n p.dense p.rhs p.dense p.rhs p.reg o).rtr := by
  have hsq : IsSqrt (SqrtField.sqrt : K → K) :=
    ⟨fun x hx => (SqrtField.sqrt_spec x hx).1, fun x hx => (SqrtField.sqrt_spec x hx).2⟩
  have _ : LawfulSqrt K :=
    ⟨fun x hx => (SqrtField.sqrt_spec x hx).1, fun x hx => (SqrtField.sqrt_spec x hx).2⟩
  have h1 := C01_cholesky_singular p (unambiguousF_of_gap p (hG.mono hτc)) (GsSqrtExact.of_lawful p) hnd a h
  have h2 := C01_envelope_singular_of_gap (SqrtField.sqrt : K → K) hsq tol stol p.m p.n p.dense p.rhs
    p.dense p.rhs p.reg o hO (hG.mono hτe) htol hstol (P := 1) (W := 1) (by simp)
    (by intro d hd; simpa using hd) (by simp) (by simp) hreg hx
  exact h1.unique h2 one_pd hS

/-- **gso = cholesky**, premise on `A`.
    PARTIAL: the second-phase norms of the Gram–Schmidt solver (`h2`) are still on the trace. -/
theorem C02_same_gso_chol_of_gap_partial (p : Problem K) (τ : K) (hG : GapAll p.A τ)
    (hτg : (tolerance : K) * tolerance ≤ τ) (hτc : (sTol : K) ≤ τ)
    (h2 : ∀ r ∈ (runOf p).tested.drop p.n, r = 0 ∨ (tolerance : K) < r)
    (hnd : ∀ S, Chol.regList p.n p.reg = some S → S.Nodup) (hS : Resolves p.A p.S)
    (a a' : Answer K) (h : gsoSolve p = .ok a) (h' : cholSolve p = .ok a') :
    toVec p.n a.x = toVec p.n a'.x ∧ toVec p.m a.r = toVec p.m a'.r ∧ a.rtr = a'.rtr := by
  have _ : LawfulSqrt K :=
    ⟨fun x hx => (SqrtField.sqrt_spec x hx).1, fun x hx => (SqrtField.sqrt_spec x hx).2⟩
  exact (C01_gso_of_gapAll_partial p (hG.mono hτg) h2 a h).unique
    (C01_cholesky_singular p (unambiguousF_of_gap p (hG.mono hτc)) (GsSqrtExact.of_lawful p) hnd a' h') one_pd hS

/-- **gso = envelope**, premise on `A`.
    PARTIAL: the second-phase norms of the Gram–Schmidt solver (`h2`) are still on the trace. -/
theorem C02_same_gso_env_of_gap_partial (p : Problem K) (τ tol stol : K) (hG : GapAll p.A τ)
    (hτg : (tolerance : K) * tolerance ≤ τ) (hτe : tol ≤ τ)
    (h2 : ∀ r ∈ (runOf p).tested.drop p.n, r = 0 ∨ (tolerance : K) < r)
    (o : EnvOrd) (hO : OrdOK p.n o) (htol : 0 < tol) (hstol : 0 < stol)
    (hreg : Env.RegOK p.n o p.reg (p.reg.toFinset p.n)) (hS : Resolves p.A p.S)
    (a : Answer K) (h : gsoSolve p = .ok a) {x : Array K}
    (hx : (@envCore K (Gama.LS.fieldScalar SqrtField.sqrt) tol stol p.m p.n p.dense p.rhs p.dense p.rhs p.reg o).x = .ok x) :
    toVec p.n a.x = toVec p.n x
      ∧ toVec p.m a.r = toVec p.m (@envCore K (Gama.LS.fieldScalar SqrtField.sqrt) tol stol p.m p.n p.dense p.rhs p.dense p.rhs p.reg o).r
      ∧ a.rtr = (@envCore K (Gama.LS.fieldScalar SqrtField.sqrt) tol stol p.m p.n p.dense p.rhs p.dense p.rhs p.reg o).rtr := by
  have hsq : IsSqrt (SqrtField.sqrt : K → K) :=
    ⟨fun x hx => (SqrtField.sqrt_spec x hx).1, fun x hx => (SqrtField.sqrt_spec x hx).2⟩
  have h1 := C01_gso_of_gapAll_partial p (hG.mono hτg) h2 a h
  have h2' := C01_envelope_singular_of_gap (SqrtField.sqrt : K → K) hsq tol stol p.m p.n p.dense p.rhs
    p.dense p.rhs p.reg o hO (hG.mono hτe) htol hstol (P := 1) (W := 1) (by simp)
    (by intro d hd; simpa using hd) (by simp) (by simp) hreg hx
  exact h1.unique h2' one_pd hS

end pairs

/-- non-vacuity (pairs): over ℝ (`Real.sqrt`) the singular problem `Ex.pR` (`A = [1 1; 0 0]`, `S = {1}`)
    meets every hypothesis on the problem of the three pair theorems with `τ = tol = 1/2`:
    the gap hypothesis, both thresholds `≤ τ`, a valid ordering, a duplicate-free list, `RegOK`,
    `Resolves`, and the second-phase norm of the Gram–Schmidt run (the single value 1) -/
example : GapAll Gso.Ex.pR.A (1 / 2 : ℝ)
    ∧ (@sTol ℝ (Gama.LS.fieldScalar Real.sqrt)) ≤ 1 / 2 ∧ (tolerance : ℝ) * tolerance ≤ 1 / 2
    ∧ OrdOK Gso.Ex.pR.n Env.Ex.ro
    ∧ (∀ S, Chol.regList Gso.Ex.pR.n Gso.Ex.pR.reg = some S → S.Nodup)
    ∧ Env.RegOK Gso.Ex.pR.n Env.Ex.ro Gso.Ex.pR.reg (Gso.Ex.pR.reg.toFinset Gso.Ex.pR.n)
    ∧ Resolves Gso.Ex.pR.A Gso.Ex.pR.S
    ∧ (∀ r ∈ (runOf Gso.Ex.pR).tested.drop Gso.Ex.pR.n, r = 0 ∨ (tolerance : ℝ) < r) := by
  refine ⟨GapEx.pR_gap, ?_, ?_, Env.Ex.ro_ok, ?_, ?_, GapEx.pR_resolves, ?_⟩
  · show ((1 : ℕ) : ℝ) / ((67108864 : ℕ) : ℝ) ≤ 1 / 2
    norm_num
  · show (1 / ((2 ^ 52 : ℕ) : ℝ) * ((100000 : ℕ) : ℝ)) * (1 / ((2 ^ 52 : ℕ) : ℝ) * ((100000 : ℕ) : ℝ)) ≤ 1 / 2
    norm_num
  · intro S h
    have : Chol.regList Gso.Ex.pR.n Gso.Ex.pR.reg = some [0] := rfl
    rw [this] at h
    rw [← Option.some.inj h]; decide
  · exact regOK_subset Env.Ex.ro_ok [1] (by decide) (by decide)
  · rw [Gso.Ex.pR_tested]
    intro r hr
    have : r = 1 := by simpa [Gso.Ex.pR] using hr
    rw [this]; exact Or.inr Gso.Ex.tol_lt_one

end Gama.Props.C01
