/-
  C01 for class `Adj` with the Gram–Schmidt and the svd solver: the hypothesis `hsol` of
  `C01_adj_facade` (Props/C01/Adj.lean) discharged by `C01_gso` and `C01_svd_cert`.

  Scalars: an ordered field with a true square root (`Gso.SqrtField K`; ℝ is an instance).  The
  three models in one statement — `adjSolve`/`homogenise` (stated under `scalarOfField`), `gsoSolve`
  (`SqrtField.toScalar`) and `svdSolve`/`Svd.decompose` (`fieldScalar sq`) — all run on the SAME
  instance `Gama.LS.fieldScalar SqrtField.sqrt` (`Lemmas/Ls/ComposeAdj.lean`).  A true square root
  is exact on the pivots of every covariance block, so `SqrtExactP p` is no longer a hypothesis.

  The solver's own hypothesis is asked of the problem the solver is actually given — the
  homogenised unit-weight system `dotProblem p Ad bd (regOf p.reg)`, `(Ad, bd) = (L̃⁻¹A, L̃⁻¹b)` —
  exactly as `C01_adj_cholesky` does:
    gso : `Gso.Unambiguous` (every norm the run compares with the tolerance is 0 or above it);
    svd : the factors `Svd.decompose` (the transliterated `SVD::svd()`) returns on that system
          satisfy the certificate `SvdCert` at the model's own tolerance `Svd.wTol`.  The
          algebraic part of that certificate is proved for `Svd.decompose` (Props/C01/SvdDecomp.lean:
          `C01_svd_solve_decompose`, `C01_adj_svd_decompose` are the theorems below with `SvdCert`
          weakened to `Unambiguous` of the returned singular values); convergence of the QR
          iteration (= that `decompose` returns) is NOT proved.
-/
import Gama.Props.C01.Adj
import Gama.Props.C01.Gso
import Gama.Props.C01.Svd
import Gama.Lemmas.Ls.ComposeAdj
import Gama.Lemmas.Ls.ComposeAdjExample
namespace Gama.Props.C01
open Gama Gama.Ls Gama.LS Gama.Ls.AdjM Matrix

set_option linter.unusedSectionVars false

variable {K : Type} [Field K] [LinearOrder K] [IsStrictOrderedRing K] [Gso.SqrtField K]
attribute [local instance] sqrtFnOfSqrtField
attribute [local instance 2000] scalarOfField

/-- **`Adj` + gso, end to end** (any defect, any covariance blocks the code accepts) -/
theorem C01_adj_gso (p : Problem K) (hdim : (dimsOf p).sum = p.m) (hrows : RowsOK p)
    (P : Matrix (Fin p.m) (Fin p.m) K) (hP : p.C * P = 1)
    (hU : ∀ Ad bd, homogenise p = .ok (Ad, bd) →
      Gso.Unambiguous (dotProblem p Ad bd (regOf p.reg)))
    (a : Answer K) (h : adjSolve .gso p = .ok a) :
    IsLSSolution p.A p.b P p.S (toVec p.n a.x) (toVec p.m a.r) a.rtr := by
  refine C01_adj_facade .gso (by decide) p (sqrtExactP_of_sqrtField p) hdim hrows P hP ?_ a h
  intro Ad bd s hh hs
  exact C01_gso _ (hU Ad bd hh) s hs

/-- the svd solver as it runs (`svdSolve` = `Svd.decompose`, then the post-decomposition model at
    the tolerance `Svd.wTol`): `C01_svd_cert` with the factors the model's own iteration returns -/
theorem C01_svd_solve_cert (q : Problem K) (hreg : Svd.RegOK q.reg)
    (hc : ∀ d, Svd.decompose q.m q.n q.dense = .ok d →
      Svd.SvdCert (Gso.SqrtField.sqrt : K → K) Svd.wTol q.m q.n q.dense d)
    (s : Answer K) (hs : svdSolve q = .ok s) :
    IsLSSolution q.A q.b 1 q.S (toVec q.n s.x) (toVec q.m s.r) s.rtr :=
  svdSolve_isLS q hreg hc s hs

/-- **`Adj` + svd, end to end modulo the factorisation certificate** -/
theorem C01_adj_svd_cert (p : Problem K) (hdim : (dimsOf p).sum = p.m) (hrows : RowsOK p)
    (P : Matrix (Fin p.m) (Fin p.m) K) (hP : p.C * P = 1) (hreg : Svd.RegOK p.reg)
    (hc : ∀ Ad bd d, homogenise p = .ok (Ad, bd) →
      Svd.decompose p.m p.n (dotProblem p Ad bd (regOf p.reg)).dense = .ok d →
      Svd.SvdCert (Gso.SqrtField.sqrt : K → K) Svd.wTol p.m p.n
        (dotProblem p Ad bd (regOf p.reg)).dense d)
    (a : Answer K) (h : adjSolve .svd p = .ok a) :
    IsLSSolution p.A p.b P p.S (toVec p.n a.x) (toVec p.m a.r) a.rtr := by
  refine C01_adj_facade .svd (by decide) p (sqrtExactP_of_sqrtField p) hdim hrows P hP ?_ a h
  intro Ad bd s hh hs
  exact C01_svd_solve_cert (dotProblem p Ad bd (regOf p.reg)) (Svd.regOK_regOf hreg)
    (fun d hd => hc Ad bd d hh hd) s hs

/-- non-vacuity of `C01_adj_gso` over ℝ (`Real.sqrt`): `Ex.pCS ℝ` — correlated block `[[4,2],[2,10]]`
    (band width 1) plus one observation of variance 4, A = [[4,4],[5,5],[4,4]] (defect 1), S = {1} —
    meets every hypothesis; `Adj` hands the solver `A_dot = [[2,2],[1,1],[2,2]]`, the Gram–Schmidt run
    tests the norms 3, 0, 1, and `Adj` answers x = (0, 1/2), defect 1.  (The model is evaluated over ℝ
    by `simp`/`norm_num` in `Lemmas/Ls/ComposeAdjExample.lean`.) -/
example : (dimsOf (Ex.pCS ℝ)).sum = (Ex.pCS ℝ).m ∧ RowsOK (Ex.pCS ℝ) ∧ (Ex.pCS ℝ).C * Ex.PCS ℝ = 1
    ∧ (∀ Ad bd, homogenise (Ex.pCS ℝ) = .ok (Ad, bd) →
        Gso.Unambiguous (dotProblem (Ex.pCS ℝ) Ad bd (regOf (Ex.pCS ℝ).reg)))
    ∧ homogenise (Ex.pCS ℝ) = .ok (#[#[2, 2], #[1, 1], #[2, 2]], #[1/2, 1/2, 3/2])
    ∧ ∃ a, adjSolve .gso (Ex.pCS ℝ) = .ok a ∧ a.x = #[0, 1/2] ∧ a.defect = 1 :=
  ⟨by decide, Ex.pCS_rows, Ex.pCS_weight, Ex.pCS_gso_unambiguous, Ex.pCS_homogenise, Ex.pCS_adj_gso⟩

/-- the theorem applied to the instance: the answer of `Adj` + gso on `Ex.pCS ℝ` is a least-squares
    solution of the ORIGINAL weighted problem (all models on the one instance `fieldScalar Real.sqrt`) -/
example : ∃ a, adjSolve .gso (Ex.pCS ℝ) = .ok a ∧
    IsLSSolution (Ex.pCS ℝ).A (Ex.pCS ℝ).b (Ex.PCS ℝ) (Ex.pCS ℝ).S
      (toVec (Ex.pCS ℝ).n a.x) (toVec (Ex.pCS ℝ).m a.r) a.rtr := by
  obtain ⟨a, h, -⟩ := Ex.pCS_adj_gso
  exact ⟨a, h, C01_adj_gso (Ex.pCS ℝ) (by decide) Ex.pCS_rows (Ex.PCS ℝ) Ex.pCS_weight
    Ex.pCS_gso_unambiguous a h⟩

/-- non-vacuity of `C01_adj_svd_cert` over ℝ (`Real.sqrt`), here conditional on one evaluation that
    is now PROVED elsewhere: `Svd.decompose 3 2 A_dot = .ok Ex.dCV` over ℝ is `Ex.pCV_decompose`
    (Lemmas/Ls/SvdDecompWitness.lean, the run evaluated statement by statement), and the
    UNCONDITIONAL instance is the last example of Props/C01/SvdDecomp.lean (which imports this file).
    `Ex.pCV`: the same covariance (correlated block `[[4,2],[2,10]]` + variance 4),
    A = [[12,16],[15,20],[12,16]] (rank 1, kernel (4,−3), defect 1), S = {1}.  Shown over ℝ:
    dimensions, rows, weight matrix, `RegOK`; `homogenise` returns `A_dot = [[6,8],[3,4],[6,8]]`,
    `b_dot = (1/2,1/2,3/2)`; the explicit factors `Ex.dCV` (U, W = (0,15), V) satisfy `SvdCert` on that
    system at the model's own tolerance `Svd.wTol`; the post-decomposition model answers with
    x = (0, 1/8), defect 1; and IF `Svd.decompose 3 2 A_dot = .ok Ex.dCV` over ℝ, THEN the hypothesis
    `hc` holds and `adjSolve .svd Ex.pCV = .ok a` with x = (0, 1/8), defect 1.
    The premise of the implication is kept here as a premise only because this file is imported by
    the file that proves it.  Independently, the run IS evaluated by the kernel over ℚ with a square
    root exact on the four values it takes roots of (9/25, 1, 625/576, 25/16) and returns exactly
    `Ex.dCV` (last conjunct). -/
example : (dimsOf Ex.pCV).sum = Ex.pCV.m ∧ RowsOK Ex.pCV ∧ Ex.pCV.C * Ex.PCV = 1 ∧ Svd.RegOK Ex.pCV.reg
    ∧ homogenise Ex.pCV = .ok (#[#[6, 8], #[3, 4], #[6, 8]], #[1/2, 1/2, 3/2])
    ∧ Svd.SvdCert Real.sqrt (Svd.wTol : ℝ) 3 2 (#[#[6, 8], #[3, 4], #[6, 8]] : DMat ℝ) Ex.dCV
    ∧ (∃ s, svdSolveCert true (Svd.wTol : ℝ) Ex.dCV Ex.pCVdot = .ok s ∧ s.x = #[0, 1/8] ∧ s.defect = 1)
    ∧ (Svd.decompose 3 2 (#[#[6, 8], #[3, 4], #[6, 8]] : DMat ℝ) = .ok Ex.dCV →
        (∀ Ad bd d, homogenise Ex.pCV = .ok (Ad, bd) →
          Svd.decompose Ex.pCV.m Ex.pCV.n (dotProblem Ex.pCV Ad bd (regOf Ex.pCV.reg)).dense = .ok d →
          Svd.SvdCert Real.sqrt (Svd.wTol : ℝ) Ex.pCV.m Ex.pCV.n
            (dotProblem Ex.pCV Ad bd (regOf Ex.pCV.reg)).dense d)
        ∧ ∃ a, adjSolve .svd Ex.pCV = .ok a ∧ a.x = #[0, 1/8] ∧ a.defect = 1)
    ∧ (@Svd.decompose ℚ (fieldScalar Ex.sqV) 3 2 #[#[6, 8], #[3, 4], #[6, 8]]).toOption.map
          (fun d => (d.U, d.W, d.V))
        = some (#[#[1/3, -2/3], #[-14/15, -1/3], #[2/15, -2/3]], #[0, 15], #[#[4/5, -3/5], #[-3/5, -4/5]]) := by
  obtain ⟨s, hs, hx, hd, -⟩ := Ex.pCVdot_cert_answer
  exact ⟨by decide, Ex.pCV_rows, Ex.pCV_weight, List.nodup_singleton 1, Ex.pCV_homogenise, Ex.dCV_cert,
    ⟨s, hs, hx, hd⟩, fun hdec => ⟨Ex.pCV_hc hdec, Ex.pCV_adj_svd hdec⟩, Ex.dCV_decompose_rat⟩

/-- the theorem applied to the instance (premise = `Ex.pCV_decompose`, see above): the answer of
    `Adj` + svd on `Ex.pCV` is a least-squares solution of the original weighted problem -/
example (hdec : Svd.decompose 3 2 (#[#[6, 8], #[3, 4], #[6, 8]] : DMat ℝ) = .ok Ex.dCV) :
    ∃ a, adjSolve .svd Ex.pCV = .ok a ∧
      IsLSSolution Ex.pCV.A Ex.pCV.b Ex.PCV Ex.pCV.S (toVec Ex.pCV.n a.x) (toVec Ex.pCV.m a.r) a.rtr := by
  obtain ⟨a, h, -⟩ := Ex.pCV_adj_svd hdec
  exact ⟨a, h, C01_adj_svd_cert Ex.pCV (by decide) Ex.pCV_rows Ex.PCV Ex.pCV_weight
    (List.nodup_singleton 1) (Ex.pCV_hc hdec) a h⟩

/-- non-vacuity of `C01_adj_cholesky` (Props/C01/Adj.lean) with defect > 0 THROUGH `Adj`: the same
    problem over ℚ (`Ex.sqQ` exact on the pivots 4, 9, 4 of the blocks and on the Gram–Schmidt pivot 1;
    kernel evaluation): every hypothesis holds, and `Adj` + cholesky answers with defect 1,
    x = (0, 1/2), r = A x − b = (1, 1/2, −1), `rtr = 1/2` -/
example : SqrtExactP (Ex.pCS ℚ) ∧ (dimsOf (Ex.pCS ℚ)).sum = (Ex.pCS ℚ).m ∧ RowsOK (Ex.pCS ℚ)
    ∧ (Ex.pCS ℚ).C * Ex.PCS ℚ = 1
    ∧ (∀ Ad bd, homogenise (Ex.pCS ℚ) = .ok (Ad, bd) →
        Chol.UnambiguousF (cholFact (dotProblem (Ex.pCS ℚ) Ad bd (regOf (Ex.pCS ℚ).reg))) ∧
        Chol.GsSqrtExact (dotProblem (Ex.pCS ℚ) Ad bd (regOf (Ex.pCS ℚ).reg)) ∧
        ∀ S, Chol.regList (Ex.pCS ℚ).n (regOf (Ex.pCS ℚ).reg) = some S → S.Nodup)
    ∧ ∃ a, adjSolve .chol (Ex.pCS ℚ) = .ok a ∧ a.defect = 1 ∧ a.x = #[0, 1/2]
        ∧ a.r = #[1, 1/2, -1] ∧ a.rtr = 1/2 :=
  ⟨Ex.pCSQ_sqrt, by decide, Ex.pCSQ_rows, Ex.pCSQ_weight, Ex.pCSQ_hchol, Ex.pCSQ_adj_chol⟩

end Gama.Props.C01
