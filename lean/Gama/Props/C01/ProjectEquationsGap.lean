/-
  C01 — network ↦ least-squares solution, from ONE numeric premise (round 7; gap #1 of notes/CLAUSES.md audit #3,
  C01 "Missing 1").

      `projectEquations net = .ok (np, u)`  (the executed model of `LocalNetwork::project_equations()`)
      (no `NoAlias` any more, round 12: a row that names one unknown twice is covered — the coefficients add up)
      + `RankGap (toProblem np).A (m0²•Pc) (toProblem np).S τ`  ("rank numerically unambiguous" on the ORIGINAL system)
      ⇒ what `netSolve alg np` returns (envelope, cholesky, gso) IS the weighted least-squares solution

  i.e. `C01_net_of_gap` with every structural hypothesis discharged by the theorems about `project_equations()`:
  `hdim` ← `C01_pe_dimsN`, `RowsOK` ← `C01_pe_rowsOK`, and — new — `hreg : Env.RegListOK` ← `C01_pe_minx`
  (`C01_pe_regListOK`; the flag "`hreg` follows in one line but is not discharged" of the audit).
  `C01_net_envelope_of_project_equations_noreg` is the envelope façade theorem without `hreg`.

  What the rows of `np` ARE (the Jacobian at the approximate coordinates; `np.rhs` the misclosures) is
  `C05_pe_design_matrix_is_jacobian` (`Props/C05ProjectEquations.lean`), about the same function on the carrier ℝ with
  the real trigonometric functions; the present theorems hold for every ordered field with a square root and ANY
  trigonometric functions (`trigOfField t`).

  Witness (`Lemmas/ProjectEquationsGapExample.lean`, kernel evaluation over ℚ with the partial root `Ex.sqQ`, exact on
  every value whose root is taken): `Ex.netW` — levelling, `A` fixed, `B` constrained, `C` free, three height
  differences `A→B`, `B→C`, `A→C` with variances 1, 4, 1, `m0 = 2`, stale index fields — `projectEquations` returns
  `Ex.npW` (3 rows, 2 unknowns, `min_x_ = [1]`), every hypothesis of the theorem holds for it (`RankGap` with the
  default `τ = 2⁻¹³` included), `netSolve .env` and `netSolve .chol` are RUN on it and return `x = (35/3, 85/3)`,
  `r = (5/3, 20/3, −5/3)`, `[pvv] = 200/3`, and that answer satisfies the conclusion.  The theorem itself cannot be
  instantiated at ℚ (`Gso.SqrtField`: a global square root) — the conclusion is checked on the evaluated answer;
  gso takes irrational roots on this system and is not evaluated.
-/
import Gama.Props.C01.ProjectEquations
import Gama.Props.C01.Gap2
import Gama.Lemmas.ProjectEquationsGapExample
namespace Gama.Props.C01
open Gama Gama.Lin Gama.PE Gama.Ls Gama.Ls.Net Gama.LS Matrix

set_option linter.unusedSectionVars false

section reg
variable {K : Type} [Field K] [LinearOrder K] [IsStrictOrderedRing K] [SqrtFn K]
attribute [local instance 2000] scalarOfField

/-- **`Env.RegListOK`** (hypothesis `hreg` of `C01_net_envelope`, `C01_net_of_gap`, `Net.SolverHyp`): the list
    `project_equations()` hands to `least_squares->min_x` names distinct unknowns within `1..n` -/
theorem C01_pe_regListOK (t : TrigFns K) (net : PE.Net K) (np : NetProblem K) (u : Unknowns K)
    (hpe : @projectEquations K (trigOfField t) net = .ok (np, u)) : Env.RegListOK (toProblem np) := by
  obtain ⟨_, hnd, hr, _⟩ := @C01_pe_minx K (trigOfField t) net np u hpe
  intro l hl
  have e : l = np.minx := by
    have h : Reg.subset np.minx = Reg.subset l := hl
    injection h with h'; exact h'.symm
  subst e
  exact ⟨hnd, hr⟩

/-- **`C01_net_envelope` with NO structural hypothesis left** (`hdim`, `RowsOK`, `hreg` all from `project_equations()`) -/
theorem C01_net_envelope_of_project_equations_noreg (hsq : IsSqrt (SqrtFn.sq : K → K)) (t : TrigFns K)
    (net : PE.Net K) (np : NetProblem K) (u : Unknowns K)
    (hpe : @projectEquations K (trigOfField t) net = .ok (np, u))
    (hm0 : np.m0 ≠ 0)
    (Pc : Matrix (Fin (toProblem np).m) (Fin (toProblem np).m) K) (hPc : Sigma np * Pc = 1)
    (hU : Env.SolveUnambiguous (toProblem np))
    (a : NetAnswer K) (h : netSolve .env np = .ok a) :
    IsLSSolution (toProblem np).A (toProblem np).b ((np.m0 * np.m0) • Pc) (toProblem np).S
      (toVec (toProblem np).n a.x) (toVec (toProblem np).m a.r) a.pvv :=
  C01_net_envelope_of_project_equations hsq t net np u hpe hm0 Pc hPc (C01_pe_regListOK t net np u hpe) hU a h

end reg

section gap
variable {K : Type} [Field K] [LinearOrder K] [IsStrictOrderedRing K] [Gso.SqrtField K]
attribute [local instance] sqrtFnOfSqrtField
attribute [local instance 2000] scalarOfField

/-- **network ↦ least-squares solution.**  For the system `project_equations()` assembles, under the single numeric
    premise `RankGap` on the original `(A, P = m0²·Σ⁻¹, S = min_x_)`, envelope, cholesky and gso return the weighted
    least-squares solution: `r = A x − b`, `AᵀP r = 0`, `[pvv] = rᵀP r`, `x ⟂_S ker A`. -/
theorem C01_net_of_project_equations_gap (t : TrigFns K) (net : PE.Net K) (np : NetProblem K) (u : Unknowns K)
    (hpe : @projectEquations K (trigOfField t) net = .ok (np, u))
    (hm0 : np.m0 ≠ 0)
    (Pc : Matrix (Fin (toProblem np).m) (Fin (toProblem np).m) K) (hPc : Sigma np * Pc = 1)
    {τ : K} (hτ : GapThresholds τ)
    (hgap : RankGap (toProblem np).A ((np.m0 * np.m0) • Pc) (toProblem np).S τ)
    (alg : Alg) (halg : alg ≠ .svd) (a : NetAnswer K) (hs : netSolve alg np = .ok a) :
    IsLSSolution (toProblem np).A (toProblem np).b ((np.m0 * np.m0) • Pc) (toProblem np).S
      (toVec (toProblem np).n a.x) (toVec (toProblem np).m a.r) a.pvv :=
  C01_net_of_gap np (C01_pe_dimsN t net np u hpe) (@C01_pe_rowsOK K (trigOfField t) net np u hpe) hm0 Pc hPc
    (C01_pe_regListOK t net np u hpe) hτ hgap alg halg a hs

/-- the trace premises of the three solvers on that system, from the same single premise
    (`C01_net_unambiguous_of_gap` without `hdim`, `RowsOK`, `hreg`) -/
theorem C01_net_unambiguous_of_project_equations_gap (t : TrigFns K) (net : PE.Net K) (np : NetProblem K)
    (u : Unknowns K) (hpe : @projectEquations K (trigOfField t) net = .ok (np, u))
    (hm0 : np.m0 ≠ 0)
    (Pc : Matrix (Fin (toProblem np).m) (Fin (toProblem np).m) K) (hPc : Sigma np * Pc = 1)
    {τ : K} (hτ : GapThresholds τ)
    (hgap : RankGap (toProblem np).A ((np.m0 * np.m0) • Pc) (toProblem np).S τ) :
    Env.SolveUnambiguous (toProblem np) :=
  (C01_net_unambiguous_of_gap np (C01_pe_dimsN t net np u hpe) (@C01_pe_rowsOK K (trigOfField t) net np u hpe)
    hm0 Pc hPc (C01_pe_regListOK t net np u hpe) hτ hgap).1.1

end gap

/-! ### the evaluated witness -/

section examples
open Gama.PE.Ex Gama.Ls.Ex
attribute [local instance 2000] scalarOfField

/-- the model RETURNS on `Ex.netW`, with the closed system `Ex.npW`; every hypothesis of
    `C01_net_of_project_equations_gap` holds for it — `NoAlias`, `m0 ≠ 0`, `Σ·Pc = 1`, `RankGap` with `τ = 2⁻¹³`
    (`GapThresholds 2⁻¹³` is `C01_gap_thresholds_default`, stated for fields with a global root) — the structural facts the theorem derives (`hdim`, `RowsOK`, `RegListOK`) are obtained BY the
    theorems above at the carrier ℚ; `netSolve .env` and `netSolve .chol` run on the OUTPUT of `projectEquations`
    return `x = (35/3, 85/3)`, `r = (5/3, 20/3, −5/3)`, `[pvv] = 200/3`, and this answer satisfies the conclusion -/
example : ∃ u, @projectEquations ℚ (trigOfField tQ) netW = .ok (npW, u) ∧
    (∀ ob ∈ revisedObs u.net, NoAlias ob) ∧ npW.m0 ≠ 0 ∧ Sigma npW * PcW = 1 ∧
    RankGap (toProblem npW).A ((npW.m0 * npW.m0) • PcW) (toProblem npW).S (1 / 8192) ∧
    (dimsN npW).sum = npW.m ∧ RowsOK (toProblem npW) ∧ Env.RegListOK (toProblem npW) ∧
    (∀ alg, alg = Alg.env ∨ alg = Alg.chol → ∃ a, netSolve alg npW = .ok a ∧
      a.x = #[35/3, 85/3] ∧ a.r = #[5/3, 20/3, -5/3] ∧ a.pvv = 200/3 ∧
      IsLSSolution (toProblem npW).A (toProblem npW).b ((npW.m0 * npW.m0) • PcW) (toProblem npW).S
        (toVec (toProblem npW).n a.x) (toVec (toProblem npW).m a.r) a.pvv) := by
  obtain ⟨u, hu, hna⟩ := netW_pe
  refine ⟨u, hu, hna, by decide, npW_sigma, npW_rankgap,
    C01_pe_dimsN tQ netW npW u hu, @C01_pe_rowsOK ℚ (trigOfField tQ) netW npW u hu,
    C01_pe_regListOK tQ netW npW u hu, ?_⟩
  intro alg halg
  obtain ⟨a, ha, hx, hr, hp⟩ := npW_solve alg halg
  exact ⟨a, ha, hx, hr, hp, npW_isLS a hx hr hp⟩

end examples

end Gama.Props.C01
