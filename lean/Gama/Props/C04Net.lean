/-
  C04 — third part (round 9): the NUMERIC meaning of the answers of a `LocalNetwork` after any history.

  `Props/C04Full.lean` proves that the cascade machine answers from artefacts of the CURRENT configuration, produced
  by a solver that held the CURRENT list.  Here the symbolic terms are evaluated by the numeric models of the very
  same code — `PE.projectEquations` (Model/ProjectEquations.lean) for what `project_equations()` assembles,
  `Ls.Net.netSolve` (Model/NetFacade.lean) for what `vyrovnani_()` reads from the solver — and the value after ANY
  history is shown to be `netSolve alg np` with `projectEquations net = .ok (np, u)`: a function of the network the
  current configuration names and of the selected algorithm alone.  The machine's abstract list `lst` is tied to
  `np.minx` (`lstOf`), and the two sites the argument rests on — the hand-over
  `least_squares->min_x(min_n_, min_x_)` in `project_equations()` and `set_algorithm()` — are no longer hand-written:
  `handCode`, `setAlgGen Gen.setAlg` interpret rows regenerated from network.cpp by tools/gen/c04_cascade.py.
  Models: Model/NetState.lean, Model/NetDenote.lean, Gen/NetCascade.lean; lemmas: Lemmas/NetStateSolver.lean,
  Lemmas/NetDenote.lean.
-/
import Gama.Lemmas.NetDenote
import Gama.Lemmas.NetDenoteExample
import Gama.Props.C01.ProjectEquations
namespace Gama.Props.C04
open Gama Gama.C04 Gama.C04.Net

/-- **the hand-over site, as read from the source.**  `Gen.handOver` (regenerated) describes ONE call
    `least_squares->min_x(min_n_, min_x_)`, a statement at brace depth 0 of `project_equations()`, after the last write
    of `min_x_`/`min_n_`, after the solver's `reset(…)`, before `tst_rov_opr_ = true`, every earlier `return` being the
    recursive restart; interpreted (`handGen`), the solver is told the list just built on EVERY run.  A call moved
    before the rebuild (stale `min_x_`), guarded, with other arguments, or removed gives another table and this
    `rfl` — and with it `net_solver_holds_current_minx`, `net_answer_denotes` — fails. -/
theorem net_handover_site (prev : Option (List Nat)) (new : List Nat) (held : SList) :
    Gen.handOver = ⟨1, true, ["min_n_", "min_x_"], true, true, true, true⟩
    ∧ handCode prev new held = .given new :=
  ⟨rfl, handCode_eq prev new held⟩

/-- **`set_algorithm(name)`, as read from the source.**  On every path a brand-new solver object of the class the name
    selects (`gso`, `svd`, `cholesky`, `envelope`; anything else: envelope) replaces the old one, nothing of the old
    object is read, the new one is told no list (default: all unknowns), `algorithm_` stores the name and
    `update(Points)` clears all four flags. -/
theorem net_set_algorithm_site (m : MState) (name : String) :
    (mstep ⟨⟨false⟩, fun _ => []⟩ m (.setAlgorithm name)).1
      = { m with net := { m.net with cfg := bump m.net.cfg 0, f0 := false, f1 := false, f2 := false, f3 := false },
                 held := .dflt, cls := classOf Gen.setAlg name }
    ∧ classOf Gen.setAlg "gso" = "AdjGSO" ∧ classOf Gen.setAlg "svd" = "AdjSVD"
    ∧ classOf Gen.setAlg "cholesky" = "AdjCholDec" ∧ classOf Gen.setAlg "envelope" = "AdjEnvelope"
    ∧ classOf Gen.setAlg name ∈ ["AdjGSO", "AdjSVD", "AdjCholDec", "AdjEnvelope"] := by
  refine ⟨?_, by decide, by decide, by decide, by decide, ?_⟩
  · show setAlgGen Gen.setAlg m name = _
    rw [setAlgCode_eq, (update_eq _).1]
  · unfold classOf
    cases h : Gen.setAlg.classes.find? (fun e => e.1 == name) with
    | none => decide
    | some e =>
      have := List.mem_of_find?_eq_some h
      have hall : ∀ e ∈ Gen.setAlg.classes, e.2 ∈ ["AdjGSO", "AdjSVD", "AdjCholDec", "AdjEnvelope"] := by decide
      exact hall e this

/-- **`lst` is `np.minx`.**  For the world `W` the list the machine calls current is the regularisation list
    `PE.projectEquations` returns for the network of the current configuration — by `C01_pe_minx` the (distinct, in
    range) indices of the constrained coordinates in the numbering the call ends with. -/
theorem net_current_list_is_pe_minx {K : Type} [TrigScalar K] (W : NWorld K) (inp : NInput) (s : NState)
    (np : Ls.Net.NetProblem K) (u : PE.Unknowns K) (h : PE.projectEquations (W (snap s.cfg 2)) = .ok (np, u)) :
    curList (minputOf W inp) s = .given np.minx
    ∧ np.minx = MinX.fillMin (PE.idxFn u.net.idx) (PE.ptsOf u.net) ∧ np.minx.Nodup ∧ (∀ i ∈ np.minx, 1 ≤ i ∧ i ≤ np.n) :=
  ⟨curList_of_pe W inp s np u h, (Props.C01.C01_pe_minx _ np u h).1, (Props.C01.C01_pe_minx _ np u h).2.1,
   (Props.C01.C01_pe_minx _ np u h).2.2.1⟩

/-- **Numeric meaning (`answer_denotes`, network level).**  `W` says which network every configuration vector stands
    for.  After ANY history of configuration changes (each with its `update(L)`), `update_*()` calls, calls of covered
    public members and `set_algorithm(name)` (no solver exception), the value denoted by the answer of a covered member
    — every artefact read evaluated on the configuration it was computed from, the adjustment artefacts by `netSolve`
    with the algorithm of the class of the solver object that PRODUCED them, regularised over the list that object HELD
    — is `specRead`: for the equations `PE.projectEquations (W (snap cfg 2))`, for the adjustment `netSolve alg np` on the
    `(np, u)` it returns, `alg` the algorithm selected last.  The right-hand side mentions neither the history, nor the
    solver object's list, nor a ghost. -/
theorem net_answer_denotes {K : Type} [TrigScalar K] (W : NWorld K) (inp : NInput) (hthr : inp.throws = false)
    (c0 : Cfg) (cls0 : String) (ops : List MOp) (hops : ∀ o ∈ ops, o.Ok) (mem : Gen.Member) (hm : mem.WF) :
    let m := mrun (minputOf W inp) (minit c0 cls0) ops
    denoteOut W (mstep (minputOf W inp) m (.net (.call mem))).2 = mem.reads.map (specRead W m.cls m.net.cfg) :=
  denote_step W inp hthr (mrun_inv _ hthr (minv_init _ c0 cls0) hops) mem hm

/-- … in the form of the clause: if `project_equations` succeeds on the network of the current configuration,
    `projectEquations net = .ok (np, u)`, and `alg` is the algorithm of the current solver class, every adjustment
    artefact read denotes `netSolve alg np` and every level-2 artefact `(np, u)` itself. -/
theorem net_answer_is_netSolve {K : Type} [TrigScalar K] (W : NWorld K) (inp : NInput) (hthr : inp.throws = false)
    (c0 : Cfg) (cls0 : String) (ops : List MOp) (hops : ∀ o ∈ ops, o.Ok) (mem : Gen.Member) (hm : mem.WF)
    (alg : Ls.Alg) (np : Ls.Net.NetProblem K) (u : PE.Unknowns K) :
    let m := mrun (minputOf W inp) (minit c0 cls0) ops
    algOfClass m.cls = some alg → PE.projectEquations (W (snap m.net.cfg 2)) = .ok (np, u) →
    denoteOut W (mstep (minputOf W inp) m (.net (.call mem))).2
      = mem.reads.map fun l => if l = 3 then NDen.adj (Ls.Net.netSolve alg np) else if l = 2 then .pe (.ok (np, u)) else .sym := by
  intro m ha hp
  rw [net_answer_denotes W inp hthr c0 cls0 ops hops mem hm]
  apply List.map_congr_left
  intro l hl
  obtain ⟨e, he, hle⟩ := hm.reads l hl
  have he3 := hm.ens e he
  have hl3 : l = 0 ∨ l = 1 ∨ l = 2 ∨ l = 3 := by omega
  rcases hl3 with rfl | rfl | rfl | rfl
  · rfl
  · rfl
  · show NDen.pe (PE.projectEquations (W (snap m.net.cfg 2))) = _
    rw [hp]; rfl
  · show (match algOfClass m.cls, PE.projectEquations (W (snap m.net.cfg 2)) with
          | some alg, .ok (np, _) => NDen.adj (Ls.Net.netSolve alg np) | _, _ => .stale) = _
    rw [ha, hp]; rfl

/-! ### non-vacuity and witnesses -/

section Examples
open Gama.PE.Ex Gama.PE Gama.Ls Gama.Ls.Net Gama.Ls.Ex
attribute [local instance 2000] scalarOfField

/-- **non-vacuity of `net_answer_is_netSolve` on an executed network** (world `exW`, Lemmas/NetDenoteExample.lean; ℚ; `decide +kernel` runs `projectEquations`
    and `netSolve`).  History: `solve()` with the envelope solver, `set_algorithm("cholesky")`, the datum moved from B
    to C (a change at level Points).  Then `residuals()` denotes `netSolve .chol np'` with `np'` the problem
    `project_equations` assembles for the NEW network — `min_x_ = [2]` — evaluated: `x = (35/3, 85/3)`, `[pvv] = 200/3`;
    and `degrees_of_freedom()` (reads levels 2 and 3) denotes the pair (`np'`, that answer). -/
example :
    let solve := memberD "solve"
    let resid := memberD "residuals"
    let dof := memberD "degrees_of_freedom"
    let ops := [MOp.net (.call solve), .setAlgorithm "cholesky", .net (.change 0)]
    let inp : NInput := ⟨false⟩
    let m := mrun (@minputOf ℚ (trigOfField tQ) exW inp) (minit ⟨0, 0, 0, 0⟩ "AdjEnvelope") ops
    resid.WF ∧ dof.WF ∧ (∀ o ∈ ops, o.Ok) ∧ m.cls = "AdjCholDec" ∧ m.net.cfg = ⟨2, 0, 0, 0⟩ ∧
    ∃ u a, @projectEquations ℚ (trigOfField tQ) (exW (snap m.net.cfg 2)) = .ok ({ npW with minx := [2] }, u)
      ∧ netSolve .chol { npW with minx := [2] } = .ok a ∧ a.x = #[35/3, 85/3] ∧ a.pvv = 200/3
      ∧ @denoteOut ℚ (trigOfField tQ) exW (mstep (@minputOf ℚ (trigOfField tQ) exW inp) m (.net (.call resid))).2
          = [NDen.adj (.ok a)]
      ∧ @denoteOut ℚ (trigOfField tQ) exW (mstep (@minputOf ℚ (trigOfField tQ) exW inp) m (.net (.call dof))).2
          = [NDen.pe (.ok ({ npW with minx := [2] }, u)), NDen.adj (.ok a)] := by
  intro solve resid dof ops inp m
  have hr : resid.WF := Gen.Member.wf_of_wfb (by decide)
  have hd : dof.WF := Gen.Member.wf_of_wfb (by decide)
  have hops : ∀ o ∈ ops, o.Ok := by
    intro o ho
    simp only [ops, List.mem_cons, List.mem_nil_iff, or_false] at ho
    rcases ho with rfl | rfl | rfl
    · exact Gen.Member.wf_of_wfb (by decide)
    · trivial
    · show (0 : Nat) ≤ 3; decide
  have hcls : m.cls = "AdjCholDec" := by decide
  have hcfg : m.net.cfg = ⟨2, 0, 0, 0⟩ := by decide
  obtain ⟨u, hu, _⟩ := netW'_pe
  have hpe : @projectEquations ℚ (trigOfField tQ) (exW (snap m.net.cfg 2)) = .ok ({ npW with minx := [2] }, u) := by
    rw [hcfg]; exact hu
  have hs : (netSolve .chol { npW with minx := [2] }).toOption.map (fun a => (a.x, a.pvv))
      = some (#[35/3, 85/3], 200/3) := by decide +kernel
  obtain ⟨a, ha, hxa⟩ := ok_of_toOption hs
  simp only [Prod.mk.injEq] at hxa
  have halg : algOfClass m.cls = some .chol := by rw [hcls]; rfl
  refine ⟨hr, hd, hops, hcls, hcfg, u, a, hpe, ha, hxa.1, hxa.2, ?_, ?_⟩
  · have := @net_answer_is_netSolve ℚ (trigOfField tQ) exW inp rfl ⟨0, 0, 0, 0⟩ "AdjEnvelope" ops hops resid hr .chol _ u halg hpe
    rw [this, ← ha]; rfl
  · have := @net_answer_is_netSolve ℚ (trigOfField tQ) exW inp rfl ⟨0, 0, 0, 0⟩ "AdjEnvelope" ops hops dof hd .chol _ u halg hpe
    rw [this, ← ha]; rfl

end Examples

/-- **the three regenerated facts are needed (witnesses on the symbolic machine; list constant `[1]`).**
    History: adjust, `set_algorithm("cholesky")`, `residuals()`.  The code: the artefacts read were produced by a
    `AdjCholDec` object holding `[1]`.  (a) hand-over only when the list changed (seeded/C04-seed4, `handOnChange`): a
    solver left at its default (ALL unknowns); (b) hand-over moved BEFORE the rebuild of `min_x_` (table with
    `afterBuild := false`): on the first run the solver is told the previous run's list — the empty one; after
    `set_algorithm` it happens to be told the right content, a fresh network is not; (c) `set_algorithm` keeps the old
    solver object (`setAlgKeep`: `freshObject := false`): the adjustment comes from an `AdjEnvelope` object although
    `cholesky` was selected. -/
example :
    let resid := memberD "residuals"
    let inp : MInput := { net := { throws := false }, lst := fun _ => [1] }
    let ops := [MOp.net (.call resid), .setAlgorithm "cholesky"]
    let stale := handGen { Gen.handOver with afterBuild := false }
    (mstep inp (mrun inp (minit ⟨0, 0, 0, 0⟩ "AdjEnvelope") ops) (.net (.call resid))).2.2 = some (.given [1], "AdjCholDec")
    ∧ (mstepWith handOnChange Gen.setAlg inp (mrunWith handOnChange Gen.setAlg inp (minit ⟨0, 0, 0, 0⟩ "AdjEnvelope") ops)
        (.net (.call resid))).2.2 = some (.dflt, "AdjCholDec")
    ∧ (mstepWith stale Gen.setAlg inp (minit ⟨0, 0, 0, 0⟩ "AdjEnvelope") (.net (.call resid))).2.2 = some (.given [], "AdjEnvelope")
    ∧ (mstepWith stale Gen.setAlg inp (mrunWith stale Gen.setAlg inp (minit ⟨0, 0, 0, 0⟩ "AdjEnvelope") ops)
        (.net (.call resid))).2.2 = some (.given [1], "AdjCholDec")
    ∧ (mstepWith handCode setAlgKeep inp (mrunWith handCode setAlgKeep inp (minit ⟨0, 0, 0, 0⟩ "AdjEnvelope") ops)
        (.net (.call resid))).2.2 = some (.given [1], "AdjEnvelope") := by decide

end Gama.Props.C04
