/-
  C11 — the adjustment-results reader `LocalNetworkAdjustmentResults::Parser`
  (lib/gnu_gama/xml/localnetwork_adjustment_results.cpp): ACCEPTANCE.  The other Props files about this reader say what
  is refused and that memory stays safe; here: a well-formed, self-consistent `<cov-mat>` element IS accepted, for
  every dimension, band width and word list, with the exact state the reader is left in; and the located counterparts
  (which event carries the diagnostic when one word is malformed / words are missing).
  Property theorems only; lemmas in Gama/Lemmas/AdjResAccept.lean, documents in Gama/Model/AdjResDoc.lean.
  The tables are REGENERATED from the C++ on every run; the table facts used (`tagfun`, `tagTable`, `startOps`,
  `endOps` at the states / tags / handlers of `<cov-mat>`) are re-checked against what the code says now.
-/
import Gama.Lemmas.AdjResAccept
import Gama.Lemmas.AdjResExamples
import Gama.Lemmas.LiteralsComplete
set_option maxRecDepth 20000
namespace Gama.Props.C11
open Gama Gama.AdjRes Gama.AdjRes.Ex Gama.Lit

/-- ACCEPTANCE of `<cov-mat>`.  For EVERY clean prefix `pre` (no error recorded, `state == s_cov_mat`: `<cov-mat>` was just
    opened and is the innermost open element, only blanks since, `u` adjusted unknowns announced), every `d b` with
    `b < d ≤ u` and `(b+1)·d ≤ INT_MAX`, every text `sd`, `sb` that `get_int()` reads as `d`, `b`, and every list `ws` of
    exactly `covElems d b = d(b+1) − b(b+1)/2` words of the float language, the events
    `<dim>sd</dim> <band>sb</band> (<flt>w</flt>)* </cov-mat>` leave the reader in EXACTLY the state given: no error,
    `s_cov_mat_end`, `<cov-mat>` popped, the storage allocated once with `covElems d b` elements, `covElems d b` stores at
    the offsets 0, 1, 2, … (newest first in the log) each below the size of the storage, `tmp_i == tmp_e == end()`;
    every other field (unknowns, flags, earlier writes, …) untouched.  Hence accepted so far. -/
theorem C11_adjres_covmat_accepted (pre : List Event) (rest : List Handler) (sd sb : List Char) (ws : List (List Char))
    (d b : Nat)
    (herr : (run St.init pre).err = none) (hst : (run St.init pre).state = .cov_mat)
    (hstk : (run St.init pre).stack = .cov_mat :: rest) (hdata : (run St.init pre).data.all isSpace = true)
    (hsd : isInteger sd = true ∧ extractInt sd = d) (hsb : isInteger sb = true ∧ extractInt sb = b)
    (hdu : d ≤ (run St.init pre).unknowns) (hbd : b < d) (hmax : (b + 1) * d ≤ 2147483647)
    (hlen : ws.length = covElems d b) (hws : ∀ w ∈ ws, FloatLang w) :
    let s0 := run St.init pre
    let sf := run St.init (pre ++ covBody sd sb ws)
    let N := covElems d b
    sf = { s0 with state := .cov_mat_end, stack := rest, data := [], dim := d, band := b, n := pre.length + 7 + 3 * N,
                   covSize := N, iterI := some N, iterE := some N,
                   writes := ((List.range N).map (fun j => (j, N))).reverse ++ s0.writes,
                   allocs := (N, s0.unknowns, (b : Int)) :: s0.allocs } ∧
    sf.err = none ∧ outcome sf = .accepted ∧
    (∀ j, j < N → sf.writes[N - 1 - j]? = some (j, N)) ∧
    (∀ x ∈ ((List.range N).map (fun j => (j, N))), x.1 < x.2) := by
  intro s0 sf N
  have hn : s0.n = pre.length := by show (run St.init pre).n = _; rw [run_n]; simp [St.init]
  have hfl : fillLog 0 N N = ((List.range N).map (fun j => (j, N))).reverse := by
    rw [fillLog_eq]; simp
  have heq : sf = { s0 with state := .cov_mat_end, stack := rest, data := [], dim := d, band := b,
                            n := pre.length + 7 + 3 * N, covSize := N, iterI := some N, iterE := some N,
                            writes := ((List.range N).map (fun j => (j, N))).reverse ++ s0.writes,
                            allocs := (N, s0.unknowns, (b : Int)) :: s0.allocs } := by
    show run St.init (pre ++ covBody sd sb ws) = _
    rw [run_append, run_covBody_ok s0 rest sd sb ws d b hst hstk hdata hsd.1 hsd.2 hsb.1 hsb.2 hdu hbd hmax hlen
      (fun w hw => (isFloat_iff w).mpr (hws w hw)), hfl, hn]
  refine ⟨heq, ?_, ?_, ?_, ?_⟩
  · rw [heq]; exact herr
  · rw [heq]; simp [outcome]
  · intro j hj
    rw [heq]
    show (((List.range N).map (fun j => (j, N))).reverse ++ s0.writes)[N - 1 - j]? = some (j, N)
    have hlenL : ((List.range N).map (fun j => (j, N))).reverse.length = N := by simp
    rw [List.getElem?_append_left (by rw [hlenL]; omega), List.getElem?_reverse (by simp; omega)]
    have : (List.map (fun j => (j, N)) (List.range N)).length - 1 - (N - 1 - j) = j := by simp; omega
    rw [this]
    simp [hj]
  · intro x hx
    simp only [List.mem_map, List.mem_range] at hx
    obtain ⟨j, hj, rfl⟩ := hx
    exact hj

/-- LOCATED refusal, malformed word.  Same prefix, `d`, `b`; the first `k < covElems d b` words are in the float language,
    word number `k` is NOT: whatever follows (`more`), the recorded error is "float syntax error" at the index of the
    `</flt>` event of THAT word — the events before it are `pre`, `<dim>…</band>`, the `k` good elements, `<flt>`, its
    text — and the document is refused with that location.  (The handler goes on after `error()`: the element is still
    stored, inside the storage — `C11_adjres_cov_fill_in_bounds`.) -/
theorem C11_adjres_covmat_bad_flt_located (pre : List Event) (sd sb : List Char) (ws1 : List (List Char)) (w : List Char)
    (more : List Event) (d b : Nat)
    (herr : (run St.init pre).err = none) (hst : (run St.init pre).state = .cov_mat)
    (hdata : (run St.init pre).data.all isSpace = true)
    (hsd : isInteger sd = true ∧ extractInt sd = d) (hsb : isInteger sb = true ∧ extractInt sb = b)
    (hdu : d ≤ (run St.init pre).unknowns) (hbd : b < d) (hmax : (b + 1) * d ≤ 2147483647)
    (hlen : ws1.length < covElems d b) (hws : ∀ x ∈ ws1, FloatLang x) (hw : ¬ FloatLang w) :
    let before := pre ++ covHead sd sb ++ fltEvents ws1 ++ [.start "flt" [], .text w]
    let sf := run St.init (before ++ [.stop] ++ more)
    sf.err = some (before.length, .e_float_syntax_error) ∧
    before.length = pre.length + 6 + 3 * ws1.length + 2 ∧
    outcome sf = .refused (some (before.length, .e_float_syntax_error)) := by
  intro before sf
  have hn : (run St.init pre).n = pre.length := by rw [run_n]; simp [St.init]
  have hlenb : before.length = pre.length + 6 + 3 * ws1.length + 2 := by
    simp [before, covHead, leafC, fltEvents_length] <;> omega
  have hwf : isFloat w = false := by
    cases h : isFloat w
    · rfl
    · exact absurd ((isFloat_iff w).mp h) hw
  have he : sf.err = some (before.length, .e_float_syntax_error) := by
    have : before ++ [.stop] ++ more = pre ++ (covHead sd sb ++ fltEvents ws1 ++ leafC "flt" w ++ more) := by
      simp [before, leafC]
    show (run St.init (before ++ [.stop] ++ more)).err = _
    rw [this, run_append, run_covBody_bad (run St.init pre) sd sb ws1 w more d b hst herr hdata hsd.1 hsd.2 hsb.1 hsb.2
      hdu hbd hmax hlen (fun x hx => (isFloat_iff x).mpr (hws x hx)) hwf, hn, hlenb]
  refine ⟨he, hlenb, ?_⟩
  have hc : Coupled sf := run_coupled _ St.init init_coupled
  have hs : sf.state = .error_ := hc.mp (by rw [he]; rfl)
  simp [outcome, hs, he]

/-- LOCATED refusal, missing words.  Same prefix, `d`, `b`; fewer than `covElems d b` words, all in the float language:
    the recorded error is "bad number of elements in covariance matrix" at the index of the `</cov-mat>` event, whatever
    follows, and the document is refused with that location. -/
theorem C11_adjres_covmat_too_few_located (pre : List Event) (rest : List Handler) (sd sb : List Char)
    (ws : List (List Char)) (more : List Event) (d b : Nat)
    (herr : (run St.init pre).err = none) (hst : (run St.init pre).state = .cov_mat)
    (hstk : (run St.init pre).stack = .cov_mat :: rest) (hdata : (run St.init pre).data.all isSpace = true)
    (hsd : isInteger sd = true ∧ extractInt sd = d) (hsb : isInteger sb = true ∧ extractInt sb = b)
    (hdu : d ≤ (run St.init pre).unknowns) (hbd : b < d) (hmax : (b + 1) * d ≤ 2147483647)
    (hlen : ws.length < covElems d b) (hws : ∀ w ∈ ws, FloatLang w) :
    let before := pre ++ covHead sd sb ++ fltEvents ws
    let sf := run St.init (before ++ [.stop] ++ more)
    sf.err = some (before.length, .e_bad_number_of_elements_in_covariance_mat) ∧
    before.length = pre.length + 6 + 3 * ws.length ∧
    outcome sf = .refused (some (before.length, .e_bad_number_of_elements_in_covariance_mat)) := by
  intro before sf
  have hn : (run St.init pre).n = pre.length := by rw [run_n]; simp [St.init]
  have hlenb : before.length = pre.length + 6 + 3 * ws.length := by
    simp [before, covHead, leafC, fltEvents_length] <;> omega
  have he : sf.err = some (before.length, .e_bad_number_of_elements_in_covariance_mat) := by
    have : before ++ [.stop] ++ more = pre ++ (covBody sd sb ws ++ more) := by
      simp [before, covBody]
    show (run St.init (before ++ [.stop] ++ more)).err = _
    rw [this, run_append, run_append]
    apply run_err_preserved
    rw [run_covBody_short (run St.init pre) rest sd sb ws d b hst hstk herr hdata hsd.1 hsd.2 hsb.1 hsb.2
      hdu hbd hmax hlen (fun x hx => (isFloat_iff x).mpr (hws x hx)), hn, hlenb]
  refine ⟨he, hlenb, ?_⟩
  have hc : Coupled sf := run_coupled _ St.init init_coupled
  have hs : sf.state = .error_ := hc.mp (by rw [he]; rfl)
  simp [outcome, hs, he]

/-! ### non-vacuity -/

/-- the hypotheses of the three theorems are met by the prefix `toCovMat` (one adjusted point with x, y, z: 3 unknowns):
    clean, `s_cov_mat`, `<cov-mat>` innermost, `d = 2`, `b = 1`, `covElems 2 1 = 3` -/
example :
    (run St.init toCovMat).err = none ∧ (run St.init toCovMat).state = .cov_mat ∧
    (run St.init toCovMat).stack = [.cov_mat, .coordinates, .gama_local_adjustment] ∧
    (run St.init toCovMat).data.all isSpace = true ∧ (run St.init toCovMat).unknowns = 3 ∧
    (isInteger "2".toList = true ∧ extractInt "2".toList = (2 : Nat)) ∧
    (isInteger " 1 ".toList = true ∧ extractInt " 1 ".toList = (1 : Nat)) ∧
    covElems (2 : Nat) (1 : Nat) = 3 ∧
    isFloat "4".toList = true ∧ isFloat "-1e0".toList = true ∧ isFloat ".5".toList = true ∧ isFloat "x".toList = false := by
  decide +kernel

/-- a concrete valid document accepted end-to-end: 2×2 band-1 matrix, three words; `s_stop`, no error, everything
    closed, the three stores at offsets 0, 1, 2 of a storage of 3 -/
example :
    let evs := toCovMat ++ covBody "2".toList " 1 ".toList ["4".toList, "-1e0".toList, ".5".toList] ++
      [.start "original-index" [], .stop, .stop, .start "observations" [], .stop, .stop]
    (run St.init evs).err = none ∧ outcome (run St.init evs) = .accepted ∧ (run St.init evs).state = .stop_ ∧
    (run St.init evs).stack = [] ∧ (run St.init evs).writes = [(2, 3), (1, 3), (0, 3)] ∧
    (run St.init evs).allocs = [(3, 3, 1)] := by decide +kernel

/-- a malformed second `<flt>` (`k = 1`): refused at ITS `</flt>` event, index 31 + 6 + 3·1 + 2 = 42 -/
example :
    let evs := toCovMat ++ covHead "2".toList "1".toList ++ fltEvents ["4".toList] ++
      [.start "flt" [], .text "x".toList] ++ [.stop] ++ fltEvents [".5".toList] ++ [.stop]
    toCovMat.length = 31 ∧
    outcome (run St.init evs) = .refused (some (42, .e_float_syntax_error)) := by decide +kernel

/-- too few `<flt>`: two of three; refused at the `</cov-mat>` event, index 31 + 6 + 3·2 = 43 -/
example :
    let evs := toCovMat ++ covBody "2".toList "1".toList ["4".toList, "-1e0".toList]
    outcome (run St.init evs) = .refused (some (43, .e_bad_number_of_elements_in_covariance_mat)) := by decide +kernel

/-! ### whole documents -/

/-- ACCEPTANCE of whole documents, sub-grammar `Doc` (Model/AdjResDoc.lean), ALL sizes: any number of adjusted points (each
    with id and x,y / z / x,y,z), any number of orientation shifts (id, approx, adj), `<cov-mat>` whose `<dim>` text reads as
    EXACTLY the number of unknowns announced (2·#xy + #z + 3·#xyz + #orientations), `0 ≤ band < dim`,
    `(band+1)·dim ≤ INT_MAX`, exactly `covElems dim band` words of the float language, any number of `<ind>` integers.
    `Doc.valid` is a decidable Bool.  Every such document is read to the end without error: accepted, `s_stop`, every
    element closed.
    `_partial`: the full statement ranges over everything gama-local writes.  Missing from the grammar (the sections are
    present but EMPTY or fixed): text of `<description>`, the attribute values of `<network-general-parameters>`, the
    content of `<network-processing-summary>`, points inside `<fixed>` / `<approximate>`, the optional elements of an
    adjusted point (`<X>`/`<Y>`/`<Z>` constrained variants, approximate values, std-devs …), `<std-error-ellipses>`, the
    `<observations>` list, white-space character data between elements, `<error>` documents. -/
theorem C11_adjres_document_accepted_partial (d : Doc) (hv : d.valid = true) :
    (run St.init d.events).err = none ∧ outcome (run St.init d.events) = .accepted ∧
    (run St.init d.events).state = .stop_ ∧ (run St.init d.events).stack = [] := by
  obtain ⟨h1, h2, h3⟩ := run_doc d hv
  refine ⟨h1, ?_, h2, h3⟩
  simp [outcome, h2]

/-- non-vacuity: `doc7` (three points of the three kinds, one orientation, 7×7 band-1 matrix with 13 words, 7 indexes;
    134 events) is valid, hence accepted by the theorem — and the run model computes the same on it -/
example : doc7.valid = true ∧ doc7.unknowns = 7 ∧ doc7.events.length = 134 ∧
    (run St.init doc7.events).state = .stop_ ∧ (run St.init doc7.events).err = none ∧
    (run St.init doc7.events).writes.length = 13 ∧ (run St.init doc7.events).allocs = [(13, 7, 1)] := by decide +kernel

example : outcome (run St.init doc7.events) = .accepted :=
  (C11_adjres_document_accepted_partial doc7 (by decide +kernel)).2.1

/-- the validity condition is not idle: with `<dim>8</dim>` (one more than the unknowns announced; 15 words as `covElems 8 1`
    asks) the document is not valid and the reader refuses it at the `</band>` event -/
example : doc7dim8.valid = false ∧
    outcome (run St.init doc7dim8.events) = .refused (some (66, .e_bad_dimension_or_bandwidth_of_covariance)) := by
  decide +kernel

end Gama.Props.C11
