/-
  C19 round 9 — gama-g3's own adjustment input (`G3Dump.dumpOf`: `adj_input_data` after
  `Model::update_linearization`, the value class `Adj` is set with and `--project-equations` writes), with the
  weights computed FROM THE MODEL'S CLUSTER COVARIANCES, and the four algorithms of class `Adj` as a theorem.

  Until now the network theorems of `Props/C19.lean` quantified a FREE weight matrix `W` (positive definite by
  hypothesis) and ANY `IsLSSolution` (the algorithms were an oracle).  Here:
    * `dumpOf net sd cls : Ls.Problem` — sparse rows of the regenerated linearisations (`G3Net.netEqs`), right-hand
      sides, the `minx` list, and one covariance block per cluster with an active observation:
      `Cluster::activeCov()` (C10's model `Cov.activeCov`) `/= apriori_sd²`, `BlockDiagonal::add_block`;
    * its matrices ARE the objects of the network theorems (`C19_dump_is_project_equations`);
    * the weight matrix is `P` with `C·P = 1`, `C = (dumpOf …).C` the block-diagonal cofactor matrix; it is positive
      definite whenever the block Cholesky of class `Adj` accepts the blocks (`C19_dump_weights_pd`);
    * `adjSolve alg (dumpOf …)` (the model of `Adj::init_least_squares` for envelope / gso / svd / cholesky,
      `Model/Ls/Adj.lean`) is a least-squares solution of the network's project equations under the input-side gap
      hypotheses of C01 STATED ON THE g3 SYSTEM (`C19_g3_adjustment_is_ls`), any two algorithms return the same
      `x`, `r`, `rtr` (`C19_g3_same_adjustment`), a consistent network is reproduced by every algorithm
      (`C19_g3_consistent_network_reproduced`), one step from displaced coordinates (`C19_g3_one_step_reproduced`);
    * buffer sizing: `dm_floats` (`C19_dm_floats_adequate`, `C19_dm_floats_observation`).
  Proofs: `Lemmas/G3DumpLemmas.lean`, `Lemmas/G3DumpFloats.lean`.
  Round 10: `C19_block_diagonal_adequate`; `Env.InputOK (dumpOf …)` derived from the decidable input predicate
  `DistinctRoles` (`C19_dump_input_ok`); distance and zenith angle in the one-step theorem by first-order exactness
  (`C19_first_order_network_is_linear`; round 13: the horizontal angle too, `Env.InputOK` unconditional).  Joint ℝ witness: `C19_witness_consistent_reproduced`,
  `C19_witness_same_adjustment` (two height records of one point, `Lemmas/G3DumpWitness.lean`; gso evaluated over ℝ).
-/
import Gama.Lemmas.G3DumpLemmas
import Gama.Lemmas.G3DumpFloats
import Gama.Lemmas.G3DumpInput
import Gama.Lemmas.G3FirstOrder
import Gama.Lemmas.G3DumpWitness
import Gama.Props.C19
namespace Gama.Props.C19
open Gama Gama.Neu Gama.G3Book Gama.G3Lin Gama.G3Net Gama.G3Dump Gama.Ls Gama.LS Gama.Ls.AdjM
open Matrix Gama.Props.C01

set_option linter.unusedSectionVars false
set_option linter.unusedVariables false

attribute [local instance] sqrtFnOfSqrtField
attribute [local instance 2000] scalarOfField

variable {ι : Type} [DecidableEq ι]

/-- **the dump is the project-equation system of the network theorems**: for `p = dumpOf net sd cls` (no hypothesis since round 13): `p.A = designOf …`, `p.b = rhsOf …`, `p.S = regSet …` (the hand definition of round 4 is what the model
    of `Adj::init_least_squares` derives from the presence of the `minx` list), and the list is `RegListOK`. -/
theorem C19_dump_is_project_equations (net : Net ι ℝ) (sd : ℝ) (cls : List (Cluster ι ℝ)) :
    (dumpOfR net sd cls).A = designOf (bookOf net (nobsOf cls)).idx.cols (netEqsR net (nobsOf cls)) ∧
    (dumpOfR net sd cls).b = rhsOf (netEqsR net (nobsOf cls)) ∧
    (dumpOfR net sd cls).S = regSet (bookOf net (nobsOf cls)).idx.cols net.points (bookOf net (nobsOf cls)) ∧
    Env.RegListOK (dumpOfR net sd cls) :=
  ⟨dump_A net sd cls (dump_rowsOK' net sd cls), dump_b net sd cls, dump_S net sd cls, dump_regListOK net sd cls⟩

/-- **the covariance blocks are the clusters' active sub-matrices over `apriori_sd²`, element by element**: block `k`
    of the dump is `(dim, band, buffer)` of `Cluster::activeCov()` of the `k`-th cluster that has an active observation,
    every stored element multiplied by `1/(sd·sd)` (`operator/=` is `*= 1/f`); and an entry of `activeCov` is the
    cluster's covariance at the positions of the active rows (`Cov.activeCov_submatrix`, C10). -/
theorem C19_dump_blocks_are_cluster_cofactors (net : Net ι ℝ) (sd : ℝ) (cls : List (Cluster ι ℝ)) :
    (dumpOfR net sd cls).cov.toList = cls.filterMap (fun cl =>
      let C := Cov.activeCov cl.cov (infoOf net cl)
      if C.dim ≠ 0 then some ⟨C.dim, C.band, (C.buf.toList.map (· * (1 / (sd * sd)))).toArray⟩ else none) := by
  show (covBlocks net sd cls).toArray.toList = _
  rw [List.toList_toArray]
  rfl

/-- **weights from the covariances are positive definite**: `homogenise p = .ok` (`CovMat::cholDec` meets no pivot
    `≤ N·ε·max diag` in any block, `Adj::choldec`, forward substitution) and `C·P = 1` ⇒ `dᵀPd > 0` for `d ≠ 0`. -/
theorem C19_dump_weights_pd (p : Problem ℝ) (hdim : (dimsOf p).sum = p.m) (P : Matrix (Fin p.m) (Fin p.m) ℝ)
    (hP : p.C * P = 1) (Ad : DMat ℝ) (bd : Array ℝ) (hh : homogenise p = .ok (Ad, bd)) :
    ∀ d, d ≠ 0 → 0 < d ⬝ᵥ P *ᵥ d :=
  weights_pd p hdim P hP Ad bd hh

/-- a full solver only answers after the homogenisation succeeded -/
theorem C19_full_answer_homogenised (alg : Alg) (halg : alg ≠ .env) (p : Problem ℝ) (a : Answer ℝ)
    (h : adjSolve alg p = .ok a) : ∃ Ad bd, homogenise p = .ok (Ad, bd) := by
  have h' : adjFull alg p = .ok a := by
    cases alg with
    | env => exact absurd rfl halg
    | chol => exact h
    | gso => exact h
    | svd => exact h
  unfold adjFull at h'
  simp only [] at h'
  cases hh : homogenise p with
  | error e => rw [hh] at h'; cases h'
  | ok AB => exact ⟨AB.1, AB.2, rfl⟩

/-- **the four algorithms on the g3 system (item "independent of algorithm", part 1)**: `C01_adj_of_gap_all` composed
    with the dump.  Hypotheses: `Env.InputOK` of the dump (block storage well formed, block dimensions add up to the
    number of equations, `RowsOK`), `C·P = 1`, and the INPUT-SIDE gap on the g3 system — `RankGap` (every exact Schur
    pivot of `AᵀPA` is 0 or `> τ`, the constrained columns resolve the defect with margin `τ`: envelope, cholesky,
    gso) and `SingGap` (every singular value of the whitened matrix is 0 or `> τ·σ_max`: svd) for
    `A = designOf (netEqsR …)`, `S = regSet`, `τ` dominating the solvers' thresholds.  Then whatever
    `Adj` + `alg` answers on gama-g3's input is a least-squares solution of the network's project equations, weights
    from the cluster covariances, minimum norm on the constrained columns. -/
theorem C19_g3_adjustment_is_ls (net : Net ι ℝ) (sd : ℝ) (cls : List (Cluster ι ℝ))
    (P : Matrix (Fin (dumpOfR net sd cls).m) (Fin (dumpOfR net sd cls).m) ℝ)
    (hP : (dumpOfR net sd cls).C * P = 1) {τ : ℝ} (hτ : GapThresholds τ) (hw : (Svd.wTol : ℝ) ≤ τ)
    (h : RankGap (designOf (bookOf net (nobsOf cls)).idx.cols (netEqsR net (nobsOf cls))) P
      (regSet (bookOf net (nobsOf cls)).idx.cols net.points (bookOf net (nobsOf cls))) τ)
    (hsv : SingGap (designOf (bookOf net (nobsOf cls)).idx.cols (netEqsR net (nobsOf cls))) P τ)
    (alg : Alg) (a : Answer ℝ) (hs : adjSolve alg (dumpOfR net sd cls) = .ok a) :
    IsLSSolution (designOf (bookOf net (nobsOf cls)).idx.cols (netEqsR net (nobsOf cls))) (rhsOf (netEqsR net (nobsOf cls))) P
      (regSet (bookOf net (nobsOf cls)).idx.cols net.points (bookOf net (nobsOf cls)))
      (toVec (bookOf net (nobsOf cls)).idx.cols a.x) (toVec (netEqsR net (nobsOf cls)).length a.r) a.rtr := by
  have eA := dump_A net sd cls (dump_rowsOK' net sd cls)
  have eb := dump_b net sd cls
  have eS := dump_S net sd cls
  have := C01_adj_of_gap_all (dumpOfR net sd cls) (dump_inputOK' net sd cls) (dump_regListOK net sd cls) P hP hτ hw
    (by rw [eA, eS]; exact h) (by rw [eA]; exact hsv) alg a hs
  rw [eA, eb, eS] at this
  exact this

/-- **`C19_g3_same_adjustment` — independent of algorithm**: under the same hypotheses on the g3 system, with the
    cluster cofactors accepted by the block Cholesky of class `Adj` (`homogenise … = .ok`: this is where the weights'
    positive definiteness comes from), ANY TWO of the four algorithms that answer return the same unknowns, the same
    residuals and the same `[pvv]`. -/
theorem C19_g3_same_adjustment (net : Net ι ℝ) (sd : ℝ) (cls : List (Cluster ι ℝ))
    (P : Matrix (Fin (dumpOfR net sd cls).m) (Fin (dumpOfR net sd cls).m) ℝ)
    (hP : (dumpOfR net sd cls).C * P = 1) {τ : ℝ} (hτ : GapThresholds τ) (hw : (Svd.wTol : ℝ) ≤ τ)
    (h : RankGap (designOf (bookOf net (nobsOf cls)).idx.cols (netEqsR net (nobsOf cls))) P
      (regSet (bookOf net (nobsOf cls)).idx.cols net.points (bookOf net (nobsOf cls))) τ)
    (hsv : SingGap (designOf (bookOf net (nobsOf cls)).idx.cols (netEqsR net (nobsOf cls))) P τ)
    (Ad : DMat ℝ) (bd : Array ℝ) (hh : homogenise (dumpOfR net sd cls) = .ok (Ad, bd))
    (alg₁ alg₂ : Alg) (a₁ a₂ : Answer ℝ)
    (hs₁ : adjSolve alg₁ (dumpOfR net sd cls) = .ok a₁) (hs₂ : adjSolve alg₂ (dumpOfR net sd cls) = .ok a₂) :
    toVec (bookOf net (nobsOf cls)).idx.cols a₁.x = toVec (bookOf net (nobsOf cls)).idx.cols a₂.x ∧
    toVec (netEqsR net (nobsOf cls)).length a₁.r = toVec (netEqsR net (nobsOf cls)).length a₂.r ∧
    a₁.rtr = a₂.rtr :=
  (C19_g3_adjustment_is_ls net sd cls P hP hτ hw h hsv alg₁ a₁ hs₁).unique
    (C19_g3_adjustment_is_ls net sd cls P hP hτ hw h hsv alg₂ a₂ hs₂)
    (weights_pd (dumpOfR net sd cls) (dump_dims net sd cls) P hP Ad bd hh) h.2.resolves

/-- **a consistent network is reproduced by every algorithm of class `Adj`, no free weight matrix**:
    `C19_consistent_network_reproduced_minx` with `W := P = C⁻¹` of the cluster cofactors (positive definite because the
    block Cholesky accepts them), `S := regSet`, and the solution the one `adjSolve alg` computes on the dump. -/
theorem C19_g3_consistent_network_reproduced (net : Net ι ℝ) (sd : ℝ) (cls : List (Cluster ι ℝ))
    (P : Matrix (Fin (dumpOfR net sd cls).m) (Fin (dumpOfR net sd cls).m) ℝ)
    (hP : (dumpOfR net sd cls).C * P = 1) {τ : ℝ} (hτ : GapThresholds τ) (hw : (Svd.wTol : ℝ) ≤ τ)
    (h : RankGap (designOf (bookOf net (nobsOf cls)).idx.cols (netEqsR net (nobsOf cls))) P
      (regSet (bookOf net (nobsOf cls)).idx.cols net.points (bookOf net (nobsOf cls))) τ)
    (hsv : SingGap (designOf (bookOf net (nobsOf cls)).idx.cols (netEqsR net (nobsOf cls))) P τ)
    (Ad : DMat ℝ) (bd : Array ℝ) (hh : homogenise (dumpOfR net sd cls) = .ok (Ad, bd))
    (hcons : ∀ no ∈ activeOf net (nobsOf cls),
      ConsistentAt (ptsOfR net (bookOf net (nobsOf cls)).idx.ind no.obs) no.obs no.o)
    (alg : Alg) (a : Answer ℝ) (hs : adjSolve alg (dumpOfR net sd cls) = .ok a) :
    toVec (bookOf net (nobsOf cls)).idx.cols a.x = 0 ∧ toVec (netEqsR net (nobsOf cls)).length a.r = 0 ∧ a.rtr = 0 ∧
    ∀ (qxx : Nat → Nat → ℝ) (defect : Nat) (var : ℝ) (n : ι) (g : NPt ℝ), net.pts n = some g →
      ∃ out, reportR net (bookOf net (nobsOf cls))
          ⟨vecAt (toVec (bookOf net (nobsOf cls)).idx.cols a.x), defect, a.rtr, qxx⟩ var n = some out ∧
        out.dn = 0 ∧ out.de = 0 ∧ out.du = 0 ∧ out.ax = g.X0 ∧ out.ay = g.Y0 ∧ out.az = g.Z0 :=
  C19_consistent_network_reproduced_minx net (nobsOf cls) hcons P
    (weights_pd (dumpOfR net sd cls) (dump_dims net sd cls) P hP Ad bd hh) h.2.resolves _ _ _
    (C19_g3_adjustment_is_ls net sd cls P hP hτ hw h hsv alg a hs)

/-- **one step from displaced coordinates, every algorithm, weights from the covariances**:
    `C19_one_step_network_reproduced` (every project equation satisfied exactly by `ξ` — derived for the linear types by
    `C19_generated_network_is_linear`, for the non-linear types it stays the hypothesis) with `W := P`, the solution that of `adjSolve alg`. -/
theorem C19_g3_one_step_reproduced (net : Net ι ℝ) (sd : ℝ) (cls : List (Cluster ι ℝ))
    (P : Matrix (Fin (dumpOfR net sd cls).m) (Fin (dumpOfR net sd cls).m) ℝ)
    (hP : (dumpOfR net sd cls).C * P = 1) {τ : ℝ} (hτ : GapThresholds τ) (hw : (Svd.wTol : ℝ) ≤ τ)
    (h : RankGap (designOf (bookOf net (nobsOf cls)).idx.cols (netEqsR net (nobsOf cls))) P
      (regSet (bookOf net (nobsOf cls)).idx.cols net.points (bookOf net (nobsOf cls))) τ)
    (hsv : SingGap (designOf (bookOf net (nobsOf cls)).idx.cols (netEqsR net (nobsOf cls))) P τ)
    (Ad : DMat ℝ) (bd : Array ℝ) (hh : homogenise (dumpOfR net sd cls) = .ok (Ad, bd))
    (ξ : Fin (bookOf net (nobsOf cls)).idx.cols → ℝ)
    (hlin : ∀ p ∈ netEqsR net (nobsOf cls), p.2 = @rowDot ℝ realScalar p.1 (vecAt ξ))
    (hker : ∀ g, designOf (bookOf net (nobsOf cls)).idx.cols (netEqsR net (nobsOf cls)) *ᵥ g = 0 → g = 0)
    (alg : Alg) (a : Answer ℝ) (hs : adjSolve alg (dumpOfR net sd cls) = .ok a) :
    toVec (bookOf net (nobsOf cls)).idx.cols a.x = ξ ∧ toVec (netEqsR net (nobsOf cls)).length a.r = 0 ∧ a.rtr = 0 :=
  C19_one_step_network_reproduced net (nobsOf cls) ξ hlin P
    (weights_pd (dumpOfR net sd cls) (dump_dims net sd cls) P hP Ad bd hh) _ hker _ _ _
    (C19_g3_adjustment_is_ls net sd cls P hP hτ hw h hsv alg a hs)

/-! ### buffer sizing -/

/-- **`dm_floats` adequacy, one observation** (all eight `Model::revision(T*)` / `Model::linearization(T*)` pairs, any
    scalar type, any states of the points, also `from = to`): the number of `A->add_element` calls of the linearisation is
    at most what the revision added to `dm_floats`, and EQUAL for every type but azimuth (whose revision reserves the
    from/to pattern although the row has no coefficient for the station's height; unreachable from the parser). -/
theorem C19_dm_floats_observation {K : Type} [Trig K] (net : Net ι K) (ind : Par ι → Nat) (no : NObs ι K) (r : Rev ι)
    (h : revision net.points no.obs = some r) :
    ((linObs net ind no).rows.map List.length).sum ≤ r.floats ∧
    ((∀ f t, no.obs ≠ .azimuth f t) → ((linObs net ind no).rows.map List.length).sum = r.floats) :=
  ⟨linObs_floats_le net ind no r h, linObs_floats net ind no r h⟩

/-- **`dm_floats` adequacy, the network — for every sparse pattern**: the loop of `Model::update_linearization` writes
    at most `dm_floats` coefficients into `SparseMatrix(dm_floats, dm_rows, dm_cols)` (no write beyond `nonz[floats]`),
    exactly `dm_floats` without azimuth records: the `<nonz>` the dump announces (`SparseMatrix::nonzeroes()`) is the
    number of `<flt>` of its rows and equals the allocation. -/
theorem C19_dm_floats_adequate {K : Type} [Trig K] (net : Net ι K) (nobs : List (NObs ι K)) :
    floatsWritten (netEqs net nobs) ≤ (bookOf net nobs).floats ∧
    ((∀ no ∈ nobs, ∀ f t, no.obs ≠ .azimuth f t) → floatsWritten (netEqs net nobs) = (bookOf net nobs).floats) :=
  ⟨book_floats_le net nobs, book_floats net nobs⟩

/-- **the `BlockDiagonal` is allocated for exactly what `add_block` receives** (round 10): `(blocks, nonzeroes)` summed
    from the members `act_nonz` cached by `Cluster::update()` = the number of `add_block` calls and the number of doubles
    they `memcpy` (`dim·(w+1) − w(w+1)/2` of `activeCov()`'s dimension and clipped band) — for every cluster list, every
    activity pattern (clusters without an active observation contribute to neither). -/
theorem C19_block_diagonal_adequate (net : Net ι ℝ) (sd : ℝ) (cls : List (Cluster ι ℝ)) :
    bdAnnounced net cls = bdWritten (covBlocks net sd cls) :=
  bd_adequate net sd cls

/-! ### round 10: the static hypothesis derived, the non-linear types -/

/-- **`Env.InputOK (dumpOf …)` holds for EVERY g3 network** (round 13; since /repo a7902736 class `Adj` sums
    coefficients stored under the same column, `Problem.dense` is that sum and `RowsOK` is the range condition only):
    every covariance block of the dump is a well-formed `BlockDiagonal` block (`activeCov`'s invariant), the block
    dimensions add up to the number of project equations (Σ `act_dim` = Σ `dimension()` of the active records), and every
    stored column index is in `1..dm_cols` (`C19_only_free_indices` + `C19_update_index_is_book` + the range of
    `update_index`) — also for a record from a point to itself.  `DistinctRoles` (round 10) is no longer a hypothesis
    of any theorem; what it still gives is that the columns of a row are pairwise distinct (`row_columns_ok`). -/
theorem C19_dump_input_ok (net : Net ι ℝ) (sd : ℝ) (cls : List (Cluster ι ℝ)) :
    Env.InputOK (dumpOfR net sd cls) :=
  dump_inputOK' net sd cls

/-- **`hlin` derived for networks with distances, zenith angles and horizontal angles** (item 4 of round 9; the
    horizontal angle since round 13: first-order exact for SOME pair of direction-angle lifts `AngleLift` — the derivative
    does not depend on the lift, `angle_lift_unique`, by C05's lattice argument).  Every active record is a
    vector / xyz / height / height difference generated from the displaced coordinates (`GeneratedObs`), or a DISTANCE /
    ZENITH ANGLE / HORIZONTAL ANGLE whose observed value is first-order exact — observation function at the linearisation point plus its
    directional derivative along the displacement, the derivative given by `HasDerivAt` of the geometric function (not
    by the coded coefficients): `FirstOrderObs`.  Then every project equation is satisfied exactly by `ξ`.  The
    derivative is identified with the regenerated row by `HasDerivAt.unique` against `C19_coeff_is_derivative_distance`
    / `C19_coeff_is_derivative_zenith` / `C19_coeff_is_derivative_angle`. -/
theorem C19_first_order_network_is_linear (net : Net ι ℝ) (nobs : List (NObs ι ℝ))
    (ξ : Fin (bookOf net nobs).idx.cols → ℝ)
    (hgen : ∀ no ∈ activeOf net nobs, FirstOrderObs net (bookOf net nobs) (vecAt ξ) no.obs no.o) :
    ∀ p ∈ netEqsR net nobs, p.2 = @rowDot ℝ realScalar p.1 (vecAt ξ) :=
  netEqs_firstOrder net nobs (vecAt ξ) (vecAt_zero ξ) hgen

/-- **one step reproduces a network with distances and zenith angles, every algorithm, weights from the covariances**:
    `C19_g3_one_step_reproduced` with `hlin` from `FirstOrderObs` and `Env.InputOK` from `DistinctRoles` -/
theorem C19_g3_one_step_first_order_reproduced (net : Net ι ℝ) (sd : ℝ) (cls : List (Cluster ι ℝ))
    (P : Matrix (Fin (dumpOfR net sd cls).m) (Fin (dumpOfR net sd cls).m) ℝ)
    (hP : (dumpOfR net sd cls).C * P = 1) {τ : ℝ} (hτ : GapThresholds τ) (hw : (Svd.wTol : ℝ) ≤ τ)
    (h : RankGap (designOf (bookOf net (nobsOf cls)).idx.cols (netEqsR net (nobsOf cls))) P
      (regSet (bookOf net (nobsOf cls)).idx.cols net.points (bookOf net (nobsOf cls))) τ)
    (hsv : SingGap (designOf (bookOf net (nobsOf cls)).idx.cols (netEqsR net (nobsOf cls))) P τ)
    (Ad : DMat ℝ) (bd : Array ℝ) (hh : homogenise (dumpOfR net sd cls) = .ok (Ad, bd))
    (ξ : Fin (bookOf net (nobsOf cls)).idx.cols → ℝ)
    (hgen : ∀ no ∈ activeOf net (nobsOf cls), FirstOrderObs net (bookOf net (nobsOf cls)) (vecAt ξ) no.obs no.o)
    (hker : ∀ g, designOf (bookOf net (nobsOf cls)).idx.cols (netEqsR net (nobsOf cls)) *ᵥ g = 0 → g = 0)
    (alg : Alg) (a : Answer ℝ) (hs : adjSolve alg (dumpOfR net sd cls) = .ok a) :
    toVec (bookOf net (nobsOf cls)).idx.cols a.x = ξ ∧ toVec (netEqsR net (nobsOf cls)).length a.r = 0 ∧ a.rtr = 0 :=
  C19_g3_one_step_reproduced net sd cls P hP hτ hw h hsv Ad bd hh ξ
    (C19_first_order_network_is_linear net (nobsOf cls) ξ hgen) hker alg a hs

/-- **the lifted horizontal angle has ONE derivative** (round 13): for two sights of non-zero horizontal length moving
    along lines, any two pairs of polar-angle lifts with the same start values give the same derivative of
    `angPerLin · (θr − θl)` at 0 — what makes "first-order exact for some lift" (`FirstOrderObs`, angle) a statement
    about the observation and not about the chosen lift. -/
theorem C19_angle_lift_unique (xl yl al bl xr yr ar br : ℝ) (hl : xl * xl + yl * yl ≠ 0) (hr : xr * xr + yr * yr ≠ 0)
    (θl θr φl φr : ℝ → ℝ) (h0l : θl 0 = φl 0) (h0r : θr 0 = φr 0)
    (pl : ∀ t, Gama.Lin.IsPolarAngle (xl + al * t) (yl + bl * t) (θl t))
    (pr : ∀ t, Gama.Lin.IsPolarAngle (xr + ar * t) (yr + br * t) (θr t))
    (ql : ∀ t, Gama.Lin.IsPolarAngle (xl + al * t) (yl + bl * t) (φl t))
    (qr : ∀ t, Gama.Lin.IsPolarAngle (xr + ar * t) (yr + br * t) (φr t))
    (v v' : ℝ) (hv : HasDerivAt (fun t => angPerLin * (θr t - θl t)) v 0)
    (hv' : HasDerivAt (fun t => angPerLin * (φr t - φl t)) v' 0) : v = v' :=
  angle_lift_unique xl yl al bl xr yr ar br hl hr θl θr φl φr h0l h0r pl pr ql qr v v' hv hv'

/-! ### non-vacuity -/

/-- `FirstOrderObs` for a horizontal angle is satisfiable whenever neither target is in the station's vertical: the
    lifts and the derivative `C19_coeff_is_derivative_angle` provides, with the observed value
    `angleFn + (row · x)/scale`, meet it (any displacement `x`) -/
example (net : Net ι ℝ) (b : Book ι) (x : Nat → ℝ) (f l r : ι) (o : GObs ℝ)
    (hl : (aLocal (ptsOfR net b.idx.ind (.angle f l r)) .left).e1 * (aLocal (ptsOfR net b.idx.ind (.angle f l r)) .left).e1 +
     (aLocal (ptsOfR net b.idx.ind (.angle f l r)) .left).e2 * (aLocal (ptsOfR net b.idx.ind (.angle f l r)) .left).e2 ≠ 0)
    (hr : (aLocal (ptsOfR net b.idx.ind (.angle f l r)) .right).e1 * (aLocal (ptsOfR net b.idx.ind (.angle f l r)) .right).e1 +
     (aLocal (ptsOfR net b.idx.ind (.angle f l r)) .right).e2 * (aLocal (ptsOfR net b.idx.ind (.angle f l r)) .right).e2 ≠ 0) :
    ∃ d', (o.v1 - angleFn (ptsOfR net b.idx.ind (.angle f l r)) o) * angScaleR = d' →
      FirstOrderObs net b x (.angle f l r) o := by
  obtain ⟨cF, cL, cR, -, φl, φr, b0, b0', bp, bp', hder⟩ := angle_is_derivative (ptsOfR net b.idx.ind (.angle f l r)) o net.tol
    (xiOf (ptsOfR net b.idx.ind (.angle f l r) .frm) x) (xiOf (ptsOfR net b.idx.ind (.angle f l r) .left) x)
    (xiOf (ptsOfR net b.idx.ind (.angle f l r) .right) x) hl hr
  exact ⟨_, fun hobs => ⟨hl, hr, φl, φr, _, ⟨b0, b0', bp, bp'⟩, hder, hobs⟩⟩

/-- `DistinctRoles` is decided on the input: the two-vector network has it, a vector from a point to itself does not -/
example (c₁ c₂ : Cov.CovMat ℝ) (o₁ o₂ : GObs ℝ) :
    DistinctRoles [⟨c₁, [(true, ⟨.vector 0 1, o₁⟩)]⟩, ⟨c₂, [(true, ⟨.vector 0 2, o₂⟩)]⟩] ∧
    ¬ DistinctRoles [⟨c₁, [(true, ⟨.vector (1 : Nat) 1, o₁⟩)]⟩] := by
  constructor
  · intro no hno
    simp [nobsOf, records] at hno
    rcases hno with rfl | rfl <;> rfl
  · intro h
    have := h ⟨.vector 1 1, o₁⟩ (by simp [nobsOf, records])
    simp [rolesDistinct] at this

/-- `FirstOrderObs` for a distance is satisfiable for every displacement and every pair of distinct end points: the
    observed value `dist₀ + (row · x)/1000` is first-order exact (`distRow_hasDerivAt` provides the derivative) -/
example (net : Net ι ℝ) (b : Book ι) (x : Nat → ℝ) (f t : ι) (o : GObs ℝ)
    (hne : ((ptsOfR net b.idx.ind (.distance f t) .to).X - (ptsOfR net b.idx.ind (.distance f t) .frm).X) ^ 2 +
     ((ptsOfR net b.idx.ind (.distance f t) .to).Y - (ptsOfR net b.idx.ind (.distance f t) .frm).Y) ^ 2 +
     ((ptsOfR net b.idx.ind (.distance f t) .to).Z - (ptsOfR net b.idx.ind (.distance f t) .frm).Z) ^ 2 ≠ 0)
    (hobs : o.v1 = distanceFn (ptsOfR net b.idx.ind (.distance f t)) o +
      @rowDot ℝ realScalar (distRow (toPt (ptsOfR net b.idx.ind (.distance f t) .frm))
        (toPt (ptsOfR net b.idx.ind (.distance f t) .to))) x / 1000) :
    FirstOrderObs net b x (.distance f t) o :=
  firstOrder_distance_witness net b x f t o hne hobs


/-- `exNet` (point 0 fixed, 1 free, 2 constrained; vectors 0→1, 0→2) as two clusters with 3×3 covariance matrices:
    `nobsOf` is the record list of the network theorems; the revisions reserve 3 + 3 = … `dm_floats = 18` and the two
    vectors' linearisations write 9 + 9 coefficients (`C19_dm_floats_adequate`, equality case: no azimuth). -/
example (c₁ c₂ : Cov.CovMat ℝ) (o₁ o₂ : GObs ℝ) :
    nobsOf [⟨c₁, [(true, ⟨.vector 0 1, o₁⟩)]⟩, ⟨c₂, [(true, ⟨.vector 0 2, o₂⟩)]⟩] = exObs o₁ o₂ ∧
    (bookOf exNet (exObs o₁ o₂)).floats = 18 ∧
    floatsWritten (netEqsR exNet (exObs o₁ o₂)) = 18 := by
  have hb : (bookOf exNet (exObs o₁ o₂)).floats = 18 := by
    rw [ex_bookOf]; decide
  refine ⟨rfl, hb, ?_⟩
  rw [← hb]
  exact (@C19_dm_floats_adequate Nat _ ℝ realTrig exNet (exObs o₁ o₂)).2
    (by intro no hno f t; simp [exObs] at hno; rcases hno with rfl | rfl <;> simp)

/-- a rejected record (flag `false`: `if (!obs->active()) return false`) is not among the records the dump is built
    from -/
example (c₁ c₂ : Cov.CovMat ℝ) (o₁ o₂ o₃ : GObs ℝ) :
    nobsOf [⟨c₁, [(true, ⟨.vector 0 1, o₁⟩), (false, ⟨.vector 1 2, o₃⟩)]⟩, ⟨c₂, [(true, ⟨.vector 0 2, o₂⟩)]⟩]
      = exObs o₁ o₂ := rfl

/-- `C19_dump_weights_pd` / the `hh` hypothesis of the reproduction theorems are not empty: C01's weighted witness
    `Ex.pCS ℝ` (correlated block `[[4,2],[2,10]]` + variance 4) is accepted by the block Cholesky, so its weight matrix
    is positive definite — by the theorem, not by inspection -/
example : ∀ d, d ≠ 0 → 0 < d ⬝ᵥ (Ex.PCS ℝ) *ᵥ d :=
  C19_dump_weights_pd (Ex.pCS ℝ) (by decide) (Ex.PCS ℝ) Ex.pCS_weight _ _ Ex.pCS_homogenise

/-- `C19_full_answer_homogenised` on the same witness: `Adj` + gso answers, hence the homogenisation succeeded -/
example : ∃ Ad bd, homogenise (Ex.pCS ℝ) = .ok (Ad, bd) := by
  obtain ⟨a, h, -⟩ := Ex.pCS_adj_gso
  exact C19_full_answer_homogenised .gso (by decide) (Ex.pCS ℝ) a h

/-! ### joint witness over ℝ (`Lemmas/G3DumpWitness.lean`) -/

open Gama.G3Dump.W in
/-- **`C19_g3_consistent_network_reproduced` applied to a concrete g3 network, every hypothesis discharged, the solver
    run evaluated over ℝ.**  One point (n, e fixed, u free; H = 5, geoid 1), two `height` records observing 4 in one cluster
    with unit covariance, `apriori_sd = 1`.  `dumpOfR` evaluates to the explicit problem `wP` (2 equations, 1 column, rows
    `[(1,1)]`, block `⟨2,0,[1,1]⟩`, rhs 0, no `minx` list: `w_dump`); the block Cholesky accepts the cofactors
    (`w_homogenise`), the weight matrix is `1`, `RankGap` / `SingGap` hold at `τ = 1/2` for the one-column system
    (`ones_gapAll`, `ones_singGap`), both records are `ConsistentAt` (`w_consistent`), and `Adj` + gso — the transliterated
    Gram–Schmidt run over ℝ, tested norm `√2` — answers (`w_adj_gso`).  The theorem then gives `x = 0`, `r = 0`, `[pvv] = 0`. -/
theorem C19_witness_consistent_reproduced :
    ∃ a, adjSolve .gso (dumpOfR wNet 1 wCls) = .ok a ∧ a.x = #[0] ∧
      toVec (bookOf wNet (nobsOf wCls)).idx.cols a.x = 0 ∧
      toVec (netEqsR wNet (nobsOf wCls)).length a.r = 0 ∧ a.rtr = 0 := by
  obtain ⟨P, hP, hR, hS, ⟨Ad, bd, hh⟩, a, ha, hx⟩ := w_facts (dumpOfR wNet 1 wCls) w_dump
  rw [dump_A wNet 1 wCls (dump_rowsOK' wNet 1 wCls), dump_S] at hR
  rw [dump_A wNet 1 wCls (dump_rowsOK' wNet 1 wCls)] at hS
  have h := C19_g3_consistent_network_reproduced wNet 1 wCls P hP gapThresholds_half
    (le_trans Svd.wTol_le (by norm_num)) hR hS Ad bd hh w_consistent .gso a ha
  exact ⟨a, ha, hx, h.1, h.2.1, h.2.2.1⟩

open Gama.G3Dump.W in
/-- **`C19_g3_same_adjustment` applied to the same network**: whatever ANY of the four algorithms answers on gama-g3's
    input for it equals what `Adj` + gso (evaluated: `x = (0)`) answers — unknowns, residuals and `[pvv]`.  All hypotheses
    of the theorem are discharged; the only premise left is that the other algorithm answers. -/
theorem C19_witness_same_adjustment (alg : Alg) (a' : Answer ℝ)
    (hs' : adjSolve alg (dumpOfR wNet 1 wCls) = .ok a') :
    ∃ a, adjSolve .gso (dumpOfR wNet 1 wCls) = .ok a ∧ a.x = #[0] ∧
      toVec (bookOf wNet (nobsOf wCls)).idx.cols a'.x = toVec (bookOf wNet (nobsOf wCls)).idx.cols a.x ∧
      toVec (netEqsR wNet (nobsOf wCls)).length a'.r = toVec (netEqsR wNet (nobsOf wCls)).length a.r ∧
      a'.rtr = a.rtr := by
  obtain ⟨P, hP, hR, hS, ⟨Ad, bd, hh⟩, a, ha, hx⟩ := w_facts (dumpOfR wNet 1 wCls) w_dump
  rw [dump_A wNet 1 wCls (dump_rowsOK' wNet 1 wCls), dump_S] at hR
  rw [dump_A wNet 1 wCls (dump_rowsOK' wNet 1 wCls)] at hS
  have h := C19_g3_same_adjustment wNet 1 wCls P hP gapThresholds_half
    (le_trans Svd.wTol_le (by norm_num)) hR hS Ad bd hh alg .gso a' a hs' ha
  exact ⟨a, ha, hx, h⟩

end Gama.Props.C19
