/-
  C07 — the covariance matrix of the WHOLE mirrored network (round 10): `Ls.Net.Sigma np' = D_σ (Sigma np) D_σ`.
  Separate file: the `LocalNetwork` façade cone (`Lemmas/Ls/NetFacade.lean`, scalar structure `scalarOfField`) and the
  linearisation cone of `Props/C07Mirror.lean` (`instScalarReal`) are not mixed in one file.
-/
import Gama.Lemmas.C07MirrorSigma
import Gama.Lemmas.C07MirrorGram
import Gama.Lemmas.C07MirrorDegen
namespace Gama.Props.C07MirrorSigma
open Gama Gama.Ls Gama.Ls.Net Gama.Cov.YSign Matrix
attribute [local instance 2000] scalarOfField

/-- **`Σ' = D_σ Σ D_σ` for the whole network** (every ordered field): two assembled problems whose clusters are the same
    up to the conjugation `C ↦ flipCov ms C` of `change_y_signs_for_inconsistent_system_` (REGENERATED condition,
    `Gen.YSign.flipCov`), each cluster with its own pattern `ms` of negated observations (well-formed band matrices,
    `#obs ≤ dim ≤ #ms`): the covariance matrix `Ls.Net.Sigma` of the ACTIVE observations — block diagonal, block `k` the
    principal sub-matrix of cluster `k` at its active observations; the matrix the `LocalNetwork` theorems of C01 / C03 / C09
    take their weights from (`Σ · Pc = 1`) — of the mirrored problem is the conjugate of the original one by the row
    signs `rowSig` (the sign `sgn ms i` of the position `i` of that active observation inside its cluster), `σ² = 1`;
    the block dimensions agree.  With `np.clusters = npClusters u.net`, `np'.clusters = npClusters (mirNet u.net)`
    (`C07_mirror_of_project_equations_partial`) the list is `L = u.net.clusters.map (msOf c, ⟨c.cov, actives⟩)`. -/
theorem C07_mirror_sigma {K : Type} [Field K] [LinearOrder K] [IsStrictOrderedRing K] [SqrtFn K]
    (np np' : NetProblem K) (L : List (List Bool × Cluster K)) (h : np.clusters = L.map (·.2))
    (h' : np'.clusters = L.map C07Sig.conj) (hm : np'.m = np.m) (hdim : (dimsN np).sum = np.m)
    (hwf : ∀ p ∈ L, p.2.cov.WF ∧ p.2.cov.dim ≤ p.1.length ∧ p.2.active.length ≤ p.2.cov.dim) :
    dimsN np' = dimsN np ∧
    (∀ s : Nat, C07Sig.rowSig L (dimsN np) s * C07Sig.rowSig L (dimsN np) s = (1 : K)) ∧
    ∀ s t : Fin np.m, Sigma np' (Fin.cast hm.symm s) (Fin.cast hm.symm t) =
      C07Sig.rowSig L (dimsN np) s.val * Sigma np s t * C07Sig.rowSig L (dimsN np) t.val :=
  ⟨C07Sig.dimsN_conj np np' L h h', fun s => C07Sig.rowSig_sq L _ s, C07Sig.Sigma_conj np np' L h h' hm hdim hwf⟩

/-- **what the numeric half of `singular_coords` reads** (route to `DegenInv`, part 1): the Gram matrix of the
    HOMOGENISED design matrix that `prepareProjectEquations()` leaves is the normal matrix `Aᵀ P A` of the assembled
    system, `P` the inverse of the cofactor matrix — the sums `aa = Σ a²`, `ab = Σ a b`, `bb = Σ b²` over the columns
    `index_x`, `index_y` of a point are its entries `(x,x)`, `(x,y)`, `(y,y)` -/
theorem C07_hom_gram_is_normal_matrix {K : Type} [Field K] [LinearOrder K] [IsStrictOrderedRing K] [SqrtFn K]
    (hsq : IsSqrt (SqrtFn.sq : K → K)) (np : NetProblem K) (hdim : (dimsN np).sum = np.m)
    (h : Hom K) (hp : prepare np = .ok h)
    (P : Matrix (Fin (toProblem np).m) (Fin (toProblem np).m) K) (hP : (toProblem np).C * P = 1) :
    (Gama.LS.toMatrix (toProblem np).m (toProblem np).n h.Ad)ᵀ * Gama.LS.toMatrix (toProblem np).m (toProblem np).n h.Ad
      = (Gama.LS.toMatrix (toProblem np).m (toProblem np).n (denseA np))ᵀ * P *
          Gama.LS.toMatrix (toProblem np).m (toProblem np).n (denseA np) :=
  C07Gram.hom_gram hsq np hdim h hp P hP

/-- **… and what the mirror does to it** (part 2): for `A' = D_s A D_t`, `P' = D_s P D_s` (`s² = 1`; the system of the
    mirrored description: `C07_mirror_of_pass`, `C07_mirror_sigma_of_project_equations`) the normal matrix is
    `D_t (Aᵀ P A) D_t`: `aa`, `bb` unchanged, `ab ↦ t_x t_y · ab` — and `1 − |ab|/√(aa·bb)` reads `|ab|` only.
    (Part 3, NOT done: the two foldl sums of `SingularCoords.colSums` as these matrix entries for the two inner calls,
    at the carrier `instScalarReal`.) -/
theorem C07_normal_matrix_mirrored {K : Type} [Field K] {m n : Type} [Fintype m] [Fintype n] [DecidableEq m]
    [DecidableEq n] (A : Matrix m n K) (P : Matrix m m K) (s : m → K) (t : n → K) (hs : ∀ i, s i * s i = 1) (x y : n) :
    ((diagonal s * A * diagonal t)ᵀ * (diagonal s * P * diagonal s) * (diagonal s * A * diagonal t)) x y
      = t x * (Aᵀ * P * A) x y * t y := by
  have hss : diagonal s * diagonal s = (1 : Matrix m m K) := by
    rw [diagonal_mul_diagonal]; simp [hs]
  have e : (diagonal s * A * diagonal t)ᵀ * (diagonal s * P * diagonal s) * (diagonal s * A * diagonal t)
      = diagonal t * (Aᵀ * P * A) * diagonal t := by
    rw [transpose_mul, transpose_mul, diagonal_transpose, diagonal_transpose]
    calc diagonal t * (Aᵀ * diagonal s) * (diagonal s * P * diagonal s) * (diagonal s * A * diagonal t)
        = diagonal t * (Aᵀ * ((diagonal s * diagonal s) * P * (diagonal s * diagonal s)) * A) * diagonal t := by
          simp only [Matrix.mul_assoc]
      _ = diagonal t * (Aᵀ * P * A) * diagonal t := by rw [hss, Matrix.one_mul, Matrix.mul_one]
  rw [e, mul_diagonal, diagonal_mul]


/-- **the numeric half of `singular_coords` gives the same verdict on the mirrored assembled problem** (route to
    `DegenInv`, part 3 at the level of `NetProblem`; every ordered field with a square root).  `np2` is `np` with other rows,
    right-hand sides and clusters (same `m`, `n`, `m0`); both are homogenised by `prepareProjectEquations()`; the dense
    design matrices satisfy `A₂ = D_s A D_t` and the cofactor matrices `C₂ = D_s C D_s` entry by entry (`s, t = ±1`: what
    `C07_mirror_of_pass` and `C07_mirror_sigma` + `C07_row_sign_link` give).  Then `1 − |ab|/√(aa·bb) < 1e-12` has the same
    truth value on ANY two columns of the two homogenised matrices.  No `C P = 1` hypothesis: the block factor `L̃` has a
    right inverse because forward substitution solves `L̃ y = x` for every `x`.  Ingredients (`Lemmas/C07MirrorDegen.lean`):
    `rightInv`, `gram_mirror`, `colSums_mmk` (the three foldl sums as finite sums), `degenD_sign`, `degenTest_mirror`. -/
theorem C07_degen_test_mirror {K : Type} [Field K] [LinearOrder K] [IsStrictOrderedRing K] [SqrtFn K]
    (hsq : IsSqrt (SqrtFn.sq : K → K)) (np : NetProblem K)
    (r2 : Array (Array (Nat × K))) (b2 : Array K) (c2 : List (Cluster K))
    (hdim : (dimsN np).sum = np.m)
    (hdim2 : (dimsN { np with rows := r2, rhs := b2, clusters := c2 }).sum = np.m)
    (h h2 : Hom K) (hp : prepare np = .ok h) (hp2 : prepare { np with rows := r2, rhs := b2, clusters := c2 } = .ok h2)
    (s : Fin (toProblem np).m → K) (t : Nat → K) (hs : ∀ i, s i = 1 ∨ s i = -1) (ht : ∀ j, t j = 1 ∨ t j = -1)
    (hA : ∀ (i : Fin (toProblem np).m) (j : Fin (toProblem np).n),
      Dn.mget (denseA { np with rows := r2, rhs := b2, clusters := c2 }) i.val j.val
        = s i * Dn.mget (denseA np) i.val j.val * t j.val)
    (hC : ∀ i j : Fin (toProblem np).m,
      (toProblem { np with rows := r2, rhs := b2, clusters := c2 }).C i j = s i * (toProblem np).C i j * s j)
    (ix iy : Nat) : SingularCoords.degenTest h2.Ad ix iy = SingularCoords.degenTest h.Ad ix iy :=
  C07Degen.degenTest_prepare hsq np r2 b2 c2 hdim hdim2 h h2 hp hp2 s t hs ht hA hC ix iy


/-- non-vacuity (ℚ): one active cluster `(dx, dy)` with `cov(dx, dy) = 3` and the pattern `[false, true]`; the hypotheses
    about the cluster hold, the conjugated cluster carries `−3`, and the row signs are `+1, −1` -/
example : (⟨2, 1, #[4, 3, 9]⟩ : Cov.CovMat ℚ).WF ∧
    (C07Sig.conj ([false, true], (⟨⟨2, 1, #[4, 3, 9]⟩, [true, true]⟩ : Cluster ℚ))).cov.get 1 2 = -3 ∧
    (sgn [false, true] 1 : ℚ) = 1 ∧ (sgn [false, true] 2 : ℚ) = -1 := by
  refine ⟨⟨by decide, by decide⟩, by decide +kernel, by decide +kernel, by decide +kernel⟩

end Gama.Props.C07MirrorSigma
