/-
  C07 — the covariance matrix of the WHOLE mirrored network (round 10): `Ls.Net.Sigma np' = D_σ (Sigma np) D_σ`.
  Separate file: the `LocalNetwork` façade cone (`Lemmas/Ls/NetFacade.lean`, scalar structure `scalarOfField`) and the
  linearisation cone of `Props/C07Mirror.lean` (`instScalarReal`) are not mixed in one file.
-/
import Gama.Lemmas.C07MirrorSigma
namespace Gama.Props.C07MirrorSigma
open Gama Gama.Ls Gama.Ls.Net Gama.Cov.YSign Matrix
attribute [local instance 2000] scalarOfField

/-- **`Σ' = D_σ Σ D_σ` for the whole network** (every ordered field): two assembled problems whose clusters are the same
    up to the conjugation `C ↦ flipCov ms C` of `change_y_signs_for_inconsistent_system_` (REGENERATED condition,
    `Gen.YSign.flipCov`), each cluster with its own pattern `ms` of negated observations (well-formed band matrices,
    `#obs ≤ dim ≤ #ms`): the covariance matrix `Ls.Net.Sigma` of the ACTIVE observations — block diagonal, block `k` the
    principal sub-matrix of cluster `k` at its active observations; the matrix the `LocalNetwork` theorems of C01 / C03 / C09
    take their weights from (`Σ · Pc = 1`) — of the mirrored problem is the conjugate of the original one by the row
    signs `rowSig` (the sign `sgn ms i` of the position `i` of that active observation inside its cluster), `σ² = 1`;
    the block dimensions agree.  With `np.clusters = npClusters u.net`, `np'.clusters = npClusters (mirNet u.net)`
    (`C07_mirror_of_project_equations_partial`) the list is `L = u.net.clusters.map (msOf c, ⟨c.cov, actives⟩)`. -/
theorem C07_mirror_sigma {K : Type} [Field K] [LinearOrder K] [IsStrictOrderedRing K] [SqrtFn K]
    (np np' : NetProblem K) (L : List (List Bool × Cluster K)) (h : np.clusters = L.map (·.2))
    (h' : np'.clusters = L.map C07Sig.conj) (hm : np'.m = np.m) (hdim : (dimsN np).sum = np.m)
    (hwf : ∀ p ∈ L, p.2.cov.WF ∧ p.2.cov.dim ≤ p.1.length ∧ p.2.active.length ≤ p.2.cov.dim) :
    dimsN np' = dimsN np ∧
    (∀ s : Nat, C07Sig.rowSig L (dimsN np) s * C07Sig.rowSig L (dimsN np) s = (1 : K)) ∧
    ∀ s t : Fin np.m, Sigma np' (Fin.cast hm.symm s) (Fin.cast hm.symm t) =
      C07Sig.rowSig L (dimsN np) s.val * Sigma np s t * C07Sig.rowSig L (dimsN np) t.val :=
  ⟨C07Sig.dimsN_conj np np' L h h', fun s => C07Sig.rowSig_sq L _ s, C07Sig.Sigma_conj np np' L h h' hm hdim hwf⟩

/-- non-vacuity (ℚ): one active cluster `(dx, dy)` with `cov(dx, dy) = 3` and the pattern `[false, true]`; the hypotheses
    about the cluster hold, the conjugated cluster carries `−3`, and the row signs are `+1, −1` -/
example : (⟨2, 1, #[4, 3, 9]⟩ : Cov.CovMat ℚ).WF ∧
    (C07Sig.conj ([false, true], (⟨⟨2, 1, #[4, 3, 9]⟩, [true, true]⟩ : Cluster ℚ))).cov.get 1 2 = -3 ∧
    (sgn [false, true] 1 : ℚ) = 1 ∧ (sgn [false, true] 2 : ℚ) = -1 := by
  refine ⟨⟨by decide, by decide⟩, by decide +kernel, by decide +kernel, by decide +kernel⟩

end Gama.Props.C07MirrorSigma
