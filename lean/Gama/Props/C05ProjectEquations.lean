/-
  C05 — the headline of the property stated for what `LocalNetwork::project_equations()` ITSELF hands to the
  solvers (round 7; gap #1 of notes/CLAUSES.md audit #3, C05 "Missing 1").

  `PE.projectEquations : Net → Except Err (NetProblem × Unknowns)` (`Model/ProjectEquations.lean`) is the model
  executed by `drv_pe` next to the real `LocalNetwork` (stream `pe`).  Its theorems were structural
  (`Props/C01/ProjectEquations.lean`); the per-pass theorem `C05_design_matrix_is_jacobian` was about
  `Lin.passFrom`.  Here the two are composed:

      `projectEquations net = .ok (np, u)`, row `r` of `revised_obs_` regular  ⇒
        * the value a consumer of the sparse row `np.rows[r]` sees in the column `index_*()` of ANY adjusted unknown
          (in the numbering the call leaves in the points / stand-points: `u.net.idx`) is the partial derivative
          of the row's observation function wrt that unknown, at the approximate coordinates of `u.net`;
        * in every other column the row is 0;
        * `np.rhs[r]` is the misclosure observed − computed (`PE.RowMisclosure`, all 13 classes);

  for every network, any depth of the `singular_coords` recursion, stale index fields of earlier calls included
  (`pe_final`, `assemble_fresh`: the last inner call is the pass from the cleared state on every cleared unknown).
  `C01_pe_matrix_is_jacobian` (`Props/C01/ProjectEquationsMatrix.lean`) says the same of the matrix `(toProblem np).A` of the C01 theorems (no `NoAlias`
  since round 12: `Problem.dense` adds up repeated columns, like the C++).
-/
import Gama.Lemmas.ProjectEquationsJacobian
import Gama.Lemmas.ProjectEquationsExample
import Gama.Lemmas.Ls.NetFacade
namespace Gama.Props.C05ProjectEquations
open Gama Gama.Lin Gama.PE

/-- **the design matrix of `project_equations()` is the Jacobian, its right-hand side the misclosures.** -/
theorem C05_pe_design_matrix_is_jacobian (net : PE.Net ℝ) (np : Ls.Net.NetProblem ℝ) (u : Unknowns ℝ)
    (h : projectEquations net = .ok (np, u)) (r : Nat) (ob : NObs ℝ) (hr : (revisedObs u.net)[r]? = some ob)
    (hreg : Regular ob.kind ((sigmaOf u.net).view ob)) :
    r < np.m ∧
    (∀ unk, (sigmaOf u.net).isFree unk = true →
      RowDeriv ob.kind (sigmaOf u.net) ob unk (rowSum (np.rows.getD r #[]).toList (u.net.idx.get unk))) ∧
    (∀ j, (∀ rc ∈ ob.kind.roles, (sigmaOf u.net).isFree (ob.name rc.1 rc.2) = true → u.net.idx.get (ob.name rc.1 rc.2) ≠ j) →
      rowSum (np.rows.getD r #[]).toList j = 0) ∧
    (∃ v, np.rhs[r]? = some v ∧ RowMisclosure ob.kind ((sigmaOf u.net).view ob) v) := by
  obtain ⟨b, P⟩ := pe_pass net np u h
  have hrl : r < (revisedObs u.net).length := by
    rcases List.getElem?_eq_some_iff.mp hr with ⟨hlt, _⟩; exact hlt
  obtain ⟨hJ, hZ⟩ := design_matrix_is_jacobian _ _ _ _ IdxState.wf_init b P.pass r ob hr hreg
  have hrow : ∀ j, rowSum (np.rows.getD r #[]).toList j = codeMatrix b.rows r j := by
    intro j; rw [P.rows, rows_getD]; rfl
  refine ⟨by rw [P.m]; exact hrl, fun unk hf => ?_, fun j hj => ?_, ?_⟩
  · rw [hrow, P.agree unk (cleared_of_free _ _ hf)]; exact hJ unk hf
  · rw [hrow]
    by_cases hin : 1 ≤ j ∧ j ≤ np.n
    · obtain ⟨v, hfree, hidx, hb⟩ := P.col_owner j hin.1 hin.2
      rw [← hb]
      apply hZ v
      intro rc hrc hname
      exact hj rc hrc (by rw [hname]; exact hfree) (by rw [hname]; exact hidx)
    · apply rowSum_zero_of_not_col
      intro e he hej
      have hmem : b.rows.getD r [] ∈ b.rows := by
        have : r < b.rows.length := by rw [P.ok.nrows]; exact hrl
        simp [List.getD_eq_getElem?_getD, this]
      have := P.ok.range _ hmem e he
      rw [← P.n, hej] at this
      exact hin this
  · obtain ⟨out, ho, hrhs, _⟩ := passFrom_rows _ _ _ _ b IdxState.wf_init P.pass r ob hr
    exact ⟨out.rhs, by rw [P.rhs, rhs_get]; exact hrhs, lin_rhs_misclosure _ _ _ _ hreg ho⟩

/-- the orientation unknown of a direction row: the entry in the column `index_orientation()` of the row's own
    stand-point is the derivative wrt the orientation (−1 in cc per cc: `C07_orientation_coefficient`) — the instance
    `unk := ⟨ob.sp, .ori⟩` of the theorem, needing no status at all -/
theorem C05_pe_orientation_column (net : PE.Net ℝ) (np : Ls.Net.NetProblem ℝ) (u : Unknowns ℝ)
    (h : projectEquations net = .ok (np, u)) (r : Nat) (ob : NObs ℝ) (hr : (revisedObs u.net)[r]? = some ob)
    (hreg : Regular ob.kind ((sigmaOf u.net).view ob)) (k : Nat) :
    RowDeriv ob.kind (sigmaOf u.net) ob ⟨k, .ori⟩ (rowSum (np.rows.getD r #[]).toList (u.net.idx.get ⟨k, .ori⟩)) :=
  (C05_pe_design_matrix_is_jacobian net np u h r ob hr hreg).2.1 ⟨k, .ori⟩ rfl


/-! ### non-vacuity

  The theorem is about the carrier ℝ (derivatives), where the kernel cannot evaluate `projectEquations`; its
  hypotheses are witnessed in two halves: (1) the SAME polymorphic function returns on `Ex.net1` over ℚ (levelling;
  `Regular` is `True` for height differences), with the rows `[(1,1)]`, `[(1,−1),(2,1)]` and right-hand sides
  `10, 10` mm that the theorem predicts (`∂(1000·(z_to − z_from))/∂z` per mm is `±1`; `1000·(10.01 − 10)`,
  `1000·(−4.99 + 5)`); (2) over ℝ a pass of `Lin.passFrom` from the cleared state returns on `Lin.exNet`/`Lin.exObs`
  with regular rows (the non-vacuity example of `C05_design_matrix_is_jacobian`, `Props/C05.lean`). -/

section examples
open Gama.PE.Ex
set_option warn.classDefReducibility false in
attribute [local instance] trigQ

example : (∃ np u, projectEquations net1 = .ok (np, u)) ∧
    system (projectEquations net1) = some ([[(1, 1)], [(1, -1), (2, 1)]], [10, 10]) ∧
    (∀ c ∈ net1.clusters, ∀ o ∈ c.obs, o.kind = .h_diff) :=
  ⟨net1_ok, net1_system, by decide⟩

example : ∀ o : Obs ℝ, Regular .h_diff o := fun _ => trivial

end examples

end Gama.Props.C05ProjectEquations
