/-
  C17 — Statistical critical values invert the distributions they belong to.   PARTIAL.

  Model: Gama/Model/Statan.lean (line-by-line transliteration of statan.cpp), instantiated at ℝ with
  Mathlib's exp/log/sqrt/sin/cos/arctan/rpow.  What is proved: symmetry, the closed forms for N = 1, 2 and
  n = 1, 2 are exact inverses of the textbook tail formulas, and definedness of every operation reached on
  (0,1) in `Normal`, in `Student` (N ≤ 2 and the Hill prelude for N ≥ 3) and in `Chi_square`.

  NOT proved (no verified enclosures of Φ / Student / χ² distribution functions in Mathlib): agreement with
  the true quantiles to 1e-6 / 5e-4 / 5e-3, monotonicity in the probability, NormalDistribution(Normal α) = 1 − α.
  Those clauses are searched on every run against mpmath (tools/props/c17.py).  That the explicit tail
  formulas below *are* the Cauchy / t₂ / χ²₂ tails is part of the trusted statement.
-/
import Gama.Lemmas.StatanReal
namespace Gama.Props.C17
open Gama Gama.Statan Real

/-- `Normal(1 − α) = −Normal(α)` for every α ≠ ½ (at ½ both sides are the same small number, not 0) -/
theorem C17_normal_antisym (fuel : ℕ) {α : ℝ} (h : α ≠ 1 / 2) : normal fuel (1 - α) = - normal fuel α :=
  normal_antisym fuel h

/-- `Student(1 − α, N) = −Student(α, N)` for α ≠ ½, every N -/
theorem C17_student_antisym (fuel : ℕ) (N : ℤ) {α : ℝ} (h : α ≠ 1 / 2) :
    student fuel (1 - α) N = - student fuel α N := student_antisym fuel N h

/-- `Student(½, N) = 0` -/
theorem C17_student_half (fuel : ℕ) (N : ℤ) : student fuel (1 / 2 : ℝ) N = 0 := student_half fuel N

/-- N = 1 (and below): the returned value t satisfies ½ − arctan(t)/π = α — exact inverse of the Cauchy upper tail -/
theorem C17_student_1 (fuel : ℕ) {N : ℤ} (hN : N ≤ 1) {α : ℝ} (h0 : 0 < α) (h1 : α < 1) :
    1 / 2 - Real.arctan (student fuel α N) / π = α := by
  have key : ∀ β : ℝ, 0 < β → β < 1 / 2 → student fuel β N = student1 (β * 2) := by
    intro β _ hb
    rw [student_lt_half fuel N hb]; unfold studentAbs; rw [if_pos hN]
  rcases lt_trichotomy α (1 / 2) with h | h | h
  · rw [key α h0 h]; exact cauchy_tail h0 h
  · rw [h, student_half]; simp
  · have hs : student fuel α N = - student fuel (1 - α) N := by
      have := student_antisym fuel N (α := 1 - α) (by intro e; linarith)
      rw [show 1 - (1 - α) = α by ring] at this; exact this
    rw [hs, key (1 - α) (by linarith) (by linarith), Real.arctan_neg]
    have := cauchy_tail (α := 1 - α) (by linarith) (by linarith)
    linarith [this, neg_div π (Real.arctan (student1 ((1 - α) * 2)))]

/-- N = 2: the returned value t satisfies ½ − t/(2√(2+t²)) = α — exact inverse of the t₂ upper tail (α ≤ ½ side;
    the other side follows from `C17_student_antisym`) -/
theorem C17_student_2 (fuel : ℕ) {α : ℝ} (h0 : 0 < α) (h1 : α < 1 / 2) :
    1 / 2 - student fuel α 2 / (2 * Real.sqrt (2 + student fuel α 2 * student fuel α 2)) = α := by
  have : student fuel α 2 = student2 (α * 2) := by
    rw [student_lt_half fuel 2 h1]; unfold studentAbs; norm_num
  rw [this]; exact t2_tail h0 h1

/-- χ², n = 2: exp(−x/2) = p for x = Chi_square(p, 2) -/
theorem C17_chi2_2 (fuel : ℕ) {p : ℝ} (hp : 0 < p) : Real.exp (-(chiSquare fuel p 2) / 2) = p := chi2_two fuel hp

/-- χ², n = 1 (the code's `n < 2`): the square of the normal critical value at p/2 -/
theorem C17_chi2_1 (fuel : ℕ) (p : ℝ) : chiSquare fuel p 1 = normal fuel (p / 2) * normal fuel (p / 2) := chi2_one fuel p

/-- no singular operation in `Normal` on (0,1): the folded probability is in (0, ½], `log` gets a positive argument,
    `sqrt` a positive one, the rational correction has a positive denominator and the division by the density
    `g` is by a positive number -/
theorem C17_finite_normal (fuel : ℕ) {α : ℝ} (h0 : 0 < α) (h1 : α < 1) :
    0 < fold α ∧ fold α ≤ 1 / 2 ∧ 0 < -2 * Real.log (fold α) ∧ 0 < normalZ0 (fold α) ∧
      0 < normalDen (normalZ0 (fold α)) ∧ 0 < (normalDistribution fuel (normalZ1 (normalZ0 (fold α)))).2 := by
  obtain ⟨a, b, c, d, e⟩ := normal_defined fuel h0 h1
  exact ⟨a, (fold_range h0 h1).2, b, c, d, e⟩

/-
  FULL STATEMENT: every denominator ≠ 0, every log argument > 0, every sqrt argument ≥ 0 in Student for all
  α ∈ (0,1), N ≥ 1.  Proved: N ≤ 2 completely; N ≥ 3: the prelude (r − ½, a², b, b + c, the root, the base of
  `pow`).  Missing: the divisor `c` of the first Hill branch and `((r+6)/(r·y) − 0.089 d − 0.822)` of the
  second one are polynomials in a normal quantile / a power whose non-vanishing on the *reachable* region needs
  numeric bounds on `Normal` (not available); the continued fraction inside NormalDistribution likewise.
-/
theorem C17_finite_student_partial {u : ℝ} (h0 : 0 < u) (h1 : u ≤ 1) {r : ℝ} (hr : 3 ≤ r) :
    (0 < Real.sin (π / 2 * u) ∧ 0 < u * (2 - u) ∧ 0 ≤ 2 / (u * (2 - u)) - 2) ∧
    (let abcd := hillABCD r
     0 < r - 1 / 2 ∧ 0 < abcd.1 ∧ 0 < abcd.2.1 ∧ 0 < abcd.2.1 + abcd.2.2.1 ∧ 0 < abcd.2.2.2 ∧
       0 ≤ π / 2 * abcd.1 ∧ 0 < abcd.2.2.2 * u) := by
  refine ⟨student12_defined h0 h1, ?_⟩
  obtain ⟨a, b, c, d, e, f, g⟩ := hill_defined hr h0
  exact ⟨a, b, c, by linarith, e, f, g⟩

/-- no singular operation in `Chi_square`: n < 2 and n ≥ 3 call `Normal` on an argument in (0,1) (see
    `C17_finite_normal`), n = 2 takes the log of p > 0, n ≥ 3 divides by f = n > 0 and takes the root of 1/f > 0 -/
theorem C17_finite_chi2 {p : ℝ} (h0 : 0 < p) (h1 : p < 1) {n : ℤ} (hn : 3 ≤ n) :
    (0 < (1 / 2 : ℝ) * p ∧ (1 / 2 : ℝ) * p < 1) ∧ 0 < (Scalar.ofInt n : ℝ) ∧ 0 < 1 / (Scalar.ofInt n : ℝ) := by
  refine ⟨⟨by positivity, by linarith⟩, chi_defined hn⟩

example : (0.025 : ℝ) ≠ 1 / 2 ∧ (0 : ℝ) < 0.025 ∧ (0.025 : ℝ) < 1 / 2 := by norm_num
example : (3 : ℝ) ≤ ((7 : ℤ) : ℝ) := by norm_num

end Gama.Props.C17
