/-
  C17 — Statistical critical values invert the distributions they belong to.   PARTIAL.

  Model: Gama/Model/Statan.lean (line-by-line transliteration of statan.cpp), instantiated at ℝ with
  Mathlib's exp/log/sqrt/sin/cos/arctan/rpow.  What is proved: symmetry, the closed forms for N = 1, 2 and
  n = 1, 2 are exact inverses of the textbook tail formulas, and definedness of every operation reached on
  (0,1) in `Normal`, in `Student` (N ≤ 2 and the Hill prelude for N ≥ 3) and in `Chi_square`.

  NOT proved (no verified enclosures of Φ / Student / χ² distribution functions in Mathlib): agreement with
  the true quantiles to 1e-6 / 5e-4 / 5e-3, monotonicity in the probability (beyond the closed-form branches),
  NormalDistribution(Normal α) = 1 − α.
  Those clauses are searched on every run against mpmath (tools/props/c17.py).  That the explicit tail
  formulas below *are* the Cauchy / t₂ / χ²₂ tails is part of the trusted statement.

  Round 3 (second half of this file): the loops.  The loop exit tests, the `maxd/mind` rescaling block and the
  `Chi_square` selector are `Gama.StatanGen.*`, regenerated from statan.cpp; the theorems about them stop compiling
  when the C++ forgets one of the four rescaled variables or drops `fabs`.  `fuel`: the symmetry / closed-form /
  definedness theorems hold for every fuel because they do not depend on what the loops return; what the loops
  return is characterised by `C17_cf_terminates` (fuel ≥ 10⁵ is the converged value — the driver runs with 10⁸),
  `C17_series_exact` and `C17_series_truncation` (over ℝ the series exit test never fires: fuel = number of terms,
  with an explicit truncation bound).
-/
import Gama.Lemmas.StatanLoops
import Gama.Lemmas.StatanMono
import Gama.Lemmas.StatanHill
import Gama.Lemmas.StatanGenTie
import Gama.Lemmas.StatanChiMono
import Gama.Lemmas.StatanHillMono
import Gama.Lemmas.StatanHillFirst
namespace Gama.Props.C17
open Gama Gama.Statan Real

/-- `Normal(1 − α) = −Normal(α)` for every α ≠ ½ (at ½ both sides are the same small number, not 0) -/
theorem C17_normal_antisym (fuel : ℕ) {α : ℝ} (h : α ≠ 1 / 2) : normal fuel (1 - α) = - normal fuel α :=
  normal_antisym fuel h

/-- `Student(1 − α, N) = −Student(α, N)` for α ≠ ½, every N -/
theorem C17_student_antisym (fuel : ℕ) (N : ℤ) {α : ℝ} (h : α ≠ 1 / 2) :
    student fuel (1 - α) N = - student fuel α N := student_antisym fuel N h

/-- `Student(½, N) = 0` -/
theorem C17_student_half (fuel : ℕ) (N : ℤ) : student fuel (1 / 2 : ℝ) N = 0 := student_half fuel N

/-- N = 1 (and below): the returned value t satisfies ½ − arctan(t)/π = α — exact inverse of the Cauchy upper tail -/
theorem C17_student_1 (fuel : ℕ) {N : ℤ} (hN : N ≤ 1) {α : ℝ} (h0 : 0 < α) (h1 : α < 1) :
    1 / 2 - Real.arctan (student fuel α N) / π = α := by
  have key : ∀ β : ℝ, 0 < β → β < 1 / 2 → student fuel β N = student1 (β * 2) := by
    intro β _ hb
    rw [student_lt_half fuel N hb]; unfold studentAbs; rw [if_pos hN]
  rcases lt_trichotomy α (1 / 2) with h | h | h
  · rw [key α h0 h]; exact cauchy_tail h0 h
  · rw [h, student_half]; simp
  · have hs : student fuel α N = - student fuel (1 - α) N := by
      have := student_antisym fuel N (α := 1 - α) (by intro e; linarith)
      rw [show 1 - (1 - α) = α by ring] at this; exact this
    rw [hs, key (1 - α) (by linarith) (by linarith), Real.arctan_neg]
    have := cauchy_tail (α := 1 - α) (by linarith) (by linarith)
    linarith [this, neg_div π (Real.arctan (student1 ((1 - α) * 2)))]

/-- N = 2: the returned value t satisfies ½ − t/(2√(2+t²)) = α — exact inverse of the t₂ upper tail (α ≤ ½ side;
    the other side follows from `C17_student_antisym`) -/
theorem C17_student_2 (fuel : ℕ) {α : ℝ} (h0 : 0 < α) (h1 : α < 1 / 2) :
    1 / 2 - student fuel α 2 / (2 * Real.sqrt (2 + student fuel α 2 * student fuel α 2)) = α := by
  have : student fuel α 2 = student2 (α * 2) := by
    rw [student_lt_half fuel 2 h1]; unfold studentAbs; norm_num
  rw [this]; exact t2_tail h0 h1

/-- χ², n = 2: exp(−x/2) = p for x = Chi_square(p, 2) -/
theorem C17_chi2_2 (fuel : ℕ) {p : ℝ} (hp : 0 < p) : Real.exp (-(chiSquare fuel p 2) / 2) = p := chi2_two fuel hp

/-- χ², n = 1 (the code's `n < 2`): the square of the normal critical value at p/2 -/
theorem C17_chi2_1 (fuel : ℕ) (p : ℝ) : chiSquare fuel p 1 = normal fuel (p / 2) * normal fuel (p / 2) := chi2_one fuel p

/-- no singular operation in `Normal` on (0,1): the folded probability is in (0, ½], `log` gets a positive argument,
    `sqrt` a positive one, the rational correction has a positive denominator and the division by the density
    `g` is by a positive number -/
theorem C17_finite_normal (fuel : ℕ) {α : ℝ} (h0 : 0 < α) (h1 : α < 1) :
    0 < fold α ∧ fold α ≤ 1 / 2 ∧ 0 < -2 * Real.log (fold α) ∧ 0 < normalZ0 (fold α) ∧
      0 < normalDen (normalZ0 (fold α)) ∧ 0 < (normalDistribution fuel (normalZ1 (normalZ0 (fold α)))).2 ∧
      ∀ v, 0 < (normalTail v fuel (normalZ1 (normalZ0 (fold α)))).2 := by
  obtain ⟨a, b, c, d, e⟩ := normal_defined fuel h0 h1
  exact ⟨a, (fold_range h0 h1).2, b, c, d, e, fun v => normalTail_density_pos v fuel _⟩

/-- no singular operation in `Student` on (0,1) — everything except the second Hill divisor (next theorem).
    u = 2·min(α, 1−α) ∈ (0,1].  N ≤ 2: sin(π/2·u) > 0, u(2−u) > 0, radicand ≥ 0.  N ≥ 3 (r = N): the prelude
    (r − ½, a, b, b + c, d, the root, the base of `pow`) and the divisor of the first Hill branch, which is positive
    for every x ≤ 1; the code passes x = −Normal(u/2), so the hypothesis that makes the branch total is the stated
    one-sided bound `−1 ≤ Normal(u/2)` (true value ≥ 0; the divisor does vanish at x ≈ 3.88 for N = 3).
    The denominators inside `NormalDistribution` are covered by `C17_cf_invariant` / `C17_series_exact`. -/
theorem C17_finite_student {u : ℝ} (h0 : 0 < u) (h1 : u ≤ 1) {N : ℤ} (hN : 3 ≤ N) :
    (0 < Real.sin (π / 2 * u) ∧ 0 < u * (2 - u) ∧ 0 ≤ 2 / (u * (2 - u)) - 2) ∧
    (let r : ℝ := Scalar.ofInt N
     let abcd := hillABCD r
     (0 < r - 1 / 2 ∧ 0 < abcd.1 ∧ 0 < abcd.2.1 ∧ 0 < abcd.2.1 + abcd.2.2.1 ∧ 0 < abcd.2.2.2 ∧
       0 ≤ π / 2 * abcd.1 ∧ 0 < abcd.2.2.2 * u) ∧
     ∀ x : ℝ, x ≤ 1 → 0 < hillDiv1 N r abcd.2.1 abcd.2.2.1 abcd.2.2.2 x) := by
  have hr : (3 : ℝ) ≤ (Scalar.ofInt N : ℝ) := by rw [ofInt_real]; exact_mod_cast hN
  refine ⟨student12_defined h0 h1, ?_, ?_⟩
  · obtain ⟨a, b, c, d, e, f, g⟩ := hill_defined hr h0
    exact ⟨a, b, c, by linarith, e, f, g⟩
  · intro x hx
    obtain ⟨_, hb, hc, hd, _⟩ := hill_bounds hr
    refine hillDiv1_pos hr ?_ hb hc hd hx
    intro h5; rw [ofInt_real]; exact_mod_cast h5

/-
  FULL STATEMENT: the divisor `(r+6)/(r·y) − 0.089·d − 0.822` of the second Hill branch is non-zero for all N ≥ 3 and
  all 0 < y ≤ a + 0.05.  Proved for 3 ≤ N ≤ 10000, together with y > 0 (1/y) and a positive radicand.  The full
  statement is FALSE over ℝ: d ~ √(πr/2), so for N > 29 560 the divisor changes sign inside (0, a + 0.05] (at tail
  probabilities ~ 0.05^(N/2), below the smallest double: not reachable in floating point).  10000 < N ≤ 29 560 is
  not attempted.
-/
theorem C17_finite_student_hill2_partial {N : ℤ} (hN : 3 ≤ N) (hN' : N ≤ 10000) {y : ℝ} (hy0 : 0 < y) :
    let r : ℝ := Scalar.ofInt N
    let abcd := hillABCD r
    y ≤ abcd.1 + 1 / 20 → 0 < hillDiv2 r abcd.2.2.2 y ∧ 0 < r * y ∧ 0 < r * hillY2 r abcd.2.2.2 y := by
  intro r abcd hy
  have hr : (3 : ℝ) ≤ r := by show (3 : ℝ) ≤ (Scalar.ofInt N : ℝ); rw [ofInt_real]; exact_mod_cast hN
  have hr' : r ≤ 10000 := by show (Scalar.ofInt N : ℝ) ≤ 10000; rw [ofInt_real]; exact_mod_cast hN'
  obtain ⟨ha, _, _, hd, hd2⟩ := hill_bounds hr
  have hy' : y ≤ 1 / (r - 1 / 2) + 1 / 20 := by rw [← ha]; exact hy
  have hE := hillDiv2_pos hr hr' hd hd2 hy0 hy'
  have hr0 : 0 < r := by linarith
  exact ⟨hE, by positivity, mul_pos hr0 (hillY2_pos hr hE hy0 hy')⟩

/-- no singular operation in `Chi_square`: n < 2 and n ≥ 3 call `Normal` on an argument in (0,1) (see
    `C17_finite_normal`), n = 2 takes the log of p > 0, n ≥ 3 divides by f = n > 0 and takes the root of 1/f > 0 -/
theorem C17_finite_chi2 {p : ℝ} (h0 : 0 < p) (h1 : p < 1) {n : ℤ} (hn : 3 ≤ n) :
    (0 < (1 / 2 : ℝ) * p ∧ (1 / 2 : ℝ) * p < 1) ∧ 0 < (Scalar.ofInt n : ℝ) ∧ 0 < 1 / (Scalar.ofInt n : ℝ) := by
  refine ⟨⟨by positivity, by linarith⟩, chi_defined hn⟩

example : (0.025 : ℝ) ≠ 1 / 2 ∧ (0 : ℝ) < 0.025 ∧ (0.025 : ℝ) < 1 / 2 := by norm_num
example : (3 : ℝ) ≤ ((7 : ℤ) : ℝ) := by norm_num
example : (0 : ℝ) < 0.05 ∧ (0.05 : ℝ) ≤ 1 ∧ (3 : ℤ) ≤ 7 ∧ (-1.96 : ℝ) ≤ 1 := by norm_num
example : (3 : ℤ) ≤ 3 ∧ (3 : ℤ) ≤ 10000 ∧ (0 : ℝ) < 0.02 := by norm_num

/-! ## Round 3: loops, rescaling, complement, monotone closed forms, selector -/

/-- **rescale_invariant.**  (1) The guarded block `if (q2 > maxd) {…}` multiplies q1, q2, p1, p2 by one common
    positive factor (1 when the guard is false, `mind` when it fires).  (2) Two loop states that differ by a common
    positive factor on (p1, q1, p2, q2) run the same number of passes and end with the same `s`, `r`, `D`.
    (3) The coded loop and the plain recurrence (no guard at all) end with the same `s`, `r`, `D`. -/
theorem C17_rescale_invariant (typv : Bool) (fuel : ℕ) (c : CF ℝ) {m : ℝ} (hm : 0 < m) :
    (∀ q1 q2 p1 p2 : ℝ, ∃ k : ℝ, 0 < k ∧ cfRescale (q1, q2, p1, p2) = (q1 * k, q2 * k, p1 * k, p2 * k)) ∧
    (let c' : CF ℝ := { c with p1 := c.p1 * m, q1 := c.q1 * m, p2 := c.p2 * m, q2 := c.q2 * m }
     (cfLoop typv fuel c').D = (cfLoop typv fuel c).D ∧ (cfLoop typv fuel c').r = (cfLoop typv fuel c).r ∧
       (cfLoop typv fuel c').s = (cfLoop typv fuel c).s) ∧
    ((cfLoop typv fuel c).D = (cfLoopPlain typv fuel c).D ∧ (cfLoop typv fuel c).r = (cfLoopPlain typv fuel c).r ∧
      (cfLoop typv fuel c).s = (cfLoopPlain typv fuel c).s) := by
  refine ⟨cfRescale_scale, ?_, ?_⟩
  · have h : CFEquiv c { c with p1 := c.p1 * m, q1 := c.q1 * m, p2 := c.p2 * m, q2 := c.q2 * m } :=
      ⟨rfl, rfl, rfl, rfl, rfl, rfl, m, hm, rfl, rfl, rfl, rfl⟩
    obtain ⟨_, _, _, hs, hr, hD, _⟩ := cfLoop_equiv typv fuel h
    exact ⟨hD, hr, hs⟩
  · obtain ⟨_, _, _, hs, hr, hD, _⟩ := cfLoop_equiv_plain typv fuel (CFEquiv.refl c)
    exact ⟨hD, hr, hs⟩

example : (0 : ℝ) < 1e-30 := by norm_num

/-- **invariant of the continued fraction** (`x < −2.32` or `x > 3.5`, the region where the code runs it): after any
    number `k` of passes of the coded loop (rescaling included) both denominators are positive (no division by
    zero), the convergents are positive and strictly decreasing, and the loop-test quantity `|r − D|` is positive and
    at most `6·e₀/((k+1)(k+2)(k+3))`, `e₀ = φ(x)/(|x|(x²+3)) ≤ 1/40`. -/
theorem C17_cf_invariant {x : ℝ} (h : x < -(232 / 100) ∨ 35 / 10 < x) (k : ℕ) :
    let c := (cfStep (decide (x ≤ 0)))^[k] (cfInit (decide (x ≤ 0)) (x * x) (ndF x) |x|)
    0 < c.q1 ∧ 0 < c.q2 ∧ 0 < c.p2 / c.q2 ∧ c.p2 / c.q2 < c.p1 / c.q1 ∧ 0 < |c.r - c.D| ∧
      |c.r - c.D| ≤ 6 * (ndF x / (|x| * (x * x + 3))) / (((k : ℝ) + 1) * (k + 2) * (k + 3)) ∧
      ndF x / (|x| * (x * x + 3)) ≤ 1 / 40 := by
  intro c
  have hreg : ¬ |x| ≤ (if x ≤ 0 then 232 / 100 else 35 / 10) := by
    rcases h with h | h
    · rw [if_pos (by linarith), abs_of_neg (by linarith)]; linarith
    · rw [if_neg (by linarith), abs_of_pos (by linarith)]; linarith
  obtain ⟨h5, hb, he0, he1⟩ := cf_region hreg
  have hinv := (cfInit_inv (decide (x ≤ 0)) (by linarith : 0 ≤ x * x) (ndF_pos x) hb).iterate h5 he0 k
  exact ⟨hinv.q1pos, hinv.q2pos h5, (hinv.convergents h5).1, (hinv.convergents h5).2, (hinv.test h5).1,
    (hinv.test h5).2, he1⟩

/-- **termination of the continued-fraction loop**: for `x < −2.32` or `x > 3.5` the test `|r − D| > DBL_EPSILON`
    fails after at most 10⁵ passes; every fuel ≥ 10⁵ returns the same pair (D, f).  The model driver runs with
    fuel 10⁸. -/
theorem C17_cf_terminates {x : ℝ} (h : x < -(232 / 100) ∨ 35 / 10 < x) (fuel : ℕ) (hf : 100000 ≤ fuel) :
    normalDistribution fuel x = normalDistribution 100000 x := by
  refine nd_cf_stable ?_ fuel hf
  rcases h with h | h
  · rw [if_pos (by linarith), abs_of_neg (by linarith)]; linarith
  · rw [if_neg (by linarith), abs_of_pos (by linarith)]; linarith

/-- consequence for `Normal` (either variant: `1 − D(z)` or `D(−z)`): when its start value lies in the continued-fraction
    region, every fuel ≥ 10⁵ gives the same critical value -/
theorem C17_normal_fuel {α : ℝ} (hz : 35 / 10 < normalZ1 (normalZ0 (fold α))) (fuel : ℕ) (hf : 100000 ≤ fuel) :
    normal fuel α = normal 100000 α ∧ ∀ d, normalWith d fuel α = normalWith d 100000 α := by
  have key : ∀ d, normalWith d fuel α = normalWith d 100000 α := by
    intro d
    unfold normalWith normalTail
    cases d
    · simp only [C17_cf_terminates (Or.inr hz) fuel hf, Bool.false_eq_true, ↓reduceIte]
    · simp only [C17_cf_terminates (Or.inl (by linarith : -(normalZ1 (normalZ0 (fold α))) < -(232 / 100))) fuel hf, ↓reduceIte]
  exact ⟨key _, key⟩

/-- **which tail is computed** in the continued-fraction region (fuel ≥ 1): for `x < −2.32` the lower tail itself,
    `0 < D < φ(x)/|x|`; for `x > 3.5` one minus the upper tail, `1 − φ(x)/x < D < 1`.  In particular the special
    exit `if (s - D) return; D = 0 / 1` behind the loop is never taken over ℝ. -/
theorem C17_cf_range {x : ℝ} (fuel : ℕ) (hf : 1 ≤ fuel) :
    (x < -(232 / 100) → 0 < (normalDistribution fuel x).1 ∧ (normalDistribution fuel x).1 < ndF x / |x|) ∧
    (35 / 10 < x → 1 - ndF x / |x| < (normalDistribution fuel x).1 ∧ (normalDistribution fuel x).1 < 1) := by
  constructor
  · intro h
    have hreg : ¬ |x| ≤ (if x ≤ 0 then 232 / 100 else 35 / 10) := by
      rw [if_pos (by linarith), abs_of_neg (by linarith)]; linarith
    exact (nd_cf_range hreg fuel hf).1 (by linarith)
  · intro h
    have hreg : ¬ |x| ≤ (if x ≤ 0 then 232 / 100 else 35 / 10) := by
      rw [if_neg (by linarith), abs_of_pos (by linarith)]; linarith
    exact (nd_cf_range hreg fuel hf).2 (by linarith)

example : (-2.5 : ℝ) < -(232 / 100) ∧ (35 / 10 : ℝ) < 4 ∧ (100000 : ℕ) ≤ 100000000 := by norm_num

/-- **the power series** (`x ≠ 0`, `−2.32 ≤ x ≤ 3.5`): over ℝ every term is positive, the exit test `D − s ≤ 0` is
    false in every pass, and the model with fuel `n` returns ½ ± (the first `n + 1` terms): the lower tail ½ − S
    for `x < 0`, ½ + S for `x > 0`.  The C++ loop ends by absorption (`D += y` no longer changes `D`), a rounding
    event with no counterpart over ℝ — so for this loop the statement is the truncation bound below, not
    stabilisation. -/
theorem C17_series_exact (fuel : ℕ) {x : ℝ} (hx : x ≠ 0) (hlo : -(232 / 100) ≤ x) (hhi : x ≤ 35 / 10) :
    (normalDistribution fuel x).1 =
      (if x ≤ 0 then 1 / 2 - (ndF x * |x| + serSum (x * x) fuel (ndF x * |x|) 3)
       else ndF x * |x| + serSum (x * x) fuel (ndF x * |x|) 3 + 1 / 2) ∧
    0 ≤ serSum (x * x) fuel (ndF x * |x|) 3 := by
  have hx2 : 0 < x * x := mul_self_pos.mpr hx
  have hy : 0 < ndF x * |x| := mul_pos (ndF_pos x) (abs_pos.mpr hx)
  have hreg : |x| ≤ (if x ≤ 0 then 232 / 100 else 35 / 10) := by
    split_ifs with h
    · rw [abs_of_nonpos h]; linarith
    · rw [abs_of_pos (by linarith)]; exact hhi
  rw [nd_unfold fuel hx]
  unfold ndSpec
  rw [if_pos hreg]
  simp only [seriesLoop_eq_sum hx2 fuel (ndF x * |x|) hy (show (0 : ℝ) < 3 by norm_num)]
  exact ⟨trivial, serSum_nonneg hx2 fuel hy (by norm_num)⟩

/-- **truncation of the series**: once `2n + 3 > x²` (n ≥ 5 suffices for |x| ≤ 3.5) the terms decrease
    geometrically (`yₙ₊₁ = yₙ·x²/(2n+3)`), more fuel adds between 0 and `yₙ·x²/(2n+3−x²)`, and the partial sums
    have a limit `L` with `Sₙ ≤ L ≤ Sₙ + yₙ·x²/(2n+3−x²)`. -/
theorem C17_series_truncation {x2 y : ℝ} (hx : 0 < x2) (hy : 0 < y) :
    (∀ n : ℕ, serY x2 (n + 1) y 3 = serY x2 n y 3 * (x2 / (3 + 2 * n))) ∧
    (∀ n m : ℕ, x2 < 2 * n + 3 →
      0 ≤ seriesLoop x2 (n + m) y y y 3 - seriesLoop x2 n y y y 3 ∧
      seriesLoop x2 (n + m) y y y 3 - seriesLoop x2 n y y y 3 ≤ serY x2 n y 3 * x2 / (2 * n + 3 - x2)) ∧
    ∃ L : ℝ, ∀ n : ℕ, x2 < 2 * n + 3 →
      seriesLoop x2 n y y y 3 ≤ L ∧ L ≤ seriesLoop x2 n y y y 3 + serY x2 n y 3 * x2 / (2 * n + 3 - x2) :=
  ⟨fun n => serY_succ x2 n y 3, fun n m hn => series_truncation hx n m hy hn, series_limit hx hy⟩

example : (0 : ℝ) < 12.25 ∧ (12.25 : ℝ) < 2 * (5 : ℕ) + 3 := by norm_num

/-
  FULL STATEMENT: NormalDistribution(−x).D = 1 − NormalDistribution(x).D for every x.  Proved where both signs run the
  same branch: power series on both sides (0 < x ≤ 2.32, every fuel) or continued fraction on both sides (x > 3.5,
  fuel ≥ 1); the density component is even and positive for every x.  For 2.32 < x ≤ 3.5 the code runs the continued
  fraction for −x and the series for +x, so the identity holds only up to the two truncation errors (oracle).
-/
theorem C17_nd_complement_partial (fuel : ℕ) {x : ℝ} (hx : 0 < x) (h : x ≤ 232 / 100 ∨ (35 / 10 < x ∧ 1 ≤ fuel)) :
    (normalDistribution fuel (-x)).1 = 1 - (normalDistribution fuel x).1 ∧
    (normalDistribution fuel (-x)).2 = (normalDistribution fuel x).2 ∧ 0 < (normalDistribution fuel x).2 :=
  ⟨(nd_complement fuel hx h).1, (nd_complement fuel hx h).2, normalDistribution_density_pos fuel x⟩

example : (0 : ℝ) < 1 ∧ (1 : ℝ) ≤ 232 / 100 := by norm_num

/-- **`KSprob`**: the fuel written in the model (100 and 101) is on the safe side of the syntactic bounds
    `j < 100` / `k <= 100`: any fuel ≥ 99 (first loop, from j = 1) resp. ≥ 100 (second loop, from k = 1) gives the
    same sum. -/
theorem C17_ks_fuel (pi2 xx8 x2 eps s sum : ℝ) (fuel : ℕ) :
    (99 ≤ fuel → ksLoop1 pi2 xx8 eps fuel 1 sum = ksLoop1 pi2 xx8 eps 99 1 sum) ∧
    (100 ≤ fuel → ksLoop2 x2 eps fuel 1 s sum = ksLoop2 x2 eps 100 1 s sum) := by
  constructor
  · intro h
    have := ksLoop1_fuel pi2 xx8 eps 99 fuel 99 h le_rfl sum
    rwa [show (100 : ℝ) - ((99 : ℕ) : ℝ) = 1 by norm_num] at this
  · intro h
    have := ksLoop2_fuel x2 eps 99 fuel 100 (by omega) (by omega) s sum
    rwa [show (100 : ℝ) - ((99 : ℕ) : ℝ) = 1 by norm_num] at this

/-- **Student, N ≤ 2 (closed forms)**: strictly decreasing in α on the whole of (0,1), positive below ½ -/
theorem C17_student_mono_le2 (fuel : ℕ) {N : ℤ} (hN : N ≤ 2) {α β : ℝ} (h0 : 0 < α) (hab : α < β) (h1 : β < 1) :
    student fuel β N < student fuel α N ∧ (α < 1 / 2 → 0 < student fuel α N) :=
  ⟨student_le2_strictAnti fuel hN h0 hab h1, fun h => student_le2_pos fuel hN h0 h⟩

/-- **χ², n = 2**: `−2 ln p` is strictly decreasing in p and positive on (0,1) -/
theorem C17_chi2_2_mono (fuel : ℕ) {p q : ℝ} (hp : 0 < p) (hpq : p < q) (hq : q < 1) :
    chiSquare fuel q 2 < chiSquare fuel p 2 ∧ 0 < chiSquare fuel q 2 :=
  ⟨chi2_two_strictAnti fuel hp hpq, chi2_two_pos fuel (by linarith) hq⟩

/-- **χ², n = 1**: strictly decreasing in p on (0,1) *given* that `Normal` is positive and strictly decreasing on
    (0, ½) (that hypothesis is oracle-only; see `C17_normal_start_mono` for the part of it that is proved) -/
theorem C17_chi2_1_mono (fuel : ℕ)
    (hpos : ∀ a : ℝ, 0 < a → a < 1 / 2 → 0 < normal fuel a)
    (hmono : ∀ a b : ℝ, 0 < a → a < b → b < 1 / 2 → normal fuel b < normal fuel a)
    {p q : ℝ} (hp : 0 < p) (hpq : p < q) (hq : q < 1) : chiSquare fuel q 1 < chiSquare fuel p 1 :=
  chi2_one_strictAnti fuel hpos hmono hp hpq hq

/-- **the start of `Normal`**: `z₀ = √(−2 ln a)` is strictly decreasing on (0,1], the rational step
    `z₁ = z₀ − P(z₀)/Q(z₀)` is strictly increasing in z₀ ≥ 0, so the value handed to `NormalDistribution` is strictly
    decreasing in the folded probability -/
theorem C17_normal_start_mono {a b : ℝ} (ha : 0 < a) (hab : a < b) (hb : b ≤ 1 / 2) :
    normalZ0 b < normalZ0 a ∧ normalZ1 (normalZ0 b) < normalZ1 (normalZ0 a) :=
  ⟨normalZ0_strictAnti ha hab (by linarith), normalStart_strictAnti ha hab (by linarith)⟩

example : (0 : ℝ) < 0.025 ∧ (0.025 : ℝ) < 0.05 ∧ (0.05 : ℝ) ≤ 1 / 2 ∧ (0.05 : ℝ) < 1 := by norm_num

/-- **selector of `Chi_square`** (generated from `if(n < (2+int(4*fabs(t))))`): it depends on |t| only, so the upper
    (p) and the lower (1 − p) critical value of the same level use the same polynomial -/
theorem C17_chi_selector_symmetric (fuel : ℕ) (n : ℤ) (t : ℝ) {p : ℝ} (h : p ≠ 1 / 2) :
    StatanGen.chiSel n (-t) = StatanGen.chiSel n t ∧ StatanGen.chiSel n t = StatanGen.chiSel n |t| ∧
      StatanGen.chiSel n (normal fuel (1 - p)) = StatanGen.chiSel n (normal fuel p) :=
  ⟨chiSel_neg n t, chiSel_abs n t, chiSel_complement fuel n h⟩

/-- the selector is not constant: it does select both polynomials (so the symmetry above is not vacuous) -/
example : StatanGen.chiSel 3 (1.96 : ℝ) = true ∧ StatanGen.chiSel 30 (1.96 : ℝ) = false := by
  have h : (Trunc.trunc ((4 : ℝ) * |(1.96 : ℝ)|) : ℤ) = 7 := by
    show (if (0 : ℝ) ≤ 4 * |(1.96 : ℝ)| then ⌊(4 * |(1.96 : ℝ)| : ℝ)⌋ else ⌈(4 * |(1.96 : ℝ)| : ℝ)⌉) = 7
    have e : (4 * |(1.96 : ℝ)| : ℝ) = 7.84 := by rw [abs_of_pos (by norm_num)]; norm_num
    rw [e, if_pos (by norm_num), Int.floor_eq_iff]; constructor <;> norm_num
  unfold StatanGen.chiSel
  simp [h]

/-! ## Source tie of the coefficients, thresholds and branches (round 7)

`Gen/StatanFns.lean` is rewritten from `statan.cpp` on every run: `Normal`, `Student`, `Chi_square`,
`NormalDistribution`, one line per C++ statement, every literal the exact decimal of the source. -/

/-- **the model is the function the source defines now**, for every scalar type (`Float` in the driver, `ℝ` in the
    theorems above): `NormalDistribution` (density constant 0.3989422804014327, the `x == 0` shortcut, the underflow
    branch, the thresholds 2.32 / 3.5, the start of both loops, the final `s − D` test; `maxd`, `mind`), `Normal` (all
    coefficients of the rational start correction and of the refinement step), `Student` (closed forms, Hill's prelude,
    threshold `a + 0.05`, both Hill branches) and `Chi_square` (selector and both polynomials).  A changed coefficient,
    threshold, sign, branch or statement order in the C++ changes the right-hand sides and this proof fails.
    (The BODIES of the two loops of `NormalDistribution` are pinned text in the translator: any change there stops it.) -/
theorem C17_statan_source_tie {K : Type} [Scalar K] [Transc K] [Trunc K] (fuel : ℕ) :
    (∀ x : K, normalDistribution fuel x = Gen.Statan.NormalDistribution fuel x) ∧
    (∀ a : K, normal fuel a = Gen.Statan.Normal fuel a) ∧
    (∀ (p : K) (N : ℤ), student fuel p N = Gen.Statan.Student fuel p N) ∧
    (∀ (p : K) (n : ℤ), chiSquare fuel p n = Gen.Statan.Chi_square fuel p n) ∧
    (maxd : K) = Gen.Statan.maxd ∧ (mind : K) = Gen.Statan.mind :=
  ⟨normalDistribution_eq_gen fuel, normal_eq_gen fuel, student_eq_gen fuel, chiSquare_eq_gen fuel, rfl, rfl⟩

/-- the symmetry clauses stated for the REGENERATED functions: `Normal(1 − α) = −Normal(α)`,
    `Student(1 − α, N) = −Student(α, N)` for α ≠ ½, `Student(½, N) = 0` -/
theorem C17_antisym_source (fuel : ℕ) (N : ℤ) {α : ℝ} (h : α ≠ 1 / 2) :
    Gen.Statan.Normal fuel (1 - α) = - Gen.Statan.Normal fuel α ∧
    Gen.Statan.Student fuel (1 - α) N = - Gen.Statan.Student fuel α N ∧
    Gen.Statan.Student fuel (1 / 2 : ℝ) N = 0 := by
  simp only [← normal_eq_gen, ← student_eq_gen]
  exact ⟨normal_antisym fuel h, student_antisym fuel N h, student_half fuel N⟩

-- non-vacuity: α = 1/4 ≠ 1/2
example : (1 / 4 : ℝ) ≠ 1 / 2 := by norm_num

/-! ## Round 9: monotonicity of `Chi_square`, n ≥ 3 (on the regenerated function)

`Chi_square(p, n) = n·z³` with `z = chiZ n (Normal p)`: the probability enters through the normal critical value only.
Inside one piece of the selector (`|t| < (n−1)/4`: polynomial B, else A) and inside the window `t² ≤ (49/16)·n`
(`|t/√n| ≤ 7/4`; for n ≥ 4 this contains every `|t| ≤ 3.5`, i.e. all tail probabilities 0.0005 … 0.9995) the value is
strictly increasing in `t`.  NOT provable and FALSE in general: (a) across the junction of the two pieces
(`C17_chi2_junction_step_9`: a downward step at t = −2 for n = 9; replayed on the C++ for n = 7, 8, 9 — finding C17-F2),
(b) outside the window in the extreme tails (`C17_chi2_extreme_tail_turns_4`: known finding C17-F1).
RESIDUE for "monotone in p": `Normal` itself strictly decreasing (hypothesis `hN` below; over ℝ it is a statement about the
partial sums / convergents that `NormalDistribution` returns, not proved; in floating point it WAS false below α ≈ 1e-9 —
finding C17-F3, the sawtooth of `f = 1 - f` — on the code before /repo 708b5036; since that commit `Normal` takes the upper
tail from `NormalDistribution(-z)`, which the model follows through the regenerated flag `StatanGen.normalUpperDirect`
(`Statan.normalWith`), see the report). -/

/-- **the probability enters through `Normal(p)` only** (regenerated `Chi_square`, every n ≥ 3) -/
theorem C17_chi2_through_normal (fuel : ℕ) (p : ℝ) {n : ℤ} (hn : 3 ≤ n) :
    Gen.Statan.Chi_square fuel p n = (n : ℝ) * chiZ n (Gen.Statan.Normal fuel p) ^ 3 := by
  rw [← chiSquare_eq_gen, ← normal_eq_gen]; exact chiSquare_eq_chiZ fuel p hn

/-- **both polynomials are strictly increasing** in `f2 = t/√n` on [−7/4, 7/4], for every `f1 = 1/n ∈ [0, 1/3]`
    (the regenerated `chiPolyA`, `chiPolyB`: a changed coefficient re-opens the proof) -/
theorem C17_chi2_poly_mono {f1 u v : ℝ} (h0 : 0 ≤ f1) (h1 : f1 ≤ 1 / 3) (hu : |u| ≤ 7 / 4) (hv : |v| ≤ 7 / 4)
    (huv : u < v) :
    StatanGen.chiPolyA f1 u < StatanGen.chiPolyA f1 v ∧ StatanGen.chiPolyB f1 u < StatanGen.chiPolyB f1 v :=
  ⟨chiPolyA_strictMono h0 h1 hu hv huv, chiPolyB_strictMono h0 h1 hu hv huv⟩

/-- **piecewise monotone, every n ≥ 3**: two critical values `s < t` of the normal distribution inside the window and
    inside the same piece of the selector give `n·chiZ(s)³ < n·chiZ(t)³` (no sign condition: odd power) -/
theorem C17_chi2_piecewise_mono {n : ℤ} (hn : 3 ≤ n) {s t : ℝ} (hst : s < t)
    (hsel : StatanGen.chiSel n s = StatanGen.chiSel n t)
    (hs : s ^ 2 ≤ 49 / 16 * (n : ℝ)) (ht : t ^ 2 ≤ 49 / 16 * (n : ℝ)) :
    chiZ n s < chiZ n t ∧ (n : ℝ) * chiZ n s ^ 3 < (n : ℝ) * chiZ n t ^ 3 :=
  ⟨chiZ_strictMono_piece hn hst hsel hs ht, chi_cube_lt hn (chiZ_strictMono_piece hn hst hsel hs ht)⟩

/-- **`Chi_square` decreasing in p wherever `Normal` is** (regenerated functions): if `Normal(q) < Normal(p)` — what a
    strictly decreasing `Normal` gives for `p < q` — both inside the window and the same piece, then
    `Chi_square(q, n) < Chi_square(p, n)` -/
theorem C17_chi2_mono_given_normal (fuel : ℕ) {n : ℤ} (hn : 3 ≤ n) {p q : ℝ}
    (hN : Gen.Statan.Normal fuel q < Gen.Statan.Normal fuel p)
    (hsel : StatanGen.chiSel n (Gen.Statan.Normal fuel q) = StatanGen.chiSel n (Gen.Statan.Normal fuel p))
    (hq : Gen.Statan.Normal fuel q ^ 2 ≤ 49 / 16 * (n : ℝ)) (hp : Gen.Statan.Normal fuel p ^ 2 ≤ 49 / 16 * (n : ℝ)) :
    Gen.Statan.Chi_square fuel q n < Gen.Statan.Chi_square fuel p n := by
  simp only [← chiSquare_eq_gen, ← normal_eq_gen] at *
  exact chiSquare_anti_of_normal fuel hn hN hsel hq hp

/-- **junction inequalities** for n = 4 (|t| = 3/4) and n = 16 (|t| = 15/4), the n ≤ 20 with a rational root whose pieces
    join in the right order on both sides: B ≤ A at the upper junction, A ≤ B at the lower one -/
theorem C17_chi2_junctions_4_16 :
    StatanGen.chiPolyB (1 / 4 : ℝ) (3 / 8) < StatanGen.chiPolyA (1 / 4) (3 / 8) ∧
    StatanGen.chiPolyA (1 / 4 : ℝ) (-(3 / 8)) < StatanGen.chiPolyB (1 / 4) (-(3 / 8)) ∧
    StatanGen.chiPolyB (1 / 16 : ℝ) (15 / 16) < StatanGen.chiPolyA (1 / 16) (15 / 16) ∧
    StatanGen.chiPolyA (1 / 16 : ℝ) (-(15 / 16)) < StatanGen.chiPolyB (1 / 16) (-(15 / 16)) := chi_junction_4_16

/-- NEG (finding C17-F2, replayed on the C++): n = 9, inside the window, `s = −2 < t = −1.999999` but
    `chiZ 9 t < chiZ 9 s`: at the lower junction `t = −(n−1)/4` polynomial A (used below) lies above polynomial B (used
    above) — `Chi_square(p, 9)` steps DOWN by ≈ 1e-5 where p passes Φ(2) = 0.97725.  So `hsel` cannot be dropped. -/
theorem C17_chi2_junction_step_9 :
    ∃ s t : ℝ, s < t ∧ s ^ 2 ≤ 49 / 16 * ((9 : ℤ) : ℝ) ∧ t ^ 2 ≤ 49 / 16 * ((9 : ℤ) : ℝ) ∧ chiZ 9 t < chiZ 9 s := by
  refine ⟨-2, -(1999999 / 1000000), by norm_num, by norm_num, by norm_num, ?_⟩
  have hq : Real.sqrt (1 / ((9 : ℤ) : ℝ)) = 1 / 3 := by
    rw [show (1 / ((9 : ℤ) : ℝ)) = (1 / 3 : ℝ) ^ 2 by norm_num]; exact Real.sqrt_sq (by norm_num)
  have h1 : (Trunc.trunc ((4 : ℝ) * 2) : ℤ) = 8 := by
    show (if (0 : ℝ) ≤ 4 * 2 then ⌊(4 * 2 : ℝ)⌋ else ⌈(4 * 2 : ℝ)⌉) = 8
    rw [if_pos (by norm_num), Int.floor_eq_iff]; constructor <;> norm_num
  have h2 : (Trunc.trunc ((4 : ℝ) * |(1999999 / 1000000 : ℝ)|) : ℤ) = 7 := by
    show (if (0 : ℝ) ≤ 4 * |(1999999 / 1000000 : ℝ)| then ⌊(4 * |(1999999 / 1000000 : ℝ)| : ℝ)⌋
      else ⌈(4 * |(1999999 / 1000000 : ℝ)| : ℝ)⌉) = 7
    have e : (4 * |(1999999 / 1000000 : ℝ)| : ℝ) = 1999999 / 250000 := by rw [abs_of_pos (by norm_num)]; norm_num
    rw [e, if_pos (by norm_num), Int.floor_eq_iff]; constructor <;> norm_num
  have s1 : StatanGen.chiSel 9 (-2 : ℝ) = true := by unfold StatanGen.chiSel; simp [h1]
  have s2 : StatanGen.chiSel 9 (-(1999999 / 1000000) : ℝ) = false := by unfold StatanGen.chiSel; simp [h2]
  unfold chiZ
  rw [s1, s2, hq]
  simp only [chiPolyA_rat, chiPolyB_rat]
  norm_num

/-- NEG (known finding C17-F1 in the model): n = 4 (`f2 = t/2`), far outside the window: polynomial A has turned round,
    `t = −6 < −5.5` but `A(1/4, −3) > A(1/4, −2.75)` — the extreme lower tail (1 − p < 1e-7) is not monotone -/
theorem C17_chi2_extreme_tail_turns_4 :
    StatanGen.chiPolyA (1 / 4 : ℝ) (-(11 / 4)) < StatanGen.chiPolyA (1 / 4) (-3) := chi_extreme_tail_4_fails

-- non-vacuity: n = 7, s = 0 < t = 1 (both |·| < 3/2: polynomial B), inside the window
example : (3 : ℤ) ≤ 7 ∧ (0 : ℝ) < 1 ∧ (0 : ℝ) ^ 2 ≤ 49 / 16 * ((7 : ℤ) : ℝ) ∧ (1 : ℝ) ^ 2 ≤ 49 / 16 * ((7 : ℤ) : ℝ) := by norm_num
example : (0 : ℝ) ≤ 1 / 7 ∧ (1 / 7 : ℝ) ≤ 1 / 3 ∧ |(-1 : ℝ)| ≤ 7 / 4 ∧ |(3 / 2 : ℝ)| ≤ 7 / 4 ∧ (-1 : ℝ) < 3 / 2 := by
  refine ⟨by norm_num, by norm_num, ?_, ?_, by norm_num⟩
  · rw [abs_of_neg (by norm_num)]; norm_num
  · rw [abs_of_pos (by norm_num)]; norm_num

/-! ## Round 9: `Student`, N ≥ 3 — the tail branch of Hill's algorithm is strictly monotone

`Student` for N ≥ 3 has two branches, selected by `y = (d·2α)^(2/N)` against `a + 0.05`.  The tail branch (`y ≤ a + 0.05`)
is a closed form in α: proved strictly decreasing below, 3 ≤ N ≤ 10000 (the range of `C17_finite_student_hill2_partial`).
For N = 3 it is the branch of every α ≤ 1/24 (the 95 % and 99 % levels).  RESIDUE: the other branch goes through
`x = −Normal(α)` (monotone only as far as `Normal` is) and a rational function of x with the parameters (N, x) — not proved;
the junction `y = a + 0.05` between the two branches — not proved (oracle). -/

/-- **Hill's tail-branch radicand is strictly decreasing in y** on (0, a + 0.05], 3 ≤ r ≤ 10000, any `d` with
    `0 < d`, `d² ≤ 1.9 r` (what `hillABCD` gives) -/
theorem C17_hill_tail_radicand_anti {r d y1 y2 : ℝ} (hr : 3 ≤ r) (hr' : r ≤ 10000) (hd0 : 0 < d)
    (hd : d ^ 2 ≤ 19 / 10 * r) (h1 : 0 < y1) (h12 : y1 < y2) (h2 : y2 ≤ 1 / (r - 1 / 2) + 1 / 20) :
    hillY2 r d y2 < hillY2 r d y1 := hillY2_strictAnti hr hr' hd0 hd h1 h12 h2

/-- **Student, 3 ≤ N ≤ 10000, tail branch, on the regenerated function**: for `0 < α < β < ½` with β (hence α) in the
    tail branch, `Student(β, N) < Student(α, N)` and `0 < Student(β, N)`; by antisymmetry the mirrored statement holds above ½ -/
theorem C17_student_mono_hill_tail (fuel : ℕ) {N : ℤ} (hN : 3 ≤ N) (hN' : N ≤ 10000) {α β : ℝ} (h0 : 0 < α) (hab : α < β)
    (hb : β < 1 / 2) (hbr : ¬ ((hillABCD (Scalar.ofInt N : ℝ)).1 + 1 / 20 < hillY N (β * 2))) :
    Gen.Statan.Student fuel β N < Gen.Statan.Student fuel α N ∧ 0 < Gen.Statan.Student fuel β N ∧
      Gen.Statan.Student fuel (1 - α) N < Gen.Statan.Student fuel (1 - β) N := by
  simp only [← student_eq_gen]
  obtain ⟨h1, h2⟩ := student_hill_tail_strictAnti fuel hN hN' h0 hab hb hbr
  refine ⟨h1, h2, ?_⟩
  rw [student_antisym fuel N (by intro e; linarith : α ≠ 1 / 2), student_antisym fuel N (by intro e; linarith : β ≠ 1 / 2)]
  linarith

/-- non-vacuity and reach: for N = 3 every `α ≤ 1/24` is in the tail branch — `Student(·, 3)` is strictly decreasing on
    (0, 1/24] (and increasing-mirrored on [23/24, 1)); instance α = 0.005 < β = 0.025 -/
theorem C17_student_mono_N3 (fuel : ℕ) {α β : ℝ} (h0 : 0 < α) (hab : α < β) (hb : β ≤ 1 / 24) :
    Gen.Statan.Student fuel β 3 < Gen.Statan.Student fuel α 3 ∧ 0 < Gen.Statan.Student fuel β 3 := by
  have h := C17_student_mono_hill_tail fuel (N := 3) (by norm_num) (by norm_num) h0 hab (by linarith)
    (hillY_tail_N3 (by linarith) (by linarith))
  exact ⟨h.1, h.2.1⟩

example : (0 : ℝ) < 0.005 ∧ (0.005 : ℝ) < 0.025 ∧ (0.025 : ℝ) ≤ 1 / 24 := by norm_num

/-! ## Round 13: `Student`, N ≥ 3 — the FIRST Hill branch

`y = (d·2α)^(2/N) > a + 0.05`: `Student = sqrt(N · hillExp(a · y₁²))`, `y₁ = hillY1 … x`, `x = −Normal(α)`
(`Normal(0.5·alfa)` with `alfa = 2α`): the probability enters through `Normal` only.  The OUTER part is proved monotone in
full, including the switch `y ≤ 0.002 ? 0.5y² + y : exp(y) − 1`.  RESIDUE (hypothesis `hY`): `y₁²` strictly increasing in
`|x|` — `y₁ = x·(1 + (P(x²)/C(x) − x² − 3)/b)`, a rational function of x with parameters (N, r, b, c, d); with `Normal`
decreasing (`x_β > x_α`) it is exactly what is missing.  The junction `y = a + 0.05` between the two branches compares a closed
form with a value of `Normal`: it needs an enclosure of `NormalDistribution`'s series, not attempted (oracle). -/

/-- **outer map of the first branch** strictly increasing on [0, ∞) across its switch at 0.002 (`1 + y + y²/2 ≤ exp y`) -/
theorem C17_hill_first_outer_mono {s t : ℝ} (hs : 0 ≤ s) (hst : s < t) : hillExp s < hillExp t ∧ 0 ≤ hillExp s :=
  ⟨hillExp_strictMono hs hst, hillExp_nonneg hs⟩

/-- **Student, N ≥ 3, first branch, on the regenerated function**: `0 < α < β < ½`, both in the first branch, `y₁²` ordered
    (hypothesis `hY`: the residue named above) ⇒ `Student(β, N) < Student(α, N)`; every N ≥ 3 (no upper bound here) -/
theorem C17_student_mono_hill_first (fuel : ℕ) {N : ℤ} (hN : 3 ≤ N) {α β : ℝ} (hab : α < β) (hb : β < 1 / 2)
    (hbu : (hillABCD (Scalar.ofInt N : ℝ)).1 + 1 / 20 < hillY N (α * 2))
    (hbv : (hillABCD (Scalar.ofInt N : ℝ)).1 + 1 / 20 < hillY N (β * 2))
    (hY : hillY1 N (Scalar.ofInt N : ℝ) (hillABCD (Scalar.ofInt N : ℝ)).2.1 (hillABCD (Scalar.ofInt N : ℝ)).2.2.1
            (hillABCD (Scalar.ofInt N : ℝ)).2.2.2 (-(normal fuel (lit 5 1 * (β * 2)))) ^ 2
        < hillY1 N (Scalar.ofInt N : ℝ) (hillABCD (Scalar.ofInt N : ℝ)).2.1 (hillABCD (Scalar.ofInt N : ℝ)).2.2.1
            (hillABCD (Scalar.ofInt N : ℝ)).2.2.2 (-(normal fuel (lit 5 1 * (α * 2)))) ^ 2) :
    Gen.Statan.Student fuel β N < Gen.Statan.Student fuel α N := by
  simp only [← student_eq_gen]
  exact student_hill_first_mono fuel hN hab hb hbu hbv hY

-- non-vacuity of the outer map: both pieces and the switch
example : (0 : ℝ) ≤ 1 / 1000 ∧ (1 / 1000 : ℝ) < 1 / 100 := by norm_num

/-- **`KSprob` is the function the source defines now** (round 13), every scalar type: the constants `1e-20`, `1.18`, `8`, `-2`,
    the start values of both loops and the closing factor; the loop bodies are pinned text (any change stops the translator),
    their exit tests regenerated fragments (`StatanGen.ksStop1`, `ksContinue2`), the fuel covered by `C17_ks_fuel` -/
theorem C17_ksprob_source_tie {K : Type} [Scalar K] [Transc K] (x : K) : ksProb x = Gen.Statan.KSprob x :=
  ksProb_eq_gen x

end Gama.Props.C17
