/-
  C12 — the two consumers of the adjustment XML (`Gama/Model/Consumers.lean`):
  `compare-xyz` (`CompareXYZ::fetch_file` / `write_xml`, exit status) and `gama-local-deformation`
  (`check_arguments` index check of fix e4c977d, `init`, rows and matrix `C` of `write_txt`).

  `std::map` is a strictly sorted association list; `fabs` is `|·|` of a linearly ordered field.
  All proofs are in `Gama/Lemmas/Consumers.lean`.
-/
import Gama.Lemmas.Consumers
import Mathlib.Tactic.NormNum

namespace Gama.Props.C12Consumers
open Gama.Consumers

variable {ι K : Type} [LinearOrder ι] [Field K] [LinearOrder K] [IsStrictOrderedRing K]

/-- **a result compared with itself.**
    (a) compare-xyz: every row has zero differences, every fetched point (a point of the file with both
        `hxy` and `hz`) is compared, the `max` line and `abs_max` are zero, the comparison passes and the
        exit status is 0 for every tolerance `≥ 0`.  No uniqueness of ids is needed.
    (b) gama-local-deformation: when the index check passes the tool succeeds, all shifts are zero,
        `t1 = t2`, `cov_index` is their length and the covariance of the shifts is `2·cov` restricted to
        the compared coordinates addressed through `t1`. -/
theorem C12_self_difference_zero :
    (∀ (f : List (APoint ι K)) (tol : K), 0 ≤ tol →
      let r := compareXYZ (fun x : K => |x|) tol f f
      (∀ row ∈ r.rows, row.dx = 0 ∧ row.dy = 0 ∧ row.dz = 0) ∧
      r.rows.map (·.id) = (fetch f).map (·.1) ∧
      (∀ k, k ∈ r.rows.map (·.id) ↔ ∃ p ∈ f, p.id = k ∧ p.hxy ∧ p.hz) ∧
      r.DX = 0 ∧ r.DY = 0 ∧ r.DZ = 0 ∧ r.absMax = 0 ∧ r.failed = false ∧ exitCode r = 0) ∧
    (∀ e : Epoch ι K, indexesOk e = true →
      ∃ o, deformation e e = .ok o ∧ (∀ d ∈ o.diffs, d.dx = 0 ∧ d.dy = 0 ∧ d.dz = 0) ∧
        o.t1 = o.t2 ∧ o.covIndex = o.t1.length ∧
        o.C = (List.range o.covIndex).map (fun i0 => (List.range (o.covIndex - i0)).map (fun d =>
          2 * e.cov (o.t1.getD i0 0) (o.t1.getD (i0 + d) 0)))) := by
  refine ⟨fun f tol htol => ?_, fun e he => deformation_self e he⟩
  intro r
  obtain ⟨h1, h2, h3⟩ := compare_self htol f
  refine ⟨h1, h2, fun k => ?_, h3⟩
  rw [h2]; exact fetch_keys f k

example : (0 : ℚ) ≤ 1 / 1000 ∧ indexesOk Ex.e1 = true := ⟨by norm_num, by decide⟩
example : exitCode (compareXYZ (fun x : ℚ => |x|) (1 / 1000) Ex.f1 Ex.f1) = 0 :=
  ((C12_self_difference_zero (ι := ℕ) (K := ℚ)).1 Ex.f1 (1 / 1000) (by norm_num)).2.2.2.2.2.2.2.2
example : (compareXYZ (fun x : ℚ => |x|) (1 / 1000) Ex.f1 Ex.f1).rows.map (·.id) = [1, 3] := by decide

omit [LinearOrder K] [IsStrictOrderedRing K] in
/-- with unique ids the coordinates compared by `gama-local-deformation e e` are exactly the adjusted
    coordinates (non-zero indexes) of the file -/
theorem C12_self_difference_compared_coordinates (e : Epoch ι K) (o : DefOut ι K)
    (hnd : (e.pts.map (·.id)).Nodup) (h : deformation e e = .ok o) :
    ∀ k, k ∈ o.t1 ↔
      ∃ p ∈ e.pts, (p.indx ≠ 0 ∧ (k = p.indx ∨ k = p.indy)) ∨ (p.indz ≠ 0 ∧ k = p.indz) := by
  obtain ⟨_, _, rfl⟩ := deformation_eq_ok h
  exact self_compared hnd

example : (Ex.e1.pts.map (·.id)).Nodup ∧ ∃ o, deformation Ex.e1 Ex.e1 = .ok o :=
  ⟨by decide, (deformation_ok_iff _ _).2 ⟨by decide, by decide⟩⟩
/-- point 2 has no height: `xy` only; ids come out sorted although the file has 3, 1, 2 -/
example : ∃ o, deformation Ex.e1 Ex.e1 = .ok o ∧ o.t1 = [4, 5, 6, 7, 8, 1, 2, 3] ∧ o.covIndex = 8 ∧
    o.diffs.map (fun d => (d.id, d.indx, d.indy, d.indz)) = [(1, 1, 2, 3), (2, 4, 5, 0), (3, 6, 7, 8)] :=
  ⟨_, rfl, by decide, by decide, by decide⟩

/-- **compare-xyz prints `file 2 − file 1` on the common points, whatever the point order.**
    With unique ids in both files: (i) every row is a point of file 1 and the point of file 2 with the
    same id, both with `hxy` and `hz`, and shows the coordinates of file 1 and the plain differences;
    (ii) every such pair has a row; (iii) rows are in strictly increasing id order; (iv) permuting the
    points of either file does not change the report. -/
theorem C12_difference_is_plain (tol : K) (f1 f2 : List (APoint ι K))
    (h1 : (f1.map (·.id)).Nodup) (h2 : (f2.map (·.id)).Nodup) :
    let r := compareXYZ (fun x : K => |x|) tol f1 f2
    (∀ row ∈ r.rows, ∃ p ∈ f1, ∃ q ∈ f2, p.id = row.id ∧ q.id = row.id ∧
        p.hxy ∧ p.hz ∧ q.hxy ∧ q.hz ∧ row.x1 = p.x ∧ row.y1 = p.y ∧ row.z1 = p.z ∧
        row.dx = q.x - p.x ∧ row.dy = q.y - p.y ∧ row.dz = q.z - p.z) ∧
    (∀ p ∈ f1, ∀ q ∈ f2, p.id = q.id → p.hxy → p.hz → q.hxy → q.hz →
        ∃ row ∈ r.rows, row.id = p.id ∧ row.dx = q.x - p.x ∧ row.dy = q.y - p.y ∧ row.dz = q.z - p.z) ∧
    (r.rows.map (·.id)).Pairwise (· < ·) ∧
    (∀ f1' f2', f1.Perm f1' → f2.Perm f2' → compareXYZ (fun x : K => |x|) tol f1' f2' = r) :=
  ⟨compare_sound tol h1 h2, compare_complete tol h1 h2, compare_rows_sorted tol f1 f2,
    fun _ _ p1 p2 => compare_perm tol h1 h2 p1 p2⟩

example : (Ex.f1.map (·.id)).Nodup ∧ (Ex.f2.map (·.id)).Nodup ∧ Ex.f1.Perm Ex.f1' ∧ Ex.f2.Perm Ex.f2' :=
  ⟨by decide, by decide, Ex.perm1, Ex.perm2⟩
example : (compareXYZ (fun x : ℚ => |x|) (1 / 10) Ex.f1 Ex.f2).rows.map (·.id) = [1, 3] := by decide
example : compareXYZ (fun x : ℚ => |x|) (1 / 10) Ex.f1' Ex.f2' = compareXYZ (fun x : ℚ => |x|) (1 / 10) Ex.f1 Ex.f2 :=
  (C12_difference_is_plain (1 / 10) Ex.f1 Ex.f2 (by decide) (by decide)).2.2.2 _ _ Ex.perm1 Ex.perm2

/-- **the `max` line, `abs_max` and pass/fail of compare-xyz.**  `failed ↔ abs_max > tol`; `abs_max` is the
    largest of `|DX| |DY| |DZ|`; `DX` (`DY`, `DZ`) bounds every row in absolute value and, when there is
    a row, is the `dx` (`dy`, `dz`) of one of the rows. -/
theorem C12_compare_max_is_attained (tol : K) (f1 f2 : List (APoint ι K)) :
    let r := compareXYZ (fun x : K => |x|) tol f1 f2
    (r.failed = true ↔ tol < r.absMax) ∧
    r.absMax = max |r.DX| (max |r.DY| |r.DZ|) ∧
    (∀ row ∈ r.rows, |row.dx| ≤ |r.DX| ∧ |row.dy| ≤ |r.DY| ∧ |row.dz| ≤ |r.DZ|) ∧
    (r.rows ≠ [] → (∃ row ∈ r.rows, r.DX = row.dx) ∧ (∃ row ∈ r.rows, r.DY = row.dy) ∧
      (∃ row ∈ r.rows, r.DZ = row.dz)) :=
  compare_max tol f1 f2

example : (compareXYZ (fun x : ℚ => |x|) (1 / 10) Ex.f1 Ex.f2).rows ≠ [] := by
  intro h
  have := congrArg (List.map (·.id)) h
  revert this; decide

omit [LinearOrder K] [IsStrictOrderedRing K] in
/-- **gama-local-deformation prints `epoch 2 − epoch 1` on the common points, and `C` is the sum of the
    two covariance blocks addressed through `t1`/`t2`, whatever the point order.**
    (i)+(iii) every difference record is a point `p` of epoch 1 and the point `q` of epoch 2 with the same
    id: plain differences, the coordinates of epoch 2, an `xy` (`z`) index iff both epochs have one, and
    the 1-based indexes of the record address `p`'s unknowns in `t1` and `q`'s unknowns in `t2`;
    (ii) every common id adjusted in `xy` or in `z` in both epochs has a record;
    (iv) `C(i,j) = cov1(t1[i],t1[j]) + cov2(t2[i],t2[j])` for `1 ≤ i ≤ j ≤ cov_index` (0-based here);
    (v) permuting the points of either file does not change the outcome. -/
theorem C12_difference_is_plain_deformation (e1 e2 : Epoch ι K) (o : DefOut ι K)
    (h1 : (e1.pts.map (·.id)).Nodup) (h2 : (e2.pts.map (·.id)).Nodup)
    (h : deformation e1 e2 = .ok o) :
    (∀ d ∈ o.diffs, ∃ p ∈ e1.pts, ∃ q ∈ e2.pts, p.id = d.id ∧ q.id = d.id ∧
        d.dx = q.x - p.x ∧ d.dy = q.y - p.y ∧ d.dz = q.z - p.z ∧
        d.x2 = q.x ∧ d.y2 = q.y ∧ d.z2 = q.z ∧
        (d.indx ≠ 0 ↔ (p.indx ≠ 0 ∧ q.indx ≠ 0)) ∧ (d.indz ≠ 0 ↔ (p.indz ≠ 0 ∧ q.indz ≠ 0)) ∧
        (d.indx ≠ 0 → o.t1.getD (d.indx - 1) 0 = p.indx ∧ o.t1.getD (d.indy - 1) 0 = p.indy ∧
          o.t2.getD (d.indx - 1) 0 = q.indx ∧ o.t2.getD (d.indy - 1) 0 = q.indy) ∧
        (d.indz ≠ 0 → o.t1.getD (d.indz - 1) 0 = p.indz ∧ o.t2.getD (d.indz - 1) 0 = q.indz)) ∧
    (∀ p ∈ e1.pts, ∀ q ∈ e2.pts, p.id = q.id →
        ((p.indx ≠ 0 ∧ q.indx ≠ 0) ∨ (p.indz ≠ 0 ∧ q.indz ≠ 0)) →
        ∃ d ∈ o.diffs, d.id = p.id ∧ d.dx = q.x - p.x ∧ d.dy = q.y - p.y ∧ d.dz = q.z - p.z) ∧
    (o.covIndex = o.t1.length ∧ o.t2.length = o.t1.length ∧
      ∀ i0 d, i0 < o.covIndex → d < o.covIndex - i0 →
        (o.C.getD i0 []).getD d 0 =
          e1.cov (o.t1.getD i0 0) (o.t1.getD (i0 + d) 0) + e2.cov (o.t2.getD i0 0) (o.t2.getD (i0 + d) 0)) ∧
    (∀ pts1' pts2', e1.pts.Perm pts1' → e2.pts.Perm pts2' →
        deformation ⟨pts1', e1.covDim, e1.cov⟩ ⟨pts2', e2.covDim, e2.cov⟩ = deformation e1 e2) := by
  obtain ⟨_, _, rfl⟩ := deformation_eq_ok h
  exact ⟨diffs_sound e1.pts e2.pts, diffs_complete h1 h2,
    ⟨defOut_covIndex e1 e2, t2List_length _, fun _ _ hi hd => defOut_C_entry e1 e2 hi hd⟩,
    fun _ _ p1 p2 => deformation_perm h1 h2 p1 p2 _ _ _ _⟩

example : (Ex.e1.pts.map (·.id)).Nodup ∧ (Ex.e2.pts.map (·.id)).Nodup ∧
    ∃ o, deformation Ex.e1 Ex.e2 = .ok o ∧ o.diffs.map (·.id) = [1, 3] ∧ o.covIndex = 6 :=
  ⟨by decide, by decide, _, rfl, by decide, by decide⟩
/-- the two epochs number the unknowns differently: `t1 ≠ t2` -/
example : ∃ o, deformation Ex.e1 Ex.e2 = .ok o ∧ o.t1 = [4, 5, 6, 1, 2, 3] ∧ o.t2 = [1, 2, 3, 4, 5, 6] ∧
    o.diffs.map (fun d => (d.id, d.indx, d.indy, d.indz)) = [(1, 1, 2, 3), (3, 4, 5, 6)] :=
  ⟨_, rfl, by decide, by decide, by decide⟩

omit [LinearOrder ι] [LinearOrder K] [IsStrictOrderedRing K] in
/-- **the sites of `GamaLocalDeformation::init()`, regenerated from deformation.cpp** (`Gen/DeformSites.lean`,
    tools/gen/c12_deform.py).  (a) on the generated table itself (`decide`): every `tN.push_back( r.second.M )`
    reads an INDEX member whose epoch suffix is N, every guard tests the same coordinate's index of epoch 1 and
    of epoch 2, and every assignment `rec.M = pK.F` of loop K writes the member with suffix K from the
    same-named field; (b) hence, for every record, `t1` gets `indx1, indy1 | indz1` and `t2` gets
    `indx2, indy2 | indz2` under the guards `indx1 && indx2` / `indz1 && indz2`, and the loops fill the record as
    `put1_def` / `put2_def` say.  `C12_difference_is_plain_deformation` is proved from (b); a changed site
    (seeded/C12-seed3: `t2.push_back( r.second.indz1 )`) makes (a) false and this theorem fail. -/
theorem C12_deformation_sites_regenerated :
    ((Gama.Gen.DeformSites.blocks.flatMap (·.pushes)).all
        (fun q => q.src.kind == .ind && q.src.epoch == q.target && (q.target == 1 || q.target == 2)) = true ∧
      Gama.Gen.DeformSites.blocks.all (fun b =>
        b.guard.map (·.epoch) == [1, 2] && b.guard.all (fun g => g.kind == .ind && g.coord == (b.guard.map (·.coord)).headD .x)
        && b.pushes.all (fun q => q.src.coord == (b.guard.map (·.coord)).headD .x
                                  || ((b.guard.map (·.coord)).headD .x == .x && q.src.coord == .y))) = true ∧
      Gama.Gen.DeformSites.fills.all (fun f =>
        f.dst.epoch == f.loop && f.dst.kind == f.srcKind && f.dst.coord == f.srcCoord) = true ∧
      Gama.Gen.DeformSites.fills.length = 12 ∧ (Gama.Gen.DeformSites.blocks.flatMap (·.pushes)).length = 6) ∧
    (∀ r : Rec12 K,
      t1Of r = (if r.indx1 ≠ 0 ∧ r.indx2 ≠ 0 then [r.indx1, r.indy1] else []) ++
               (if r.indz1 ≠ 0 ∧ r.indz2 ≠ 0 then [r.indz1] else []) ∧
      t2Of r = (if r.indx1 ≠ 0 ∧ r.indx2 ≠ 0 then [r.indx2, r.indy2] else []) ++
               (if r.indz1 ≠ 0 ∧ r.indz2 ≠ 0 then [r.indz2] else [])) ∧
    (∀ (p : APoint ι K) (o : Option (Rec12 K)),
      put1 p o = { (o.getD Rec12.zero) with indx1 := p.indx, x1 := p.x, indy1 := p.indy, y1 := p.y,
                                            indz1 := p.indz, z1 := p.z } ∧
      put2 p o = { (o.getD Rec12.zero) with indx2 := p.indx, x2 := p.x, indy2 := p.indy, y2 := p.y,
                                            indz2 := p.indz, z2 := p.z }) :=
  ⟨by decide, fun r => ⟨t1Of_def r, t2Of_def r⟩, fun p o => ⟨put1_def p o, put2_def p o⟩⟩

/-- the variant of seeded/C12-seed3 (the z site of `t2` reads `indz1`) on a record whose height has index 3 in
    epoch 1 and 6 in epoch 2 (an extra point sorts first in epoch 2): the epoch-2 covariance would be read at
    row 3 instead of row 6; the code's table reads row 6 -/
example :
    let seeded : List Gama.Gen.DeformSites.Block :=
      [⟨[⟨.ind, .x, 1⟩, ⟨.ind, .x, 2⟩], [⟨1, ⟨.ind, .x, 1⟩⟩, ⟨1, ⟨.ind, .y, 1⟩⟩, ⟨2, ⟨.ind, .x, 2⟩⟩, ⟨2, ⟨.ind, .y, 2⟩⟩]⟩,
       ⟨[⟨.ind, .z, 1⟩, ⟨.ind, .z, 2⟩], [⟨1, ⟨.ind, .z, 1⟩⟩, ⟨2, ⟨.ind, .z, 1⟩⟩]⟩]
    let r : Rec12 ℚ := ⟨1, 0, 2, 0, 3, 0, 4, 0, 5, 0, 6, 0⟩
    tOfWith seeded 2 r = [4, 5, 3] ∧ t2Of r = [4, 5, 6] ∧ t1Of r = [1, 2, 3] := by decide

omit [LinearOrder K] [IsStrictOrderedRing K] in
/-- **the index check of fix e4c977d.**  The tool succeeds iff every adjustment index of both files is
    inside the respective covariance matrix, and then every index the matrix loop reads through `t1`
    (`t2`) is inside the matrix of epoch 1 (epoch 2).  No uniqueness of ids is needed. -/
theorem C12_deformation_index_check (e1 e2 : Epoch ι K) :
    ((∃ o, deformation e1 e2 = .ok o) ↔ (indexesOk e1 = true ∧ indexesOk e2 = true)) ∧
    (∀ o, deformation e1 e2 = .ok o →
      (∀ k ∈ o.t1, k ≤ e1.covDim) ∧ (∀ k ∈ o.t2, k ≤ e2.covDim)) := by
  refine ⟨deformation_ok_iff e1 e2, fun o h => ?_⟩
  obtain ⟨a, b, rfl⟩ := deformation_eq_ok h
  exact ⟨t1List_le a, t2List_le b⟩

example : ∃ o, deformation Ex.e1 Ex.e2 = .ok o := ⟨_, rfl⟩
example : deformation Ex.eBad Ex.e2 = .error .index1 := rfl
example : deformation Ex.e1 Ex.eBad = .error .index2 := rfl
example : deformation Ex.eBad Ex.eBad = .error .index12 := rfl

end Gama.Props.C12Consumers
