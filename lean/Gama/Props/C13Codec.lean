/-
  C13, rows 1 / 8 / 9 for the REAL number printer.  `Props/C13.lean` proves `parseNet (exportNet n) = ok (canon (quantNet n))`
  and the fixed point for an abstract `Codec.Printer` law (witnessed there by the toy `decCodec` on ℕ); here the law is
  PROVED for what `export_xml` does — `to_xmlstr(val, prec)` = `ostr << std::setprecision(prec) << std::defaultfloat << val`
  (`%.{prec}g`), read back by `CoreParser::toDouble` (`IsFloat` + `atof`) — modelled over ℚ by `Model/DecimalCodec.lean`
  (`fmtGen`, `rdDecimal`) and tied to libstdc++ by the `codec` stream.

  Parameters, and why: `p` — `export_xml` prints with 8, 16 or 17 digits by site, the network model has one `fmt`;
  `m` — the tie rule (glibc: `RMode.halfEven`); `sd` — `apriori_m_0() * sqrt(dist)` is not rational; `pd` — precision
  of the STAND-IN for the sexagesimal text (see `Lemmas/DecimalCodecC13.lean`: the statements are about the real
  printer for documents in gons).  Over ℚ `*0.324`, `*(1/0.324)` and the latitude unit conversion are exact inverses,
  so `fromSec_toSec` holds as stated; for doubles only the weakened `q (toSec (fromSec (q x))) = q x` can hold
  (`C13_sec_law_after_quantisation`; measured by C13's own streams).
-/
import Gama.Lemmas.DecimalCodecC13
namespace Gama.Props.C13Codec
open Gama.Export Gama.Dec Gama.Gen.GkfAttrs Gama.Gen.GkfDoc

/-- the real printer satisfies `Codec.Printer` with `q = ` rounding to `p` significant digits: all sixteen fields, among
    them `isZero_q` (a non-zero height never prints as zero — true for `%g`, FALSE for a fixed-decimals printer, see
    `C12Codec.C12_fixed_quantisation`), `pos_q`, `q_neg`, `fmt_q` -/
theorem C13_real_codec_printer (m : RMode) (p pd : Nat) (sd : ℚ → ℚ → ℚ) :
    (realCodec m p pd sd).Printer (roundSig m (sigDigits p)) (roundSig m (sigDigits pd)) :=
  realCodec_printer m p pd sd

/-- hence the exact law on the representable numbers (those with at most `p` significant digits) -/
theorem C13_real_codec_lawful (m : RMode) (p pd : Nat) (sd : ℚ → ℚ → ℚ) :
    (realCodec m p pd sd).LawfulOn (fun x => roundSig m (sigDigits p) x = x) ∧
    (realCodec m p pd sd).DegLawfulOn (fun x => roundSig m (sigDigits pd) x = x) :=
  ⟨(realCodec_printer m p pd sd).lawfulOn, (realCodec_printer m p pd sd).degLawfulOn⟩

/-- the size of the quantisation: half a unit of the `p`-th significant digit (relative ≤ ½·10^(1−p)), the value read
    back re-prints as itself, signs are symmetric, zero only for zero -/
theorem C13_real_quantisation (m : RMode) (p : Nat) (x : ℚ) (hx : x ≠ 0) :
    (∃ e : Int, (10 : ℚ) ^ e ≤ |x| ∧ |x| < (10 : ℚ) ^ (e + 1) ∧
      |roundSig m (sigDigits p) x - x| ≤ 1 / 2 * (10 : ℚ) ^ (e - ((sigDigits p : Int) - 1))) ∧
    roundSig m (sigDigits p) (roundSig m (sigDigits p) x) = roundSig m (sigDigits p) x ∧
    roundSig m (sigDigits p) (-x) = -roundSig m (sigDigits p) x ∧ roundSig m (sigDigits p) x ≠ 0 :=
  ⟨roundSig_err m _ (sigDigits_pos p) x hx, roundSig_idem m m _ (sigDigits_pos p) x, roundSig_neg m _ x,
   fun h => hx ((roundSig_eq_zero_iff m _ (sigDigits_pos p) x).mp h)⟩

/-- the document does not see the difference between a network and its quantisation -/
theorem C13_export_quantised_real (m : RMode) (p pd : Nat) (sd : ℚ → ℚ → ℚ) (n : Net ℚ) :
    exportNet (realCodec m p pd sd) (quantNet (realCodec m p pd sd) (roundSig m (sigDigits p)) (roundSig m (sigDigits pd)) n)
      = exportNet (realCodec m p pd sd) n :=
  exportNet_quant (realCodec_printer m p pd sd) n

/-- **row 1 for the real printer**: reading the export gives the network with every number rounded to `p` significant
    digits, provided the rounded values still pass the parser's guards (`Net.WF` of the quantised network, decidable) -/
theorem C13_roundtrip_network_real (m : RMode) (p pd : Nat) (sd : ℚ → ℚ → ℚ) (impl : Kind → ℚ) (par0 : Params ℚ) (n : Net ℚ)
    (hw : (quantNet (realCodec m p pd sd) (roundSig m (sigDigits p)) (roundSig m (sigDigits pd)) n).WF (realCodec m p pd sd)
      (fun x => roundSig m (sigDigits p) x = x) (fun x => roundSig m (sigDigits pd) x = x)) :
    parseNet (realCodec m p pd sd) impl par0 (exportNet (realCodec m p pd sd) n)
      = .ok (canon (quantNet (realCodec m p pd sd) (roundSig m (sigDigits p)) (roundSig m (sigDigits pd)) n)) :=
  parse_export_net_printer (realCodec_printer m p pd sd) impl par0 n hw

/-- **row 9 for the real printer**: exporting what was read gives the same document — a fixed point from the first
    round on, although the numbers were rounded -/
theorem C13_fixed_point_network_real (m : RMode) (p pd : Nat) (sd : ℚ → ℚ → ℚ) (impl : Kind → ℚ) (par0 : Params ℚ) (n : Net ℚ)
    (hw : (quantNet (realCodec m p pd sd) (roundSig m (sigDigits p)) (roundSig m (sigDigits pd)) n).WF (realCodec m p pd sd)
      (fun x => roundSig m (sigDigits p) x = x) (fun x => roundSig m (sigDigits pd) x = x)) :
    (parseNet (realCodec m p pd sd) impl par0 (exportNet (realCodec m p pd sd) n)).map (exportNet (realCodec m p pd sd))
      = .ok (exportNet (realCodec m p pd sd) n) := by
  rw [parse_export_net_printer (realCodec_printer m p pd sd) impl par0 n hw]
  simp [Except.map, exportNet_canon, exportNet_quant (realCodec_printer m p pd sd) n]

/-- the law the audit proposes in place of `fromSec_toSec` (which is false for doubles): the seconds conversion is
    undone AFTER quantisation.  Over ℚ it follows from the exact law; it is the form that can hold for `double` -/
theorem C13_sec_law_after_quantisation (m : RMode) (p pd : Nat) (sd : ℚ → ℚ → ℚ) (x : ℚ) :
    roundSig m (sigDigits p) ((realCodec m p pd sd).toSec ((realCodec m p pd sd).fromSec (roundSig m (sigDigits p) x)))
      = roundSig m (sigDigits p) x := by
  rw [(realCodec_printer m p pd sd).toSec_fromSec, roundSig_idem m m _ (sigDigits_pos p) x]

/-! ## non-vacuity -/

-- `to_xmlstr(·, 8)`: 1.23456789012 ↦ 1.2345679; 143 = 1001/7 exactly; −5005/3 is rounded; 1e-6 uses the exponent form
example : fmtGenL .halfEven 8 (123456789012 / 100000000000) = "1.2345679".toList := by decide +kernel
example : fmtGenL .halfEven 8 (-5005 / 3) = "-1668.3333".toList := by decide +kernel
example : fmtGenL .halfEven 8 (1 / 1000000) = "1e-06".toList := by decide +kernel
-- the double nearest to 0.1 (0x3fb999999999999a), exactly, at the default 17 digits — and 1/10 itself
example : fmtGenL .halfEven 17 (3602879701896397 / 36028797018963968) = "0.10000000000000001".toList ∧
    fmtGenL .halfEven 17 (1 / 10) = "0.1".toList := by decide +kernel
-- 1.23456789 at four digits; 0.99996 rounds up across the digit boundary and prints as `1`
example : fmtGenL .halfEven 4 (123456789 / 100000000) = "1.235".toList := by decide +kernel
example : fmtGenL .halfEven 4 (99996 / 100000) = "1".toList ∧ roundSig .halfEven 4 (99996 / 100000) = 1 := by decide +kernel
-- the integer codec of `cov-band`
example : fmtIntL (-1) = "-1".toList ∧ rdInt "-1" = some (-1) ∧ rdInt "12" = some 12 := by decide +kernel
-- a plain number is not read as a sexagesimal text, a sexagesimal text is read with its own rounding
example : (realCodec .halfEven 8 4 (fun s d => s * d)).rdDeg ((realCodec .halfEven 8 4 (fun s d => s * d)).fmt (1 / 3)) = none :=
  (realCodec_printer .halfEven 8 4 _).rdDeg_fmt _
-- a network with inconsistent axes, constrained / unused points, a vectors cluster with covariances and numbers the
-- printer rounds meets the side condition; the printer theorems apply to it
set_option maxRecDepth 100000 in
example : (quantNet (realCodec .halfEven 8 8 (fun s d => s * d)) (roundSig .halfEven 8) (roundSig .halfEven 8) qNet).WF
    (realCodec .halfEven 8 8 (fun s d => s * d)) (fun x => roundSig .halfEven 8 x = x) (fun x => roundSig .halfEven 8 x = x) := by
  decide +kernel
set_option maxRecDepth 100000 in
example : parseNet (realCodec .halfEven 8 8 (fun s d => s * d)) (fun _ => 7) qNet.par
      (exportNet (realCodec .halfEven 8 8 (fun s d => s * d)) qNet)
    = .ok (canon (quantNet (realCodec .halfEven 8 8 (fun s d => s * d)) (roundSig .halfEven 8) (roundSig .halfEven 8) qNet)) :=
  C13_roundtrip_network_real .halfEven 8 8 _ _ _ qNet (by decide +kernel)
-- … and the quantisation is not the identity on it
example : (quantNet (realCodec .halfEven 8 8 (fun s d => s * d)) (roundSig .halfEven 8) (roundSig .halfEven 8) qNet).points.map
      (fun p => p.xy) ≠ qNet.points.map (fun p => p.xy) := by decide +kernel

end Gama.Props.C13Codec
