/-
  C13, rows 1 / 8 / 9 for the REAL number printers.  `Props/C13.lean` proves `parseNet (exportNet n) = ok (canon (quantNet n))`
  and the fixed point for an abstract `Codec.PrinterOn D` law (witnessed there by the toy `decCodec` on ℕ); here the law is
  PROVED for what `export_xml` does:
    * numbers — `to_xmlstr(val, prec)` = `ostr << std::setprecision(prec) << std::defaultfloat << val` (`%.{prec}g`), read back
      by `CoreParser::toDouble` (`IsFloat` + `atof`): `Model/DecimalCodec.lean` (`fmtGen`, `rdDecimal`), tied to libstdc++ by
      the `codec` stream;
    * angular values of a document in degrees (`angles="360"`) — `str_val = GNU_gama::gon2deg(m, 0, 4)`, read back by
      `deg2gon` (tried before `toDouble`): C18's models `Gama.Angles.gon2deg` / `deg2gon` (the formatter regenerated from the
      tree, tied by C18's streams) — since round 6 the REAL pair, no stand-in.  Its laws hold on the domain
      `DegDom g := 0 ≤ g ∧ g·0.9 < 2³¹−1` (no sign is printed; `int(gon·0.9)` must exist); the theorems ask the angular
      values of a document in degrees to be there (`Net.AngIn DegDom`; gama keeps them in [0, 400) gon).

  Parameters, and why: `p` — `export_xml` prints with 8, 16 or 17 digits by site, the network model has one `fmt`;
  `m` — the tie rule (glibc: `RMode.halfEven`); `sd` — `apriori_m_0() * sqrt(dist)` is not rational.  Over ℚ `*0.324`,
  `*(1/0.324)` and the latitude unit conversion are exact inverses, so `fromSec_toSec` holds as stated; for doubles only
  the weakened `q (toSec (fromSec (q x))) = q x` can hold (`C13_sec_law_after_quantisation`; measured by C13's own streams).
-/
import Gama.Lemmas.DecimalCodecC13
import Gama.Gen.GkfFmtSites
namespace Gama.Props.C13Codec
open Gama.Export Gama.Dec Gama.Gen.GkfAttrs Gama.Gen.GkfDoc Gama.Gen.GkfFmtSites

/-- the real printers satisfy `Codec.PrinterOn DegDom` with `q = ` rounding to `p` significant digits and `qd = degQ`
    (the value `deg2gon` reads from the text `gon2deg(·, 0, 4)`): all sixteen fields, among them `isZero_q` (a non-zero
    height never prints as zero — true for `%g`, FALSE for a fixed-decimals printer, see `C12Codec.C12_fixed_quantisation`),
    `pos_q`, `q_neg`, `fmt_q`, `rdDeg_fmt` (a `%g` numeral is never taken for a sexagesimal text) and, on `DegDom`, the
    two laws of the sexagesimal text -/
theorem C13_real_codec_printer (m : RMode) (p : Nat) (sd : ℚ → ℚ → ℚ) :
    (realCodec m p sd).PrinterOn DegDom (roundSig m (sigDigits p)) (roundSig m 17) degQ :=
  realCodec_printerOn m p sd

/-- the domain is needed: without it the law is false for the real sexagesimal printer, whatever the quantisations
    (2.4·10⁹ gon prints 2 160 000 000 degrees, which `deg2gon` refuses) -/
theorem C13_real_codec_needs_domain (m : RMode) (p : Nat) (sd : ℚ → ℚ → ℚ) (q qd : ℚ → ℚ) :
    ¬ (realCodec m p sd).Printer q qd :=
  realCodec_not_printer m p sd q qd

/-- hence the exact law on the representable numbers (those with at most `p` significant digits) and the representable
    angles of the domain (those with at most four decimals of the sexagesimal second) -/
theorem C13_real_codec_lawful (m : RMode) (p : Nat) (sd : ℚ → ℚ → ℚ) :
    (realCodec m p sd).LawfulOn (fun x => roundSig m (sigDigits p) x = x) ∧
    (realCodec m p sd).DegLawfulOn (fun x => DegDom x ∧ degQ x = x) :=
  ⟨(realCodec_printerOn m p sd).lawfulOn, (realCodec_printerOn m p sd).degLawfulOn⟩

/-- the size of the quantisation: half a unit of the `p`-th significant digit (relative ≤ ½·10^(1−p)), the value read
    back re-prints as itself, signs are symmetric, zero only for zero -/
theorem C13_real_quantisation (m : RMode) (p : Nat) (x : ℚ) (hx : x ≠ 0) :
    (∃ e : Int, (10 : ℚ) ^ e ≤ |x| ∧ |x| < (10 : ℚ) ^ (e + 1) ∧
      |roundSig m (sigDigits p) x - x| ≤ 1 / 2 * (10 : ℚ) ^ (e - ((sigDigits p : Int) - 1))) ∧
    roundSig m (sigDigits p) (roundSig m (sigDigits p) x) = roundSig m (sigDigits p) x ∧
    roundSig m (sigDigits p) (-x) = -roundSig m (sigDigits p) x ∧ roundSig m (sigDigits p) x ≠ 0 :=
  ⟨roundSig_err m _ (sigDigits_pos p) x hx, roundSig_idem m m _ (sigDigits_pos p) x, roundSig_neg m _ x,
   fun h => hx ((roundSig_eq_zero_iff m _ (sigDigits_pos p) x).mp h)⟩

/-- the sexagesimal quantisation on its domain: the text `gon2deg(g, 0, 4)` exists, is read back by `deg2gon` as `degQ g`,
    `degQ g` is within half a unit of the fourth decimal of the second (1.55·10⁻⁸ gon) of `g`, and prints as the same text
    (C18's string theorem + the projection `gon2deg_degQ`) -/
theorem C13_real_sexagesimal_quantisation (g : ℚ) (hD : DegDom g) :
    (∃ str, Angles.gon2deg g 0 4 = some str ∧ (Angles.deg2gon str : Option ℚ) = some (degQ g)) ∧
    |degQ g - g| ≤ (1 / 2) / (10 : ℚ) ^ 4 / 3600 / (9 / 10) ∧
    Angles.gon2deg (degQ g) 0 4 = Angles.gon2deg g 0 4 :=
  ⟨deg2gon_gon2deg_degQ g hD, (sexagesimal_read_back g hD.1 hD.2).2, gon2deg_degQ g hD⟩

/-- the document does not see the difference between a network and its quantisation (gons and degrees) -/
theorem C13_export_quantised_real (m : RMode) (p : Nat) (sd : ℚ → ℚ → ℚ) (n : Net ℚ) (hD : n.AngIn DegDom) :
    exportNet (realCodec m p sd) (quantNet (realCodec m p sd) (roundSig m (sigDigits p)) (roundSig m 17) degQ n)
      = exportNet (realCodec m p sd) n :=
  exportNet_quant (realCodec_printerOn m p sd) n hD

/-- **row 1 for the real printers, `angles="400"` and `angles="360"`**: reading the export gives the network with every
    number rounded to `p` significant digits and — in degrees — every angular value rounded to four decimals of the
    sexagesimal second, provided the angular values of a document in degrees are in `DegDom` and the rounded values still
    pass the parser's guards (`Net.WF` of the quantised network, decidable) -/
theorem C13_roundtrip_network_real (m : RMode) (p : Nat) (sd : ℚ → ℚ → ℚ) (impl : Kind → ℚ) (par0 : Params ℚ) (n : Net ℚ)
    (hD : n.AngIn DegDom)
    (hw : (quantNet (realCodec m p sd) (roundSig m (sigDigits p)) (roundSig m 17) degQ n).WFc (realCodec m p sd)
      (fun x => roundSig m (sigDigits p) x = x) (fun x => roundSig m 17 x = x) (fun x => DegDom x ∧ degQ x = x)) :
    parseNet (realCodec m p sd) impl par0 (exportNet (realCodec m p sd) n)
      = .ok (canon (quantNet (realCodec m p sd) (roundSig m (sigDigits p)) (roundSig m 17) degQ n)) :=
  parse_export_net_printer (realCodec_printerOn m p sd) impl par0 n hD hw

/-- **row 9 for the real printers**: exporting what was read gives the same document — a fixed point from the first
    round on, although the numbers were rounded.  Gons and degrees. -/
theorem C13_fixed_point_network_real (m : RMode) (p : Nat) (sd : ℚ → ℚ → ℚ) (impl : Kind → ℚ) (par0 : Params ℚ) (n : Net ℚ)
    (hD : n.AngIn DegDom)
    (hw : (quantNet (realCodec m p sd) (roundSig m (sigDigits p)) (roundSig m 17) degQ n).WFc (realCodec m p sd)
      (fun x => roundSig m (sigDigits p) x = x) (fun x => roundSig m 17 x = x) (fun x => DegDom x ∧ degQ x = x)) :
    (parseNet (realCodec m p sd) impl par0 (exportNet (realCodec m p sd) n)).map (exportNet (realCodec m p sd))
      = .ok (exportNet (realCodec m p sd) n) := by
  rw [parse_export_net_printer (realCodec_printerOn m p sd) impl par0 n hD hw]
  simp [Except.map, exportNet_canon, exportNet_quant (realCodec_printerOn m p sd) n hD]

/-! ## round 8: the format at every number-printing site of the export writer (REGENERATED table `Gen/GkfFmtSites.lean`) -/

/-- **every site of `export_xml`, `updated_xml_covmat` and `DisplayObservationVisitor` that prints a floating value has the
    format the round trip is instantiated for.**  The table is regenerated from the C++ on every run (`to_xmlstr(x)` /
    `to_xmlstr(x, N)` calls with the format `to_xmlstr` sets and the default `max_digits10`; `<<` of a `double` with the
    `setf` / `precision` / manipulators in force); it is compared with the sites the model was written for, spelled out:
    a changed `setprecision` / `precision` argument, `floatfield` setting or a new site makes this `decide` fail.
    Then: the one site of `updated_xml_covmat` (the `<cov-mat>` elements) prints `%.16e`; every other site prints `%.{p}g`
    with `p` ∈ {8, 16, 17}. -/
theorem C13_number_sites_formats :
    sites =
      [
       ⟨"export_xml", "epoch=epoch()", .gen 17⟩,
       ⟨"export_xml", "sigma-apr=apriori_m_0()", .gen 8⟩,
       ⟨"export_xml", "conf-pr=conf_pr()", .gen 8⟩,
       ⟨"export_xml", "tol-abs=tol_abs()", .gen 8⟩,
       ⟨"export_xml", "latitude=latitude()*200/M_PI", .gen 17⟩,
       ⟨"export_xml", "cov-band=adj_covband()", .gen 17⟩,
       ⟨"export_xml", "x=point.x()", .gen 16⟩,
       ⟨"export_xml", "y=y_sign()*point.y()", .gen 16⟩,
       ⟨"export_xml", "z=point.z()", .gen 17⟩,
       ⟨"export_xml", "from_dh=fdh", .gen 8⟩,
       ⟨"export_xml", "to_dh=tdh", .gen 8⟩,
       ⟨"export_xml", "from_dh=rdh", .gen 8⟩,
       ⟨"export_xml", "bs_dh=bdh", .gen 8⟩,
       ⟨"export_xml", "fs_dh=fdh", .gen 8⟩,
       ⟨"export_xml", "dist=dist", .gen 17⟩,
       ⟨"updated_xml_covmat", "c", .sci 16⟩,
       ⟨"visit(Distance*)", "str_val=obs->raw_value()", .gen 17⟩,
       ⟨"visit(Distance*)", "str_stdev=obs->stdDev()", .gen 17⟩,
       ⟨"visit(Direction*)", "str_val=m", .gen 17⟩,
       ⟨"visit(Direction*)", "str_stdev=obs->stdDev()*scale", .gen 17⟩,
       ⟨"visit(Angle*)", "str_val=m", .gen 17⟩,
       ⟨"visit(Angle*)", "str_stdev=obs->stdDev()*scale", .gen 17⟩,
       ⟨"visit(H_Diff*)", "str_val=obs->raw_value()", .gen 17⟩,
       ⟨"visit(H_Diff*)", "str_stdev=obs->stdDev()", .gen 17⟩,
       ⟨"visit(S_Distance*)", "str_val=obs->raw_value()", .gen 17⟩,
       ⟨"visit(S_Distance*)", "str_stdev=obs->stdDev()", .gen 17⟩,
       ⟨"visit(Z_Angle*)", "str_val=m", .gen 17⟩,
       ⟨"visit(Z_Angle*)", "str_stdev=obs->stdDev()*scale", .gen 17⟩,
       ⟨"visit(X*)", "str_val=obs->raw_value()", .gen 17⟩,
       ⟨"visit(X*)", "str_stdev=obs->stdDev()", .gen 17⟩,
       ⟨"visit(Y*)", "str_val=lnet->y_sign()*obs->raw_value()", .gen 17⟩,
       ⟨"visit(Y*)", "str_stdev=obs->stdDev()", .gen 17⟩,
       ⟨"visit(Z*)", "str_val=obs->raw_value()", .gen 17⟩,
       ⟨"visit(Z*)", "str_stdev=obs->stdDev()", .gen 17⟩,
       ⟨"visit(Xdiff*)", "str_val=obs->raw_value()", .gen 17⟩,
       ⟨"visit(Xdiff*)", "str_stdev=obs->stdDev()", .gen 17⟩,
       ⟨"visit(Ydiff*)", "str_val=lnet->y_sign()*obs->raw_value()", .gen 17⟩,
       ⟨"visit(Ydiff*)", "str_stdev=obs->stdDev()", .gen 17⟩,
       ⟨"visit(Zdiff*)", "str_val=obs->raw_value()", .gen 17⟩,
       ⟨"visit(Zdiff*)", "str_stdev=obs->stdDev()", .gen 17⟩,
       ⟨"visit(Azimuth*)", "str_val=m", .gen 17⟩,
       ⟨"visit(Azimuth*)", "str_stdev=obs->stdDev()*scale", .gen 17⟩
      ] ∧
    (sites.filter (fun s => s.fn == "updated_xml_covmat")).map (·.fmt) = [.sci 16] ∧
    (∀ s ∈ sites, s.fn ≠ "updated_xml_covmat" → s.fmt = .gen 8 ∨ s.fmt = .gen 16 ∨ s.fmt = .gen 17) := by
  decide

/-- the formats of the table are those of the real codec: the `<cov-mat>` site is `realCodec`'s `fmtCov` (whatever `p`),
    every other site is `realCodec`'s `fmt` for its own `p` ∈ {8, 16, 17} (the model has one `fmt` for all `to_xmlstr`
    sites: `p` stays a parameter of the network theorems) -/
theorem C13_number_sites_are_real_codec (m : RMode) (sd : ℚ → ℚ → ℚ) : ∀ s ∈ sites,
    (s.fn = "updated_xml_covmat" ∧ ∀ p x, (realCodec m p sd).fmtCov x = s.fmt.print m x) ∨
    (s.fn ≠ "updated_xml_covmat" ∧ ∃ p, (p = 8 ∨ p = 16 ∨ p = 17) ∧ ∀ x, (realCodec m p sd).fmt x = s.fmt.print m x) := by
  intro s hs
  by_cases hc : s.fn = "updated_xml_covmat"
  · left
    refine ⟨hc, ?_⟩
    have h1 := C13_number_sites_formats.2.1
    have h2 : s ∈ sites.filter (fun s => s.fn == "updated_xml_covmat") := by
      rw [List.mem_filter]; exact ⟨hs, by simp [hc]⟩
    have h3 : s.fmt ∈ (sites.filter (fun s => s.fn == "updated_xml_covmat")).map (·.fmt) := List.mem_map_of_mem h2
    rw [h1] at h3
    have h4 : s.fmt = .sci 16 := by simpa using h3
    intro p x
    rw [h4]
    rfl
  · right
    refine ⟨hc, ?_⟩
    rcases C13_number_sites_formats.2.2 s hs hc with h | h | h
    · exact ⟨8, Or.inl rfl, fun x => by rw [h]; rfl⟩
    · exact ⟨16, Or.inr (Or.inl rfl), fun x => by rw [h]; rfl⟩
    · exact ⟨17, Or.inr (Or.inr rfl), fun x => by rw [h]; rfl⟩

/-- the per-site law, for every site of the table, every rational and tie rule: the text is read back as the site's
    quantisation, and the quantised value prints as the same text (a projection: no site prints fixed decimals) -/
theorem C13_number_sites_roundtrip (m : RMode) : ∀ s ∈ sites, ∀ x : ℚ,
    rdDecimal (s.fmt.print m x) = some (s.fmt.q m x) ∧ s.fmt.print m (s.fmt.q m x) = s.fmt.print m x := by
  intro s hs x
  refine ⟨rd_print m s.fmt x, ?_⟩
  by_cases hc : s.fn = "updated_xml_covmat"
  · have h2 : s ∈ sites.filter (fun s => s.fn == "updated_xml_covmat") := by
      rw [List.mem_filter]; exact ⟨hs, by simp [hc]⟩
    have h3 : s.fmt ∈ (sites.filter (fun s => s.fn == "updated_xml_covmat")).map (·.fmt) := List.mem_map_of_mem h2
    rw [C13_number_sites_formats.2.1] at h3
    have h4 : s.fmt = .sci 16 := by simpa using h3
    rw [h4]
    exact fmtSci_roundSig m 16 x
  · rcases C13_number_sites_formats.2.2 s hs hc with h | h | h <;> rw [h] <;> exact fmtGen_roundSig m _ x

/-- the `<cov-mat>` elements alone: `%.16e` is read back as the element rounded to 17 significant digits, which re-prints
    identically and is within half a unit of the 17th digit; the sign is symmetric -/
theorem C13_cov_site_roundtrip (m : RMode) (sd : ℚ → ℚ → ℚ) (p : Nat) (x : ℚ) :
    (realCodec m p sd).rd ((realCodec m p sd).fmtCov x) = some (roundSig m 17 x) ∧
    (realCodec m p sd).fmtCov (roundSig m 17 x) = (realCodec m p sd).fmtCov x ∧
    roundSig m 17 (-x) = -roundSig m 17 x ∧
    (x ≠ 0 → ∃ e : Int, (10 : ℚ) ^ e ≤ |x| ∧ |x| < (10 : ℚ) ^ (e + 1) ∧
      |roundSig m 17 x - x| ≤ 1 / 2 * (10 : ℚ) ^ (e - (((17 : Nat) : Int) - 1))) :=
  ⟨rd_fmtSci m 16 x, fmtSci_roundSig m 16 x, roundSig_neg m _ x, fun hx => roundSig_err m 17 (by omega) x hx⟩

/-- the law the audit proposes in place of `fromSec_toSec` (which is false for doubles): the seconds conversion is
    undone AFTER quantisation.  Over ℚ it follows from the exact law; it is the form that can hold for `double` -/
theorem C13_sec_law_after_quantisation (m : RMode) (p : Nat) (sd : ℚ → ℚ → ℚ) (x : ℚ) :
    roundSig m (sigDigits p) ((realCodec m p sd).toSec ((realCodec m p sd).fromSec (roundSig m (sigDigits p) x)))
      = roundSig m (sigDigits p) x := by
  rw [(realCodec_printerOn m p sd).toSec_fromSec, roundSig_idem m m _ (sigDigits_pos p) x]

/-! ## non-vacuity -/

-- `to_xmlstr(·, 8)`: 1.23456789012 ↦ 1.2345679; 143 = 1001/7 exactly; −5005/3 is rounded; 1e-6 uses the exponent form
example : fmtGenL .halfEven 8 (123456789012 / 100000000000) = "1.2345679".toList := by decide +kernel
example : fmtGenL .halfEven 8 (-5005 / 3) = "-1668.3333".toList := by decide +kernel
example : fmtGenL .halfEven 8 (1 / 1000000) = "1e-06".toList := by decide +kernel
-- the double nearest to 0.1 (0x3fb999999999999a), exactly, at the default 17 digits — and 1/10 itself
example : fmtGenL .halfEven 17 (3602879701896397 / 36028797018963968) = "0.10000000000000001".toList ∧
    fmtGenL .halfEven 17 (1 / 10) = "0.1".toList := by decide +kernel
-- 1.23456789 at four digits; 0.99996 rounds up across the digit boundary and prints as `1`
example : fmtGenL .halfEven 4 (123456789 / 100000000) = "1.235".toList := by decide +kernel
example : fmtGenL .halfEven 4 (99996 / 100000) = "1".toList ∧ roundSig .halfEven 4 (99996 / 100000) = 1 := by decide +kernel
-- the `<cov-mat>` printer `%.16e`: 11/3, 2/7, an integer; 17 significant digits whatever `p`
example : fmtSciL .halfEven 16 (11 / 3) = "3.6666666666666667e+00".toList ∧ fmtSciL .halfEven 16 (2 / 7) = "2.8571428571428571e-01".toList ∧
    fmtSciL .halfEven 16 12 = "1.2000000000000000e+01".toList ∧ fmtSciL .halfEven 16 0 = "0.0000000000000000e+00".toList := by
  decide +kernel
-- the integer codec of `cov-band`
example : fmtIntL (-1) = "-1".toList ∧ rdInt "-1" = some (-1) ∧ rdInt "12" = some 12 := by decide +kernel
-- a plain number is not read as a sexagesimal text (not even `1e-05` or `-5`), a sexagesimal text is read with its own rounding
example : (realCodec .halfEven 8 (fun s d => s * d)).rdDeg ((realCodec .halfEven 8 (fun s d => s * d)).fmt (1 / 3)) = none :=
  (realCodec_printerOn .halfEven 8 _).rdDeg_fmt _
set_option maxRecDepth 100000 in
example : (Angles.deg2gon (fmtGen .halfEven 8 (1 / 100000)) : Option ℚ) = none ∧ fmtGen .halfEven 8 (1 / 100000) = "1e-05" := by
  decide +kernel
-- the sexagesimal text of 123.4567 gon = 111.11103° and of 123.45678912 gon (rounded in the fourth decimal of the second);
-- seconds that round to 60 are carried (F14 repaired); the value read back
set_option maxRecDepth 100000 in
example : Angles.gon2deg (1234567 / 10000 : ℚ) 0 4 = some "111-06-39.7080" ∧
    Angles.gon2deg (12345678912 / 100000000 : ℚ) 0 4 = some "111-06-39.9967" ∧
    Angles.gon2deg (3999999999999 / 10000000000 : ℚ) 0 4 = some "360-00-00.0000" := by decide +kernel
set_option maxRecDepth 100000 in
example : degQ (12345678912 / 100000000) = 3999999967 / 32400000 ∧ degQ (12345678912 / 100000000) ≠ 12345678912 / 100000000 ∧
    DegDom (12345678912 / 100000000) := by decide +kernel
-- outside the domain: no sign is printed — the text of −100 gon is read as +100 gon
set_option maxRecDepth 100000 in
example : Angles.gon2deg (-100 : ℚ) 0 4 = some " 90-00-00.0000" ∧ degQ (-100) = 100 ∧ ¬ DegDom (-100) := by decide +kernel
-- a network with inconsistent axes, constrained / unused points, a vectors cluster with covariances and numbers the
-- printer rounds meets the side condition; the printer theorems apply to it
set_option maxRecDepth 100000 in
example : (quantNet (realCodec .halfEven 8 (fun s d => s * d)) (roundSig .halfEven 8) (roundSig .halfEven 17) degQ qNet).WFc
    (realCodec .halfEven 8 (fun s d => s * d)) (fun x => roundSig .halfEven 8 x = x) (fun x => roundSig .halfEven 17 x = x)
    (fun x => DegDom x ∧ degQ x = x) := by
  decide +kernel
set_option maxRecDepth 100000 in
example : parseNet (realCodec .halfEven 8 (fun s d => s * d)) (fun _ => 7) qNet.par
      (exportNet (realCodec .halfEven 8 (fun s d => s * d)) qNet)
    = .ok (canon (quantNet (realCodec .halfEven 8 (fun s d => s * d)) (roundSig .halfEven 8) (roundSig .halfEven 17) degQ qNet)) :=
  C13_roundtrip_network_real .halfEven 8 _ _ _ qNet (Net.angIn_gons _ _ rfl) (by decide +kernel)
-- … and the quantisation is not the identity on it; the covariance elements keep 17 digits (`qc`), not the 8 of `to_xmlstr(·, 8)`
example : (quantNet (realCodec .halfEven 8 (fun s d => s * d)) (roundSig .halfEven 8) (roundSig .halfEven 17) degQ qNet).clusters.map
      (fun c => match c with | .vectors _ cov => cov.data | _ => [])
    = [[36666666666666667 / 10000000000000000, 1, 28571428571428571 / 100000000000000000, 12, 3, 13]] := by decide +kernel
example : (quantNet (realCodec .halfEven 8 (fun s d => s * d)) (roundSig .halfEven 8) (roundSig .halfEven 17) degQ qNet).points.map
      (fun p => p.xy) ≠ qNet.points.map (fun p => p.xy) := by decide +kernel

-- `angles="360"`: the same network written in degrees, with an `<obs>` cluster (direction, distance, angle, zenith angle
-- with a full covariance matrix): angular values as sexagesimal text, standard deviations and covariance rows in
-- seconds.  The angular values are in the domain, the quantised network meets the side condition, the theorems apply,
-- the sexagesimal quantisation is not the identity on it
example : qNetDeg.par.gons = false ∧ qNetDeg.AngIn DegDom := by decide +kernel
set_option maxRecDepth 100000 in
example : (quantNet (realCodec .halfEven 8 (fun s d => s * d)) (roundSig .halfEven 8) (roundSig .halfEven 17) degQ qNetDeg).WFc
    (realCodec .halfEven 8 (fun s d => s * d)) (fun x => roundSig .halfEven 8 x = x) (fun x => roundSig .halfEven 17 x = x)
    (fun x => DegDom x ∧ degQ x = x) := by
  decide +kernel
set_option maxRecDepth 100000 in
example : parseNet (realCodec .halfEven 8 (fun s d => s * d)) (fun _ => 7) qNetDeg.par
      (exportNet (realCodec .halfEven 8 (fun s d => s * d)) qNetDeg)
    = .ok (canon (quantNet (realCodec .halfEven 8 (fun s d => s * d)) (roundSig .halfEven 8) (roundSig .halfEven 17) degQ qNetDeg)) :=
  C13_roundtrip_network_real .halfEven 8 _ _ _ qNetDeg (by decide +kernel) (by decide +kernel)
set_option maxRecDepth 100000 in
example : (parseNet (realCodec .halfEven 8 (fun s d => s * d)) (fun _ => 7) qNetDeg.par
      (exportNet (realCodec .halfEven 8 (fun s d => s * d)) qNetDeg)).map (exportNet (realCodec .halfEven 8 (fun s d => s * d)))
    = .ok (exportNet (realCodec .halfEven 8 (fun s d => s * d)) qNetDeg) :=
  C13_fixed_point_network_real .halfEven 8 _ _ _ qNetDeg (by decide +kernel) (by decide +kernel)
set_option maxRecDepth 100000 in
example : (quantNet (realCodec .halfEven 8 (fun s d => s * d)) (roundSig .halfEven 8) (roundSig .halfEven 17) degQ qNetDeg).clusters.map
      (fun c => match c with | .obs sp _ => sp.obs.map (·.val) | _ => [])
    = [[], [3999999967 / 32400000, 50000500 / 100000, 2345678 / 10000, 100]] := by
  decide +kernel

end Gama.Props.C13Codec
